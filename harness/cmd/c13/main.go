// c13: correspondence harness for C13 (Kubernetes lookups reflect the current pod holding an IP).
//
//	c13 gen [--n N] [--tier quick|thorough] [--stats file]   cases on stdout (VERIF_SEED)
//	c13 run                                                    reads cases, prints what the real Provider answered
//	c13 mk                                                     readable descriptions (stdin) -> case lines with the real regex oracle
//
// Case format: see lean/Gsd/Driver/C13.lean. A head starting with `cfg` is driven through the
// synchronous hook (indexer + the provider's own handler, Peek); `cfgi` through the real informer
// on the fake clientset with a barrier after every event and lookups over IpSink/InfoSource.
package main

import (
	"fmt"
	"os"
	"regexp"
	"sort"
	"strings"
	"sync"
	"time"

	"github.com/atlassian/gostatsd"
	k8s "github.com/atlassian/gostatsd/pkg/cachedinstances/k8s"

	"verifharness/internal/hx"
)

// ---------------------------------------------------------------------------------- case encoding

func encPod(p k8s.VerifPod) string {
	b := []string{hx.S(p.Namespace), hx.S(p.Name), hx.S(p.IP), hx.S(p.HostIP), b01(p.HostNetwork), hx.S(p.Phase), b01(p.Deleting), "L"}
	b = append(b, encMap(p.Labels)...)
	b = append(b, "A")
	b = append(b, encMap(p.Annotations)...)
	return strings.Join(b, " ")
}

func b01(b bool) string {
	if b {
		return "1"
	}
	return "0"
}

func encMap(m map[string]string) []string {
	keys := make([]string, 0, len(m))
	for k := range m {
		keys = append(keys, k)
	}
	sort.Strings(keys)
	out := []string{}
	for _, k := range keys {
		out = append(out, hx.S(k), hx.S(m[k]))
	}
	return out
}

func decMap(toks []string) map[string]string {
	if len(toks)%2 != 0 {
		panic("odd map")
	}
	m := map[string]string{}
	for i := 0; i < len(toks); i += 2 {
		m[hx.MustUnS(toks[i])] = hx.MustUnS(toks[i+1])
	}
	return m
}

func decPod(t []string) k8s.VerifPod {
	if len(t) < 9 || t[7] != "L" {
		panic("bad pod")
	}
	rest := t[8:]
	ai := -1
	for i, x := range rest {
		if x == "A" {
			ai = i
			break
		}
	}
	if ai < 0 {
		panic("bad pod: no A")
	}
	return k8s.VerifPod{
		Namespace: hx.MustUnS(t[0]), Name: hx.MustUnS(t[1]), IP: hx.MustUnS(t[2]), HostIP: hx.MustUnS(t[3]),
		HostNetwork: t[4] == "1", Phase: hx.MustUnS(t[5]), Deleting: t[6] == "1",
		Labels: decMap(rest[:ai]), Annotations: decMap(rest[ai+1:]),
	}
}

// oracleEntry asks the real regexp library; nothing of getTagNameFromRegex is re-implemented: the
// record is match[0] and the texts of the groups named "tag", in SubexpNames order.
func oracleEntry(re *regexp.Regexp, src, key string) string {
	m := re.FindStringSubmatch(key)
	if m == nil {
		return "o " + hx.S(src) + " " + hx.S(key) + " n"
	}
	out := []string{"o", hx.S(src), hx.S(key), "m", hx.S(m[0])}
	for i, n := range re.SubexpNames() {
		if n == k8s.TagNameRegexSubexp {
			out = append(out, hx.S(m[i]))
		}
	}
	return strings.Join(out, " ")
}

// -------------------------------------------------------------------------------------- generator

var labelRegexes = []string{
	"-", "^app$", "app", "^(?P<tag>app|tier)$", ".*", "^lbl\\.(?P<tag>.*)$", "x*", "^(?P<tag>[a-z]*)",
	"^(?P<name>[a-z]+)\\.(?P<tag>[a-z]*)$", "(?P<tag>)", "^$", "^(?P<tag>t)?.*$", "(?P<tag>er)|p", "^(?P<tag>x)?(?P<tag>.*)$",
}
var annRegexes = []string{
	"-", k8s.DefaultAnnotationTagRegex, "^product\\.company\\.com/(?P<tag>.*)$", ".*", "^(?P<tag>.*)/", "/", "x*",
	"^[^/]*/(?P<tag>[a-z0-9]*)$", "^(?P<tag>)gostatsd", "(?P<tag>tag[0-9])?$", "^(?P<tag>x*)[^/]*/(?P<tag>.*)$",
}
var labelKeys = []string{"app", "tier", "lbl.team", "lbl.", "x", "xx", "other", "a", "team.core", "é"}
var annKeys = []string{
	k8s.AnnotationPrefix + "tag1", k8s.AnnotationPrefix + "tag2", k8s.AnnotationPrefix, "product.company.com/tag2",
	"tag3", "x", "other/thing", "a/b/c", "/",
}
var values = []string{"web", "api", "", "v:1", "1", "prod", "a b", "ü"}
var ipPool = []string{"10.0.0.1", "10.0.0.2", "10.0.0.3", "10.0.0.4", "::1"}
var hostIPs = []string{"192.168.0.1", "192.168.0.2", ""}
var phases = []string{"Running", "Running", "Running", "Pending", "Succeeded", "Failed", "Unknown", ""}
var namespaces = []string{"ns1", "ns2", "kube-system"}
var names = []string{"p0", "p1", "p2", "p3", "web-5d9c", "p0-x"}

// indexableHyp is the harness's statement of the *hypothesis* "running, non-host-network pod with an
// IP" (used to keep generated histories inside the property's quantifier and for the statistics)
func indexableHyp(p k8s.VerifPod) bool {
	return p.IP != "" && p.Phase != "Succeeded" && p.Phase != "Failed" && !p.Deleting && !p.HostNetwork && p.IP != p.HostIP
}

type shadow struct {
	pods    map[string]k8s.VerifPod // key ns/name
	version map[string]int
	nextVer int
}

func key(p k8s.VerifPod) string { return p.Namespace + "/" + p.Name }

func (s *shadow) holder(ip string) string {
	for k, p := range s.pods {
		if indexableHyp(p) && p.IP == ip {
			return fmt.Sprintf("%s@%d", k, s.version[k])
		}
	}
	return ""
}

func (s *shadow) conflict(p k8s.VerifPod) bool {
	if !indexableHyp(p) {
		return false
	}
	for k, q := range s.pods {
		if k != key(p) && indexableHyp(q) && q.IP == p.IP {
			return true
		}
	}
	return false
}

func (s *shadow) sortedKeys() []string {
	ks := make([]string, 0, len(s.pods))
	for k := range s.pods {
		ks = append(ks, k)
	}
	sort.Strings(ks)
	return ks
}

func cloneMap(m map[string]string) map[string]string {
	c := map[string]string{}
	for k, v := range m {
		c[k] = v
	}
	return c
}

func genMap(r *hx.Rng, keys []string) map[string]string {
	m := map[string]string{}
	n := r.Intn(4)
	for i := 0; i < n; i++ {
		m[hx.Pick(r, keys)] = hx.Pick(r, values)
	}
	return m
}

func editMap(r *hx.Rng, m map[string]string, keys []string) map[string]string {
	c := cloneMap(m)
	ks := make([]string, 0, len(c))
	for k := range c {
		ks = append(ks, k)
	}
	sort.Strings(ks)
	switch {
	case len(ks) > 0 && r.Chance(1, 4): // remove
		delete(c, hx.Pick(r, ks))
	case len(ks) > 0 && r.Chance(1, 3): // change a value
		c[hx.Pick(r, ks)] = hx.Pick(r, values)
	case len(ks) > 0 && r.Chance(1, 3): // rename a key (changes which keys match)
		k := hx.Pick(r, ks)
		v := c[k]
		delete(c, k)
		c[hx.Pick(r, keys)] = v
	default:
		c[hx.Pick(r, keys)] = hx.Pick(r, values)
	}
	return c
}

func genCase(r *hx.Rng, tier string, st *hx.Stats, informer bool) string {
	labSrc := hx.Pick(r, labelRegexes)
	annSrc := hx.Pick(r, annRegexes)
	if r.Chance(1, 3) {
		annSrc = k8s.DefaultAnnotationTagRegex
	}
	nops := r.Range(5, 50)
	if tier == "thorough" && r.Chance(1, 5) {
		nops = r.Range(50, 200)
	}
	if informer {
		nops = r.Range(5, 30)
	}
	sh := &shadow{pods: map[string]k8s.VerifPod{}, version: map[string]int{}}
	ops := []string{}
	pods := []k8s.VerifPod{} // every version mentioned (for the oracle)
	lastSeen := map[string]string{}
	lastPod := map[string]string{} // ip -> key of the last pod a lookup of that ip should have seen
	freed := ""                    // an IP whose holder was just deleted / finished / moved away
	looked := map[string]bool{}
	hits := map[string]bool{}
	nontrivial := false

	lookup := func(ip string) {
		ops = append(ops, "l "+hx.S(ip))
		h := sh.holder(ip)
		if prev, ok := lastSeen[ip]; ok {
			if prev != h {
				nontrivial = true
				hits["answer-changed-since-last-lookup"] = true
			} else if h != "" {
				hits["memo-hit"] = true
			} else {
				hits["repeated-miss"] = true
			}
		}
		lastSeen[ip] = h
		if h != "" {
			k := strings.Split(h, "@")[0]
			if prev, ok := lastPod[ip]; ok && prev != k {
				hits["ip-reused-by-other-pod"] = true
			}
			lastPod[ip] = k
		}
		looked[ip] = true
	}
	lookupsAround := func(ips ...string) {
		for _, ip := range ips {
			if ip != "" && r.Chance(4, 5) {
				lookup(ip)
			}
		}
		if r.Chance(1, 3) {
			lookup(hx.Pick(r, ipPool))
		}
		if r.Chance(1, 25) {
			lookup("")
		}
		if r.Chance(1, 25) {
			lookup("172.16.9.9")
		}
	}
	newPod := func(k string) k8s.VerifPod {
		parts := strings.SplitN(k, "/", 2)
		p := k8s.VerifPod{Namespace: parts[0], Name: parts[1], HostIP: hx.Pick(r, hostIPs), Phase: hx.Pick(r, phases),
			Labels: genMap(r, labelKeys), Annotations: genMap(r, annKeys)}
		if r.Chance(4, 5) {
			p.IP = hx.Pick(r, ipPool)
		}
		if freed != "" && r.Chance(1, 2) {
			p.IP = freed // delete-then-reuse
			p.Phase = "Running"
		}
		if r.Chance(1, 10) {
			p.HostNetwork = true
		}
		if r.Chance(1, 12) && p.IP != "" {
			p.HostIP = p.IP
		}
		return p
	}
	// make p compatible with the distinct-IP hypothesis: move it to a free IP, or leave it non-indexable
	fit := func(p k8s.VerifPod) k8s.VerifPod {
		for try := 0; try < 6 && sh.conflict(p); try++ {
			p.IP = hx.Pick(r, ipPool)
		}
		if sh.conflict(p) {
			switch r.Intn(3) {
			case 0:
				p.Phase = "Succeeded"
			case 1:
				p.IP = ""
			default:
				p.HostNetwork = true
			}
		}
		return p
	}
	apply := func(tag string, p k8s.VerifPod) {
		ops = append(ops, tag+" "+encPod(p))
		pods = append(pods, p)
		sh.pods[key(p)] = p
		sh.nextVer++
		sh.version[key(p)] = sh.nextVer
	}

	for len(ops) < nops {
		ks := sh.sortedKeys()
		c := r.Intn(100)
		switch {
		case len(ks) == 0 || c < 22: // add
			ns := hx.Pick(r, namespaces)
			if !informer && r.Chance(1, 40) {
				ns = ""
			}
			k := ns + "/" + hx.Pick(r, names)
			_, exists := sh.pods[k]
			p := fit(newPod(k))
			if indexableHyp(p) && looked[p.IP] {
				hits["add-on-looked-up-ip"] = true
			}
			if p.HostNetwork || (p.IP != "" && p.IP == p.HostIP) {
				hits["host-network-pod"] = true
			}
			tag := "a"
			if exists {
				tag = "u"
				hits["add-of-existing"] = true
			}
			old := sh.pods[k]
			apply(tag, p)
			lookupsAround(p.IP, old.IP)
		case c < 70: // update
			k := hx.Pick(r, ks)
			old := sh.pods[k]
			p := old
			p.Labels, p.Annotations = cloneMap(old.Labels), cloneMap(old.Annotations)
			switch r.Intn(10) {
			case 0, 1:
				p.Labels = editMap(r, p.Labels, labelKeys)
				hits["label-edit"] = true
			case 2, 3:
				p.Annotations = editMap(r, p.Annotations, annKeys)
				hits["annotation-edit"] = true
			case 4:
				p.IP = hx.Pick(r, ipPool)
				hits["ip-change"] = true
			case 5:
				if p.IP == "" {
					p.IP = hx.Pick(r, ipPool)
					hits["ip-assigned"] = true
				} else if r.Chance(1, 3) {
					p.IP = ""
					hits["ip-unset"] = true
				} else {
					p.Phase = "Running"
				}
			case 6:
				p.Phase = hx.Pick(r, []string{"Succeeded", "Failed"})
				hits["pod-finished"] = true
			case 7:
				p.Phase = hx.Pick(r, phases)
			case 8:
				if r.Bool() {
					p.Deleting = !p.Deleting
					hits["deletion-timestamp"] = true
				} else {
					p.HostNetwork = !p.HostNetwork
					hits["host-network-toggle"] = true
				}
			default:
				// no change at all (a Sync delta) or only the host IP
				if r.Bool() {
					p.HostIP = hx.Pick(r, hostIPs)
				}
				hits["noop-update"] = true
			}
			p = fit(p)
			if !indexableHyp(old) && indexableHyp(p) {
				hits["became-indexable"] = true
			}
			if indexableHyp(old) && (!indexableHyp(p) || p.IP != old.IP) {
				freed = old.IP
			}
			if !informer && old.IP != "" && r.Chance(1, 8) {
				// the update is handled while a lookup of the pod's IP is in flight (between the
				// provider's informer read and its memo write)
				ops = append(ops, "x "+hx.S(old.IP)+" u "+encPod(p))
				pods = append(pods, p)
				sh.pods[key(p)] = p
				sh.nextVer++
				sh.version[key(p)] = sh.nextVer
				hits["racing-lookup"] = true
			} else {
				apply("u", p)
			}
			lookupsAround(old.IP, p.IP)
		case c < 88: // delete
			tag := "d"
			if r.Chance(1, 3) {
				tag = "t"
			}
			if r.Chance(1, 12) {
				// a Deleted event for a pod the store does not hold
				k := hx.Pick(r, namespaces) + "/" + hx.Pick(r, names)
				if _, ok := sh.pods[k]; !ok {
					p := newPod(k)
					ops = append(ops, tag+" "+encPod(p))
					pods = append(pods, p)
					hits["delete-of-unknown"] = true
					lookupsAround(p.IP)
					continue
				}
			}
			k := hx.Pick(r, ks)
			p := sh.pods[k]
			if !informer && p.IP != "" && r.Chance(1, 8) {
				ops = append(ops, "x "+hx.S(p.IP)+" "+tag+" "+encPod(p))
				hits["racing-lookup"] = true
			} else {
				ops = append(ops, tag+" "+encPod(p))
			}
			delete(sh.pods, k)
			delete(sh.version, k)
			hits["delete-"+tag] = true
			if indexableHyp(p) {
				freed = p.IP
			}
			lookupsAround(p.IP)
		case c < 92:
			ops = append(ops, "r")
			hits["resync"] = true
			lookupsAround()
		default:
			lookup(hx.Pick(r, ipPool))
		}
	}

	// regex oracle: every (regex, key) over a superset of the keys of the case
	head := []string{"cfg"}
	if informer {
		head[0] = "cfgi"
	}
	head = append(head, reTok(labSrc), reTok(annSrc))
	keySet := map[string]bool{}
	for _, p := range pods {
		for k := range p.Labels {
			keySet[k] = true
		}
		for k := range p.Annotations {
			keySet[k] = true
		}
	}
	allKeys := make([]string, 0, len(keySet))
	for k := range keySet {
		allKeys = append(allKeys, k)
	}
	sort.Strings(allKeys)
	seenRe := map[string]bool{}
	for _, src := range []string{labSrc, annSrc} {
		if src == "-" || seenRe[src] {
			continue
		}
		seenRe[src] = true
		re := regexp.MustCompile(src)
		for _, k := range allKeys {
			head = append(head, oracleEntry(re, src, k))
		}
	}
	line := strings.Join(head, " ") + " ; " + strings.Join(ops, " ; ")
	st.Case(line, nontrivial)
	for h := range hits {
		st.Hit(h)
	}
	st.Hit(fmt.Sprintf("ops<=%d", bucketOf(len(ops))))
	st.Hit("label-regex " + labSrc)
	st.Hit("annotation-regex " + annSrc)
	if informer {
		st.Hit("mode informer")
	} else {
		st.Hit("mode sync-hook")
	}
	return line
}

func reTok(src string) string {
	if src == "-" {
		return "-"
	}
	return hx.S(src)
}

func bucketOf(n int) int {
	for _, b := range []int{5, 10, 20, 30, 50, 100, 200} {
		if n <= b {
			return b
		}
	}
	return 1 << 30
}

func gen(args []string) {
	r := hx.NewRng(hx.Seed())
	n := hx.ArgInt(args, "--n", 300)
	tier := hx.Arg(args, "--tier", "quick")
	st := hx.NewStats("random histories of 5..50 (thorough: ..200) add/update/delete/tombstone/resync events over 18 pod identities, 5 IPs, phases, host-network, deletion timestamps, label/annotation edits, with lookups around every event; histories keep the hypothesis 'indexable pods have distinct IPs'; label/annotation regexes from families with and without (?P<tag>..), incl. regexes matching the empty string; non-trivial = some IP is looked up twice with a different correct answer (different pod, different version, appeared or gone) in between, i.e. the memo had to be invalidated or a memoised nil recomputed; distinct by case text")
	for i := 0; i < n; i++ {
		informer := tier == "thorough" && i%10 == 9
		fmt.Fprintln(hx.Out, genCase(r.Fork(), tier, st, informer))
	}
	hx.Out.Flush()
	st.Write(hx.Arg(args, "--stats", ""))
}

// ----------------------------------------------------------------------------------------- runner

func render(inst *gostatsd.Instance) string {
	if inst == nil {
		return "none"
	}
	tags := make([]string, len(inst.Tags))
	for i, t := range inst.Tags {
		tags[i] = hx.S(t)
	}
	sort.Strings(tags)
	return strings.Join(append([]string{"i", hx.S(string(inst.ID))}, tags...), " ")
}

func kindOf(tag string) string {
	switch tag {
	case "a":
		return "add"
	case "u":
		return "update"
	case "d":
		return "delete"
	case "t":
		return "tombstone"
	case "r":
		return "resync"
	}
	panic("bad event tag " + tag)
}

const stepTimeout = 5 * time.Second

func runCase(line string) string {
	parts := hx.SplitBy(hx.Tokens(line), ";")
	if len(parts) == 0 || len(parts[0]) < 3 || (parts[0][0] != "cfg" && parts[0][0] != "cfgi") {
		return "BAD_CASE"
	}
	informer := parts[0][0] == "cfgi"
	compile := func(tok string) *regexp.Regexp {
		if tok == "-" {
			return nil
		}
		return regexp.MustCompile(hx.MustUnS(tok))
	}
	labRe, annRe := compile(parts[0][1]), compile(parts[0][2])
	// the oracle column must be what the library answers now, and a function of (regex, key)
	for _, e := range hx.SplitBy(parts[0][3:], "o")[1:] {
		if len(e) < 3 {
			return "BAD_CASE"
		}
		src, k := hx.MustUnS(e[0]), hx.MustUnS(e[1])
		re := regexp.MustCompile(src)
		if got := oracleEntry(re, src, k); got != "o "+strings.Join(e, " ") || got != oracleEntry(re, src, k) {
			return "ORACLE_INCONSISTENT " + e[0] + " " + e[1]
		}
	}
	vp, err := k8s.VerifNewProvider(annRe, labRe)
	if err != nil {
		return "PANIC NewProvider: " + err.Error()
	}
	if informer {
		if err := vp.VerifStart(stepTimeout); err != nil {
			return "HANG " + err.Error()
		}
		defer vp.VerifStop()
	}
	event := func(toks []string) error {
		kind := kindOf(toks[0])
		var pod k8s.VerifPod
		if kind != "resync" {
			pod = decPod(toks[1:])
		}
		if informer {
			if err := vp.VerifClientApply(kind, pod); err != nil {
				return err
			}
			return vp.VerifBarrier(stepTimeout)
		}
		return vp.VerifApply(kind, pod)
	}
	answers := []string{}
	for opIdx, op := range parts[1:] {
		if len(op) == 0 {
			continue
		}
		switch op[0] {
		case "l":
			ip := hx.MustUnS(op[1])
			ambiguous := vp.VerifIndexCount(ip) > 1
			var inst *gostatsd.Instance
			if informer {
				inst, err = vp.VerifChannelLookup(ip, stepTimeout)
				if err != nil {
					return "HANG " + err.Error()
				}
			} else {
				inst = vp.VerifLookup(ip)
			}
			if ambiguous {
				answers = append(answers, "AMBIG")
			} else {
				answers = append(answers, render(inst))
			}
		case "x":
			if informer {
				return "BAD_CASE race ops need the synchronous hook"
			}
			ip := hx.MustUnS(op[1])
			ambiguous := vp.VerifIndexCount(ip) > 1
			var e error
			// every other racing lookup is itself overlapped by a second lookup of the same address that starts after
			// the event and completes first (it is not an op of the case: a lookup of the current state changes nothing
			// a later answer may depend on)
			nested := opIdx%2 == 1
			inst := vp.VerifRaceLookup(ip, func() {
				e = event(op[2:])
				if nested && e == nil {
					vp.VerifLookup(ip)
				}
			})
			if e != nil {
				return "PANIC event: " + e.Error()
			}
			if ambiguous {
				answers = append(answers, "AMBIG")
			} else {
				answers = append(answers, render(inst))
			}
		default:
			if err := event(op); err != nil {
				if informer {
					return "HANG " + err.Error()
				}
				return "PANIC event: " + err.Error()
			}
		}
	}
	if len(answers) == 0 {
		return "-"
	}
	return strings.Join(answers, " | ")
}

func runOne(line string) (out string) {
	done := make(chan string, 1)
	go func() {
		defer func() {
			if e := recover(); e != nil {
				done <- fmt.Sprintf("PANIC %v", e)
			}
		}()
		done <- runCase(line)
	}()
	select {
	case o := <-done:
		return strings.ReplaceAll(o, "\n", " ")
	case <-time.After(120 * time.Second):
		return "HANG"
	}
}

// ------------------------------------------------------------------------------- readable cases
//
// `c13 mk` turns readable one-line descriptions (stdin) into case lines with the real regex oracle:
//
//	[informer] lab=REGEX|- ann=REGEX|- ; a ns/name ip=.. host=.. phase=.. hn=1 del=1 l:KEY=VAL a:KEY=VAL ; l IP ; d ns/name .. ; t .. ; r ; x IP u ns/name ..
//
// (no blanks inside regexes, keys or values; `_` alone stands for the empty string)
func mkPod(toks []string) k8s.VerifPod {
	nn := strings.SplitN(toks[0], "/", 2)
	p := k8s.VerifPod{Namespace: un(nn[0]), Name: un(nn[1]), Labels: map[string]string{}, Annotations: map[string]string{}}
	for _, t := range toks[1:] {
		kv := strings.SplitN(t, "=", 2)
		if len(kv) != 2 {
			panic("bad attribute " + t)
		}
		switch {
		case kv[0] == "ip":
			p.IP = un(kv[1])
		case kv[0] == "host":
			p.HostIP = un(kv[1])
		case kv[0] == "phase":
			p.Phase = un(kv[1])
		case kv[0] == "hn":
			p.HostNetwork = kv[1] == "1"
		case kv[0] == "del":
			p.Deleting = kv[1] == "1"
		case strings.HasPrefix(kv[0], "l:"):
			p.Labels[un(kv[0][2:])] = un(kv[1])
		case strings.HasPrefix(kv[0], "a:"):
			p.Annotations[un(kv[0][2:])] = un(kv[1])
		default:
			panic("bad attribute " + t)
		}
	}
	return p
}

func un(s string) string {
	if s == "_" {
		return ""
	}
	return s
}

func mkLine(line string) string {
	parts := strings.Split(line, ";")
	headToks := strings.Fields(parts[0])
	mode, lab, ann := "cfg", "-", "-"
	for _, t := range headToks {
		switch {
		case t == "informer":
			mode = "cfgi"
		case strings.HasPrefix(t, "lab="):
			lab = t[4:]
		case strings.HasPrefix(t, "ann="):
			ann = t[4:]
		default:
			panic("bad head token " + t)
		}
	}
	ops := []string{}
	keySet := map[string]bool{}
	var mkEvent func(toks []string) string
	mkEvent = func(toks []string) string {
		switch toks[0] {
		case "r":
			return "r"
		case "a", "u", "d", "t":
			p := mkPod(toks[1:])
			for k := range p.Labels {
				keySet[k] = true
			}
			for k := range p.Annotations {
				keySet[k] = true
			}
			return toks[0] + " " + encPod(p)
		}
		panic("bad op " + toks[0])
	}
	for _, o := range parts[1:] {
		toks := strings.Fields(o)
		if len(toks) == 0 {
			continue
		}
		switch toks[0] {
		case "l":
			ops = append(ops, "l "+hx.S(un(toks[1])))
		case "x":
			ops = append(ops, "x "+hx.S(un(toks[1]))+" "+mkEvent(toks[2:]))
		default:
			ops = append(ops, mkEvent(toks))
		}
	}
	head := []string{mode, reTok(lab), reTok(ann)}
	keys := make([]string, 0, len(keySet))
	for k := range keySet {
		keys = append(keys, k)
	}
	sort.Strings(keys)
	seen := map[string]bool{}
	for _, src := range []string{lab, ann} {
		if src == "-" || seen[src] {
			continue
		}
		seen[src] = true
		re := regexp.MustCompile(src)
		for _, k := range keys {
			head = append(head, oracleEntry(re, src, k))
		}
	}
	return strings.Join(head, " ") + " ; " + strings.Join(ops, " ; ")
}

func main() {
	if len(os.Args) < 2 {
		fmt.Fprintln(os.Stderr, "usage: c13 gen|run")
		os.Exit(2)
	}
	switch os.Args[1] {
	case "gen":
		gen(os.Args[2:])
	case "mk":
		hx.Lines(func(line string) {
			if strings.HasPrefix(line, "#") || strings.TrimSpace(line) == "" {
				fmt.Fprintln(hx.Out, line)
				return
			}
			fmt.Fprintln(hx.Out, mkLine(line))
		})
		hx.Out.Flush()
	case "run":
		lines := []string{}
		hx.Lines(func(line string) { lines = append(lines, line) })
		outs := make([]string, len(lines))
		var wg sync.WaitGroup
		sem := make(chan struct{}, 16)
		for i := range lines {
			wg.Add(1)
			sem <- struct{}{}
			go func(i int) {
				defer wg.Done()
				defer func() { <-sem }()
				outs[i] = runOne(lines[i])
			}(i)
		}
		wg.Wait()
		for _, o := range outs {
			fmt.Fprintln(hx.Out, o)
		}
		hx.Out.Flush()
	default:
		os.Exit(2)
	}
}
