// c17: correspondence harness for C17 (backend payloads contain every series exactly once and are
// well formed; the statsd relay's output parses back under gostatsd's own lexer).
//
//	c17 gen [--n N] [--tier quick|thorough] [--stats file]   cases on stdout (VERIF_SEED)
//	c17 run                                                   reads cases, prints what the real backends emitted
//
// A case is one backend configuration plus one flushed view (produced in `gen` by the real
// MetricAggregator.Flush); `run` rebuilds the flushed MetricMap, drives the real backend against a
// capturing server / socket / fake API, parses every payload back and prints an order-free summary.
package main

import (
	"fmt"
	"math"
	"os"
	"sort"
	"strconv"
	"strings"
	"time"

	"github.com/atlassian/gostatsd"

	"verifharness/internal/hx"
)

// ---------------------------------------------------------------------------------- case model

type series struct {
	Kind    byte // c g s t
	Name    string
	Src     string
	TagsKey string
	Tags    []string

	CVal    int64
	Rate    float64 // counter / timer per second
	GVal    float64
	Members []string

	Hist    bool
	Buckets []bucket
	Count   int
	Min, Max, Mean, Median, StdDev, Sum, SumSquares float64
	Pcts    []gostatsd.Percentile
	Values  []float64
}

type bucket struct {
	Thr   float64
	Count int
}

type config struct {
	Backend string
	Batch   int
	Mask    [9]bool // lower upper count count_ps mean median std sum sum_squares
	Det     bool
	Z       bool
	GMode   string
	GP, GC, GT, GG, GS, GX string
	NR      string
	OH      bool
	RK      []string
	NT      bool
	TCP     bool
}

type event struct {
	Title, Text string
	Date        int64
	Host, Agg, SrcType string
	Pri, Alert  int
	Tags        []string
}

// ------------------------------------------------------------------------------------ encoding

// fmtF is the formatter whose behaviour the round-trip theorem takes as a hypothesis (`%f`).
func fmtF(x float64) string { return fmt.Sprintf("%f", x) }

var fmtChecked, fmtExact int

// vf renders a float value with its formatter oracle and spot-checks the hypotheses:
// the `%f` text parses back (ParseFloat ∘ %f), stays within 5e-7 (relative to magnitude) of the value.
func vf(x float64) string {
	ft := fmtF(x)
	back, err := strconv.ParseFloat(ft, 64)
	if err != nil {
		panic(fmt.Sprintf("formatter hypothesis violated: %%f of %v = %q does not parse", x, ft))
	}
	if !(math.Abs(back-x) <= 5e-7+math.Abs(x)*1e-15) {
		panic(fmt.Sprintf("formatter hypothesis violated: %%f of %v parses back to %v", x, back))
	}
	fmtChecked++
	if back == x {
		fmtExact++
	}
	// %g (influxdb) and JSON numbers must be exact
	if g, err := strconv.ParseFloat(fmt.Sprintf("%g", x), 64); err != nil || g != x {
		panic(fmt.Sprintf("formatter hypothesis violated: %%g of %v", x))
	}
	return hx.F(x) + " " + hx.F(back) + " " + hx.S(ft)
}

func vi(i int64) string {
	ft := fmt.Sprintf("%d", i)
	back, err := strconv.ParseInt(ft, 10, 64)
	if err != nil || back != i || float64(i) != math.Trunc(float64(i)) || int64(float64(i)) != i {
		panic("formatter hypothesis violated: %d")
	}
	return hx.F(float64(i)) + " " + hx.F(float64(i)) + " " + hx.S(ft)
}

func leText(thr float64) string { return strconv.FormatFloat(thr, 'f', -1, 64) }

func b2s(b bool) string {
	if b {
		return "1"
	}
	return "0"
}

func (c config) encode() string {
	m := ""
	for _, b := range c.Mask {
		m += b2s(b)
	}
	rk := "-"
	if len(c.RK) > 0 {
		parts := make([]string, len(c.RK))
		for i, k := range c.RK {
			parts[i] = hx.S(k)
		}
		rk = strings.Join(parts, ",")
	}
	return fmt.Sprintf("%s B=%d m=%s det=%s z=%s gm=%s gp=%s gc=%s gt=%s gg=%s gs=%s gx=%s nr=%s oh=%s rk=%s nt=%s tcp=%s",
		c.Backend, c.Batch, m, b2s(c.Det), b2s(c.Z), c.GMode, hx.S(c.GP), hx.S(c.GC), hx.S(c.GT), hx.S(c.GG), hx.S(c.GS), hx.S(c.GX),
		c.NR, b2s(c.OH), rk, b2s(c.NT), b2s(c.TCP))
}

func decodeConfig(toks []string) config {
	c := config{Backend: toks[0]}
	kv := map[string]string{}
	for _, t := range toks[1:] {
		if i := strings.IndexByte(t, '='); i > 0 {
			kv[t[:i]] = t[i+1:]
		}
	}
	c.Batch, _ = strconv.Atoi(kv["B"])
	for i := 0; i < 9 && i < len(kv["m"]); i++ {
		c.Mask[i] = kv["m"][i] == '1'
	}
	c.Det = kv["det"] == "1"
	c.Z = kv["z"] == "1"
	c.GMode = kv["gm"]
	c.GP, c.GC, c.GT, c.GG, c.GS, c.GX = hx.MustUnS(kv["gp"]), hx.MustUnS(kv["gc"]), hx.MustUnS(kv["gt"]), hx.MustUnS(kv["gg"]), hx.MustUnS(kv["gs"]), hx.MustUnS(kv["gx"])
	c.NR = kv["nr"]
	c.OH = kv["oh"] == "1"
	if kv["rk"] != "-" && kv["rk"] != "" {
		for _, t := range strings.Split(kv["rk"], ",") {
			c.RK = append(c.RK, hx.MustUnS(t))
		}
	}
	c.NT = kv["nt"] == "1"
	c.TCP = kv["tcp"] == "1"
	return c
}

func (c config) subtypes() gostatsd.TimerSubtypes {
	return gostatsd.TimerSubtypes{Lower: c.Mask[0], Upper: c.Mask[1], Count: c.Mask[2], CountPerSecond: c.Mask[3],
		Mean: c.Mask[4], Median: c.Mask[5], StdDev: c.Mask[6], Sum: c.Mask[7], SumSquares: c.Mask[8]}
}

func (s series) encode() string {
	var b strings.Builder
	b.WriteByte(s.Kind)
	fmt.Fprintf(&b, " %s %s %s %d", hx.S(s.Name), hx.S(s.Src), hx.S(s.TagsKey), len(s.Tags))
	for _, t := range s.Tags {
		b.WriteString(" " + hx.S(t))
	}
	switch s.Kind {
	case 'c':
		b.WriteString(" " + vi(s.CVal) + " " + vf(s.Rate))
	case 'g':
		b.WriteString(" " + vf(s.GVal))
	case 's':
		b.WriteString(" " + vi(int64(len(s.Members))))
		fmt.Fprintf(&b, " %d", len(s.Members))
		for _, m := range s.Members {
			b.WriteString(" " + hx.S(m))
		}
	case 't':
		fmt.Fprintf(&b, " %s %d", b2s(s.Hist), len(s.Buckets))
		for _, bk := range s.Buckets {
			fmt.Fprintf(&b, " %s %s %s %s", hx.S(leText(bk.Thr)), hx.F(bk.Thr), b2s(math.IsInf(bk.Thr, 1)), vi(int64(bk.Count)))
		}
		b.WriteString(" " + vi(int64(s.Count)))
		for _, x := range []float64{s.Rate, s.Min, s.Max, s.Mean, s.Median, s.StdDev, s.Sum, s.SumSquares} {
			b.WriteString(" " + vf(x))
		}
		b.WriteString(" " + vi(int64(len(s.Values))))
		fmt.Fprintf(&b, " %d", len(s.Pcts))
		for _, p := range s.Pcts {
			b.WriteString(" " + hx.S(p.Str) + " " + vf(p.Float))
		}
		fmt.Fprintf(&b, " %d", len(s.Values))
		for _, x := range s.Values {
			b.WriteString(" " + vf(x))
		}
	}
	return b.String()
}

type tokReader struct {
	t []string
	i int
}

func (r *tokReader) next() string {
	if r.i >= len(r.t) {
		panic("case truncated")
	}
	r.i++
	return r.t[r.i-1]
}
func (r *tokReader) str() string { return hx.MustUnS(r.next()) }
func (r *tokReader) int() int    { n, err := strconv.Atoi(r.next()); must(err); return n }
func (r *tokReader) v() float64 {
	e := hx.MustUnF(r.next())
	r.next()
	r.next()
	return e
}

func must(err error) {
	if err != nil {
		panic(err)
	}
}

func decodeSeries(toks []string) series {
	r := &tokReader{t: toks}
	s := series{Kind: r.next()[0]}
	s.Name, s.Src, s.TagsKey = r.str(), r.str(), r.str()
	for n := r.int(); n > 0; n-- {
		s.Tags = append(s.Tags, r.str())
	}
	switch s.Kind {
	case 'c':
		s.CVal = int64(r.v())
		s.Rate = r.v()
	case 'g':
		s.GVal = r.v()
	case 's':
		r.v()
		for n := r.int(); n > 0; n-- {
			s.Members = append(s.Members, r.str())
		}
	case 't':
		s.Hist = r.next() == "1"
		for n := r.int(); n > 0; n-- {
			r.next()
			thr := hx.MustUnF(r.next())
			r.next()
			s.Buckets = append(s.Buckets, bucket{Thr: thr, Count: int(r.v())})
		}
		s.Count = int(r.v())
		s.Rate, s.Min, s.Max, s.Mean, s.Median, s.StdDev, s.Sum, s.SumSquares = r.v(), r.v(), r.v(), r.v(), r.v(), r.v(), r.v(), r.v()
		r.v()
		for n := r.int(); n > 0; n-- {
			name := r.str()
			s.Pcts = append(s.Pcts, gostatsd.Percentile{Str: name, Float: r.v()})
		}
		for n := r.int(); n > 0; n-- {
			s.Values = append(s.Values, r.v())
		}
	default:
		panic("bad series kind")
	}
	if r.i != len(toks) {
		panic("trailing tokens in series")
	}
	return s
}

// buildMap rebuilds the flushed MetricMap of a case.
func buildMap(view []series) *gostatsd.MetricMap {
	mm := gostatsd.NewMetricMap(false)
	ts := gostatsd.Nanotime(1700000000 * 1e9)
	for _, s := range view {
		// spare capacity, as a tag slice grown tag by tag by the parser has: a backend that appends to a series'
		// tags without copying then writes into a shared backing array
		tags := append(make(gostatsd.Tags, 0, len(s.Tags)+3), s.Tags...)
		src := gostatsd.Source(s.Src)
		switch s.Kind {
		case 'c':
			if mm.Counters[s.Name] == nil {
				mm.Counters[s.Name] = map[string]gostatsd.Counter{}
			}
			mm.Counters[s.Name][s.TagsKey] = gostatsd.Counter{Value: s.CVal, PerSecond: s.Rate, Timestamp: ts, Source: src, Tags: tags}
		case 'g':
			if mm.Gauges[s.Name] == nil {
				mm.Gauges[s.Name] = map[string]gostatsd.Gauge{}
			}
			mm.Gauges[s.Name][s.TagsKey] = gostatsd.Gauge{Value: s.GVal, Timestamp: ts, Source: src, Tags: tags}
		case 's':
			if mm.Sets[s.Name] == nil {
				mm.Sets[s.Name] = map[string]gostatsd.Set{}
			}
			mem := map[string]struct{}{}
			for _, m := range s.Members {
				mem[m] = struct{}{}
			}
			mm.Sets[s.Name][s.TagsKey] = gostatsd.Set{Values: mem, Timestamp: ts, Source: src, Tags: tags}
		case 't':
			if mm.Timers[s.Name] == nil {
				mm.Timers[s.Name] = map[string]gostatsd.Timer{}
			}
			t := gostatsd.Timer{Count: s.Count, SampledCount: float64(s.Count), PerSecond: s.Rate, Mean: s.Mean, Median: s.Median,
				Min: s.Min, Max: s.Max, StdDev: s.StdDev, Sum: s.Sum, SumSquares: s.SumSquares,
				Values: append([]float64(nil), s.Values...), Percentiles: append(gostatsd.Percentiles(nil), s.Pcts...),
				Timestamp: ts, Source: src, Tags: tags}
			if s.Hist {
				t.Histogram = map[gostatsd.HistogramThreshold]int{}
				for _, b := range s.Buckets {
					t.Histogram[gostatsd.HistogramThreshold(b.Thr)] = b.Count
				}
			}
			mm.Timers[s.Name][s.TagsKey] = t
		}
	}
	return mm
}

// ------------------------------------------------------------------------------ output summary

type rec struct {
	Name, Kind, Value string
	Tags              []string
	Host              string
}

func (r rec) token() string {
	tags := "-"
	if len(r.Tags) > 0 {
		ts := hx.SortedCopy(r.Tags)
		for i := range ts {
			ts[i] = hx.S(ts[i])
		}
		tags = strings.Join(ts, ",")
	}
	return hx.S(r.Name) + ":" + hx.S(r.Kind) + ":" + hx.S(r.Value) + ":" + tags + ":" + hx.S(r.Host)
}

type result struct {
	recs   []rec
	sizes  []int // nil = not reported
	over   []string
	synErr int
	notes  []string
}

func (r result) render() string {
	toks := make([]string, len(r.recs))
	for i, x := range r.recs {
		toks[i] = x.token()
	}
	sort.Strings(toks)
	b := "-"
	if r.sizes != nil {
		sz := append([]int(nil), r.sizes...)
		sort.Ints(sz)
		parts := make([]string, len(sz))
		for i, n := range sz {
			parts[i] = strconv.Itoa(n)
		}
		b = strings.Join(parts, " ")
	}
	over := append([]string(nil), r.over...)
	sort.Strings(over)
	return "R " + strings.Join(toks, " ") + " | B " + b + " | O " + strings.Join(over, " ") + " | E " + strconv.Itoa(r.synErr)
}

// ------------------------------------------------------------------------------------- run

func runOne(wp **worker, line string) (out string) {
	defer func() {
		if e := recover(); e != nil {
			out = fmt.Sprintf("PANIC %v", e)
		}
	}()
	items := hx.SplitBy(hx.Tokens(line), ";")
	if len(items) == 0 || len(items[0]) == 0 {
		return "BAD_CASE"
	}
	var work func(w *worker) string
	if items[0][0] == "event" && len(items) < 2 {
		return "EV_NONE"
	}
	if items[0][0] == "event" {
		toks := items[1]
		work = func(w *worker) string { return runEvent(w, toks) }
	} else {
		cfg := decodeConfig(items[0])
		view := make([]series, 0, len(items)-1)
		for _, it := range items[1:] {
			if len(it) == 0 {
				continue
			}
			view = append(view, decodeSeries(it))
		}
		work = func(w *worker) string {
			r := w.runBackend(cfg, view)
			if os.Getenv("C17_DEBUG") != "" {
				for _, n := range r.notes {
					fmt.Fprintln(os.Stderr, "note:", n)
				}
			}
			return r.render()
		}
	}
	type outT struct {
		s         string
		err       interface{}
		transport bool
	}
	for attempt := 0; ; attempt++ {
		w := *wp
		ch := make(chan outT, 1)
		go func() {
			defer func() {
				if e := recover(); e != nil {
					if te, ok := e.(transportErr); ok {
						ch <- outT{err: te.err, transport: true}
						return
					}
					ch <- outT{err: e}
				}
			}()
			ch <- outT{s: work(w)}
		}()
		select {
		case o := <-ch:
			if o.err != nil {
				if o.transport && attempt < 3 {
					*wp = newWorker() // fresh server and sockets for the retry
					continue
				}
				return fmt.Sprintf("PANIC %v", o.err)
			}
			return o.s
		case <-time.After(10 * time.Minute):
			*wp = newWorker() // the abandoned case keeps the old sockets
			return "HANG"
		}
	}
}

func main() {
	if len(os.Args) < 2 {
		fmt.Fprintln(os.Stderr, "usage: c17 gen|run")
		os.Exit(2)
	}
	os.Unsetenv("AWS_CA_BUNDLE") // the AWS SDK refuses a custom http.Client together with a CA bundle
	switch os.Args[1] {
	case "gen":
		gen(os.Args[2:])
	case "run":
		runAll()
	case "corpus":
		corpus()
	default:
		os.Exit(2)
	}
}
