package main

import (
	"fmt"
	"math"
	"strings"

	"github.com/atlassian/gostatsd"

	"verifharness/internal/hx"
)

// corpus prints the hand-written boundary cases kept in corpus/C17 (built with the same encoders as `gen`).
func corpus() {
	def := func(backend string, batch int) config {
		return config{Backend: backend, Batch: batch, GMode: "tags", GP: "stats", GC: "counters", GT: "timers", GG: "gauges", GS: "sets", NR: "infra"}
	}
	counter := func(name string, v int64, src string, tags ...string) series {
		return series{Kind: 'c', Name: name, Src: src, Tags: tags, TagsKey: gostatsd.FormatTagsKey(gostatsd.Source(src), append(gostatsd.Tags(nil), tags...)), CVal: v, Rate: float64(v) / 10}
	}
	gauge := func(name string, v float64, src string, tags ...string) series {
		return series{Kind: 'g', Name: name, Src: src, Tags: tags, TagsKey: gostatsd.FormatTagsKey(gostatsd.Source(src), append(gostatsd.Tags(nil), tags...)), GVal: v}
	}
	set := func(name string, src string, members []string, tags ...string) series {
		return series{Kind: 's', Name: name, Src: src, Tags: tags, TagsKey: gostatsd.FormatTagsKey(gostatsd.Source(src), append(gostatsd.Tags(nil), tags...)), Members: members}
	}
	timer := func(name string, vals []float64, src string, pcts []gostatsd.Percentile, tags ...string) series {
		s := series{Kind: 't', Name: name, Src: src, Tags: tags, TagsKey: gostatsd.FormatTagsKey(gostatsd.Source(src), append(gostatsd.Tags(nil), tags...)), Values: vals, Pcts: pcts}
		s.Count = len(vals)
		s.Rate = float64(len(vals)) / 10
		s.Min, s.Max = math.Inf(1), math.Inf(-1)
		for _, v := range vals {
			s.Sum += v
			s.SumSquares += v * v
			s.Min = math.Min(s.Min, v)
			s.Max = math.Max(s.Max, v)
		}
		s.Mean = s.Sum / float64(len(vals))
		s.Median = vals[len(vals)/2]
		s.StdDev = 0.5
		return s
	}
	hist := func(name string, vals []float64, thr []float64, tags ...string) series {
		s := timer(name, vals, "", nil, tags...)
		s.Hist = true
		for _, t := range append(thr, math.Inf(1)) {
			n := 0
			for _, v := range vals {
				if v <= t {
					n++
				}
			}
			s.Buckets = append(s.Buckets, bucket{Thr: t, Count: n})
		}
		return s
	}
	emit := func(comment string, cfg config, view ...series) {
		parts := []string{cfg.encode()}
		for _, s := range view {
			parts = append(parts, s.encode())
		}
		fmt.Fprintln(hx.Out, "# "+comment)
		fmt.Fprintln(hx.Out, strings.Join(parts, " ; "))
	}
	nCounters := func(n int) []series {
		var out []series
		for i := 0; i < n; i++ {
			out = append(out, counter(fmt.Sprintf("c%02d", i), int64(i+1), "10.0.0.1", "env:prod"))
		}
		return out
	}
	pcts := []gostatsd.Percentile{{Str: "count_90", Float: 2}, {Str: "upper_90", Float: 3}}

	// influxdb: the number of lines is a multiple of the batch size / one more
	c := def("influxdb", 3)
	emit("influxdb batch 3, 6 lines: two full requests, no empty third one", c, nCounters(6)...)
	emit("influxdb batch 3, 7 lines", c, nCounters(7)...)
	c.Mask = [9]bool{true, true, true, true, true, true, true, true, true}
	emit("influxdb, every aggregation disabled and no percentile: the timer yields no line at all, histogram timers still do", c,
		timer("t", []float64{1, 2}, "h1", nil), hist("h", []float64{1, 7}, []float64{5}, "gsd_histogram:5"), gauge("g", 1.5, ""))
	c = def("influxdb", 1)
	emit("influxdb duplicate tag keys and value-only tags are merged", c, gauge("g", 2.25, "", "foo", "key:bar", "unnamed:baz", "key:thing", "other:something"))

	// datadog: slack 20
	c = def("datadog", 23)
	c.Det = true
	emit("datadog batch 23: len+20 >= 23 after the second counter (4 records)", c, nCounters(5)...)
	c = def("datadog", 20)
	c.Det = true
	c.Mask = [9]bool{true, true, true, true, true, true, true, true, true}
	emit("datadog batch 20: a request after every series; a timer without any enabled aggregation gives an empty request", c,
		counter("a", 5, "h1"), timer("t", []float64{1, 2, 3}, "h1", nil), gauge("g", 1, ""))
	c = def("datadog", 30)
	c.Det = true
	c.Mask[1] = true
	emit("datadog: upper disabled, percentiles, histogram timer, all four types", c,
		counter("a", 5, "h1", "k:v"), timer("t", []float64{1, 2, 3}, "h1", pcts, "k:v"), gauge("g", 0.1, "", "x"), set("s", "h2", []string{"a", "b"}))
	c = def("datadog", 40)
	emit("datadog: plain and histogram timers mixed (sizes depend on map order: not compared)", c,
		timer("t", []float64{1, 2, 3}, "h1", pcts), hist("h", []float64{1, 7, 9}, []float64{5, 8}, "gsd_histogram:5_8"), hist("h2", []float64{1}, []float64{5}, "gsd_histogram:5"))

	// otlp
	c = def("otlp", 2)
	emit("otlp batch 2, 4 metrics: a trailing empty request", c, nCounters(2)...)
	c = def("otlp", 3)
	c.RK = []string{"env"}
	emit("otlp batch 3, resource key env, host from the source", c, append(nCounters(2), gauge("g", 1, "h9", "env:dev", "k:v"), gauge("g2", 1, "h9", "host:explicit"))...)
	c = def("otlp", 5)
	c.OH = true
	emit("otlp timers as histograms", c, timer("t", []float64{1, 2, 3}, "h1", pcts), hist("h", []float64{1, 7, 9}, []float64{5, 8}, "gsd_histogram:5_8"))

	// cloudwatch: chunks of 20
	c = def("cloudwatch", 1)
	emit("cloudwatch exactly 20 data", c, nCounters(10)...)
	emit("cloudwatch 21 data", c, append(nCounters(10), gauge("g", 1, ""))...)
	emit("cloudwatch 41 data, 12 dimensions truncated to 10", c, append(nCounters(20), gauge("g", 1, "", "a:1", "b:2", "c:3", "d:4", "e:5", "f:6", "g:7", "h:8", "i:9", "j:10", "k:11", "l"))...)
	emit("cloudwatch nothing to send", c)

	// graphite
	for _, mode := range []string{"tags", "legacy", "basic"} {
		c = def("graphite", 1)
		c.GMode = mode
		c.GX = "gs"
		emit("graphite "+mode+": host tag from the source unless the series has one", c,
			counter("a.b", 5, "h1", "k:v", "plain"), gauge("g", 1.5, "h1", "host:mine"), timer("t", []float64{1, 2}, "", pcts, "a:b:c"),
			hist("h", []float64{1, 7}, []float64{5}, "gsd_histogram:5"), set("s", "", []string{"x"}))
	}

	// newrelic
	for _, ft := range []string{"infra", "insights", "metrics"} {
		c = def("newrelic", 22)
		c.NR = ft
		c.Det = true
		emit("newrelic "+ft+" batch 22", c, counter("a", 5, "h1", "k:v"), gauge("g", 1.5, "", "plain"), timer("t", []float64{1, 2}, "h1", pcts), gauge("g2", 2, "h2"))
	}
	c = def("newrelic", 1000)
	c.NR = "metrics"
	c.Det = true
	emit("KNOWN FINDING newrelic-metrics-set-without-value: flush-type metrics sends a set without type and value", c, set("users", "", []string{"a", "b", "c"}))

	// statsd relay
	c = def("statsdaemon", 1)
	c.Det = true
	vals := make([]float64, 110)
	for i := range vals {
		vals[i] = 1
	}
	// counter line `<11 chars>:5|c\n` = 16 bytes, timer lines `t:1.000000|ms\n` = 14 bytes: 16 + 104*14 = 1472
	emit("relay: first datagram exactly 1472 bytes", c, counter(strings.Repeat("n", 11), 5, ""), timer("t", vals, "", nil))
	emit("relay: one byte more, the 105th line moves to the next datagram", c, counter(strings.Repeat("n", 12), 5, ""), timer("t", vals, "", nil))
	emit("relay: an over-long line first (an empty datagram is emitted before it), then short ones", c,
		counter("L"+strings.Repeat("x", 1500), 1, ""), gauge("g", 2.5, "10.0.0.1", "k:v"))
	emit("relay: over-long line after short ones", c, counter("a", 1, ""), gauge("L"+strings.Repeat("x", 1500), 2.5, ""))
	emit("relay: statsd.* counters are skipped, statsd.* gauges are not; no tags but a source gives `|#,s:src`", c,
		counter("statsd.packets", 7, "10.0.0.1"), gauge("statsd.x", 1, "10.0.0.1"), set("s", "h", []string{"m001", "m002"}, "a:b", "c"))
	c.NT = true
	emit("relay: tags disabled", c, counter("a", -3, "10.0.0.1", "k:v"), timer("t", []float64{0.5, 1e12, -2}, "h", nil))
	c = def("statsdaemon", 1)
	c.TCP = true
	emit("relay over tcp (packet size 1 MiB)", c, counter("a", 1, "h", "k:v"), gauge("g", 3.25, ""), timer("t", vals, "", nil), set("s", "", []string{"a", "b:c"}))
	emit("relay: nothing to send", def("statsdaemon", 1))

	// events
	ev := func(comment string, parts ...string) {
		fmt.Fprintln(hx.Out, "# "+comment)
		fmt.Fprintln(hx.Out, "event ; "+strings.Join(parts, " "))
	}
	ev("event with every field, newline in the text, separators in the title", "e", hx.S("ti|tle,#:"), hx.S("line1\nline2|x"), "1700000000", hx.S("host1"), hx.S("agg"), hx.S("src"), "1", "2", "2", hx.S("k:v"), hx.S("plain"))
	ev("minimal event", "e", hx.S(""), hx.S(""), "0", hx.S(""), hx.S(""), hx.S(""), "0", "0", "0")
	ev("event text ending in a backslash", "e", hx.S("t"), hx.S("a\\"), "0", hx.S(""), hx.S(""), hx.S(""), "0", "3", "0")
	hx.Out.Flush()
}
