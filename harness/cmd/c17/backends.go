package main

import (
	"bufio"
	"bytes"
	"compress/gzip"
	"compress/zlib"
	"context"
	"encoding/json"
	"fmt"
	"io"
	"net"
	"net/http"
	"net/http/httptest"
	"os"
	"strconv"
	"strings"
	"sync"
	"sync/atomic"
	"syscall"
	"time"

	awscw "github.com/aws/aws-sdk-go-v2/service/cloudwatch"
	"github.com/sirupsen/logrus"
	"github.com/spf13/viper"
	v1export "go.opentelemetry.io/proto/otlp/collector/metrics/v1"
	v1common "go.opentelemetry.io/proto/otlp/common/v1"
	v1metrics "go.opentelemetry.io/proto/otlp/metrics/v1"
	"google.golang.org/protobuf/proto"

	"github.com/atlassian/gostatsd"
	"github.com/atlassian/gostatsd/pkg/backends/cloudwatch"
	"github.com/atlassian/gostatsd/pkg/backends/datadog"
	"github.com/atlassian/gostatsd/pkg/backends/graphite"
	"github.com/atlassian/gostatsd/pkg/backends/influxdb"
	"github.com/atlassian/gostatsd/pkg/backends/newrelic"
	"github.com/atlassian/gostatsd/pkg/backends/otlp"
	"github.com/atlassian/gostatsd/pkg/backends/statsdaemon"
	"github.com/atlassian/gostatsd/pkg/transport"
	"github.com/atlassian/gostatsd/pkg/verifhooks"

	"verifharness/internal/hx"
)

// worker owns one capturing HTTP server, one TCP listener and one UDP socket.
type worker struct {
	mu       sync.Mutex
	bodies   []captured
	srv      *httptest.Server
	tcp      net.Listener
	udp      *net.UDPConn
	logger   *logrus.Logger
	tp       *transport.TransportPool
	poisoned bool
}

type captured struct {
	path string
	body []byte
	err  error
}

func newWorker() *worker {
	w := &worker{}
	w.logger = logrus.New()
	w.logger.SetOutput(io.Discard)
	w.srv = httptest.NewServer(http.HandlerFunc(func(rw http.ResponseWriter, r *http.Request) {
		var rd io.Reader = r.Body
		var err error
		switch r.Header.Get("Content-Encoding") {
		case "deflate":
			rd, err = zlib.NewReader(r.Body)
		case "gzip":
			rd, err = gzip.NewReader(r.Body)
		}
		var body []byte
		if err == nil {
			body, err = io.ReadAll(rd)
		}
		w.mu.Lock()
		w.bodies = append(w.bodies, captured{path: r.URL.Path, body: body, err: err})
		w.mu.Unlock()
		rw.WriteHeader(http.StatusOK)
	}))
	var err error
	w.tcp, err = net.Listen("tcp", "127.0.0.1:0")
	must(err)
	w.udp, err = net.ListenUDP("udp", &net.UDPAddr{IP: net.IPv4(127, 0, 0, 1)})
	must(err)
	_ = w.udp.SetReadBuffer(8 << 20)
	if rc, err := w.udp.SyscallConn(); err == nil {
		_ = rc.Control(func(fd uintptr) {
			_ = syscall.SetsockoptInt(int(fd), syscall.SOL_SOCKET, 33 /* SO_RCVBUFFORCE */, 64<<20)
		})
	}
	return w
}

func (w *worker) reset() {
	w.mu.Lock()
	w.bodies = nil
	w.mu.Unlock()
}

func (w *worker) taken() []captured {
	w.mu.Lock()
	defer w.mu.Unlock()
	out := w.bodies
	w.bodies = nil
	return out
}

// pool: one transport pool (one http.Client, keep-alive connections reused) per worker — a pool per
// case leaks idle connections until the process runs out of file descriptors.
func (w *worker) pool() *transport.TransportPool {
	if w.tp == nil {
		v := viper.New()
		v.SetDefault("transport.default.client-timeout", 5*time.Minute)
		w.tp = transport.NewTransportPool(w.logger, v)
	}
	return w.tp
}

// close releases the sockets of an abandoned worker's replacement predecessor (best effort).
func (w *worker) close() {
	w.srv.CloseClientConnections()
}

// send runs SendMetricsAsync and waits for the callback (every request of the flush has completed).
func send(b gostatsd.Backend, mm *gostatsd.MetricMap) []error {
	done := make(chan []error, 1)
	b.SendMetricsAsync(context.Background(), mm, func(errs []error) { done <- errs })
	return <-done
}

// transportErr: a request of the flush failed although the capturing server accepts everything — the
// machine is overloaded; the case is retried (never the backend's fault).
type transportErr struct{ err error }

func firstErr(errs []error) error {
	for _, e := range errs {
		if e != nil {
			return e
		}
	}
	return nil
}

func (w *worker) runBackend(cfg config, view []series) result {
	mm := buildMap(view)
	switch cfg.Backend {
	case "datadog":
		return w.runDatadog(cfg, mm)
	case "influxdb":
		return w.runInflux(cfg, mm)
	case "graphite":
		return w.runGraphite(cfg, mm)
	case "newrelic":
		return w.runNewRelic(cfg, mm)
	case "otlp":
		return w.runOTLP(cfg, mm)
	case "cloudwatch":
		return w.runCloudWatch(cfg, mm)
	case "statsdaemon":
		return w.runRelay(cfg, mm)
	}
	panic("unknown backend " + cfg.Backend)
}

// ----------------------------------------------------------------------------------- datadog

func (w *worker) runDatadog(cfg config, mm *gostatsd.MetricMap) result {
	w.reset()
	cli, err := datadog.NewClient(w.srv.URL, "apiKey123", "agent", "default", cfg.Batch, 4, cfg.Z, 5*time.Minute, 1*time.Second,
		cfg.subtypes(), w.logger, w.pool())
	must(err)
	if e := firstErr(send(cli, mm)); e != nil {
		panic(transportErr{e})
	}
	res := result{}
	for _, c := range w.taken() {
		var ts struct {
			Series []struct {
				Host     string       `json:"host"`
				Interval float64      `json:"interval"`
				Metric   string       `json:"metric"`
				Points   [][2]float64 `json:"points"`
				Tags     []string     `json:"tags"`
				Type     string       `json:"type"`
			} `json:"series"`
		}
		if c.err != nil || c.path != "/api/v1/series" || json.Unmarshal(c.body, &ts) != nil || !json.Valid(c.body) {
			res.synErr++
			continue
		}
		for _, m := range ts.Series {
			if len(m.Points) != 1 {
				res.synErr++
				continue
			}
			res.recs = append(res.recs, rec{Name: m.Metric, Kind: m.Type, Value: hx.F(m.Points[0][1]), Tags: m.Tags, Host: m.Host})
		}
		if cfg.Det {
			res.sizes = append(res.sizes, len(ts.Series))
		}
	}
	if cfg.Det && res.sizes == nil {
		res.sizes = []int{}
	}
	return res
}

// ---------------------------------------------------------------------------------- influxdb

// parseInfluxLine parses one line of InfluxDB line protocol (numeric fields only).
func parseInfluxLine(line string) (meas string, tags []string, fields [][2]string, err error) {
	i := 0
	readUntil := func(stops string) (string, byte) {
		var b strings.Builder
		for i < len(line) {
			ch := line[i]
			if ch == '\\' && i+1 < len(line) {
				b.WriteByte(line[i+1])
				i += 2
				continue
			}
			if strings.IndexByte(stops, ch) >= 0 {
				i++
				return b.String(), ch
			}
			b.WriteByte(ch)
			i++
		}
		return b.String(), 0
	}
	var stop byte
	var keys []string
	meas, stop = readUntil(", ")
	if meas == "" || stop == 0 {
		return "", nil, nil, fmt.Errorf("no measurement")
	}
	for stop == ',' {
		var k, v string
		k, stop = readUntil("=")
		if stop != '=' || k == "" {
			return "", nil, nil, fmt.Errorf("bad tag key")
		}
		v, stop = readUntil(", ")
		if v == "" || stop == 0 {
			return "", nil, nil, fmt.Errorf("bad tag value")
		}
		tags = append(tags, k+"="+v)
		keys = append(keys, k)
	}
	// fields
	stop = ','
	for stop == ',' {
		var k, v string
		k, stop = readUntil("=")
		if stop != '=' || k == "" {
			return "", nil, nil, fmt.Errorf("bad field key")
		}
		v, stop = readUntil(", ")
		if v == "" || stop == 0 {
			return "", nil, nil, fmt.Errorf("bad field value")
		}
		if _, e := strconv.ParseFloat(v, 64); e != nil {
			return "", nil, nil, fmt.Errorf("field value %q is not a number", v)
		}
		if strings.ContainsAny(v, "IiNn") { // Inf / NaN are not line protocol
			return "", nil, nil, fmt.Errorf("field value %q is not finite", v)
		}
		fields = append(fields, [2]string{k, v})
	}
	tsText := line[i:]
	if _, e := strconv.ParseInt(tsText, 10, 64); e != nil {
		return "", nil, nil, fmt.Errorf("bad timestamp %q", tsText)
	}
	for j := 1; j < len(keys); j++ {
		if keys[j-1] >= keys[j] { // duplicate tag keys are invalid; BACKENDS.md also promises sorted keys
			return "", nil, nil, fmt.Errorf("tag keys not strictly ascending")
		}
	}
	return meas, tags, fields, nil
}

func (w *worker) runInflux(cfg config, mm *gostatsd.MetricMap) result {
	w.reset()
	v := viper.New()
	v.Set("influxdb.api-endpoint", w.srv.URL)
	v.Set("influxdb.api-version", 2)
	v.Set("influxdb.bucket", "b")
	v.Set("influxdb.org", "o")
	v.Set("influxdb.compress-payload", cfg.Z)
	v.Set("influxdb.metrics-per-batch", cfg.Batch)
	v.Set("influxdb.max-requests", 4)
	v.Set("influxdb.max-request-elapsed-time", 5*time.Minute)
	names := []string{"lower", "upper", "count", "count-per-second", "mean", "median", "stddev", "sum", "sum-squares"}
	for i, n := range names {
		v.Set("disabled-sub-metrics."+n, cfg.Mask[i])
	}
	cli, err := influxdb.NewClientFromViper(v, w.logger, w.pool())
	must(err)
	if e := firstErr(send(cli, mm)); e != nil {
		panic(transportErr{e})
	}
	res := result{sizes: []int{}}
	for _, c := range w.taken() {
		if c.err != nil {
			res.synErr++
			continue
		}
		body := string(c.body)
		if body != "" && !strings.HasSuffix(body, "\n") {
			res.synErr++
		}
		lines := strings.Split(strings.TrimSuffix(body, "\n"), "\n")
		if body == "" {
			lines = nil
		}
		for _, l := range lines {
			meas, tags, fields, err := parseInfluxLine(l)
			if err != nil {
				res.synErr++
				res.notes = append(res.notes, err.Error())
				continue
			}
			seen := map[string]bool{}
			for _, f := range fields {
				if seen[f[0]] {
					res.synErr++ // duplicate field key in one line
				}
				seen[f[0]] = true
				x, _ := strconv.ParseFloat(f[1], 64)
				res.recs = append(res.recs, rec{Name: meas, Kind: f[0], Value: hx.F(x), Tags: tags})
			}
		}
		res.sizes = append(res.sizes, len(lines))
	}
	return res
}

// ---------------------------------------------------------------------------------- graphite

// readStream accepts one connection and reads it to EOF.
func (w *worker) readStream() <-chan []byte {
	ch := make(chan []byte, 1)
	go func() {
		conn, err := w.tcp.Accept()
		if err != nil {
			ch <- nil
			return
		}
		defer conn.Close()
		b, _ := io.ReadAll(conn)
		ch <- b
	}()
	return ch
}

func (w *worker) runGraphite(cfg config, mm *gostatsd.MetricMap) result {
	data := w.readStream()
	cli, err := graphite.NewClient(w.tcp.Addr().String(), 2*time.Second, 5*time.Second, cfg.GP, cfg.GC, cfg.GT, cfg.GG, cfg.GS, cfg.GX,
		cfg.GMode, cfg.subtypes(), w.logger)
	must(err)
	ctx, cancel := context.WithCancel(context.Background())
	runDone := make(chan struct{})
	go func() { cli.Run(ctx); close(runDone) }()
	errs := send(cli, mm)
	cancel()
	<-runDone
	if e := firstErr(errs); e != nil {
		panic(transportErr{e})
	}
	body := string(<-data)
	res := result{}
	if body != "" && !strings.HasSuffix(body, "\n") {
		res.synErr++
	}
	for _, l := range strings.Split(strings.TrimSuffix(body, "\n"), "\n") {
		if body == "" {
			break
		}
		parts := strings.Split(l, " ")
		if len(parts) != 3 {
			res.synErr++
			res.notes = append(res.notes, fmt.Sprintf("graphite line %q", l))
			continue
		}
		x, e1 := strconv.ParseFloat(parts[1], 64)
		_, e2 := strconv.ParseInt(parts[2], 10, 64)
		segs := strings.Split(parts[0], ";")
		ok := e1 == nil && e2 == nil && segs[0] != ""
		for _, t := range segs[1:] {
			if i := strings.IndexByte(t, '='); i <= 0 { // graphite tags are name=value with a non-empty name
				ok = false
			}
		}
		if !ok {
			res.synErr++
			res.notes = append(res.notes, fmt.Sprintf("graphite line %q", l))
			continue
		}
		res.recs = append(res.recs, rec{Name: segs[0], Value: hx.F(x), Tags: segs[1:]})
	}
	return res
}

// ---------------------------------------------------------------------------------- newrelic

func (w *worker) runNewRelic(cfg config, mm *gostatsd.MetricMap) result {
	w.reset()
	apiKey := ""
	if cfg.NR != "infra" {
		apiKey = "key"
	}
	cli, err := newrelic.NewClient("default", w.srv.URL+"/v1/data", w.srv.URL+"/metric/v1", "GoStatsD", cfg.NR, apiKey, "",
		"metric_name", "metric_type", "metric_per_second", "metric_value", "samples_min", "samples_max", "samples_count",
		"samples_mean", "samples_median", "samples_std_dev", "samples_sum", "samples_sum_squares", "agent",
		cfg.Batch, 4, 5*time.Minute, 10*time.Second, cfg.subtypes(), w.logger, w.pool())
	must(err)
	if e := firstErr(send(cli, mm)); e != nil {
		panic(transportErr{e})
	}
	res := result{}
	fixed := map[string]bool{"integration_version": true, "eventType": true, "event_type": true, "metric_type": true, "metric_name": true}
	for _, c := range w.taken() {
		if c.err != nil || !json.Valid(c.body) {
			res.synErr++
			continue
		}
		var metrics []map[string]interface{}
		switch cfg.NR {
		case "infra":
			var p struct {
				Name string `json:"name"`
				Data []struct {
					Metrics []map[string]interface{} `json:"metrics"`
				} `json:"data"`
			}
			if json.Unmarshal(c.body, &p) != nil || len(p.Data) != 1 || p.Name == "" {
				res.synErr++
				continue
			}
			metrics = p.Data[0].Metrics
		case "insights":
			if json.Unmarshal(c.body, &metrics) != nil {
				res.synErr++
				continue
			}
		case "metrics":
			var p []struct {
				Metrics []map[string]interface{} `json:"metrics"`
			}
			if json.Unmarshal(c.body, &p) != nil || len(p) != 1 || c.path != "/metric/v1" {
				res.synErr++
				continue
			}
			metrics = p[0].Metrics
		}
		for _, m := range metrics {
			if cfg.NR == "metrics" {
				name, _ := m["name"].(string)
				typ, _ := m["type"].(string)
				attrs, _ := m["attributes"].(map[string]interface{})
				st, _ := attrs["statsdType"].(string)
				var tags []string
				for k, v := range attrs {
					if s, ok := v.(string); ok && k != "statsdType" {
						tags = append(tags, k+":"+s)
					} else if f, ok := v.(float64); ok && k != "percentile" {
						tags = append(tags, k+":"+strconv.FormatFloat(f, 'f', -1, 64)) // setTags turns numeric tag values into numbers
					}
				}
				switch val := m["value"].(type) {
				case float64:
					res.recs = append(res.recs, rec{Name: name, Kind: typ + "/" + st, Value: hx.F(val), Tags: tags})
				case map[string]interface{}:
					for k, x := range val {
						f, _ := x.(float64)
						res.recs = append(res.recs, rec{Name: name, Kind: typ + "/" + st + "/" + k, Value: hx.F(f), Tags: tags})
					}
				default:
					res.recs = append(res.recs, rec{Name: name, Kind: typ + "/" + st, Value: "<none>", Tags: tags})
				}
				continue
			}
			name, _ := m["metric_name"].(string)
			typ, _ := m["metric_type"].(string)
			var tags []string
			numericTag := map[string]bool{"le": true, "gsd_histogram": true}
			for k, v := range m {
				if s, ok := v.(string); ok && !fixed[k] {
					tags = append(tags, k+":"+s)
				} else if f, ok := v.(float64); ok && numericTag[k] {
					tags = append(tags, k+":"+strconv.FormatFloat(f, 'f', -1, 64)) // setTags turns numeric tag values into numbers
				}
			}
			for k, v := range m {
				if f, ok := v.(float64); ok && k != "timestamp" && k != "interval" && !numericTag[k] {
					res.recs = append(res.recs, rec{Name: name, Kind: typ + "/" + k, Value: hx.F(f), Tags: tags})
				}
			}
		}
		if cfg.Det {
			res.sizes = append(res.sizes, len(metrics))
		}
	}
	if cfg.Det && res.sizes == nil {
		res.sizes = []int{}
	}
	return res
}

// -------------------------------------------------------------------------------------- otlp

func kvStrings(kvs []*v1common.KeyValue) []string {
	var out []string
	for _, kv := range kvs {
		switch v := kv.Value.Value.(type) {
		case *v1common.AnyValue_StringValue:
			out = append(out, kv.Key+":"+v.StringValue)
		case *v1common.AnyValue_ArrayValue:
			for _, x := range v.ArrayValue.Values {
				out = append(out, kv.Key+":"+x.GetStringValue())
			}
		}
	}
	return out
}

func numValue(dp *v1metrics.NumberDataPoint) string {
	switch v := dp.Value.(type) {
	case *v1metrics.NumberDataPoint_AsDouble:
		return hx.F(v.AsDouble)
	case *v1metrics.NumberDataPoint_AsInt:
		return hx.F(float64(v.AsInt))
	}
	return ""
}

func (w *worker) runOTLP(cfg config, mm *gostatsd.MetricMap) result {
	w.reset()
	v := viper.New()
	v.Set("otlp.metrics_endpoint", w.srv.URL+"/v1/metrics")
	v.Set("otlp.logs_endpoint", w.srv.URL+"/v1/logs")
	v.Set("otlp.compress_payload", cfg.Z)
	v.Set("otlp.metrics_per_batch", cfg.Batch)
	v.Set("otlp.max_requests", 4)
	v.Set("otlp.max_request_elapsed_time", 5*time.Minute)
	if cfg.OH {
		v.Set("otlp.conversion", otlp.ConversionAsHistogram)
	}
	if len(cfg.RK) > 0 {
		v.Set("otlp.resource_keys", cfg.RK)
	}
	names := []string{"lower", "upper", "count", "countpersecond", "mean", "median", "stddev", "sum", "sumsquares"}
	for i, n := range names {
		v.Set("otlp.disabled_timer_aggregations."+n, cfg.Mask[i])
	}
	cli, err := otlp.NewClientFromViper(v, w.logger, w.pool())
	must(err)
	if e := firstErr(send(cli, mm)); e != nil {
		panic(transportErr{e})
	}
	res := result{sizes: []int{}}
	for _, c := range w.taken() {
		var req v1export.ExportMetricsServiceRequest
		if c.err != nil || proto.Unmarshal(c.body, &req) != nil {
			res.synErr++
			continue
		}
		n := 0
		for _, rm := range req.ResourceMetrics {
			host := strings.Join(hx.SortedCopy(kvStrings(rm.GetResource().GetAttributes())), ",")
			for _, sm := range rm.ScopeMetrics {
				for _, m := range sm.Metrics {
					n++
					switch d := m.Data.(type) {
					case *v1metrics.Metric_Gauge:
						if len(d.Gauge.DataPoints) != 1 {
							res.synErr++
							continue
						}
						dp := d.Gauge.DataPoints[0]
						res.recs = append(res.recs, rec{Name: m.Name, Kind: "gauge", Value: numValue(dp), Tags: kvStrings(dp.Attributes), Host: host})
					case *v1metrics.Metric_Sum:
						if len(d.Sum.DataPoints) != 1 {
							res.synErr++
							continue
						}
						dp := d.Sum.DataPoints[0]
						res.recs = append(res.recs, rec{Name: m.Name, Kind: "sum", Value: numValue(dp), Tags: kvStrings(dp.Attributes), Host: host})
					case *v1metrics.Metric_Histogram:
						if len(d.Histogram.DataPoints) != 1 {
							res.synErr++
							continue
						}
						dp := d.Histogram.DataPoints[0]
						if len(dp.BucketCounts) > 0 {
							var tot uint64
							for _, b := range dp.BucketCounts {
								tot += b
							}
							if tot != dp.Count || len(dp.ExplicitBounds)+1 != len(dp.BucketCounts) {
								res.synErr++
							}
						}
						res.recs = append(res.recs, rec{Name: m.Name, Kind: "histogram", Value: hx.F(float64(dp.Count)), Tags: kvStrings(dp.Attributes), Host: host})
					default:
						res.synErr++
					}
				}
			}
		}
		res.sizes = append(res.sizes, n)
	}
	return res
}

// -------------------------------------------------------------------------------- cloudwatch

type fakeCW struct {
	cloudwatch.CloudwatchClient
	mu    sync.Mutex
	calls []*awscw.PutMetricDataInput
}

func (f *fakeCW) PutMetricData(_ context.Context, in *awscw.PutMetricDataInput, _ ...func(*awscw.Options)) (*awscw.PutMetricDataOutput, error) {
	f.mu.Lock()
	f.calls = append(f.calls, in)
	f.mu.Unlock()
	return &awscw.PutMetricDataOutput{}, nil
}

var cwOnce sync.Mutex

func (w *worker) runCloudWatch(cfg config, mm *gostatsd.MetricMap) result {
	cwOnce.Lock() // NewClient loads the AWS default config (environment); keep it single-threaded
	cli, err := cloudwatch.NewClient("ns", "default", cfg.subtypes(), w.logger, w.pool())
	cwOnce.Unlock()
	must(err)
	fake := &fakeCW{}
	cli.VerifSetAPI(fake)
	if e := firstErr(send(cli, mm)); e != nil {
		panic(transportErr{e})
	}
	res := result{sizes: []int{}}
	for _, in := range fake.calls {
		if in.Namespace == nil || *in.Namespace != "ns" {
			res.synErr++
		}
		for _, d := range in.MetricData {
			if d.MetricName == nil || d.Value == nil || d.Timestamp == nil {
				res.synErr++
				continue
			}
			var tags []string
			for _, dim := range d.Dimensions {
				if dim.Name == nil || dim.Value == nil {
					res.synErr++
					continue
				}
				tags = append(tags, *dim.Name+":"+*dim.Value)
			}
			res.recs = append(res.recs, rec{Name: *d.MetricName, Kind: string(d.Unit), Value: hx.F(*d.Value), Tags: tags})
		}
		res.sizes = append(res.sizes, len(in.MetricData))
	}
	return res
}

// ------------------------------------------------------------------------- statsdaemon relay

const udpSentinel = "\x00__c17_end__"

var sentinelSeq uint64

func lexRecord(line string, res *result) {
	m, e, err := verifhooks.LexLine([]byte(line), "")
	if err != nil || m == nil || e != nil {
		res.synErr++
		res.notes = append(res.notes, fmt.Sprintf("lexer rejects %q: %v", line, err))
		return
	}
	if m.Rate != 1 {
		res.synErr++
	}
	r := rec{Name: m.Name, Tags: append([]string(nil), m.Tags...)}
	switch m.Type {
	case gostatsd.COUNTER:
		r.Kind, r.Value = "c", hx.F(m.Value)
	case gostatsd.GAUGE:
		r.Kind, r.Value = "g", hx.F(m.Value)
	case gostatsd.TIMER:
		r.Kind, r.Value = "ms", hx.F(m.Value)
	case gostatsd.SET:
		r.Kind, r.Value = "s", m.StringValue
	}
	res.recs = append(res.recs, r)
}

func (w *worker) runRelay(cfg config, mm *gostatsd.MetricMap) result {
	res := result{}
	if cfg.TCP {
		data := w.readStream()
		cli, err := statsdaemon.NewClient(w.tcp.Addr().String(), 2*time.Second, 5*time.Second, cfg.NT, true, nil, w.logger)
		must(err)
		ctx, cancel := context.WithCancel(context.Background())
		runDone := make(chan struct{})
		go func() { cli.Run(ctx); close(runDone) }()
		errs := send(cli, mm)
		cancel()
		<-runDone
		if e := firstErr(errs); e != nil {
			panic(e)
		}
		body := string(<-data)
		if body != "" && !strings.HasSuffix(body, "\n") {
			res.synErr++
		}
		sc := bufio.NewScanner(strings.NewReader(body))
		sc.Buffer(make([]byte, 1<<20), 1<<26)
		for sc.Scan() {
			lexRecord(sc.Text(), &res)
		}
		return res
	}
	// UDP: one datagram per emitted buffer.  The end of the flush is marked by a sentinel datagram that is
	// unique to this case (a stale sentinel or stale data of an abandoned case cannot be mistaken for it:
	// an abandoned case poisons the worker, which is then replaced together with its sockets).
	type dgram struct{ b []byte }
	sentinel := fmt.Sprintf("%s%d", udpSentinel, atomic.AddUint64(&sentinelSeq, 1))
	got := make(chan []dgram, 1)
	go func() {
		var ds []dgram
		buf := make([]byte, 1<<16)
		_ = w.udp.SetReadDeadline(time.Time{})
		for {
			n, _, err := w.udp.ReadFromUDP(buf)
			if err != nil {
				got <- nil
				return
			}
			if string(buf[:n]) == sentinel {
				got <- ds
				return
			}
			if strings.HasPrefix(string(buf[:n]), udpSentinel) {
				continue
			}
			ds = append(ds, dgram{b: append([]byte(nil), buf[:n]...)})
		}
	}()
	cli, err := statsdaemon.NewClient(w.udp.LocalAddr().String(), 2*time.Second, 5*time.Second, cfg.NT, false, nil, w.logger)
	must(err)
	ctx, cancel := context.WithCancel(context.Background())
	runDone := make(chan struct{})
	go func() { cli.Run(ctx); close(runDone) }()
	errs := send(cli, mm)
	cancel()
	<-runDone
	// everything the backend wrote is queued on the socket before this sentinel
	sc, err := net.DialUDP("udp", nil, w.udp.LocalAddr().(*net.UDPAddr))
	must(err)
	_, err = sc.Write([]byte(sentinel))
	must(err)
	sc.Close()
	ds := <-got
	if e := firstErr(errs); e != nil {
		panic(transportErr{e})
	}
	if cfg.Det {
		res.sizes = []int{}
	}
	for _, d := range ds {
		body := string(d.b)
		nlines := 0
		if body != "" {
			if !strings.HasSuffix(body, "\n") {
				res.synErr++
			}
			for _, l := range strings.Split(strings.TrimSuffix(body, "\n"), "\n") {
				nlines++
				lexRecord(l, &res)
			}
		}
		if cfg.Det {
			res.sizes = append(res.sizes, nlines)
		}
		if len(d.b) > 1472 {
			res.over = append(res.over, fmt.Sprintf("%d/%d", len(d.b), nlines))
		}
	}
	return res
}

// ------------------------------------------------------------------------------------ events

func runEvent(w *worker, toks []string) string {
	r := &tokReader{t: toks}
	if r.next() != "e" {
		return "BAD_CASE"
	}
	ev := event{Title: r.str(), Text: r.str()}
	ev.Date = int64(r.int())
	ev.Host, ev.Agg, ev.SrcType = r.str(), r.str(), r.str()
	ev.Pri, ev.Alert = r.int(), r.int()
	for n := r.int(); n > 0; n-- {
		ev.Tags = append(ev.Tags, r.str())
	}
	// the relay sends an event as one UDP datagram
	got := make(chan []byte, 1)
	go func() {
		buf := make([]byte, 1<<16)
		_ = w.udp.SetReadDeadline(time.Time{})
		for {
			n, _, err := w.udp.ReadFromUDP(buf)
			if err != nil {
				got <- nil
				return
			}
			if strings.HasPrefix(string(buf[:n]), udpSentinel) {
				continue
			}
			got <- append([]byte(nil), buf[:n]...)
			return
		}
	}()
	cli, err := statsdaemon.NewClient(w.udp.LocalAddr().String(), 2*time.Second, 5*time.Second, false, false, nil, w.logger)
	must(err)
	ge := &gostatsd.Event{Title: ev.Title, Text: ev.Text, DateHappened: ev.Date, Source: gostatsd.Source(ev.Host), AggregationKey: ev.Agg,
		SourceTypeName: ev.SrcType, Priority: gostatsd.Priority(ev.Pri), AlertType: gostatsd.AlertType(ev.Alert), Tags: append(gostatsd.Tags(nil), ev.Tags...)}
	must(cli.SendEvent(context.Background(), ge))
	msg := <-got
	if msg == nil {
		return "EV_LOST"
	}
	n := len(msg)
	// the receiving gostatsd cuts a datagram at newlines before it lexes: the event must be one line
	if lines := strings.Split(strings.TrimSuffix(string(msg), "\n"), "\n"); len(lines) != 1 {
		return fmt.Sprintf("EV_SPLIT_INTO %d lines %s", len(lines), hx.B(msg))
	}
	m, e, err := verifhooks.LexLine(append([]byte(nil), msg...), "")
	if err != nil || e == nil || m != nil {
		return fmt.Sprintf("EV_REJECTED %v %s", err, hx.B(msg))
	}
	tags := "-"
	if len(e.Tags) > 0 {
		parts := make([]string, len(e.Tags))
		for i, t := range e.Tags {
			parts[i] = hx.S(t)
		}
		tags = strings.Join(parts, ",")
	}
	return fmt.Sprintf("EV %s %s %d %s %s %s %d %d %s len=%d", hx.S(e.Title), hx.S(e.Text), e.DateHappened, hx.S(string(e.Source)),
		hx.S(e.AggregationKey), hx.S(e.SourceTypeName), int(e.Priority), int(e.AlertType), tags, n)
}

// ------------------------------------------------------------------------------- run driver

func runAll() {
	var lines []string
	hx.Lines(func(l string) { lines = append(lines, l) })
	nw := 8
	if len(lines) < nw {
		nw = 1
	}
	outs := make([]string, len(lines))
	var wg sync.WaitGroup
	next := make(chan int, len(lines))
	for i := range lines {
		next <- i
	}
	close(next)
	for k := 0; k < nw; k++ {
		wg.Add(1)
		go func() {
			defer wg.Done()
			w := newWorker()
			for i := range next {
				outs[i] = runOne(&w, lines[i])
			}
		}()
	}
	wg.Wait()
	if os.Getenv("C17_DEBUG") != "" {
		if ents, err := os.ReadDir("/proc/self/fd"); err == nil {
			fmt.Fprintln(os.Stderr, "open file descriptors at the end:", len(ents))
		}
	}
	for _, o := range outs {
		fmt.Fprintln(hx.Out, o)
	}
	hx.Out.Flush()
}

var _ = bytes.NewReader
