package main

import (
	"fmt"
	"math"
	"sort"
	"strings"
	"time"

	"github.com/atlassian/gostatsd"
	"github.com/atlassian/gostatsd/pkg/statsd"

	"verifharness/internal/hx"
)

const nameChars = "abcdefghijklmnopqrstuvwxyzABCDEFGHIJKLMNOPQRSTUVWXYZ0123456789_.-"
const tagChars = nameChars + ":/"

var namePool = []string{"a", "b", "web.requests", "x-1", "A_b", "statsd.x", "statsd.", "statsdaemon.restarts", "statsd_proxy.dropped", "statsd", "statsd-exporter", "api.latency", "q", "Z9", "m.n.o", "db_conn-pool.size", "0", "-", "a.b", "a_b"}
var srcPool = []string{"", "", "10.0.0.1", "10.0.0.2", "i-0abc", "h1", "fe80::1"}
var tagPool = []string{"env:prod", "env:dev", "az:us-east-1a", "k:v", "plain", "a:b:c", "path:/x/y", "host:h9", "le:5", "statsdSource:zz", "s:1.2.3.4",
	"version:1.0", "n:42", "k:w", "unnamed:u", "role:web", "A:B", "flag", "region:eu-1", "svc.name:api", "-", "_", "0", "host", "host:"}
var memberPool = []string{"u1", "u2", "user:7", "a/b", "x", "10.0.0.9", "k:v:w", "-", "Z", "0"}

func randFrom(r *hx.Rng, chars string, lo, hi int) string {
	n := r.Range(lo, hi)
	b := make([]byte, n)
	for i := range b {
		b[i] = chars[r.Intn(len(chars))]
	}
	return string(b)
}

// names are what gostatsd's lexer can produce: non-empty, over [A-Za-z0-9_.-], not starting with `_`
// (a leading underscore selects the event grammar)
func genName(r *hx.Rng) string {
	for {
		n := randFrom(r, nameChars, 1, 14)
		if r.Chance(2, 3) {
			n = hx.Pick(r, namePool)
		}
		if n[0] != '_' {
			return n
		}
	}
}

func tagKey(t string) string {
	if i := strings.IndexByte(t, ':'); i >= 0 {
		return t[:i]
	}
	return t
}

var nrReserved = map[string]bool{"timestamp": true, "interval": true, "integration_version": true, "eventType": true, "event_type": true,
	"metric_type": true, "metric_name": true, "metric_value": true, "metric_per_second": true, "statsdType": true, "percentile": true, "le": true}

// genTags draws tags over [A-Za-z0-9_.:/-]; `restricted` (newrelic, otlp) keeps keys distinct and values
// non-numeric, because those backends turn tags into a keyed attribute map (see handoff).
func genTags(r *hx.Rng, backend string) []string {
	n := r.Intn(4)
	if r.Chance(1, 12) {
		n = r.Range(4, 13)
	}
	restricted := backend == "newrelic" || backend == "otlp"
	seen := map[string]bool{}
	var out []string
	for i := 0; i < n; i++ {
		var t string
		if r.Chance(3, 4) {
			t = hx.Pick(r, tagPool)
		} else {
			t = randFrom(r, tagChars, 1, 10)
		}
		if strings.HasPrefix(t, "gsd_histogram:") || strings.HasPrefix(t, ":") || strings.HasSuffix(t, ":") {
			continue // tags are `key:value` or `value` with non-empty parts (see handoff, observation O1)
		}
		if restricted {
			k := tagKey(t)
			if k == "" || seen[k] || nrReserved[k] || strings.HasPrefix(k, "samples_") {
				continue
			}
			if i := strings.IndexByte(t, ':'); i >= 0 {
				v := t[i+1:]
				if v == "" || !(v[0] >= 'a' && v[0] <= 'z' || v[0] >= 'A' && v[0] <= 'Z') || strings.EqualFold(v, "inf") || strings.EqualFold(v, "nan") || strings.EqualFold(v, "infinity") {
					continue
				}
			}
			seen[k] = true
		}
		out = append(out, t)
	}
	return out
}

func genFloat(r *hx.Rng) float64 {
	switch r.Intn(8) {
	case 0:
		return float64(r.Intn(2000)-1000) / 64 // dyadic, at most 6 decimals: `%f` is exact
	case 1:
		return float64(r.Intn(100000)) / 8
	case 2:
		return float64(r.Intn(1000))
	case 3:
		return 0
	case 4:
		return float64(r.Intn(1000000)) / 1000 // 3 decimals, not dyadic
	case 5:
		return float64(r.Intn(1000)) * 1e9
	case 6:
		return float64(r.Intn(1000000)+1) / 7e6 // many decimals: `%f` rounds
	default:
		return float64(r.Intn(20000)-10000) / 16
	}
}

type genOpts struct {
	backend string
	maxSer  int
}

// rawView builds an un-flushed metric map and flushes it with the real aggregator.
func genView(r *hx.Rng, cfg *config, nSeries int, single bool) []series {
	mm := gostatsd.NewMetricMap(false)
	ts := gostatsd.Nanotime(1700000000 * 1e9)
	used := map[string]bool{}
	kinds := []byte{'c', 't', 'g', 's'}
	histSpec := hx.Pick(r, []string{"gsd_histogram:1_5_10", "gsd_histogram:0.5_2.5", "gsd_histogram:100", "gsd_histogram:-1_0_1_1000000"})
	altSpec := "gsd_histogram:2_4_8_16_32"
	if cfg.Backend == "newrelic" {
		// newrelic's setTags turns every tag value strconv.ParseFloat accepts into a number ("1_5_10" → 1510):
		// keep to threshold lists whose text survives (see handoff, observation O2)
		histSpec = hx.Pick(r, []string{"gsd_histogram:100", "gsd_histogram:0.5_2.5"})
		altSpec = "gsd_histogram:2.5_7.5_10"
	}
	histMode := r.Intn(4) // 0 none, 1 all timers, 2 mixed (same thresholds), 3 mixed thresholds
	perKind := map[byte]int{}
	// known finding newrelic-metrics-set-without-value: keep its witnesses to a fraction of the newrelic cases
	// (every one of them is shrunk by `check`); the corpus holds the minimal witness
	noSets := cfg.Backend == "newrelic" && cfg.NR == "metrics"
	if noSets && r.Chance(1, setWitnessOdds) {
		noSets = false
		if nSeries > 8 {
			nSeries = 8 // witnesses of the known finding stay small: each one is shrunk by `check`
		}
	}
	for i := 0; i < nSeries; i++ {
		k := hx.Pick(r, kinds)
		if noSets && k == 's' {
			continue
		}
		if single && perKind[k] >= 1 {
			continue
		}
		name := genName(r)
		tags := gostatsd.Tags(genTags(r, cfg.Backend))
		src := gostatsd.Source(hx.Pick(r, srcPool))
		if k == 't' {
			h := false
			switch histMode {
			case 1:
				h = true
			case 2, 3:
				h = r.Bool()
			}
			if h {
				spec := histSpec
				if histMode == 3 && r.Bool() {
					spec = altSpec
				}
				tags = append(tags, spec)
			}
		}
		tagsKey := gostatsd.FormatTagsKey(src, tags)
		id := string(k) + "\x00" + name + "\x00" + tagsKey
		if used[id] {
			continue
		}
		used[id] = true
		perKind[k]++
		switch k {
		case 'c':
			v := int64(r.Intn(2000) - 500)
			if r.Chance(1, 10) {
				v = int64(r.U64() % (1 << 52))
			}
			if mm.Counters[name] == nil {
				mm.Counters[name] = map[string]gostatsd.Counter{}
			}
			mm.Counters[name][tagsKey] = gostatsd.Counter{Value: v, Timestamp: ts, Source: src, Tags: tags}
		case 'g':
			if mm.Gauges[name] == nil {
				mm.Gauges[name] = map[string]gostatsd.Gauge{}
			}
			mm.Gauges[name][tagsKey] = gostatsd.Gauge{Value: genFloat(r), Timestamp: ts, Source: src, Tags: tags}
		case 's':
			mem := map[string]struct{}{}
			nm := r.Intn(5)
			if r.Chance(1, 10) {
				nm = r.Range(5, 40)
			}
			if single {
				// members of equal length: the sequence of line lengths does not depend on Go's map order
				for j := 0; j < nm; j++ {
					mem[fmt.Sprintf("m%03d", r.Intn(1000))] = struct{}{}
				}
			} else {
				for j := 0; j < nm; j++ {
					if r.Chance(2, 3) {
						mem[hx.Pick(r, memberPool)] = struct{}{}
					} else {
						mem[randFrom(r, tagChars, 0, 8)] = struct{}{}
					}
				}
			}
			if mm.Sets[name] == nil {
				mm.Sets[name] = map[string]gostatsd.Set{}
			}
			mm.Sets[name][tagsKey] = gostatsd.Set{Values: mem, Timestamp: ts, Source: src, Tags: tags}
		case 't':
			nv := r.Range(1, 6)
			if r.Chance(1, 8) {
				nv = r.Range(6, 60)
			}
			if single && cfg.Backend == "statsdaemon" && r.Chance(2, 3) {
				nv = r.Range(40, 400) // several datagrams with a deterministic line order
			}
			vals := make([]float64, nv)
			for j := range vals {
				vals[j] = genFloat(r)
			}
			rate := hx.Pick(r, []float64{1, 1, 0.5, 0.25, 0.1})
			if mm.Timers[name] == nil {
				mm.Timers[name] = map[string]gostatsd.Timer{}
			}
			mm.Timers[name][tagsKey] = gostatsd.Timer{Values: vals, SampledCount: float64(nv) / rate, Timestamp: ts, Source: src, Tags: tags}
		}
	}
	// percentile thresholds and the `…Pct` flags are the aggregator's business; they shape `Timer.Percentiles`
	var pcts []float64
	switch r.Intn(5) {
	case 0:
	case 1:
		pcts = []float64{90}
	case 2:
		pcts = []float64{50, 99}
	case 3:
		pcts = []float64{90, 95, 99.9}
	case 4:
		pcts = []float64{75}
	}
	dis := cfg.subtypes()
	dis.LowerPct, dis.UpperPct, dis.CountPct, dis.MeanPct, dis.SumPct, dis.SumSquaresPct = r.Chance(1, 4), r.Chance(1, 4), r.Chance(1, 4), r.Chance(1, 4), r.Chance(1, 4), r.Chance(1, 4)
	agg := statsd.NewMetricAggregator(pcts, 0, 0, 0, 0, dis, 10)
	agg.ReceiveMap(mm)
	agg.Flush(hx.Pick(r, []time.Duration{time.Second, 10 * time.Second}))
	var view []series
	agg.Process(func(f *gostatsd.MetricMap) {
		f.Counters.Each(func(n, tk string, c gostatsd.Counter) {
			view = append(view, series{Kind: 'c', Name: n, TagsKey: tk, Src: string(c.Source), Tags: c.Tags, CVal: c.Value, Rate: c.PerSecond})
		})
		f.Gauges.Each(func(n, tk string, g gostatsd.Gauge) {
			view = append(view, series{Kind: 'g', Name: n, TagsKey: tk, Src: string(g.Source), Tags: g.Tags, GVal: g.Value})
		})
		f.Sets.Each(func(n, tk string, s gostatsd.Set) {
			var mem []string
			for m := range s.Values {
				mem = append(mem, m)
			}
			sort.Strings(mem)
			view = append(view, series{Kind: 's', Name: n, TagsKey: tk, Src: string(s.Source), Tags: s.Tags, Members: mem})
		})
		f.Timers.Each(func(n, tk string, t gostatsd.Timer) {
			s := series{Kind: 't', Name: n, TagsKey: tk, Src: string(t.Source), Tags: t.Tags, Count: t.Count, Rate: t.PerSecond, Min: t.Min, Max: t.Max,
				Mean: t.Mean, Median: t.Median, StdDev: t.StdDev, Sum: t.Sum, SumSquares: t.SumSquares, Pcts: t.Percentiles, Values: t.Values}
			if t.Histogram != nil {
				s.Hist = true
				for thr, cnt := range t.Histogram {
					s.Buckets = append(s.Buckets, bucket{Thr: float64(thr), Count: cnt})
				}
				sort.Slice(s.Buckets, func(i, j int) bool { return s.Buckets[i].Thr < s.Buckets[j].Thr })
			}
			view = append(view, s)
		})
	})
	sort.Slice(view, func(i, j int) bool {
		a, b := view[i], view[j]
		if a.Kind != b.Kind {
			return a.Kind < b.Kind
		}
		if a.Name != b.Name {
			return a.Name < b.Name
		}
		return a.TagsKey < b.TagsKey
	})
	return view
}

// uniformGroups: every timer of the view yields the same number of records, so the sizes of the
// datadog/newrelic batches do not depend on Go's map iteration order.
func uniformGroups(view []series) bool {
	shape := ""
	for _, s := range view {
		if s.Kind != 't' {
			continue
		}
		sh := "plain"
		if s.Hist {
			sh = fmt.Sprintf("hist%d", len(s.Buckets))
		}
		if shape != "" && sh != shape {
			return false
		}
		shape = sh
	}
	return true
}

func genEvent(r *hx.Rng) string {
	printable := func(lo, hi int, extra string) string {
		chars := nameChars + " :,|#@{}\\/" + extra
		return randFrom(r, chars, lo, hi)
	}
	title := printable(0, 20, "")
	text := printable(0, 40, "\n\n")
	text = strings.ReplaceAll(text, "\\n", "\\ n") // the property excludes a literal backslash-n pair
	if strings.HasSuffix(text, "\\") && r.Bool() {
		text += "x"
	}
	field := func() string {
		if r.Bool() {
			return ""
		}
		return randFrom(r, nameChars+" :,#@", 1, 12)
	}
	var tags []string
	for n := r.Intn(4); n > 0; n-- {
		tags = append(tags, randFrom(r, tagChars+" #@", 1, 10))
	}
	date := 0
	if r.Bool() {
		date = r.Intn(2000000000)
	}
	parts := []string{"e", hx.S(title), hx.S(text), fmt.Sprint(date), hx.S(field()), hx.S(field()), hx.S(field()), fmt.Sprint(r.Intn(2)), fmt.Sprint(r.Intn(4)), fmt.Sprint(len(tags))}
	for _, t := range tags {
		parts = append(parts, hx.S(t))
	}
	return "event ; " + strings.Join(parts, " ")
}

// setWitnessOdds: one in so many newrelic-metrics cases may contain sets (known finding)
var setWitnessOdds = 10

var backends = []string{"datadog", "influxdb", "graphite", "newrelic", "otlp", "cloudwatch", "statsdaemon"}

func gen(args []string) {
	r := hx.NewRng(hx.Seed())
	n := hx.ArgInt(args, "--n", 600)
	thorough := hx.Arg(args, "--tier", "quick") == "thorough"
	if thorough {
		setWitnessOdds = 60
	}
	st := hx.NewStats("one backend configuration (batch size 1..50, all 2^9 sub-metric masks, graphite modes, newrelic flush types, otlp conversions, compression on/off) " +
		"plus one flushed view of 0..300 series of all four types produced by the real MetricAggregator.Flush (names over [A-Za-z0-9_.-], tags and set members over [A-Za-z0-9_.:/-], " +
		"histogram timers, percentiles, sources); non-trivial = the flush produces at least two payloads/datagrams or at least 4 records; distinct by the case text")
	for i := 0; i < n; i++ {
		if i%12 == 11 {
			line := genEvent(r)
			st.Case(line, true)
			st.Hit("event")
			fmt.Fprintln(hx.Out, line)
			continue
		}
		cfg := config{Backend: backends[i%len(backends)]}
		if i%12 == 10 {
			cfg.Backend = "statsdaemon"
		}
		cfg.Batch = r.Range(1, 50)
		if r.Chance(1, 20) {
			cfg.Batch = hx.Pick(r, []int{1000, 5000, 20, 21, 19})
		}
		switch r.Intn(4) {
		case 0: // nothing disabled
		case 1:
			for j := range cfg.Mask {
				cfg.Mask[j] = true
			}
		default:
			for j := range cfg.Mask {
				cfg.Mask[j] = r.Bool()
			}
		}
		cfg.Z = r.Bool()
		cfg.GMode = hx.Pick(r, []string{"tags", "legacy", "basic"})
		cfg.GP, cfg.GC, cfg.GT, cfg.GG, cfg.GS, cfg.GX = "stats", "counters", "timers", "gauges", "sets", ""
		if r.Chance(1, 3) {
			pick := func() string { return hx.Pick(r, []string{"", "gp", "x1", "stats", "a-b", "P_q"}) }
			cfg.GP, cfg.GC, cfg.GT, cfg.GG, cfg.GS, cfg.GX = pick(), pick(), pick(), pick(), pick(), pick()
		}
		cfg.NR = hx.Pick(r, []string{"infra", "insights", "metrics"})
		cfg.OH = r.Chance(1, 3)
		if r.Bool() {
			cfg.RK = hx.Pick(r, [][]string{{"host"}, {"env", "az"}, {"service.name"}, {"host", "role", "env"}})
		}
		cfg.NT = r.Chance(1, 5)
		cfg.TCP = cfg.Backend == "statsdaemon" && r.Chance(1, 6)
		single := cfg.Backend == "statsdaemon" && !cfg.TCP && r.Chance(1, 2)
		nSeries := r.Intn(12)
		switch r.Intn(10) {
		case 0:
			nSeries = 0
		case 1, 2:
			nSeries = r.Range(12, 60)
		case 3:
			nSeries = r.Range(60, 300)
			if thorough && r.Chance(1, 4) {
				nSeries = r.Range(300, 1500)
			}
		}
		if single {
			nSeries = r.Range(2, 12)
		}
		view := genView(r, &cfg, nSeries, single)
		if cfg.Backend == "statsdaemon" && !cfg.TCP && r.Chance(1, 4) {
			// a line that alone exceeds the UDP packet size
			long := series{Kind: 'g', Name: "L" + randFrom(r, nameChars, 1480, 2200), GVal: genFloat(r)}
			if single {
				var kept []series
				for _, s := range view {
					if s.Kind != 'g' {
						kept = append(kept, s)
					}
				}
				view = kept
			}
			if r.Bool() {
				long.Src = "10.9.9.9"
				long.Tags = []string{"k:v"}
				long.TagsKey = gostatsd.FormatTagsKey(gostatsd.Source(long.Src), gostatsd.Tags{"k:v"})
			}
			view = append(view, long)
		}
		switch cfg.Backend {
		case "datadog", "newrelic":
			cfg.Det = uniformGroups(view)
		case "statsdaemon":
			cfg.Det = single
		}
		parts := []string{cfg.encode()}
		recs := 0
		for _, s := range view {
			parts = append(parts, s.encode())
			recs += 1 + len(s.Values) + len(s.Members)
		}
		line := strings.Join(parts, " ; ")
		st.Case(line, recs >= 4)
		st.Hit("backend=" + cfg.Backend)
		st.Hit(fmt.Sprintf("series<=%d", bucketOf(len(view))))
		st.Hit(fmt.Sprintf("batch<=%d", bucketOf(cfg.Batch)))
		if cfg.Det {
			st.Hit("batch-sizes-determined=" + cfg.Backend)
		}
		if cfg.Backend == "graphite" {
			st.Hit("graphite-mode=" + cfg.GMode)
		}
		if cfg.Backend == "newrelic" {
			st.Hit("newrelic-type=" + cfg.NR)
		}
		for _, s := range view {
			if s.Hist {
				st.Hit("histogram-timer-series")
			}
			if len(s.Pcts) > 0 {
				st.Hit("timer-with-percentiles")
			}
			if len(s.Name) > 1472 {
				st.Hit("relay-overlong-line")
			}
		}
		fmt.Fprintln(hx.Out, line)
	}
	hx.Out.Flush()
	st.Extra["formatter_values_checked"] = fmtChecked
	st.Extra["formatter_values_exact_under_%f"] = fmtExact
	st.Write(hx.Arg(args, "--stats", ""))
}

func bucketOf(n int) int {
	for _, b := range []int{0, 1, 4, 12, 20, 50, 300, 1500} {
		if n <= b {
			return b
		}
	}
	return 1 << 31
}

var _ = math.Inf
