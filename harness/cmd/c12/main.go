// c12: correspondence harness for C12 (the instance cache answers every lookup once and never forgets
// good data on error).
//
//	c12 gen [--n N] [--tier quick|thorough] [--stats file]   histories on stdout (VERIF_SEED)
//	c12 run                                                   drives the real CachedCloudProvider.Run
//
// Case / output format: see lean/Gsd/Driver/C12.lean.
//
// How the real component is driven
//   - the real NewCachedCloudProvider(...).Run and RunMetrics, a scripted gostatsd.CloudProvider whose
//     answer for a source is fixed for the duration of one op (so the dispatcher's grouping into batches
//     cannot matter), rate limiter of burst 1 at 10^7/s (one token per provider call is always there within 100 ns; asking for more than one at once fails);
//   - the refresh ticker: Run takes its clock from the context; the harness' clock returns the Mock's
//     ticker with its channel replaced by an unbuffered channel of the harness, so a tick carries exactly
//     the time the harness chooses and `tickC <- t` returns only when the owner loop has taken it;
//   - time: handleInstanceInfo / Peek stamp entries with time.Now() while doRefresh compares them with
//     the tick's time.  One unit of model time is one hour.  The tick time is always B0 (the start of the
//     case); "d units pass" = VerifAge(d h) shifts every stored stamp by -d h; immediately before a tick
//     every stored stamp is rounded to B0 + k h (VerifRetime), which removes the few milliseconds of real
//     time that passed, so the comparisons in doRefresh see exact whole numbers of units (the boundaries
//     now-lastAccess = idle and t = expires are hit exactly);
//   - the hooks run inside the owner goroutine (see verif_hooks.go) and double as fences;
//   - gauges are read through the real path: the harness' Statser hands RunMetrics a flush signal,
//     RunMetrics calls scheduleEmit (fire and forget, so it is retried until the owner loop takes it),
//     emit() calls Gauge on the harness' Statser inside the owner loop;
//   - overlap: op `hold` closes a gate at the top of the scripted provider's Instance(): the single
//     dispatcher goroutine blocks in its next provider call, so from then on nothing is answered while
//     the owner loop keeps serving ticks, reads and emits; submissions are sent from helper goroutines
//     (they block on the unbuffered IpSink until the dispatcher is back).  `release` installs its table,
//     opens the gate and waits for one answer per outstanding lookup.  Calls are recorded when they pass
//     the gate, so what a step reports does not depend on when the call was entered;
//   - quiescence: the number of answers a step must produce is predicted by a small tracker in this file
//     (used for waiting and for steering the generator only, never for a verdict).
package main

import (
	"context"
	"fmt"
	"io"
	"math"
	"os"
	"runtime"
	"sort"
	"strconv"
	"strings"
	"sync"
	"sync/atomic"
	"time"

	"github.com/sirupsen/logrus"
	"github.com/tilinna/clock"
	"golang.org/x/time/rate"

	"github.com/atlassian/gostatsd"
	"github.com/atlassian/gostatsd/pkg/cachedinstances/cloudprovider"
	"github.com/atlassian/gostatsd/pkg/stats"

	"verifharness/internal/hx"
)

const unit = time.Hour

var (
	hangTimeout       = 30 * time.Second // a step that has not produced its answers by then is a HANG
	quietPollsAsked   = 50               // 10 ms polls without any movement, provider already asked for everything
	quietPollsUnasked = 150              // the same while the provider has not yet been asked for everything
	finalDrain        = 30 * time.Millisecond
)

// ------------------------------------------------------------------------------------------ cases

type outcome struct {
	kind byte // v f m n e
	n    int
}

func (o outcome) String() string {
	if o.kind == 'v' || o.kind == 'f' {
		return fmt.Sprintf("%c%d", o.kind, o.n)
	}
	return string(o.kind)
}
func (o outcome) val() (int, bool) { return o.n, o.kind == 'v' || o.kind == 'f' }
func (o outcome) err() bool        { return o.kind == 'e' || o.kind == 'f' }

type pair struct {
	src string
	out outcome
}

type op struct {
	kind  string // sub peek age tick hold release
	pairs []pair
	src   string
	d     int
}

type tcase struct {
	ttl, neg, idle, max int
	ops                 []op
}

func parseOutcome(t string) (outcome, bool) {
	switch {
	case t == "m" || t == "n" || t == "e":
		return outcome{kind: t[0]}, true
	case len(t) > 1 && (t[0] == 'v' || t[0] == 'f'):
		n, err := strconv.Atoi(t[1:])
		if err != nil || n < 0 {
			return outcome{}, false
		}
		return outcome{kind: t[0], n: n}, true
	}
	return outcome{}, false
}

func parsePairs(ts []string) ([]pair, bool) {
	ps := []pair{}
	for _, t := range ts {
		i := strings.IndexByte(t, '=')
		if i <= 0 {
			return nil, false
		}
		o, ok := parseOutcome(t[i+1:])
		if !ok {
			return nil, false
		}
		ps = append(ps, pair{t[:i], o})
	}
	return ps, true
}

func parseCase(line string) (*tcase, bool) {
	items := hx.SplitBy(hx.Tokens(line), ";")
	if len(items) == 0 || len(items[0]) != 5 || items[0][0] != "cfg" {
		return nil, false
	}
	c := &tcase{}
	var err error
	nums := make([]int, 4)
	for i := range nums {
		if nums[i], err = strconv.Atoi(items[0][i+1]); err != nil || nums[i] < 0 {
			return nil, false
		}
	}
	c.ttl, c.neg, c.idle, c.max = nums[0], nums[1], nums[2], nums[3]
	if c.max < 1 {
		return nil, false
	}
	for _, it := range items[1:] {
		if len(it) == 0 {
			continue
		}
		switch {
		case it[0] == "hold" && len(it) == 1:
			c.ops = append(c.ops, op{kind: "hold"})
		case it[0] == "sub" || it[0] == "tick" || it[0] == "release":
			ps, ok := parsePairs(it[1:])
			if !ok {
				return nil, false
			}
			c.ops = append(c.ops, op{kind: it[0], pairs: ps})
		case it[0] == "peek" && len(it) == 2:
			c.ops = append(c.ops, op{kind: "peek", src: it[1]})
		case it[0] == "age" && len(it) == 2:
			d, err := strconv.Atoi(it[1])
			if err != nil || d < 0 {
				return nil, false
			}
			c.ops = append(c.ops, op{kind: "age", d: d})
		default:
			return nil, false
		}
	}
	held := false
	for _, o := range c.ops {
		switch o.kind {
		case "hold":
			held = true
		case "release":
			held = false
		}
	}
	if held { // a case that ends held gets a final release with an empty table (as in the model driver)
		c.ops = append(c.ops, op{kind: "release"})
	}
	return c, true
}

func tableOf(ps []pair) map[string]outcome {
	m := map[string]outcome{}
	for _, p := range ps {
		if _, dup := m[p.src]; !dup { // first wins, like the model driver
			m[p.src] = p.out
		}
	}
	return m
}

// ------------------------------------------------------------------------------- waiting predictor

// tracker predicts how many answers a step produces (for waiting) and steers the generator towards
// the boundaries.  It never decides a verdict.
type ent struct {
	pos     bool
	inst    int
	la, exp int
}

type tracker struct {
	ttl, neg, idle int
	now            int
	es             map[string]*ent
	held           bool
	heldQ          []string // lookups outstanding while the provider is held
}

func newTracker(ttl, neg, idle int) *tracker {
	return &tracker{ttl: ttl, neg: neg, idle: idle, es: map[string]*ent{}}
}

func (t *tracker) answer(src string, o outcome) (kept bool, flipped bool) {
	n, pos := o.val()
	ttl := t.neg
	if pos {
		ttl = t.ttl
	}
	e := t.es[src]
	if e == nil {
		t.es[src] = &ent{pos: pos, inst: n, la: t.now, exp: t.now + ttl}
		return false, false
	}
	e.exp = t.now + ttl
	if pos {
		flipped = !e.pos
		e.pos, e.inst = true, n
	} else if e.pos {
		kept = true
	}
	return
}

// tick returns the sources evicted and the sources to re-query
func (t *tracker) tick() (evicted, due []string) {
	for s, e := range t.es {
		if t.now-e.la > t.idle {
			evicted = append(evicted, s)
		} else if t.now > e.exp {
			due = append(due, s)
		}
	}
	for _, s := range evicted {
		delete(t.es, s)
	}
	sort.Strings(evicted)
	sort.Strings(due)
	return
}

// --------------------------------------------------------------------------------------- scripted provider

type provider struct {
	mu     sync.Mutex
	max    int
	table  map[string]outcome
	fails  int
	stepQ  []string
	total  int
	calls  int
	bad    string
	multis int
	gate   chan struct{} // non-nil = held: calls block until it is closed
}

func (p *provider) hold() {
	p.mu.Lock()
	if p.gate == nil {
		p.gate = make(chan struct{})
	}
	p.mu.Unlock()
}

func (p *provider) release(t map[string]outcome) {
	p.mu.Lock()
	p.table = t
	if p.gate != nil {
		close(p.gate)
		p.gate = nil
	}
	p.mu.Unlock()
}

func (p *provider) Name() string           { return "scripted" }
func (p *provider) MaxInstancesBatch() int { return p.max }
func (p *provider) EstimatedTags() int     { return 1 }

func mkInstance(n int) *gostatsd.Instance {
	return &gostatsd.Instance{ID: gostatsd.Source("i-" + strconv.Itoa(n)), Tags: gostatsd.Tags{"n:" + strconv.Itoa(n)}}
}

func (p *provider) Instance(ctx context.Context, ips ...gostatsd.Source) (map[gostatsd.Source]*gostatsd.Instance, error) {
	p.mu.Lock()
	gate := p.gate
	p.mu.Unlock()
	if gate != nil {
		select {
		case <-gate:
		case <-ctx.Done():
			return nil, ctx.Err()
		}
	}
	p.mu.Lock()
	defer p.mu.Unlock()
	p.calls++
	if len(ips) == 0 && p.bad == "" {
		p.bad = "empty"
	}
	if len(ips) > p.max && p.bad == "" {
		p.bad = fmt.Sprintf("big:%d", len(ips))
	}
	if len(ips) > 1 {
		p.multis++
	}
	m := map[gostatsd.Source]*gostatsd.Instance{}
	failed := false
	for _, ip := range ips {
		p.stepQ = append(p.stepQ, string(ip))
		p.total++
		o, ok := p.table[string(ip)]
		if !ok {
			o = outcome{kind: 'm'}
		}
		if o.err() {
			failed = true
		}
		switch o.kind {
		case 'v', 'f':
			m[ip] = mkInstance(o.n)
		case 'n':
			m[ip] = nil
		}
	}
	if failed {
		// the provider's own failures come in the kinds an SDK produces: plain, its own request time-out (which is a
		// context.DeadlineExceeded although the cache's context is alive), its own cancellation
		p.fails++
		var cause error
		switch p.fails % 3 {
		case 1:
			cause = context.DeadlineExceeded
		case 2:
			cause = context.Canceled
		default:
			cause = fmt.Errorf("connection reset")
		}
		if len(m) == 0 {
			return nil, fmt.Errorf("scripted failure: %w", cause) // nil map: doLookup reads instances[ip] from it
		}
		return m, fmt.Errorf("scripted partial failure: %w", cause)
	}
	return m, nil
}

func (p *provider) setTable(t map[string]outcome) {
	p.mu.Lock()
	p.table = t
	p.mu.Unlock()
}

func (p *provider) takeStep() []string {
	p.mu.Lock()
	defer p.mu.Unlock()
	q := p.stepQ
	p.stepQ = nil
	return q
}

func (p *provider) totals() (int, string) {
	p.mu.Lock()
	defer p.mu.Unlock()
	return p.total, p.bad
}

// --------------------------------------------------------------------------------------- clock

// hclock is the clock Run finds in its context: the Mock's ticker, but ticks come from the harness.
type hclock struct {
	*clock.Mock
	tickC chan time.Time
}

func (h *hclock) NewTicker(d time.Duration) *clock.Ticker {
	t := h.Mock.NewTicker(d)
	t.C = h.tickC
	return t
}

// --------------------------------------------------------------------------------------- statser

var gaugeNames = []string{
	"cloudprovider.cache_positive", "cloudprovider.cache_negative",
	"cloudprovider.cache_refresh_positive", "cloudprovider.cache_refresh_negative",
}

type group struct {
	phase int64
	vals  [4]float64
}

// gstatser receives emit()'s Gauge calls (in the owner goroutine).  A group of the four gauges counts
// only if all four calls saw the same observation phase, i.e. the whole emit happened while the harness
// was waiting for it in a quiescent state.
type gstatser struct {
	stats.Statser
	flush  chan time.Duration
	phase  atomic.Int64
	seen   map[string]float64
	seenPh map[string]int64
	groups chan group
	others atomic.Int64
}

func newGstatser() *gstatser {
	g := &gstatser{Statser: stats.NewNullStatser(), flush: make(chan time.Duration), seen: map[string]float64{},
		seenPh: map[string]int64{}, groups: make(chan group, 1024)}
	g.phase.Store(-1)
	return g
}

func (g *gstatser) RegisterFlush() (<-chan time.Duration, func()) { return g.flush, func() {} }

func (g *gstatser) Gauge(name string, value float64, tags gostatsd.Tags) {
	idx := -1
	for i, n := range gaugeNames {
		if n == name {
			idx = i
		}
	}
	if idx < 0 {
		g.others.Add(1)
		return
	}
	if _, dup := g.seen[name]; dup {
		g.seen, g.seenPh = map[string]float64{}, map[string]int64{}
	}
	g.seen[name] = value
	g.seenPh[name] = g.phase.Load()
	if len(g.seen) == 4 {
		gr := group{phase: g.seenPh[gaugeNames[0]]}
		same := true
		for i, n := range gaugeNames {
			gr.vals[i] = g.seen[n]
			if g.seenPh[n] != gr.phase {
				same = false
			}
		}
		g.seen, g.seenPh = map[string]float64{}, map[string]int64{}
		if same && gr.phase >= 0 {
			select {
			case g.groups <- gr:
			default:
			}
		}
	}
}

// --------------------------------------------------------------------------------------- one case

type hangErr struct{ what string }

type runner struct {
	c      *tcase
	ctx    context.Context
	ccp    *cloudprovider.CachedCloudProvider
	prov   *provider
	gst    *gstatser
	tickC  chan time.Time
	b0     time.Time
	ansC   chan gostatsd.InstanceInfo
	nAns   int
	late   int
	obsSeq int64
}

func fmtGauge(v float64) string {
	if v == math.Trunc(v) && !math.IsInf(v, 0) {
		return strconv.FormatFloat(v, 'f', 0, 64) // a wrapped uint64 counter prints as 18446744073709551616
	}
	return strconv.FormatFloat(v, 'g', -1, 64)
}

func showInfo(i gostatsd.InstanceInfo) string {
	if i.Instance == nil {
		return string(i.IP) + "=nil"
	}
	return string(i.IP) + "=" + showInstance(i.Instance)
}

func showInstance(in *gostatsd.Instance) string {
	id := string(in.ID)
	if strings.HasPrefix(id, "i-") && len(in.Tags) == 1 && in.Tags[0] == "n:"+id[2:] {
		return id[2:]
	}
	return "bad(" + hx.S(id) + ")"
}

func (r *runner) hang(what string) { panic(hangErr{what}) }

// snapshot = fence + what the cache map really holds
func (r *runner) snapshot() cloudprovider.VerifCounts {
	ctx, cancel := context.WithTimeout(r.ctx, hangTimeout)
	defer cancel()
	c, ok := r.ccp.VerifSnapshot(ctx)
	if !ok {
		r.hang("owner loop does not take the snapshot request")
	}
	return c
}

// observe reads the four gauges through RunMetrics -> scheduleEmit -> emit.
func (r *runner) observe() [4]float64 {
	r.obsSeq++
	id := r.obsSeq
	r.gst.phase.Store(id)
	defer r.gst.phase.Store(-1)
	deadline := time.Now().Add(hangTimeout)
	for {
		// one flush notification; RunMetrics answers it with one (non-blocking) scheduleEmit
		select {
		case r.gst.flush <- 0:
		case <-time.After(hangTimeout):
			r.hang("RunMetrics does not take the flush notification")
		}
		// wait a little for the group; if the owner loop was not at its select the request was dropped
		// ("at least we tried") and the notification is repeated
		retry := time.After(2 * time.Millisecond)
	wait:
		for {
			select {
			case g := <-r.gst.groups:
				if g.phase == id {
					return g.vals
				}
			case <-retry:
				break wait
			}
		}
		if time.Now().After(deadline) {
			r.hang("gauges were never emitted")
		}
	}
}

// collect waits for `expected` answers of the current step (for which the provider must be asked
// for `expected` sources); returns them plus whatever else already arrived.
// A step is closed *short* when nothing at all moved (no answer, no provider call) for a number of
// consecutive 10 ms polls - 50 once the provider has been asked for everything this step needs (the
// answers are then only channel hand-offs away), 150 otherwise - and the owner loop answers a fence
// with empty queues.  The case is then cut off after this step and the specification says what is
// missing.  Counting polls instead of wall time makes a stalled process harmless.  If the owner loop
// itself is stuck the case is a HANG.
func (r *runner) collect(expected int) (got []gostatsd.InstanceInfo, short bool) {
	got = []gostatsd.InstanceInfo{}
	start := time.Now()
	quiet := 0
	lastCalls := -1
	poll := time.NewTicker(10 * time.Millisecond)
	defer poll.Stop()
	for len(got) < expected {
		select {
		case a := <-r.ansC:
			got = append(got, a)
			quiet = 0
		case <-poll.C:
			r.prov.mu.Lock()
			calls, asked := r.prov.calls, len(r.prov.stepQ)
			r.prov.mu.Unlock()
			if calls != lastCalls {
				lastCalls = calls
				quiet = 0
			}
			quiet++
			if time.Since(start) > hangTimeout {
				r.hang(fmt.Sprintf("%d of %d answers after %v", len(got), expected, hangTimeout))
			}
			limit := quietPollsUnasked
			if asked >= expected {
				limit = quietPollsAsked
			}
			if quiet >= limit {
				sn := r.snapshot()
				if sn.PendingLookups == 0 && sn.PendingReturns == 0 {
					r.nAns += len(got)
					return got, true
				}
				quiet = 0
			}
		}
	}
	// anything beyond the prediction that is already here belongs to this step's report too
	for {
		select {
		case a := <-r.ansC:
			got = append(got, a)
			continue
		default:
		}
		break
	}
	r.nAns += len(got)
	return got, false
}

func (r *runner) lookupReport(got []gostatsd.InstanceInfo) string {
	q := r.prov.takeStep()
	sort.Strings(q)
	as := make([]string, len(got))
	for i, a := range got {
		as[i] = showInfo(a)
	}
	sort.Strings(as)
	return "q[" + strings.Join(q, " ") + "] a[" + strings.Join(as, " ") + "]"
}

func (r *runner) gauges() string {
	g := r.observe()
	sn := r.snapshot()
	return fmt.Sprintf("g=%s,%s,%s,%s c=%d,%d", fmtGauge(g[0]), fmtGauge(g[1]), fmtGauge(g[2]), fmtGauge(g[3]), sn.Positive, sn.Negative)
}

func (r *runner) snap() {
	b0 := r.b0
	ctx, cancel := context.WithTimeout(r.ctx, hangTimeout)
	defer cancel()
	ok := r.ccp.VerifRetime(ctx, func(x time.Time) time.Time {
		d := int64(x.Sub(b0))
		u := int64(unit)
		k := (d + u/2) / u
		if (d+u/2)%u < 0 { // floor division
			k--
		}
		return b0.Add(time.Duration(k * u))
	})
	if !ok {
		r.hang("owner loop does not take the retime request")
	}
}

func runCase(line string) (out string) {
	c, ok := parseCase(line)
	if !ok {
		return "BAD_CASE"
	}
	defer func() {
		if e := recover(); e != nil {
			if h, isHang := e.(hangErr); isHang {
				out = "HANG " + h.what
			} else {
				out = fmt.Sprintf("PANIC %v", e)
			}
		}
	}()
	b0 := time.Now().Round(0).Add(-time.Second) // wall clock only; a little in the past so that no stamp rounds up
	tickC := make(chan time.Time)
	clk := &hclock{Mock: clock.NewMock(b0), tickC: tickC}
	prov := &provider{max: c.max, table: map[string]outcome{}}
	logger := logrus.New()
	logger.SetOutput(io.Discard)
	ccp := cloudprovider.NewCachedCloudProvider(logger, rate.NewLimiter(rate.Limit(1e7), 1), prov, gostatsd.CacheOptions{
		CacheRefreshPeriod:        unit, // the Mock never advances: ticks come from the harness only
		CacheEvictAfterIdlePeriod: time.Duration(c.idle) * unit,
		CacheTTL:                  time.Duration(c.ttl) * unit,
		CacheNegativeTTL:          time.Duration(c.neg) * unit,
	})
	ctx, cancel := context.WithCancel(clock.Context(context.Background(), clk))
	gst := newGstatser()
	var wg sync.WaitGroup
	panics := make(chan string, 4)
	guard := func(f func()) {
		wg.Add(1)
		go func() {
			defer wg.Done()
			defer func() {
				if e := recover(); e != nil {
					select {
					case panics <- fmt.Sprint(e):
					default:
					}
				}
			}()
			f()
		}()
	}
	guard(func() { ccp.Run(ctx) })
	guard(func() { ccp.RunMetrics(ctx, gst) })
	ansC := make(chan gostatsd.InstanceInfo, 1<<14)
	guard(func() {
		for {
			select {
			case <-ctx.Done():
				return
			case a := <-ccp.InfoSource():
				ansC <- a
			}
		}
	})
	defer func() {
		cancel()
		done := make(chan struct{})
		go func() { wg.Wait(); close(done) }()
		select {
		case <-done:
		case <-time.After(hangTimeout):
			if !strings.HasPrefix(out, "HANG") && !strings.HasPrefix(out, "PANIC") {
				out = "HANG Run does not return after cancel"
			}
		}
		select {
		case p := <-panics:
			out = "PANIC " + p
		default:
		}
	}()

	r := &runner{c: c, ctx: ctx, ccp: ccp, prov: prov, gst: gst, tickC: tickC, b0: b0, ansC: ansC}
	tr := newTracker(c.ttl, c.neg, c.idle)
	items := []string{}
	shorts := 0
	for k, o := range c.ops {
		select {
		case p := <-panics:
			return "PANIC " + p
		default:
		}
		var res string
		short := false
		switch o.kind {
		case "hold":
			prov.hold()
			tr.held = true
			res = "ok"
		case "release":
			tbl := tableOf(o.pairs)
			prov.release(tbl)
			tr.held = false
			got, sh := r.collect(len(tr.heldQ))
			short = sh
			for _, s := range tr.heldQ {
				o2, ok := tbl[s]
				if !ok {
					o2 = outcome{kind: 'm'}
				}
				tr.answer(s, o2)
			}
			tr.heldQ = nil
			res = r.lookupReport(got)
		case "sub":
			if tr.held {
				// the dispatcher is (or will be) blocked in the provider: the sends complete after the release
				for _, p := range o.pairs {
					src := gostatsd.Source(p.src)
					guard(func() {
						select {
						case ccp.IpSink() <- src:
						case <-ctx.Done():
						}
					})
					tr.heldQ = append(tr.heldQ, p.src)
				}
				got, _ := r.collect(0)
				res = r.lookupReport(got)
				break
			}
			tbl := tableOf(o.pairs)
			prov.setTable(tbl)
			tm := time.NewTimer(hangTimeout)
			for _, p := range o.pairs {
				select {
				case ccp.IpSink() <- gostatsd.Source(p.src):
				case <-tm.C:
					r.hang("IpSink does not accept " + p.src)
				}
			}
			tm.Stop()
			got, sh := r.collect(len(o.pairs))
			short = sh
			for _, p := range o.pairs {
				tr.answer(p.src, tbl[p.src])
			}
			res = r.lookupReport(got)
		case "peek":
			in, hit := ccp.Peek(gostatsd.Source(o.src))
			switch {
			case !hit:
				res = "miss"
			case in == nil:
				res = "hit:nil"
			default:
				res = "hit:" + showInstance(in)
			}
			if e := tr.es[o.src]; e != nil {
				e.la = tr.now
			}
		case "age":
			actx, acancel := context.WithTimeout(ctx, hangTimeout)
			ok := ccp.VerifAge(actx, time.Duration(o.d)*unit)
			acancel()
			if !ok {
				r.hang("owner loop does not take the age request")
			}
			tr.now += o.d
			res = "ok"
		case "tick":
			tbl := tableOf(o.pairs)
			if !tr.held {
				prov.setTable(tbl)
			}
			r.snap()
			tm := time.NewTimer(hangTimeout)
			select {
			case tickC <- b0:
			case <-tm.C:
				r.hang("owner loop does not take the tick")
			}
			tm.Stop()
			r.snapshot() // fence: doRefresh has returned
			_, due := tr.tick()
			if tr.held {
				tr.heldQ = append(tr.heldQ, due...)
				got, _ := r.collect(0)
				res = r.lookupReport(got)
				break
			}
			got, sh := r.collect(len(due))
			short = sh
			for _, s := range due {
				o2, ok := tbl[s]
				if !ok {
					o2 = outcome{kind: 'm'}
				}
				tr.answer(s, o2)
			}
			res = r.lookupReport(got)
		}
		items = append(items, res+" "+r.gauges())
		if short {
			shorts++
			if shorts >= 2 && k+1 < len(c.ops) {
				// answers keep missing: the rest of the history would only repeat the finding slowly
				items = append(items, "cut")
				break
			}
		}
	}
	// anything still on its way (only possible if the code asked the provider for more than the
	// property allows) shows up within the dispatcher's batching window
	late := 0
	idle := time.NewTimer(finalDrain)
drain:
	for {
		select {
		case <-ansC:
			late++
			if !idle.Stop() {
				<-idle.C
			}
			idle.Reset(finalDrain)
		case <-idle.C:
			break drain
		}
	}
	total, bad := prov.totals()
	if bad == "" {
		bad = "ok"
	}
	items = append(items, fmt.Sprintf("end q=%d a=%d late=%d b=%s", total, r.nAns+late, late, bad))
	return strings.Join(items, " ; ")
}

// --------------------------------------------------------------------------------------- generator

func genOutcome(r *hx.Rng) outcome {
	switch x := r.Intn(100); {
	case x < 45:
		return outcome{kind: 'v', n: r.Range(1, 3)}
	case x < 60:
		return outcome{kind: 'm'}
	case x < 70:
		return outcome{kind: 'n'}
	case x < 85:
		return outcome{kind: 'e'}
	default:
		return outcome{kind: 'f', n: r.Range(1, 3)}
	}
}

func pairsString(ps []pair) string {
	ts := make([]string, len(ps))
	for i, p := range ps {
		ts[i] = p.src + "=" + p.out.String()
	}
	return strings.Join(ts, " ")
}

func genCase(r *hx.Rng, tier string, st *hx.Stats) string {
	ttl := hx.Pick(r, []int{0, 1, 1, 2, 2, 3, 5})
	neg := hx.Pick(r, []int{0, 1, 1, 2, 4})
	idle := hx.Pick(r, []int{0, 1, 2, 2, 3, 3, 4, 6, 9})
	max := r.Range(1, 4)
	nsrc := r.Range(1, 5)
	overlap := r.Chance(1, 4)   // provider calls held across ticks / reads / submissions
	scenario := r.Chance(1, 12) // starts with: refresh in flight, entry evicted meanwhile, re-inserted, used, expired again
	if scenario {
		ttl = r.Intn(3)
		idle = ttl + 1 + r.Intn(2)
	}
	srcs := make([]string, nsrc)
	for i := range srcs {
		srcs[i] = "s" + strconv.Itoa(i)
	}
	nops := r.Range(5, 30)
	if tier == "thorough" || r.Chance(1, 6) {
		nops = r.Range(5, 60)
	}
	tr := newTracker(ttl, neg, idle)
	items := []string{fmt.Sprintf("cfg %d %d %d %d", ttl, neg, idle, max)}
	nontrivial := false
	lookups := 0
	heldOps := 0
	evictedHeld := map[string]bool{} // evicted while a lookup of it was outstanding (this hold)
	reinserted := map[string]bool{}  // ... and re-inserted by the late answer, not yet refreshed since
	emit := func(s string) { items = append(items, s) }
	applyAnswer := func(what, src string, o outcome) {
		_, existed := tr.es[src]
		kept, flipped := tr.answer(src, o)
		if kept {
			st.Hit(what + ":failed-keeps-instance")
		}
		if flipped {
			st.Hit(what + ":negative-becomes-positive")
		}
		st.Hit("outcome:" + string(o.kind))
		if existed {
			delete(reinserted, src)
		}
		lookups++
	}
	genTable := func() []pair {
		ps := []pair{}
		for _, s := range srcs {
			if r.Chance(5, 6) {
				ps = append(ps, pair{s, genOutcome(r)})
			}
		}
		return ps
	}
	lookupOf := func(tbl map[string]outcome, s string) outcome {
		if o, ok := tbl[s]; ok {
			return o
		}
		return outcome{kind: 'm'}
	}
	doTickWith := func(ps []pair) {
		tbl := tableOf(ps)
		// boundary bookkeeping before the tick
		for _, e := range tr.es {
			switch d := tr.now - e.la; {
			case d == tr.idle:
				st.Hit("tick:idle-exactly-kept")
			case d == tr.idle+1:
				st.Hit("tick:idle+1-evicted")
			}
			if tr.now-e.la <= tr.idle {
				switch d := tr.now - e.exp; {
				case d == 0:
					st.Hit("tick:at-expiry-not-requeried")
				case d == 1:
					st.Hit("tick:expiry+1-requeried")
				}
			}
		}
		ev, due := tr.tick()
		if len(ev) > 0 {
			st.Hit("tick:evicts")
			nontrivial = true
		}
		if len(due) > 0 {
			st.Hit("tick:requeries")
			nontrivial = true
		}
		if len(ev) == 0 && len(due) == 0 {
			st.Hit("tick:nothing")
		}
		for _, s := range ev {
			delete(reinserted, s)
		}
		if tr.held {
			for _, s := range ev {
				for _, q := range tr.heldQ {
					if q == s {
						evictedHeld[s] = true
						st.Hit("held:evicted-while-its-lookup-is-outstanding")
						break
					}
				}
			}
			for _, s := range due {
				dup := false
				for _, q := range tr.heldQ {
					if q == s {
						dup = true
					}
				}
				if dup {
					st.Hit("held:expired-entry-queued-again")
				} else {
					st.Hit("held:tick-requeues")
				}
			}
			tr.heldQ = append(tr.heldQ, due...)
			st.Hit("op:tick-held")
		} else {
			for _, s := range due {
				if reinserted[s] {
					st.Hit("held:requery-after-late-answer-reinserted-evicted-entry")
				}
				applyAnswer("refresh", s, lookupOf(tbl, s))
			}
			st.Hit("op:tick")
		}
		emit(strings.TrimSpace("tick " + pairsString(ps)))
	}
	doTick := func() { doTickWith(genTable()) }
	doSub := func(ps []pair) {
		for _, p := range ps {
			if tr.held {
				tr.heldQ = append(tr.heldQ, p.src)
				st.Hit("held:submission-queued")
			} else {
				applyAnswer("resubmit", p.src, p.out)
			}
		}
		emit("sub " + pairsString(ps))
		st.Hit("op:sub")
	}
	doPeek := func(s string) {
		if e := tr.es[s]; e != nil {
			e.la = tr.now
			if e.pos {
				st.Hit("peek:positive")
			} else {
				st.Hit("peek:negative")
			}
		} else {
			st.Hit("peek:miss")
		}
		if tr.held {
			st.Hit("held:peek")
		}
		emit("peek " + s)
		st.Hit("op:peek")
	}
	doAge := func(d int) {
		tr.now += d
		emit(fmt.Sprintf("age %d", d))
		st.Hit("op:age")
	}
	doHold := func() {
		tr.held = true
		heldOps = 0
		emit("hold")
		st.Hit("op:hold")
	}
	doRelease := func(ps []pair) {
		tbl := tableOf(ps)
		if len(tr.heldQ) > 0 {
			nontrivial = true
		}
		for _, s := range tr.heldQ {
			if _, in := tr.es[s]; !in && evictedHeld[s] {
				st.Hit("held:late-answer-reinserts-evicted-entry")
				reinserted[s] = true
			}
			applyAnswer("release", s, lookupOf(tbl, s))
		}
		tr.heldQ = nil
		tr.held = false
		evictedHeld = map[string]bool{}
		emit(strings.TrimSpace("release " + pairsString(ps)))
		st.Hit("op:release")
	}
	if scenario {
		x := hx.Pick(r, srcs)
		doSub([]pair{{x, outcome{kind: 'v', n: 1}}})
		doAge(ttl + 1) // past the TTL, not yet idle for longer than idle
		doHold()
		doTickWith(nil) // the refresh goes out and is held
		doAge(idle - ttl + r.Intn(2))
		doTickWith(nil) // idle-evicted while its refresh is in flight
		doRelease([]pair{{x, outcome{kind: hx.Pick(r, []byte{'v', 'v', 'f'}), n: 2}}})
		doPeek(x)
		doAge(ttl + 1)
		if r.Bool() {
			doPeek(x)
		}
		doTickWith([]pair{{x, genOutcome(r)}})
		st.Hit("scenario:evicted-during-refresh")
	}
	for len(items)-1 < nops {
		if tr.held {
			heldOps++
			if heldOps > 6 || r.Chance(1, 4) {
				doRelease(genTable())
				continue
			}
		} else if overlap && r.Chance(1, 6) {
			doHold()
			continue
		}
		switch x := r.Intn(100); {
		case x < 35 && !(tr.held && x < 20): // submissions (fewer while held)
			k := r.Range(1, 3)
			if r.Chance(1, 4) {
				k = r.Range(3, 7)
			}
			outs := map[string]outcome{}
			ps := []pair{}
			dup := false
			for i := 0; i < k; i++ {
				s := hx.Pick(r, srcs)
				o, seen := outs[s]
				if !seen {
					o = genOutcome(r)
					outs[s] = o
				} else {
					dup = true
				}
				ps = append(ps, pair{s, o})
			}
			if dup {
				st.Hit("sub:duplicate-source")
			}
			if k > max {
				st.Hit("sub:more-than-one-batch")
			}
			doSub(ps)
		case x < 55: // reads
			doPeek(hx.Pick(r, srcs))
		case x < 88: // time passes, usually followed by a tick
			d := r.Intn(4)
			if len(tr.es) > 0 && r.Chance(2, 3) {
				// aim at a boundary of some entry
				keys := make([]string, 0, len(tr.es))
				for s := range tr.es {
					keys = append(keys, s)
				}
				sort.Strings(keys)
				e := tr.es[hx.Pick(r, keys)]
				var target int
				if r.Bool() {
					target = tr.idle - (tr.now - e.la) + r.Intn(2)
				} else {
					target = e.exp - tr.now + r.Intn(2)
				}
				if target >= 0 && target <= 12 {
					d = target
				}
			}
			doAge(d)
			if r.Chance(4, 5) && len(items)-1 < nops {
				doTick()
			}
		default:
			doTick()
		}
	}
	if tr.held && r.Chance(3, 4) { // otherwise the case ends held: implicit release with an empty table
		doRelease(genTable())
	}
	line := strings.Join(items, " ; ")
	st.Case(line, nontrivial && lookups >= 2)
	st.Hit(fmt.Sprintf("maxbatch=%d", max))
	st.Hit(fmt.Sprintf("ops<=%d", bucketOf(len(items)-1)))
	if strings.Contains(line, "; hold") {
		st.Hit("case:with-held-provider-calls")
	}
	return line
}

func bucketOf(n int) int {
	for _, b := range []int{5, 10, 20, 30, 40, 60} {
		if n <= b {
			return b
		}
	}
	return 1 << 30
}

func gen(args []string) {
	r := hx.NewRng(hx.Seed())
	n := hx.ArgInt(args, "--n", 300)
	tier := hx.Arg(args, "--tier", "quick")
	st := hx.NewStats("random histories of 5..60 quiescent steps (sub with duplicates / peek / age / tick) over 1..5 sources, " +
		"TTL, negative TTL and idle period 0..9 units, batch limit 1..4, provider outcomes instance / missing / nil / error / " +
		"error-with-partial-map, ages aimed at the idle and TTL boundaries; in about a third of the histories provider calls are " +
		"held (hold ... release) across ticks, reads and submissions, 1/12 start with the scenario refresh-in-flight / evicted / " +
		"re-inserted / used / expired again; non-trivial = at least one tick that evicts or re-queries (or a release with " +
		"outstanding lookups) and at least two lookups; distinct by the case text")
	for i := 0; i < n; i++ {
		fmt.Fprintln(hx.Out, genCase(r.Fork(), tier, st))
	}
	hx.Out.Flush()
	st.Write(hx.Arg(args, "--stats", ""))
}

// --------------------------------------------------------------------------------------- main

func runAll() {
	lines := []string{}
	hx.Lines(func(l string) { lines = append(lines, l) })
	outs := make([]string, len(lines))
	done := make([]chan struct{}, len(lines))
	for i := range done {
		done[i] = make(chan struct{})
	}
	workers := runtime.GOMAXPROCS(0)
	if workers > 16 {
		workers = 16
	}
	var next atomic.Int64
	for w := 0; w < workers; w++ {
		go func() {
			for {
				i := int(next.Add(1)) - 1
				if i >= len(lines) {
					return
				}
				outs[i] = runCase(lines[i])
				close(done[i])
			}
		}()
	}
	for i := range lines {
		<-done[i]
		fmt.Fprintln(hx.Out, outs[i])
		hx.Out.Flush()
	}
}

func main() {
	if len(os.Args) < 2 {
		fmt.Fprintln(os.Stderr, "usage: c12 gen|run")
		os.Exit(2)
	}
	switch os.Args[1] {
	case "gen":
		gen(os.Args[2:])
	case "run":
		runAll()
	default:
		os.Exit(2)
	}
}
