// c01: correspondence harness for C01 (every datapoint lands in exactly one flush).
// Scripted mode: the real DatagramParser → BackendHandler (unbuffered worker queues, so the program
// order is the schedule) → workers/aggregators → MetricFlusher (mock clock) or per-shard flush
// commands through BackendHandler.Process; a capture backend renders every view synchronously.
// Case format: see lean/Gsd/Driver/C01.lean.
package main

import (
	"context"
	"fmt"
	"io"
	"os"
	"sort"
	"strconv"
	"strings"
	"sync"
	"time"

	"github.com/sirupsen/logrus"
	"github.com/tilinna/clock"

	"github.com/atlassian/gostatsd"
	"github.com/atlassian/gostatsd/pkg/statsd"

	"verifharness/internal/hx"
	"verifharness/internal/mmc"
)

type capture struct {
	mu    sync.Mutex
	views []string // rendered maps
	keys  [][2]string
}

func (c *capture) Name() string                                           { return "capture" }
func (c *capture) SendEvent(ctx context.Context, e *gostatsd.Event) error { return nil }

// sortedView: a timer's values are a multiset (Flush sorts them for plain timers and leaves histogram-tagged ones in
// arrival order): the view is rendered with every value list sorted
func sortedView(mm *gostatsd.MetricMap) *gostatsd.MetricMap {
	out := *mm
	out.Timers = gostatsd.Timers{}
	mm.Timers.Each(func(n, t string, tm gostatsd.Timer) {
		vs := append([]float64(nil), tm.Values...)
		sort.Float64s(vs)
		tm.Values = vs
		if out.Timers[n] == nil {
			out.Timers[n] = map[string]gostatsd.Timer{}
		}
		out.Timers[n][t] = tm
	})
	return &out
}

func (c *capture) SendMetricsAsync(ctx context.Context, mm *gostatsd.MetricMap, cb gostatsd.SendCallback) {
	r := mmc.Render(sortedView(mm))
	var k [2]string
	found := false
	each := func(n, t string) {
		if !found {
			k = [2]string{n, t}
			found = true
		}
	}
	mm.Counters.Each(func(n, t string, _ gostatsd.Counter) { each(n, t) })
	mm.Timers.Each(func(n, t string, _ gostatsd.Timer) { each(n, t) })
	mm.Gauges.Each(func(n, t string, _ gostatsd.Gauge) { each(n, t) })
	mm.Sets.Each(func(n, t string, _ gostatsd.Set) { each(n, t) })
	c.mu.Lock()
	c.views = append(c.views, r)
	c.keys = append(c.keys, k)
	c.mu.Unlock()
	cb(nil)
}

func (c *capture) take() ([]string, [][2]string) {
	c.mu.Lock()
	defer c.mu.Unlock()
	v, k := c.views, c.keys
	c.views, c.keys = nil, nil
	return v, k
}

func (c *capture) count() int {
	c.mu.Lock()
	defer c.mu.Unlock()
	return len(c.views)
}

const interval = 10 * time.Second

type pipeline struct {
	n      int
	cap    *capture
	bh     *statsd.BackendHandler
	in     chan []*statsd.Datagram
	mock   *clock.Mock
	cancel context.CancelFunc
	ctx    context.Context
}

func newPipeline(n int, expireAll bool) *pipeline {
	p := &pipeline{n: n, cap: &capture{}}
	exp := time.Duration(0)
	if expireAll {
		exp = -1 * time.Nanosecond
	}
	factory := statsd.AggregatorFactoryFunc(func() statsd.Aggregator {
		return statsd.NewMetricAggregator(nil, exp, exp, exp, exp, gostatsd.TimerSubtypes{}, 0)
	})
	backends := []gostatsd.Backend{p.cap}
	p.bh = statsd.NewBackendHandler(backends, 10, n, 0, factory)
	ctx, cancel := context.WithCancel(context.Background())
	p.cancel = cancel
	p.mock = clock.NewMock(time.Unix(1000000, 0))
	p.ctx = clock.Context(ctx, p.mock)
	go p.bh.Run(p.ctx)
	p.in = make(chan []*statsd.Datagram)
	logger := logrus.New()
	logger.SetOutput(io.Discard)
	parser := statsd.NewDatagramParser(p.in, "", false, 0, p.bh, 0, false, logger)
	go parser.Run(p.ctx)
	fl := statsd.NewMetricFlusher(interval, 0, false, p.bh, backends)
	go fl.Run(p.ctx)
	return p
}

func waitFor(cond func() bool, d time.Duration) bool {
	deadline := time.Now().Add(d)
	for !cond() {
		if time.Now().After(deadline) {
			return false
		}
		time.Sleep(50 * time.Microsecond)
	}
	return true
}

// line renders a datapoint as a statsd line.
func line(m *gostatsd.Metric) string {
	var b strings.Builder
	b.WriteString(m.Name)
	b.WriteByte(':')
	switch m.Type {
	case gostatsd.SET:
		b.WriteString(m.StringValue)
		b.WriteString("|s")
	case gostatsd.COUNTER:
		b.WriteString(strconv.FormatFloat(m.Value, 'g', -1, 64))
		b.WriteString("|c")
	case gostatsd.GAUGE:
		b.WriteString(strconv.FormatFloat(m.Value, 'g', -1, 64))
		b.WriteString("|g")
	case gostatsd.TIMER:
		b.WriteString(strconv.FormatFloat(m.Value, 'g', -1, 64))
		b.WriteString("|ms")
	}
	if m.Rate != 1 {
		b.WriteString("|@")
		b.WriteString(strconv.FormatFloat(m.Rate, 'g', -1, 64))
	}
	if len(m.Tags) > 0 {
		b.WriteString("|#")
		b.WriteString(strings.Join(m.Tags, ","))
	}
	return b.String()
}

// datagramsOf turns the datapoints of one arrival into one batch of datagrams (what one socket read hands to the
// parser): consecutive datapoints of the same sender and receive time share a datagram
func datagramsOf(dps []*gostatsd.Metric) []*statsd.Datagram {
	var out []*statsd.Datagram
	for i := 0; i < len(dps); {
		j := i
		var lines []string
		for j < len(dps) && dps[j].Source == dps[i].Source && dps[j].Timestamp == dps[i].Timestamp {
			lines = append(lines, line(dps[j]))
			j++
		}
		out = append(out, &statsd.Datagram{IP: dps[i].Source, Msg: []byte(strings.Join(lines, "\n")), Timestamp: dps[i].Timestamp, DoneFunc: func() {}})
		i = j
	}
	return out
}

func (p *pipeline) arrive(dps []*gostatsd.Metric) bool {
	if len(dps) == 0 {
		return true
	}
	select {
	case p.in <- datagramsOf(dps):
	case <-time.After(10 * time.Second):
		return false
	}
	// the parser takes the next batch only after it has dispatched the previous one
	select {
	case p.in <- []*statsd.Datagram{}:
	case <-time.After(10 * time.Second):
		return false
	}
	return true
}

func (p *pipeline) label(views []string, keys [][2]string, shards []int) string {
	used := map[int]bool{}
	out := make([]string, 0, len(views))
	var empties []string
	for i, v := range views {
		if v == "-" {
			empties = append(empties, v)
			continue
		}
		s := gostatsd.Bucket(keys[i][0], keys[i][1], p.n)
		used[s] = true
		out = append(out, fmt.Sprintf("%d=%s", s, v))
	}
	for _, s := range shards {
		if len(empties) == 0 {
			break
		}
		if !used[s] {
			out = append(out, fmt.Sprintf("%d=-", s))
			used[s] = true
			empties = empties[1:]
		}
	}
	for range empties { // more empty views than free shards: keep them visible
		out = append(out, "?=-")
	}
	sort.Strings(out)
	return strings.Join(out, " ; ")
}

func (p *pipeline) flushAll() (string, bool) {
	if !waitFor(func() bool { return p.mock.Len() >= 1 }, 10*time.Second) {
		return "", false
	}
	p.cap.take()
	p.mock.Add(interval)
	if !waitFor(func() bool { return p.cap.count() >= p.n }, 10*time.Second) {
		return "", false
	}
	// give a (wrong) extra view the chance to show up
	v, k := p.cap.take()
	all := make([]int, p.n)
	for i := range all {
		all[i] = i
	}
	return p.label(v, k, all), true
}

func (p *pipeline) flushSome(sel []int) (string, bool) {
	want := map[int]bool{}
	for _, s := range sel {
		want[s] = true
	}
	p.cap.take()
	done := make(chan struct{})
	go func() {
		w := p.bh.Process(p.ctx, func(id int, aggr statsd.Aggregator) {
			if want[id] {
				aggr.Flush(interval)
				aggr.Process(func(m *gostatsd.MetricMap) {
					p.cap.SendMetricsAsync(p.ctx, m, func([]error) {})
				})
				aggr.Reset()
			}
		})
		w()
		close(done)
	}()
	select {
	case <-done:
	case <-time.After(10 * time.Second):
		return "", false
	}
	v, k := p.cap.take()
	uniq := []int{}
	seen := map[int]bool{}
	for _, s := range sel {
		if !seen[s] && s < p.n {
			seen[s] = true
			uniq = append(uniq, s)
		}
	}
	sort.Ints(uniq)
	return p.label(v, k, uniq), true
}

// ---- free-running mode: P parser goroutines, buffered worker queues, a concurrently ticking flusher.

type countingHandler struct {
	*statsd.BackendHandler
	n        int
	mu       sync.Mutex
	pieces   int // non-empty pieces handed to the workers so far
	returned int // DispatchMetricMap calls that have returned
}

func (c *countingHandler) DispatchMetricMap(ctx context.Context, mm *gostatsd.MetricMap) {
	np := 0
	// Split is pure: count the non-empty pieces of a copy-free second split
	for _, p := range mm.Split(c.n) {
		if !p.IsEmpty() {
			np++
		}
	}
	c.BackendHandler.DispatchMetricMap(ctx, mm)
	c.mu.Lock()
	c.pieces += np
	c.returned++
	c.mu.Unlock()
}

type countingAggr struct {
	statsd.Aggregator
	received *int64mu
}

type int64mu struct {
	mu sync.Mutex
	v  int
}

func (a countingAggr) ReceiveMap(mm *gostatsd.MetricMap) {
	a.Aggregator.ReceiveMap(mm)
	a.received.mu.Lock()
	a.received.v++
	a.received.mu.Unlock()
}

type viewRec struct {
	round int
	mm    string
}

func runFree(n int, expireAll bool, parsers, qsize int, items [][]string) string {
	exp := time.Duration(0)
	if expireAll {
		exp = -1 * time.Nanosecond
	}
	recvd := &int64mu{}
	factory := statsd.AggregatorFactoryFunc(func() statsd.Aggregator {
		return countingAggr{statsd.NewMetricAggregator(nil, exp, exp, exp, exp, gostatsd.TimerSubtypes{}, 0), recvd}
	})
	cap := &capture{}
	backends := []gostatsd.Backend{cap}
	bh := statsd.NewBackendHandler(backends, 10, n, qsize, factory)
	ch := &countingHandler{BackendHandler: bh, n: n}
	ctx0, cancel := context.WithCancel(context.Background())
	defer cancel()
	mock := clock.NewMock(time.Unix(1000000, 0))
	ctx := clock.Context(ctx0, mock)
	go bh.Run(ctx)
	in := make(chan []*statsd.Datagram)
	logger := logrus.New()
	logger.SetOutput(io.Discard)
	for i := 0; i < parsers; i++ {
		go statsd.NewDatagramParser(in, "", false, 0, ch, 0, false, logger).Run(ctx)
	}
	fl := statsd.NewMetricFlusher(interval, 0, false, bh, backends)
	go fl.Run(ctx)
	if !waitFor(func() bool { return mock.Len() >= 1 }, 10*time.Second) {
		return "HANG ticker"
	}
	// feeder and ticker run concurrently
	batches := 0
	var feed sync.WaitGroup
	feed.Add(1)
	go func() {
		defer feed.Done()
		for _, it := range items {
			if len(it) > 0 && it[0] == "a" {
				in <- datagramsOf(mmc.ParseDps(it[1:]))
			}
		}
	}()
	for _, it := range items {
		if len(it) > 0 && it[0] == "a" {
			batches++
		}
	}
	stopTick := make(chan struct{})
	var tick sync.WaitGroup
	tick.Add(1)
	go func() {
		defer tick.Done()
		for {
			select {
			case <-stopTick:
				return
			default:
				mock.Add(interval)
				time.Sleep(20 * time.Microsecond)
			}
		}
	}()
	feed.Wait()
	ok := waitFor(func() bool {
		ch.mu.Lock()
		defer ch.mu.Unlock()
		return ch.returned == batches
	}, 20*time.Second)
	if !ok {
		close(stopTick)
		return "HANG dispatch"
	}
	ok = waitFor(func() bool {
		ch.mu.Lock()
		want := ch.pieces
		ch.mu.Unlock()
		recvd.mu.Lock()
		defer recvd.mu.Unlock()
		return recvd.v == want
	}, 20*time.Second)
	close(stopTick)
	tick.Wait()
	if !ok {
		return "HANG deliver"
	}
	// Final flush of every shard through the workers' own command channel (the flusher's sequence
	// Flush / Process / Reset). Everything has been merged by now, so whatever the concurrently
	// running flusher still does before or after on a worker only reports what is left or nothing.
	bh.Process(ctx, func(id int, aggr statsd.Aggregator) {
		aggr.Flush(interval)
		aggr.Process(func(m *gostatsd.MetricMap) { cap.SendMetricsAsync(ctx, m, func([]error) {}) })
		aggr.Reset()
	})()
	views, _ := cap.take()
	return totals(views, n)
}

// totals sums what the views report per series (the free-running mode's canonical output).
func totals(views []string, n int) string {
	csum := map[string]int64{}
	tvals := map[string][]string{}
	tsamp := map[string]float64{}
	smem := map[string]map[string]bool{}
	for _, v := range views {
		if v == "-" {
			continue
		}
		mm := mmc.ParseMap(hx.Tokens(v))
		mm.Counters.Each(func(nm, tk string, c gostatsd.Counter) { csum[hx.S(nm)+" "+hx.S(tk)] += c.Value })
		mm.Timers.Each(func(nm, tk string, t gostatsd.Timer) {
			k := hx.S(nm) + " " + hx.S(tk)
			for _, x := range t.Values {
				tvals[k] = append(tvals[k], hx.F(x))
			}
			tsamp[k] += t.SampledCount
			if _, ok := tvals[k]; !ok {
				tvals[k] = nil
			}
		})
		mm.Sets.Each(func(nm, tk string, s gostatsd.Set) {
			k := hx.S(nm) + " " + hx.S(tk)
			if smem[k] == nil {
				smem[k] = map[string]bool{}
			}
			for m := range s.Values {
				smem[k][hx.S(m)] = true
			}
		})
	}
	out := []string{}
	for k, v := range csum {
		out = append(out, fmt.Sprintf("c %s %d", k, v))
	}
	for k, v := range tvals {
		sort.Strings(v)
		out = append(out, fmt.Sprintf("t %s %d %s %s", k, len(v), strings.Join(v, " "), hx.F(tsamp[k])))
	}
	for k, v := range smem {
		ms := []string{}
		for m := range v {
			ms = append(ms, m)
		}
		sort.Strings(ms)
		out = append(out, fmt.Sprintf("s %s %d %s", k, len(ms), strings.Join(ms, " ")))
	}
	sort.Strings(out)
	if len(out) == 0 {
		return "TOTALS -"
	}
	return "TOTALS " + strings.Join(out, " , ")
}

func runOne(caseLine string) (out string) {
	defer func() {
		if e := recover(); e != nil {
			out = fmt.Sprintf("PANIC %v", e)
		}
	}()
	parts := hx.SplitBy(hx.Tokens(caseLine), ";")
	if len(parts) == 0 || len(parts[0]) < 2 {
		return "BAD_CASE"
	}
	n, _ := strconv.Atoi(parts[0][0])
	if n < 1 {
		return "BAD_CASE"
	}
	if len(parts) > 1 && len(parts[1]) == 3 && parts[1][0] == "r" {
		P, _ := strconv.Atoi(parts[1][1])
		Q, _ := strconv.Atoi(parts[1][2])
		if P < 1 || Q < 0 {
			return "BAD_CASE"
		}
		return runFree(n, parts[0][1] == "x", P, Q, parts[2:])
	}
	p := newPipeline(n, parts[0][1] == "x")
	defer p.cancel()
	outs := []string{}
	for _, it := range parts[1:] {
		if len(it) == 0 {
			continue
		}
		switch it[0] {
		case "a":
			if !p.arrive(mmc.ParseDps(it[1:])) {
				return "HANG arrive"
			}
		case "f":
			var s string
			var ok bool
			if len(it) == 2 && it[1] == "*" {
				s, ok = p.flushAll()
			} else {
				sel := []int{}
				for _, t := range it[1:] {
					v, err := strconv.Atoi(t)
					if err != nil {
						return "BAD_CASE"
					}
					sel = append(sel, v)
				}
				s, ok = p.flushSome(sel)
			}
			if !ok {
				return "HANG flush"
			}
			outs = append(outs, s)
		default:
			return "BAD_CASE"
		}
	}
	if len(outs) == 0 {
		return "-"
	}
	return strings.Join(outs, " | ")
}

type series struct {
	ty   gostatsd.MetricType
	name string
	tags gostatsd.Tags
}

func gen(args []string) {
	r := hx.NewRng(hx.Seed())
	n := hx.ArgInt(args, "--n", 300)
	st := hx.NewStats("scripted histories of 3..25 ops (batch of 1..6 datapoints from one of 3 senders | flush of all shards | flush of some shards) over a pool of 1..6 series (four types, shared names, dyadic rates) with 1..8 shards, persist or expire-at-every-flush; non-trivial = some series receives data in at least two batches with a flush in between; distinct by case text")
	names := []string{"a", "b", "req.count", "x.y", "lat"}
	tagPool := []string{"t:1", "t:2", "env:p", "z", "gsd_histogram:10_50"}
	ips := []string{"10.0.0.1", "10.0.0.2", "h3"}
	rates := []float64{1, 1, 0.5, 0.25, 0.125}
	members := []string{"u1", "u2", "u3"}
	for i := 0; i < n; i++ {
		shards := r.Range(1, 8)
		mode := hx.Pick(r, []string{"p", "x"})
		pool := make([]series, r.Range(1, 6))
		for j := range pool {
			s := series{ty: hx.Pick(r, []gostatsd.MetricType{gostatsd.COUNTER, gostatsd.TIMER, gostatsd.GAUGE, gostatsd.SET}), name: hx.Pick(r, names)}
			for q := r.Intn(3); q > 0; q-- {
				s.tags = append(s.tags, hx.Pick(r, tagPool))
			}
			sort.Strings(s.tags)
			pool[j] = s
		}
		nops := r.Range(3, 25)
		items := []string{}
		oracle := map[string]string{}
		ts := int64(1000)
		dataSince := map[string]int{} // series -> number of batch groups separated by flushes
		lastWasFlush := map[string]bool{}
		nontrivial := false
		for o := 0; o < nops; o++ {
			if r.Chance(3, 5) {
				ip := hx.Pick(r, ips)
				mixed := r.Chance(1, 3) // one socket read with datagrams of several senders
				ts += int64(r.Intn(3))
				nd := r.Range(1, 6)
				ds := []string{}
				for q := 0; q < nd; q++ {
					s := hx.Pick(r, pool)
					if mixed {
						ip = hx.Pick(r, ips)
					}
					m := &gostatsd.Metric{Name: s.name, Type: s.ty, Tags: s.tags.Copy(), Source: gostatsd.Source(ip), Timestamp: gostatsd.Nanotime(ts), Rate: 1}
					m.TagsKey = gostatsd.FormatTagsKey(m.Source, m.Tags.Copy())
					switch s.ty {
					case gostatsd.COUNTER:
						m.Value = float64(r.Intn(21) - 5)
						m.Rate = hx.Pick(r, rates)
						if r.Chance(1, 3) {
							// free (non-dyadic) rates: trunc(value/rate) is an integer, so totals stay exact
							m.Value = float64(r.Intn(200) + 1)
							m.Rate = hx.Pick(r, []float64{0.1, 0.13, 0.07, 0.3, 0.9, 0.01, 0.77, 0.29, 0.57})
						}
					case gostatsd.TIMER:
						m.Value = float64(r.Intn(64)) / 2
						m.Rate = hx.Pick(r, rates)
					case gostatsd.GAUGE:
						m.Value = float64(r.Intn(100)) / 4
					case gostatsd.SET:
						m.StringValue = hx.Pick(r, members)
					}
					id := fmt.Sprint(s.ty) + "|" + s.name + "|" + m.TagsKey
					if lastWasFlush[id] {
						nontrivial = true
					}
					dataSince[id]++
					oracle[hx.S(s.name)+" "+hx.S(m.TagsKey)] = strconv.Itoa(gostatsd.Bucket(s.name, m.TagsKey, shards))
					ds = append(ds, mmc.DpToks(m))
				}
				items = append(items, "a "+strings.Join(ds, " , "))
			} else if r.Bool() {
				items = append(items, "f *")
				for id := range dataSince {
					lastWasFlush[id] = true
				}
			} else {
				sel := []string{}
				for q := r.Range(1, 3); q > 0; q-- {
					sel = append(sel, strconv.Itoa(r.Intn(shards)))
				}
				items = append(items, "f "+strings.Join(sel, " "))
				for id := range dataSince {
					lastWasFlush[id] = true
				}
			}
		}
		items = append(items, "f *")
		free := r.Chance(1, 5)
		if free {
			// free-running: only the batches matter; P parsers, queue size Q
			fi := []string{fmt.Sprintf("r %d %d", r.Range(1, 4), hx.Pick(r, []int{0, 1, 1000}))}
			for _, it := range items {
				if strings.HasPrefix(it, "a ") {
					fi = append(fi, it)
				}
			}
			items = fi
		}
		head := []string{strconv.Itoa(shards), mode}
		ok := make([]string, 0, len(oracle))
		for k := range oracle {
			ok = append(ok, k)
		}
		sort.Strings(ok)
		for _, k := range ok {
			head = append(head, k, oracle[k])
		}
		line := strings.Join(head, " ") + " ; " + strings.Join(items, " ; ")
		st.Case(line, nontrivial)
		st.Hit("shards=" + strconv.Itoa(shards))
		st.Hit("mode=" + mode)
		if free {
			st.Hit("free-running")
		} else {
			st.Hit("scripted")
		}
		fmt.Fprintln(hx.Out, line)
	}
	hx.Out.Flush()
	st.Write(hx.Arg(args, "--stats", ""))
}

func main() {
	logrus.SetOutput(io.Discard)
	if len(os.Args) < 2 {
		os.Exit(2)
	}
	switch os.Args[1] {
	case "gen":
		gen(os.Args[2:])
	case "run":
		// cases are independent pipelines: run them 16-way parallel, print in order
		var lines []string
		hx.Lines(func(l string) { lines = append(lines, l) })
		outs := make([]string, len(lines))
		sem := make(chan struct{}, 16)
		var wg sync.WaitGroup
		for i, l := range lines {
			wg.Add(1)
			sem <- struct{}{}
			go func(i int, l string) {
				defer wg.Done()
				outs[i] = runOne(l)
				<-sem
			}(i, l)
		}
		wg.Wait()
		for _, o := range outs {
			fmt.Fprintln(hx.Out, o)
		}
		hx.Out.Flush()
	default:
		os.Exit(2)
	}
}
