// c08: correspondence harness for C08 (timer statistics and histograms are those of the received multiset).
//
//	c08 gen [--n N] [--tier quick|thorough] [--stats file]   cases on stdout (VERIF_SEED)
//	c08 run                                                    what the real aggregator reported
//
// Case: `HEAD ; item ; item …` — HEAD see internal/aggx, items `d VAL RATE` | `m` | `r` (see Driver/C08.lean).
package main

import (
	"fmt"
	"math"
	"os"
	"strings"

	"github.com/atlassian/gostatsd"

	"verifharness/internal/aggx"
	"verifharness/internal/hx"
)

const series = "t"

// ---------------------------------------------------------------------------------------------- run

func runOne(line string) (out string) {
	defer func() {
		if e := recover(); e != nil {
			out = "PANIC flush"
		}
	}()
	parts := hx.SplitBy(hx.Tokens(line), ";")
	head, err := aggx.ParseHead(parts[0])
	if err != nil {
		return "BAD_CASE"
	}
	agg := aggx.NewAggregator(head)
	batch := gostatsd.NewMetricMap(false)
	decoy := len(line)%2 == 0 // half of the cases
	wantKey := gostatsd.FormatTagsKey("", append(gostatsd.Tags(nil), head.Tags...))
	hand := func() {
		if !batch.IsEmpty() {
			agg.ReceiveMap(batch)
			batch = gostatsd.NewMetricMap(false)
		}
	}
	for _, it := range parts[1:] {
		if len(it) == 0 {
			continue
		}
		switch it[0] {
		case "d":
			if len(it) != 3 {
				return "BAD_CASE"
			}
			if decoy && batch.IsEmpty() {
				// a sibling series with the same name and other tags is received first, so that the series
				// under test is created through Receive's "name known, tag set new" path as well
				batch.Receive(aggx.TimerMetric(series, []string{"verif_decoy:1"}, 7, 0.5))
			}
			batch.Receive(aggx.TimerMetric(series, head.Tags, hx.MustUnF(it[1]), hx.MustUnF(it[2])))
		case "m":
			hand()
		case "r":
			hand()
			agg.Flush(head.Interval())
			agg.Reset()
		default:
			return "BAD_CASE"
		}
	}
	hand()
	agg.Flush(head.Interval())
	res := "absent"
	agg.Process(func(mm *gostatsd.MetricMap) {
		n := 0
		mm.Timers.Each(func(name, tagsKey string, t gostatsd.Timer) {
			if decoy && tagsKey != wantKey {
				return // the sibling series
			}
			n++
			res = aggx.RenderTimer(t)
		})
		if n > 1 {
			res = "BAD_CASE more than one series"
		}
	})
	return res
}

// ---------------------------------------------------------------------------------------------- gen

func finite(r *hx.Rng) float64 {
	for {
		// sign, exponent in [-60, 60], random mantissa: squares and sums of 200 stay finite and normal
		m := r.U64() & (1<<52 - 1)
		e := uint64(1023 + r.Range(-60, 60))
		s := r.U64() & 1
		f := math.Float64frombits(s<<63 | e<<52 | m)
		if f != 0 && !math.IsNaN(f) && !math.IsInf(f, 0) {
			return f
		}
	}
}

type valueKind int

const (
	kArbitrary valueKind = iota
	kLatency
	kInteger
	kIntMean
	kFewDistinct
	kClustered
)

var kindNames = []string{"arbitrary-double", "latency-decimal", "integer", "integer-with-integer-mean", "few-distinct", "clustered-large-mean"}

func genValues(r *hx.Rng, n int, k valueKind) []float64 {
	vs := make([]float64, n)
	// clustered: a large base plus small offsets (epoch-like or nanosecond-scale timings), where a
	// one-pass variance formula loses all its digits
	base := hx.Pick(r, []float64{1e6, 3e8, 1e9, 1.7e12, 1e15})
	step := hx.Pick(r, []float64{0.001, 0.5, 1, 3})
	for i := range vs {
		switch k {
		case kClustered:
			vs[i] = base + step*float64(r.Intn(8))
		case kArbitrary:
			vs[i] = finite(r)
		case kLatency:
			vs[i] = float64(r.Intn(100000)) / 1000
		case kInteger:
			vs[i] = float64(r.Range(-1000, 100000))
		case kIntMean:
			vs[i] = float64(n * r.Range(-50, 500))
		case kFewDistinct:
			vs[i] = float64(r.Range(1, 3))
		}
	}
	return vs
}

func genRate(r *hx.Rng) float64 {
	switch r.Intn(5) {
	case 0, 1:
		return 1
	case 2:
		return hx.Pick(r, []float64{0.5, 0.25, 0.125, 0.1, 0.01})
	default:
		return float64(r.Range(1, 1000)) / 1000
	}
}

func genN(r *hx.Rng) int {
	switch r.Intn(10) {
	case 0:
		return 0
	case 1:
		return 1
	case 2, 3, 4, 5:
		return r.Range(2, 12)
	case 6, 7:
		return r.Range(13, 60)
	default:
		return r.Range(61, 200)
	}
}

// rankF is the harness's own copy of the double formula, used for the *statistics* (branch coverage) only.
func rankF(p, n int) int {
	if n <= 1 {
		return n
	}
	return int(math.Floor(math.Abs(float64(p))/100*float64(n) + 0.5))
}

func items(r *hx.Rng, vs []float64, rates []float64, idleFirst bool) []string {
	out := []string{}
	if idleFirst {
		// the series exists already and is persisted empty when the data of interest arrives
		out = append(out, fmt.Sprintf("d %s %s", hx.F(float64(r.Range(1, 9))), hx.F(1)), "r")
		for r.Chance(1, 3) {
			out = append(out, "r")
		}
	}
	for i, v := range vs {
		out = append(out, fmt.Sprintf("d %s %s", hx.F(v), hx.F(rates[i])))
		if i+1 < len(vs) && r.Chance(1, 12) {
			out = append(out, "m")
		}
	}
	return out
}

func emit(st *hx.Stats, head aggx.Head, its []string, n int, kind string) {
	line := head.String()
	if len(its) > 0 {
		line += " ; " + strings.Join(its, " ; ")
	}
	hist := false
	for _, t := range head.Tags {
		if strings.HasPrefix(t, aggx.HistPrefix) {
			hist = true
		}
	}
	nontrivial := false
	if hist {
		st.Hit("histogram")
		st.Hit(fmt.Sprintf("histogram-limit=%d", head.Limit))
		nontrivial = n >= 1
	} else {
		st.Hit("plain")
		for _, p := range head.Pcts {
			k := rankF(p, n)
			switch {
			case n == 0:
			case n == 1:
				st.Hit("pct:n=1")
			case k == 0:
				st.Hit("pct:rank=0-omitted")
			case p < 0 && k == n:
				st.Hit("pct:negative-rank=n")
			case p < 0:
				st.Hit("pct:negative")
			case k == n:
				st.Hit("pct:positive-rank=n")
			default:
				st.Hit("pct:positive")
			}
		}
		nontrivial = n >= 2 && len(head.Pcts) > 0
	}
	st.Hit("values:" + kind)
	switch {
	case n == 0:
		st.Hit("n=0")
	case n == 1:
		st.Hit("n=1")
	case n <= 12:
		st.Hit("n=2..12")
	case n <= 60:
		st.Hit("n=13..60")
	default:
		st.Hit("n=61..200")
	}
	if n >= 2 {
		if n%2 == 0 {
			st.Hit("median:even")
		} else {
			st.Hit("median:odd")
		}
	}
	if head.Mask != 0 {
		st.Hit("mask!=0")
	}
	st.Case(line, nontrivial)
	fmt.Fprintln(hx.Out, line)
}

func gen(args []string) {
	r := hx.NewRng(hx.Seed())
	n := hx.ArgInt(args, "--n", 3000)
	st := hx.NewStats("one timer series through the real MetricAggregator (ReceiveMap in 1..n batches, optional persisted-idle prefix, Flush, Process): " +
		"values = arbitrary finite doubles / decimal latencies / integers / integers with integer mean / few distinct, n = 0..200, rates in (0,1], " +
		"0-6 integer percentiles in -100..100 (duplicates, 0), random sub-metric masks, intervals 1ms..1h, histogram tags (empty, malformed, duplicate, " +
		"descending, inf items) x limits {0,1,2,5,2^32-1}; plus the boundary enumerator: every percentile -100..100 x n = 0..12. " +
		"non-trivial = plain timer with n >= 2 and at least one percentile, or histogram timer with n >= 1; distinct by the case text")
	st.Extra["fma_selftest"] = aggx.FMASelfTest()
	if !aggx.FMASelfTest() {
		fmt.Fprintln(os.Stderr, "c08: this build fuses multiply-add; the bit-exact comparison is not meaningful")
		os.Exit(3)
	}

	// boundary enumerator
	for p := -100; p <= 100; p++ {
		for k := 0; k <= 12; k++ {
			head := aggx.Head{Pcts: []int{p}, Limit: 5, IntervalNs: 1e9}
			vs := make([]float64, k)
			rates := make([]float64, k)
			for i := range vs {
				vs[i] = float64((i*7)%13 + 1)
				rates[i] = 1
			}
			var its []string
			if k == 0 {
				its = []string{fmt.Sprintf("d %s %s", hx.F(3), hx.F(1)), "r"}
			} else {
				its = items(r, vs, rates, false)
			}
			emit(st, head, its, k, "enumerator")
		}
	}

	for i := 0; i < n; i++ {
		head := aggx.Head{Pcts: aggx.GenPcts(r), Mask: aggx.GenMask(r), Limit: hx.Pick(r, aggx.Limits), IntervalNs: aggx.GenInterval(r)}
		hist := r.Chance(3, 10)
		head.Tags = aggx.GenTags(r, hist)
		cnt := genN(r)
		kind := valueKind(r.Intn(6))
		vs := genValues(r, cnt, kind)
		rates := make([]float64, cnt)
		one := r.Chance(1, 2)
		for j := range rates {
			if one {
				rates[j] = 1
			} else {
				rates[j] = genRate(r)
			}
		}
		idle := r.Chance(1, 6)
		var its []string
		if cnt == 0 {
			if r.Chance(1, 5) {
				its = nil // the series never existed
			} else {
				its = items(r, nil, nil, true)
			}
		} else {
			its = items(r, vs, rates, idle)
		}
		emit(st, head, its, cnt, kindNames[kind])
	}
	hx.Out.Flush()
	st.Write(hx.Arg(args, "--stats", ""))
}

func main() {
	if len(os.Args) < 2 {
		fmt.Fprintln(os.Stderr, "usage: c08 gen|run")
		os.Exit(2)
	}
	switch os.Args[1] {
	case "gen":
		gen(os.Args[2:])
	case "run":
		hx.Lines(func(line string) {
			fmt.Fprintln(hx.Out, runOne(line))
		})
		hx.Out.Flush()
	default:
		os.Exit(2)
	}
}
