// c07: correspondence harness for C07 (merging is independent of order and grouping).
// Case: `k k2 ; m SLOT entry , entry … ; d SLOT dp , dp … ; …` — see lean/Gsd/Driver/C07.lean.
package main

import (
	"fmt"
	"os"
	"sort"
	"strconv"
	"strings"
	"sync"

	"github.com/atlassian/gostatsd"

	"verifharness/internal/hx"
	"verifharness/internal/mmc"
)

var names = []string{"a", "b", "req", "x.y", ""}
var tagPool = []string{"t:1", "t:2", "env:p", "z"}
var srcs = []string{"", "10.0.0.1", "h2"}
var rates = []float64{1, 0.5, 0.25, 0.125}
var members = []string{"u1", "u2", "u3", ""}

type series struct {
	ty      string
	name    string
	tags    gostatsd.Tags
	src     string
	tagsKey string
}

func genSeries(r *hx.Rng) series {
	s := series{ty: hx.Pick(r, []string{"c", "t", "g", "s"}), name: hx.Pick(r, names[:3+r.Intn(3)]), src: hx.Pick(r, srcs)}
	for i := r.Intn(3); i > 0; i-- {
		s.tags = append(s.tags, hx.Pick(r, tagPool))
	}
	cp := s.tags.Copy()
	s.tagsKey = gostatsd.FormatTagsKey(gostatsd.Source(s.src), cp)
	// tags in a random order: series with the same identity may arrive with differently ordered tags
	r.Shuffle(len(s.tags), func(i, j int) { s.tags[i], s.tags[j] = s.tags[j], s.tags[i] })
	return s
}

func genTs(r *hx.Rng) int64 {
	// few distinct timestamps so that ties (equal newest timestamps) are common
	return int64(100 + r.Intn(4))
}

func gen(args []string) {
	r := hx.NewRng(hx.Seed())
	n := hx.ArgInt(args, "--n", 1500)
	st := hx.NewStats("programs of 1..14 ReceiveMetricMap / ReceiveMetrics calls over a pool of 1..5 series (all four types, shared names, differently ordered tags, dyadic rates, integer-valued values, 4 distinct timestamps so ties are common) with 1..8 slots; non-trivial = some series is received by at least two calls; distinct by case text")
	for i := 0; i < n; i++ {
		pool := make([]series, r.Range(1, 5))
		for j := range pool {
			pool[j] = genSeries(r)
		}
		k, k2 := r.Range(1, 8), r.Range(1, 8)
		nops := r.Range(1, 14)
		parts := []string{fmt.Sprintf("%d %d", k, k2)}
		seenSeries := map[string]int{}
		for o := 0; o < nops; o++ {
			slot := r.Intn(8)
			if r.Bool() {
				// a map leaf: distinct series of the pool
				perm := r.Intn(len(pool)) + 1
				used := map[string]bool{}
				es := []string{}
				for q := 0; q < perm; q++ {
					s := hx.Pick(r, pool)
					id := s.ty + s.name + "\x00" + s.tagsKey
					if used[id] {
						continue
					}
					used[id] = true
					seenSeries[id]++
					ts := gostatsd.Nanotime(genTs(r))
					switch s.ty {
					case "c":
						es = append(es, mmc.CounterEntry(s.name, s.tagsKey, gostatsd.Counter{Value: int64(r.Intn(41) - 20), Timestamp: ts, Source: gostatsd.Source(s.src), Tags: s.tags}))
					case "g":
						es = append(es, mmc.GaugeEntry(s.name, s.tagsKey, gostatsd.Gauge{Value: float64(r.Intn(100)) / 4, Timestamp: ts, Source: gostatsd.Source(s.src), Tags: s.tags}))
					case "t":
						nv := r.Intn(4)
						vals := make([]float64, nv)
						for z := range vals {
							vals[z] = float64(r.Intn(64)) / 2
						}
						es = append(es, mmc.TimerEntry(s.name, s.tagsKey, gostatsd.Timer{Values: vals, SampledCount: float64(nv * (1 << r.Intn(3))), Timestamp: ts, Source: gostatsd.Source(s.src), Tags: s.tags}))
					case "s":
						mem := map[string]struct{}{}
						for z := r.Intn(3); z > 0; z-- {
							mem[hx.Pick(r, members)] = struct{}{}
						}
						es = append(es, mmc.SetEntry(s.name, s.tagsKey, gostatsd.Set{Values: mem, Timestamp: ts, Source: gostatsd.Source(s.src), Tags: s.tags}))
					}
				}
				parts = append(parts, fmt.Sprintf("m %d %s", slot, strings.Join(es, " , ")))
			} else {
				nd := r.Range(1, 5)
				ds := []string{}
				for q := 0; q < nd; q++ {
					s := hx.Pick(r, pool)
					seenSeries[s.ty+s.name+"\x00"+s.tagsKey]++
					m := &gostatsd.Metric{Name: s.name, TagsKey: s.tagsKey, Tags: s.tags, Source: gostatsd.Source(s.src), Timestamp: gostatsd.Nanotime(genTs(r)), Rate: hx.Pick(r, rates)}
					switch s.ty {
					case "c":
						m.Type = gostatsd.COUNTER
						m.Value = float64(r.Intn(21) - 5)
						if r.Chance(1, 3) {
							// free (non-dyadic) rates: int64(value/rate) is an integer, so sums stay exact
							m.Value = float64(r.Intn(200) + 1)
							m.Rate = hx.Pick(r, []float64{0.1, 0.13, 0.07, 0.3, 0.9, 0.01, 0.77, 0.29, 0.57})
						}
					case "g":
						m.Type = gostatsd.GAUGE
						m.Value = float64(r.Intn(100)) / 4
						m.Rate = 1
					case "t":
						m.Type = gostatsd.TIMER
						m.Value = float64(r.Intn(64)) / 2
					case "s":
						m.Type = gostatsd.SET
						m.StringValue = hx.Pick(r, members)
						m.Rate = 1
					}
					ds = append(ds, mmc.DpToks(m))
				}
				parts = append(parts, fmt.Sprintf("d %d %s", slot, strings.Join(ds, " , ")))
			}
		}
		line := strings.Join(parts, " ; ")
		nontrivial := false
		for _, c := range seenSeries {
			if c >= 2 {
				nontrivial = true
			}
		}
		st.Case(line, nontrivial)
		st.Hit(fmt.Sprintf("ops=%d", nops))
		st.Hit(fmt.Sprintf("slots=%d", k))
		fmt.Fprintln(hx.Out, line)
	}
	hx.Out.Flush()
	st.Write(hx.Arg(args, "--stats", ""))
}

type op struct {
	kind string
	slot int
	toks []string
}

func parseCase(line string) (k, k2 int, ops []op, ok bool) {
	parts := hx.SplitBy(hx.Tokens(line), ";")
	if len(parts) == 0 || len(parts[0]) != 2 {
		return
	}
	k, _ = strconv.Atoi(parts[0][0])
	k2, _ = strconv.Atoi(parts[0][1])
	if k < 1 || k2 < 1 {
		return
	}
	for _, p := range parts[1:] {
		if len(p) == 0 {
			continue
		}
		if len(p) < 2 || (p[0] != "m" && p[0] != "d") {
			return 0, 0, nil, false
		}
		s, err := strconv.Atoi(p[1])
		if err != nil {
			return 0, 0, nil, false
		}
		ops = append(ops, op{p[0], s, p[2:]})
	}
	return k, k2, ops, true
}

// consolidate runs the ops through a real MetricConsolidator. Its slot channel is FIFO: a Receive*
// call takes the head map and puts it back at the tail, so an empty ReceiveMetrics(nil) rotates the
// slots by one. The harness rotates until the slot the case asks for is at the head, and before the
// final Drain until slot 0 is, so that MergeMaps sees the slots in index order as the model does.
func consolidate(k int, ops []op, slotOf func(i int, o op) int) *gostatsd.MetricMap {
	sink := make(chan []*gostatsd.MetricMap, 1)
	mc := gostatsd.NewMetricConsolidator(k, false, 0, sink)
	head := 0
	rotateTo := func(want int) {
		for head != want {
			mc.ReceiveMetrics(nil)
			head = (head + 1) % k
		}
	}
	for i, o := range ops {
		rotateTo(slotOf(i, o) % k)
		switch o.kind {
		case "m":
			mc.ReceiveMetricMap(mmc.ParseMap(o.toks))
		case "d":
			mc.ReceiveMetrics(mmc.ParseDps(o.toks))
		}
		head = (head + 1) % k
	}
	rotateTo(0)
	return gostatsd.MergeMaps(mc.Drain())
}

// concurrent feeds the same ops from g goroutines into one consolidator (slot assignment and order
// decided by the Go scheduler) and merges what Drain returns.
func concurrent(k, g int, ops []op) *gostatsd.MetricMap {
	sink := make(chan []*gostatsd.MetricMap, 1)
	mc := gostatsd.NewMetricConsolidator(k, false, 0, sink)
	var wg sync.WaitGroup
	for w := 0; w < g; w++ {
		wg.Add(1)
		go func(w int) {
			defer wg.Done()
			for i := w; i < len(ops); i += g {
				switch ops[i].kind {
				case "m":
					mc.ReceiveMetricMap(mmc.ParseMap(ops[i].toks))
				case "d":
					mc.ReceiveMetrics(mmc.ParseDps(ops[i].toks))
				}
			}
		}(w)
	}
	wg.Wait()
	return gostatsd.MergeMaps(mc.Drain())
}

// norm renders a map in a schedule-free normal form: tags sorted, timer values sorted, and a gauge's
// value replaced by `*` when the received items carry two different values at the newest timestamp
// (then either is allowed).
func norm(mm *gostatsd.MetricMap, leaves []*gostatsd.MetricMap) string {
	es := []string{}
	sortTags := func(t gostatsd.Tags) gostatsd.Tags { c := t.Copy(); sort.Strings(c); return c }
	mm.Counters.Each(func(n, t string, c gostatsd.Counter) {
		c.Tags = sortTags(c.Tags)
		es = append(es, mmc.CounterEntry(n, t, c))
	})
	mm.Timers.Each(func(n, t string, x gostatsd.Timer) {
		x.Tags = sortTags(x.Tags)
		x.Values = append([]float64(nil), x.Values...)
		sort.Slice(x.Values, func(i, j int) bool { return hx.F(x.Values[i]) < hx.F(x.Values[j]) })
		es = append(es, mmc.TimerEntry(n, t, x))
	})
	mm.Sets.Each(func(n, t string, x gostatsd.Set) {
		x.Tags = sortTags(x.Tags)
		es = append(es, mmc.SetEntry(n, t, x))
	})
	mm.Gauges.Each(func(n, t string, g gostatsd.Gauge) {
		g.Tags = sortTags(g.Tags)
		vals := map[string]bool{}
		for _, l := range leaves {
			if lg, ok := l.Gauges[n][t]; ok && lg.Timestamp == g.Timestamp {
				vals[hx.F(lg.Value)] = true
			}
		}
		e := mmc.GaugeEntry(n, t, g)
		if len(vals) >= 2 {
			f := strings.Fields(e)
			f[3] = "*"
			e = strings.Join(f, " ")
		}
		es = append(es, e)
	})
	if len(es) == 0 {
		return "-"
	}
	sort.Strings(es)
	return strings.Join(es, " , ")
}

func leafOf(o op) *gostatsd.MetricMap {
	if o.kind == "m" {
		return mmc.ParseMap(o.toks)
	}
	mm := gostatsd.NewMetricMap(false)
	for _, m := range mmc.ParseDps(o.toks) {
		mm.Receive(m)
	}
	return mm
}

func balanced(leaves []*gostatsd.MetricMap) *gostatsd.MetricMap {
	if len(leaves) == 0 {
		return gostatsd.NewMetricMap(false)
	}
	for len(leaves) > 1 {
		next := []*gostatsd.MetricMap{}
		for i := 0; i+1 < len(leaves); i += 2 {
			leaves[i].Merge(leaves[i+1])
			next = append(next, leaves[i])
		}
		if len(leaves)%2 == 1 {
			next = append(next, leaves[len(leaves)-1])
		}
		leaves = next
	}
	return leaves[0]
}

func runOne(line string) (out string) {
	defer func() {
		if e := recover(); e != nil {
			out = fmt.Sprintf("PANIC %v", e)
		}
	}()
	k, k2, ops, ok := parseCase(line)
	if !ok {
		return "BAD_CASE"
	}
	r1 := consolidate(k, ops, func(i int, o op) int { return o.slot })
	rev := make([]op, len(ops))
	for i := range ops {
		rev[i] = ops[len(ops)-1-i]
	}
	r2 := consolidate(k2, rev, func(i int, o op) int { return 7*i + 3 })
	leaves := make([]*gostatsd.MetricMap, len(ops))
	for i, o := range ops {
		leaves[i] = leafOf(o)
	}
	r3 := balanced(leaves)
	leaves2 := make([]*gostatsd.MetricMap, len(ops))
	for i, o := range ops {
		leaves2[i] = leafOf(o)
	}
	r4 := concurrent(k, 1+(k2+len(ops))%4, ops)
	return mmc.Render(r1) + " | " + mmc.Render(r2) + " | " + mmc.Render(r3) + " | " + norm(r4, leaves2)
}

func main() {
	if len(os.Args) < 2 {
		os.Exit(2)
	}
	switch os.Args[1] {
	case "gen":
		gen(os.Args[2:])
	case "run":
		hx.Lines(func(line string) { fmt.Fprintln(hx.Out, runOne(line)) })
		hx.Out.Flush()
	default:
		os.Exit(2)
	}
}
