// c11: correspondence harness for C11 (cloud enrichment forwards every item exactly once,
// correctly tagged; at most one outstanding lookup per source; gauges = true counts).
//
//	c11 gen [--n N] [--tier quick|thorough] [--stats file]   histories on stdout (VERIF_SEED)
//	c11 run                                                   drives the real CloudHandler.Run
//
// Case / output format: see lean/Gsd/Driver/C11.lean.
//
// The real statsd.NewCloudHandler(cachedInstances, downstream).Run(ctx) is driven against a scripted
// gostatsd.CachedInstances owned by the harness (the harness reads IpSink(), writes InfoSource(),
// answers Peek from the per-op cache view of the case) and a capturing downstream handler.
// Quiescence between ops without sleeping: every hand-off to the owner loop goes through an unbuffered
// channel of the real code, so "the call returned" means "the owner loop has taken it". A completion for
// a source that never occurs in a case ("\x00sync") is used as a barrier: the owner loop handles one
// select case at a time, so when it accepts the barrier everything accepted before has been handled
// (handleInstanceInfo for a source with nothing parked is a no-op). The goroutines the stage starts
// (go updateAndDispatch...) exist once the barrier is through; cases run one at a time per process, so
// "the goroutine count is back at the idle level" means they have all finished (deadline 10 s -> HANG).
// Pending lookup requests are read by offering, in one select, a sink read and a barrier, until 40
// barriers in a row were taken instead (see readSink). The harness therefore needs no prediction of
// what an op causes: missing and surplus deliveries / requests are both observed directly.
//
// Ops B / U close and open a gate in the downstream capture handler: while it is closed every
// DispatchMetricMap / DispatchEvent call of the stage snapshots its argument and parks at the gate.
// The owner loop never calls downstream itself (handleInstanceInfo starts goroutines), so arrivals
// that miss the cache, sink reads, completions and emissions go on while the release goroutines are
// stuck; quiescence then is "goroutine count = idle level + goroutines parked at the gate". U opens
// the gate and lets the parked calls return ONE AT A TIME, in the order they arrived, settling after
// each, so a released goroutine runs to its end (its further calls pass the open gate) before the next
// one starts: the order of the log is deterministic. An arrival with a cache hit would park its CALLER
// (the harness) inside the stage; such an op opens the gate first (see the driver's comment).
package main

import (
	"bufio"
	"context"
	"fmt"
	"os"
	"os/exec"
	"runtime"
	"sort"
	"strconv"
	"strings"
	"sync"
	"time"

	"github.com/atlassian/gostatsd"
	"github.com/atlassian/gostatsd/pkg/stats"
	"github.com/atlassian/gostatsd/pkg/statsd"

	"verifharness/internal/hx"
	"verifharness/internal/mmc"
)

const syncSource = gostatsd.Source("\x00sync")

func deadline() time.Duration {
	if v := os.Getenv("C11_DEADLINE_MS"); v != "" {
		if n, err := strconv.Atoi(v); err == nil && n > 0 {
			return time.Duration(n) * time.Millisecond
		}
	}
	return 10 * time.Second
}

// ------------------------------------------------------------------------------------ case model

type peekRec struct {
	kind byte // 'm' miss, 'z' hit nil, 'i' hit instance
	inst *gostatsd.Instance
}

type op struct {
	kind   byte // M V L I E
	peek   map[gostatsd.Source]peekRec
	mmToks []string
	ev     *gostatsd.Event
	src    gostatsd.Source
	res    *gostatsd.Instance
}

type cur struct {
	t []string
	i int
}

func (c *cur) next() string {
	if c.i >= len(c.t) {
		panic("c11: short token list")
	}
	s := c.t[c.i]
	c.i++
	return s
}
func (c *cur) str() string { return hx.MustUnS(c.next()) }
func (c *cur) int() int    { return int(hx.MustInt(c.next())) }
func (c *cur) strs() []string {
	n := c.int()
	var out []string
	for i := 0; i < n; i++ {
		out = append(out, c.str())
	}
	return out
}
func (c *cur) inst() *gostatsd.Instance {
	id := c.str()
	tags := c.strs()
	return &gostatsd.Instance{ID: gostatsd.Source(id), Tags: gostatsd.Tags(tags)}
}
func (c *cur) done() bool { return c.i == len(c.t) }

func parsePeek(toks []string) map[gostatsd.Source]peekRec {
	c := &cur{t: toks}
	n := c.int()
	out := map[gostatsd.Source]peekRec{}
	for i := 0; i < n; i++ {
		s := gostatsd.Source(c.str())
		k := c.next()
		switch k {
		case "m", "z":
			if _, dup := out[s]; !dup {
				out[s] = peekRec{kind: k[0]}
			}
		case "i":
			in := c.inst()
			if _, dup := out[s]; !dup {
				out[s] = peekRec{kind: 'i', inst: in}
			}
		default:
			panic("c11: bad peek kind " + k)
		}
	}
	if !c.done() {
		panic("c11: trailing peek tokens")
	}
	return out
}

func parseEvent(toks []string) *gostatsd.Event {
	c := &cur{t: toks}
	e := &gostatsd.Event{}
	e.Source = gostatsd.Source(c.str())
	e.Tags = gostatsd.Tags(c.strs())
	nb := c.int()
	if nb != 7 {
		panic("c11: event body must have 7 fields")
	}
	e.Title = c.str()
	e.Text = c.str()
	e.DateHappened = hx.MustInt(c.next())
	e.AggregationKey = c.str()
	e.SourceTypeName = c.str()
	e.Priority = gostatsd.Priority(hx.MustInt(c.next()))
	e.AlertType = gostatsd.AlertType(hx.MustInt(c.next()))
	if !c.done() {
		panic("c11: trailing event tokens")
	}
	return e
}

func renderEvent(e *gostatsd.Event) string {
	p := []string{hx.S(string(e.Source)), strconv.Itoa(len(e.Tags))}
	for _, t := range e.Tags {
		p = append(p, hx.S(t))
	}
	p = append(p, "7", hx.S(e.Title), hx.S(e.Text), hx.I(e.DateHappened), hx.S(e.AggregationKey), hx.S(e.SourceTypeName),
		hx.I(int64(e.Priority)), hx.I(int64(e.AlertType)))
	return strings.Join(p, " ")
}

// renderMap: canonical rendering with timer values sorted (two series that collide after re-keying are
// merged in Go's map iteration order, which only shows in the order of the timer values).
func renderMap(mm *gostatsd.MetricMap) string {
	es := []string{}
	mm.Counters.Each(func(n, t string, c gostatsd.Counter) { es = append(es, mmc.CounterEntry(n, t, c)) })
	mm.Gauges.Each(func(n, t string, g gostatsd.Gauge) { es = append(es, mmc.GaugeEntry(n, t, g)) })
	mm.Timers.Each(func(n, t string, x gostatsd.Timer) {
		x.Values = append([]float64(nil), x.Values...)
		sort.Slice(x.Values, func(i, j int) bool { return hx.F(x.Values[i]) < hx.F(x.Values[j]) })
		es = append(es, mmc.TimerEntry(n, t, x))
	})
	mm.Sets.Each(func(n, t string, s gostatsd.Set) { es = append(es, mmc.SetEntry(n, t, s)) })
	if len(es) == 0 {
		return "-"
	}
	sort.Strings(es)
	return strings.Join(es, " , ")
}

func parseCase(line string) ([]op, bool) {
	parts := hx.SplitBy(hx.Tokens(line), ";")
	if len(parts) == 0 || len(parts[0]) != 1 || parts[0][0] != "c11" {
		return nil, false
	}
	var ops []op
	for _, p := range parts[1:] {
		if len(p) == 0 {
			continue
		}
		switch p[0] {
		case "M":
			g := hx.SplitBy(p[1:], ",")
			o := op{kind: 'M', peek: parsePeek(g[0])}
			for _, e := range g[1:] {
				if len(e) > 0 {
					if len(o.mmToks) > 0 {
						o.mmToks = append(o.mmToks, ",")
					}
					o.mmToks = append(o.mmToks, e...)
				}
			}
			ops = append(ops, o)
		case "V":
			g := hx.SplitBy(p[1:], ",")
			if len(g) != 2 {
				return nil, false
			}
			ops = append(ops, op{kind: 'V', peek: parsePeek(g[0]), ev: parseEvent(g[1])})
		case "L":
			if len(p) != 1 {
				return nil, false
			}
			ops = append(ops, op{kind: 'L'})
		case "E", "B", "U":
			if len(p) != 1 {
				return nil, false
			}
			ops = append(ops, op{kind: p[0][0]})
		case "I":
			if len(p) < 3 {
				return nil, false
			}
			o := op{kind: 'I', src: gostatsd.Source(hx.MustUnS(p[1]))}
			switch p[2] {
			case "z":
				if len(p) != 3 {
					return nil, false
				}
			case "i":
				c := &cur{t: p[3:]}
				o.res = c.inst()
				if !c.done() {
					return nil, false
				}
			default:
				return nil, false
			}
			ops = append(ops, o)
		default:
			return nil, false
		}
	}
	return ops, true
}

// ------------------------------------------------------------------------------ scripted pieces

type scripted struct {
	sink chan gostatsd.Source
	info chan gostatsd.InstanceInfo
	mu   sync.Mutex
	view map[gostatsd.Source]peekRec
}

func (s *scripted) Peek(ip gostatsd.Source) (*gostatsd.Instance, bool) {
	s.mu.Lock()
	defer s.mu.Unlock()
	r, ok := s.view[ip]
	if !ok || r.kind == 'm' {
		return nil, false
	}
	if r.kind == 'z' {
		return nil, true
	}
	return r.inst, true
}
func (s *scripted) IpSink() chan<- gostatsd.Source           { return s.sink }
func (s *scripted) InfoSource() <-chan gostatsd.InstanceInfo { return s.info }
func (s *scripted) EstimatedTags() int                       { return 2 }
func (s *scripted) setView(v map[gostatsd.Source]peekRec) {
	s.mu.Lock()
	s.view = v
	s.mu.Unlock()
}

type capture struct {
	mu      sync.Mutex
	log     []string
	closed  bool            // the gate: downstream does not return from its dispatch calls
	waiters []chan struct{} // calls parked at the gate, in arrival order
}

// add is what a dispatch call does with the snapshot s of its argument: log it and return, or park at the
// closed gate first (the snapshot was taken when the call was made).
func (c *capture) add(s string) {
	c.mu.Lock()
	if c.closed {
		w := make(chan struct{})
		c.waiters = append(c.waiters, w)
		c.mu.Unlock()
		<-w
		c.mu.Lock()
	}
	c.log = append(c.log, s)
	c.mu.Unlock()
}

func (c *capture) setClosed(b bool) {
	c.mu.Lock()
	c.closed = b
	c.mu.Unlock()
}

func (c *capture) isClosed() bool {
	c.mu.Lock()
	defer c.mu.Unlock()
	return c.closed
}

func (c *capture) waiting() int {
	c.mu.Lock()
	defer c.mu.Unlock()
	return len(c.waiters)
}

// releaseOne lets the oldest parked call return.
func (c *capture) releaseOne() bool {
	c.mu.Lock()
	defer c.mu.Unlock()
	if len(c.waiters) == 0 {
		return false
	}
	close(c.waiters[0])
	c.waiters = c.waiters[1:]
	return true
}

func (c *capture) releaseAll() {
	c.mu.Lock()
	c.closed = false
	for _, w := range c.waiters {
		close(w)
	}
	c.waiters = nil
	c.mu.Unlock()
}
func (c *capture) EstimatedTags() int { return 0 }
func (c *capture) DispatchMetricMap(ctx context.Context, mm *gostatsd.MetricMap) {
	c.add("@m " + renderMap(mm)) // rendered at once: a deep copy of what was handed over
}
func (c *capture) DispatchEvent(ctx context.Context, e *gostatsd.Event) {
	c.add("@e " + renderEvent(e))
}
func (c *capture) WaitForEvents() {}
func (c *capture) count() int {
	c.mu.Lock()
	defer c.mu.Unlock()
	return len(c.log)
}

type gcall struct {
	name  string
	value float64
	tags  string
}

// gaugeStatser records Gauge calls; its flush channel is signalled by the harness.
type gaugeStatser struct {
	stats.Statser
	mu    sync.Mutex
	calls []gcall
	flush chan time.Duration
}

func (g *gaugeStatser) RegisterFlush() (<-chan time.Duration, func()) { return g.flush, func() {} }
func (g *gaugeStatser) Gauge(name string, value float64, tags gostatsd.Tags) {
	g.mu.Lock()
	g.calls = append(g.calls, gcall{name, value, strings.Join(tags, ",")})
	g.mu.Unlock()
}
func (g *gaugeStatser) snapshot() []gcall {
	g.mu.Lock()
	defer g.mu.Unlock()
	return append([]gcall(nil), g.calls...)
}

type hang struct{ what string }

// ------------------------------------------------------------------------------------------ run

type runner struct {
	ctx  context.Context
	ch   *statsd.CloudHandler
	ci   *scripted
	cap  *capture
	dl   time.Duration
	idle int // goroutines that exist while the case is quiescent: those of the process plus CloudHandler.Run
}

func (r *runner) within(what string, f func()) {
	done := make(chan struct{})
	var pv interface{}
	go func() {
		defer func() {
			pv = recover()
			close(done)
		}()
		f()
	}()
	select {
	case <-done:
		if pv != nil {
			panic(pv)
		}
	case <-time.After(r.dl):
		panic(hang{what})
	}
}

func (r *runner) barrier() {
	r.within("barrier", func() { r.ci.info <- gostatsd.InstanceInfo{IP: syncSource} })
}

// waitGoroutines polls until no more than n+parked() goroutines exist (cases run one at a time per process).
func waitGoroutines(n int, d time.Duration, parked func() int) bool {
	t0 := time.Now()
	for spins := 0; ; spins++ {
		if runtime.NumGoroutine() <= n+parked() {
			return true
		}
		if time.Since(t0) > d {
			return false
		}
		if spins < 256 {
			runtime.Gosched()
		} else {
			time.Sleep(20 * time.Microsecond)
		}
	}
}

// settle returns when the op has had all its effects: the barrier orders the harness after the owner
// loop's handling of the op (so the goroutines it starts exist), and the goroutine count back at the
// idle level means they have all finished. No prediction of the op's effects is involved, so missing
// and surplus deliveries are both seen, at once.
func (r *runner) settle(what string) {
	r.barrier()
	if !waitGoroutines(r.idle, r.dl, r.cap.waiting) {
		panic(hang{what + ": goroutines started by the stage do not finish"})
	}
}

// unblock opens the gate and lets the parked calls return one at a time, oldest first.
func (r *runner) unblock(what string) {
	r.cap.setClosed(false)
	for r.cap.releaseOne() {
		r.settle(what)
	}
}

func viewHit(view map[gostatsd.Source]peekRec, s gostatsd.Source) bool {
	if s == gostatsd.UnknownSource {
		return true
	}
	p, ok := view[s]
	return ok && p.kind != 'm'
}

func (r *runner) deliveries(from int) string {
	r.cap.mu.Lock()
	got := append([]string(nil), r.cap.log[from:]...)
	r.cap.mu.Unlock()
	var ms, es []string
	for _, g := range got {
		if strings.HasPrefix(g, "@m") {
			ms = append(ms, g)
		} else {
			es = append(es, g)
		}
	}
	sort.Strings(ms)
	out := strings.Join(append(ms, es...), " ")
	if out != "" {
		out = " " + out
	}
	return out
}

// readSink takes one pending lookup request, if there is one. The harness offers, in ONE select, to
// read the sink and to hand the owner loop a barrier. Whenever the owner loop's select runs, both are
// ready if a request is pending (Go picks uniformly among ready cases), and only the barrier is if none
// is: 40 barriers in a row without a read mean nothing is pending (error 2^-40). Nothing here depends
// on when a goroutine gets scheduled.
func (r *runner) readSink(what string) (gostatsd.Source, bool) {
	t := time.NewTimer(r.dl)
	defer t.Stop()
	for barriers := 0; barriers < 40; {
		select {
		case s := <-r.ci.sink:
			return s, true
		case r.ci.info <- gostatsd.InstanceInfo{IP: syncSource}:
			barriers++
		case <-t.C:
			panic(hang{what + ": owner loop does not respond"})
		}
	}
	return "", false
}

func (r *runner) emitOnce() (string, bool) {
	gs := &gaugeStatser{Statser: stats.NewNullStatser(), flush: make(chan time.Duration)}
	ectx, cancel := context.WithCancel(r.ctx)
	done := make(chan struct{})
	go func() {
		defer close(done)
		r.ch.RunMetrics(ectx, gs)
	}()
	// two signals: when the second is taken, scheduleEmit of the first has returned
	r.within("flush signal", func() { gs.flush <- 0 })
	r.within("flush signal", func() { gs.flush <- 0 })
	cancel()
	r.within("RunMetrics return", func() { <-done })
	// every emit request the owner loop accepted was accepted before this point; the barrier orders
	// the harness after their execution
	r.settle("emit")
	calls := gs.snapshot()
	if len(calls) == 0 {
		return "", false // the non-blocking scheduleEmit found the owner loop busy: ask again
	}
	if len(calls)%5 != 0 {
		return fmt.Sprintf("E BAD_GAUGE_CALLS %d", len(calls)), true
	}
	render := func(g []gcall) string {
		want := []struct{ n, t string }{{"cloudprovider.cache_hit", ""}, {"cloudprovider.cache_miss", ""},
			{"cloudprovider.hosts_queued", "type:metric"}, {"cloudprovider.hosts_queued", "type:event"}, {"cloudprovider.items_queued", "type:event"}}
		p := []string{"E"}
		for i, w := range want {
			if g[i].name != w.n || g[i].tags != w.t {
				return fmt.Sprintf("E BAD_GAUGE %s{%s}", g[i].name, g[i].tags)
			}
			if i < 2 {
				p = append(p, strconv.FormatFloat(g[i].value, 'f', -1, 64))
			} else {
				p = append(p, hx.F(g[i].value))
			}
		}
		return strings.Join(p, " ")
	}
	first := render(calls[:5])
	for k := 5; k+5 <= len(calls); k += 5 {
		if o := render(calls[k : k+5]); o != first {
			return first + " / " + o, true // two emissions without a state change in between must agree
		}
	}
	return first, true
}

// baseGoroutines is the goroutine count of the idle process (set by the sequential runner).
var baseGoroutines = 1

func runOne(line string) (out string) {
	var cp *capture
	defer func() {
		if cp != nil {
			cp.releaseAll()
		}
		if e := recover(); e != nil {
			if h, ok := e.(hang); ok {
				out = "HANG " + h.what
				return
			}
			out = fmt.Sprintf("PANIC %v", e)
		}
	}()
	ops, ok := parseCase(line)
	if !ok {
		return "BAD_CASE"
	}
	dl := deadline()
	waitGoroutines(baseGoroutines, dl, func() int { return 0 }) // leftovers of the previous case are gone
	ctx, cancel := context.WithCancel(context.Background())
	defer cancel()
	ci := &scripted{sink: make(chan gostatsd.Source), info: make(chan gostatsd.InstanceInfo), view: map[gostatsd.Source]peekRec{}}
	cp = &capture{}
	ch := statsd.NewCloudHandler(ci, cp)
	runDone := make(chan interface{}, 1)
	idle := runtime.NumGoroutine() + 1
	go func() {
		defer func() { runDone <- recover() }()
		ch.Run(ctx)
	}()
	r := &runner{ctx: ctx, ch: ch, ci: ci, cap: cp, dl: dl, idle: idle}
	segs := make([]string, 0, len(ops))
	for k, o := range ops {
		from := cp.count()
		what := fmt.Sprintf("op %d", k+1)
		select {
		case pv := <-runDone:
			panic(fmt.Sprintf("CloudHandler.Run ended: %v", pv))
		default:
		}
		switch o.kind {
		case 'M':
			ci.setView(o.peek)
			mm := mmc.ParseMap(o.mmToks)
			if cp.isClosed() {
				hit := false
				mm.Counters.Each(func(_, _ string, c gostatsd.Counter) { hit = hit || viewHit(o.peek, c.Source) })
				mm.Gauges.Each(func(_, _ string, g gostatsd.Gauge) { hit = hit || viewHit(o.peek, g.Source) })
				mm.Timers.Each(func(_, _ string, t gostatsd.Timer) { hit = hit || viewHit(o.peek, t.Source) })
				mm.Sets.Each(func(_, _ string, x gostatsd.Set) { hit = hit || viewHit(o.peek, x.Source) })
				if hit {
					r.unblock(what) // the caller itself would park inside the stage
				}
			}
			r.within(what, func() { ch.DispatchMetricMap(ctx, mm) })
			r.settle(what)
			segs = append(segs, "M"+r.deliveries(from))
		case 'V':
			ci.setView(o.peek)
			e := o.ev
			if cp.isClosed() && viewHit(o.peek, e.Source) {
				r.unblock(what)
			}
			r.within(what, func() { ch.DispatchEvent(ctx, e) })
			r.settle(what)
			segs = append(segs, "V"+r.deliveries(from))
		case 'L':
			var got []string
			for {
				s, ok := r.readSink(what)
				if !ok {
					break
				}
				got = append(got, hx.S(string(s)))
				if len(got) > 64 {
					panic("more than 64 lookup requests in one drain")
				}
			}
			r.settle(what)
			sort.Strings(got)
			seg := "L"
			if len(got) > 0 {
				seg += " " + strings.Join(got, " ")
			}
			segs = append(segs, seg+r.deliveries(from))
		case 'I':
			info := gostatsd.InstanceInfo{IP: o.src, Instance: o.res}
			r.within(what, func() { ci.info <- info })
			r.settle(what)
			segs = append(segs, "I"+r.deliveries(from))
		case 'B':
			cp.setClosed(true)
			segs = append(segs, "B"+r.deliveries(from))
		case 'U':
			r.unblock(what)
			r.settle(what)
			segs = append(segs, "U"+r.deliveries(from))
		case 'E':
			t0 := time.Now()
			for {
				s, ok := r.emitOnce()
				if ok {
					segs = append(segs, s+r.deliveries(from))
					break
				}
				if time.Since(t0) > r.dl {
					panic(hang{what + ": emit never accepted"})
				}
				runtime.Gosched()
			}
		}
	}
	if cp.isClosed() {
		// a case that ends blocked: what is stuck is observed in a final U segment
		from := cp.count()
		r.unblock("final unblock")
		r.settle("final unblock")
		segs = append(segs, "U"+r.deliveries(from))
	}
	cancel()
	select {
	case pv := <-runDone:
		if pv != nil {
			panic(pv)
		}
	case <-time.After(r.dl):
		return "HANG Run does not return after cancel"
	}
	return strings.Join(segs, " | ")
}

// runSeq runs the cases one after the other in this process (quiescence is read off the goroutine count).
func runSeq(lines []string, w *bufio.Writer) {
	baseGoroutines = runtime.NumGoroutine()
	for _, l := range lines {
		fmt.Fprintln(w, runOne(l))
		w.Flush()
	}
}

// runAll splits the input over child processes (each sequential) and prints their output in input order.
func runAll() {
	var lines []string
	hx.Lines(func(l string) { lines = append(lines, l) })
	workers := runtime.GOMAXPROCS(0) / 2
	if workers > 8 {
		workers = 8
	}
	if len(lines) < 16 || workers < 2 {
		runSeq(lines, hx.Out)
		return
	}
	self, err := os.Executable()
	if err != nil {
		runSeq(lines, hx.Out)
		return
	}
	type part struct {
		out []byte
		err error
	}
	parts := make([]part, workers)
	var wg sync.WaitGroup
	per := (len(lines) + workers - 1) / workers
	for w := 0; w < workers; w++ {
		lo, hi := w*per, (w+1)*per
		if lo > len(lines) {
			lo = len(lines)
		}
		if hi > len(lines) {
			hi = len(lines)
		}
		wg.Add(1)
		go func(w int, chunk []string) {
			defer wg.Done()
			cmd := exec.Command(self, "run-seq")
			cmd.Stdin = strings.NewReader(strings.Join(chunk, "\n") + "\n")
			cmd.Stderr = os.Stderr
			parts[w].out, parts[w].err = cmd.Output()
		}(w, lines[lo:hi])
	}
	wg.Wait()
	for w := 0; w < workers; w++ {
		hx.Out.Write(parts[w].out)
		if parts[w].err != nil {
			// a child died: print the complete prefix only, ./check locates the case
			hx.Out.Flush()
			fmt.Fprintln(os.Stderr, "c11: worker died:", parts[w].err)
			os.Exit(3)
		}
	}
	hx.Out.Flush()
}

func main() {
	if len(os.Args) < 2 {
		os.Exit(2)
	}
	switch os.Args[1] {
	case "gen":
		gen(os.Args[2:])
	case "run":
		runAll()
	case "run-seq":
		var lines []string
		hx.Lines(func(l string) { lines = append(lines, l) })
		runSeq(lines, hx.Out)
	default:
		os.Exit(2)
	}
}
