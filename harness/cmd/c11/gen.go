package main

import (
	"fmt"
	"strconv"
	"strings"

	"github.com/atlassian/gostatsd"

	"verifharness/internal/hx"
	"verifharness/internal/mmc"
)

// D7Witness: metrics from h, then an event from h, then the lookup result for h, then an emission.
const D7Witness = "c11 ; M 0 , c x63 x733a68 1 10 x68 0 ; V 0 , x68 0 7 x74 x78 5 x x 0 0 ; L ; I x68 z ; E"

var srcPool = []string{"10.0.0.1", "10.0.0.2", "h3", "h4", "h5"}
var namePool = []string{"req", "a", "b.c"}
var tagPool = []string{"t:1", "t:2", "env:p", "zz", "b:x"}
var memberPool = []string{"u1", "u2", "u3"}

type inst struct {
	id   string
	tags []string
}

// instances: h3 and h4 share one instance (re-keyed series collide), tags are deliberately unsorted
var instPool = map[string]inst{
	"10.0.0.1": {"i-1", []string{"region:r1", "az:b"}},
	"10.0.0.2": {"i-2", []string{"app:web"}},
	"h3":       {"i-3", []string{"zone:z", "app:db"}},
	"h4":       {"i-3", []string{"zone:z", "app:db"}},
	// an instance with an id and no tags (a pod without annotations under the k8s provider): the id still becomes the source
	"h5": {"i-5", nil},
}

type series struct {
	ty      string
	name    string
	tags    gostatsd.Tags
	src     string
	tagsKey string
}

type genState struct {
	r       *hx.Rng
	srcs    []string
	pool    []series
	mix     bool
	kindOf  map[string]byte // non-mix cases: what a source may park ('M' or 'V')
	parkedM map[string]bool
	parkedE map[string]int
	needL   map[string]bool
	flight  map[string]bool
	ts      int64
	evN     int
	hits    map[string]int
	blocked bool            // inside a phase in which the downstream handler is blocked: every arrival misses the cache
	relBlk  map[string]bool // sources released while downstream is blocked (their release goroutines are stuck)
	overlap bool            // an item arrived for a source whose release is stuck
}

func instToks(i inst) string {
	p := []string{hx.S(i.id), strconv.Itoa(len(i.tags))}
	for _, t := range i.tags {
		p = append(p, hx.S(t))
	}
	return strings.Join(p, " ")
}

// view chooses what the cache answers for source s at this op. forceHit: the source may not park this
// kind of item in this case (keeps events and metrics of one source from being parked together).
func (g *genState) view(s string, forceHit bool) (string, bool) {
	r := g.r
	pending := g.parkedM[s] || g.parkedE[s] > 0
	k := r.Intn(100)
	hit := false
	switch {
	case g.blocked:
		hit = false // a hit would park the caller inside the stage (see the driver's comment)
	case forceHit:
		hit = true
	case pending:
		hit = k < 15 // the cache was filled between the arrivals: a race the property covers
	default:
		hit = k < 35
	}
	if !hit {
		if r.Bool() {
			return hx.S(s) + " m", false
		}
		return "", false // not listed = miss
	}
	if r.Chance(1, 3) {
		return hx.S(s) + " z", true
	}
	return hx.S(s) + " i " + instToks(instPool[s]), true
}

func (g *genState) entry(s series) string {
	r := g.r
	g.ts++
	ts := gostatsd.Nanotime(100 + g.ts) // distinct timestamps: gauge ties are C07's subject
	tags := s.tags.Copy()
	r.Shuffle(len(tags), func(i, j int) { tags[i], tags[j] = tags[j], tags[i] })
	switch s.ty {
	case "c":
		return mmc.CounterEntry(s.name, s.tagsKey, gostatsd.Counter{Value: int64(r.Intn(41) - 20), Timestamp: ts, Source: gostatsd.Source(s.src), Tags: tags})
	case "g":
		return mmc.GaugeEntry(s.name, s.tagsKey, gostatsd.Gauge{Value: float64(r.Intn(100)) / 4, Timestamp: ts, Source: gostatsd.Source(s.src), Tags: tags})
	case "t":
		nv := r.Range(1, 3)
		vals := make([]float64, nv)
		for z := range vals {
			vals[z] = float64(r.Intn(64)) / 2
		}
		return mmc.TimerEntry(s.name, s.tagsKey, gostatsd.Timer{Values: vals, SampledCount: float64(nv * (1 << r.Intn(3))), Timestamp: ts, Source: gostatsd.Source(s.src), Tags: tags})
	default:
		mem := map[string]struct{}{}
		for z := r.Range(1, 2); z > 0; z-- {
			mem[hx.Pick(r, memberPool)] = struct{}{}
		}
		return mmc.SetEntry(s.name, s.tagsKey, gostatsd.Set{Values: mem, Timestamp: ts, Source: gostatsd.Source(s.src), Tags: tags})
	}
}

func (g *genState) notePark(s string) {
	if !g.parkedM[s] && g.parkedE[s] == 0 && !g.flight[s] {
		g.needL[s] = true
	}
}

func (g *genState) opM() string {
	r := g.r
	n := r.Range(1, len(g.pool))
	used := map[string]bool{}
	var es []string
	views := map[string]string{}
	hitOf := map[string]bool{}
	order := []string{}
	for q := 0; q < n; q++ {
		s := hx.Pick(r, g.pool)
		if g.blocked && s.src == "" {
			continue
		}
		id := s.ty + s.name + "\x00" + s.tagsKey
		if used[id] {
			continue
		}
		used[id] = true
		if s.src != "" {
			if _, ok := hitOf[s.src]; !ok {
				v, h := g.view(s.src, !g.mix && g.kindOf[s.src] != 'M')
				views[s.src], hitOf[s.src] = v, h
				order = append(order, s.src)
			}
		}
		es = append(es, g.entry(s))
	}
	var pk []string
	for _, s := range order {
		if views[s] != "" {
			pk = append(pk, views[s])
		}
		if hitOf[s] {
			g.hits["M-hit"]++
		} else {
			if g.parkedM[s] {
				g.hits["M-repeat-while-pending"]++
			}
			if g.parkedE[s] > 0 {
				g.hits["M-while-events-parked"]++
			}
			g.notePark(s)
			g.parkedM[s] = true
			g.hits["M-miss"]++
			if g.relBlk[s] {
				g.overlap = true
				g.hits["M-while-release-stuck"]++
			}
		}
	}
	if len(es) == 0 {
		return g.opV()
	}
	if len(order) >= 2 {
		g.hits["M-multi-source"]++
	}
	return fmt.Sprintf("M %d %s , %s", len(pk), strings.Join(pk, " "), strings.Join(es, " , "))
}

func (g *genState) opV() string { return g.opVfor("") }

// opVfor: an event from source want ("" = any, sometimes the empty source).
func (g *genState) opVfor(want string) string {
	r := g.r
	src := want
	if src == "" && (g.blocked || !r.Chance(1, 8)) {
		src = hx.Pick(r, g.srcs)
	}
	pk := []string{}
	hit := true
	if src != "" {
		v, h := g.view(src, !g.mix && g.kindOf[src] != 'V')
		hit = h
		if v != "" {
			pk = append(pk, v)
		}
	}
	if hit {
		g.hits["V-hit"]++
	} else {
		if g.parkedE[src] > 0 {
			g.hits["V-repeat-while-pending"]++
		}
		if g.parkedM[src] {
			g.hits["V-while-metrics-parked"]++
		}
		g.notePark(src)
		g.parkedE[src]++
		g.hits["V-miss"]++
		if g.relBlk[src] {
			g.overlap = true
			g.hits["V-while-release-stuck"]++
		}
	}
	g.evN++
	var tags []string
	for i := r.Intn(3); i > 0; i-- {
		tags = append(tags, hx.Pick(r, tagPool))
	}
	e := &gostatsd.Event{Title: fmt.Sprintf("ev%d", g.evN), Text: hx.Pick(r, []string{"", "text", "two\nlines"}), DateHappened: int64(r.Intn(3)) * 1000,
		AggregationKey: hx.Pick(r, []string{"", "k"}), SourceTypeName: hx.Pick(r, []string{"", "st"}), Tags: tags, Source: gostatsd.Source(src),
		Priority: gostatsd.Priority(r.Intn(2)), AlertType: gostatsd.AlertType(r.Intn(4))}
	return fmt.Sprintf("V %d %s , %s", len(pk), strings.Join(pk, " "), renderEvent(e))
}

func (g *genState) opL() string {
	for s := range g.needL {
		g.flight[s] = true
	}
	g.needL = map[string]bool{}
	return "L"
}

func (g *genState) opI(s string) string {
	r := g.r
	if g.parkedM[s] || g.parkedE[s] > 0 {
		g.hits["I-releases"]++
		if g.parkedM[s] && g.parkedE[s] > 0 {
			g.hits["I-releases-both-kinds"]++
		}
	} else {
		g.hits["I-nothing-parked"]++
	}
	if !g.flight[s] {
		g.hits["I-unsolicited"]++
	}
	if g.blocked && (g.parkedM[s] || g.parkedE[s] > 0) {
		g.relBlk[s] = true
		g.hits["I-releases-while-downstream-blocked"]++
	}
	delete(g.parkedM, s)
	delete(g.parkedE, s)
	delete(g.flight, s)
	delete(g.needL, s)
	if r.Chance(2, 5) {
		g.hits["I-nil"]++
		return "I " + hx.S(s) + " z"
	}
	g.hits["I-instance"]++
	return "I " + hx.S(s) + " i " + instToks(instPool[s])
}

func sortedKeys(m map[string]bool) []string {
	var out []string
	for k := range m {
		out = append(out, k)
	}
	return hx.SortedCopy(out)
}

// blockedPhase: downstream blocks, the stage goes on (cache-missing arrivals, sink drains, completions,
// emissions), downstream resumes. chatty: the history of the seeded change C11a/m1 and its neighbours — a
// source with several parked events is released while downstream is stuck on its first delivery and keeps
// sending.
func (g *genState) blockedPhase(parts []string, allowE bool, released *bool) []string {
	r := g.r
	g.hits["blocked-phase"]++
	inner := func(k int, s string) {
		switch {
		case k < 40:
			parts = append(parts, g.opVfor(s))
		case k < 58:
			parts = append(parts, g.opM())
		case k < 72:
			parts = append(parts, g.opL())
		case k < 94:
			fl := sortedKeys(g.flight)
			t := s
			if t == "" || !g.flight[t] {
				if len(fl) == 0 {
					parts = append(parts, g.opL())
					return
				}
				t = hx.Pick(r, fl)
			}
			if g.parkedM[t] || g.parkedE[t] > 0 {
				*released = true
			}
			parts = append(parts, g.opI(t))
		default:
			if allowE {
				parts = append(parts, "E")
				g.hits["E"]++
			} else {
				parts = append(parts, g.opL())
			}
		}
	}
	if r.Chance(1, 2) {
		g.hits["blocked-phase-chatty"]++
		s := hx.Pick(r, g.srcs)
		for need := r.Range(2, 3); g.parkedE[s] < need; {
			parts = append(parts, g.opVfor(s))
			if g.parkedE[s] == 0 {
				break // the cache answered: leave it
			}
		}
		parts = append(parts, g.opL())
		parts = append(parts, "B")
		g.blocked = true
		if g.parkedM[s] || g.parkedE[s] > 0 {
			*released = true
		}
		parts = append(parts, g.opI(s))
		for k := r.Range(1, 4); k > 0; k-- {
			if r.Chance(1, 5) {
				parts = append(parts, g.opM())
			} else {
				parts = append(parts, g.opVfor(s))
			}
		}
		parts = append(parts, g.opL())
		for k := r.Intn(4); k > 0; k-- {
			inner(r.Intn(100), s)
		}
	} else {
		parts = append(parts, "B")
		g.blocked = true
		for k := r.Range(2, 8); k > 0; k-- {
			inner(r.Intn(100), "")
		}
	}
	parts = append(parts, "U")
	g.blocked = false
	g.relBlk = map[string]bool{}
	return parts
}

// history builds one case. allowE=false suppresses emissions (used to bound the number of cases that
// re-find the known defect D7 while it is present, see gen).
func history(r *hx.Rng, maxOps, maxSrc int, mix, allowE, blocking bool, hits map[string]int) (string, bool) {
	g := &genState{r: r, mix: mix, kindOf: map[string]byte{}, parkedM: map[string]bool{}, parkedE: map[string]int{}, needL: map[string]bool{},
		flight: map[string]bool{}, hits: hits, relBlk: map[string]bool{}}
	ns := r.Range(1, maxSrc)
	perm := append([]string(nil), srcPool...)
	r.Shuffle(len(perm), func(i, j int) { perm[i], perm[j] = perm[j], perm[i] })
	g.srcs = perm[:ns]
	for _, s := range g.srcs {
		g.kindOf[s] = hx.Pick(r, []byte{'M', 'V'})
	}
	np := r.Range(2, 6)
	for j := 0; j < np; j++ {
		s := series{ty: hx.Pick(r, []string{"c", "t", "g", "s"}), name: hx.Pick(r, namePool)}
		if !r.Chance(1, 6) {
			s.src = hx.Pick(r, g.srcs)
		}
		for i := r.Intn(3); i > 0; i-- {
			s.tags = append(s.tags, hx.Pick(r, tagPool))
		}
		s.tagsKey = gostatsd.FormatTagsKey(gostatsd.Source(s.src), s.tags.Copy())
		g.pool = append(g.pool, s)
	}
	nops := r.Range(5, maxOps)
	parts := []string{"c11"}
	released := false
	unsolicited := false
	phases := 0
	for o := 0; o < nops; o++ {
		if blocking && (r.Chance(1, 8) || (phases == 0 && o == nops-1)) {
			parts = g.blockedPhase(parts, allowE, &released)
			phases++
			continue
		}
		k := r.Intn(100)
		switch {
		case k < 34:
			parts = append(parts, g.opM())
		case k < 54:
			parts = append(parts, g.opV())
		case k < 68:
			parts = append(parts, g.opL())
		case k < 90:
			// mostly answers to requests; sometimes an answer nobody asked for
			fl := sortedKeys(g.flight)
			s := ""
			switch {
			case len(fl) > 0 && !r.Chance(1, 12):
				s = hx.Pick(r, fl)
			case r.Chance(1, 5):
				s = hx.Pick(r, g.srcs)
				unsolicited = unsolicited || !g.flight[s]
			case len(g.needL) > 0:
				parts = append(parts, g.opL())
			default:
				parts = append(parts, g.opM())
			}
			if s != "" {
				if g.parkedM[s] || g.parkedE[s] > 0 {
					released = true
				}
				parts = append(parts, g.opI(s))
			}
		default:
			if allowE {
				parts = append(parts, "E")
				g.hits["E"]++
			} else {
				parts = append(parts, g.opL())
			}
		}
	}
	if r.Chance(4, 5) {
		// drain: everything parked is released, so the parked content becomes observable
		parts = append(parts, g.opL())
		pend := map[string]bool{}
		for s := range g.parkedM {
			pend[s] = true
		}
		for s := range g.parkedE {
			pend[s] = true
		}
		for _, s := range sortedKeys(pend) {
			released = true
			parts = append(parts, g.opI(s))
		}
		if allowE {
			parts = append(parts, "E")
			g.hits["E"]++
		}
	}
	if !unsolicited {
		hits["history-answers-only-to-requests"]++
	}
	if phases > 0 {
		hits["history-with-blocked-downstream"]++
	}
	if g.overlap {
		hits["history-with-arrival-while-release-stuck"]++
	}
	hits[fmt.Sprintf("ops=%d", (len(parts)-1)/10*10)]++
	hits[fmt.Sprintf("sources=%d", ns)]++
	return strings.Join(parts, " ; "), released
}

// d7Present probes the real code with the witness: does the event-hosts gauge leave zero?
func d7Present() bool {
	out := runOne(D7Witness)
	segs := strings.Split(out, " | ")
	last := strings.Fields(segs[len(segs)-1])
	return !(len(last) == 6 && last[0] == "E" && last[4] == hx.F(0))
}

func gen(args []string) {
	r := hx.NewRng(hx.Seed())
	n := hx.ArgInt(args, "--n", 200)
	tier := hx.Arg(args, "--tier", "quick")
	st := hx.NewStats("histories of 5..60 ops over 1..4 sources (two of them sharing one instance) and 2..6 series of all four types (unsorted tags, empty source included): metric batches with several sources under an arbitrary per-op cache view (miss / negative hit / hit), events, sink drains, lookup completions (instance / nil; mostly for sources in flight, sometimes unsolicited), emissions; in ~30% of the histories the downstream handler blocks and resumes (ops B/U) while cache-missing arrivals, drains, completions and emissions go on — half of these phases release a source with several parked events and let it keep sending while its release is stuck; 80% end by releasing everything; non-trivial = some parked item is released by a lookup completion; distinct by case text")
	maxOps := 40
	if tier == "thorough" {
		maxOps = 60
	}
	// While D7 is present every history that parks metrics and events of one source together and then
	// emits fails the specification in the same (known) way; each such failure is shrunk by ./check, so
	// their number is bounded (the rest of the mixed histories run without emissions). Once the defect
	// is repaired all mixed histories emit.
	d7 := d7Present()
	mixedWithE := 0
	budget := 6
	if tier == "thorough" {
		budget = 12
	}
	hits := map[string]int{}
	for i := 0; i < n; i++ {
		mix := r.Chance(1, 2)
		allowE := true
		mo, ms := maxOps, 4
		if mix && d7 {
			if mixedWithE < budget {
				mixedWithE++
				mo, ms = 14, 2 // short and narrow: cheap to shrink, likely to park both kinds for one source
			} else {
				allowE = false
			}
		}
		// the downstream handler blocks and resumes in about 30% of the histories (mixed ones: a source may
		// then have metrics and events parked and released together while downstream is stuck)
		blocking := mix && r.Chance(3, 5)
		line, released := history(r.Fork(), mo, ms, mix, allowE, blocking, hits)
		st.Case(line, released)
		fmt.Fprintln(hx.Out, line)
		if mix {
			st.Hit("mixed-kinds-allowed")
		}
	}
	for k, v := range hits {
		st.Distribution[k] += v
	}
	st.Extra["d7_present_in_tree"] = d7
	hx.Out.Flush()
	st.Write(hx.Arg(args, "--stats", ""))
}
