// c19: correspondence harness for C19 (every event is delivered once to every backend with its fields
// intact; WaitForEvents returns only after all deliveries).
//
//	c19 gen [--n N] [--tier quick|thorough] [--stats file]   cases on stdout (VERIF_SEED)
//	c19 run                                                  stdin cases -> one line per case from the real code
//
// One case = one real pipeline built in-process:
//
//	real DatagramParser.Run x SND (fed through the datagram channel)  \
//	real /v2/event route of pkg/web (httptest)                         > logTop -> real CloudHandler (scripted
//	  CachedInstances) -> real TagHandler -> logMid -> real BackendHandler(NB capture backends, C tokens)
//	                                                 or real HttpForwarderHandlerV2 -> httptest upstream
//
// logTop/logMid/capture backends append to one global, mutex-ordered log.  The log is replayed through
// the Lean model's `step` by `gsdmodel C19 trace` (trace inclusion); its verdict is the `T` field of the
// output line.  The other fields are schedule-independent: per backend the events it received, with
// every field, and whether each call finished before WaitForEvents returned.
package main

import (
	"bytes"
	"context"
	"fmt"
	"io"
	"net/http"
	"net/http/httptest"
	"os"
	"os/exec"
	"path/filepath"
	"sort"
	"strconv"
	"strings"
	"sync"
	"sync/atomic"
	"time"

	"github.com/sirupsen/logrus"
	"github.com/spf13/viper"
	"google.golang.org/protobuf/proto"

	"github.com/atlassian/gostatsd"
	"github.com/atlassian/gostatsd/pb"
	"github.com/atlassian/gostatsd/pkg/statsd"
	"github.com/atlassian/gostatsd/pkg/transport"
	"github.com/atlassian/gostatsd/pkg/web"

	"verifharness/internal/hx"
)

// ---------------------------------------------------------------------------------------- case

type attr struct {
	kind byte // d h k p s t # o
	num  uint64
	str  string
	tags []string
}

type evT struct {
	route string // udp | http
	ip    string
	title string
	text  string
	attrs []attr
}

type ipScript struct {
	kind string // hit hitnil miss missnil
	inst *gostatsd.Instance
}

type caseT struct {
	mode   string // sa | fw
	nb     int
	c      int
	snd    int
	cloud  bool
	sync   string // free gate late gl
	up     string // ok r1
	static []string
	// the parser runs with ignore-host (metrics only: an event keeps its host: tags and its sender address)
	ignoreHost bool
	ips        map[string]ipScript
	ipOrd      []string
	evs        []evT
}

func (c *caseT) backends() int {
	if c.mode == "fw" {
		return 1
	}
	return c.nb
}

func renderAttr(a attr) string {
	switch a.kind {
	case 'd', 'p', 't':
		return string(a.kind) + strconv.FormatUint(a.num, 10)
	case 'h', 'k', 's':
		return string(a.kind) + hx.S(a.str)
	case '#':
		ts := make([]string, len(a.tags))
		for i, t := range a.tags {
			ts[i] = hx.S(t)
		}
		return "#" + strings.Join(ts, ",")
	default:
		return "o"
	}
}

func renderCase(c *caseT) string {
	items := []string{fmt.Sprintf("cfg %s %d %d %d %d %s %s", c.mode, c.nb, c.c, c.snd, b2i(c.cloud), c.sync, c.up)}
	if c.ignoreHost {
		items = append(items, "ih")
	}
	if len(c.static) > 0 {
		ts := []string{"st"}
		for _, t := range c.static {
			ts = append(ts, hx.S(t))
		}
		items = append(items, strings.Join(ts, " "))
	}
	for _, ip := range c.ipOrd {
		s := c.ips[ip]
		ts := []string{"ip", hx.S(ip), s.kind, hx.S(string(s.inst.ID))}
		for _, t := range s.inst.Tags {
			ts = append(ts, hx.S(t))
		}
		items = append(items, strings.Join(ts, " "))
	}
	for _, e := range c.evs {
		ts := []string{"ev", e.route, hx.S(e.ip), hx.S(e.title), hx.S(e.text)}
		for _, a := range e.attrs {
			ts = append(ts, renderAttr(a))
		}
		items = append(items, strings.Join(ts, " "))
	}
	return strings.Join(items, " ; ")
}

func b2i(b bool) int {
	if b {
		return 1
	}
	return 0
}

func parseAttr(tok string) (attr, error) {
	if tok == "" {
		return attr{}, fmt.Errorf("empty attr")
	}
	k, rest := tok[0], tok[1:]
	switch k {
	case 'd', 'p', 't':
		n, err := strconv.ParseUint(rest, 10, 64)
		return attr{kind: k, num: n}, err
	case 'h', 'k', 's':
		s, err := hx.UnS(rest)
		return attr{kind: k, str: s}, err
	case '#':
		a := attr{kind: '#'}
		if rest == "" {
			return a, nil
		}
		for _, t := range strings.Split(rest, ",") {
			s, err := hx.UnS(t)
			if err != nil {
				return a, err
			}
			a.tags = append(a.tags, s)
		}
		return a, nil
	case 'o':
		return attr{kind: 'o'}, nil
	}
	return attr{}, fmt.Errorf("bad attr %q", tok)
}

func parseCase(line string) (*caseT, error) {
	parts := hx.SplitBy(hx.Tokens(line), ";")
	if len(parts) == 0 || len(parts[0]) != 8 || parts[0][0] != "cfg" {
		return nil, fmt.Errorf("bad head")
	}
	h := parts[0]
	c := &caseT{mode: h[1], sync: h[6], up: h[7], ips: map[string]ipScript{}}
	var err error
	if c.nb, err = strconv.Atoi(h[2]); err != nil {
		return nil, err
	}
	if c.c, err = strconv.Atoi(h[3]); err != nil {
		return nil, err
	}
	if c.snd, err = strconv.Atoi(h[4]); err != nil {
		return nil, err
	}
	c.cloud = h[5] == "1"
	if c.c < 1 || c.snd < 1 || c.nb < 0 || (c.mode != "sa" && c.mode != "fw") {
		return nil, fmt.Errorf("bad cfg")
	}
	for _, it := range parts[1:] {
		if len(it) == 0 {
			continue
		}
		switch it[0] {
		case "ih":
			c.ignoreHost = true
		case "st":
			for _, t := range it[1:] {
				s, err := hx.UnS(t)
				if err != nil {
					return nil, err
				}
				c.static = append(c.static, s)
			}
		case "ip":
			if len(it) < 4 {
				return nil, fmt.Errorf("bad ip item")
			}
			ip, err := hx.UnS(it[1])
			if err != nil {
				return nil, err
			}
			id, err := hx.UnS(it[3])
			if err != nil {
				return nil, err
			}
			inst := &gostatsd.Instance{ID: gostatsd.Source(id)}
			for _, t := range it[4:] {
				s, err := hx.UnS(t)
				if err != nil {
					return nil, err
				}
				inst.Tags = append(inst.Tags, s)
			}
			if _, dup := c.ips[ip]; !dup {
				c.ips[ip] = ipScript{kind: it[2], inst: inst}
				c.ipOrd = append(c.ipOrd, ip)
			}
		case "ev":
			if len(it) < 5 {
				return nil, fmt.Errorf("bad ev item")
			}
			e := evT{route: it[1]}
			if e.ip, err = hx.UnS(it[2]); err != nil {
				return nil, err
			}
			if e.title, err = hx.UnS(it[3]); err != nil {
				return nil, err
			}
			if e.text, err = hx.UnS(it[4]); err != nil {
				return nil, err
			}
			for _, t := range it[5:] {
				a, err := parseAttr(t)
				if err != nil {
					return nil, err
				}
				e.attrs = append(e.attrs, a)
			}
			c.evs = append(c.evs, e)
		default:
			return nil, fmt.Errorf("bad item %q", it[0])
		}
	}
	return c, nil
}

var prioNames = []string{"normal", "low"}
var alertNames = []string{"info", "warning", "error", "success"}

// wire renders the event as a line of the documented grammar.
func wire(e *evT) []byte {
	var b bytes.Buffer
	text := strings.ReplaceAll(e.text, "\n", "\\n")
	fmt.Fprintf(&b, "_e{%d,%d}:%s|%s", len(e.title), len(text), e.title, text)
	for _, a := range e.attrs {
		switch a.kind {
		case 'd':
			fmt.Fprintf(&b, "|d:%d", a.num)
		case 'h':
			b.WriteString("|h:" + a.str)
		case 'k':
			b.WriteString("|k:" + a.str)
		case 's':
			b.WriteString("|s:" + a.str)
		case 'p':
			b.WriteString("|p:" + prioNames[a.num%2])
		case 't':
			b.WriteString("|t:" + alertNames[a.num%4])
		case '#':
			b.WriteString("|#" + strings.Join(a.tags, ","))
		default:
			b.WriteString("|c:zz")
		}
	}
	return b.Bytes()
}

// message builds the protobuf message posted for an http event (same rule as the driver's pbOf).
func message(e *evT) *pb.EventV2 {
	m := &pb.EventV2{Title: e.title, Text: e.text, Hostname: e.ip}
	for _, a := range e.attrs {
		switch a.kind {
		case 'd':
			m.DateHappened = int64(a.num)
		case 'k':
			m.AggregationKey = a.str
		case 's':
			m.SourceTypeName = a.str
		case 'p':
			m.Priority = pb.EventV2_EventPriority(a.num)
		case 't':
			m.Type = pb.EventV2_AlertType(a.num)
		case '#':
			m.Tags = append(m.Tags, a.tags...)
		}
	}
	return m
}

// ---------------------------------------------------------------------------------------- history

type rec struct {
	idx  int // -1: unknown
	ev   gostatsd.Event
	fpos int // log position of the F token, -1 while in flight
}

type hist struct {
	mu     sync.Mutex
	log    []string
	byKey  map[string][]int // content -> event indices
	usedT  map[int]bool     // identified at the top
	usedM  map[int]bool     // identified at the last stage
	usedB  []map[int]bool   // per backend
	recs   [][]*rec         // per backend
	tminus int              // number of T- tokens
	wpos   int              // log position of W-, -1 before
	gate   chan struct{}    // closed = backends may return
	notify chan struct{}    // poked on every log append
}

func newHist(c *caseT) *hist {
	h := &hist{byKey: map[string][]int{}, usedT: map[int]bool{}, usedM: map[int]bool{}, wpos: -1,
		gate: make(chan struct{}), notify: make(chan struct{}, 1)}
	for i, e := range c.evs {
		k := e.title + "\x00" + e.text
		h.byKey[k] = append(h.byKey[k], i)
	}
	for b := 0; b < c.backends(); b++ {
		h.usedB = append(h.usedB, map[int]bool{})
		h.recs = append(h.recs, nil)
	}
	return h
}

// identify maps an event to its index in the case by (title, text); used marks indices already taken at this
// observation point.  Must be called with h.mu held.
func (h *hist) identify(title, text string, used map[int]bool, mark bool) int {
	for _, i := range h.byKey[title+"\x00"+text] {
		if !used[i] {
			if mark {
				used[i] = true
			}
			return i
		}
	}
	return -1
}

func (h *hist) appendLocked(tok string) int {
	h.log = append(h.log, tok)
	select {
	case h.notify <- struct{}{}:
	default:
	}
	return len(h.log) - 1
}

func idTok(i int) string {
	if i < 0 {
		return "?"
	}
	return strconv.Itoa(i)
}

type ctxKey struct{}

// logTop sits between the parser / the HTTP route and the first stage.
type logTop struct {
	h    *hist
	next gostatsd.PipelineHandler
}

func (l *logTop) EstimatedTags() int { return l.next.EstimatedTags() }
func (l *logTop) DispatchMetricMap(ctx context.Context, mm *gostatsd.MetricMap) {
	l.next.DispatchMetricMap(ctx, mm)
}
func (l *logTop) WaitForEvents() { l.next.WaitForEvents() }
func (l *logTop) DispatchEvent(ctx context.Context, e *gostatsd.Event) {
	l.h.mu.Lock()
	id := l.h.identify(e.Title, e.Text, l.h.usedT, true)
	l.h.appendLocked("T+" + idTok(id))
	l.h.mu.Unlock()
	l.next.DispatchEvent(context.WithValue(ctx, ctxKey{}, id), e)
	l.h.mu.Lock()
	l.h.appendLocked("T-" + idTok(id))
	l.h.tminus++
	l.h.mu.Unlock()
}

// logMid sits in front of the last stage (BackendHandler or forwarder).
type logMid struct {
	h    *hist
	next gostatsd.PipelineHandler
}

func (l *logMid) EstimatedTags() int { return l.next.EstimatedTags() }

// Metrics (the filler lines) travel through parser, cloud stage and tag stage and stop here: the last stage's
// metric side is not under test and must not be written to while the case is being torn down.
func (l *logMid) DispatchMetricMap(ctx context.Context, mm *gostatsd.MetricMap) {}
func (l *logMid) WaitForEvents()                                                { l.next.WaitForEvents() }
func (l *logMid) DispatchEvent(ctx context.Context, e *gostatsd.Event) {
	l.h.mu.Lock()
	id := l.h.identify(e.Title, e.Text, l.h.usedM, true)
	letter := "M" // from the cloud stage's goroutine after a lookup
	if v, ok := ctx.Value(ctxKey{}).(int); ok && v == id {
		letter = "H" // on the caller's goroutine
	}
	l.h.appendLocked(letter + "+" + idTok(id))
	l.h.mu.Unlock()
	l.next.DispatchEvent(ctx, e)
	l.h.mu.Lock()
	l.h.appendLocked(letter + "-" + idTok(id))
	l.h.mu.Unlock()
}

func copyEvent(e *gostatsd.Event) gostatsd.Event {
	c := *e
	c.Tags = append(gostatsd.Tags(nil), e.Tags...)
	return c
}

// deliver records one backend call: S token, copy, wait for the gate, F token.
func (h *hist) deliver(b int, ev gostatsd.Event) {
	h.mu.Lock()
	id := h.identify(ev.Title, ev.Text, h.usedB[b], true)
	r := &rec{idx: id, ev: ev, fpos: -1}
	h.recs[b] = append(h.recs[b], r)
	h.appendLocked(fmt.Sprintf("S%s.%d", idTok(id), b))
	h.mu.Unlock()
	<-h.gate
	h.mu.Lock()
	r.fpos = h.appendLocked(fmt.Sprintf("F%s.%d", idTok(id), b))
	h.mu.Unlock()
}

type capBackend struct {
	h   *hist
	idx int
}

func (b *capBackend) Name() string { return fmt.Sprintf("capture%d", b.idx) }
func (b *capBackend) SendMetricsAsync(ctx context.Context, mm *gostatsd.MetricMap, cb gostatsd.SendCallback) {
	cb(nil)
}
func (b *capBackend) SendEvent(ctx context.Context, e *gostatsd.Event) error {
	b.h.deliver(b.idx, copyEvent(e))
	return nil
}

// fakeCI is the scripted CachedInstances.
type fakeCI struct {
	mu       sync.Mutex
	script   map[string]ipScript
	answered map[string]bool
	sink     chan gostatsd.Source
	info     chan gostatsd.InstanceInfo
	release  chan struct{} // closed = lookups may be answered
}

func (f *fakeCI) Peek(ip gostatsd.Source) (*gostatsd.Instance, bool) {
	f.mu.Lock()
	defer f.mu.Unlock()
	s, ok := f.script[string(ip)]
	if !ok {
		return nil, true // negative cache hit
	}
	switch s.kind {
	case "hit":
		return s.inst, true
	case "hitnil":
		return nil, true
	case "miss":
		if f.answered[string(ip)] {
			return s.inst, true
		}
		return nil, false
	default: // missnil
		if f.answered[string(ip)] {
			return nil, true
		}
		return nil, false
	}
}
func (f *fakeCI) IpSink() chan<- gostatsd.Source           { return f.sink }
func (f *fakeCI) InfoSource() <-chan gostatsd.InstanceInfo { return f.info }
func (f *fakeCI) EstimatedTags() int                       { return 0 }

func (f *fakeCI) run(ctx context.Context) {
	for {
		select {
		case <-ctx.Done():
			return
		case ip := <-f.sink:
			select {
			case <-f.release:
			case <-ctx.Done():
				return
			}
			f.mu.Lock()
			s := f.script[string(ip)]
			f.answered[string(ip)] = true
			f.mu.Unlock()
			var inst *gostatsd.Instance
			if s.kind == "miss" {
				inst = s.inst
			}
			select {
			case f.info <- gostatsd.InstanceInfo{IP: ip, Instance: inst}:
			case <-ctx.Done():
				return
			}
		}
	}
}

type aggFactory struct{}

func (aggFactory) Create() statsd.Aggregator {
	return statsd.NewMetricAggregator(nil, time.Minute, time.Minute, time.Minute, time.Minute, gostatsd.TimerSubtypes{}, 0)
}

var quiet = func() *logrus.Logger {
	l := logrus.New()
	l.SetOutput(io.Discard)
	return l
}()

// hangs counts cases that ran into a deadline; a tree that hangs on every case must not cost a deadline per case
var hangs atomic.Int32

const maxHangs = 6

// Deadlines only matter on a tree that hangs.  A phase is given up when the log has been silent for `quietFor`
// (nothing at all happens in the pipeline: no call, no return, no upstream attempt; the longest legitimate silence
// is a retry back-off of about 1.7 s) or after the absolute deadline.
const (
	quietFor       = 6 * time.Second
	submitDeadline = 30 * time.Second
	waitDeadline   = 40 * time.Second
	grace          = 20 * time.Millisecond
	stragglers     = 150 * time.Millisecond
)

// runCase drives the real pipeline; returns the schedule-independent summary and the log.
func runCase(c *caseT) (summary string, logLine string) {
	h := newHist(c)
	ctx, cancel := context.WithCancel(context.Background())
	defer cancel()
	gated := c.sync == "gate" || c.sync == "gl"
	late := c.sync == "late" || c.sync == "gl"
	if !gated && c.sync != "sat" {
		close(h.gate)
	}

	// ---- last stage
	var last gostatsd.PipelineHandler
	var upstream *httptest.Server
	if c.mode == "sa" {
		backends := make([]gostatsd.Backend, c.nb)
		for i := range backends {
			backends[i] = &capBackend{h: h, idx: i}
		}
		bh := statsd.NewBackendHandler(backends, uint(c.c), 1, 1000, aggFactory{})
		go bh.Run(ctx)
		last = bh
	} else {
		var amu sync.Mutex
		attempts := map[string]int{}
		upstream = httptest.NewServer(http.HandlerFunc(func(w http.ResponseWriter, r *http.Request) {
			body, _ := io.ReadAll(r.Body)
			if r.URL.Path != "/v2/event" {
				w.WriteHeader(http.StatusOK)
				return
			}
			var m pb.EventV2
			if err := proto.Unmarshal(body, &m); err != nil {
				w.WriteHeader(http.StatusBadRequest)
				return
			}
			key := m.Title + "\x00" + m.Text
			amu.Lock()
			attempts[key]++
			n := attempts[key]
			amu.Unlock()
			if c.up == "r1" && n == 1 {
				h.mu.Lock()
				id := h.identify(m.Title, m.Text, h.usedB[0], false)
				h.appendLocked("X" + idTok(id))
				h.mu.Unlock()
				w.WriteHeader(http.StatusServiceUnavailable)
				return
			}
			ev := gostatsd.Event{Title: m.Title, Text: m.Text, DateHappened: m.DateHappened, AggregationKey: m.AggregationKey,
				SourceTypeName: m.SourceTypeName, Tags: append(gostatsd.Tags(nil), m.Tags...), Source: gostatsd.Source(m.Hostname),
				Priority: gostatsd.Priority(m.Priority), AlertType: gostatsd.AlertType(m.Type)}
			h.deliver(0, ev)
			w.WriteHeader(http.StatusAccepted)
		}))
		defer upstream.Close()
		pool := transport.NewTransportPool(quiet, viper.New())
		fwd, err := statsd.NewHttpForwarderHandlerV2(quiet, "default", upstream.URL, 2, 50, 1, false, "zlib", 1,
			10*time.Second, time.Hour, nil, nil, pool, nil)
		if err != nil {
			return "SETUP_ERROR " + err.Error(), ""
		}
		last = fwd
	}

	// ---- middle stages
	mid := &logMid{h: h, next: last}
	var first gostatsd.PipelineHandler = statsd.NewTagHandler(mid, append(gostatsd.Tags(nil), c.static...), nil)
	var ci *fakeCI
	if c.cloud {
		ci = &fakeCI{script: c.ips, answered: map[string]bool{}, sink: make(chan gostatsd.Source),
			info: make(chan gostatsd.InstanceInfo), release: make(chan struct{})}
		if !late {
			close(ci.release)
		}
		ch := statsd.NewCloudHandler(ci, first)
		go ch.Run(ctx)
		go ci.run(ctx)
		first = ch
	}
	top := &logTop{h: h, next: first}

	// ---- sources
	dgCh := make(chan []*statsd.Datagram)
	parser := statsd.NewDatagramParser(dgCh, "", c.ignoreHost, 0, top, 0, false, quiet)
	for i := 0; i < c.snd; i++ {
		go parser.Run(ctx)
	}
	srv, err := web.NewHttpServer(quiet, top, "ingest", "127.0.0.1:0", false, false, true, false, nil, nil)
	if err != nil {
		return "SETUP_ERROR " + err.Error(), ""
	}
	ingest := httptest.NewServer(srv.Router)
	defer ingest.Close()

	t0 := time.Now().Unix()
	var submitted sync.WaitGroup
	var udp, htt []int
	for i, e := range c.evs {
		if e.route == "http" {
			htt = append(htt, i)
		} else {
			udp = append(udp, i)
		}
	}
	// UDP-borne: one event per datagram (sometimes with a metric line before and a bad line after it), 1-2
	// datagrams per batch, fed to the parser goroutines through the real datagram channel
	submitted.Add(len(udp))
	go func() {
		for k := 0; k < len(udp); {
			var batch []*statsd.Datagram
			for j := 0; j < 1+(k%2) && k < len(udp); j++ {
				i := udp[k]
				k++
				var msg []byte
				if i%4 == 1 {
					msg = append(msg, "verif.filler:1|c\n"...)
				}
				msg = append(msg, wire(&c.evs[i])...)
				if i%5 == 2 {
					msg = append(msg, "\nthis is not a statsd line"...)
				} else if i%3 == 0 {
					msg = append(msg, '\n')
				}
				batch = append(batch, &statsd.Datagram{IP: gostatsd.Source(c.evs[i].ip), Msg: msg,
					Timestamp: gostatsd.Nanotime(time.Now().UnixNano()), DoneFunc: submitted.Done})
			}
			select {
			case dgCh <- batch:
			case <-ctx.Done():
				return
			}
		}
	}()
	// HTTP-borne: SND concurrent clients
	submitted.Add(len(htt))
	jobs := make(chan int, len(htt))
	for _, i := range htt {
		jobs <- i
	}
	close(jobs)
	client := &http.Client{Timeout: 20 * time.Second}
	for s := 0; s < c.snd; s++ {
		go func() {
			for i := range jobs {
				body, err := proto.Marshal(message(&c.evs[i]))
				if err == nil {
					req, _ := http.NewRequestWithContext(ctx, "POST", ingest.URL+"/v2/event", bytes.NewReader(body))
					if resp, err := client.Do(req); err == nil {
						_, _ = io.Copy(io.Discard, resp.Body)
						resp.Body.Close()
					}
				}
				submitted.Done()
			}
		}()
	}
	if c.sync == "sat" {
		// saturation: the backends are gated and there are more (event, backend) pairs than tokens; exactly
		// min(tokens, pairs) calls can be in flight.  Wait for them, leave an over-admitting semaphore a moment to
		// show itself, then open the gate.
		wantInFlight := c.c
		if p := len(c.evs) * c.backends(); p < wantInFlight {
			wantInFlight = p
		}
		deadline := time.Now().Add(submitDeadline)
		for h.started() < wantInFlight && time.Now().Before(deadline) {
			select {
			case <-h.notify:
			case <-time.After(5 * time.Millisecond):
			}
		}
		time.Sleep(grace)
		close(h.gate)
	}
	submittedCh := make(chan struct{})
	go func() { submitted.Wait(); close(submittedCh) }()
	if !h.await(submittedCh, submitDeadline) {
		hangs.Add(1)
		return "HANG submitting", strings.Join(h.snapshot(), " ")
	}

	// ---- WaitForEvents
	waited := make(chan struct{})
	go func() {
		h.mu.Lock()
		h.appendLocked("W+")
		h.mu.Unlock()
		top.WaitForEvents()
		h.mu.Lock()
		h.wpos = h.appendLocked("W-")
		h.mu.Unlock()
		close(waited)
	}()
	if gated || late {
		// everything accepted so far is blocked (backends gated / lookups unanswered): give a wrong
		// WaitForEvents the time to return early, then let the world go on
		select {
		case <-waited:
		case <-time.After(grace):
		}
		if gated {
			close(h.gate)
		}
		if late && ci != nil {
			close(ci.release)
		}
	}
	wstate := "ok"
	if !h.await(waited, waitDeadline) {
		wstate = "hang"
		hangs.Add(1)
	}
	// a correct run has every delivery by now; otherwise leave stragglers a moment so that a late delivery
	// is told apart from a lost one
	want := len(c.evs) * c.backends()
	deadline := time.Now().Add(stragglers)
	for h.finished() < want && time.Now().Before(deadline) {
		select {
		case <-h.notify:
		case <-time.After(10 * time.Millisecond):
		}
	}
	t1 := time.Now().Unix()

	h.mu.Lock()
	defer h.mu.Unlock()
	var parts []string
	for b := 0; b < c.backends(); b++ {
		var rs []string
		for _, r := range h.recs[b] {
			rs = append(rs, renderRec(r, t0, t1, h.wpos))
		}
		sort.Slice(rs, func(i, j int) bool { return lessRec(rs[i], rs[j]) })
		if len(rs) == 0 {
			parts = append(parts, fmt.Sprintf("B%d -", b))
		} else {
			parts = append(parts, fmt.Sprintf("B%d %s", b, strings.Join(rs, " , ")))
		}
	}
	bpart := "none"
	if len(parts) > 0 {
		bpart = strings.Join(parts, " | ")
	}
	return bpart + " // W " + wstate, strings.Join(h.log, " ")
}

func (h *hist) snapshot() []string {
	h.mu.Lock()
	defer h.mu.Unlock()
	return append([]string(nil), h.log...)
}

func (h *hist) started() int {
	h.mu.Lock()
	defer h.mu.Unlock()
	n := 0
	for _, rs := range h.recs {
		n += len(rs)
	}
	return n
}

func (h *hist) finished() int {
	h.mu.Lock()
	defer h.mu.Unlock()
	n := 0
	for _, rs := range h.recs {
		for _, r := range rs {
			if r.fpos >= 0 {
				n++
			}
		}
	}
	return n
}

func lessRec(a, b string) bool {
	ia, ib := strings.SplitN(a, " ", 2)[0], strings.SplitN(b, " ", 2)[0]
	na, ea := strconv.Atoi(ia)
	nb, eb := strconv.Atoi(ib)
	if ea == nil && eb == nil && na != nb {
		return na < nb
	}
	if (ea == nil) != (eb == nil) {
		return ea == nil
	}
	return a < b
}

func renderRec(r *rec, t0, t1 int64, wpos int) string {
	date := strconv.FormatInt(r.ev.DateHappened, 10)
	if r.ev.DateHappened >= t0-1 && r.ev.DateHappened <= t1+1 {
		date = "NOW"
	}
	w := "w0"
	if r.fpos >= 0 && (wpos < 0 || r.fpos < wpos) {
		w = "w1"
	}
	tags := make([]string, len(r.ev.Tags))
	for i, t := range r.ev.Tags {
		tags[i] = hx.S(t)
	}
	sort.Strings(tags)
	toks := []string{idTok(r.idx), hx.S(r.ev.Title), hx.S(r.ev.Text), date, hx.S(r.ev.AggregationKey), hx.S(r.ev.SourceTypeName),
		strconv.Itoa(int(r.ev.Priority)), strconv.Itoa(int(r.ev.AlertType)), hx.S(string(r.ev.Source)), w}
	return strings.Join(append(toks, tags...), " ")
}

// await waits for done; gives up after the absolute deadline or when the log has been silent for quietFor.
func (h *hist) await(done <-chan struct{}, absolute time.Duration) bool {
	end := time.Now().Add(absolute)
	h.mu.Lock()
	last, lastLen := time.Now(), len(h.log)
	h.mu.Unlock()
	for {
		select {
		case <-done:
			return true
		case <-h.notify:
		case <-time.After(100 * time.Millisecond):
		}
		h.mu.Lock()
		n := len(h.log)
		h.mu.Unlock()
		now := time.Now()
		if n != lastLen {
			last, lastLen = now, n
		}
		if now.After(end) || now.Sub(last) > quietFor {
			select {
			case <-done:
				return true
			default:
				return false
			}
		}
	}
}

// ---------------------------------------------------------------------------------------- run

type result struct {
	summary string
	log     string
	raw     string // complete line when no trace is needed (BAD_CASE, PANIC, …)
}

func runOne(line string) (res result) {
	defer func() {
		if e := recover(); e != nil {
			res = result{raw: fmt.Sprintf("PANIC %v", e)}
		}
	}()
	c, err := parseCase(line)
	if err != nil {
		return result{raw: "BAD_CASE"}
	}
	if hangs.Load() >= maxHangs {
		return result{raw: "HANG (not run: too many cases of this run hung already)"}
	}
	done := make(chan result, 1)
	go func() {
		defer func() {
			if e := recover(); e != nil {
				done <- result{raw: fmt.Sprintf("PANIC %v", e)}
			}
		}()
		s, l := runCase(c)
		if strings.HasPrefix(s, "HANG") || strings.HasPrefix(s, "SETUP_ERROR") {
			done <- result{raw: s}
			return
		}
		done <- result{summary: s, log: l}
	}()
	select {
	case r := <-done:
		return r
	case <-time.After(90 * time.Second):
		return result{raw: "HANG"}
	}
}

func gsdmodelPath() string {
	if p := os.Getenv("VERIF_GSDMODEL"); p != "" {
		return p
	}
	exe, err := os.Executable()
	if err != nil {
		return "gsdmodel"
	}
	return filepath.Join(filepath.Dir(exe), "..", "..", "lean", ".lake", "build", "bin", "gsdmodel")
}

// traceVerdicts asks the compiled Lean model whether each log is a trace of the transition system.
func traceVerdicts(cases []string, res []result) []string {
	out := make([]string, len(cases))
	var in bytes.Buffer
	var idx []int
	for i, r := range res {
		if r.raw == "" {
			fmt.Fprintf(&in, "%s\t%s\n", cases[i], r.log)
			idx = append(idx, i)
		}
	}
	if len(idx) == 0 {
		return out
	}
	cmd := exec.Command(gsdmodelPath(), "C19", "trace")
	cmd.Stdin = &in
	b, err := cmd.Output()
	lines := strings.Split(strings.TrimRight(string(b), "\n"), "\n")
	if err != nil || len(lines) != len(idx) {
		for _, i := range idx {
			out[i] = "TRACE_UNAVAILABLE"
		}
		return out
	}
	for k, i := range idx {
		out[i] = lines[k]
	}
	return out
}

func run() {
	var cases []string
	hx.Lines(func(line string) { cases = append(cases, line) })
	res := make([]result, len(cases))
	workers := 8
	var wg sync.WaitGroup
	next := make(chan int, len(cases))
	for i := range cases {
		next <- i
	}
	close(next)
	for w := 0; w < workers; w++ {
		wg.Add(1)
		go func() {
			defer wg.Done()
			for i := range next {
				res[i] = runOne(cases[i])
			}
		}()
	}
	wg.Wait()
	tv := traceVerdicts(cases, res)
	for i, r := range res {
		if r.raw != "" {
			fmt.Fprintln(hx.Out, r.raw)
			continue
		}
		t := tv[i]
		if t != "ok" {
			t = t + " LOG " + r.log
		}
		fmt.Fprintln(hx.Out, r.summary+" // T "+t)
	}
	hx.Out.Flush()
}

// ---------------------------------------------------------------------------------------- gen

var titles = []string{"", "T", "deploy", "a|b", "title with spaces", "é✓", "x:y", "_e{1,1}:a|b", "#tag", "|", "\\"}
var texts = []string{"", "t", "line1\nline2", "\n", "\n\nend\n", "a|b|c", "d:12|#x", "back\\slash", "tab\there", "ünï", "trailing\\",
	"C:\\temp\\\nnext", "\\\n", "x\\\\\ny", "\\\\\nq\\\nr\\"}

// escText draws a text over the alphabet that matters to the newline escape: backslashes, line breaks, 'n'
func escText(r *hx.Rng) string {
	alpha := []string{"\\", "\n", "n", "a", "|", "\\\n"}
	n := 1 + r.Intn(8)
	var b strings.Builder
	for i := 0; i < n; i++ {
		b.WriteString(hx.Pick(r, alpha))
	}
	// a literal backslash-n pair is outside the domain of the escape (it reads back as a line break)
	return strings.ReplaceAll(b.String(), "\\n", "\\xn")
}

var keys = []string{"", "k1", "agg key", "a:b", "é"}
var srcTypes = []string{"", "nagios", "my apps", "s:t"}
var hosts = []string{"", "spoofed-host", "10.9.9.9"}
var tagPool = []string{"", "t:1", "t:2", "env:prod", "a", "region:us", "é:ü", "dup", "s:10.0.0.1", "x:y:z", "host:web1", "host:"}
var ipPool = []string{"10.0.0.1", "10.0.0.2", "192.168.1.77", "fe80::1", "host-a"}
var dates = []uint64{0, 1, 5, 1234567890, 1 << 40, 1<<62 + 3, 9223372036854775807}

func genTags(r *hx.Rng, allowEmpty bool) []string {
	n := r.Intn(4)
	var ts []string
	for i := 0; i < n; i++ {
		t := hx.Pick(r, tagPool)
		if t == "" && !allowEmpty {
			continue
		}
		ts = append(ts, t)
	}
	return ts
}

func genEvent(r *hx.Rng, i int, route string, binary bool) evT {
	e := evT{route: route, title: hx.Pick(r, titles), text: hx.Pick(r, texts)}
	if r.Chance(1, 5) {
		e.text = escText(r)
	}
	if binary && r.Chance(1, 6) {
		e.title += string([]byte{0xff, 0xfe, 'z'})
	}
	if r.Chance(1, 12) {
		e.text += strings.Repeat("long text ", 30)
	}
	// (title, text) identifies the event at the far end: make the pair unique, keeping empty titles/texts reachable
	tag := fmt.Sprintf("<%d>", i)
	switch {
	case e.title == "":
		e.text += tag
	case e.text == "":
		e.title += tag
	case r.Bool():
		e.title += tag
	default:
		e.text = tag + e.text
	}
	na := r.Intn(7)
	if r.Chance(1, 5) {
		na = 0
	}
	for k := 0; k < na; k++ {
		switch r.Intn(9) {
		case 0:
			e.attrs = append(e.attrs, attr{kind: 'd', num: hx.Pick(r, dates)})
		case 1:
			e.attrs = append(e.attrs, attr{kind: 'h', str: hx.Pick(r, hosts)})
		case 2:
			e.attrs = append(e.attrs, attr{kind: 'k', str: hx.Pick(r, keys)})
		case 3:
			if route == "http" {
				e.attrs = append(e.attrs, attr{kind: 'p', num: uint64(r.Intn(4))})
			} else {
				e.attrs = append(e.attrs, attr{kind: 'p', num: uint64(r.Intn(2))})
			}
		case 4:
			e.attrs = append(e.attrs, attr{kind: 's', str: hx.Pick(r, srcTypes)})
		case 5:
			if route == "http" {
				e.attrs = append(e.attrs, attr{kind: 't', num: uint64(r.Intn(7))})
			} else {
				e.attrs = append(e.attrs, attr{kind: 't', num: uint64(r.Intn(4))})
			}
		case 6, 7:
			e.attrs = append(e.attrs, attr{kind: '#', tags: genTags(r, true)})
		default:
			e.attrs = append(e.attrs, attr{kind: 'o'})
		}
	}
	return e
}

func gen(args []string) {
	r := hx.NewRng(hx.Seed())
	n := hx.ArgInt(args, "--n", 300)
	tier := hx.Arg(args, "--tier", "quick")
	st := hx.NewStats("random event pipelines: standalone (0-4 capture backends, max-concurrent-events 1-8) or forwarder (one upstream), 1-8 senders, " +
		"cloud stage on/off with scripted cache (hit / negative hit / miss then instance / miss then nil / unknown source), static tags, " +
		"free-running, gated backends and late lookup answers; events of the documented grammar (repeated fields, empty tags, escaped newlines, " +
		"'|' in title/text, binary titles) over UDP datagrams and the /v2/event route; non-trivial = at least one sink and two events; distinct by case text")
	maxEv := 12
	if tier == "thorough" {
		maxEv = 40
	}
	fwHTTP := 0
	for i := 0; i < n; i++ {
		c := &caseT{mode: "sa", up: "ok", ips: map[string]ipScript{}}
		if r.Chance(1, 4) {
			c.mode = "fw"
		}
		c.nb = []int{0, 1, 1, 1, 2, 2, 2, 2, 3, 3, 4, 4}[r.Intn(12)]
		c.c = r.Range(1, 8)
		c.snd = r.Range(1, 8)
		c.cloud = r.Chance(7, 10)
		c.ignoreHost = r.Chance(1, 4)
		c.sync = []string{"free", "free", "free", "sat", "gate", "late", "gl"}[r.Intn(7)]
		nev := r.Range(1, maxEv)
		if r.Chance(1, 10) {
			nev = r.Range(1, 2)
		}
		withHTTP := r.Chance(3, 10)
		if c.mode == "fw" {
			c.nb = 1
			c.c = 1
			if c.sync == "gate" || c.sync == "gl" {
				c.sync = "late"
			}
			if c.sync == "sat" {
				c.sync = "free"
			}
			// HTTP-borne events in forwarder mode are defect D10 on the pinned tree; keep those cases few and small
			// in the quick tier (each one is shrunk by ./check while the defect is open)
			quota := 3
			if tier == "thorough" {
				quota = n / 100
				if quota > 40 {
					quota = 40
				}
			}
			withHTTP = fwHTTP < quota && r.Chance(1, 3)
			if withHTTP {
				fwHTTP++
				nev = r.Range(1, 3)
				if r.Chance(1, 3) {
					c.up = "r1"
				}
			} else if r.Chance(1, 8) {
				c.up = "r1"
				nev = r.Range(1, 4)
			}
		}
		if !c.cloud && (c.sync == "late" || c.sync == "gl") {
			c.sync = "free"
		}
		if c.sync == "gate" || c.sync == "gl" {
			// every event must be acceptable while the backends are gated: all tokens together suffice
			if c.nb > 0 {
				if c.c < c.nb {
					c.c = c.nb
				}
				if nev > c.c/c.nb {
					nev = c.c / c.nb
				}
			}
		}
		for k := r.Intn(4); k > 0; k-- {
			c.static = append(c.static, hx.Pick(r, tagPool[1:]))
		}
		nip := r.Range(1, 3)
		var ips []string
		for k := 0; k < nip; k++ {
			ip := ipPool[(r.Intn(len(ipPool))+k)%len(ipPool)]
			ips = append(ips, ip)
			if _, dup := c.ips[ip]; dup || r.Chance(1, 6) {
				continue // a source without script: negative cache hit
			}
			kind := hx.Pick(r, []string{"hit", "hitnil", "miss", "miss", "missnil"})
			inst := &gostatsd.Instance{ID: gostatsd.Source("i-" + strconv.Itoa(r.Intn(1000))), Tags: gostatsd.Tags(genTags(r, false))}
			c.ips[ip] = ipScript{kind: kind, inst: inst}
			c.ipOrd = append(c.ipOrd, ip)
		}
		binary := c.mode == "sa"
		for k := 0; k < nev; k++ {
			route := "udp"
			if withHTTP && r.Chance(1, 2) {
				route = "http"
			}
			e := genEvent(r, k, route, binary && route == "udp")
			e.ip = hx.Pick(r, ips)
			if route == "http" && r.Chance(1, 8) {
				e.ip = "" // unknown source
			}
			c.evs = append(c.evs, e)
		}
		line := renderCase(c)
		st.Case(line, c.backends() >= 1 && len(c.evs) >= 2)
		st.Hit("mode=" + c.mode)
		st.Hit("sync=" + c.sync)
		st.Hit(fmt.Sprintf("backends=%d", c.backends()))
		st.Hit(fmt.Sprintf("tokens<=%d", (c.c+1)/2*2))
		st.Hit(fmt.Sprintf("senders<=%d", (c.snd+1)/2*2))
		st.Hit(fmt.Sprintf("cloud=%d", b2i(c.cloud)))
		if withHTTP {
			st.Hit("with-http-events")
			if c.mode == "fw" {
				st.Hit("forwarder+http (D10)")
			}
		}
		if c.up == "r1" {
			st.Hit("upstream-first-attempt-503")
		}
		for _, ip := range c.ipOrd {
			st.Hit("cache=" + c.ips[ip].kind)
		}
		st.Hit(fmt.Sprintf("events<=%d", bucket(len(c.evs))))
		fmt.Fprintln(hx.Out, line)
	}
	hx.Out.Flush()
	st.Write(hx.Arg(args, "--stats", ""))
}

func bucket(n int) int {
	for _, b := range []int{1, 2, 4, 8, 16, 40} {
		if n <= b {
			return b
		}
	}
	return 1 << 30
}

func main() {
	if len(os.Args) < 2 {
		fmt.Fprintln(os.Stderr, "usage: c19 gen|run")
		os.Exit(2)
	}
	switch os.Args[1] {
	case "gen":
		gen(os.Args[2:])
	case "run":
		run()
	default:
		os.Exit(2)
	}
}
