//go:build verif

// c02: correspondence harness for C02 (the line lexer accepts exactly the documented grammar).
//
//	c02 gen [--n N] [--tier quick|thorough] [--stats file]   cases on stdout (VERIF_SEED)
//	c02 run                                                   real lexer on every case
//
// Case format: see internal/lexcase.  Lines never contain NUL here (C03 covers NUL).
package main

import (
	"bytes"
	"context"
	"fmt"
	"github.com/atlassian/gostatsd"
	"github.com/atlassian/gostatsd/pkg/statsd"
	"github.com/sirupsen/logrus"
	"io"
	"os"
	"strconv"
	"strings"
	"sync"

	"verifharness/internal/hx"
	"verifharness/internal/lexcase"
)

var (
	typeSpellings = []string{"c", "g", "ms", "h", "s"}
	badTypes      = []string{"", "x", "m", "mx", "cs", "C", "sm", "hh", "gc", "k", "|", "ms "}
	values        = []string{"1", "0", "-1", "1.5", "-0.25", "1e3", "3.14159", "+2", "100000", "0x1p3", "1_0", ".5", "5.",
		"inf", "+Inf", "-inf", "nan", "NaN", "1e999", "-1e999", "1e-999", "", "abc", " 1", "1 ", "1:2", "1,2", "--1", "1e", "0x", "٣", "user42", "a:b",
		"-", "+", ".", "e", "-.", "+.", "+e", "-e1", "+-1", "E5", "_", "1_"}
	rates    = []string{"0.5", "1", "0.1", "0.25", "1e-3", "2", "0", "-0", "-1", "-0.5", "nan", "inf", "-inf", "+Inf", "1e999", "", "abc", "0.5x", " 0.5", "0x1p-1", "1e-400", "-", "+", ".", "e", "+."}
	tagPool  = []string{"", "a", "b:c", "env:prod", "k:v:w", "host:h1", "x y", "é", "t#1", "@", "#", "a=b", "0", "::", "-", "long_tag_value.with.dots"}
	others   = []string{"c:container", "T1656581400", "x", "e:1", "zzz", "c", "d:1", " ", "\\n", "a,b"}
	nss      = []string{"", "", "", "ns", "a.b", "N/s", "é"}
	nameBits = []string{"a", "b", "abc", "web.requests", "A", "Z9", "x-y", "x_y", "a.b.c", "0", "a/b", "a b", "a\tb", "/", " ", "\t", "$", "a$b", "é", "a|b", "a@b", "a#b", "a,b",
		"\xff", "\x01", "\x7f", "{", "}", "~", "`", "[", "^", "@", "G", "g", "_", "-", "."}
	eventTexts = []string{"", "t", "title", "hello world", "a|b", "x\\ny", "\\n", "\\", "\\\\n", "n\\", "é", "a:b", "#x", "1,2", "line1\\nline2\\n"}
	prios      = []string{"low", "normal", "high", "", "LOW", "normal ", "lo"}
	alerts     = []string{"info", "error", "warning", "success", "", "fatal", "Error", "warn"}
)

// numText returns a random numeric text: integers of 1..25 digits (incl. the int64 / uint64 / 2^53 edges),
// fractions, exponents — whatever the value turns out to be, strconv.ParseFloat is the oracle.
func numText(r *hx.Rng) string {
	edges := []string{"9223372036854775807", "9223372036854775808", "-9223372036854775808", "-9223372036854775809",
		"18446744073709551615", "18446744073709551616", "9007199254740993", "9999999999999999999", "999999999999999999",
		"4294967296", "2147483648", "00000000000000000001", "-0", "+0", "1e19", "1e22", "1e23", "123456789012345678901234567890"}
	switch r.Intn(5) {
	case 0:
		return hx.Pick(r, edges)
	case 1:
		n := r.Range(1, 25)
		b := make([]byte, 0, n+1)
		if r.Chance(1, 4) {
			b = append(b, '-')
		}
		for i := 0; i < n; i++ {
			b = append(b, byte('0'+r.Intn(10)))
		}
		return string(b)
	case 2:
		return fmt.Sprintf("%d.%d", r.Intn(100000), r.Intn(100000))
	case 3:
		return fmt.Sprintf("%de%d", r.Intn(1000), r.Intn(40)-20)
	default:
		return fmt.Sprintf("%d", r.Intn(1000000))
	}
}

func randName(r *hx.Rng) string {
	switch r.Intn(10) {
	case 0: // every byte class, uniformly random bytes except NUL and ':'
		n := r.Range(1, 8)
		b := make([]byte, 0, n)
		for len(b) < n {
			c := byte(r.Range(1, 255))
			if c != ':' && c != '\n' {
				b = append(b, c)
			}
		}
		return string(b)
	case 1: // only characters that are deleted
		return hx.Pick(r, []string{"$", "$$", "é", "|", "@#", "\x01\x02", "{}"})
	default:
		n := r.Range(1, 3)
		s := ""
		for i := 0; i < n; i++ {
			s += hx.Pick(r, nameBits)
		}
		if r.Chance(9, 10) && strings.HasPrefix(s, "_") {
			s = "m" + s
		}
		return s
	}
}

func randTags(r *hx.Rng) string {
	n := r.Intn(5)
	ts := make([]string, n)
	for i := range ts {
		ts[i] = hx.Pick(r, tagPool)
	}
	return "#" + strings.Join(ts, ",")
}

// one field of a metric line, without the leading '|'
func randField(r *hx.Rng, wellFormed bool) string {
	switch r.Intn(3) {
	case 0:
		if wellFormed {
			return "@" + rates[r.Intn(5)]
		}
		return "@" + hx.Pick(r, rates)
	case 1:
		return randTags(r)
	default:
		return hx.Pick(r, others)
	}
}

// grammar-directed metric line; kind reports which sub-stream it came from
func genMetric(r *hx.Rng) (string, string) {
	wf := r.Chance(2, 3)
	name := randName(r)
	val := hx.Pick(r, values)
	if r.Chance(1, 3) {
		val = numText(r)
	}
	if wf {
		val = values[r.Intn(13)]
	}
	ty := hx.Pick(r, typeSpellings)
	if !wf && r.Chance(1, 4) {
		ty = hx.Pick(r, badTypes)
	}
	if ty == "s" && r.Chance(1, 2) {
		val = hx.Pick(r, values)
	}
	nf := r.Intn(5)
	var sb strings.Builder
	sb.WriteString(name + ":" + val + "|" + ty)
	for i := 0; i < nf; i++ {
		sb.WriteString("|" + randField(r, wf))
	}
	if !wf {
		switch r.Intn(8) {
		case 0:
			sb.WriteString("|") // trailing separator
		case 1:
			sb.WriteString("||@" + hx.Pick(r, rates)) // empty field swallows the next one
		case 2:
			sb.WriteString("x") // type suffix
		}
	}
	k := "metric-wf"
	if !wf {
		k = "metric-any"
	}
	return sb.String(), k
}

func randDigits(r *hx.Rng, n int) string {
	s := strconv.Itoa(n)
	if r.Chance(1, 8) {
		s = strings.Repeat("0", r.Range(1, 3)) + s
	}
	return s
}

func genEvent(r *hx.Rng) (string, string) {
	title := hx.Pick(r, eventTexts)
	text := hx.Pick(r, eventTexts)
	if r.Chance(1, 5) {
		text = strings.Repeat(hx.Pick(r, eventTexts), r.Range(2, 6))
	}
	tl, xl := len(title), len(text)
	kind := "event-exact"
	switch r.Intn(6) {
	case 0:
		tl -= r.Range(1, 2)
		kind = "event-short"
	case 1:
		xl -= r.Range(1, 2)
		kind = "event-short"
	case 2:
		tl += r.Range(1, 3)
		kind = "event-long"
	case 3:
		xl += r.Range(1, 40)
		kind = "event-long"
	}
	if tl < 0 {
		tl = 0
	}
	if xl < 0 {
		xl = 0
	}
	var sb strings.Builder
	sb.WriteString("_e{" + randDigits(r, tl) + "," + randDigits(r, xl) + "}:" + title + "|" + text)
	nf := r.Intn(5)
	for i := 0; i < nf; i++ {
		sb.WriteString("|")
		switch r.Intn(9) {
		case 0:
			sb.WriteString("d:" + hx.Pick(r, []string{"0", "1", "1656581400", "9223372036854775807", "9223372036854775808", "18446744073709551615", "18446744073709551616", "99999999999999999999", "", "12x", "-1", "007"}))
		case 1:
			sb.WriteString("h:" + hx.Pick(r, tagPool))
		case 2:
			sb.WriteString("k:" + hx.Pick(r, tagPool))
		case 3:
			sb.WriteString("p:" + hx.Pick(r, prios))
		case 4:
			sb.WriteString("s:" + hx.Pick(r, tagPool))
		case 5:
			sb.WriteString("t:" + hx.Pick(r, alerts))
		case 6:
			sb.WriteString(randTags(r))
		case 7:
			sb.WriteString(hx.Pick(r, others))
		default:
			sb.WriteString(hx.Pick(r, []string{"d", "h", "p:", "t", "dx:1", "", "#", "k"}))
		}
	}
	return sb.String(), kind
}

var mutBytes = []byte("a:|@#,_c1gmsh0.-e{}5 \t/\\n$d")

func mutate(r *hx.Rng, s string) string {
	b := []byte(s)
	switch r.Intn(4) {
	case 0: // delete
		if len(b) > 0 {
			i := r.Intn(len(b))
			b = append(b[:i:i], b[i+1:]...)
		}
	case 1: // insert
		i := r.Intn(len(b) + 1)
		c := hx.Pick(r, mutBytes)
		if r.Chance(1, 4) {
			c = byte(r.Range(1, 255))
		}
		nb := append([]byte{}, b[:i]...)
		nb = append(nb, c)
		b = append(nb, b[i:]...)
	case 2: // replace
		if len(b) > 0 {
			c := hx.Pick(r, mutBytes)
			if r.Chance(1, 4) {
				c = byte(r.Range(1, 255))
			}
			b[r.Intn(len(b))] = c
		}
	default: // swap two '|'-separated fields
		parts := bytes.Split(b, []byte{'|'})
		if len(parts) > 2 {
			i, j := r.Intn(len(parts)), r.Intn(len(parts))
			parts[i], parts[j] = parts[j], parts[i]
			b = bytes.Join(parts, []byte{'|'})
		}
	}
	b = bytes.ReplaceAll(b, []byte{0}, []byte{'0'})
	b = bytes.ReplaceAll(b, []byte{'\n'}, []byte{'n'})
	return string(b)
}

func genRaw(r *hx.Rng) string {
	n := r.Intn(24)
	b := make([]byte, n)
	uniform := r.Chance(1, 3)
	for i := range b {
		if uniform {
			b[i] = byte(r.Range(1, 255))
		} else {
			b[i] = hx.Pick(r, mutBytes)
		}
		if b[i] == '\n' {
			b[i] = 'n'
		}
	}
	return string(b)
}

// boundary enumerator: every string of length <= 3 over {a : | @ # , _ c 1}
func boundary() []string {
	alpha := []byte("a:|@#,_c1")
	out := []string{""}
	prev := []string{""}
	for l := 1; l <= 3; l++ {
		var next []string
		for _, p := range prev {
			for _, c := range alpha {
				next = append(next, p+string(c))
			}
		}
		out = append(out, next...)
		prev = next
	}
	return out
}

func classify(out string) string {
	switch {
	case strings.HasPrefix(out, "M "):
		return "accepted-metric"
	case strings.HasPrefix(out, "E "):
		return "accepted-event"
	case strings.HasPrefix(out, "R "):
		return "reject:" + out[2:]
	}
	return out
}

func gen(args []string) {
	r := hx.NewRng(hx.Seed()).Fork() // Fork: hx.NewRng(seed) alone makes seed s+1 the same stream shifted by one draw
	n := hx.ArgInt(args, "--n", 20000)
	st := hx.NewStats("lexer lines without NUL: grammar-directed metric and event lines (all five type spellings, 0-4 fields in every order, names over every byte class, empty tags, rate after tags, event headers with exact/short/long declared lengths), single-byte mutations and field swaps of valid lines, raw random bytes, and every string of length <= 3 over {a : | @ # , _ c 1}; non-trivial = accepted by the real lexer (metric or event); distinct by case text")
	emit := func(ns string, line string, stream string) {
		capacity := -1
		if r.Chance(1, 10) {
			capacity = len(line) + r.Range(1, 64)
		}
		c := lexcase.Case(ns, capacity, []byte(line))
		out, _ := lexcase.Lex(ns, capacity, []byte(line))
		cl := classify(out)
		st.Case(c, strings.HasPrefix(cl, "accepted"))
		st.Hit("stream:" + stream)
		st.Hit("outcome:" + cl)
		if strings.HasPrefix(out, "M ") {
			st.Hit(fmt.Sprintf("fields:%d", min(strings.Count(line, "|")-1, 6)))
		}
		fmt.Fprintln(hx.Out, c)
	}
	for _, s := range boundary() {
		emit("", s, "boundary")
	}
	for i := 0; i < n; i++ {
		ns := hx.Pick(r, nss)
		switch k := r.Intn(20); {
		case k < 8:
			line, kind := genMetric(r)
			emit(ns, line, kind)
		case k < 12:
			line, kind := genEvent(r)
			emit(ns, line, kind)
		case k < 17:
			var line string
			if r.Chance(2, 3) {
				line, _ = genMetric(r)
			} else {
				line, _ = genEvent(r)
			}
			for m := r.Range(1, 2); m > 0; m-- {
				line = mutate(r, line)
			}
			emit(ns, line, "mutation")
		default:
			emit(ns, genRaw(r), "raw")
		}
	}
	hx.Out.Flush()
	st.Write(hx.Arg(args, "--stats", ""))
}

func runOne(c string) (out string) {
	defer func() {
		if e := recover(); e != nil {
			out = "PANIC"
		}
	}()
	ns, capacity, line, err := lexcase.Parse(c)
	if err != nil {
		return "BAD_CASE"
	}
	// the oracle column must be what the library says now (a stale table would silently weaken the tie)
	toks := hx.Tokens(c)
	if bad := lexcase.CheckOracle(toks[2:len(toks)-1], line); bad != "" {
		return bad
	}
	out, msg := lexcase.Lex(ns, capacity, line)
	if msg != "" {
		fmt.Fprintf(os.Stderr, "panic on %s: %s\n", hx.B(line), msg)
	}
	if strings.HasPrefix(out, "M ") && !bytes.ContainsAny(line, "\n\x00") {
		if d := parserPass(ns, line, out); d != "" {
			out += " PARSER-DIFF " + d
		}
	}
	return out
}

// ---- the same line through the parser's per-datagram routine -------------------------------------------------
//
// What the lexer yields travels on through DatagramParser.handleDatagram, which sets time and source and, with
// ignore-host, turns the first host: tag into the source.  The metric it hands back must still carry the lexer's
// fields and tags, in order (the MetricMap it is folded into next sorts the tags, so this is the last place where
// their order can be seen).

var (
	parserMu sync.Mutex
	parsers  = map[string]*statsd.DatagramParser{}
)

type nullHandler struct{}

func (nullHandler) DispatchMetricMap(context.Context, *gostatsd.MetricMap) {}
func (nullHandler) DispatchEvent(context.Context, *gostatsd.Event)         {}
func (nullHandler) EstimatedTags() int                                     { return 0 }
func (nullHandler) WaitForEvents()                                         {}

func parserFor(ns string, ignoreHost bool) *statsd.DatagramParser {
	parserMu.Lock()
	defer parserMu.Unlock()
	key := fmt.Sprintf("%v\x00%s", ignoreHost, ns)
	if p, ok := parsers[key]; ok {
		return p
	}
	lg := logrus.New()
	lg.SetOutput(io.Discard)
	p := statsd.NewDatagramParser(make(chan []*statsd.Datagram), ns, ignoreHost, 0, nullHandler{}, 0, false, lg)
	parsers[key] = p
	return p
}

func parserPass(ns string, line []byte, lexOut string) (diff string) {
	defer func() {
		if e := recover(); e != nil {
			diff = fmt.Sprintf("panic:%v", e)
		}
	}()
	toks := strings.Fields(lexOut)
	if len(toks) < 6 {
		return ""
	}
	head, tags := toks[:6], toks[6:]
	for _, ih := range []bool{false, true} {
		ms, _, bad := parserFor(ns, ih).VerifHandleDatagram(context.Background(), 77, "192.0.2.7", append([]byte(nil), line...))
		if bad != 0 || len(ms) != 1 {
			return fmt.Sprintf("ignore-host=%v:metrics=%d,bad=%d", ih, len(ms), bad)
		}
		wantTags, wantSrc := tags, "192.0.2.7"
		if ih {
			wantSrc = ""
			wantTags = nil
			taken := false
			for _, t := range tags {
				if raw := hx.MustUnS(t); !taken && strings.HasPrefix(raw, "host:") {
					wantSrc, taken = raw[5:], true
					continue
				}
				wantTags = append(wantTags, t)
			}
		}
		want := strings.Join(append(append([]string{}, head...), wantTags...), " ")
		if got := lexcase.RenderMetric(ms[0]); got != want || string(ms[0].Source) != wantSrc || ms[0].Timestamp != 77 {
			return fmt.Sprintf("ignore-host=%v:fields,tags-in-order,source-or-time-differ", ih)
		}
	}
	return ""
}

func main() {
	if len(os.Args) < 2 {
		fmt.Fprintln(os.Stderr, "usage: c02 gen|run")
		os.Exit(2)
	}
	switch os.Args[1] {
	case "gen":
		gen(os.Args[2:])
	case "run":
		hx.Lines(func(line string) {
			fmt.Fprintln(hx.Out, runOne(line))
		})
		hx.Out.Flush()
	case "mk": // c02 mk NS "go-quoted line" ... : prints corpus cases
		for _, q := range os.Args[3:] {
			s, err := strconv.Unquote(`"` + q + `"`)
			if err != nil {
				fmt.Fprintln(os.Stderr, "bad quoted string", q, err)
				os.Exit(2)
			}
			fmt.Println(lexcase.Case(os.Args[2], -1, []byte(s)))
		}
	default:
		os.Exit(2)
	}
}
