// c15: correspondence harness for C15 (the forwarder delivers every batch exactly once or reports it dropped).
//
// A real HttpForwarderHandlerV2 with 1..8 dispatcher goroutines, 1..8 consolidator slots, concurrent-merge
// 1..4, max-requests 1..8; flushes through the re-exported flush coordinator (manual) or the consolidator's
// own ticker on a mock clock; an httptest upstream that answers every body per attempt from a script and
// decodes it with the repository's pb types.  Case and output formats: lean/Gsd/Driver/C15.lean.
//
//	c15 gen [--n N] [--tier quick|thorough] [--stats file]
//	c15 run
package main

import (
	"bytes"
	"context"
	"crypto/sha256"
	"fmt"
	"io"
	"math"
	"net/http"
	"net/http/httptest"
	"os"
	"sort"
	"strconv"
	"strings"
	"sync"
	"sync/atomic"
	"time"
	"unicode/utf8"

	"github.com/sirupsen/logrus"
	"github.com/spf13/viper"
	"github.com/tilinna/clock"
	"google.golang.org/protobuf/proto"

	"github.com/atlassian/gostatsd"
	"github.com/atlassian/gostatsd/pb"
	"github.com/atlassian/gostatsd/pkg/stats"
	"github.com/atlassian/gostatsd/pkg/statsd"
	"github.com/atlassian/gostatsd/pkg/transport"
	"github.com/atlassian/gostatsd/pkg/verifhooks"
	"github.com/atlassian/gostatsd/pkg/web"

	"verifharness/internal/hx"
)

// ------------------------------------------------------------------------------------ case

type series struct {
	idx                 int
	ty, name, tkey, src string
	tags                []string
}

type dispatch struct {
	racing bool
	worker int
	dps    [][2]int // id, series
}

type round struct {
	script []string
	ds     []dispatch
}

type tcase struct {
	slots, disp, cm, mr int
	me                  int
	mode                string
	dyn, static         []string
	series              map[int]*series
	rounds              []round
}

func parseCase(line string) (*tcase, bool) {
	items := hx.SplitBy(hx.Tokens(line), ";")
	if len(items) == 0 || len(items[0]) < 9 || items[0][0] != "cfg" {
		return nil, false
	}
	c := items[0][1:]
	tc := &tcase{series: map[int]*series{}}
	var err error
	atoi := func(s string) int {
		v, e := strconv.Atoi(s)
		if e != nil {
			err = e
		}
		return v
	}
	tc.slots, tc.disp, tc.cm, tc.mr, tc.me, tc.mode = atoi(c[0]), atoi(c[1]), atoi(c[2]), atoi(c[3]), atoi(c[4]), c[5]
	nh := atoi(c[6])
	rest := c[7:]
	if err != nil || len(rest) < nh+1 {
		return nil, false
	}
	for _, t := range rest[:nh] {
		s, e := hx.UnS(t)
		if e != nil {
			return nil, false
		}
		tc.dyn = append(tc.dyn, s)
	}
	rest = rest[nh:]
	nx := atoi(rest[0])
	rest = rest[1:]
	if err != nil || len(rest) != nx {
		return nil, false
	}
	for _, t := range rest {
		s, e := hx.UnS(t)
		if e != nil {
			return nil, false
		}
		tc.static = append(tc.static, s)
	}
	for _, it := range items[1:] {
		if len(it) == 0 {
			continue
		}
		switch it[0] {
		case "s":
			if len(it) < 7 {
				return nil, false
			}
			n := atoi(it[6])
			if err != nil || len(it) != 7+n {
				return nil, false
			}
			s := &series{idx: atoi(it[1]), ty: it[2]}
			strs := []string{}
			for _, t := range append([]string{it[3], it[4], it[5]}, it[7:]...) {
				v, e := hx.UnS(t)
				if e != nil {
					return nil, false
				}
				strs = append(strs, v)
			}
			s.name, s.tkey, s.src, s.tags = strs[0], strs[1], strs[2], strs[3:]
			if err != nil {
				return nil, false
			}
			if _, dup := tc.series[s.idx]; !dup { // the first definition wins (as in the model's find?)
				tc.series[s.idx] = s
			}
		case "r":
			parts := hx.SplitBy(it[1:], "|")
			r := round{script: parts[0]}
			for _, p := range parts[1:] {
				if len(p) < 2 || (p[0] != "d" && p[0] != "c") {
					return nil, false
				}
				d := dispatch{racing: p[0] == "c", worker: atoi(p[1])}
				for _, t := range p[2:] {
					ab := strings.Split(t, ":")
					if len(ab) != 2 {
						return nil, false
					}
					d.dps = append(d.dps, [2]int{atoi(ab[0]), atoi(ab[1])})
				}
				if err != nil {
					return nil, false
				}
				r.ds = append(r.ds, d)
			}
			tc.rounds = append(tc.rounds, r)
		default:
			return nil, false
		}
	}
	return tc, err == nil
}

// ------------------------------------------------------------------------------------ generator

var failKinds = []string{"400", "404", "500", "503", "hij", "d503"}
var okKinds = []string{"200", "202", "d200", "t200"} // t200: a 200 whose response body breaks off (declared longer than sent)
var tagPool = []string{"env:p", "env:q", "svc:a", "svc:", "x_id:7", "plain", "other:1", "envx:9", "svc:b:c", "myenv:z", "subsvc:q"}
var srcPool = []string{"", "10.0.0.1", "10.0.0.2", "h"}
var dynChoices = [][]string{{}, {}, {"env"}, {"env", "svc"}, {"env", "", "svc"}, {"x_id", "env"}, {"svc"}, {"s"}}
var staticChoices = [][]string{{}, {}, {"region"}, {"env"}}

func gen(args []string) {
	r := hx.NewRng(hx.Seed()).Fork() // Fork: hx seeds k and k+1 are the same splitmix stream shifted by one draw
	n := hx.ArgInt(args, "--n", 300)
	thorough := hx.Arg(args, "--tier", "quick") == "thorough"
	st := hx.NewStats("histories of 1..3 flush rounds, each with 1..6 dispatches spread over 1..8 dispatcher goroutines (and in 40% of the manual cases 1..3 dispatches racing with the flush), 1..6 series of all four types with tags from a pool that does / does not match the dynamic header names, 1..8 slots, concurrent-merge 1..4, max-requests 1..8, manual flush through the coordinator or the mock-clock ticker, per-round upstream scripts (2xx, 4xx/5xx, hijack-and-close, delayed) with retries disabled / a 300 ms window / a 5 s window, and in 1/30 (quick) or 1/6 (thorough) of the cases a series whose tag is not valid UTF-8; non-trivial = at least two dispatches in some round; distinct by case text")
	for i := 0; i < n; i++ {
		invalid := r.Chance(1, map[bool]int{true: 6, false: 30}[thorough])
		ticker := !invalid && r.Chance(1, 5)
		racing := !invalid && !ticker && r.Chance(2, 5)
		dyn := hx.Pick(r, dynChoices)
		static := hx.Pick(r, staticChoices)
		me := hx.Pick(r, []int{-1, -1, 300, 5000})
		if r.Chance(1, 40) {
			me = 3000 // the forwarder has been up for longer than this window before its first post (see runCase)
		}
		head := []string{"cfg", strconv.Itoa(r.Range(1, 8)), strconv.Itoa(r.Range(1, 8)), strconv.Itoa(r.Range(1, 4)), strconv.Itoa(r.Range(1, 8)),
			strconv.Itoa(me), map[bool]string{true: "ticker", false: "manual"}[ticker], strconv.Itoa(len(dyn))}
		for _, d := range dyn {
			head = append(head, hx.S(d))
		}
		head = append(head, strconv.Itoa(len(static)))
		for _, x := range static {
			head = append(head, hx.S(x))
		}
		items := []string{strings.Join(head, " ")}
		ns := r.Range(1, 6)
		types := make([]string, ns)
		nonGauge := []int{}
		badSeries := -1
		seenKey := map[string]bool{}
		if invalid {
			badSeries = r.Intn(ns)
		}
		for s := 0; s < ns; s++ {
			types[s] = hx.Pick(r, []string{"c", "t", "g", "s", "c", "s"})
			if types[s] != "g" {
				nonGauge = append(nonGauge, s)
			}
			tags := gostatsd.Tags{}
			for q := r.Intn(4); q > 0; q-- {
				tags = append(tags, hx.Pick(r, tagPool))
			}
			if s == badSeries {
				tags = append(tags, hx.Pick(r, []string{"t:\xff", "env:\xff", "\xff"}))
				st.Hit("series:invalid-utf8")
			}
			src := hx.Pick(r, srcPool)
			tk := gostatsd.FormatTagsKey(gostatsd.Source(src), tags.Copy())
			// series of one case often share a metric name (clients reporting the same metric under different tags or
			// sources); the key (type, name, tagsKey) stays unique
			name := fmt.Sprintf("n%d", s)
			if shared := "n0"; r.Bool() && !seenKey[types[s]+"\x00"+shared+"\x00"+tk] {
				name = shared
			}
			seenKey[types[s]+"\x00"+name+"\x00"+tk] = true
			if name == "n0" && s > 0 {
				st.Hit("series:shared-name")
			}
			p := []string{"s", strconv.Itoa(s), types[s], hx.S(name), hx.S(tk), hx.S(src), strconv.Itoa(len(tags))}
			for _, t := range tags {
				p = append(p, hx.S(t))
			}
			items = append(items, strings.Join(p, " "))
			st.Hit("type:" + types[s])
		}
		nextID := 0
		rounds := r.Range(1, 3)
		multi := false
		for q := 0; q < rounds && nextID < 50; q++ {
			var script []string
			switch {
			case me == -1:
				for k := r.Range(1, 3); k > 0; k-- {
					script = append(script, hx.Pick(r, append(append([]string{}, failKinds...), okKinds...)))
				}
			case me == 300:
				script = []string{hx.Pick(r, failKinds)}
			default:
				if r.Bool() {
					script = []string{hx.Pick(r, okKinds)}
				} else if thorough && me != 3000 && r.Chance(1, 4) {
					script = []string{hx.Pick(r, failKinds), hx.Pick(r, failKinds), hx.Pick(r, okKinds)}
				} else {
					script = []string{hx.Pick(r, failKinds), hx.Pick(r, okKinds)}
				}
			}
			st.Hit("script:" + strings.Join(script, ","))
			parts := []string{"r " + strings.Join(script, " ")}
			nd := r.Range(1, 6)
			if nd > 1 {
				multi = true
			}
			for d := 0; d < nd && nextID < 56; d++ {
				p := []string{"d", strconv.Itoa(r.Intn(8))}
				for k := r.Range(1, 4); k > 0 && nextID < 58; k-- {
					p = append(p, fmt.Sprintf("%d:%d", nextID, r.Intn(ns)))
					nextID++
				}
				parts = append(parts, strings.Join(p, " "))
			}
			if racing && len(nonGauge) > 0 {
				for d := r.Range(1, 3); d > 0 && nextID < 58; d-- {
					p := []string{"c", strconv.Itoa(r.Intn(8))}
					for k := r.Range(1, 2); k > 0 && nextID < 59; k-- {
						p = append(p, fmt.Sprintf("%d:%d", nextID, hx.Pick(r, nonGauge)))
						nextID++
					}
					parts = append(parts, strings.Join(p, " "))
					st.Hit("dispatch:racing")
				}
			}
			items = append(items, strings.Join(parts, " | "))
		}
		line := strings.Join(items, " ; ")
		st.Case(line, multi)
		st.Hit(fmt.Sprintf("me:%d", me))
		st.Hit("mode:" + map[bool]string{true: "ticker", false: "manual"}[ticker])
		st.Hit(fmt.Sprintf("dyn:%d", len(dyn)))
		st.Hit(fmt.Sprintf("rounds:%d", rounds))
		fmt.Fprintln(hx.Out, line)
	}
	hx.Out.Flush()
	st.Write(hx.Arg(args, "--stats", ""))
}

// ------------------------------------------------------------------------------------ upstream

type bodyRec struct {
	first   int // arrival order of the first attempt
	ids     []int
	gids    []int
	series  map[int]bool
	hv      string
	att     []string
	success bool
	resend  bool
	round   int
	t0      time.Time // arrival of the first attempt
	tEnd    time.Time // end of the last attempt served
}

type upstream struct {
	tc       *tcase
	mu       sync.Mutex
	bodies   map[[32]byte]*bodyRec
	order    int
	nop      int
	junk     int
	idRound  map[int]int
	idRacing map[int]bool
	idSeries map[int]int
	byName   map[string]*series
	seen     map[int]bool
}

func okKind(k string) bool { return k == "200" || k == "202" || k == "d200" || k == "t200" }

func eqStrs(a, b []string) bool {
	if len(a) != len(b) {
		return false
	}
	for i := range a {
		if a[i] != b[i] {
			return false
		}
	}
	return true
}

// decode turns a message into datapoint ids; anything that was never dispatched counts as junk.
func (u *upstream) decode(msg *pb.RawMessageV2, b *bodyRec) {
	chk := func(name, tk, host string, tags []string, ty string) *series {
		s := u.byName[ty+"\x00"+name+"\x00"+tk]
		if s == nil || s.ty != ty || s.tkey != tk || s.src != host || !eqStrs(s.tags, tags) {
			u.junk++
			return nil
		}
		b.series[s.idx] = true
		return s
	}
	add := func(s *series, id int, gauge bool) {
		if ser, ok := u.idSeries[id]; !ok || ser != s.idx {
			u.junk++
			return
		}
		if gauge {
			b.gids = append(b.gids, id)
		} else {
			b.ids = append(b.ids, id)
		}
	}
	for name, tm := range msg.GetCounters() {
		for tk, c := range tm.GetTagMap() {
			if s := chk(name, tk, c.GetHostname(), c.GetTags(), "c"); s != nil {
				v := c.GetValue()
				if v <= 0 {
					u.junk++
					continue
				}
				for i := 0; i < 62; i++ {
					if v&(1<<uint(i)) != 0 {
						add(s, i, false)
					}
				}
			}
		}
	}
	for name, tm := range msg.GetTimers() {
		for tk, c := range tm.GetTagMap() {
			if s := chk(name, tk, c.GetHostname(), c.GetTags(), "t"); s != nil {
				if c.GetSampleCount() != float64(len(c.GetValues())) {
					u.junk++
				}
				for _, v := range c.GetValues() {
					if v != math.Trunc(v) || v < 0 || v > 100 {
						u.junk++
						continue
					}
					add(s, int(v), false)
				}
			}
		}
	}
	for name, tm := range msg.GetSets() {
		for tk, c := range tm.GetTagMap() {
			if s := chk(name, tk, c.GetHostname(), c.GetTags(), "s"); s != nil {
				for _, m := range c.GetValues() {
					id, err := strconv.Atoi(strings.TrimPrefix(m, "m"))
					if err != nil || !strings.HasPrefix(m, "m") {
						u.junk++
						continue
					}
					add(s, id, false)
				}
			}
		}
	}
	for name, tm := range msg.GetGauges() {
		for tk, c := range tm.GetTagMap() {
			if s := chk(name, tk, c.GetHostname(), c.GetTags(), "g"); s != nil {
				v := c.GetValue()
				if v != math.Trunc(v) || v < 0 || v > 100 {
					u.junk++
					continue
				}
				add(s, int(v), true)
			}
		}
	}
}

func (u *upstream) ServeHTTP(w http.ResponseWriter, req *http.Request) {
	w.Header().Set("Connection", "close")
	raw, err := io.ReadAll(req.Body)
	if err != nil {
		w.WriteHeader(500)
		return
	}
	plain := raw
	switch req.Header.Get("Content-Encoding") {
	case "deflate":
		plain, err = web.DecompressWithZlib(raw)
	case "lz4":
		plain, err = web.DecompressWithLz4(raw)
	}
	var msg pb.RawMessageV2
	if err == nil {
		err = proto.Unmarshal(plain, &msg)
	}
	if err != nil {
		u.mu.Lock()
		u.junk++
		u.mu.Unlock()
		w.WriteHeader(400)
		return
	}
	if len(msg.GetCounters())+len(msg.GetTimers())+len(msg.GetSets())+len(msg.GetGauges()) == 0 {
		u.mu.Lock()
		u.nop++
		u.mu.Unlock()
		w.WriteHeader(200)
		return
	}
	key := sha256.Sum256(raw)
	u.mu.Lock()
	b := u.bodies[key]
	if b == nil {
		b = &bodyRec{first: u.order, series: map[int]bool{}, t0: time.Now()}
		u.order++
		u.decode(&msg, b)
		// the dynamic header values this request carries
		hv := []string{}
		for _, h := range u.tc.dyn {
			if h == "" {
				continue
			}
			vs := req.Header.Values(strings.ReplaceAll(h, "_", "-"))
			if len(vs) == 0 {
				hv = append(hv, "-")
			} else {
				hv = append(hv, hx.S(vs[0]))
			}
		}
		b.hv = strings.Join(hv, ",")
		if len(hv) == 0 {
			b.hv = "none"
		}
		// the script is that of the round whose pre-flush datapoints the body carries (a body with racing datapoints
		// only: the round they raced with)
		b.round = 1 << 30
		for pass := 0; pass < 2 && b.round == 1<<30; pass++ {
			for _, id := range append(append([]int{}, b.ids...), b.gids...) {
				if rr, ok := u.idRound[id]; ok && rr < b.round && (pass == 1 || !u.idRacing[id]) {
					b.round = rr
				}
			}
		}
		u.bodies[key] = b
	}
	for _, id := range b.ids {
		u.seen[id] = true
	}
	for _, id := range b.gids {
		u.seen[id] = true
	}
	if b.success {
		b.resend = true
	}
	script := []string{"200"}
	if b.round < len(u.tc.rounds) && len(u.tc.rounds[b.round].script) > 0 {
		script = u.tc.rounds[b.round].script
	}
	a := len(b.att)
	if a >= len(script) {
		a = len(script) - 1
	}
	kind := script[a]
	b.att = append(b.att, kind)
	if okKind(kind) {
		b.success = true
	}
	u.mu.Unlock()
	defer func() {
		u.mu.Lock()
		b.tEnd = time.Now()
		u.mu.Unlock()
	}()
	switch kind {
	case "hij":
		if hj, ok := w.(http.Hijacker); ok {
			if conn, _, err := hj.Hijack(); err == nil {
				conn.Close()
				return
			}
		}
		w.WriteHeader(500)
	case "t200":
		// the status line and headers of a success arrive, the announced body does not
		w.Header().Set("Content-Length", "64")
		w.WriteHeader(200)
		_, _ = w.Write([]byte("short"))
		if f, ok := w.(http.Flusher); ok {
			f.Flush()
		}
		if hj, ok := w.(http.Hijacker); ok {
			if conn, _, err := hj.Hijack(); err == nil {
				conn.Close()
			}
		}
	case "d200", "d503":
		time.Sleep(30 * time.Millisecond)
		code, _ := strconv.Atoi(kind[1:])
		w.WriteHeader(code)
	default:
		code, _ := strconv.Atoi(kind)
		w.WriteHeader(code)
	}
}

// ------------------------------------------------------------------------------------ counters

type capStatser struct {
	stats.NullStatser
	ch   chan time.Duration
	mu   sync.Mutex
	vals map[string]uint64
	done chan struct{}
}

func (c *capStatser) RegisterFlush() (<-chan time.Duration, func()) { return c.ch, func() {} }
func (c *capStatser) Report(name string, v *uint64, _ gostatsd.Tags) {
	c.mu.Lock()
	c.vals[name] = atomic.LoadUint64(v)
	c.mu.Unlock()
}
func (c *capStatser) Count(name string, _ float64, _ gostatsd.Tags) {
	if name == "http.forwarder.post_latency.sum" {
		select {
		case c.done <- struct{}{}:
		default:
		}
	}
}
func (c *capStatser) WithTags(gostatsd.Tags) stats.Statser { return c }

// read asks the forwarder's metrics runner to report and returns the counters.
func (c *capStatser) read() (map[string]uint64, bool) {
	select {
	case <-c.done:
	default:
	}
	select {
	case c.ch <- 0:
	case <-time.After(10 * time.Second):
		return nil, false
	}
	select {
	case <-c.done:
	case <-time.After(10 * time.Second):
		return nil, false
	}
	c.mu.Lock()
	defer c.mu.Unlock()
	out := map[string]uint64{}
	for k, v := range c.vals {
		out[k] = v
	}
	return out, true
}

// ------------------------------------------------------------------------------------ run

func buildMap(tc *tcase, d dispatch) *gostatsd.MetricMap {
	mm := gostatsd.NewMetricMap(false)
	for _, p := range d.dps {
		id, s := p[0], tc.series[p[1]]
		if s == nil {
			continue
		}
		ts := gostatsd.Nanotime(id + 1)
		tags := append(gostatsd.Tags(nil), s.tags...)
		switch s.ty {
		case "c":
			if mm.Counters[s.name] == nil {
				mm.Counters[s.name] = map[string]gostatsd.Counter{}
			}
			c := mm.Counters[s.name][s.tkey]
			c.Value += int64(1) << uint(id)
			c.Timestamp, c.Source, c.Tags = ts, gostatsd.Source(s.src), tags
			mm.Counters[s.name][s.tkey] = c
		case "t":
			if mm.Timers[s.name] == nil {
				mm.Timers[s.name] = map[string]gostatsd.Timer{}
			}
			t := mm.Timers[s.name][s.tkey]
			t.Values = append(t.Values, float64(id))
			t.SampledCount++
			t.Timestamp, t.Source, t.Tags = ts, gostatsd.Source(s.src), tags
			mm.Timers[s.name][s.tkey] = t
		case "g":
			if mm.Gauges[s.name] == nil {
				mm.Gauges[s.name] = map[string]gostatsd.Gauge{}
			}
			g := mm.Gauges[s.name][s.tkey]
			if ts > g.Timestamp {
				g.Value, g.Timestamp = float64(id), ts
			}
			g.Source, g.Tags = gostatsd.Source(s.src), tags
			mm.Gauges[s.name][s.tkey] = g
		default:
			if mm.Sets[s.name] == nil {
				mm.Sets[s.name] = map[string]gostatsd.Set{}
			}
			x := mm.Sets[s.name][s.tkey]
			if x.Values == nil {
				x.Values = map[string]struct{}{}
			}
			x.Values[fmt.Sprintf("m%d", id)] = struct{}{}
			x.Timestamp, x.Source, x.Tags = ts, gostatsd.Source(s.src), tags
			mm.Sets[s.name][s.tkey] = x
		}
	}
	return mm
}

func collapse(xs []string) []string {
	out := []string{}
	for i, x := range xs {
		if i == 0 || xs[i-1] != x {
			out = append(out, x)
		}
	}
	return out
}

func idsStr(xs []int) string {
	if len(xs) == 0 {
		return "-"
	}
	xs = append([]int(nil), xs...)
	sort.Ints(xs)
	p := make([]string, len(xs))
	for i, x := range xs {
		p[i] = strconv.Itoa(x)
	}
	return strings.Join(p, ",")
}

func waitFor(d time.Duration, cond func() bool) bool {
	deadline := time.Now().Add(d)
	for {
		if cond() {
			return true
		}
		if time.Now().After(deadline) {
			return false
		}
		time.Sleep(300 * time.Microsecond)
	}
}

func verdict(ok bool, detail string) string {
	if ok {
		return "ok"
	}
	return "BAD:" + detail
}

func runCase(line string) string {
	tc, ok := parseCase(line)
	if !ok {
		return "BAD_CASE"
	}
	logger := logrus.New()
	logger.SetOutput(io.Discard)
	u := &upstream{tc: tc, bodies: map[[32]byte]*bodyRec{}, idRound: map[int]int{}, idRacing: map[int]bool{}, idSeries: map[int]int{},
		byName: map[string]*series{}, seen: map[int]bool{}}
	for _, s := range tc.series {
		if _, dup := u.byName[s.ty+"\x00"+s.name+"\x00"+s.tkey]; !dup {
			u.byName[s.ty+"\x00"+s.name+"\x00"+s.tkey] = s
		}
	}
	// what must arrive: every non-gauge datapoint; of the gauge datapoints of one round and series the newest
	expected := map[int]bool{}
	for ri, r := range tc.rounds {
		winners := map[int]int{}
		for _, d := range r.ds {
			for _, p := range d.dps {
				s := tc.series[p[1]]
				if s == nil {
					continue
				}
				u.idRound[p[0]], u.idRacing[p[0]], u.idSeries[p[0]] = ri, d.racing, s.idx
				if s.ty == "g" {
					if w, ok := winners[s.idx]; !ok || p[0] > w {
						winners[s.idx] = p[0]
					}
				} else {
					expected[p[0]] = true
				}
			}
		}
		for _, w := range winners {
			expected[w] = true
		}
	}
	srv := httptest.NewServer(u)
	defer srv.Close()

	compress, ctype := false, "zlib"
	switch (tc.slots + tc.disp + tc.cm) % 3 {
	case 1:
		compress, ctype = true, "zlib"
	case 2:
		compress, ctype = true, "lz4"
	}
	me := time.Duration(tc.me) * time.Millisecond
	if tc.me < 0 {
		me = -1
	}
	static := map[string]string{}
	for _, x := range tc.static {
		static[x] = "static"
	}
	var fc verifhooks.FlushCoordinator
	if tc.mode != "ticker" {
		fc = verifhooks.NewFlushCoordinator()
	}
	pool := transport.NewTransportPool(logger, viper.New())
	var h *statsd.HttpForwarderHandlerV2
	var err error
	if fc != nil {
		h, err = statsd.NewHttpForwarderHandlerV2(logger, "default", srv.URL, tc.slots, tc.mr, tc.cm, compress, ctype, 1, me, time.Second, static, tc.dyn, pool, fc)
	} else {
		h, err = statsd.NewHttpForwarderHandlerV2(logger, "default", srv.URL, tc.slots, tc.mr, tc.cm, compress, ctype, 1, me, time.Second, static, tc.dyn, pool, nil)
	}
	if err != nil {
		return "ERR " + err.Error()
	}
	if tc.me == 3000 {
		// a forwarder that has been running for longer than its retry window: the window of a request starts at
		// the request's first attempt, not at start-up
		time.Sleep(3100 * time.Millisecond)
	}
	cs := &capStatser{ch: make(chan time.Duration), vals: map[string]uint64{}, done: make(chan struct{}, 1)}
	mctx, mcancel := context.WithCancel(stats.NewContext(context.Background(), cs))
	defer mcancel()
	go h.RunMetricsContext(mctx)

	ctx, cancel := context.WithCancel(context.Background())
	defer cancel()
	var mock *clock.Mock
	if fc == nil {
		mock = clock.NewMock(time.Unix(1000, 0))
		ctx = clock.Context(ctx, mock)
	}
	runDone := make(chan struct{})
	go func() { h.Run(ctx); close(runDone) }()
	var notified int64
	if fc != nil {
		go func() { // someone has to consume the flush notifications
			for {
				fc.WaitForFlush()
				atomic.AddInt64(&notified, 1)
			}
		}()
	}
	// How many notifications the flushes of this case will produce (one per split map): asked of the real
	// MergeMaps / SplitByTags on a private copy of the dispatched maps.  Used for pacing only, never for the verdict.
	hasRacing := false
	splitNames := []string{}
	for _, n := range tc.dyn {
		if _, isStatic := static[n]; n != "" && !isStatic {
			splitNames = append(splitNames, n+":")
		}
	}
	expectNotify := int64(0)
	countSplit := func(maps []*gostatsd.MetricMap) int64 {
		return int64(len(gostatsd.MergeMaps(append(maps, gostatsd.NewMetricMap(false))).SplitByTags(splitNames)))
	}
	for _, r := range tc.rounds {
		maps := []*gostatsd.MetricMap{}
		for _, d := range r.ds {
			if d.racing {
				hasRacing = true
			} else {
				maps = append(maps, buildMap(tc, d))
			}
		}
		expectNotify += countSplit(maps)
	}
	expectNotify += countSplit(nil) // the final, empty flush
	if !waitFor(20*time.Second, func() bool { u.mu.Lock(); defer u.mu.Unlock(); return u.nop >= 1 }) {
		return "HANG no start-up post"
	}
	for _, r := range tc.rounds {
		// dispatches that return before the flush is triggered, on `disp` goroutines
		var wg sync.WaitGroup
		per := make([][]dispatch, tc.disp)
		for _, d := range r.ds {
			if !d.racing {
				per[d.worker%tc.disp] = append(per[d.worker%tc.disp], d)
			}
		}
		for _, mine := range per {
			if len(mine) == 0 {
				continue
			}
			wg.Add(1)
			go func(mine []dispatch) {
				defer wg.Done()
				for _, d := range mine {
					h.DispatchMetricMap(context.Background(), buildMap(tc, d))
				}
			}(mine)
		}
		wg.Wait()
		// dispatches racing with the flush
		var rw sync.WaitGroup
		start := make(chan struct{}) // racing dispatchers and the flush are released together
		for _, d := range r.ds {
			if d.racing {
				rw.Add(1)
				mm := buildMap(tc, d)
				go func() {
					defer rw.Done()
					<-start
					h.DispatchMetricMap(context.Background(), mm)
				}()
			}
		}
		if fc != nil {
			close(start)
			fc.Flush()
			rw.Wait()
		} else {
			close(start)
			rw.Wait()
			if !waitFor(20*time.Second, func() bool { return mock.Len() >= 1 }) {
				return "HANG no ticker"
			}
			before, _ := cs.read()
			mock.Add(time.Second)
			// the flush runs on the forwarder's goroutine: wait until this round's data has reached the upstream
			// (or the forwarder has reported the flush unserialisable)
			want := []int{}
			for _, d := range r.ds {
				for _, p := range d.dps {
					if expected[p[0]] {
						want = append(want, p[0])
					}
				}
			}
			ok := waitFor(30*time.Second, func() bool {
				u.mu.Lock()
				all := true
				for _, id := range want {
					if !u.seen[id] {
						all = false
					}
				}
				u.mu.Unlock()
				if all {
					return true
				}
				now, _ := cs.read()
				return now["http.forwarder.invalid"] > before["http.forwarder.invalid"]
			})
			if !ok {
				return "HANG the ticker flush never reached the upstream"
			}
		}
	}
	if fc != nil {
		fc.Flush() // whatever a racing dispatch left for "the next flush"
	}
	// quiescence (never a fixed sleep): every datapoint of a series the wire format can carry has reached the upstream at
	// least once, then every created message is resolved (sent or dropped).  If the forwarder reports unserialisable
	// messages the first condition cannot be decided from outside; then the counters must have settled.
	validSeries := func(s *series) bool {
		ok := utf8.ValidString(s.name) && utf8.ValidString(s.tkey) && utf8.ValidString(s.src)
		for _, t := range s.tags {
			ok = ok && utf8.ValidString(t)
		}
		return ok
	}
	mustArrive := []int{}
	for id := range expected {
		if validSeries(tc.series[u.idSeries[id]]) {
			mustArrive = append(mustArrive, id)
		}
	}
	// Once a body's first attempt has arrived its request token is held, and Run's shutdown waits for every token:
	// so "every datapoint has arrived once" is enough before cancelling.  If that never happens (lost data) the ledger
	// is still evaluated once the forwarder is idle: all created messages resolved and no counter movement for 1 s,
	// not earlier than 5 s after the last flush was triggered.
	var last map[string]uint64
	var stableSince time.Time
	waitStart := time.Now()
	quiet := waitFor(45*time.Second, func() bool {
		u.mu.Lock()
		all := true
		for _, id := range mustArrive {
			if !u.seen[id] {
				all = false
			}
		}
		u.mu.Unlock()
		if fc != nil && !hasRacing {
			// manual flushes without racing dispatches: every split map of every flush notifies the coordinator when it is
			// done (sent, dropped, invalid or empty) - exact, also when some data can never arrive (D8)
			if atomic.LoadInt64(&notified) >= expectNotify {
				return true
			}
		} else if all {
			return true
		}
		now, ok := cs.read()
		if !ok {
			return false
		}
		if last == nil || fmt.Sprint(now) != fmt.Sprint(last) {
			stableSince = time.Now()
		}
		last = now
		resolved := now["http.forwarder.created"] == now["http.forwarder.sent"]+now["http.forwarder.dropped"]
		idle := resolved && time.Since(stableSince) > time.Second
		if idle && time.Since(waitStart) > 5*time.Second {
			return true
		}
		time.Sleep(2 * time.Millisecond)
		return false
	})
	if !quiet {
		return "HANG the forwarder did not become quiescent"
	}
	cancel()
	select {
	case <-runDone:
	case <-time.After(45 * time.Second):
		return "HANG Run did not return"
	}
	ctr, ok := cs.read()
	if !ok {
		return "HANG counters"
	}

	// ---------------------------------------------------------------- the ledger
	u.mu.Lock()
	defer u.mu.Unlock()
	bodies := []*bodyRec{}
	for _, b := range u.bodies {
		bodies = append(bodies, b)
	}
	count := map[int]int{}
	resend := false
	attempts, successes := 0, 0
	seriesHv := map[int]map[string]bool{}
	for _, b := range bodies {
		for _, id := range b.ids {
			count[id]++
		}
		for _, id := range b.gids {
			count[id]++
		}
		if b.resend {
			resend = true
		}
		attempts += len(b.att)
		if b.success {
			successes++
		}
		for s := range b.series {
			if seriesHv[s] == nil {
				seriesHv[s] = map[string]bool{}
			}
			seriesHv[s][b.hv] = true
		}
	}
	lost, dup := []int{}, []int{}
	for id := range expected {
		if count[id] == 0 {
			lost = append(lost, id)
		}
	}
	for id, n := range count {
		if n > 1 {
			dup = append(dup, id)
		}
	}
	// bodies carrying pre-flush datapoints
	type bl struct {
		min  int
		text string
	}
	lines := []bl{}
	raceN := 0
	onceBad, placeBad, attBad := []int{}, []int{}, false
	for id, rc := range u.idRacing {
		if rc {
			raceN++
			if count[id] != 1 {
				onceBad = append(onceBad, id)
			}
		}
	}
	for _, b := range bodies {
		pre, g := []int{}, []int{}
		preRounds := map[int]bool{}
		for _, id := range b.ids {
			if !u.idRacing[id] {
				pre = append(pre, id)
				preRounds[u.idRound[id]] = true
			}
		}
		for _, id := range b.gids {
			g = append(g, id)
			preRounds[u.idRound[id]] = true
		}
		for _, id := range b.ids {
			if u.idRacing[id] {
				for pr := range preRounds {
					if pr != u.idRound[id] && pr != u.idRound[id]+1 {
						placeBad = append(placeBad, id)
					}
				}
			}
		}
		last := b.att[len(b.att)-1]
		fin := "gaveup"
		if okKind(last) {
			fin = "sent"
		}
		legal := true
		for i, k := range b.att {
			if okKind(k) && i != len(b.att)-1 {
				legal = false
			}
		}
		if tc.me < 0 && len(b.att) != 1 {
			legal = false
		}
		// abandoned although the retry window (5 s cases only) cannot have been exhausted: less than half of it has passed between the
		// arrival of the first attempt and the end of the last one (the client's own measure can only be larger)
		early := "na"
		if fin == "gaveup" && tc.me >= 5000 { // only where half the window (2.5 s) dwarfs any scheduling stall
			early = verdict(b.tEnd.Sub(b.t0) >= time.Duration(tc.me)*time.Millisecond/2, fmt.Sprintf("%dms", b.tEnd.Sub(b.t0).Milliseconds()))
		}
		if len(pre)+len(g) == 0 {
			if !legal || strings.HasPrefix(early, "BAD") {
				attBad = true
			}
			continue
		}
		one := "na"
		if tc.me < 0 {
			one = verdict(len(b.att) == 1, strconv.Itoa(len(b.att)))
		}
		all := append(append([]int{}, pre...), g...)
		sort.Ints(all)
		lines = append(lines, bl{min: all[0], text: fmt.Sprintf("B hv=%s pre=%s g=%s att=%s fin=%s one=%s early=%s", b.hv, idsStr(pre), idsStr(g),
			strings.Join(collapse(b.att), ","), fin, one, early)})
	}
	sort.Slice(lines, func(i, j int) bool { return lines[i].min < lines[j].min })
	hdrBad := []int{}
	for s, hvs := range seriesHv {
		if len(hvs) > 1 {
			hdrBad = append(hdrBad, s)
		}
	}
	bs := "-"
	if len(lines) > 0 {
		p := make([]string, len(lines))
		for i, l := range lines {
			p[i] = l.text
		}
		bs = strings.Join(p, " ; ")
	}
	nb := uint64(len(bodies))
	nop := uint64(u.nop)
	cv := func(name string, want uint64) string {
		got := ctr["http.forwarder."+name]
		return verdict(got == want, fmt.Sprintf("%d/%d", got, want))
	}
	return fmt.Sprintf("nop=%d | %s | race n=%d once=%s place=%s hdr=%s att=%s | ctr created=%s sent=%s dropped=%s retried=%s invalid=%d | lost=%s dup=%s junk=%d resend=%s",
		u.nop, bs, raceN, verdict(len(onceBad) == 0, idsStr(onceBad)), verdict(len(placeBad) == 0, idsStr(placeBad)),
		verdict(len(hdrBad) == 0, idsStr(hdrBad)), verdict(!attBad, "racing-body"),
		cv("created", nb+nop), cv("sent", uint64(successes)+nop), cv("dropped", nb-uint64(successes)), cv("retried", uint64(attempts)-nb),
		ctr["http.forwarder.invalid"], idsStr(lost), idsStr(dup), u.junk, verdict(!resend, "after-success"))
}

// tripped is closed when a case of this run hangs: a wedged forwarder (e.g. a deadlocked Flush) would make every later
// case wait for its whole deadline as well, so the first hang is reported and the rest of the run is marked SKIPPED.
var tripped = make(chan struct{})
var tripOnce sync.Once

func runOne(line string) string {
	select {
	case <-tripped:
		return "SKIPPED after a hang earlier in this run"
	default:
	}
	done := make(chan string, 1)
	go func() {
		defer func() {
			if e := recover(); e != nil {
				done <- fmt.Sprintf("PANIC %v", e)
			}
		}()
		done <- runCase(line)
	}()
	select {
	case s := <-done:
		if strings.HasPrefix(s, "HANG") {
			tripOnce.Do(func() { close(tripped) })
		}
		return s
	case <-tripped:
		return "SKIPPED after a hang earlier in this run"
	case <-time.After(60 * time.Second):
		tripOnce.Do(func() { close(tripped) })
		return "HANG case"
	}
}

var _ = bytes.NewReader

func main() {
	if len(os.Args) < 2 {
		fmt.Fprintln(os.Stderr, "usage: c15 gen|run")
		os.Exit(2)
	}
	switch os.Args[1] {
	case "gen":
		gen(os.Args[2:])
	case "run":
		lines := []string{}
		hx.Lines(func(l string) { lines = append(lines, l) })
		out := make([]string, len(lines))
		sem := make(chan struct{}, 12)
		var wg sync.WaitGroup
		for i, l := range lines {
			wg.Add(1)
			sem <- struct{}{}
			go func(i int, l string) {
				defer wg.Done()
				out[i] = runOne(l)
				<-sem
			}(i, l)
		}
		wg.Wait()
		for _, o := range out {
			fmt.Fprintln(hx.Out, o)
		}
		hx.Out.Flush()
	default:
		os.Exit(2)
	}
}
