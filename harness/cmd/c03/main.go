//go:build verif

// c03: correspondence harness for C03 (no network input can crash ingestion).
//
//	c03 gen [--n N] [--tier quick|thorough] [--stats file]
//	c03 run
//
// Three kinds of case (first token):
//
//	L <lexer case>                                   one line through the real lexer under recover
//	D xNS IGNOREHOST EXTRACAP [xQUERY ANSWER]* xDATAGRAM   one datagram through the real statsd.DatagramParser
//	H PATH xCONTENT-ENCODING READ Z L I xBODY          one request through the real pkg/web ingestion router
//	   READ: 1 body readable, 0 the body reader fails;  Z / L: 0 decompression fails, 1 it succeeds but
//	   proto.Unmarshal of its output fails, 2 both succeed;  I: proto.Unmarshal of the raw body (0/1).
//	   These columns are the real libraries' answers (the model's parameters).
package main

import (
	"bytes"
	"compress/zlib"
	"errors"
	"fmt"
	"github.com/pierrec/lz4/v4"
	"io"
	"net/http"
	"net/http/httptest"
	"os"
	"strconv"
	"strings"

	"github.com/sirupsen/logrus"
	"google.golang.org/protobuf/proto"

	"github.com/atlassian/gostatsd"
	"github.com/atlassian/gostatsd/pb"
	"github.com/atlassian/gostatsd/pkg/web"

	"verifharness/internal/dgrun"
	"verifharness/internal/hx"
	"verifharness/internal/lexcase"
)

// ---------------------------------------------------------------------------------- generators

var bigLens = []string{
	"2147483647", "2147483648", "2147483649", "4294967290", "4294967291", "4294967294", "4294967295", "4294967296", "4294967297",
	"4294967195", "4294967196", "8589934592", "9223372036854775807", "9223372036854775808", "18446744073709551610", "18446744073709551615",
	"18446744073709551616", "18446744073709551621", "99999999999999999999", "100000000000000000000", "0", "1", "5", "00000000000000000000005",
}

func smallOrBig(r *hx.Rng, small int) string {
	switch r.Intn(4) {
	case 0:
		return strconv.Itoa(small)
	case 1:
		// 2^32 - k for small k, so that sums with the other length wrap to small numbers
		return strconv.FormatUint(uint64(1<<32)-uint64(r.Range(0, 40)), 10)
	case 2:
		return strconv.FormatUint((uint64(1)<<63)*uint64(r.Intn(2))*2-uint64(r.Range(0, 40)), 10)
	default:
		return hx.Pick(r, bigLens)
	}
}

// adversarial event header around a body of known shape
func genEventHeader(r *hx.Rng) []byte {
	title := strings.Repeat("t", r.Intn(8))
	text := strings.Repeat("x", r.Intn(8))
	tl := smallOrBig(r, len(title))
	xl := smallOrBig(r, len(text))
	if r.Chance(1, 3) {
		// make the 32-bit sum titleLen+1+textLen wrap exactly onto a small value
		k := r.Intn(12)
		xl = strconv.FormatUint(uint64(1<<32)-uint64(len(title))-1+uint64(k), 10)
		tl = strconv.Itoa(len(title))
	}
	sep := "|"
	if r.Chance(1, 6) {
		sep = ""
	}
	s := "_e{" + tl + "," + xl + "}:" + title + sep + text
	if r.Chance(1, 3) {
		s += hx.Pick(r, []string{"|d:1", "|#a,b", "|p:low", "|", "|h:x|zz", "|d:99999999999999999999"})
	}
	return []byte(s)
}

var validLines = []string{"t:1|c|#host", "t:1|c|#env:prod,host", "t:1|c|#host:", "t:1|g|#:", "t:1|c|#host:a:b", "t:1|ms|#,", "u:1|g|#hostx", "t:1|c|#h,host,host:x",
	"a:1|c", "b.c:2.5|ms|@0.5", "g:3|g|#x,y:z", "s:u1|s", "h:4|h|#t", "_e{1,1}:a|b", "_e{2,3}:ab|x\\n|p:low|#q", "a/b c:1|c|@0.1|#k:v", "$$x:5|c"}

func sprinkleNul(r *hx.Rng, b []byte) []byte {
	out := append([]byte{}, b...)
	for n := r.Range(1, 3); n > 0; n-- {
		i := r.Intn(len(out) + 1)
		out = append(out[:i:i], append([]byte{0}, out[i:]...)...)
	}
	return out
}

func randBytes(r *hx.Rng, n int) []byte {
	b := make([]byte, n)
	sep := []byte(":|@#,_e{}0159\x00\n")
	for i := range b {
		switch r.Intn(3) {
		case 0:
			b[i] = byte(r.Intn(256))
		default:
			b[i] = hx.Pick(r, sep)
		}
	}
	return b
}

func longLine(r *hx.Rng) []byte {
	n := 65535
	if r.Chance(1, 2) {
		n = r.Range(30000, 65535)
	}
	switch r.Intn(5) {
	case 0: // long name full of deleted characters
		return append(bytes.Repeat([]byte("$a"), (n-4)/2), []byte(":1|c")...)
	case 1: // long tag list
		return append([]byte("a:1|c|#"), bytes.Repeat([]byte("t,"), (n-7)/2)...)
	case 2: // long event text with escapes
		body := bytes.Repeat([]byte("\\n"), (n-20)/2)
		return append([]byte("_e{1,"+strconv.Itoa(len(body))+"}:t|"), body...)
	case 3: // long run of digits in a header
		return append([]byte("_e{"), append(bytes.Repeat([]byte("9"), n-10), []byte(",1}:a|b")...)...)
	default:
		return bytes.Repeat([]byte("|@"), n/2)
	}
}

func noNewline(b []byte) []byte { return bytes.ReplaceAll(b, []byte{'\n'}, []byte{'n'}) }

// special lines: an underscore followed by a few characters of the Datadog special-type alphabet (events `_e`,
// service checks `_sc`, …) and the tail of an ordinary line
func genSpecial(r *hx.Rng) []byte {
	alpha := "secxSCE{}:|0_"
	b := []byte{'_'}
	if r.Bool() {
		b = []byte(hx.Pick(r, []string{"_sc", "_e", "_s", "_c", "_ev", "_E", "_sce", "__", "_"}))
	}
	for n := r.Range(0, 3); n > 0 && len(b) == 1; n-- {
		b = append(b, alpha[r.Intn(len(alpha))])
	}
	tails := []string{"", "|name|0", "{1,1}:a|b", ":1|c", "|a|0|#t:1", "{2,3}:ab|xyz|p:low"}
	return append(b, hx.Pick(r, tails)...)
}

// genDegenerate builds `name:value|type[|@rate][|#tags]` with every field drawn from the shortest texts a
// hand-written fast path could trip over: empty, a lone sign, a lone dot, a lone exponent mark
func genDegenerate(r *hx.Rng) []byte {
	short := []string{"-", "+", ".", "e", "-.", "+.", "+e", "-e1", "1e", "--", "+-1", "", "0x", "-0", "1", "0", "-1", "1.", ".5", "E5", "_", "1_", "nan", "-inf"}
	s := hx.Pick(r, []string{"a", "a", "", "$", "a.b"}) + ":" + hx.Pick(r, short) + "|" + hx.Pick(r, []string{"c", "g", "ms", "s", "h", "", "m"})
	if r.Bool() {
		s += "|@" + hx.Pick(r, short)
	}
	if r.Bool() {
		s += "|#" + hx.Pick(r, []string{"", ",", "host", "host:", "a", "a,,b"})
	}
	return []byte(s)
}

func genLine(r *hx.Rng) ([]byte, string) {
	if r.Chance(1, 12) {
		return genSpecial(r), "special-prefix"
	}
	if r.Chance(1, 8) {
		return genDegenerate(r), "degenerate-fields"
	}
	switch k := r.Intn(20); {
	case k < 7:
		return genEventHeader(r), "event-header"
	case k < 11:
		return sprinkleNul(r, []byte(hx.Pick(r, validLines))), "nul"
	case k < 13:
		return sprinkleNul(r, genEventHeader(r)), "nul-event"
	case k < 17:
		return noNewline(randBytes(r, r.Intn(40))), "random"
	default:
		return []byte(hx.Pick(r, validLines)), "valid"
	}
}

func lcase(r *hx.Rng, line []byte) string {
	capacity := -1
	if r.Chance(1, 3) {
		capacity = len(line) + r.Range(1, 100)
	}
	ns := hx.Pick(r, []string{"", "", "ns"})
	return "L " + lexcase.Case(ns, capacity, line)
}

func dcase(ns string, ignoreHost bool, extra int, dg []byte) string {
	toks := []string{"D", hx.S(ns), "0", strconv.Itoa(extra)}
	if ignoreHost {
		toks[2] = "1"
	}
	toks = append(toks, lexcase.OracleTokens(bytes.Split(dg, []byte{'\n'})...)...)
	toks = append(toks, hx.B(dg))
	return strings.Join(toks, " ")
}

func genDatagram(r *hx.Rng) []byte {
	var parts [][]byte
	for n := r.Range(1, 6); n > 0; n-- {
		l, _ := genLine(r)
		parts = append(parts, noNewline(l))
	}
	dg := bytes.Join(parts, []byte{'\n'})
	if r.Chance(1, 2) {
		dg = append(dg, '\n')
	}
	return dg
}

// ---- HTTP

func validMetricBody(r *hx.Rng) []byte {
	msg := &pb.RawMessageV2{
		Gauges:   map[string]*pb.GaugeTagV2{"g": {TagMap: map[string]*pb.RawGaugeV2{"": {Value: 1.5, Hostname: "h"}}}},
		Counters: map[string]*pb.CounterTagV2{"c": {TagMap: map[string]*pb.RawCounterV2{"t": {Value: int64(r.Intn(100)), Tags: []string{"t"}}}}},
	}
	if r.Chance(1, 3) {
		msg.Timers = map[string]*pb.TimerTagV2{"t": {TagMap: map[string]*pb.RawTimerV2{"": nil}}} // nil sub-message
	}
	if r.Chance(1, 3) {
		msg.Sets = map[string]*pb.SetTagV2{"s": {TagMap: map[string]*pb.RawSetV2{"": {Values: []string{"a", "b"}}}}}
	}
	if r.Chance(1, 4) {
		// degenerate but valid sub-messages: a set without members, a timer without values, empty tag maps
		msg.Sets = map[string]*pb.SetTagV2{"s0": {TagMap: map[string]*pb.RawSetV2{"": {}, "t": {Values: []string{}, Tags: []string{"t"}}}}, "s1": {}}
		msg.Timers = map[string]*pb.TimerTagV2{"t0": {TagMap: map[string]*pb.RawTimerV2{"": {}}}, "t1": {TagMap: map[string]*pb.RawTimerV2{}}}
	}
	b, err := proto.Marshal(msg)
	if err != nil {
		panic(err)
	}
	return b
}

func validEventBody(r *hx.Rng) []byte {
	b, err := proto.Marshal(&pb.EventV2{Title: "t", Text: "x", Priority: pb.EventV2_Low, Type: pb.EventV2_AlertType(r.Intn(6)), Tags: []string{"a"}})
	if err != nil {
		panic(err)
	}
	return b
}

func compress(enc string, b []byte) []byte {
	var out bytes.Buffer
	switch enc {
	case "deflate":
		if err := web.CompressWithZlib(b, &out, 6); err != nil {
			panic(err)
		}
	case "lz4":
		if err := web.CompressWithLz4(b, &out, 1); err != nil {
			panic(err)
		}
	default:
		return b
	}
	return out.Bytes()
}

var encodings = []string{"", "identity", "deflate", "lz4", "x-unknown", strings.Repeat("junk/encoding;", 8),
	// unknown encodings around the 64-byte mark of the handler's log truncation, in bytes and in characters
	strings.Repeat("a", 63), strings.Repeat("a", 64), strings.Repeat("a", 65), strings.Repeat("é", 40), "gzip-" + strings.Repeat("é", 30),
	strings.Repeat("€", 22), strings.Repeat("é", 70), strings.Repeat("\xff", 70), strings.Repeat("a", 63) + "é"}

func unmarshalOK(path string, b []byte) bool {
	if path == "e" {
		var m pb.EventV2
		return proto.Unmarshal(b, &m) == nil
	}
	var m pb.RawMessageV2
	return proto.Unmarshal(b, &m) == nil
}

// The oracle asks the libraries themselves (never the repository's wrappers in pkg/web/compression.go,
// which are code under test).
func libZlib(b []byte) (out []byte, err error) {
	defer func() {
		if e := recover(); e != nil {
			out, err = nil, fmt.Errorf("panic: %v", e)
		}
	}()
	zr, err := zlib.NewReader(bytes.NewReader(b))
	if err != nil {
		return nil, err
	}
	defer zr.Close()
	return io.ReadAll(zr)
}

func libLz4(b []byte) (out []byte, err error) {
	defer func() {
		if e := recover(); e != nil {
			out, err = nil, fmt.Errorf("panic: %v", e)
		}
	}()
	return io.ReadAll(lz4.NewReader(bytes.NewReader(b)))
}

func libAnswers(path string, body []byte) (z, l, i int) {
	if d, err := libZlib(body); err == nil {
		z = 1
		if unmarshalOK(path, d) {
			z = 2
		}
	}
	if d, err := libLz4(body); err == nil {
		l = 1
		if unmarshalOK(path, d) {
			l = 2
		}
	}
	if unmarshalOK(path, body) {
		i = 1
	}
	return
}

func hcase(path, enc string, readOK bool, body []byte) string {
	z, l, i := libAnswers(path, body)
	rd := "1"
	if !readOK {
		rd = "0"
	}
	return strings.Join([]string{"H", path, hx.S(enc), rd, strconv.Itoa(z), strconv.Itoa(l), strconv.Itoa(i), hx.B(body)}, " ")
}

func genHTTP(r *hx.Rng) (string, string) {
	path := hx.Pick(r, []string{"r", "e"})
	var plain []byte
	if path == "r" {
		plain = validMetricBody(r)
	} else {
		plain = validEventBody(r)
	}
	bodyEnc := hx.Pick(r, []string{"", "deflate", "lz4"}) // how the body really is encoded
	body := compress(bodyEnc, plain)
	if bodyEnc == "lz4" && r.Chance(1, 2) {
		// frames written by the library itself with header options the forwarder never uses: a declared
		// content size (honest, off by one, absurdly large), content checksum on/off, other block sizes
		var out bytes.Buffer
		w := lz4.NewWriter(&out)
		opts := []lz4.Option{lz4.ChecksumOption(r.Bool())}
		switch r.Intn(5) {
		case 0:
			opts = append(opts, lz4.SizeOption(uint64(len(plain))))
		case 1:
			opts = append(opts, lz4.SizeOption(uint64(len(plain))+1))
		case 2:
			opts = append(opts, lz4.SizeOption(1<<62))
		case 3:
			opts = append(opts, lz4.SizeOption(1<<63-1))
		}
		if r.Bool() {
			opts = append(opts, lz4.BlockSizeOption(hx.Pick(r, []lz4.BlockSize{lz4.Block64Kb, lz4.Block256Kb, lz4.Block1Mb})))
		}
		if err := w.Apply(opts...); err == nil {
			_, _ = w.Write(plain)
			_ = w.Close()
			body = out.Bytes()
		}
	}
	kind := "valid"
	switch r.Intn(5) {
	case 0:
		if len(body) > 0 {
			body = body[:r.Intn(len(body))]
		}
		kind = "truncated"
	case 1:
		if len(body) > 0 {
			body = append([]byte{}, body...)
			for n := r.Range(1, 3); n > 0; n-- {
				body[r.Intn(len(body))] ^= 1 << uint(r.Intn(8))
			}
		}
		kind = "bitflip"
	case 2:
		body = randBytes(r, r.Intn(64))
		kind = "random"
	}
	hdr := bodyEnc // header matches the body ...
	if r.Chance(1, 2) {
		hdr = hx.Pick(r, encodings) // ... or not
	}
	readOK := !r.Chance(1, 20)
	return hcase(path, hdr, readOK, body), "http-" + kind + "-" + map[bool]string{true: "matching", false: "mismatched"}[hdr == bodyEnc]
}

func gen(args []string) {
	r := hx.NewRng(hx.Seed()).Fork()
	n := hx.ArgInt(args, "--n", 6000)
	thorough := hx.Arg(args, "--tier", "quick") == "thorough"
	st := hx.NewStats("lexer lines (adversarial event headers with declared lengths around 2^31, 2^32-k, 2^63, 2^64-k and 20-digit numbers, NUL bytes everywhere, random bytes, lines of up to 65535 bytes), datagrams of 1-6 such lines through the real DatagramParser, and HTTP requests (valid / truncated / bit-flipped / random bodies x Content-Encoding absent, identity, deflate, lz4, unknown, junk; failing body reader) through the real ingestion router; non-trivial = the line reaches lexEventBody or contains NUL or is longer than 30000 bytes (L), the datagram has >= 2 lines (D), the body is not a plain valid one (H); distinct by case text")
	emit := func(c string, stream string, nontrivial bool) {
		st.Case(c, nontrivial)
		st.Hit("stream:" + stream)
		fmt.Fprintln(hx.Out, c)
	}
	nLong := 6
	if thorough {
		nLong = 60
	}
	for i := 0; i < nLong; i++ {
		l := noNewline(longLine(r))
		emit(lcase(r, l), "long-line", true)
		if i%3 == 0 {
			emit(dcase("", false, 0, append(append([]byte("a:1|c\n"), l[:len(l)-10]...), '\n')), "long-datagram", true)
		}
	}
	// bodies that inflate to tens of MiB (a few series with names of 2 MiB each: small on the wire, highly compressible):
	// whatever the endpoint does about large bodies, a body the libraries can read is answered, and accepted
	{
		big := &pb.RawMessageV2{Counters: map[string]*pb.CounterTagV2{}}
		for j := 0; j < 24; j++ {
			big.Counters[strings.Repeat("a", 2<<20)+strconv.Itoa(j)] = &pb.CounterTagV2{TagMap: map[string]*pb.RawCounterV2{"": {Value: 1}}}
		}
		plain, _ := proto.Marshal(big)
		for _, enc := range []string{"deflate", "lz4"} {
			emit(hcase("r", enc, true, compress(enc, plain)), "http-large-body", true)
		}
	}
	// one parser that meets thousands of distinct tags, names and sources in one datagram (whatever the code keeps per
	// distinct string - caches, interning tables, pools - is driven past a few thousand entries)
	{
		var dg []byte
		for j := 0; j < 4600+r.Intn(400); j++ {
			dg = append(dg, fmt.Sprintf("m%d:1|c|#id:%d,host:h%d\n", j%7, j, j)...)
		}
		dg = append(dg, "_e{1,1}:t|x|#ev:1,ev:2\n"...)
		emit(dcase("", false, 0, dg), "many-distinct-tags", true)
	}
	for i := 0; i < n; i++ {
		switch k := r.Intn(10); {
		case k < 6:
			l, kind := genLine(r)
			out, _ := lexcase.Lex("", -1, l)
			st.Hit("L-outcome:" + strings.SplitN(out, " ", 3)[0] + map[bool]string{true: " " + strings.TrimPrefix(out, "R "), false: ""}[strings.HasPrefix(out, "R ")])
			emit(lcase(r, l), kind, kind != "valid" && kind != "random")
		case k < 8:
			dg := genDatagram(r)
			emit(dcase(hx.Pick(r, []string{"", "ns"}), r.Bool(), r.Intn(3)*100, dg), "datagram", bytes.Count(dg, []byte{'\n'}) >= 1)
		default:
			c, kind := genHTTP(r)
			emit(c, kind, !strings.HasPrefix(kind, "http-valid-matching"))
		}
	}
	hx.Out.Flush()
	st.Write(hx.Arg(args, "--stats", ""))
}

// ---------------------------------------------------------------------------------- run

func runL(rest string) string {
	ns, capacity, line, err := lexcase.Parse(rest)
	if err != nil {
		return "BAD_CASE"
	}
	toks := hx.Tokens(rest)
	if bad := lexcase.CheckOracle(toks[2:len(toks)-1], line); bad != "" {
		return bad
	}
	out, msg := lexcase.Lex(ns, capacity, line)
	if msg != "" {
		fmt.Fprintf(os.Stderr, "lexer panic on %s: %s\n", hx.B(line), msg)
	}
	return out
}

func runD(toks []string) string {
	if len(toks) < 4 {
		return "BAD_CASE"
	}
	ns, err := hx.UnS(toks[0])
	if err != nil {
		return "BAD_CASE"
	}
	extra, _ := strconv.Atoi(toks[2])
	dgs, err := hx.UnS(toks[len(toks)-1])
	if err != nil {
		return "BAD_CASE"
	}
	dg := []byte(dgs)
	have := map[string]bool{}
	mid := toks[3 : len(toks)-1]
	for i := 0; i+1 < len(mid); i += 2 {
		q := hx.MustUnS(mid[i])
		if lexcase.Answer([]byte(q)) != mid[i+1] {
			return "ORACLE_INCONSISTENT " + mid[i]
		}
		have[q] = true
	}
	for _, line := range bytes.Split(dg, []byte{'\n'}) {
		for _, q := range lexcase.Candidates(line) {
			if !have[string(q)] {
				return "ORACLE_MISS"
			}
		}
	}
	buf := lexcase.Buffer(dg, len(dg)+extra)
	res := dgrun.Run(ns, toks[1] == "1", []dgrun.Dg{{IP: "10.0.0.1", Ts: 1000, Msg: buf}}, nil)
	if res.Panic != "" {
		fmt.Fprintf(os.Stderr, "DatagramParser panic on %s: %s\n", hx.B(dg), res.Panic)
		return "PANIC"
	}
	if res.Hang {
		return "HANG"
	}
	if len(dg) <= 65000 {
		if p := viaReceiver(ns, toks[1] == "1", dg, int(res.EventsReceived)); p != "" {
			fmt.Fprintf(os.Stderr, "through the receiver, %s: %s\n", hx.B(dg), p)
			return "PANIC receiver-path " + p
		}
	}
	return fmt.Sprintf("OK metrics=%d events=%d bad=%d", res.MetricsReceived, res.EventsReceived, res.BadLines)
}

type failingReader struct{ n int }

func (f *failingReader) Read(p []byte) (int, error) {
	if f.n > 0 && len(p) > 0 {
		p[0] = 'x'
		f.n--
		return 1, nil
	}
	return 0, errors.New("verif: body reader failure")
}

func quiet() *logrus.Logger {
	l := logrus.New()
	l.Out = io.Discard
	return l
}

func runH(toks []string) (out string) {
	if len(toks) != 7 {
		return "BAD_CASE"
	}
	defer func() {
		if e := recover(); e != nil {
			fmt.Fprintf(os.Stderr, "http handler panic: %v\n", e)
			out = "PANIC"
		}
	}()
	enc, err := hx.UnS(toks[1])
	if err != nil {
		return "BAD_CASE"
	}
	bodyS, err := hx.UnS(toks[6])
	if err != nil {
		return "BAD_CASE"
	}
	body := []byte(bodyS)
	z, l, i := libAnswers(toks[0], body)
	if strconv.Itoa(z) != toks[3] || strconv.Itoa(l) != toks[4] || strconv.Itoa(i) != toks[5] {
		return "ORACLE_MISS" // the body was edited (shrinking): the library columns are stale
	}
	capt := &dgrun.Capture{}
	hs, err := web.NewHttpServer(quiet(), capt, "verif", "", false, false, true, false, nil, nil)
	if err != nil {
		return "SETUP_ERROR " + err.Error()
	}
	path := "/v2/raw"
	if toks[0] == "e" {
		path = "/v2/event"
	}
	var rd io.Reader = bytes.NewReader(body)
	if toks[2] == "0" {
		rd = &failingReader{n: 3}
	}
	req := httptest.NewRequest(http.MethodPost, path, rd)
	if enc != "" {
		req.Header.Set("Content-Encoding", enc)
	}
	rec := httptest.NewRecorder()
	hs.Router.ServeHTTP(rec, req)
	dispatched := len(capt.Maps) + len(capt.Events)
	// what the endpoint hands to the pipeline is merged with later data by goroutines nothing recovers (consolidator,
	// aggregator workers): every series of a dispatched map must take one more datapoint without panicking
	for _, mm := range capt.Maps {
		ts := gostatsd.Nanotime(1)
		mm.Counters.Each(func(n, tk string, c gostatsd.Counter) {
			mm.MergeCounter(n, tk, gostatsd.Counter{Value: 1, Timestamp: ts})
		})
		mm.Gauges.Each(func(n, tk string, g gostatsd.Gauge) { mm.MergeGauge(n, tk, gostatsd.Gauge{Value: 1, Timestamp: ts}) })
		mm.Timers.Each(func(n, tk string, t gostatsd.Timer) {
			mm.MergeTimer(n, tk, gostatsd.Timer{Values: []float64{1}, SampledCount: 1, Timestamp: ts})
		})
		mm.Sets.Each(func(n, tk string, st gostatsd.Set) {
			mm.MergeSet(n, tk, gostatsd.Set{Values: map[string]struct{}{"probe": {}}, Timestamp: ts})
		})
	}
	return fmt.Sprintf("S %d dispatched=%d", rec.Code, dispatched)
}

func runOne(c string) (out string) {
	defer func() {
		if e := recover(); e != nil {
			fmt.Fprintf(os.Stderr, "harness-level panic: %v\n", e)
			out = "PANIC"
		}
	}()
	switch {
	case strings.HasPrefix(c, "L "):
		return runL(c[2:])
	case strings.HasPrefix(c, "D "):
		return runD(hx.Tokens(c[2:]))
	case strings.HasPrefix(c, "H "):
		return runH(hx.Tokens(c[2:]))
	}
	return "BAD_CASE"
}

func main() {
	if len(os.Args) < 2 {
		fmt.Fprintln(os.Stderr, "usage: c03 gen|run")
		os.Exit(2)
	}
	switch os.Args[1] {
	case "gen":
		gen(os.Args[2:])
	case "run":
		hx.Lines(func(line string) {
			fmt.Fprintln(hx.Out, runOne(line))
			hx.Out.Flush()
		})
		hx.Out.Flush()
	case "mkl": // c03 mkl NS "go-quoted line" ...
		for _, q := range os.Args[3:] {
			s, err := strconv.Unquote(`"` + q + `"`)
			if err != nil {
				fmt.Fprintln(os.Stderr, "bad quoted string", q, err)
				os.Exit(2)
			}
			fmt.Println("L " + lexcase.Case(os.Args[2], -1, []byte(s)))
		}
	case "mkd": // c03 mkd NS IGNOREHOST "go-quoted datagram" ...
		for _, q := range os.Args[4:] {
			s, err := strconv.Unquote(`"` + q + `"`)
			if err != nil {
				fmt.Fprintln(os.Stderr, "bad quoted string", q, err)
				os.Exit(2)
			}
			fmt.Println(dcase(os.Args[2], os.Args[3] == "1", 0, []byte(s)))
		}
	default:
		os.Exit(2)
	}
}
