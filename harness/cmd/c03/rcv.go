package main

// The same datagram once more, this time through the real DatagramReceiver (fake net.PacketConn) in front of the
// real DatagramParser, between two zero-length datagrams: nothing that arrives on the socket may take the reader
// or the parser goroutine down, and the datagram must count the same as when it is handed to the parser directly.

import (
	"context"
	"errors"
	"fmt"
	"io"
	"net"
	"sync"
	"time"

	"github.com/atlassian/gostatsd"
	"github.com/atlassian/gostatsd/pkg/statsd"
	"github.com/sirupsen/logrus"
)

type scriptConn struct {
	mu     sync.Mutex
	queue  [][]byte
	next   int
	closed chan struct{}
	once   sync.Once
}

func (c *scriptConn) ReadFrom(p []byte) (int, net.Addr, error) {
	c.mu.Lock()
	if c.next < len(c.queue) {
		n := copy(p, c.queue[c.next])
		c.next++
		c.mu.Unlock()
		return n, &net.UDPAddr{IP: net.IPv4(10, 0, 0, 1), Port: 9}, nil
	}
	c.mu.Unlock()
	<-c.closed
	return 0, nil, errors.New("use of closed network connection")
}
func (c *scriptConn) WriteTo([]byte, net.Addr) (int, error) { return 0, io.EOF }
func (c *scriptConn) Close() error                          { c.once.Do(func() { close(c.closed) }); return nil }
func (c *scriptConn) LocalAddr() net.Addr {
	return &net.UDPAddr{IP: net.IPv4(127, 0, 0, 1), Port: 8125}
}
func (c *scriptConn) SetDeadline(time.Time) error      { return nil }
func (c *scriptConn) SetReadDeadline(time.Time) error  { return nil }
func (c *scriptConn) SetWriteDeadline(time.Time) error { return nil }

type countHandler struct {
	mu      sync.Mutex
	metrics int
	events  int
}

func (h *countHandler) DispatchMetricMap(ctx context.Context, mm *gostatsd.MetricMap) {
	n := 0
	mm.Counters.Each(func(string, string, gostatsd.Counter) { n++ })
	mm.Gauges.Each(func(string, string, gostatsd.Gauge) { n++ })
	mm.Timers.Each(func(string, string, gostatsd.Timer) { n++ })
	mm.Sets.Each(func(string, string, gostatsd.Set) { n++ })
	h.mu.Lock()
	h.metrics += n
	h.mu.Unlock()
}
func (h *countHandler) DispatchEvent(ctx context.Context, e *gostatsd.Event) {
	h.mu.Lock()
	h.events++
	h.mu.Unlock()
}
func (h *countHandler) EstimatedTags() int { return 0 }
func (h *countHandler) WaitForEvents()     {}

// viaReceiver returns "" when the datagram came through, else what went wrong.
func viaReceiver(ns string, ignoreHost bool, dg []byte, wantEvents int) string {
	conn := &scriptConn{queue: [][]byte{{}, dg, {}}, closed: make(chan struct{})}
	out := make(chan []*statsd.Datagram)
	rcv := statsd.NewDatagramReceiver(out, func() (net.PacketConn, error) { return conn, nil }, 1, 2)
	ctx, cancel := context.WithCancel(context.Background())
	defer cancel()
	defer conn.Close()
	problems := make(chan string, 4)
	guard := func(what string, f func()) {
		go func() {
			defer func() {
				if e := recover(); e != nil {
					problems <- fmt.Sprintf("PANIC %s: %v", what, e)
				}
			}()
			f()
		}()
	}
	guard("receiver", func() { rcv.Receive(ctx, conn) })
	h := &countHandler{}
	in := make(chan []*statsd.Datagram)
	lg := logrus.New()
	lg.SetOutput(io.Discard)
	dp := statsd.NewDatagramParser(in, ns, ignoreHost, 0, h, 0, false, lg)
	guard("parser", func() { dp.Run(ctx) })

	timeout := time.After(20 * time.Second)
	seen := 0
	for seen < 3 {
		select {
		case b := <-out:
			seen += len(b)
			// forward, then an empty batch: the parser takes it only after it has finished the previous one
			for _, send := range [][]*statsd.Datagram{b, {}} {
				select {
				case in <- send:
				case p := <-problems:
					return p
				case <-timeout:
					return "HANG parser"
				}
			}
		case p := <-problems:
			return p
		case <-timeout:
			return "HANG receiver"
		}
	}
	select {
	case p := <-problems:
		return p
	default:
	}
	h.mu.Lock()
	defer h.mu.Unlock()
	if h.events != wantEvents {
		return fmt.Sprintf("DIFF events %d via the receiver, %d directly", h.events, wantEvents)
	}
	return ""
}
