// c20: correspondence harness for C20 (the Lambda extension asks for the next invocation only after flushing).
//
//	c20 gen [--n N] [--tier quick|thorough] [--stats file]   cases on stdout (VERIF_SEED)
//	c20 run                                                  stdin cases -> one log line per case from the real code
//
// One case = one history of the real `pkg/lambda.NewExtension` (manual flush) around a real forwarder-mode
// `statsd.Server`, against a fake Lambda runtime API (register, telemetry subscription, /event/next, /init/error,
// /exit/error), a fake upstream server (/v2/raw, scripted latency and outcome) and a scripted "function" that
// posts datapoints to the extension's HTTP ingestion endpoint (the 202 is the acknowledgement) and telemetry
// batches (a runtimeDone record amid other records) to the extension's telemetry endpoint.  Everything that
// reaches a fake server, every acknowledgement and every runtimeDone emission is appended to one mutex-ordered
// log; the line printed is that log with upstream retries folded (see lean/Gsd/Driver/C20.lean for the tokens).
package main

import (
	"bytes"
	"context"
	"encoding/json"
	"fmt"
	"io"
	"net"
	"net/http"
	"net/http/httptest"
	"os"
	"sort"
	"strconv"
	"strings"
	"sync"
	"time"

	"github.com/sirupsen/logrus"
	"github.com/spf13/viper"
	"google.golang.org/protobuf/proto"

	"github.com/atlassian/gostatsd"
	"github.com/atlassian/gostatsd/pb"
	"github.com/atlassian/gostatsd/pkg/lambda"
	"github.com/atlassian/gostatsd/pkg/statsd"
	"github.com/atlassian/gostatsd/pkg/transport"
	"github.com/atlassian/gostatsd/pkg/verifhooks"

	"verifharness/internal/hx"
)

// ---------------------------------------------------------------------------------------- case

type invT struct {
	ndp     int
	outcome string // ok slow fail1 fail
	lat     int    // ms per upstream attempt
	pre     int
	post    int
	nb      int
	na      int
	late    int
	mid     int // datapoints sent while this invocation's flush is being delivered upstream (slow outcome)
}

type caseT struct {
	initOK bool
	// "failT": a healthy server, but the telemetry address cannot be bound (the README's "port not available" case);
	// how the server fails inside the start-up window (initOK false): "fail" the real statsd.Server with an
	// unknown mode; "failD" / "failC" / "failP" / "failN" a stub server whose Run returns at once an error that
	// wraps context.DeadlineExceeded / wraps context.Canceled / is plain / is nil, while the manager's context is alive
	failKind string
	// datapoints sent as soon as the extension has subscribed to telemetry (inside the start-up window)
	early int
	invs  []invT
}

func renderCase(c *caseT) string {
	items := []string{"cfg ok"}
	if !c.initOK {
		items[0] = "cfg " + c.failKind
	}
	if c.early > 0 {
		items = append(items, fmt.Sprintf("early %d", c.early))
	}
	for _, iv := range c.invs {
		it := fmt.Sprintf("inv %d %s %d %d %d %d %d %d", iv.ndp, iv.outcome, iv.lat, iv.pre, iv.post, iv.nb, iv.na, iv.late)
		if iv.mid > 0 {
			it += fmt.Sprintf(" %d", iv.mid)
		}
		items = append(items, it)
	}
	return strings.Join(items, " ; ")
}

func parseCase(line string) (*caseT, error) {
	parts := hx.SplitBy(hx.Tokens(line), ";")
	if len(parts) == 0 || len(parts[0]) != 2 || parts[0][0] != "cfg" {
		return nil, fmt.Errorf("bad head")
	}
	c := &caseT{initOK: parts[0][1] == "ok", failKind: parts[0][1]}
	switch c.failKind {
	case "ok", "fail", "failD", "failC", "failP", "failN", "failT":
	default:
		return nil, fmt.Errorf("bad cfg")
	}
	for _, it := range parts[1:] {
		if len(it) == 0 {
			continue
		}
		if len(it) == 2 && it[0] == "early" {
			v, err := strconv.Atoi(it[1])
			if err != nil || v < 0 {
				return nil, fmt.Errorf("bad early")
			}
			c.early += v
			continue
		}
		if (len(it) != 9 && len(it) != 10) || it[0] != "inv" {
			return nil, fmt.Errorf("bad item")
		}
		n := make([]int, 10)
		idx := []int{1, 3, 4, 5, 6, 7, 8}
		if len(it) == 10 {
			idx = append(idx, 9)
		}
		for _, i := range idx {
			v, err := strconv.Atoi(it[i])
			if err != nil || v < 0 {
				return nil, fmt.Errorf("bad number")
			}
			n[i] = v
		}
		switch it[2] {
		case "ok", "slow", "fail1", "fail":
		default:
			return nil, fmt.Errorf("bad outcome")
		}
		c.invs = append(c.invs, invT{ndp: n[1], outcome: it[2], lat: n[3], pre: n[4], post: n[5], nb: n[6], na: n[7], late: n[8], mid: n[9]})
	}
	return c, nil
}

// stubServer fails inside the start-up window the way a server does whose own initialisation (a cloud
// provider, a dial) ran into a time-out or gave up: the error's kind is the case's, the manager's context is alive.
type stubServer string

func (k stubServer) Run(ctx context.Context) error {
	if ctx.Err() != nil {
		return ctx.Err()
	}
	switch string(k) {
	case "failD":
		return fmt.Errorf("unable to start server: %w", &timeoutErr{})
	case "failC":
		return fmt.Errorf("unable to start server: %w", context.Canceled)
	case "failN":
		return nil
	}
	return fmt.Errorf("unable to start server: no route to host")
}

// timeoutErr is what net/http reports for Client.Timeout: it is a context.DeadlineExceeded
type timeoutErr struct{}

func (*timeoutErr) Error() string        { return "Client.Timeout exceeded while awaiting headers" }
func (*timeoutErr) Is(target error) bool { return target == context.DeadlineExceeded }

// ---------------------------------------------------------------------------------------- log

type entry struct {
	tok   string
	upKey string // for upstream attempt ends: the body key
	upEnd bool
}

type hist struct {
	mu      sync.Mutex
	log     []entry
	notify  chan struct{}
	nexts   int
	outcome string
	lat     int
	tries   map[string]int
	ierrMsg string
	subAt   time.Time // when the telemetry subscription request was seen
	// ending: the harness has begun to cancel the extension's context.  An exit-error report made after that
	// point tells how the manager copes with being cancelled (e.g. while it still reads the SHUTDOWN answer),
	// which the property does not speak about and which depends on timing: it is not part of the history.
	ending bool
}

func (h *hist) add(tok string) {
	h.mu.Lock()
	if tok == "xerr" && h.ending {
		h.mu.Unlock()
		return
	}
	h.log = append(h.log, entry{tok: tok})
	h.mu.Unlock()
	h.poke()
}

func (h *hist) poke() {
	select {
	case h.notify <- struct{}{}:
	default:
	}
}

// normalised folds upstream retries: per body the first arrival and the last answer, with the number of attempts.
func (h *hist) normalised(script map[string]string) string {
	h.mu.Lock()
	defer h.mu.Unlock()
	last := map[string]int{}
	count := map[string]int{}
	for i, e := range h.log {
		if e.upEnd {
			last[e.upKey] = i
			count[e.upKey]++
		}
	}
	var out []string
	for i, e := range h.log {
		if e.upEnd {
			if last[e.upKey] != i {
				continue
			}
			n := strconv.Itoa(count[e.upKey])
			if script[e.upKey] == "fail" {
				n = "*" // the number of attempts inside the retry window depends on the randomised back-off
			}
			out = append(out, e.tok+":"+n)
			continue
		}
		out = append(out, e.tok)
	}
	return strings.Join(out, " ")
}

// ---------------------------------------------------------------------------------------- ports

var portMu sync.Mutex
var portsUsed = map[int]bool{}

func freePort() int {
	portMu.Lock()
	defer portMu.Unlock()
	for {
		l, err := net.Listen("tcp", "127.0.0.1:0")
		if err != nil {
			panic(err)
		}
		p := l.Addr().(*net.TCPAddr).Port
		l.Close()
		if !portsUsed[p] {
			portsUsed[p] = true
			return p
		}
	}
}

// ---------------------------------------------------------------------------------------- history

// Deadlines only matter on a tree that hangs: a wait is given up after the absolute deadline, or when the log has
// been silent for quietFor (the longest legitimate silence is one retry back-off, about 1.1 s, or a scripted latency).
const (
	nextDeadline  = 30 * time.Second
	startDeadline = 20 * time.Second
	// well inside the manager's 100 ms start-up window (internal/awslambda/extension/manager.go)
	earlyBound = 40 * time.Millisecond
	quietFor   = 8 * time.Second
)

var errPortClash = fmt.Errorf("port clash")

var otherTypes = []string{"platform.initStart", "platform.initRuntimeDone", "platform.initReport", "platform.start",
	"platform.report", "platform.extension", "platform.telemetrySubscription", "platform.logsDropped", "function", "extension",
	"platform.restoreRuntimeDone"}

func record(typ string, k int) map[string]any {
	return map[string]any{"time": "2024-01-01T00:00:00.000Z", "type": typ, "record": map[string]any{"requestId": fmt.Sprintf("req-%d", k), "status": "success"}}
}

func dpName(id int) string { return "verif.dp" + strconv.Itoa(id) }

func runHistory(c *caseT) (string, error) {
	h := &hist{notify: make(chan struct{}, 1), tries: map[string]int{}, outcome: "ok"}
	script := map[string]string{} // body key -> outcome in force when it first arrived
	ctx, cancel := context.WithCancel(context.Background())
	defer cancel()
	// one connection per request: a kept-alive connection that the other side has meanwhile closed would fail a POST
	client := &http.Client{Timeout: 30 * time.Second, Transport: &http.Transport{DisableKeepAlives: true}}

	// ---- fake upstream
	upstream := httptest.NewServer(http.HandlerFunc(func(w http.ResponseWriter, r *http.Request) {
		body, _ := io.ReadAll(r.Body)
		if r.URL.Path != "/v2/raw" {
			w.WriteHeader(http.StatusAccepted)
			return
		}
		var m pb.RawMessageV2
		if err := proto.Unmarshal(body, &m); err != nil {
			w.WriteHeader(http.StatusBadRequest)
			return
		}
		var ids []int
		for name := range m.Counters {
			if strings.HasPrefix(name, "verif.dp") {
				if id, err := strconv.Atoi(name[len("verif.dp"):]); err == nil {
					ids = append(ids, id)
				}
			}
		}
		if len(ids) == 0 {
			// the forwarder's start-up no-op post (or a body without test datapoints)
			w.WriteHeader(http.StatusAccepted)
			return
		}
		sort.Ints(ids)
		parts := make([]string, len(ids))
		for i, id := range ids {
			parts[i] = strconv.Itoa(id)
		}
		key := strings.Join(parts, ",")
		h.mu.Lock()
		h.tries[key]++
		n := h.tries[key]
		if n == 1 {
			script[key] = h.outcome
			h.log = append(h.log, entry{tok: "U+" + key})
		}
		outcome, lat := script[key], h.lat
		h.mu.Unlock()
		h.poke()
		if lat > 0 {
			time.Sleep(time.Duration(lat) * time.Millisecond) // scripted upstream latency
		}
		status := http.StatusOK
		if outcome == "fail" || (outcome == "fail1" && n == 1) {
			status = http.StatusServiceUnavailable
		}
		h.mu.Lock()
		h.log = append(h.log, entry{tok: fmt.Sprintf("U-%s:%d", key, status), upKey: key, upEnd: true})
		h.mu.Unlock()
		h.poke()
		w.WriteHeader(status)
	}))
	defer upstream.Close()

	// ---- fake runtime API
	type nextReq struct {
		k      int
		answer chan string   // "i" or "s"
		logged chan struct{} // closed once the answer is in the log (before it is written)
	}
	arrivals := make(chan *nextReq, 64)
	mux := http.NewServeMux()
	mux.HandleFunc("/2020-01-01/extension/register", func(w http.ResponseWriter, r *http.Request) {
		_, _ = io.Copy(io.Discard, r.Body)
		h.add("reg")
		w.Header().Set("Lambda-Extension-Identifier", "ext-1")
		w.WriteHeader(http.StatusOK)
		_, _ = w.Write([]byte(`{"functionName":"f","functionVersion":"1","handler":"h"}`))
	})
	mux.HandleFunc("/2022-07-01/telemetry", func(w http.ResponseWriter, r *http.Request) {
		_, _ = io.Copy(io.Discard, r.Body)
		h.mu.Lock()
		h.subAt = time.Now()
		h.mu.Unlock()
		h.add("sub")
		w.WriteHeader(http.StatusOK)
		_, _ = w.Write([]byte(`"OK"`))
	})
	mux.HandleFunc("/2020-01-01/extension/event/next", func(w http.ResponseWriter, r *http.Request) {
		h.mu.Lock()
		h.nexts++
		k := h.nexts
		h.log = append(h.log, entry{tok: "N" + strconv.Itoa(k)})
		h.mu.Unlock()
		h.poke()
		req := &nextReq{k: k, answer: make(chan string, 1), logged: make(chan struct{})}
		arrivals <- req
		select {
		case a := <-req.answer:
			h.add(fmt.Sprintf("R%d%s", k, a))
			close(req.logged)
			w.WriteHeader(http.StatusOK)
			if a == "i" {
				fmt.Fprintf(w, `{"eventType":"INVOKE","deadlineMs":%d,"requestId":"req-%d","invokedFunctionArn":"arn:f","tracing":{}}`, time.Now().Add(time.Minute).UnixMilli(), k)
			} else {
				_, _ = w.Write([]byte(`{"eventType":"SHUTDOWN","shutdownReason":"spindown","deadlineMs":0}`))
			}
		case <-ctx.Done():
			w.WriteHeader(http.StatusGone)
		case <-r.Context().Done():
		}
	})
	mux.HandleFunc("/2020-01-01/extension/init/error", func(w http.ResponseWriter, r *http.Request) {
		b, _ := io.ReadAll(r.Body)
		h.mu.Lock()
		h.ierrMsg = string(b)
		h.mu.Unlock()
		h.add("ierr")
		w.WriteHeader(http.StatusAccepted)
		_, _ = w.Write([]byte(`{"status":"OK"}`))
	})
	mux.HandleFunc("/2020-01-01/extension/exit/error", func(w http.ResponseWriter, r *http.Request) {
		b, _ := io.ReadAll(r.Body)
		if os.Getenv("C20_DEBUG") != "" {
			fmt.Fprintf(os.Stderr, "xerr body: %.300s\n", b)
		}
		h.add("xerr")
		w.WriteHeader(http.StatusAccepted)
		_, _ = w.Write([]byte(`{"status":"OK"}`))
	})
	runtimeAPI := httptest.NewServer(mux)
	defer runtimeAPI.Close()

	// ---- the real extension around a real forwarder-mode server
	ingestAddr := fmt.Sprintf("127.0.0.1:%d", freePort())
	teleAddr := fmt.Sprintf("127.0.0.1:%d", freePort())
	v := viper.New()
	ht := map[string]any{
		"api-endpoint":             upstream.URL,
		"compress":                 false,
		"max-requests":             10,
		"max-request-elapsed-time": "1s",
	}
	dyn := os.Getenv("C20_DYNAMIC_HEADERS") != "" // experiment only (handoff/C20.md): not part of the check
	bulk := false
	if dyn {
		ht["dynamic-headers"] = []string{"svc"}
	}
	// the forwarder's merge parallelism and slot count vary with the case: no setting may change when /next is asked for
	hsum := 0
	for _, iv := range c.invs {
		hsum = hsum*31 + iv.ndp*7 + iv.pre*3 + iv.post + iv.lat
	}
	// ... nor may the size of a flush: in one case out of five every datapoint arrives together with 600 other series
	// (names the fake upstream ignores), so an invocation with two datapoints flushes more than a thousand names
	bulk = (((hsum/9)%5)+5)%5 == 0
	ht["consolidator-slots"] = []int{1, 2, 4}[((hsum%3)+3)%3]
	ht["concurrent-merge"] = []int{1, 2, 4}[(((hsum/3)%3)+3)%3]
	v.Set("http-transport", ht)
	v.Set("http-servers", []string{"ingest"})
	v.Set("http", map[string]any{"ingest": map[string]any{"address": ingestAddr, "enable-ingestion": true, "enable-healthcheck": true}})
	mode := "forwarder"
	if !c.initOK && c.failKind != "failT" {
		mode = "no-such-mode" // statsd.Server.Run fails at once: a server exit inside the start-up window
	}
	if c.failKind == "failT" {
		// somebody else holds the telemetry port: the extension's telemetry server cannot start
		if ln, err := net.Listen("tcp", teleAddr); err == nil {
			defer ln.Close()
		}
	}

	server := &statsd.Server{
		FlushInterval:     time.Hour,
		MaxReaders:        1,
		MaxParsers:        1,
		MaxWorkers:        1,
		MetricsAddr:       "127.0.0.1:0",
		StatserType:       gostatsd.StatserNull,
		ReceiveBatchSize:  1,
		ServerMode:        mode,
		Viper:             v,
		TransportPool:     transport.NewTransportPool(quiet, v),
		HeartbeatEnabled:  false,
		EstimatedTags:     1,
		InternalNamespace: "statsd",
	}
	var ext interface{ Run(context.Context) error }
	if !c.initOK && c.failKind != "fail" && c.failKind != "failT" {
		ext = verifhooks.NewLambdaManager(quiet, strings.TrimPrefix(runtimeAPI.URL, "http://"), "gostatsd-extension", teleAddr, stubServer(c.failKind))
	} else {
		e, err := lambda.NewExtension(quiet, server, lambda.Options{
			RuntimeAPI:        strings.TrimPrefix(runtimeAPI.URL, "http://"),
			ExecutableName:    "gostatsd-extension",
			EnableManualFlush: true,
			TelemetryAddr:     teleAddr,
		})
		if err != nil {
			return "SETUP_ERROR " + err.Error(), nil
		}
		ext = e
	}
	runDone := make(chan error, 1)
	go func() { runDone <- ext.Run(ctx) }()

	finish := func(suffix string) (string, error) {
		h.mu.Lock()
		h.ending = true
		h.mu.Unlock()
		cancel()
		select {
		case <-runDone:
		case <-time.After(8 * time.Second):
		}
		h.mu.Lock()
		msg := h.ierrMsg
		h.mu.Unlock()
		if c.initOK && strings.Contains(msg, "address already in use") {
			return "", errPortClash
		}
		line := h.normalised(script)
		if suffix != "" {
			line += " " + suffix
		}
		return line, nil
	}

	if !c.initOK {
		select {
		case <-runDone:
			runDone <- nil
		case <-time.After(startDeadline):
			return finish("!hang")
		}
		return finish("")
	}

	waitNext := func() *nextReq {
		end := time.Now().Add(nextDeadline)
		h.mu.Lock()
		last, lastLen := time.Now(), len(h.log)
		h.mu.Unlock()
		for {
			select {
			case r := <-arrivals:
				return r
			case err := <-runDone:
				runDone <- err
				return nil
			case <-h.notify:
			case <-time.After(100 * time.Millisecond):
			}
			h.mu.Lock()
			n := len(h.log)
			h.mu.Unlock()
			now := time.Now()
			if n != lastLen {
				last, lastLen = now, n
			}
			if now.After(end) || now.Sub(last) > quietFor {
				return nil
			}
		}
	}
	postTelemetry := func(recs []map[string]any) bool {
		b, _ := json.Marshal(recs)
		resp, err := client.Post("http://"+teleAddr+"/telemetry", "application/json", bytes.NewReader(b))
		if err != nil {
			return false
		}
		_, _ = io.Copy(io.Discard, resp.Body)
		resp.Body.Close()
		return true
	}
	rng := hx.NewRng(uint64(len(c.invs))*7919 + 17)
	noise := func(k int) bool {
		n := 1 + rng.Intn(3)
		recs := make([]map[string]any, n)
		for i := range recs {
			recs[i] = record(hx.Pick(rng, otherTypes), k)
		}
		return postTelemetry(recs)
	}
	nextID := 1
	// sendDPTok posts one datapoint; tok(now) names the log token for its acknowledgement
	var sendDPTok func(tok func() string) bool
	sendDP := func() bool { return sendDPTok(func() string { return "A" }) }
	sendDPTok = func(tok func() string) bool {
		id := nextID
		tagsKey, tags := "", []string(nil)
		if dyn {
			tags = []string{"svc:" + string(rune('a'+id%2))}
			tagsKey = tags[0]
		}
		m := &pb.RawMessageV2{Counters: map[string]*pb.CounterTagV2{dpName(id): {TagMap: map[string]*pb.RawCounterV2{tagsKey: {Value: 1, Tags: tags}}}}}
		if bulk {
			for j := 0; j < 600; j++ {
				m.Counters[fmt.Sprintf("verif.fill.%d.%d", id, j)] = &pb.CounterTagV2{TagMap: map[string]*pb.RawCounterV2{tagsKey: {Value: 1, Tags: tags}}}
			}
		}
		b, _ := proto.Marshal(m)
		resp, err := client.Post("http://"+ingestAddr+"/v2/raw", "application/x-protobuf", bytes.NewReader(b))
		if err != nil {
			return false
		}
		_, _ = io.Copy(io.Discard, resp.Body)
		resp.Body.Close()
		if resp.StatusCode != http.StatusAccepted {
			return false
		}
		nextID++
		h.add(tok() + strconv.Itoa(id))
		return true
	}

	// start-up datapoints: the manager starts its 100 ms start-up window only after the subscription request
	// has been answered, and the heartbeat (initial flush) only after the window.  An acknowledgement that arrives
	// less than earlyBound after the subscription request was *seen* therefore precedes the initial flush for
	// certain (`E`); a later one (slow machine, server not yet listening) claims nothing (`A`).
	if c.early > 0 {
		var subAt time.Time
		for t0 := time.Now(); time.Since(t0) < startDeadline && subAt.IsZero(); time.Sleep(200 * time.Microsecond) {
			h.mu.Lock()
			subAt = h.subAt
			h.mu.Unlock()
		}
		sent := 0
		for t0 := time.Now(); sent < c.early && time.Since(t0) < 2*time.Second; {
			if sendDPTok(func() string {
				if !subAt.IsZero() && time.Since(subAt) < earlyBound {
					return "E"
				}
				return "A"
			}) {
				sent++
			} else {
				time.Sleep(300 * time.Microsecond)
			}
		}
	}

	cur := waitNext() // /next number 1
	if cur == nil {
		return finish("!hang")
	}
	// the ingestion endpoint is up once the server runs; make sure it answers (and that it is ours)
	ready := false
	for t0 := time.Now(); time.Since(t0) < 5*time.Second; time.Sleep(20 * time.Millisecond) {
		b, _ := proto.Marshal(&pb.RawMessageV2{})
		resp, err := client.Post("http://"+ingestAddr+"/v2/raw", "application/x-protobuf", bytes.NewReader(b))
		if err == nil {
			resp.Body.Close()
			if resp.StatusCode == http.StatusAccepted {
				ready = true
				break
			}
		}
	}
	if !ready {
		cancel()
		return "", errPortClash
	}

	for i, iv := range c.invs {
		k := i + 1
		cur.answer <- "i"
		select {
		case <-cur.logged:
		case <-time.After(nextDeadline):
			return finish("!hang")
		}
		for j := 0; j < iv.nb; j++ {
			if !noise(k) {
				return finish("!telemetry-endpoint-unreachable")
			}
		}
		for j := 0; j < iv.ndp; j++ {
			if !sendDP() {
				return finish("!ingestion-refused")
			}
		}
		h.mu.Lock()
		h.outcome, h.lat = iv.outcome, iv.lat
		h.mu.Unlock()
		var recs []map[string]any
		for j := 0; j < iv.pre; j++ {
			recs = append(recs, record(hx.Pick(rng, otherTypes), k))
		}
		recs = append(recs, record("platform.runtimeDone", k))
		for j := 0; j < iv.post; j++ {
			recs = append(recs, record(hx.Pick(rng, otherTypes), k))
		}
		h.mu.Lock()
		dAt := len(h.log)
		h.mu.Unlock()
		h.add("D" + strconv.Itoa(k))
		if !postTelemetry(recs) {
			return finish("!telemetry-endpoint-unreachable")
		}
		if iv.mid > 0 && iv.ndp > 0 {
			// datapoints accepted while this invocation's flush is being delivered: wait for the upstream attempt
			// to begin (it then sleeps for the scripted latency), send them meanwhile
			began := false
			for t0 := time.Now(); !began && time.Since(t0) < 3*time.Second; time.Sleep(500 * time.Microsecond) {
				h.mu.Lock()
				for _, e := range h.log[dAt:] {
					if strings.HasPrefix(e.tok, "U+") {
						began = true
					}
				}
				h.mu.Unlock()
			}
			for j := 0; began && j < iv.mid; j++ {
				if !sendDP() {
					return finish("!ingestion-refused")
				}
			}
		}
		for j := 0; j < iv.na; j++ {
			if !noise(k) {
				return finish("!telemetry-endpoint-unreachable")
			}
		}
		cur = waitNext()
		if cur == nil {
			return finish("!hang")
		}
		for j := 0; j < iv.late; j++ {
			if !sendDP() {
				return finish("!ingestion-refused")
			}
		}
	}
	cur.answer <- "s"
	select {
	case <-cur.logged:
	case <-time.After(nextDeadline):
		return finish("!hang")
	}
	// give a wrong extra /next a moment to show up (the heartbeat must stop after SHUTDOWN)
	select {
	case r := <-arrivals:
		_ = r
	case <-time.After(30 * time.Millisecond):
	}
	return finish("")
}

var quiet = func() *logrus.Logger {
	l := logrus.New()
	l.SetOutput(io.Discard)
	logrus.SetOutput(io.Discard) // statsd.Server logs through the standard logger
	return l
}()

func runOne(line string) (out string) {
	defer func() {
		if e := recover(); e != nil {
			out = fmt.Sprintf("PANIC %v", e)
		}
	}()
	c, err := parseCase(line)
	if err != nil {
		return "BAD_CASE"
	}
	done := make(chan string, 1)
	go func() {
		defer func() {
			if e := recover(); e != nil {
				done <- fmt.Sprintf("PANIC %v", e)
			}
		}()
		for attempt := 0; ; attempt++ {
			s, err := runHistory(c)
			if err == errPortClash && attempt < 4 {
				continue // another process took the port between allocation and bind: environment, not behaviour
			}
			if err != nil {
				done <- "ENV_PORT_CLASH"
				return
			}
			if attempt < 3 && c.initOK && s == "reg sub !hang" {
				// no first /next at all: when the statsd server needs longer than the manager's 100 ms start-up window to
				// build its forwarder (a loaded machine), the heartbeat's initial Flush() still finds the coordinator's
				// no-op target, nothing is ever notified and the extension waits forever.  That is a start-up race of the
				// extension (a liveness matter, recorded in DESIGN.md), not the ordering C20 states: repeat the history.
				continue
			}
			if attempt < 2 && (strings.HasSuffix(s, "!telemetry-endpoint-unreachable") || strings.HasSuffix(s, "!ingestion-refused")) {
				// the harness's own request to one of the extension's local endpoints failed at the transport level
				// (seen under heavy load): repeat the history before believing it
				continue
			}
			done <- s
			return
		}
	}()
	select {
	case r := <-done:
		return r
	case <-time.After(10 * time.Minute):
		return "HANG"
	}
}

func run() {
	var cases []string
	hx.Lines(func(line string) { cases = append(cases, line) })
	res := make([]string, len(cases))
	workers := 16
	var wg sync.WaitGroup
	next := make(chan int, len(cases))
	for i := range cases {
		next <- i
	}
	close(next)
	for w := 0; w < workers; w++ {
		wg.Add(1)
		go func() {
			defer wg.Done()
			for i := range next {
				res[i] = runOne(cases[i])
			}
		}()
	}
	wg.Wait()
	for _, r := range res {
		fmt.Fprintln(hx.Out, r)
	}
	hx.Out.Flush()
}

// ---------------------------------------------------------------------------------------- gen

func gen(args []string) {
	r := hx.NewRng(hx.Seed())
	n := hx.ArgInt(args, "--n", 64)
	tier := hx.Arg(args, "--tier", "quick")
	st := hx.NewStats("histories of 0-6 (thorough: 0-20) invocations of the real Lambda extension with manual flush: 0-4 datapoints acknowledged before each " +
		"runtimeDone record, upstream outcome ok / slow (30-250 ms) / first attempt 503 / always 503 (give-up after the 1 s retry window), runtimeDone amid 0-3 " +
		"other records, 0-2 batches without runtimeDone around it, 0-2 datapoints sent between the next /next and its answer; some start-up failures; " +
		"non-trivial = at least one invocation with at least one datapoint; distinct by case text")
	maxInv := 6
	if tier == "thorough" {
		maxInv = 20
	}
	for i := 0; i < n; i++ {
		c := &caseT{initOK: !r.Chance(1, 8)}
		c.failKind = hx.Pick(r, []string{"fail", "failD", "failC", "failP", "failN", "failT"})
		if c.initOK && r.Chance(1, 5) {
			c.early = r.Range(1, 2)
		}
		ninv := r.Range(0, maxInv)
		if r.Chance(1, 3) {
			ninv = r.Range(1, 3)
		}
		fails := 0
		for k := 0; k < ninv; k++ {
			iv := invT{outcome: "ok"}
			iv.ndp = r.Range(0, 4)
			if r.Chance(1, 4) {
				iv.ndp = 0
			}
			switch x := r.Intn(20); {
			case x < 11:
			case x < 15:
				iv.outcome = "slow"
				iv.lat = r.Range(30, 250)
			case x < 18:
				iv.outcome = "fail1"
				iv.lat = r.Intn(20)
			default:
				if fails < 1 || tier == "thorough" {
					iv.outcome = "fail"
					iv.lat = r.Intn(20)
					fails++
				}
			}
			iv.pre = r.Intn(4)
			iv.post = r.Intn(4)
			iv.nb = r.Intn(3)
			iv.na = r.Intn(3)
			if r.Chance(3, 10) {
				iv.late = r.Range(1, 2)
			}
			if iv.outcome == "slow" && iv.ndp > 0 && r.Chance(1, 2) {
				iv.mid = r.Range(1, 2)
				iv.lat = r.Range(120, 250)
			}
			c.invs = append(c.invs, iv)
		}
		line := renderCase(c)
		nontrivial := false
		for _, iv := range c.invs {
			if iv.ndp > 0 {
				nontrivial = true
			}
			st.Hit("outcome=" + iv.outcome)
			if iv.ndp == 0 && iv.late == 0 {
				st.Hit("invocation-without-datapoints")
			}
			if iv.late > 0 {
				st.Hit("late-datapoints")
			}
			if iv.mid > 0 {
				st.Hit("datapoints-during-delivery")
			}
		}
		st.Case(line, c.initOK && nontrivial)
		if c.early > 0 {
			st.Hit("start-up-datapoints")
		}
		if !c.initOK {
			st.Hit("init=" + c.failKind)
		} else {
			st.Hit("init=ok")
		}
		st.Hit(fmt.Sprintf("invocations<=%d", bucket(len(c.invs))))
		fmt.Fprintln(hx.Out, line)
	}
	hx.Out.Flush()
	st.Write(hx.Arg(args, "--stats", ""))
}

func bucket(n int) int {
	for _, b := range []int{0, 1, 2, 4, 6, 10, 20} {
		if n <= b {
			return b
		}
	}
	return 1 << 30
}

func main() {
	if len(os.Args) < 2 {
		fmt.Fprintln(os.Stderr, "usage: c20 gen|run")
		os.Exit(2)
	}
	switch os.Args[1] {
	case "gen":
		gen(os.Args[2:])
	case "run":
		run()
	default:
		os.Exit(2)
	}
}
