// c14: correspondence harness for C14 (what a forwarder encodes is what the ingesting server decodes).
//
// The two REAL halves composed: a real HttpForwarderHandlerV2 posts to an httptest server whose handler
// is the real ingestion router of pkg/web (NewHttpServer(...).Router) with a capture pipeline handler.
// Case formats: see lean/Gsd/Driver/C14.lean.
//
//	c14 gen [--n N] [--tier quick|thorough] [--stats file]
//	c14 run
package main

import (
	"bytes"
	"compress/zlib"
	"context"
	"errors"
	"fmt"
	"github.com/pierrec/lz4/v4"
	"io"
	"math"
	"net/http"
	"net/http/httptest"
	"os"
	"sort"
	"strconv"
	"strings"
	"sync"
	"time"
	"unicode/utf8"

	"github.com/sirupsen/logrus"
	"github.com/spf13/viper"
	"google.golang.org/protobuf/proto"

	"github.com/atlassian/gostatsd"
	"github.com/atlassian/gostatsd/pb"
	"github.com/atlassian/gostatsd/pkg/statsd"
	"github.com/atlassian/gostatsd/pkg/transport"
	"github.com/atlassian/gostatsd/pkg/verifhooks"
	"github.com/atlassian/gostatsd/pkg/web"

	"verifharness/internal/hx"
	"verifharness/internal/mmc"
)

// ------------------------------------------------------------------------------------ generator

var ctypes = []string{"off", "none", "zlib", "lz4", "dflt"}

var nameAlphabet = []string{"", "a", "b", "ab", "a.b", "web.requests", "é", "日本", "a\x00b", "statsd.x", "A", "z-9", "c,d", "k:v"}
var tagAlphabet = []string{"", "t:1", "t:2", "env:prod", "host:h1", "a", "s:10.0.0.1", "k:v,w", "ü:ß", "x:"}
var srcAlphabet = []string{"", "", "10.0.0.1", "10.0.0.2", "i-0abc", "h", "ホスト"}
var memAlphabet = []string{"", "u1", "u2", "u3", "é", "a b", "x,y"}

var floatSpecials = []uint64{
	0x0000000000000000, 0x8000000000000000, // 0, -0
	0x7ff0000000000000, 0xfff0000000000000, // +Inf, -Inf
	0x7ff8000000000000, 0x7ff8000000000001, 0xfff8000000000000, 0x7ff0000000000001, 0x7ff4000000000000, // NaNs (quiet, payload, negative, signalling)
	0x7fefffffffffffff, 0x0000000000000001, 0x3ff0000000000000, 0xbff8000000000000, 0x4340000000000000, // max, min subnormal, 1, -1.5, 2^53
}

func genFloat(r *hx.Rng, st *hx.Stats) float64 {
	switch r.Intn(4) {
	case 0:
		b := hx.Pick(r, floatSpecials)
		f := math.Float64frombits(b)
		if f != f {
			st.Hit("value:NaN")
		} else if math.IsInf(f, 0) {
			st.Hit("value:Inf")
		} else if b == 0x8000000000000000 {
			st.Hit("value:-0")
		}
		return f
	case 1:
		return math.Float64frombits(r.U64())
	default:
		return float64(r.Intn(4000))/8 - 250
	}
}

func genCounter(r *hx.Rng, st *hx.Stats) int64 {
	switch r.Intn(6) {
	case 0:
		st.Hit("value:maxint64")
		return math.MaxInt64
	case 1:
		return math.MinInt64
	case 2:
		return int64(r.U64())
	case 3:
		return 0
	default:
		return int64(r.Intn(2000)) - 1000
	}
}

func genStr(r *hx.Rng, alphabet []string) string {
	if r.Chance(9, 10) {
		return hx.Pick(r, alphabet)
	}
	n := r.Range(1, 12)
	if r.Chance(1, 10) {
		n = r.Range(200, 400)
	}
	b := make([]byte, n)
	for i := range b {
		b[i] = byte('a' + r.Intn(26))
	}
	return string(b)
}

func genTags(r *hx.Rng, st *hx.Stats) gostatsd.Tags {
	n := r.Intn(4)
	if n == 0 {
		st.Hit("tags:empty")
		return nil
	}
	t := gostatsd.Tags{}
	for i := 0; i < n; i++ {
		t = append(t, genStr(r, tagAlphabet))
	}
	return t
}

func genMapEntries(r *hx.Rng, st *hx.Stats, size int) []string {
	seen := map[string]bool{}
	es := []string{}
	for j := 0; j < size; j++ {
		ty := hx.Pick(r, []string{"c", "t", "g", "s"})
		name := genStr(r, nameAlphabet)
		tags := genTags(r, st)
		src := gostatsd.Source(hx.Pick(r, srcAlphabet))
		if src == "" {
			st.Hit("source:empty")
		}
		tagsKey := gostatsd.FormatTagsKey(src, tags.Copy())
		if r.Chance(15, 100) {
			tagsKey = genStr(r, tagAlphabet) // a key that is NOT the one derived from tags and source: it must be carried, not recomputed
			st.Hit("tagsKey:underived")
		}
		id := ty + "\x00" + name + "\x00" + tagsKey
		if seen[id] {
			continue
		}
		seen[id] = true
		ts := gostatsd.Nanotime(r.Intn(1000))
		switch ty {
		case "c":
			es = append(es, mmc.CounterEntry(name, tagsKey, gostatsd.Counter{Value: genCounter(r, st), Timestamp: ts, Source: src, Tags: tags}))
		case "g":
			es = append(es, mmc.GaugeEntry(name, tagsKey, gostatsd.Gauge{Value: genFloat(r, st), Timestamp: ts, Source: src, Tags: tags}))
		case "t":
			k := r.Intn(5)
			var vals []float64
			for q := 0; q < k; q++ {
				vals = append(vals, genFloat(r, st))
			}
			sc := float64(k)
			if r.Chance(2, 3) {
				sc = genFloat(r, st) // the sampled count is independent of the number of values
				st.Hit("timer:sampled!=len")
			}
			es = append(es, mmc.TimerEntry(name, tagsKey, gostatsd.Timer{Values: vals, SampledCount: sc, Timestamp: ts, Source: src, Tags: tags}))
		case "s":
			mem := map[string]struct{}{}
			for q := r.Intn(4); q > 0; q-- {
				mem[genStr(r, memAlphabet)] = struct{}{}
			}
			if len(mem) == 0 {
				st.Hit("set:empty")
			}
			es = append(es, mmc.SetEntry(name, tagsKey, gostatsd.Set{Values: mem, Timestamp: ts, Source: src, Tags: tags}))
		}
	}
	return es
}

func eventToks(e *gostatsd.Event) string {
	p := []string{hx.S(e.Title), hx.S(e.Text), hx.I(e.DateHappened), hx.S(e.AggregationKey), hx.S(e.SourceTypeName), hx.S(string(e.Source)),
		strconv.Itoa(int(e.Priority)), strconv.Itoa(int(e.AlertType)), strconv.Itoa(len(e.Tags))}
	for _, t := range e.Tags {
		p = append(p, hx.S(t))
	}
	return strings.Join(p, " ")
}

func genEvent(r *hx.Rng, st *hx.Stats) *gostatsd.Event {
	e := &gostatsd.Event{
		Title: genStr(r, nameAlphabet), Text: genStr(r, []string{"", "line1\nline2", "text", "日本語のテキスト", "a|b"}),
		DateHappened:   hx.Pick(r, []int64{0, 1, -1, 1700000000, math.MaxInt64, math.MinInt64}),
		AggregationKey: genStr(r, nameAlphabet), SourceTypeName: genStr(r, nameAlphabet),
		Tags: genTags(r, st), Source: gostatsd.Source(hx.Pick(r, srcAlphabet)),
		Priority: gostatsd.Priority(r.Intn(2)), AlertType: gostatsd.AlertType(r.Intn(4)),
	}
	if r.Chance(1, 8) {
		e.Priority = gostatsd.Priority(r.Range(2, 255))
		st.Hit("event:priority-out-of-range")
	}
	if r.Chance(1, 8) {
		e.AlertType = gostatsd.AlertType(r.Range(4, 255))
		st.Hit("event:alert-out-of-range")
	}
	return e
}

// ---- direct posts

func pbTags(r *hx.Rng, st *hx.Stats) []string { return []string(genTags(r, st)) }

// genPBRaw builds a RawMessageV2 directly (including shapes the forwarder never produces: duplicate
// set members, names with an empty TagMap).
func genPBRaw(r *hx.Rng, st *hx.Stats) *pb.RawMessageV2 {
	m := &pb.RawMessageV2{}
	n := r.Intn(5)
	for i := 0; i < n; i++ {
		name := genStr(r, nameAlphabet)
		tk := genStr(r, tagAlphabet)
		host := hx.Pick(r, srcAlphabet)
		switch r.Intn(4) {
		case 0:
			if m.Counters == nil {
				m.Counters = map[string]*pb.CounterTagV2{}
			}
			if m.Counters[name] == nil {
				m.Counters[name] = &pb.CounterTagV2{TagMap: map[string]*pb.RawCounterV2{}}
			}
			m.Counters[name].TagMap[tk] = &pb.RawCounterV2{Tags: pbTags(r, st), Hostname: host, Value: genCounter(r, st)}
		case 1:
			if m.Gauges == nil {
				m.Gauges = map[string]*pb.GaugeTagV2{}
			}
			if m.Gauges[name] == nil {
				m.Gauges[name] = &pb.GaugeTagV2{TagMap: map[string]*pb.RawGaugeV2{}}
			}
			m.Gauges[name].TagMap[tk] = &pb.RawGaugeV2{Tags: pbTags(r, st), Hostname: host, Value: genFloat(r, st)}
		case 2:
			if m.Sets == nil {
				m.Sets = map[string]*pb.SetTagV2{}
			}
			if m.Sets[name] == nil {
				m.Sets[name] = &pb.SetTagV2{TagMap: map[string]*pb.RawSetV2{}}
			}
			var vals []string
			for q := r.Intn(5); q > 0; q-- {
				vals = append(vals, hx.Pick(r, memAlphabet[:4])) // duplicates are likely
			}
			m.Sets[name].TagMap[tk] = &pb.RawSetV2{Tags: pbTags(r, st), Hostname: host, Values: vals}
		case 3:
			if m.Timers == nil {
				m.Timers = map[string]*pb.TimerTagV2{}
			}
			if m.Timers[name] == nil {
				m.Timers[name] = &pb.TimerTagV2{TagMap: map[string]*pb.RawTimerV2{}}
			}
			var vals []float64
			for q := r.Intn(4); q > 0; q-- {
				vals = append(vals, genFloat(r, st))
			}
			m.Timers[name].TagMap[tk] = &pb.RawTimerV2{Tags: pbTags(r, st), Hostname: host, SampleCount: genFloat(r, st), Values: vals}
		}
	}
	if r.Chance(1, 6) {
		if m.Gauges == nil {
			m.Gauges = map[string]*pb.GaugeTagV2{}
		}
		m.Gauges["lonely"] = &pb.GaugeTagV2{} // a name without any series
		st.Hit("pb:empty-tagmap")
	}
	return m
}

func genPBEvent(r *hx.Rng, st *hx.Stats) *pb.EventV2 {
	e := genEvent(r, st)
	m := &pb.EventV2{Title: e.Title, Text: e.Text, DateHappened: e.DateHappened, Hostname: string(e.Source), AggregationKey: e.AggregationKey,
		SourceTypeName: e.SourceTypeName, Tags: e.Tags, SourceIP: hx.Pick(r, srcAlphabet),
		Priority: pb.EventV2_EventPriority(r.Intn(2)), Type: pb.EventV2_AlertType(r.Intn(4))}
	if r.Chance(1, 4) {
		m.Priority = pb.EventV2_EventPriority(hx.Pick(r, []int32{2, 7, -1, math.MaxInt32, math.MinInt32}))
		st.Hit("pb:priority-unknown")
	}
	if r.Chance(1, 4) {
		m.Type = pb.EventV2_AlertType(hx.Pick(r, []int32{4, 99, -1, math.MaxInt32, math.MinInt32}))
		st.Hit("pb:type-unknown")
	}
	return m
}

func hexStrs(xs []string) string {
	p := []string{strconv.Itoa(len(xs))}
	for _, x := range xs {
		p = append(p, hx.S(x))
	}
	return strings.Join(p, " ")
}

// pbRawToks renders a decoded RawMessageV2 field by field (entry shapes of MMCodec, timestamp slot 0,
// set values in wire order with duplicates).
func pbRawToks(m *pb.RawMessageV2) string {
	es := []string{}
	for name, tm := range m.GetCounters() {
		for tk, c := range tm.GetTagMap() {
			es = append(es, fmt.Sprintf("c %s %s %d 0 %s %s", hx.S(name), hx.S(tk), c.GetValue(), hx.S(c.GetHostname()), hexStrs(c.GetTags())))
		}
	}
	for name, tm := range m.GetGauges() {
		for tk, c := range tm.GetTagMap() {
			es = append(es, fmt.Sprintf("g %s %s %s 0 %s %s", hx.S(name), hx.S(tk), hx.F(c.GetValue()), hx.S(c.GetHostname()), hexStrs(c.GetTags())))
		}
	}
	for name, tm := range m.GetTimers() {
		for tk, c := range tm.GetTagMap() {
			p := []string{"t", hx.S(name), hx.S(tk), strconv.Itoa(len(c.GetValues()))}
			for _, v := range c.GetValues() {
				p = append(p, hx.F(v))
			}
			p = append(p, hx.F(c.GetSampleCount()), "0", hx.S(c.GetHostname()), hexStrs(c.GetTags()))
			es = append(es, strings.Join(p, " "))
		}
	}
	for name, tm := range m.GetSets() {
		for tk, c := range tm.GetTagMap() {
			es = append(es, fmt.Sprintf("s %s %s %s 0 %s %s", hx.S(name), hx.S(tk), hexStrs(c.GetValues()), hx.S(c.GetHostname()), hexStrs(c.GetTags())))
		}
	}
	sort.Strings(es)
	return strings.Join(es, " ; ")
}

func pbEventToks(m *pb.EventV2) string {
	return strings.Join([]string{hx.S(m.GetTitle()), hx.S(m.GetText()), hx.I(m.GetDateHappened()), hx.S(m.GetHostname()), hx.S(m.GetAggregationKey()),
		hx.S(m.GetSourceTypeName()), hx.S(m.GetSourceIP()), strconv.Itoa(int(m.GetPriority())), strconv.Itoa(int(m.GetType())), hexStrs(m.GetTags())}, " ")
}

// umOracle asks the real protobuf library.
func umOracle(route string, b []byte) (s string) {
	defer func() {
		if e := recover(); e != nil {
			s = "F"
		}
	}()
	if route == "raw" {
		var msg pb.RawMessageV2
		if err := proto.Unmarshal(b, &msg); err != nil {
			return "F"
		}
		t := pbRawToks(&msg)
		if t == "" {
			return "T"
		}
		return "T " + t
	}
	var msg pb.EventV2
	if err := proto.Unmarshal(b, &msg); err != nil {
		return "F"
	}
	return "T " + pbEventToks(&msg)
}

func decOracle(f func([]byte) ([]byte, error), b []byte) (out []byte, ok bool) {
	defer func() {
		if e := recover(); e != nil {
			out, ok = nil, false
		}
	}()
	o, err := f(b)
	return o, err == nil
}

// The decompression oracles call the libraries directly (never the repository's wrappers in
// pkg/web/compression.go, which are code under test).
func libZlib(b []byte) ([]byte, error) {
	zr, err := zlib.NewReader(bytes.NewReader(b))
	if err != nil {
		return nil, err
	}
	defer zr.Close()
	return io.ReadAll(zr)
}

func libLz4(b []byte) ([]byte, error) {
	return io.ReadAll(lz4.NewReader(bytes.NewReader(b)))
}

func oracleCols(route string, body []byte) string {
	cols := []string{"I " + umOracle(route, body)}
	if z, ok := decOracle(libZlib, body); ok {
		cols = append(cols, "Z T "+umOracle(route, z))
	} else {
		cols = append(cols, "Z F F")
	}
	if l, ok := decOracle(libLz4, body); ok {
		cols = append(cols, "L T "+umOracle(route, l))
	} else {
		cols = append(cols, "L F F")
	}
	return strings.Join(cols, " | ")
}

func genB(r *hx.Rng, st *hx.Stats) string {
	route := "raw"
	var msg proto.Message
	if r.Chance(1, 3) {
		route = "event"
		msg = genPBEvent(r, st)
	} else {
		msg = genPBRaw(r, st)
	}
	raw, err := proto.Marshal(msg)
	if err != nil {
		raw = []byte{}
	}
	comp := r.Intn(3) // 0 identity 1 zlib 2 lz4
	body := raw
	enc := "identity"
	switch comp {
	case 1:
		buf := &bytes.Buffer{}
		_ = web.CompressWithZlib(raw, buf, r.Intn(10))
		body, enc = buf.Bytes(), "deflate"
	case 2:
		buf := &bytes.Buffer{}
		_ = web.CompressWithLz4(raw, buf, r.Intn(10))
		body, enc = buf.Bytes(), "lz4"
	}
	mut := hx.Pick(r, []string{"valid", "valid", "truncate", "truncate", "truncate", "bitflip", "random", "empty", "append", "wrong-enc", "unknown-enc", "no-enc"})
	body = append([]byte(nil), body...)
	switch mut {
	case "truncate":
		if len(body) > 0 {
			cut := r.Intn(len(body))
			if r.Bool() && len(body) > 8 {
				cut = len(body) - 1 - r.Intn(8) // inside or just before the checksum trailer
			}
			body = body[:cut]
		}
	case "bitflip":
		for q := r.Range(1, 3); q > 0 && len(body) > 0; q-- {
			body[r.Intn(len(body))] ^= 1 << uint(r.Intn(8))
		}
	case "random":
		body = make([]byte, r.Intn(40))
		for i := range body {
			body[i] = byte(r.U64())
		}
	case "empty":
		body = []byte{}
	case "append":
		for q := r.Range(1, 6); q > 0; q-- {
			body = append(body, byte(r.U64()))
		}
	case "wrong-enc":
		enc = hx.Pick(r, []string{"identity", "deflate", "lz4"})
	case "unknown-enc":
		enc = hx.Pick(r, []string{"gzip", "Deflate", "LZ4", "br", "zlib", "deflate, lz4", "x", strings.Repeat("e", 100)})
	case "no-enc":
		enc = "-"
	}
	encTok := "-"
	if enc != "-" {
		encTok = hx.S(enc)
	} else if r.Bool() {
		encTok = hx.S("") // an explicitly empty header value
	}
	read := "ok"
	if r.Chance(1, 16) {
		read = "fail"
	}
	st.Hit("b:" + mut)
	st.Hit("b:route:" + route)
	cols := oracleCols(route, body)
	return fmt.Sprintf("b %s %s %s %s | %s", route, encTok, read, hx.B(body), cols)
}

func gen(args []string) {
	r := hx.NewRng(hx.Seed()).Fork() // Fork: hx seeds k and k+1 are the same splitmix stream shifted by one draw
	n := hx.ArgInt(args, "--n", 3000)
	st := hx.NewStats("m: maps of 0..12 (sometimes ..150) series of all four types (special floats by bit pattern, int64 extremes, empty tags/source/sets, sampled count independent of the number of values, 15% tagsKeys not derived from the tags) through a real forwarder and the real ingestion router for compression {off,none,zlib,lz4,default} x level 0..9; e: events incl. out-of-range enums; b: protobuf bodies (valid / truncated / bit-flipped / random / wrong, unknown or absent Content-Encoding / failing read) posted directly, with the real libraries' answers as oracle columns; n: the start-up nop. non-trivial = anything but an empty map; distinct by case text")
	// every configuration's start-up post once
	for _, ct := range ctypes {
		for lvl := 0; lvl < 10; lvl += 3 {
			line := fmt.Sprintf("n %s %d", ct, lvl)
			st.Case(line, true)
			st.Hit("kind:n")
			fmt.Fprintln(hx.Out, line)
		}
	}
	for i := 0; i < n; i++ {
		ct := ctypes[i%len(ctypes)]
		lvl := (i / len(ctypes)) % 10
		if r.Chance(1, 3) {
			ct, lvl = hx.Pick(r, ctypes), r.Intn(10)
		}
		var line string
		switch k := r.Intn(20); {
		case k < 11:
			size := r.Intn(13)
			if r.Chance(1, 25) {
				size = r.Range(40, 150)
			}
			if r.Chance(1, 40) {
				size = 0
			}
			es := genMapEntries(r, st, size)
			line = strings.Join(append([]string{fmt.Sprintf("m %s %d", ct, lvl)}, es...), " , ")
			st.Hit("kind:m")
			st.Hit(fmt.Sprintf("m:series<=%d", bucketOf(len(es))))
			st.Hit("cfg:" + ct)
			st.Hit(fmt.Sprintf("level:%d", lvl))
			st.Case(line, len(es) > 0)
		case k < 14:
			line = fmt.Sprintf("e %s %d ; %s", ct, lvl, eventToks(genEvent(r, st)))
			st.Hit("kind:e")
			st.Hit("cfg:" + ct)
			st.Case(line, true)
		default:
			line = genB(r, st)
			st.Hit("kind:b")
			st.Case(line, true)
		}
		fmt.Fprintln(hx.Out, line)
	}
	hx.Out.Flush()
	st.Write(hx.Arg(args, "--stats", ""))
}

func bucketOf(n int) int {
	for _, b := range []int{0, 1, 2, 4, 8, 16, 64, 200} {
		if n <= b {
			return b
		}
	}
	return 1 << 30
}

// ------------------------------------------------------------------------------------ the rig

type reqInfo struct {
	status int
	enc    string
	path   string
}

type capture struct {
	mu     sync.Mutex
	maps   []*gostatsd.MetricMap
	events []*gostatsd.Event
	reqs   []reqInfo
	before time.Time
}

func (c *capture) DispatchMetricMap(_ context.Context, mm *gostatsd.MetricMap) {
	c.mu.Lock()
	c.maps = append(c.maps, mm)
	c.mu.Unlock()
}
func (c *capture) DispatchEvent(_ context.Context, e *gostatsd.Event) {
	c.mu.Lock()
	c.events = append(c.events, e)
	c.mu.Unlock()
}
func (c *capture) EstimatedTags() int { return 0 }
func (c *capture) WaitForEvents()     {}

func (c *capture) reset() {
	c.mu.Lock()
	c.maps, c.events, c.reqs = nil, nil, nil
	c.before = time.Now()
	c.mu.Unlock()
}

type statusWriter struct {
	http.ResponseWriter
	status int
}

func (w *statusWriter) WriteHeader(code int) {
	if w.status == 0 {
		w.status = code
	}
	w.ResponseWriter.WriteHeader(code)
}
func (w *statusWriter) Write(b []byte) (int, error) {
	if w.status == 0 {
		w.status = 200
	}
	return w.ResponseWriter.Write(b)
}

type rig struct {
	cap    *capture
	router http.Handler
	srv    *httptest.Server
	logger *logrus.Logger
	client *http.Client
	fwd    map[string]*fwdInst
}

type fwdInst struct {
	h      *statsd.HttpForwarderHandlerV2
	fc     verifhooks.FlushCoordinator
	cancel context.CancelFunc
}

func newRig() *rig {
	logger := logrus.New()
	logger.SetOutput(io.Discard)
	c := &capture{}
	hs, err := web.NewHttpServer(logger, c, "verif", "127.0.0.1:0", false, false, true, false, nil, nil)
	if err != nil {
		panic(err)
	}
	rg := &rig{cap: c, router: hs.Router, logger: logger, fwd: map[string]*fwdInst{}, client: &http.Client{Timeout: 10 * time.Second}}
	rg.srv = httptest.NewServer(http.HandlerFunc(func(w http.ResponseWriter, req *http.Request) {
		sw := &statusWriter{ResponseWriter: w}
		enc := "-"
		if vs, ok := req.Header["Content-Encoding"]; ok && len(vs) > 0 {
			enc = vs[0]
		}
		defer func() {
			// runs also when the handler panics (net/http then drops the connection)
			if sw.status == 0 {
				sw.status = 200
			}
			c.mu.Lock()
			c.reqs = append(c.reqs, reqInfo{status: sw.status, enc: enc, path: req.URL.Path})
			c.mu.Unlock()
		}()
		rg.router.ServeHTTP(sw, req)
	}))
	return rg
}

func (rg *rig) waitReqs(n int, d time.Duration) bool {
	deadline := time.Now().Add(d)
	for time.Now().Before(deadline) {
		rg.cap.mu.Lock()
		k := len(rg.cap.reqs)
		rg.cap.mu.Unlock()
		if k >= n {
			return true
		}
		time.Sleep(200 * time.Microsecond)
	}
	return false
}

// newForwarder constructs a real forwarder for one compression configuration and starts it.
func (rg *rig) newForwarder(ct string, lvl int) (*fwdInst, error) {
	pool := transport.NewTransportPool(rg.logger, viper.New())
	fc := verifhooks.NewFlushCoordinator()
	var h *statsd.HttpForwarderHandlerV2
	var err error
	if ct == "dflt" {
		// through the viper constructor: compress / compression-type come from the code's defaults
		v := viper.New()
		v.Set("http-transport.api-endpoint", rg.srv.URL)
		v.Set("http-transport.compression-level", lvl)
		v.Set("http-transport.max-request-elapsed-time", "300ms")
		v.Set("http-transport.consolidator-slots", 1)
		h, err = statsd.NewHttpForwarderHandlerV2FromViper(rg.logger, v, pool, fc)
	} else {
		compress, ty := true, ct
		if ct == "off" {
			compress, ty = false, "zlib"
		}
		h, err = statsd.NewHttpForwarderHandlerV2(rg.logger, "default", rg.srv.URL, 1, 1, 1, compress, ty, lvl,
			300*time.Millisecond, time.Second, nil, nil, pool, fc)
	}
	if err != nil {
		return nil, err
	}
	ctx, cancel := context.WithCancel(context.Background())
	go h.Run(ctx)
	return &fwdInst{h: h, fc: fc, cancel: cancel}, nil
}

func (rg *rig) forwarder(ct string, lvl int) (*fwdInst, error) {
	key := fmt.Sprintf("%s/%d", ct, lvl)
	if f, ok := rg.fwd[key]; ok {
		return f, nil
	}
	rg.cap.reset()
	f, err := rg.newForwarder(ct, lvl)
	if err != nil {
		return nil, err
	}
	if !rg.waitReqs(1, 10*time.Second) { // the start-up nop
		return nil, errors.New("no start-up post")
	}
	rg.fwd[key] = f
	return f, nil
}

func maskAndCheckTs(mm *gostatsd.MetricMap, lo, hi time.Time) bool {
	ok := true
	var first gostatsd.Nanotime
	seen := false
	chk := func(ts gostatsd.Nanotime) {
		if !seen {
			first, seen = ts, true
		}
		if ts != first || int64(ts) < lo.UnixNano() || int64(ts) > hi.UnixNano() {
			ok = false
		}
	}
	for n, m := range mm.Counters {
		for t, v := range m {
			chk(v.Timestamp)
			v.Timestamp = 0
			mm.Counters[n][t] = v
		}
	}
	for n, m := range mm.Gauges {
		for t, v := range m {
			chk(v.Timestamp)
			v.Timestamp = 0
			mm.Gauges[n][t] = v
		}
	}
	for n, m := range mm.Timers {
		for t, v := range m {
			chk(v.Timestamp)
			v.Timestamp = 0
			mm.Timers[n][t] = v
		}
	}
	for n, m := range mm.Sets {
		for t, v := range m {
			chk(v.Timestamp)
			v.Timestamp = 0
			mm.Sets[n][t] = v
		}
	}
	return ok
}

func renderEvent(e *gostatsd.Event) string { return "E " + eventToks(e) }

// observed renders what the capture saw since the last reset.
func (rg *rig) observed(enc string) string {
	after := time.Now()
	rg.cap.mu.Lock()
	defer rg.cap.mu.Unlock()
	if len(rg.cap.reqs) == 0 {
		return "NOSEND"
	}
	payload := []string{}
	for _, mm := range rg.cap.maps {
		if !maskAndCheckTs(mm, rg.cap.before.Add(-time.Millisecond), after.Add(time.Millisecond)) {
			return "BADTS"
		}
		payload = append(payload, mmc.Render(mm))
	}
	for _, e := range rg.cap.events {
		payload = append(payload, renderEvent(e))
	}
	p := "-"
	if len(payload) > 0 {
		p = strings.Join(payload, " & ")
	}
	if enc == "" {
		enc = rg.cap.reqs[0].enc
	}
	return fmt.Sprintf("%d %s %d | %s", rg.cap.reqs[0].status, enc, len(rg.cap.maps)+len(rg.cap.events), p)
}

type failReader struct {
	data []byte
	off  int
}

func (f *failReader) Read(p []byte) (int, error) {
	if f.off >= len(f.data)/2 {
		return 0, errors.New("verif: connection reset while reading the body")
	}
	n := copy(p, f.data[f.off:len(f.data)/2])
	f.off += n
	return n, nil
}
func (f *failReader) Close() error { return nil }

func (rg *rig) runCase(line string) string {
	toks := hx.Tokens(line)
	if len(toks) == 0 {
		return "BAD_CASE"
	}
	switch toks[0] {
	case "n":
		if len(toks) != 3 {
			return "BAD_CASE"
		}
		lvl, _ := strconv.Atoi(toks[2])
		rg.cap.reset()
		f, err := rg.newForwarder(toks[1], lvl)
		if err != nil {
			return "ERR " + err.Error()
		}
		defer f.cancel()
		if !rg.waitReqs(1, 10*time.Second) {
			return "NOSEND"
		}
		return rg.observed("")
	case "m":
		if len(toks) < 3 {
			return "BAD_CASE"
		}
		lvl, _ := strconv.Atoi(toks[2])
		f, err := rg.forwarder(toks[1], lvl)
		if err != nil {
			return "ERR " + err.Error()
		}
		mm := mmc.ParseMap(toks[3:])
		rg.cap.reset()
		f.h.DispatchMetricMap(context.Background(), mm)
		f.fc.Flush()
		f.fc.WaitForFlush()
		return rg.observed("")
	case "e":
		if len(toks) < 13 || toks[3] != ";" {
			return "BAD_CASE"
		}
		lvl, _ := strconv.Atoi(toks[2])
		f, err := rg.forwarder(toks[1], lvl)
		if err != nil {
			return "ERR " + err.Error()
		}
		t := toks[4:]
		e := &gostatsd.Event{Title: hx.MustUnS(t[0]), Text: hx.MustUnS(t[1]), DateHappened: hx.MustInt(t[2]), AggregationKey: hx.MustUnS(t[3]),
			SourceTypeName: hx.MustUnS(t[4]), Source: gostatsd.Source(hx.MustUnS(t[5])),
			Priority: gostatsd.Priority(hx.MustInt(t[6])), AlertType: gostatsd.AlertType(hx.MustInt(t[7]))}
		nt := int(hx.MustInt(t[8]))
		for i := 0; i < nt; i++ {
			e.Tags = append(e.Tags, hx.MustUnS(t[9+i]))
		}
		rg.cap.reset()
		f.h.DispatchEvent(context.Background(), e)
		f.h.WaitForEvents()
		return rg.observed("")
	case "b":
		if len(toks) < 5 {
			return "BAD_CASE"
		}
		route, encTok, read := toks[1], toks[2], toks[3]
		body := []byte(hx.MustUnS(toks[4]))
		rg.cap.reset()
		if read == "fail" {
			req := httptest.NewRequest("POST", "/v2/"+route, nil)
			req.Body = &failReader{data: body}
			if encTok != "-" {
				req.Header.Set("Content-Encoding", hx.MustUnS(encTok))
			}
			rec := httptest.NewRecorder()
			sw := &statusWriter{ResponseWriter: rec}
			rg.router.ServeHTTP(sw, req)
			rg.cap.mu.Lock()
			rg.cap.reqs = append(rg.cap.reqs, reqInfo{status: rec.Code})
			rg.cap.mu.Unlock()
			return rg.observed("-")
		}
		req, err := http.NewRequest("POST", rg.srv.URL+"/v2/"+route, bytes.NewReader(body))
		if err != nil {
			return "ERR " + err.Error()
		}
		if encTok != "-" {
			req.Header["Content-Encoding"] = []string{hx.MustUnS(encTok)}
		}
		resp, err := rg.client.Do(req)
		if err != nil {
			return "CONNERR " + err.Error()
		}
		_, _ = io.Copy(io.Discard, resp.Body)
		resp.Body.Close()
		rg.waitReqs(1, 5*time.Second)
		out := rg.observed("-")
		if !strings.HasPrefix(out, strconv.Itoa(resp.StatusCode)+" ") {
			return fmt.Sprintf("STATUS_MISMATCH client=%d server=%s", resp.StatusCode, out)
		}
		return out
	}
	return "BAD_CASE"
}

func (rg *rig) runOne(line string) string {
	done := make(chan string, 1)
	go func() {
		defer func() {
			if e := recover(); e != nil {
				done <- fmt.Sprintf("PANIC %v", e)
			}
		}()
		done <- rg.runCase(line)
	}()
	select {
	case s := <-done:
		return s
	case <-time.After(30 * time.Second):
		// the rig may be wedged: start over with fresh forwarders
		rg.fwd = map[string]*fwdInst{}
		return "HANG"
	}
}

var _ = utf8.ValidString

func main() {
	if len(os.Args) < 2 {
		fmt.Fprintln(os.Stderr, "usage: c14 gen|run")
		os.Exit(2)
	}
	switch os.Args[1] {
	case "gen":
		gen(os.Args[2:])
	case "mkb":
		// c14 mkb ROUTE ENC|- READ BODYHEX : prints the complete b-case (oracle columns from the real libraries); for writing corpus files
		a := os.Args[2:]
		if len(a) != 4 {
			os.Exit(2)
		}
		encTok := "-"
		if a[1] != "-" {
			encTok = hx.S(a[1])
		}
		body := []byte(hx.MustUnS("x" + a[3]))
		fmt.Printf("b %s %s %s %s | %s\n", a[0], encTok, a[2], hx.B(body), oracleCols(a[0], body))
	case "run":
		rg := newRig()
		hx.Lines(func(line string) {
			fmt.Fprintln(hx.Out, rg.runOne(line))
			hx.Out.Flush()
		})
		hx.Out.Flush()
	default:
		os.Exit(2)
	}
}
