//go:build verif

// c05: correspondence harness for C05 (lines of a datagram are independent; no aliasing).
//
//	c05 gen [--n N] [--tier quick|thorough] [--stats file]
//	c05 run
//
// Case:  xNS IGNOREHOST EXTRACAP xIP TS [xQUERY ANSWER]* xDATAGRAM
//
// Output of `run` (one line):
//
//	OK bad=B mrecv=M erecv=E | <event> | <event> … || <series> ; <series> … ### <line alone> ; <line alone> …
//
// The part before ### is what the real DatagramParser dispatched for the one-datagram batch (its own
// counters, the events in order, the MetricMap sorted); the part after ### is what the real lexer
// returns for each line of the datagram *alone* (fresh copy of the line).  PANIC / HANG when the
// parser goroutine died / did not finish; the suffix " ALIASING <what>" when the dispatched result
// changed after the buffer was overwritten with 0xAA, the GC forced and a second datagram parsed
// through the same parser (run-time-only half of the property).
package main

import (
	"bytes"
	"context"
	"fmt"
	"math"
	"os"
	"os/exec"
	"runtime"
	"sort"
	"strconv"
	"strings"
	"time"

	"github.com/atlassian/gostatsd"

	"verifharness/internal/dgrun"
	"verifharness/internal/hx"
	"verifharness/internal/lexcase"
)

// ------------------------------------------------------------------------------------ generator

var (
	names    = []string{"a", "b", "g", "web.hits", "x/y z", "$m$", "a$b", "g", "g", "t"}
	gvalues  = []string{"1", "2", "3", "0.5", "-1", "10", "7", "2.5"}
	cvalues  = []string{"1", "2", "5", "10", "100", "-3", "7"}
	crates   = []string{"", "", "", "|@1", "|@0.5", "|@0.25", "|@0.125", "|@0.1", "|@0", "|@nan"}
	tagsets  = []string{"", "", "|#a", "|#b,a", "|#a,b", "|#host:h1", "|#x,host:h1,y", "|#host:h1,host:h2", "|#k:v,,z", "|#hostx:1", "|#host:", "|#host,host:h3,e:x", "|#host", "|#a,b,c,d,e", "|#t1,t2,t3"}
	badLines = []string{"", "bad", "a:1", "a:1|x", ":1|c", "$$:1|c", "a:nan|c", "a:1|c|@x", "_e{1,9}:a|b", "_x", "a:1|cc", "\r", "a:1|c\r"}
	events   = []string{"_e{1,1}:a|b", "_e{2,3}:ab|x\\n|p:low|#q,r", "_e{1,1}:a|b|h:myhost|d:42|t:error", "_e{0,0}:|"}
)

func genLine(r *hx.Rng) (string, string) {
	switch k := r.Intn(20); {
	case k < 6: // gauges on few series: several lines of one datagram hit the same gauge
		return hx.Pick(r, []string{"g", "g", "gg", "x/y z"}) + ":" + hx.Pick(r, gvalues) + "|g" + hx.Pick(r, tagsets[:5]), "gauge"
	case k < 10:
		return hx.Pick(r, names) + ":" + hx.Pick(r, cvalues) + "|c" + hx.Pick(r, crates) + hx.Pick(r, tagsets), "counter"
	case k < 12:
		return hx.Pick(r, names) + ":" + hx.Pick(r, gvalues) + "|" + hx.Pick(r, []string{"ms", "h"}) + hx.Pick(r, crates) + hx.Pick(r, tagsets), "timer"
	case k < 14:
		return hx.Pick(r, names) + ":" + hx.Pick(r, []string{"u1", "u2", "", "x y"}) + "|s" + hx.Pick(r, tagsets), "set"
	case k < 16:
		return hx.Pick(r, events), "event"
	case k < 19:
		return hx.Pick(r, badLines), "bad"
	default: // normalisation-heavy name next to neighbours
		n := r.Range(1, 6)
		b := make([]byte, 0, n*2)
		for i := 0; i < n; i++ {
			b = append(b, hx.Pick(r, []byte("$%&{}~!*")), hx.Pick(r, []byte("abc/ \t.-_")))
		}
		return string(b) + ":" + hx.Pick(r, cvalues) + "|c", "normalise"
	}
}

func mkCase(ns string, ignoreHost bool, extra int, ip string, ts int64, dg []byte) string {
	toks := []string{hx.S(ns), "0", strconv.Itoa(extra), hx.S(ip), strconv.FormatInt(ts, 10)}
	if ignoreHost {
		toks[1] = "1"
	}
	toks = append(toks, lexcase.OracleTokens(bytes.Split(dg, []byte{'\n'})...)...)
	toks = append(toks, hx.B(dg))
	return strings.Join(toks, " ")
}

func gen(args []string) {
	r := hx.NewRng(hx.Seed()).Fork()
	n := hx.ArgInt(args, "--n", 3000)
	st := hx.NewStats("one-datagram batches of 0-8 lines mixing valid lines of all types (several lines on the same gauge series), events, invalid lines, empty lines, CR variants and names needing in-place normalisation, with and without trailing newline, ignore-host on/off, namespaces, buffer capacities; non-trivial = at least two lines of which at least one is rejected or normalised or repeats a gauge; distinct by case text")
	for i := 0; i < n; i++ {
		nl := r.Intn(9)
		var lines []string
		kinds := map[string]int{}
		for j := 0; j < nl; j++ {
			l, k := genLine(r)
			lines = append(lines, l)
			kinds[k]++
		}
		dg := strings.Join(lines, "\n")
		trailing := r.Chance(1, 2)
		if trailing && nl > 0 {
			dg += "\n"
		}
		if r.Chance(1, 30) {
			dg += "\n" // a second trailing newline: one more (empty, bad) line
		}
		ns := hx.Pick(r, []string{"", "", "ns"})
		ih := r.Chance(1, 3)
		c := mkCase(ns, ih, r.Intn(3)*64+r.Intn(4), hx.Pick(r, []string{"10.0.0.1", "10.0.0.2", ""}), int64(1000+r.Intn(5)), []byte(dg))
		st.Case(c, nl >= 2 && (kinds["bad"]+kinds["normalise"] > 0 || kinds["gauge"] >= 2))
		st.Hit(fmt.Sprintf("lines:%d", nl))
		for k, v := range kinds {
			if v > 0 {
				st.Hit("has:" + k)
			}
		}
		if kinds["gauge"] >= 2 {
			st.Hit("has:repeated-gauge-candidates")
		}
		st.Hit(map[bool]string{true: "trailing-newline", false: "no-trailing-newline"}[trailing])
		st.Hit(map[bool]string{true: "ignore-host", false: "sender-source"}[ih])
		fmt.Fprintln(hx.Out, c)
	}
	hx.Out.Flush()
	st.Write(hx.Arg(args, "--stats", ""))
}

// ------------------------------------------------------------------------------------------ run

func tagsToks(t gostatsd.Tags) string {
	var b strings.Builder
	for _, x := range t {
		b.WriteString(" " + hx.S(x))
	}
	return b.String()
}

// nice reports whether a counter contribution int64(v/rate) is exactly representable (so that the
// model's arithmetic is certainly the code's): rate finite and > 0, quotient finite and < 2^62.
type lineInfo struct {
	key  string // type \x00 name \x00 tagsKey, as the map will key it (computed from the line alone)
	nice bool
}

func renderMap(mm *gostatsd.MetricMap, notNice map[string]bool) string {
	if mm == nil {
		return "-"
	}
	var es []string
	mm.Counters.Each(func(n, k string, c gostatsd.Counter) {
		v := strconv.FormatInt(c.Value, 10)
		if notNice["c\x00"+n+"\x00"+k] {
			v = "?"
		}
		es = append(es, "c "+hx.S(n)+" "+hx.S(k)+" "+v+" "+strconv.FormatInt(int64(c.Timestamp), 10)+" "+hx.S(string(c.Source))+tagsToks(c.Tags))
	})
	mm.Gauges.Each(func(n, k string, g gostatsd.Gauge) {
		es = append(es, "g "+hx.S(n)+" "+hx.S(k)+" "+hx.F(g.Value)+" "+strconv.FormatInt(int64(g.Timestamp), 10)+" "+hx.S(string(g.Source))+tagsToks(g.Tags))
	})
	mm.Timers.Each(func(n, k string, t gostatsd.Timer) {
		sc := hx.F(t.SampledCount)
		if notNice["t\x00"+n+"\x00"+k] {
			sc = "?"
		}
		vs := make([]string, len(t.Values))
		for i, v := range t.Values {
			vs[i] = hx.F(v)
		}
		es = append(es, "t "+hx.S(n)+" "+hx.S(k)+" "+sc+" ["+strings.Join(vs, ",")+"] "+strconv.FormatInt(int64(t.Timestamp), 10)+" "+hx.S(string(t.Source))+tagsToks(t.Tags))
	})
	mm.Sets.Each(func(n, k string, s gostatsd.Set) {
		mem := make([]string, 0, len(s.Values))
		for v := range s.Values {
			mem = append(mem, hx.S(v))
		}
		sort.Strings(mem)
		es = append(es, "s "+hx.S(n)+" "+hx.S(k)+" ["+strings.Join(mem, ",")+"] "+strconv.FormatInt(int64(s.Timestamp), 10)+" "+hx.S(string(s.Source))+tagsToks(s.Tags))
	})
	if len(es) == 0 {
		return "-"
	}
	sort.Strings(es)
	return strings.Join(es, " ; ")
}

func renderEvents(evs []*gostatsd.Event, before, after int64) string {
	var b strings.Builder
	for _, e := range evs {
		s := lexcase.RenderEvent(e)
		toks := strings.Split(s, " ")
		if e.DateHappened >= before && e.DateHappened <= after {
			toks[3] = "NOW"
		}
		b.WriteString(" | " + strings.Join(toks, " "))
	}
	return b.String()
}

var secondBatch = []byte("zz.alias:1|c|#aa,bb\nzz.alias2:2|g|#cc\nzz.set:x|s|#dd\n")

func runOne(c string) (out string) {
	defer func() {
		if e := recover(); e != nil {
			fmt.Fprintf(os.Stderr, "harness-level panic: %v\n", e)
			out = "PANIC"
		}
	}()
	toks := hx.Tokens(c)
	if len(toks) < 6 {
		return "BAD_CASE"
	}
	ns := hx.MustUnS(toks[0])
	ignoreHost := toks[1] == "1"
	extra, _ := strconv.Atoi(toks[2])
	ip := hx.MustUnS(toks[3])
	ts, _ := strconv.ParseInt(toks[4], 10, 64)
	dg := []byte(hx.MustUnS(toks[len(toks)-1]))
	// oracle column
	have := map[string]bool{}
	mid := toks[5 : len(toks)-1]
	for i := 0; i+1 < len(mid); i += 2 {
		q := hx.MustUnS(mid[i])
		if lexcase.Answer([]byte(q)) != mid[i+1] {
			return "ORACLE_INCONSISTENT " + mid[i]
		}
		have[q] = true
	}
	rawLines := bytes.Split(dg, []byte{'\n'})
	for _, line := range rawLines {
		for _, q := range lexcase.Candidates(line) {
			if !have[string(q)] {
				return "ORACLE_MISS"
			}
		}
	}
	// the lines as handleDatagram sees them: a last segment without newline is a line only if non-empty
	lines := rawLines
	if len(lines) > 0 && len(lines[len(lines)-1]) == 0 {
		lines = lines[:len(lines)-1]
	}

	// each line alone, through the real lexer (fresh copy), and which series get a contribution whose
	// arithmetic the model does not claim to reproduce
	notNice := map[string]bool{}
	alone := make([]string, len(lines))
	for i, line := range lines {
		buf := lexcase.Buffer(line, len(line))
		m, e, err := lexLine(buf, ns)
		switch {
		case err != "":
			alone[i] = err
		case m != nil:
			alone[i] = lexcase.RenderMetric(m)
			src := gostatsd.Source(ip)
			tags := m.Tags
			if ignoreHost {
				src = ""
				for idx, tag := range tags {
					if strings.HasPrefix(tag, "host:") {
						src = gostatsd.Source(tag[5:])
						tags = append(append(gostatsd.Tags{}, tags[:idx]...), tags[idx+1:]...)
						break
					}
				}
			}
			key := gostatsd.FormatTagsKey(src, tags.Copy())
			rateOK := !math.IsNaN(m.Rate) && !math.IsInf(m.Rate, 0) && m.Rate > 0
			switch m.Type {
			case gostatsd.COUNTER:
				q := m.Value / m.Rate
				if !rateOK || math.IsNaN(q) || math.Abs(q) >= 1<<62 {
					notNice["c\x00"+m.Name+"\x00"+key] = true
				}
			case gostatsd.TIMER:
				if !rateOK {
					notNice["t\x00"+m.Name+"\x00"+key] = true
				}
			}
		case e != nil:
			alone[i] = lexcase.RenderEvent(e)
		}
	}

	buf := lexcase.Buffer(dg, len(dg)+extra)
	before := time.Now().Unix()
	var first string
	scribble := func(mm *gostatsd.MetricMap, evs []*gostatsd.Event) {
		// what was dispatched, read while the buffer is still intact …
		first = renderEvents(evs, before, time.Now().Unix()) + " || " + renderMap(mm, notNice)
		// … then nothing produced from the datagram may still point into its buffer
		full := buf[:cap(buf)]
		for i := range full {
			full[i] = 0xAA
		}
		// no GC here: the second datagram must find the first one's metrics in the pool (sync.Pool is
		// emptied by GC) so that pooled objects and tag slices are really reused
	}
	second := lexcase.Buffer(secondBatch, len(secondBatch))
	// the low two bits of EXTRACAP select the parser's estimated-tags setting (0, 1, 2, 4)
	res := dgrun.Run3(ns, ignoreHost, dgrun.EstimatedTags(extra), []dgrun.Dg{{IP: ip, Ts: ts, Msg: buf}}, scribble, []dgrun.Dg{{IP: "9.9.9.9", Ts: ts + 1, Msg: second}})
	after := time.Now().Unix()
	if res.Panic != "" {
		fmt.Fprintf(os.Stderr, "DatagramParser panic on %s: %s\n", hx.B(dg), res.Panic)
		return "PANIC"
	}
	if res.Hang {
		return "HANG"
	}
	// aliasing / pool reuse: after the scribble, two GCs and a second datagram through the same parser
	// and metric pool, the first result must read exactly as before
	runtime.GC()
	runtime.GC()
	again := renderEvents(res.Events, before, after) + " || " + renderMap(res.Map, notNice)
	alias := ""
	if again != first {
		alias = " ALIASING result-changed-after-buffer-overwrite"
	}
	// history independence: the same buffer, rewritten in place with a sibling datagram (same layout, every digit
	// replaced by another), goes through the same parser once more; it must parse to what a fresh parser makes
	// of those bytes (nothing the parser remembers from the first datagram may point into the buffer)
	if sib := sibling(dg); alias == "" && !bytes.Equal(sib, dg) {
		hbuf := lexcase.Buffer(dg, len(dg)+extra)
		est := dgrun.EstimatedTags(extra)
		rh := dgrun.Run3(ns, ignoreHost, est, []dgrun.Dg{{IP: ip, Ts: ts, Msg: hbuf}},
			func(*gostatsd.MetricMap, []*gostatsd.Event) { copy(hbuf, sib) }, []dgrun.Dg{{IP: ip, Ts: ts, Msg: hbuf}})
		fresh := dgrun.Run3(ns, ignoreHost, est, []dgrun.Dg{{IP: ip, Ts: ts, Msg: append([]byte(nil), sib...)}}, nil, nil)
		end := time.Now().Unix() + 1
		if rh.Panic == "" && !rh.Hang && fresh.Panic == "" && !fresh.Hang {
			a := renderEvents(rh.SecondEvents, before, end) + " || " + renderMap(rh.SecondMap, nil)
			b := renderEvents(fresh.Events, before, end) + " || " + renderMap(fresh.Map, nil)
			if a != b {
				alias = " ALIASING second-datagram-in-the-same-buffer-parsed-differently"
			}
		}
	}
	// the second datagram went through the same parser and pool: its 3 metrics are in the counters
	mrecv := int64(res.MetricsReceived) - 3
	return fmt.Sprintf("OK bad=%d mrecv=%d erecv=%d%s ### %s%s", res.BadLines, mrecv, res.EventsReceived, first, strings.Join(alone, " ; "), alias)
}

// sibling replaces every decimal digit by another one (the layout, and so every offset and length, stays)
func sibling(dg []byte) []byte {
	out := append([]byte(nil), dg...)
	for i, b := range out {
		if b >= '0' && b <= '9' {
			out[i] = '0' + (b-'0'+4)%10
		}
	}
	return out
}

// rcvOne (child process, see rcv.go): does the case's datagram parse to the same thing when it comes
// through the real receiver and is held while the receiver reads on?
func rcvOne(c string) (out string) {
	defer func() {
		if e := recover(); e != nil {
			out = fmt.Sprintf("diff PANIC %v", e)
		}
	}()
	toks := hx.Tokens(c)
	if len(toks) < 6 {
		return "skip"
	}
	ns := hx.MustUnS(toks[0])
	ignoreHost := toks[1] == "1"
	ip := hx.MustUnS(toks[3])
	ts, _ := strconv.ParseInt(toks[4], 10, 64)
	dg := []byte(hx.MustUnS(toks[len(toks)-1]))
	if len(dg) > 60000 {
		return "skip"
	}
	before := time.Now().Unix()
	render := func(mm *gostatsd.MetricMap, evs []*gostatsd.Event) string {
		return renderEvents(evs, before, time.Now().Unix()+1) + " || " + renderMap(mm, nil)
	}
	var direct string
	res := dgrun.Run(ns, ignoreHost, []dgrun.Dg{{IP: ip, Ts: ts, Msg: append([]byte(nil), dg...)}}, func(mm *gostatsd.MetricMap, evs []*gostatsd.Event) {
		direct = render(mm, evs)
	})
	if res.Panic != "" || res.Hang {
		return "skip" // the main run reports it
	}
	via, problem := viaReceiver(ns, ignoreHost, ip, ts, dg, render)
	if problem != "" {
		return "diff " + problem
	}
	if via != direct {
		return "diff"
	}
	return "same"
}

func lexLine(buf []byte, ns string) (m *gostatsd.Metric, e *gostatsd.Event, errName string) {
	defer func() {
		if r := recover(); r != nil {
			m, e, errName = nil, nil, "PANIC"
		}
	}()
	out, _ := lexcase.LexRaw(ns, buf)
	return out.M, out.E, out.Err
}

func main() {
	if len(os.Args) < 2 {
		fmt.Fprintln(os.Stderr, "usage: c05 gen|run")
		os.Exit(2)
	}
	switch os.Args[1] {
	case "gen":
		gen(os.Args[2:])
	case "rcv":
		rcvMain()
	case "run":
		var lines []string
		hx.Lines(func(line string) { lines = append(lines, line) })
		// receiver mode for all cases in one child process with a single P and no garbage collection
		rcv := make([]string, len(lines))
		exe, _ := os.Executable()
		// (with a time limit: a receiver that stops handing datagrams on is an outcome, not a reason to stall the run)
		rcvCtx, rcvCancel := context.WithTimeout(context.Background(), 120*time.Second+time.Duration(len(lines))*20*time.Millisecond)
		child := exec.CommandContext(rcvCtx, exe, "rcv")
		child.Env = append(os.Environ(), "GOMAXPROCS=1", "GOGC=off")
		child.Stdin = strings.NewReader(strings.Join(lines, "\n") + "\n")
		if outB, err := child.Output(); err == nil {
			got := strings.Split(strings.TrimRight(string(outB), "\n"), "\n")
			if len(got) == len(lines) {
				rcv = got
			}
		}
		rcvStalled := rcvCtx.Err() != nil
		rcvCancel()
		addrProblem := ""
		if !rcvStalled {
			addrProblem = senderProbe()
		}
		for i, line := range lines {
			o := runOne(line)
			if rcvStalled && strings.HasPrefix(o, "OK ") {
				o += " RCVHANG"
				rcvStalled = false
			}
			if addrProblem != "" && strings.HasPrefix(o, "OK ") {
				o += " RCVADDR " + strings.ReplaceAll(addrProblem, " ", "_")
				addrProblem = ""
			}
			if strings.HasPrefix(rcv[i], "diff") && strings.HasPrefix(o, "OK ") {
				o += " RCVALIAS receiver-buffer-overwritten " + strings.TrimPrefix(rcv[i], "diff")
			}
			fmt.Fprintln(hx.Out, o)
			hx.Out.Flush()
		}
		hx.Out.Flush()
	case "mk": // c05 mk NS IGNOREHOST "go-quoted datagram" ...
		for _, q := range os.Args[4:] {
			s, err := strconv.Unquote(`"` + q + `"`)
			if err != nil {
				fmt.Fprintln(os.Stderr, "bad quoted string", q, err)
				os.Exit(2)
			}
			fmt.Println(mkCase(os.Args[2], os.Args[3] == "1", 0, "10.0.0.1", 1000, []byte(s)))
		}
	default:
		os.Exit(2)
	}
}
