package main

// Receiver mode: the case's datagram travels through the real DatagramReceiver (fake net.PacketConn,
// the receiver's own buffer pool) before it reaches the real DatagramParser, and is held between the
// two while the receiver reads the following datagrams.  A buffer that is handed back to the pool
// too early, or handed back although the reader still owns it, is overwritten by those reads and the
// held datagram no longer parses to what it parses to on its own.
//
// sync.Pool decides whether a returned buffer is handed out again; with one P and the collector
// switched off that decision is deterministic, so this mode runs in a child process
// (`c05 rcv`, GOMAXPROCS=1, GOGC=off) that handles all cases of the run.

import (
	"context"
	"errors"
	"fmt"
	"io"
	"net"
	"sync"
	"time"

	"github.com/atlassian/gostatsd"
	"github.com/atlassian/gostatsd/pkg/statsd"
	"github.com/sirupsen/logrus"

	"verifharness/internal/dgrun"
	"verifharness/internal/hx"
)

type fakeConn struct {
	mu     sync.Mutex
	queue  [][]byte
	reads  int // completed reads
	allow  int // reads allowed so far
	cond   *sync.Cond
	closed bool
}

func newFakeConn(dgs [][]byte) *fakeConn {
	c := &fakeConn{queue: dgs}
	c.cond = sync.NewCond(&c.mu)
	return c
}

func (c *fakeConn) ReadFrom(p []byte) (int, net.Addr, error) {
	c.mu.Lock()
	defer c.mu.Unlock()
	for !c.closed && (c.reads >= c.allow || c.reads >= len(c.queue)) {
		c.cond.Wait()
	}
	if c.closed {
		return 0, nil, errors.New("use of closed network connection")
	}
	n := copy(p, c.queue[c.reads])
	c.reads++
	c.cond.Broadcast()
	return n, &net.UDPAddr{IP: net.IPv4(192, 0, 2, 1), Port: 1}, nil
}

func (c *fakeConn) permit(n int) {
	c.mu.Lock()
	if n > c.allow {
		c.allow = n
	}
	c.cond.Broadcast()
	c.mu.Unlock()
}

func (c *fakeConn) waitReads(n int, d time.Duration) bool {
	deadline := time.Now().Add(d)
	c.mu.Lock()
	defer c.mu.Unlock()
	for c.reads < n {
		if time.Now().After(deadline) {
			return false
		}
		c.mu.Unlock()
		time.Sleep(20 * time.Microsecond)
		c.mu.Lock()
	}
	return true
}

func (c *fakeConn) WriteTo([]byte, net.Addr) (int, error) { return 0, io.EOF }
func (c *fakeConn) Close() error {
	c.mu.Lock()
	c.closed = true
	c.cond.Broadcast()
	c.mu.Unlock()
	return nil
}
func (c *fakeConn) LocalAddr() net.Addr              { return &net.UDPAddr{IP: net.IPv4(127, 0, 0, 1), Port: 8125} }
func (c *fakeConn) SetDeadline(time.Time) error      { return nil }
func (c *fakeConn) SetReadDeadline(time.Time) error  { return nil }
func (c *fakeConn) SetWriteDeadline(time.Time) error { return nil }

var fillers = [][]byte{
	[]byte("zz.fill0:1|c|#ff:0\nzz.fill0:2|g"),
	[]byte("zz.fill1.overwriting.the.buffer.with.something.long.enough:1|c|#ff:1,gg:1,hh:1\nzz.fill1:xyz|s\nzz.fill1:5|ms|@0.5\n"),
	[]byte("zz.fill2.more.bytes.more.bytes.more.bytes.more.bytes.more.bytes:2|c|#ff:2\n_e{4,4}:fill|fill|#ff:2\nzz.fill2:7|g\n"),
}

// viaReceiver parses datagram x on the route receiver → (held) → parser and renders the result.
func viaReceiver(ns string, ignoreHost bool, ip string, ts int64, x []byte, render func(*gostatsd.MetricMap, []*gostatsd.Event) string) (string, string) {
	conn := newFakeConn([][]byte{fillers[0], x, fillers[1], fillers[2]})
	out := make(chan []*statsd.Datagram)
	rcv := statsd.NewDatagramReceiver(out, func() (net.PacketConn, error) { return conn, nil }, 1, 1)
	ctx, cancel := context.WithCancel(context.Background())
	defer cancel()
	go rcv.Receive(ctx, conn)
	defer conn.Close()

	capt := &dgrun.Capture{}
	in := make(chan []*statsd.Datagram)
	logger := logrus.New()
	logger.SetOutput(io.Discard)
	dp := statsd.NewDatagramParser(in, ns, ignoreHost, 0, capt, 0, false, logger)
	go dp.Run(ctx)

	timeout := time.After(20 * time.Second)
	recv := func() []*statsd.Datagram {
		select {
		case b := <-out:
			return b
		case <-timeout:
			return nil
		}
	}
	// forward a batch to the parser and wait until the parser has finished it (it takes the next batch
	// only then), i.e. until every DoneFunc of the batch has run
	parse := func(b []*statsd.Datagram) bool {
		for _, send := range [][]*statsd.Datagram{b, {}} {
			select {
			case in <- send:
			case <-timeout:
				return false
			}
		}
		return true
	}

	conn.permit(1)
	f0 := recv() // filler 0; the reader is now waiting for permission to read x into its next buffer
	if f0 == nil || !parse(f0) {
		return "", "HANG receiver filler0"
	}
	conn.permit(2)
	bx := recv() // the case's datagram, held here
	if bx == nil {
		return "", "HANG receiver x"
	}
	conn.permit(4)
	// the reader goes on: filler 1 is read while x is held; filler 2 needs x's successor to be taken first
	if !conn.waitReads(3, 10*time.Second) {
		return "", "HANG receiver filler1"
	}
	capt.Reset()
	for _, d := range bx {
		d.IP = gostatsd.Source(ip)
		d.Timestamp = gostatsd.Nanotime(ts)
	}
	if !parse(bx) {
		return "", "HANG parser x"
	}
	mm, evs := capt.First()
	return render(mm, evs), ""
}

func rcvMain() {
	hx.Lines(func(line string) {
		fmt.Fprintln(hx.Out, rcvOne(line))
		hx.Out.Flush()
	})
}

// addrConn hands out datagrams from scripted sender addresses.
type addrConn struct {
	fakeConn
	addrs []net.Addr
}

func (c *addrConn) ReadFrom(p []byte) (int, net.Addr, error) {
	c.mu.Lock()
	defer c.mu.Unlock()
	if c.closed || c.reads >= len(c.queue) {
		for !c.closed {
			c.cond.Wait()
		}
		return 0, nil, errors.New("use of closed network connection")
	}
	n := copy(p, c.queue[c.reads])
	a := c.addrs[c.reads]
	c.reads++
	return n, a, nil
}

// senderProbe: datagrams from several IPv4 and IPv6 senders through one reader of the real receiver; every datagram
// must be attributed to its own sender ("" = fine).
func senderProbe() string {
	senders := []string{"10.0.0.1", "2001:db8::1", "2001:db8::2", "10.0.0.2", "fd00::17", "2001:db8::1", "10.0.0.1", "::1"}
	conn := &addrConn{}
	conn.cond = sync.NewCond(&conn.mu)
	for i, s := range senders {
		conn.queue = append(conn.queue, []byte(fmt.Sprintf("probe%d:1|c", i)))
		conn.addrs = append(conn.addrs, &net.UDPAddr{IP: net.ParseIP(s), Port: 4000 + i})
	}
	out := make(chan []*statsd.Datagram)
	rcv := statsd.NewDatagramReceiver(out, func() (net.PacketConn, error) { return conn, nil }, 1, 3)
	ctx, cancel := context.WithCancel(context.Background())
	defer cancel()
	defer conn.Close()
	go func() {
		defer func() { _ = recover() }()
		rcv.Receive(ctx, conn)
	}()
	got := []string{}
	timeout := time.After(10 * time.Second)
	for len(got) < len(senders) {
		select {
		case b := <-out:
			for _, d := range b {
				if d == nil {
					return "nil datagram in a batch"
				}
				got = append(got, string(d.IP))
				if d.DoneFunc != nil {
					d.DoneFunc()
				}
			}
		case <-timeout:
			return fmt.Sprintf("only %d of %d datagrams came out of the receiver", len(got), len(senders))
		}
	}
	for i, s := range senders {
		if got[i] != net.ParseIP(s).String() {
			return fmt.Sprintf("datagram %d from %s attributed to %s", i, s, got[i])
		}
	}
	return ""
}
