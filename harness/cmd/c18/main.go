// c18: correspondence harness for C18 (aligned flushing happens exactly on interval boundaries).
//
//	c18 gen [--n N] [--tier quick|thorough] [--stats file]   cases on stdout (VERIF_SEED)
//	c18 run                                                  reads cases, prints what the real code did
//
// Case:  MODE SEC NSEC I OFF ; a D ; n ; r ; ...      (see lean/Gsd/Driver/C18.lean)
//
// MODE T: the real util.NewAlignedTickerWithContext (through pkg/verifhooks) on a tilinna/clock Mock, the
// harness is the consumer of its channel.  MODE F: the real statsd.MetricFlusher in aligned mode on the
// same mock clock, with a recording AggregateProcesser whose Process call blocks until the script
// releases it (a consumer that drains late).
//
// Synchronisation without sleeping: after every clock movement the harness waits until the goroutines
// of the code under test (AlignedTicker.start, MetricFlusher.Run) are *blocked* again (state `select` /
// `chan receive` in a runtime.Stack snapshot).  A channel send wakes its receiver at once (the receiver
// becomes runnable inside the send), so "all of them blocked" after mock.Add has returned means every
// tick of that step has been fully processed: the outcome of a script does not depend on scheduling.
package main

import (
	"context"
	"fmt"
	"math/big"
	"os"
	"runtime"
	"strings"
	"sync/atomic"
	"time"

	"github.com/tilinna/clock"

	"github.com/atlassian/gostatsd"
	"github.com/atlassian/gostatsd/pkg/statsd"
	"github.com/atlassian/gostatsd/pkg/verifhooks"

	"verifharness/internal/hx"
)

const zeroToUnix = 62135596800 // seconds from Go's zero time to the Unix epoch

func absNs(t time.Time) string {
	sec := big.NewInt(t.Unix())
	sec.Add(sec, big.NewInt(zeroToUnix))
	sec.Mul(sec, big.NewInt(1_000_000_000))
	sec.Add(sec, big.NewInt(int64(t.Nanosecond())))
	return sec.String()
}

func mkTime(sec, nsec int64) time.Time { return time.Unix(sec-zeroToUnix, nsec).UTC() }

// ---------------------------------------------------------------------------------- quiescence

// a goroutine is recognised by any frame of the type it serves (whatever the method or closure is called) or by
// the constructor that created it
const (
	fnTicker  = "util.(*AlignedTicker).|util.NewAlignedTicker"
	fnFlusher = "statsd.(*MetricFlusher)."
)

// unsettled counts waits that ran into their deadline: once the goroutines cannot be recognised at all (the code
// was restructured beyond these patterns) every case would spend its deadlines, so later waits give up quickly
var unsettled int32

// goroutineStates returns the wait states of all goroutines that have fn on their stack.
func goroutineStates(fns ...string) map[string][]string {
	buf := make([]byte, 1<<16)
	for {
		n := runtime.Stack(buf, true)
		if n < len(buf) {
			buf = buf[:n]
			break
		}
		buf = make([]byte, 2*len(buf))
	}
	out := map[string][]string{}
	for _, blk := range strings.Split(string(buf), "\n\n") {
		if !strings.HasPrefix(blk, "goroutine ") {
			continue
		}
		a := strings.IndexByte(blk, '[')
		b := strings.IndexByte(blk, ']')
		if a < 0 || b < a {
			continue
		}
		state := blk[a+1 : b]
		if c := strings.IndexByte(state, ','); c >= 0 {
			state = state[:c]
		}
		for _, fn := range fns {
			for _, pat := range strings.Split(fn, "|") {
				if strings.Contains(blk, pat) {
					out[fn] = append(out[fn], state)
					break
				}
			}
		}
	}
	return out
}

func blocked(state string) bool { return state == "select" || state == "chan receive" }

// waitQuiet waits until exactly want[fn] goroutines with fn exist and all of them are blocked.
func waitQuiet(want map[string]int) error {
	fns := make([]string, 0, len(want))
	for fn := range want {
		fns = append(fns, fn)
	}
	limit := 5 * time.Second
	if atomic.LoadInt32(&unsettled) > 20 {
		limit = 20 * time.Millisecond
	}
	deadline := time.Now().Add(limit)
	for spin := 0; ; spin++ {
		st := goroutineStates(fns...)
		ok := true
		for fn, n := range want {
			if len(st[fn]) != n {
				ok = false
			}
			for _, s := range st[fn] {
				if !blocked(s) {
					ok = false
				}
			}
		}
		if ok {
			return nil
		}
		if time.Now().After(deadline) {
			atomic.AddInt32(&unsettled, 1)
			return fmt.Errorf("goroutines did not settle: %v (want %v)", st, want)
		}
		if spin < 200 {
			runtime.Gosched()
		} else {
			time.Sleep(50 * time.Microsecond)
		}
	}
}

// ---------------------------------------------------------------------------------------- run

type caseT struct {
	flusher bool
	start   time.Time
	i, off  time.Duration
	ops     [][]string
}

func parseCase(line string) (*caseT, bool) {
	parts := hx.SplitBy(hx.Tokens(line), ";")
	if len(parts) == 0 || len(parts[0]) != 5 {
		return nil, false
	}
	h := parts[0]
	c := &caseT{flusher: h[0] == "F", start: mkTime(hx.MustInt(h[1]), hx.MustInt(h[2])), i: time.Duration(hx.MustInt(h[3])), off: time.Duration(hx.MustInt(h[4]))}
	if h[0] != "T" && h[0] != "F" || c.i <= 0 {
		return nil, false
	}
	for _, op := range parts[1:] {
		if len(op) > 0 {
			c.ops = append(c.ops, op)
		}
	}
	return c, true
}

func runTicker(c *caseT) (string, error) {
	out := []string{"tr=" + absNs(c.start.Truncate(c.i))}
	mock := clock.NewMock(c.start)
	ctx, cancelCtx := context.WithCancel(clock.Context(context.Background(), mock))
	defer cancelCtx()
	at := verifhooks.NewAlignedTickerWithContext(ctx, c.i, c.off)
	defer func() {
		at.Stop()
		_ = waitQuiet(map[string]int{fnTicker: 0})
	}()
	quiet := map[string]int{fnTicker: 1}
	if err := waitQuiet(quiet); err != nil {
		return "", err
	}
	for _, op := range c.ops {
		switch op[0] {
		case "a":
			mock.Add(time.Duration(hx.MustInt(op[1])))
		case "n":
			_, d := mock.AddNext()
			out = append(out, fmt.Sprintf("w%d", int64(d)))
		case "r":
			select {
			case v := <-at.C:
				out = append(out, "v"+absNs(v))
			default:
				out = append(out, "e")
			}
		default:
			return "BAD_CASE", nil
		}
		if err := waitQuiet(quiet); err != nil {
			return "", err
		}
	}
	select {
	case v := <-at.C:
		out = append(out, "left="+absNs(v))
	default:
		out = append(out, "left=-")
	}
	// the context the ticker was created with ends (shutdown): the clock has not moved, so nothing may come out of the
	// channel any more - a value now (e.g. the zero time of a closed channel) would be taken for a tick by the flusher
	cancelCtx()
	for t0 := time.Now(); time.Since(t0) < 2*time.Millisecond; runtime.Gosched() {
		select {
		case v := <-at.C:
			out = append(out, "after-cancel="+absNs(v))
			return strings.Join(out, " "), nil
		default:
		}
	}
	return strings.Join(out, " "), nil
}

// recProc is the flusher's AggregateProcesser: it records the clock reading and the interval handed to
// Aggregator.Flush, then blocks (slow aggregators) until the script releases it.
type recProc struct {
	mock    *clock.Mock
	events  chan string // one per Process call
	release chan struct{}
}

type recAggr struct{ delta *time.Duration }

func (a recAggr) ReceiveMap(*gostatsd.MetricMap) {}
func (a recAggr) Flush(d time.Duration)          { *a.delta = d }
func (a recAggr) Process(f statsd.ProcessFunc)   { f(gostatsd.NewMetricMap(false)) }
func (a recAggr) Reset()                         {}

func (p *recProc) Process(ctx context.Context, fn statsd.DispatcherProcessFunc) gostatsd.Wait {
	now := p.mock.Now()
	var d time.Duration
	fn(0, recAggr{&d})
	p.events <- fmt.Sprintf("%s,%d", absNs(now), int64(d))
	select {
	case <-p.release:
	case <-ctx.Done():
	}
	return func() {}
}

// scriptBackend answers every flush at once; whether with an error depends on the case (never / the first flush only /
// always): what the backends report must not change when the next flush comes or what elapsed time it is given
type scriptBackend struct {
	mode  int64
	calls int64
}

func (b *scriptBackend) Name() string                                           { return "script" }
func (b *scriptBackend) SendEvent(ctx context.Context, e *gostatsd.Event) error { return nil }
func (b *scriptBackend) SendMetricsAsync(ctx context.Context, mm *gostatsd.MetricMap, cb gostatsd.SendCallback) {
	n := atomic.AddInt64(&b.calls, 1)
	if b.mode == 0 || (b.mode == 1 && n == 1) {
		cb([]error{fmt.Errorf("scripted backend failure")})
		return
	}
	cb(nil)
}

func runFlusher(c *caseT) (string, error) {
	out := []string{"tr=" + absNs(c.start.Truncate(c.i))}
	mock := clock.NewMock(c.start)
	ctx, cancel := context.WithCancel(clock.Context(context.Background(), mock))
	proc := &recProc{mock: mock, events: make(chan string, 64), release: make(chan struct{})}
	fl := statsd.NewMetricFlusher(c.i, c.off, true, proc, []gostatsd.Backend{&scriptBackend{mode: ((c.start.Unix() % 3) + 3) % 3}})
	exited := make(chan struct{})
	go func() { fl.Run(ctx); close(exited) }()
	defer func() {
		cancel()
		select {
		case <-exited:
		case <-time.After(5 * time.Second):
		}
		_ = waitQuiet(map[string]int{fnTicker: 0, fnFlusher: 0})
	}()
	quiet := map[string]int{fnTicker: 1, fnFlusher: 1}
	if err := waitQuiet(quiet); err != nil {
		return "", err
	}
	flushes, busy := 0, false
	drain := func() {
		for {
			select {
			case e := <-proc.events:
				if flushes == 0 {
					// the elapsed time handed to the first flush is measured from whatever the flusher took as its start
					// (the wall clock, the context's clock): the property constrains the later ones only
					if k := strings.IndexByte(e, ','); k >= 0 {
						e = e[:k] + ",FIRST"
					}
				}
				out = append(out, "f"+e)
				flushes++
				busy = true
			default:
				return
			}
		}
	}
	for _, op := range c.ops {
		w := ""
		switch op[0] {
		case "a":
			mock.Add(time.Duration(hx.MustInt(op[1])))
		case "n":
			_, d := mock.AddNext()
			w = fmt.Sprintf("w%d", int64(d))
		case "r":
			if busy {
				proc.release <- struct{}{}
				busy = false
			}
		default:
			return "BAD_CASE", nil
		}
		if err := waitQuiet(quiet); err != nil {
			return "", err
		}
		drain()
		if w != "" {
			out = append(out, w)
		}
	}
	return strings.Join(out, " "), nil
}

func runOne(line string) (out string) {
	defer func() {
		if e := recover(); e != nil {
			out = fmt.Sprintf("PANIC %v", e)
		}
	}()
	c, ok := parseCase(line)
	if !ok {
		return "BAD_CASE"
	}
	var err error
	for attempt := 0; attempt < 3; attempt++ {
		// leftovers of a failed attempt must be gone before the next one
		_ = waitQuiet(map[string]int{fnTicker: 0, fnFlusher: 0})
		if c.flusher {
			out, err = runFlusher(c)
		} else {
			out, err = runTicker(c)
		}
		if err == nil {
			return out
		}
	}
	return "HANG " + err.Error()
}

// ---------------------------------------------------------------------------------------- gen

var intervals = []int64{1, 2, 3, 7, 10, 1000, 1_000_000, 1_000_000_000, 10_000_000_000, 60_000_000_000, 3_600_000_000_000}

func gen(args []string) {
	r := hx.NewRng(hx.Seed())
	n := hx.ArgInt(args, "--n", 1000)
	tier := hx.Arg(args, "--tier", "quick")
	st := hx.NewStats("scripts of mock-clock movements (Add, AddNext) and consumer receives against the real AlignedTicker (mode T) and the real MetricFlusher in aligned mode (mode F); intervals 1ns..1h, offsets in [0,3I), start instants on / next to boundaries in several eras (before year 1, year 1, 1970, today); non-trivial = the script has at least two receive/release steps and at least one clock movement that jumps over two or more intervals (so ticks are skipped by the mock ticker or dropped at the full channel); distinct by the case text")
	// seconds from the zero time to 2026-01-01: mode F measures its first delta against time.Now(), so its
	// start instants stay within a century of that date (time.Duration saturates at ~292 years)
	const nowSec = int64(63_902_908_800)
	for k := 0; k < n; k++ {
		I := hx.Pick(r, intervals)
		if r.Chance(1, 4) {
			I = int64(r.Range(1, 5000))
		}
		if r.Chance(1, 10) {
			I = int64(r.Range(1, 3_600_000)) * 1_000_000
		}
		var off int64
		switch r.Intn(8) {
		case 0:
			off = 0
		case 1:
			off = I - 1
		case 2:
			off = I
		case 3:
			off = I + 1
		case 4:
			off = 2 * I
		case 5:
			off = 3*I - 1
		default:
			off = int64(r.U64() % uint64(3*I))
		}
		flusher := r.Chance(35, 100)
		// era
		var sec int64
		switch e := r.Intn(10); {
		case flusher && r.Chance(1, 8):
			// a few seconds before the Unix epoch, so that a flush lands exactly on it (the instant whose UnixNano is 0)
			sec = zeroToUnix + int64(r.Range(-20, 2))
			if r.Bool() {
				I, off = 1_000_000_000, 0
			}
			st.Hit("flusher-across-unix-epoch")
		case flusher || e < 4:
			sec = nowSec + int64(r.Range(-3_000_000_000, 3_000_000_000))
		case e == 4:
			sec = int64(r.Range(-100000, -1)) // before year 1: negative absolute times
		case e == 5:
			sec = int64(r.Range(0, 100000))
		case e == 6:
			sec = zeroToUnix + int64(r.Range(-100000, 100000))
		default:
			sec = int64(r.U64() % uint64(2*nowSec))
		}
		nsec := int64(r.Intn(1_000_000_000))
		// put the start on / next to a boundary half of the time: (abs - off) mod I in {0, 1, I-1}
		if r.Chance(1, 2) {
			abs := new(big.Int).Mul(big.NewInt(sec), big.NewInt(1_000_000_000))
			abs.Add(abs, big.NewInt(nsec))
			rem := new(big.Int).Sub(abs, big.NewInt(off))
			rem.Mod(rem, big.NewInt(I)) // Euclidean: >= 0
			shift := -rem.Int64() + hx.Pick(r, []int64{0, 0, 1, -1})
			abs.Add(abs, big.NewInt(shift))
			q, m := new(big.Int).DivMod(abs, big.NewInt(1_000_000_000), new(big.Int))
			sec, nsec = q.Int64(), m.Int64()
			st.Hit("start-on-or-next-to-boundary")
		}
		nOps := r.Range(3, 40)
		if tier == "thorough" && r.Chance(1, 5) {
			nOps = r.Range(40, 120)
		}
		mode := "T"
		if flusher {
			mode = "F"
		}
		parts := []string{fmt.Sprintf("%s %d %d %d %d", mode, sec, nsec, I, off)}
		jumps, recvs := 0, 0
		for len(parts)-1 < nOps {
			switch x := r.Intn(100); {
			case x < 22:
				parts = append(parts, "n")
			case x < 60:
				parts = append(parts, "r")
				recvs++
			default:
				var d int64
				switch r.Intn(10) {
				case 0:
					d = 0
				case 1:
					d = 1
				case 2:
					d = I - 1
				case 3:
					d = I
				case 4:
					d = I + 1
				case 5:
					d = 2 * I
				case 6:
					d = int64(r.Range(2, 6))*I + int64(r.U64()%uint64(I))
					jumps++
				case 7:
					d = int64(r.Range(5, 40)) * I
					jumps++
				default:
					d = int64(r.U64() % uint64(I))
				}
				parts = append(parts, fmt.Sprintf("a %d", d))
			}
		}
		line := strings.Join(parts, " ; ")
		st.Case(line, recvs >= 2 && jumps >= 1)
		st.Hit("mode=" + mode)
		st.Hit(fmt.Sprintf("interval<=%s", bucketI(I)))
		switch {
		case off == 0:
			st.Hit("offset=0")
		case off < I:
			st.Hit("offset<I")
		default:
			st.Hit("offset>=I")
		}
		if sec < 0 {
			st.Hit("start-before-year-1")
		}
		fmt.Fprintln(hx.Out, line)
	}
	hx.Out.Flush()
	st.Write(hx.Arg(args, "--stats", ""))
}

func bucketI(i int64) string {
	for _, b := range []int64{1, 10, 1000, 1_000_000, 1_000_000_000, 60_000_000_000, 3_600_000_000_000} {
		if i <= b {
			return time.Duration(b).String()
		}
	}
	return "more"
}

func main() {
	if len(os.Args) < 2 {
		fmt.Fprintln(os.Stderr, "usage: c18 gen|run")
		os.Exit(2)
	}
	switch os.Args[1] {
	case "gen":
		gen(os.Args[2:])
	case "run":
		hx.Lines(func(line string) {
			fmt.Fprintln(hx.Out, runOne(line))
			hx.Out.Flush()
		})
	default:
		os.Exit(2)
	}
}
