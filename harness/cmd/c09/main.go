// c09: correspondence harness for C09 (series persist until their type's expiry interval elapses).
//
//	c09 gen [--n N] [--tier quick|thorough] [--stats file]   cases on stdout (VERIF_SEED)
//	c09 run                                                  reads cases, prints the views of the real aggregator
//
// Case:  IC IT IG IS ; d TY KEY T NUM MEM ; D TY KEY T NUM MEM ; f T ; ...   (see lean/Gsd/Driver/C09.lean)
//
// The real statsd.MetricAggregator is flushed by the real statsd.MetricFlusher (pkg/statsd/flusher.go
// flushData: Flush(interval) -> Process(view -> backends) -> Reset()), whose (plain) ticker runs on a mock
// clock that the harness advances by one flush interval per `f` operation; the view is what a capture
// backend is handed in SendMetricsAsync.  The aggregator clock is set through VerifSetNow.
// C09_DIRECT=1 calls Flush / Process / Reset directly in that order instead (debugging aid).
package main

import (
	"context"
	"fmt"
	"math"
	"os"
	"os/exec"
	"path/filepath"
	"sort"
	"strconv"
	"strings"
	"sync"
	"time"

	"github.com/tilinna/clock"

	"github.com/atlassian/gostatsd"
	"github.com/atlassian/gostatsd/pkg/statsd"

	"verifharness/internal/hx"
)

// series identities: two names share several tag sets so that the nested map[name]map[tagsKey] and
// deleteMetric's "last child" branch are exercised.
type ident struct {
	name string
	tags gostatsd.Tags
	src  gostatsd.Source
}

var idents = map[string]ident{
	"k0": {"a", nil, ""},
	"k1": {"a", gostatsd.Tags{"t:1"}, ""},
	"k2": {"b", gostatsd.Tags{"t:1", "u:2"}, "10.0.0.1"},
	"k3": {"web.requests", nil, "10.0.0.2"},
	"k4": {"b", nil, ""},
	"k5": {"a", gostatsd.Tags{"env:prod"}, "h"},
	// a series whose timers are histogram timers (they take separate branches in Flush and Reset)
	"k6": {"lat", gostatsd.Tags{"gsd_histogram:1_5"}, ""},
}
var keyNames = []string{"k0", "k1", "k2", "k3", "k4", "k5", "k6"}

func tagsKeyOf(id ident) string { return gostatsd.FormatTagsKey(id.src, id.tags) }

var reverse = func() map[string]string {
	m := map[string]string{}
	for k, id := range idents {
		m[id.name+"\x00"+tagsKeyOf(id)] = k
	}
	return m
}()

func keyTok(name, tagsKey string) string {
	if k, ok := reverse[name+"\x00"+tagsKey]; ok {
		return k
	}
	return "?" + hx.S(name) + "/" + hx.S(tagsKey)
}

const flushInterval = 10 * time.Second

var intervalChoices = []int64{-5e9, -1, 0, 1, 1e9, 5e9, 300e9}

// ---------------------------------------------------------------------------------------- gen

type genState struct {
	r      *hx.Rng
	cur    int64
	lastDp map[string]int64 // "ty key" -> time of newest datapoint
	cfg    map[string]int64
}

func gen(args []string) {
	r := hx.NewRng(hx.Seed())
	n := hx.ArgInt(args, "--n", 2000)
	tier := hx.Arg(args, "--tier", "quick")
	st := hx.NewStats("histories of datapoint/flush operations with non-decreasing times on a real MetricAggregator; expiry intervals drawn independently per type from {-5s,-1ns,0,1ns,1s,5s,300s}; 1..6 series per type; flush times aimed at T+i-1, T+i, T+i+1 of live series; non-trivial = at least two flushes of which one follows a flush without intervening data for some series that has data (the persistence / expiry branch of Reset decides the view); distinct by the case text")
	types := []string{"c", "t", "g", "s"}
	for i := 0; i < n; i++ {
		g := &genState{r: r, lastDp: map[string]int64{}, cfg: map[string]int64{}}
		g.cur = 1_700_000_000_000_000_000 + int64(r.Intn(1_000_000_000))
		if r.Chance(1, 20) {
			g.cur = int64(r.Intn(1000)) // times next to the Unix epoch
		}
		head := []string{}
		for _, ty := range types {
			g.cfg[ty] = hx.Pick(r, intervalChoices)
		}
		if r.Chance(1, 6) { // all types alike: the common configuration
			v := hx.Pick(r, intervalChoices)
			for _, ty := range types {
				g.cfg[ty] = v
			}
		}
		if r.Chance(1, 4) {
			// through the start-up configuration: a main interval and per-type overrides, each possibly absent;
			// drawn from a small family so that the dump binary runs a bounded number of times
			fam := []int64{-1, 0, 1_000_000_000, 300_000_000_000}
			optTok := func(present bool, v int64) string {
				if !present {
					return "-"
				}
				return hx.I(v)
			}
			mainSet, mainV := r.Chance(2, 3), hx.Pick(r, fam)
			head = append(head, "cfg", optTok(mainSet, mainV))
			for _, ty := range types {
				set, v := r.Chance(1, 2), hx.Pick(r, fam)
				head = append(head, optTok(set, v))
				switch {
				case set:
					g.cfg[ty] = v
				case mainSet:
					g.cfg[ty] = mainV
				default:
					g.cfg[ty] = int64(gostatsd.DefaultExpiryInterval)
				}
			}
			st.Hit("via-start-up-config")
		} else {
			for _, ty := range types {
				head = append(head, hx.I(g.cfg[ty]))
				st.Hit(fmt.Sprintf("interval[%s]=%d", ty, g.cfg[ty]))
			}
		}
		// series per type
		pool := map[string][]string{}
		for _, ty := range types {
			k := r.Range(1, 6)
			perm := append([]string(nil), keyNames...)
			r.Shuffle(len(perm), func(a, b int) { perm[a], perm[b] = perm[b], perm[a] })
			pool[ty] = perm[:k]
		}
		nOps := r.Range(5, 80)
		if tier == "thorough" && r.Chance(1, 5) {
			nOps = r.Range(80, 300)
		}
		parts := []string{strings.Join(head, " ")}
		flushes, dps := 0, 0
		sinceFlush := map[string]bool{} // series with data since the last flush
		persistSeen := false
		everData := map[string]bool{}
		for len(parts)-1 < nOps {
			if r.Chance(45, 100) {
				// ---- flush
				t := g.pickFlushTime(st)
				g.cur = t
				parts = append(parts, "f "+hx.I(t))
				flushes++
				if flushes >= 2 {
					for s := range everData {
						if !sinceFlush[s] {
							persistSeen = true
						}
					}
				}
				sinceFlush = map[string]bool{}
			} else {
				// ---- a batch of datapoints with one timestamp (one ReceiveMap)
				g.advance(st)
				batch := 1
				if r.Chance(1, 2) {
					batch = r.Range(2, 5)
				}
				for b := 0; b < batch && len(parts)-1 < nOps; b++ {
					ty := hx.Pick(r, types)
					k := hx.Pick(r, pool[ty])
					code := "D"
					if b == 0 {
						code = "d"
					}
					num, mem := int64(0), "-"
					switch ty {
					case "c":
						num = int64(r.Range(-3, 9))
					case "t":
						num = int64(r.Range(1, 4))
						if r.Chance(1, 25) {
							num = 0
						}
					case "g":
						num = int64(r.Range(-50, 50))
					case "s":
						ms := []string{}
						for q := r.Range(0, 3); q > 0; q-- {
							ms = append(ms, strconv.Itoa(r.Intn(6)))
						}
						ms = dedup(ms)
						if len(ms) > 0 {
							mem = strings.Join(ms, ",")
						}
					}
					parts = append(parts, fmt.Sprintf("%s %s %s %d %d %s", code, ty, k, g.cur, num, mem))
					g.lastDp[ty+" "+k] = g.cur
					sinceFlush[ty+" "+k] = true
					everData[ty+" "+k] = true
					dps++
				}
			}
		}
		line := strings.Join(parts, " ; ")
		st.Case(line, persistSeen)
		st.Hit(fmt.Sprintf("ops<=%d", bucketOf(len(parts)-1)))
		st.Hit(fmt.Sprintf("flushes<=%d", bucketOf(flushes)))
		fmt.Fprintln(hx.Out, line)
	}
	hx.Out.Flush()
	st.Write(hx.Arg(args, "--stats", ""))
}

func dedup(xs []string) []string {
	seen := map[string]bool{}
	out := []string{}
	for _, x := range xs {
		if !seen[x] {
			seen[x] = true
			out = append(out, x)
		}
	}
	return out
}

func bucketOf(n int) int {
	for _, b := range []int{0, 1, 2, 5, 10, 20, 40, 80, 300} {
		if n <= b {
			return b
		}
	}
	return 1 << 31
}

var steps = []int64{0, 0, 1, 1, 2, 999, 1e6, 5e8, 1e9 - 1, 1e9, 1e9 + 1, 2e9, 5e9 - 1, 5e9, 5e9 + 1, 7e9, 300e9, 301e9}

func (g *genState) advance(st *hx.Stats) {
	d := hx.Pick(g.r, steps)
	if d == 0 {
		st.Hit("equal-time-op")
	}
	g.cur += d
}

// pickFlushTime aims at the boundary of a live series half of the time.
func (g *genState) pickFlushTime(st *hx.Stats) int64 {
	if len(g.lastDp) > 0 && g.r.Chance(1, 2) {
		keys := make([]string, 0, len(g.lastDp))
		for k := range g.lastDp {
			keys = append(keys, k)
		}
		sort.Strings(keys)
		for try := 0; try < 4; try++ {
			s := hx.Pick(g.r, keys)
			i := g.cfg[s[:1]]
			if i <= 0 {
				continue
			}
			off := hx.Pick(g.r, []int64{-1, 0, 0, 1, 1, 2})
			t := g.lastDp[s] + i + off
			if t >= g.cur {
				st.Hit(fmt.Sprintf("flush@T+i%+d", off))
				return t
			}
		}
	}
	d := hx.Pick(g.r, steps)
	if d == 0 {
		st.Hit("equal-time-op")
	}
	return g.cur + d
}

// ---------------------------------------------------------------------------------------- run

type pending struct {
	mm   *gostatsd.MetricMap
	seen map[string]bool
}

func newPending() *pending {
	return &pending{mm: gostatsd.NewMetricMap(false), seen: map[string]bool{}}
}

func parseMem(s string) map[string]struct{} {
	m := map[string]struct{}{}
	if s == "-" {
		return m
	}
	for _, x := range strings.Split(s, ",") {
		m[x] = struct{}{}
	}
	return m
}

func (p *pending) add(ty, key string, t, num int64, mem string) {
	id, ok := idents[key]
	if !ok {
		panic("unknown key " + key)
	}
	tk := tagsKeyOf(id)
	ts := gostatsd.Nanotime(t)
	switch ty {
	case "c":
		if p.mm.Counters[id.name] == nil {
			p.mm.Counters[id.name] = map[string]gostatsd.Counter{}
		}
		p.mm.Counters[id.name][tk] = gostatsd.Counter{Value: num, Timestamp: ts, Source: id.src, Tags: id.tags.Copy()}
	case "t":
		vals := make([]float64, num)
		for i := range vals {
			vals[i] = float64(i + 1)
		}
		if p.mm.Timers[id.name] == nil {
			p.mm.Timers[id.name] = map[string]gostatsd.Timer{}
		}
		p.mm.Timers[id.name][tk] = gostatsd.NewTimer(ts, vals, id.src, id.tags)
	case "g":
		if p.mm.Gauges[id.name] == nil {
			p.mm.Gauges[id.name] = map[string]gostatsd.Gauge{}
		}
		p.mm.Gauges[id.name][tk] = gostatsd.Gauge{Value: float64(num), Timestamp: ts, Source: id.src, Tags: id.tags.Copy()}
	case "s":
		if p.mm.Sets[id.name] == nil {
			p.mm.Sets[id.name] = map[string]gostatsd.Set{}
		}
		p.mm.Sets[id.name][tk] = gostatsd.Set{Values: parseMem(mem), Timestamp: ts, Source: id.src, Tags: id.tags.Copy()}
	default:
		panic("unknown type " + ty)
	}
	p.seen[ty+" "+key] = true
}

func fnum(v float64) string {
	if v == math.Trunc(v) && math.Abs(v) < 1<<53 {
		return strconv.FormatInt(int64(v), 10)
	}
	return "f" + hx.F(v)
}

func b01(b bool) string {
	if b {
		return "1"
	}
	return "0"
}

func renderView(m *gostatsd.MetricMap) string {
	items := []string{}
	m.Counters.Each(func(n, tk string, c gostatsd.Counter) {
		items = append(items, fmt.Sprintf("c %s %d %s", keyTok(n, tk), c.Value, b01(c.PerSecond == 0)))
	})
	m.Timers.Each(func(n, tk string, t gostatsd.Timer) {
		zero := t.Count == 0 && t.SampledCount == 0 && t.PerSecond == 0 && t.Min == 0 && t.Max == 0 && t.Mean == 0 &&
			t.Median == 0 && t.StdDev == 0 && t.Sum == 0 && t.SumSquares == 0
		if t.Histogram != nil {
			// a histogram timer reports bucket counts instead of summary statistics; for this property only
			// "how many values, and is it zeroed" matters: read it from the +Inf bucket
			cnt := t.Histogram[gostatsd.HistogramThreshold(math.Inf(1))]
			items = append(items, fmt.Sprintf("t %s %d %s %s", keyTok(n, tk), cnt, b01(cnt > 0), b01(cnt == 0)))
			return
		}
		items = append(items, fmt.Sprintf("t %s %d %s %s", keyTok(n, tk), t.Count, b01(len(t.Percentiles) > 0), b01(zero)))
	})
	m.Gauges.Each(func(n, tk string, g gostatsd.Gauge) {
		items = append(items, fmt.Sprintf("g %s %s", keyTok(n, tk), fnum(g.Value)))
	})
	m.Sets.Each(func(n, tk string, s gostatsd.Set) {
		ms := make([]int, 0, len(s.Values))
		raw := []string{}
		for v := range s.Values {
			if x, err := strconv.Atoi(v); err == nil {
				ms = append(ms, x)
			} else {
				raw = append(raw, hx.S(v))
			}
		}
		sort.Ints(ms)
		sort.Strings(raw)
		toks := []string{}
		for _, x := range ms {
			toks = append(toks, strconv.Itoa(x))
		}
		toks = append(toks, raw...)
		mem := "-"
		if len(toks) > 0 {
			mem = strings.Join(toks, ",")
		}
		items = append(items, fmt.Sprintf("s %s %s", keyTok(n, tk), mem))
	})
	if len(items) == 0 {
		return "-"
	}
	sort.Strings(items)
	return strings.Join(items, " ; ")
}

var cfgCache sync.Map

// resolveConfig runs `gostatsd-verif --verif-dump-config` with the flags of the case (`-` = flag absent).
func resolveConfig(toks []string) (ic, it, ig, is int64, err error) {
	key := strings.Join(toks, " ")
	if v, ok := cfgCache.Load(key); ok {
		r := v.([4]int64)
		return r[0], r[1], r[2], r[3], nil
	}
	exe, _ := os.Executable()
	bin := filepath.Join(filepath.Dir(exe), "gostatsd-verif")
	args := []string{"--verif-dump-config", "--backends", "stdout"}
	names := []string{"expiry-interval", "expiry-interval-counter", "expiry-interval-timer", "expiry-interval-gauge", "expiry-interval-set"}
	// where the settings come from is part of the start-up code under test: command-line flags, the configuration
	// file (--config-path), or the main interval from the file and the per-type ones from flags; the case's text picks one
	h := 0
	for _, b := range []byte(key) {
		h = (h*31 + int(b)) % 9973
	}
	mode := h % 3
	var file strings.Builder
	for i, t := range toks {
		if t == "-" {
			continue
		}
		if mode == 1 || (mode == 2 && i == 0) {
			fmt.Fprintf(&file, "%s = '%sns'\n", names[i], t)
		} else {
			args = append(args, fmt.Sprintf("--%s=%sns", names[i], t))
		}
	}
	if file.Len() > 0 {
		f, ferr := os.CreateTemp("", "c09-config-*.toml")
		if ferr != nil {
			return 0, 0, 0, 0, ferr
		}
		defer os.Remove(f.Name())
		_, _ = f.WriteString(file.String())
		f.Close()
		args = append(args, "--config-path", f.Name())
	}
	outB, e := exec.Command(bin, args...).CombinedOutput()
	if e != nil {
		return 0, 0, 0, 0, fmt.Errorf("%v: %s", e, string(outB))
	}
	for _, l := range strings.Split(string(outB), "\n") {
		if strings.HasPrefix(l, "expiry ") {
			if _, e := fmt.Sscanf(l, "expiry counter=%d timer=%d gauge=%d set=%d", &ic, &it, &ig, &is); e != nil {
				return 0, 0, 0, 0, e
			}
			cfgCache.Store(key, [4]int64{ic, it, ig, is})
			return ic, it, ig, is, nil
		}
	}
	return 0, 0, 0, 0, fmt.Errorf("no expiry line in: %s", string(outB))
}

func runOne(line string) (out string) {
	defer func() {
		if e := recover(); e != nil {
			out = fmt.Sprintf("PANIC %v", e)
		}
	}()
	parts := hx.SplitBy(hx.Tokens(line), ";")
	var ic, it, ig, is int64
	switch {
	case len(parts) > 0 && len(parts[0]) == 4:
		ic, it, ig, is = hx.MustInt(parts[0][0]), hx.MustInt(parts[0][1]), hx.MustInt(parts[0][2]), hx.MustInt(parts[0][3])
	case len(parts) > 0 && len(parts[0]) == 6 && parts[0][0] == "cfg":
		// the intervals come out of the real start-up configuration code (cmd/gostatsd, verif-tagged dump)
		var err error
		ic, it, ig, is, err = resolveConfig(parts[0][1:])
		if err != nil {
			return "CONFIG_ERROR " + err.Error()
		}
	default:
		return "BAD_CASE"
	}
	// NewMetricAggregator(percentThresholds, counter, gauge, set, timer, disabled, histogramLimit)
	// ... reached the way the server reaches it: the Server's fields, its stand-alone sink and aggregator factory
	srv := &statsd.Server{PercentThreshold: []float64{90}, ExpiryIntervalCounter: time.Duration(ic), ExpiryIntervalTimer: time.Duration(it),
		ExpiryIntervalGauge: time.Duration(ig), ExpiryIntervalSet: time.Duration(is), HistogramLimit: math.MaxUint32,
		MaxWorkers: 1, MaxConcurrentEvents: 1, FlushInterval: time.Second}
	aggr, serr := srv.VerifStandaloneAggregator()
	if serr != nil {
		return "CONFIG_ERROR " + serr.Error()
	}
	var now int64
	aggr.VerifSetNow(func() time.Time { return time.Unix(0, now) })
	var a statsd.Aggregator = aggr

	views := []string{}
	var doFlush func() string
	if os.Getenv("C09_DIRECT") != "" {
		doFlush = func() string {
			a.Flush(flushInterval)
			a.Process(func(m *gostatsd.MetricMap) { views = append(views, renderView(m)) })
			a.Reset()
			return ""
		}
	} else {
		mock := clock.NewMock(time.Unix(1000, 0))
		ctx, cancel := context.WithCancel(clock.Context(context.Background(), mock))
		proc := &recProc{aggr: a, done: make(chan struct{}, 1)}
		be := &capBackend{sink: func(m *gostatsd.MetricMap) { views = append(views, renderView(m)) }}
		fl := statsd.NewMetricFlusher(flushInterval, 0, false, proc, []gostatsd.Backend{be})
		exited := make(chan struct{})
		go func() { fl.Run(ctx); close(exited) }()
		defer func() {
			cancel()
			select {
			case <-exited:
			case <-time.After(5 * time.Second):
			}
		}()
		// the flusher's ticker must be armed before the clock moves
		deadline := time.Now().Add(5 * time.Second)
		for mock.Len() != 1 {
			if time.Now().After(deadline) {
				return "HANG flusher did not arm its ticker"
			}
			time.Sleep(20 * time.Microsecond)
		}
		doFlush = func() string {
			mock.Add(flushInterval)
			select {
			case <-proc.done:
				if proc.err != nil {
					return fmt.Sprintf("PANIC %v", proc.err)
				}
				return ""
			case <-time.After(5 * time.Second):
				return "HANG flusher did not flush"
			}
		}
	}
	pend := newPending()
	havePending := false
	send := func() {
		if havePending {
			a.ReceiveMap(pend.mm)
			pend = newPending()
			havePending = false
		}
	}
	for _, op := range parts[1:] {
		if len(op) == 0 {
			continue
		}
		switch op[0] {
		case "d", "D":
			if len(op) != 6 {
				return "BAD_CASE"
			}
			ty, key := op[1], op[2]
			if op[0] == "d" || pend.seen[ty+" "+key] {
				send()
			}
			pend.add(ty, key, hx.MustInt(op[3]), hx.MustInt(op[4]), op[5])
			havePending = true
		case "f":
			if len(op) != 2 {
				return "BAD_CASE"
			}
			send()
			now = hx.MustInt(op[1])
			if e := doFlush(); e != "" {
				return e
			}
		default:
			return "BAD_CASE"
		}
	}
	send()
	if len(views) == 0 {
		return "."
	}
	return strings.Join(views, " | ")
}

// recProc is the AggregateProcesser: it runs the flusher's function on the one aggregator, in the
// flusher's goroutine, and tells the harness when it has returned (i.e. after Reset).
type recProc struct {
	aggr statsd.Aggregator
	done chan struct{}
	err  any
}

func (p *recProc) Process(ctx context.Context, fn statsd.DispatcherProcessFunc) gostatsd.Wait {
	func() {
		defer func() {
			if e := recover(); e != nil {
				p.err = e
			}
		}()
		fn(0, p.aggr)
	}()
	p.done <- struct{}{}
	return func() {}
}

// capBackend records what the backends are handed.
type capBackend struct{ sink func(*gostatsd.MetricMap) }

func (b *capBackend) Name() string { return "capture" }
func (b *capBackend) SendMetricsAsync(ctx context.Context, m *gostatsd.MetricMap, cb gostatsd.SendCallback) {
	b.sink(m)
	cb(nil)
}
func (b *capBackend) SendEvent(context.Context, *gostatsd.Event) error { return nil }

func main() {
	if len(os.Args) < 2 {
		fmt.Fprintln(os.Stderr, "usage: c09 gen|run")
		os.Exit(2)
	}
	switch os.Args[1] {
	case "gen":
		gen(os.Args[2:])
	case "run":
		hx.Lines(func(line string) {
			fmt.Fprintln(hx.Out, runOne(line))
			hx.Out.Flush()
		})
	default:
		os.Exit(2)
	}
}
