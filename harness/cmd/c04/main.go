// c04: correspondence harness for C04 (flushing never crashes for any reachable aggregate, configuration or backend).
//
//	c04 gen [--n N] [--tier quick|thorough] [--stats file]
//	c04 run
//
// Case: `HEAD ; item ; …` (see lean/Gsd/Driver/C04.lean).  `run` drives the real MetricAggregator through the
// history; every flush view is handed to the real backend (built by backends.InitBackend from a viper
// configuration, against local httptest / TCP / UDP sinks; cloudwatch with a fake API through the verif hook)
// via SendMetricsAsync under recover.
package main

import (
	"context"
	"fmt"
	"io"
	"net"
	"net/http"
	"net/http/httptest"
	"os"
	"runtime"
	"sort"
	"strconv"
	"strings"
	"sync"
	"time"

	awscw "github.com/aws/aws-sdk-go-v2/service/cloudwatch"
	"github.com/sirupsen/logrus"
	"github.com/spf13/viper"

	"github.com/atlassian/gostatsd"
	"github.com/atlassian/gostatsd/pkg/backends"
	"github.com/atlassian/gostatsd/pkg/backends/cloudwatch"
	"github.com/atlassian/gostatsd/pkg/transport"

	"verifharness/internal/aggx"
	"verifharness/internal/hx"
)

// ------------------------------------------------------------------------------------------ sinks

// The sinks listen on several loopback addresses (127.0.0.1 … 127.0.0.8): every case opens fresh connections
// (a new transport pool per backend instance), and one (source, destination) address pair only has ~28k
// ephemeral ports per TIME_WAIT minute.  Idle keep-alive connections are closed by the server after 200 ms so
// that the abandoned client transports of finished cases do not accumulate file descriptors.
const sinkAddrs = 8

var (
	sinkOnce  sync.Once
	httpSinks []string
	tcpAddrs  []string
	udpAddr   string
	sinkNext  uint64
	sinkMu    sync.Mutex
)

func startSinks() {
	sinkOnce.Do(func() {
		for i := 1; i <= sinkAddrs; i++ {
			ip := fmt.Sprintf("127.0.0.%d", i)
			hl, err := net.Listen("tcp", ip+":0")
			if err != nil {
				if i == 1 {
					panic(err)
				}
				break // only 127.0.0.1 is usable here
			}
			srv := httptest.NewUnstartedServer(http.HandlerFunc(func(w http.ResponseWriter, r *http.Request) {
				_, _ = io.Copy(io.Discard, r.Body)
				w.WriteHeader(http.StatusOK)
			}))
			srv.Listener.Close()
			srv.Listener = hl
			srv.Config.IdleTimeout = 200 * time.Millisecond
			srv.Start()
			httpSinks = append(httpSinks, srv.URL)
			l, err := net.Listen("tcp", ip+":0")
			if err != nil {
				panic(err)
			}
			tcpAddrs = append(tcpAddrs, l.Addr().String())
			go func() {
				for {
					c, err := l.Accept()
					if err != nil {
						return
					}
					go func() { _, _ = io.Copy(io.Discard, c); c.Close() }()
				}
			}()
		}
		pc, err := net.ListenPacket("udp", "127.0.0.1:0")
		if err != nil {
			panic(err)
		}
		udpAddr = pc.LocalAddr().String()
		go func() {
			buf := make([]byte, 65536)
			for {
				if _, _, err := pc.ReadFrom(buf); err != nil {
					return
				}
			}
		}()
	})
}

// pickSink spreads the cases over the sink addresses.
func pickSink() (httpURL, tcpAddr string) {
	sinkMu.Lock()
	defer sinkMu.Unlock()
	sinkNext++
	return httpSinks[int(sinkNext)%len(httpSinks)], tcpAddrs[int(sinkNext)%len(tcpAddrs)]
}

type fakeCloudwatch struct{}

func (fakeCloudwatch) PutMetricData(context.Context, *awscw.PutMetricDataInput, ...func(*awscw.Options)) (*awscw.PutMetricDataOutput, error) {
	return &awscw.PutMetricDataOutput{}, nil
}

// ---------------------------------------------------------------------------------------- backends

type c04Head struct {
	aggx.Head
	Backend string
	Variant string
	Batch   int
	Series  map[string][]string
	Order   []string
}

var subKeys = []string{"lower", "lower-pct", "upper", "upper-pct", "count", "count-pct", "count-per-second", "mean", "mean-pct",
	"median", "stddev", "sum", "sum-pct", "sum-squares", "sum-squares-pct"}

// otlp reads its own mask (mapstructure over the field names of TimerSubtypes)
var otlpKeys = []string{"Lower", "LowerPct", "Upper", "UpperPct", "Count", "CountPct", "CountPerSecond", "Mean", "MeanPct",
	"Median", "StdDev", "Sum", "SumPct", "SumSquares", "SumSquaresPct"}

func newBackend(h c04Head, logger logrus.FieldLogger) (gostatsd.Backend, error) {
	startSinks()
	v := viper.New()
	v.Set("flush-interval", h.Interval())
	for i, k := range subKeys {
		v.Set("disabled-sub-metrics."+k, h.Mask>>uint(i)&1 == 1)
	}
	v.Set("transport.default.client-timeout", 5*time.Second)
	url, tcpAddr := pickSink()
	batch := h.Batch
	if batch <= 0 {
		batch = 1000
	}
	switch h.Backend {
	case "graphite":
		v.Set("graphite.address", tcpAddr)
		v.Set("graphite.mode", h.Variant)
	case "statsdaemon":
		if h.Variant == "tcp" {
			v.Set("statsdaemon.address", tcpAddr)
			v.Set("statsdaemon.tcp_transport", true)
		} else {
			v.Set("statsdaemon.address", udpAddr)
		}
	case "datadog":
		v.Set("datadog.api_endpoint", url)
		v.Set("datadog.api_key", "k")
		v.Set("datadog.metrics_per_batch", batch)
		v.Set("datadog.max_request_elapsed_time", 2*time.Second)
	case "influxdb":
		v.Set("influxdb.api-endpoint", url)
		v.Set("influxdb.metrics-per-batch", batch)
		v.Set("influxdb.max-request-elapsed-time", 2*time.Second)
		v.Set("influxdb.compress-payload", h.Batch%2 == 0)
		if h.Variant == "v1" {
			v.Set("influxdb.api-version", 1)
			v.Set("influxdb.database", "db")
		} else {
			v.Set("influxdb.api-version", 2)
			v.Set("influxdb.bucket", "b")
			v.Set("influxdb.org", "o")
		}
	case "newrelic":
		v.Set("newrelic.address", url+"/v1/data")
		v.Set("newrelic.address-metrics", url+"/metric/v1")
		v.Set("newrelic.flush-type", h.Variant)
		v.Set("newrelic.api-key", "k")
		v.Set("newrelic.metrics-per-batch", batch)
		v.Set("newrelic.max-request-elapsed-time", 2*time.Second)
	case "otlp":
		v.Set("otlp.metrics_endpoint", url+"/v1/metrics")
		v.Set("otlp.logs_endpoint", url+"/v1/logs")
		v.Set("otlp.compress_payload", h.Batch%2 == 0)
		v.Set("otlp.metrics_per_batch", batch)
		v.Set("otlp.max_retries", 0)
		if h.Variant == "histogram" {
			v.Set("otlp.conversion", "AsHistogram")
		} else {
			v.Set("otlp.conversion", "AsGauge")
		}
		for i, k := range otlpKeys {
			v.Set("otlp.disabled_timer_aggregations."+k, h.Mask>>uint(i)&1 == 1)
		}
	case "stdout", "cloudwatch":
	default:
		return nil, fmt.Errorf("unknown backend %q", h.Backend)
	}
	b, err := backends.InitBackend(h.Backend, v, logger, transport.NewTransportPool(logger, v))
	if err != nil {
		return nil, err
	}
	if cw, ok := b.(*cloudwatch.Client); ok {
		cw.VerifSetAPI(fakeCloudwatch{})
	}
	return b, nil
}

// ------------------------------------------------------------------------------------------- case

func parseHead(toks []string) (c04Head, error) {
	var h c04Head
	rest := []string{}
	h.Series = map[string][]string{}
	for _, t := range toks {
		switch {
		case strings.HasPrefix(t, "B="):
			h.Backend = t[2:]
		case strings.HasPrefix(t, "V="):
			h.Variant = t[2:]
		case strings.HasPrefix(t, "N="):
			h.Batch, _ = strconv.Atoi(t[2:])
		case strings.HasPrefix(t, "S="):
			if t[2:] == "-" {
				continue
			}
			for _, e := range strings.Split(t[2:], ",") {
				i := strings.IndexByte(e, ':')
				if i < 0 {
					return h, fmt.Errorf("bad series %q", e)
				}
				sid := e[:i]
				tags := []string{}
				if e[i+1:] != "-" && e[i+1:] != "" {
					for _, x := range strings.Split(e[i+1:], "+") {
						s, err := hx.UnS(x)
						if err != nil {
							return h, err
						}
						tags = append(tags, s)
					}
				}
				h.Series[sid] = tags
				h.Order = append(h.Order, sid)
			}
		default:
			rest = append(rest, t)
		}
	}
	hh, err := aggx.ParseHead(rest)
	h.Head = hh
	return h, err
}

func headString(h c04Head) string {
	all := []string{}
	ss := []string{}
	for _, sid := range h.Order {
		ts := make([]string, len(h.Series[sid]))
		for i, t := range h.Series[sid] {
			ts[i] = hx.S(t)
		}
		all = append(all, h.Series[sid]...)
		if len(ts) == 0 {
			ss = append(ss, sid+":-")
		} else {
			ss = append(ss, sid+":"+strings.Join(ts, "+"))
		}
	}
	s := "-"
	if len(ss) > 0 {
		s = strings.Join(ss, ",")
	}
	hh := h.Head
	hh.Tags = nil
	base := hh.String() // P M L I T=- O=-
	base = strings.Replace(base, " O=-", " O="+aggx.Oracle(all), 1)
	base = strings.Replace(base, " T=-", "", 1)
	return fmt.Sprintf("%s B=%s V=%s N=%d S=%s", base, h.Backend, h.Variant, h.Batch, s)
}

var quiet = func() *logrus.Logger {
	l := logrus.New()
	l.SetOutput(io.Discard)
	return l
}()

// realName is the metric name a series id stands for in the real run.  Names reach the aggregator from the lexer
// (ASCII letters, digits, `_-.`), but also unsanitised from the HTTP ingestion endpoint, from a merged map and
// through the namespace setting: the case picks one of four styles.
func realName(sid string, style int) string {
	switch style % 4 {
	case 1:
		return "svc." + sid + ".latency_ms"
	case 2:
		return "caf\u00e9." + sid + ".na\u00efve"
	case 3:
		return sid + " sp/ace\xff\x80|x:y#z,@" + sid
	}
	return sid
}

func (h *c04Head) nameStyle() int { return len(h.Order) + int(h.Limit%7) + h.Batch }

func renderView(mm *gostatsd.MetricMap, tagsKeyToSid map[string]string) string {
	es := []string{}
	mm.Timers.Each(func(name, tagsKey string, t gostatsd.Timer) {
		if sid, ok := tagsKeyToSid["\x00name\x00"+name]; ok {
			name = sid
		}
		es = append(es, name+":"+aggx.RenderTimer(t))
	})
	if len(es) == 0 {
		return "-"
	}
	sort.Strings(es)
	return strings.Join(es, " ; ")
}

func runOne(line string) (out string) {
	parts := hx.SplitBy(hx.Tokens(line), ";")
	head, err := parseHead(parts[0])
	if err != nil {
		return "BAD_CASE " + err.Error()
	}
	backend, err := newBackend(head, quiet)
	if err != nil {
		return "BAD_CASE " + err.Error()
	}
	ctx, cancel := context.WithCancel(context.Background())
	defer cancel()
	if r, ok := backend.(gostatsd.Runner); ok {
		go r.Run(ctx)
	}
	agg := aggx.NewAggregator(head.Head)
	batch := gostatsd.NewMetricMap(false)
	views := []string{}
	where := ""
	hand := func() {
		if !batch.IsEmpty() {
			agg.ReceiveMap(batch)
			batch = gostatsd.NewMetricMap(false)
		}
	}
	// one flush: Flush, the backend on the view, Reset; returns false on the first panic / hang
	flush := func() (ok bool) {
		hand()
		func() {
			defer func() {
				if e := recover(); e != nil {
					where = "PANIC flush"
				}
			}()
			agg.Flush(head.Interval())
		}()
		if where != "" {
			return false
		}
		agg.Process(func(mm *gostatsd.MetricMap) {
			back := map[string]string{}
			for _, sid := range head.Order {
				back["\x00name\x00"+realName(sid, head.nameStyle())] = sid
			}
			views = append(views, renderView(mm, back))
			done := make(chan struct{})
			var once sync.Once
			func() {
				defer func() {
					if e := recover(); e != nil {
						where = "PANIC " + head.Backend
					}
				}()
				sctx, scancel := context.WithTimeout(ctx, 10*time.Second)
				go func() {
					select {
					case <-done:
					case <-ctx.Done():
					}
					scancel()
				}()
				backend.SendMetricsAsync(sctx, mm, func([]error) { once.Do(func() { close(done) }) })
			}()
			if where != "" {
				return
			}
			select {
			case <-done:
			case <-time.After(15 * time.Second):
				where = "HANG " + head.Backend
			}
		})
		if where != "" {
			return false
		}
		agg.Reset()
		return true
	}
	for _, it := range parts[1:] {
		if len(it) == 0 {
			continue
		}
		switch it[0] {
		case "d":
			if len(it) != 4 {
				return "BAD_CASE"
			}
			batch.Receive(aggx.TimerMetric(realName(it[1], head.nameStyle()), head.Series[it[1]], hx.MustUnF(it[2]), hx.MustUnF(it[3])))
		case "D": // D sid n base step: n datapoints base + i*step, rate 1
			if len(it) != 5 {
				return "BAD_CASE"
			}
			n, base, step := hx.MustInt(it[2]), hx.MustInt(it[3]), hx.MustInt(it[4])
			for i := int64(0); i < n; i++ {
				batch.Receive(aggx.TimerMetric(realName(it[1], head.nameStyle()), head.Series[it[1]], float64(base+i*step), 1))
			}
		case "m":
			hand()
		case "f":
			if !flush() {
				return where
			}
		default:
			return "BAD_CASE"
		}
	}
	if !flush() {
		return where
	}
	return strings.Join(append([]string{"ok"}, views...), " | ")
}

// ---------------------------------------------------------------------------------------------- gen

type backendChoice struct{ name, variant string }

var allBackends = []backendChoice{
	{"graphite", "legacy"}, {"graphite", "basic"}, {"graphite", "tags"},
	{"datadog", "-"},
	{"influxdb", "v1"}, {"influxdb", "v2"},
	{"newrelic", "infra"}, {"newrelic", "insights"}, {"newrelic", "metrics"},
	{"otlp", "gauge"}, {"otlp", "histogram"},
	{"statsdaemon", "udp"}, {"statsdaemon", "tcp"},
	{"stdout", "-"}, {"cloudwatch", "-"},
}

var c04Limits = []uint32{0, 1, 2, 4294967295}

func rankF(p, n int) int {
	if n <= 1 {
		return n
	}
	f := float64(p)
	if f < 0 {
		f = -f
	}
	return int(f/100*float64(n) + 0.5)
}

func emit(st *hx.Stats, h c04Head, items []string, nontrivial bool) {
	line := headString(h)
	if len(items) > 0 {
		line += " ; " + strings.Join(items, " ; ")
	}
	st.Hit("backend:" + h.Backend + "/" + h.Variant)
	st.Hit(fmt.Sprintf("limit=%d", h.Limit))
	st.Case(line, nontrivial)
	fmt.Fprintln(hx.Out, line)
}

func gen(args []string) {
	r := hx.NewRng(hx.Seed())
	n := hx.ArgInt(args, "--n", 1500)
	st := hx.NewStats("histories of (datapoints | merge | flush) over 1-3 timer series (plain and gsd_histogram-tagged, malformed bucket lists) through the real " +
		"MetricAggregator with 0-3 idle flushes of persisted series, every flush view handed to one real backend (all 9 bundled backends and their variants, " +
		"built by backends.InitBackend) via SendMetricsAsync under recover; percentile lists of 0-6 integers in -100..100, limits {0,1,2,2^32-1}, random masks and " +
		"batch sizes; plus the boundary enumerator percentile -100..100 x n 0..12 (aggregator) and backend x limit x idle x histogram/plain (payload builders). " +
		"non-trivial = at least one flush of a series that holds data or is persisted; distinct by the case text")

	// boundary enumerator 1: percentile x n through the aggregator (backend stdout: cheapest)
	for p := -100; p <= 100; p++ {
		for k := 0; k <= 12; k++ {
			h := c04Head{Head: aggx.Head{Pcts: []int{p}, Limit: 1, IntervalNs: 1e9}, Backend: "stdout", Variant: "-", Batch: 1000,
				Series: map[string][]string{"a": {}}, Order: []string{"a"}}
			items := []string{}
			for i := 0; i < k; i++ {
				items = append(items, fmt.Sprintf("d a %s %s", hx.F(float64((i*5)%11+1)), hx.F(1)))
			}
			if k == 0 {
				items = []string{fmt.Sprintf("d a %s %s", hx.F(2), hx.F(1)), "f"}
			}
			kk := rankF(p, k)
			switch {
			case p < 0 && kk == k && k >= 2:
				st.Hit("enum:negative-rank=n")
			case kk == 0:
				st.Hit("enum:rank=0")
			}
			emit(st, h, items, true)
		}
	}
	// boundary enumerator 2: every backend variant x limit x {plain, histogram, malformed histogram} x idle flushes 0..3
	tagSets := [][]string{{}, {"gsd_histogram:1_2"}, {"gsd_histogram:x__"}, {"gsd_histogram:"}, {"a:b", "gsd_histogram:5_inf_1"}}
	for _, b := range allBackends {
		for _, lim := range c04Limits {
			for ti, tags := range tagSets {
				for idle := 0; idle <= 3; idle++ {
					h := c04Head{Head: aggx.Head{Pcts: []int{90, -50}, Limit: lim, IntervalNs: 1e9, Mask: uint32(0)}, Backend: b.name, Variant: b.variant,
						Batch: 1000, Series: map[string][]string{"a": tags}, Order: []string{"a"}}
					items := []string{fmt.Sprintf("d a %s %s", hx.F(3), hx.F(1)), fmt.Sprintf("d a %s %s", hx.F(1), hx.F(0.5))}
					for i := 0; i < idle; i++ {
						items = append(items, "f")
					}
					st.Hit(fmt.Sprintf("enum:tags#%d/idle=%d", ti, idle))
					emit(st, h, items, true)
				}
			}
		}
	}

	// boundary enumerator 3: every backend variant x {nothing, base sub-metrics, percentile sub-metrics, everything} disabled
	// x {no thresholds, thresholds}: payloads with no field at all for a series
	for _, b := range allBackends {
		for _, mask := range []uint32{0, aggx.BaseMask, aggx.AllMask &^ aggx.BaseMask, aggx.AllMask} {
			for _, pcts := range [][]int{nil, {90, -50}} {
				h := c04Head{Head: aggx.Head{Pcts: pcts, Limit: 2, IntervalNs: 1e9, Mask: mask}, Backend: b.name, Variant: b.variant,
					Batch: 1000, Series: map[string][]string{"a": {}, "b": {"gsd_histogram:1_2"}}, Order: []string{"a", "b"}}
				items := []string{fmt.Sprintf("d a %s %s", hx.F(3), hx.F(1)), fmt.Sprintf("d b %s %s", hx.F(1), hx.F(1)), "f"}
				st.Hit("enum:mask")
				emit(st, h, items, true)
			}
		}
	}

	for i := 0; i < n; i++ {
		b := hx.Pick(r, allBackends)
		h := c04Head{Head: aggx.Head{Pcts: aggx.GenPcts(r), Mask: aggx.GenMask(r), Limit: hx.Pick(r, c04Limits), IntervalNs: aggx.GenInterval(r)},
			Backend: b.name, Variant: b.variant, Series: map[string][]string{}}
		h.Batch = hx.Pick(r, []int{1, 2, 3, 21, 22, 40, 1000, 5000})
		ns := r.Range(1, 3)
		for s := 0; s < ns; s++ {
			sid := string(rune('a' + s))
			h.Series[sid] = aggx.GenTags(r, r.Chance(2, 5))
			h.Order = append(h.Order, sid)
		}
		items := []string{}
		steps := r.Range(1, 6)
		flushes, idles := 0, 0
		for s := 0; s < steps; s++ {
			switch r.Intn(5) {
			case 0, 1, 2: // a burst of datapoints
				for k := r.Range(1, 8); k > 0; k-- {
					sid := hx.Pick(r, h.Order)
					v := float64(r.Range(0, 2000)) / 4
					rate := hx.Pick(r, []float64{1, 1, 0.5, 0.1})
					items = append(items, fmt.Sprintf("d %s %s %s", sid, hx.F(v), hx.F(rate)))
				}
			case 3:
				items = append(items, "m")
			case 4:
				items = append(items, "f")
				flushes++
				for r.Chance(1, 3) && idles < 3 { // idle flushes: persisted empty timers
					items = append(items, "f")
					idles++
				}
			}
		}
		if r.Chance(1, 25) {
			// large timers, growing from one flush to the next (scratch buffers sized for an earlier, smaller timer)
			sid := h.Order[0]
			sizes := hx.Pick(r, [][]int{{3, 1500}, {3000, 4000}, {1100, 2100}, {2048, 2049, 4100}, {5, 1025}})
			items = nil
			for _, n := range sizes {
				items = append(items, fmt.Sprintf("D %s %d %d %d", sid, n, r.Intn(50), r.Range(1, 3)), "f")
			}
			st.Hit("large-timers")
		}
		st.Hit(fmt.Sprintf("idle-flushes=%d", idles))
		st.Hit(fmt.Sprintf("series=%d", ns))
		emit(st, h, items, true)
	}
	hx.Out.Flush()
	st.Write(hx.Arg(args, "--stats", ""))
}

func main() {
	if len(os.Args) < 2 {
		fmt.Fprintln(os.Stderr, "usage: c04 gen|run")
		os.Exit(2)
	}
	logrus.SetOutput(io.Discard)
	// the sandbox exports AWS_CA_BUNDLE, with which aws config.LoadDefaultConfig refuses a plain *http.Client
	// (the repository's own cloudwatch tests fail the same way); no AWS endpoint is ever contacted here
	os.Unsetenv("AWS_CA_BUNDLE")
	os.Setenv("AWS_EC2_METADATA_DISABLED", "true")
	os.Setenv("AWS_REGION", "us-east-1")
	os.Setenv("AWS_ACCESS_KEY_ID", "verif")
	os.Setenv("AWS_SECRET_ACCESS_KEY", "verif")
	switch os.Args[1] {
	case "gen":
		gen(os.Args[2:])
	case "run":
		lines := []string{}
		hx.Lines(func(line string) { lines = append(lines, line) })
		outs := make([]string, len(lines))
		ready := make([]bool, len(lines))
		workers := runtime.GOMAXPROCS(0)
		if workers > 16 {
			workers = 16
		}
		var wg sync.WaitGroup
		var mu sync.Mutex
		printed := 0
		next := make(chan int)
		for w := 0; w < workers; w++ {
			wg.Add(1)
			go func() {
				defer wg.Done()
				for i := range next {
					o := runOne(lines[i])
					// results are printed in case order as soon as every earlier case has finished, so that
					// after an unrecoverable crash the output still tells which cases completed
					mu.Lock()
					outs[i], ready[i] = o, true
					for printed < len(lines) && ready[printed] {
						fmt.Fprintln(hx.Out, outs[printed])
						printed++
					}
					hx.Out.Flush()
					mu.Unlock()
				}
			}()
		}
		for i := range lines {
			next <- i
		}
		close(next)
		wg.Wait()
		hx.Out.Flush()
	default:
		os.Exit(2)
	}
}
