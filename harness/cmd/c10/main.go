// c10: correspondence harness for C10 (static tags, tag de-duplication and filters).
// Case format and output format: see lean/Gsd/Driver/C10.lean.
//
//	head := S n TAG*n O k (REGEX CAND 0|1)*k
//	item := f n PAT*n n PAT*n n PAT*n n PAT*n dm dh | c|g|t|s <mmc entry> | e SRC n TAG*n
package main

import (
	"context"
	"fmt"
	"io"
	"os"
	"regexp"
	"sort"
	"strconv"
	"strings"

	"github.com/sirupsen/logrus"
	"github.com/spf13/viper"

	"github.com/atlassian/gostatsd"
	"github.com/atlassian/gostatsd/pkg/statsd"

	"verifharness/internal/hx"
	"verifharness/internal/mmc"
)

// ------------------------------------------------------------------------------------------ case

type filterT struct {
	mm, xm, mt, dt []string
	dm, dh         bool
}

type eventT struct {
	src  string
	tags []string
}

type oracleT struct {
	re, cand string
	ans      bool
}

type caseT struct {
	static  []string
	oracle  []oracleT
	filters []filterT
	entries [][]string // token groups (mmc entry format)
	events  []eventT
}

func strList(xs []string) string {
	p := []string{strconv.Itoa(len(xs))}
	for _, x := range xs {
		p = append(p, hx.S(x))
	}
	return strings.Join(p, " ")
}

func b01(b bool) string {
	if b {
		return "1"
	}
	return "0"
}

func (f filterT) String() string {
	return fmt.Sprintf("f %s %s %s %s %s %s", strList(f.mm), strList(f.xm), strList(f.mt), strList(f.dt), b01(f.dm), b01(f.dh))
}

func (c *caseT) String() string {
	o := []string{strconv.Itoa(len(c.oracle))}
	for _, e := range c.oracle {
		o = append(o, hx.S(e.re), hx.S(e.cand), b01(e.ans))
	}
	parts := []string{"S " + strList(c.static) + " O " + strings.Join(o, " ")}
	for _, f := range c.filters {
		parts = append(parts, f.String())
	}
	for _, e := range c.entries {
		parts = append(parts, strings.Join(e, " "))
	}
	for _, e := range c.events {
		parts = append(parts, "e "+hx.S(e.src)+" "+strList(e.tags))
	}
	return strings.Join(parts, " ; ")
}

type cur struct {
	t []string
	i int
}

func (c *cur) next() string {
	if c.i >= len(c.t) {
		panic("c10: short token list")
	}
	s := c.t[c.i]
	c.i++
	return s
}
func (c *cur) str() string { return hx.MustUnS(c.next()) }
func (c *cur) strs() []string {
	n := int(hx.MustInt(c.next()))
	out := make([]string, 0, n)
	for i := 0; i < n; i++ {
		out = append(out, c.str())
	}
	return out
}
func (c *cur) bool() bool {
	switch c.next() {
	case "1":
		return true
	case "0":
		return false
	}
	panic("c10: bad bool")
}
func (c *cur) end() {
	if c.i != len(c.t) {
		panic("c10: trailing tokens")
	}
}

func parseCase(line string) (cs *caseT, ok bool) {
	defer func() {
		if e := recover(); e != nil {
			cs, ok = nil, false
		}
	}()
	parts := hx.SplitBy(hx.Tokens(line), ";")
	if len(parts) == 0 {
		return nil, false
	}
	cs = &caseT{}
	h := &cur{t: parts[0]}
	if h.next() != "S" {
		return nil, false
	}
	cs.static = h.strs()
	if h.next() != "O" {
		return nil, false
	}
	n := int(hx.MustInt(h.next()))
	for i := 0; i < n; i++ {
		cs.oracle = append(cs.oracle, oracleT{h.str(), h.str(), h.bool()})
	}
	h.end()
	for _, p := range parts[1:] {
		if len(p) == 0 {
			continue
		}
		switch p[0] {
		case "f":
			c := &cur{t: p[1:]}
			f := filterT{mm: c.strs(), xm: c.strs(), mt: c.strs(), dt: c.strs()}
			f.dm = c.bool()
			f.dh = c.bool()
			c.end()
			cs.filters = append(cs.filters, f)
		case "e":
			c := &cur{t: p[1:]}
			e := eventT{src: c.str(), tags: c.strs()}
			c.end()
			cs.events = append(cs.events, e)
		case "c", "g", "t", "s":
			// validate by parsing into a scratch map
			mmc.AddEntry(gostatsd.NewMetricMap(false), p)
			cs.entries = append(cs.entries, p)
		default:
			return nil, false
		}
	}
	return cs, true
}

// ------------------------------------------------------------------------------------------ run

type capture struct {
	maps   []*gostatsd.MetricMap
	events []*gostatsd.Event
}

func (c *capture) EstimatedTags() int { return 0 }
func (c *capture) DispatchMetricMap(ctx context.Context, mm *gostatsd.MetricMap) {
	c.maps = append(c.maps, mm)
}
func (c *capture) DispatchEvent(ctx context.Context, e *gostatsd.Event) {
	c.events = append(c.events, e)
}
func (c *capture) WaitForEvents() {}

func matchList(ps []string) gostatsd.StringMatchList {
	l := make(gostatsd.StringMatchList, 0, len(ps))
	for _, p := range ps {
		l = append(l, gostatsd.NewStringMatch(p))
	}
	return l
}

// directHandler constructs the filters from the exported struct (as the package's tests do).
func directHandler(cs *caseT, next gostatsd.PipelineHandler) *statsd.TagHandler {
	var fs []statsd.Filter
	for _, f := range cs.filters {
		fs = append(fs, statsd.Filter{
			MatchMetrics: matchList(f.mm), ExcludeMetrics: matchList(f.xm), MatchTags: matchList(f.mt),
			DropTags: matchList(f.dt), DropMetric: f.dm, DropHost: f.dh,
		})
	}
	return statsd.NewTagHandler(next, append(gostatsd.Tags(nil), cs.static...), fs)
}

// viperHandler goes through NewTagHandlerFromViper / NewFilterFromViper (the production path).
func viperHandler(cs *caseT, next gostatsd.PipelineHandler) *statsd.TagHandler {
	v := viper.New()
	names := []string{}
	for i, f := range cs.filters {
		n := fmt.Sprintf("f%d", i)
		names = append(names, n)
		v.Set("filter."+n+".match-metrics", append([]string{}, f.mm...))
		v.Set("filter."+n+".exclude-metrics", append([]string{}, f.xm...))
		v.Set("filter."+n+".match-tags", append([]string{}, f.mt...))
		v.Set("filter."+n+".drop-tags", append([]string{}, f.dt...))
		v.Set("filter."+n+".drop-metric", f.dm)
		v.Set("filter."+n+".drop-host", f.dh)
	}
	v.Set("filters", names)
	return statsd.NewTagHandlerFromViper(v, next, append(gostatsd.Tags(nil), cs.static...))
}

type ser struct {
	id    string // "ty NAME TKEY" of the input entry
	ty    string
	name  string
	toks  []string
	ts    gostatsd.Nanotime
	gval  string
	dropd bool
	key   string // new key when kept
	out   string // rendered outcome
}

func inputMap(entries [][]string) *gostatsd.MetricMap {
	mm := gostatsd.NewMetricMap(false)
	for _, e := range entries {
		mmc.AddEntry(mm, e)
	}
	return mm
}

func sortedTimer(t gostatsd.Timer) gostatsd.Timer {
	t.Values = append([]float64(nil), t.Values...)
	sort.Slice(t.Values, func(i, j int) bool { return hx.F(t.Values[i]) < hx.F(t.Values[j]) })
	return t
}

// renderMap: canonical text of a dispatched map (see the Lean driver); `group` answers, for an output gauge,
// the values of the colliding input gauges that carry its timestamp.
func renderMap(mm *gostatsd.MetricMap, group func(name, key string, ts gostatsd.Nanotime) []string) string {
	es := []string{}
	mm.Counters.Each(func(n, k string, c gostatsd.Counter) { es = append(es, mmc.CounterEntry(n, k, c)) })
	mm.Timers.Each(func(n, k string, t gostatsd.Timer) { es = append(es, mmc.TimerEntry(n, k, sortedTimer(t))) })
	mm.Sets.Each(func(n, k string, s gostatsd.Set) { es = append(es, mmc.SetEntry(n, k, s)) })
	mm.Gauges.Each(func(n, k string, g gostatsd.Gauge) {
		e := mmc.GaugeEntry(n, k, g)
		vals := group(n, k, g.Timestamp)
		distinct := map[string]bool{}
		has := false
		for _, v := range vals {
			distinct[v] = true
			if v == hx.F(g.Value) {
				has = true
			}
		}
		if len(distinct) >= 2 && has {
			f := strings.Fields(e)
			f[3] = "*"
			e = strings.Join(f, " ")
		}
		es = append(es, e)
	})
	if len(es) == 0 {
		return "-"
	}
	sort.Strings(es)
	return strings.Join(es, " , ")
}

func tagsToks(tags gostatsd.Tags) string { return strList([]string(tags)) }

func runCase(cs *caseT) string {
	for _, o := range cs.oracle {
		m, err := regexp.MatchString(o.re, o.cand)
		if err != nil || m != o.ans {
			return "ORACLE_STALE " + hx.S(o.re) + " " + hx.S(o.cand)
		}
	}
	ctx := context.Background()
	capV := &capture{}
	th := viperHandler(cs, capV)

	// 1. the whole map through the handler built from configuration
	th.DispatchMetricMap(ctx, inputMap(cs.entries))
	full := capV.maps
	capV.maps = nil

	// 2. every series on its own: dropped or its new key / source / tags
	sers := []*ser{}
	seen := map[string]*ser{}
	for _, e := range cs.entries {
		s := &ser{ty: e[0], toks: e, id: e[0] + " " + e[1] + " " + e[2]}
		if old, ok := seen[s.id]; ok { // a Go map: the later entry overwrote the earlier one
			*old = *s
			continue
		}
		seen[s.id] = s
		sers = append(sers, s)
	}
	sort.Slice(sers, func(i, j int) bool { return sers[i].id < sers[j].id })
	for _, s := range sers {
		one := inputMap([][]string{s.toks})
		one.Counters.Each(func(n, _ string, c gostatsd.Counter) { s.name, s.ts = n, c.Timestamp })
		one.Timers.Each(func(n, _ string, c gostatsd.Timer) { s.name, s.ts = n, c.Timestamp })
		one.Sets.Each(func(n, _ string, c gostatsd.Set) { s.name, s.ts = n, c.Timestamp })
		one.Gauges.Each(func(n, _ string, c gostatsd.Gauge) { s.name, s.ts, s.gval = n, c.Timestamp, hx.F(c.Value) })
		th.DispatchMetricMap(ctx, one)
		switch len(capV.maps) {
		case 0:
			s.dropd = true
			s.out = "D"
		case 1:
			m := capV.maps[0]
			cnt := 0
			emit := func(n, k string, src gostatsd.Source, tags gostatsd.Tags) {
				cnt++
				s.key = k
				s.out = fmt.Sprintf("K %s %s %s %s %s", s.ty, hx.S(n), hx.S(k), hx.S(string(src)), tagsToks(tags))
			}
			m.Counters.Each(func(n, k string, c gostatsd.Counter) { emit(n, k, c.Source, c.Tags) })
			m.Timers.Each(func(n, k string, c gostatsd.Timer) { emit(n, k, c.Source, c.Tags) })
			m.Sets.Each(func(n, k string, c gostatsd.Set) { emit(n, k, c.Source, c.Tags) })
			m.Gauges.Each(func(n, k string, c gostatsd.Gauge) { emit(n, k, c.Source, c.Tags) })
			if cnt != 1 {
				s.out = fmt.Sprintf("MULTI %d", cnt)
			}
		default:
			s.out = fmt.Sprintf("CALLS %d", len(capV.maps))
		}
		capV.maps = nil
	}
	group := func(name, key string, ts gostatsd.Nanotime) []string {
		vals := []string{}
		for _, s := range sers {
			if s.ty == "g" && !s.dropd && s.name == name && s.key == key && s.ts == ts {
				vals = append(vals, s.gval)
			}
		}
		return vals
	}
	var mapPart string
	switch len(full) {
	case 0:
		mapPart = "NONE"
	case 1:
		mapPart = renderMap(full[0], group)
	default:
		mapPart = fmt.Sprintf("CALLS %d", len(full))
	}

	// 3. the same map through a handler whose filters are constructed directly: must agree
	capD := &capture{}
	thD := directHandler(cs, capD)
	thD.DispatchMetricMap(ctx, inputMap(cs.entries))
	var mapD string
	switch len(capD.maps) {
	case 0:
		mapD = "NONE"
	case 1:
		mapD = renderMap(capD.maps[0], group)
	default:
		mapD = fmt.Sprintf("CALLS %d", len(capD.maps))
	}
	ctor := "same"
	if mapD != mapPart {
		ctor = "CONSTRUCTION_DIFF direct: " + mapD
	}
	// 3b. the same map again (fresh copies; Go's map iteration order differs from run to run): what is handed on
	// is a function of the input, not of the order in which the series happen to be visited
	for rep := 0; rep < 4 && ctor == "same" && len(full) == 1; rep++ {
		capV.maps = nil
		th.DispatchMetricMap(ctx, inputMap(cs.entries))
		again := "NONE"
		if len(capV.maps) == 1 {
			again = renderMap(capV.maps[0], group)
		} else if len(capV.maps) > 1 {
			again = fmt.Sprintf("CALLS %d", len(capV.maps))
		}
		if again != mapPart {
			ctor = "UNSTABLE again: " + again
		}
	}
	capV.maps = nil

	// 4. events
	evs := []string{}
	for _, e := range cs.events {
		var tags gostatsd.Tags
		if len(e.tags) > 0 {
			tags = append(gostatsd.Tags(nil), e.tags...)
		}
		th.DispatchEvent(ctx, &gostatsd.Event{Title: "t", Text: "x", Source: gostatsd.Source(e.src), Tags: tags})
	}
	for _, e := range capV.events {
		// the order of an event's tags is not fixed by the property: rendered sorted (by their encoded form)
		enc := make([]string, len(e.Tags))
		for i, t := range e.Tags {
			enc[i] = hx.S(t)
		}
		sort.Strings(enc)
		evs = append(evs, strings.TrimSpace(hx.S(string(e.Source))+" "+strconv.Itoa(len(enc))+" "+strings.Join(enc, " ")))
	}
	if len(capV.events) != len(cs.events) {
		evs = append(evs, fmt.Sprintf("EVENTS %d", len(capV.events)))
	}
	outs := []string{}
	for _, s := range sers {
		outs = append(outs, s.out)
	}
	join := func(xs []string) string {
		if len(xs) == 0 {
			return "-"
		}
		return strings.Join(xs, " , ")
	}
	return mapPart + " | " + join(outs) + " | " + join(evs) + " | " + ctor
}

// safeRun is runCase with panics of the code under test turned into an outcome.
func safeRun(cs *caseT) (out string) {
	defer func() {
		if e := recover(); e != nil {
			out = fmt.Sprintf("PANIC %v", e)
		}
	}()
	return runCase(cs)
}

func runOne(line string) (out string) {
	defer func() {
		if e := recover(); e != nil {
			out = fmt.Sprintf("PANIC %v", e)
		}
	}()
	cs, ok := parseCase(line)
	if !ok {
		return "BAD_CASE"
	}
	return runCase(cs)
}

// ------------------------------------------------------------------------------------------ gen

var namePool = []string{"req.count", "req.time", "noisy.a", "noisy.butok.b", "global.x", "a"}
var tagPool = []string{"host:a", "host:b", "host:a2", "env:p", "env:q", "z", "az:1", "request_path:/x"}
var staticPool = []string{"dc:x", "host:a", "env:p", "team:t", "z"}
var srcPool = []string{"", "10.0.0.1", "h2"}
var memberPool = []string{"u1", "u2", "u3", ""}

// regexes of the generated family (raw text handed to regexp; all valid)
var regexPool = []string{"^host:", "a$", "o.s", "[0-9]+", ":", ".*", "^$", "^req\\.", "noisy", "^env:p$", "", "\\.b$", "t:a", "(host|env):"}

const (
	kExact = iota
	kPrefix
	kNegExact
	kNegPrefix
	kRegex
	kNegRegex
	nKinds
)

var kindNames = []string{"exact", "prefix", "!exact", "!prefix", "regex", "!regex"}

// genPattern returns a pattern text of the given kind aimed at strings of `pool`, and the raw regex it uses ("" if none).
func genPattern(r *hx.Rng, kind int, pool []string) (string, string, bool) {
	target := hx.Pick(r, pool)
	switch kind {
	case kExact, kNegExact:
		p := target
		if r.Chance(1, 6) {
			p = target + "x" // a miss
		}
		if kind == kNegExact {
			p = "!" + p
		}
		return p, "", false
	case kPrefix, kNegPrefix:
		cut := r.Intn(len(target) + 1)
		p := target[:cut] + "*"
		if kind == kNegPrefix {
			p = "!" + p
		}
		return p, "", false
	default:
		re := hx.Pick(r, regexPool)
		if r.Chance(1, 2) {
			// a literal derived from the target: the whole string or a proper piece of it, anchored at
			// both ends, one end or not at all (FILTERING.md's exact-match recipe is `^…$`)
			lo := r.Intn(len(target) + 1)
			hi := lo + r.Intn(len(target)-lo+1)
			piece := target[lo:hi]
			if r.Chance(1, 3) {
				piece = target
			}
			q := regexp.QuoteMeta(piece)
			switch r.Intn(4) {
			case 0:
				re = "^" + q + "$"
			case 1:
				re = "^" + q
			case 2:
				re = q + "$"
			default:
				re = q
			}
		}
		p := "regex:" + re
		if kind == kNegRegex {
			p = "!" + p
		}
		return p, re, true
	}
}

// odd pattern texts at the edges of NewStringMatch's parsing (none of them is a regex)
var oddPatterns = []string{"", "*", "!", "!*", "!!z", "!!*", "regex", "regex*", "!regex", "xregex:a", "a*b", "host:**", "**", "REGEX:a", "!host:a*"}

type genCtx struct {
	r       *hx.Rng
	regexes map[string]bool
	kinds   map[string]int
}

func (g *genCtx) pats(n int, pool []string, where string) []string {
	out := []string{}
	for i := 0; i < n; i++ {
		if g.r.Chance(1, 12) {
			out = append(out, hx.Pick(g.r, oddPatterns))
			g.kinds["odd/"+where]++
			continue
		}
		k := g.r.Intn(nKinds)
		p, re, isRe := genPattern(g.r, k, pool)
		if isRe {
			g.regexes[re] = true
		}
		g.kinds[kindNames[k]+"/"+where]++
		out = append(out, p)
	}
	return out
}

func (g *genCtx) filter() filterT {
	r := g.r
	f := filterT{}
	if r.Chance(1, 2) {
		f.mm = g.pats(r.Range(1, 2), namePool, "name")
	}
	if r.Chance(1, 4) {
		f.xm = g.pats(1, namePool, "name")
	}
	if r.Chance(1, 2) {
		f.mt = g.pats(r.Range(1, 2), tagPool, "tag")
	}
	switch r.Intn(8) {
	case 0:
		f.dm = true
	case 1:
		f.dh = true
	case 2, 3:
		f.dh = true
		f.dt = g.pats(r.Range(1, 2), tagPool, "tag")
	case 4:
		// no action at all
	default:
		f.dt = g.pats(r.Range(1, 2), tagPool, "tag")
	}
	return f
}

func genTags(r *hx.Rng) []string {
	n := r.Intn(5)
	tags := []string{}
	for i := 0; i < n; i++ {
		tags = append(tags, hx.Pick(r, tagPool))
	}
	if n > 0 && r.Chance(1, 4) { // an explicit duplicate
		tags = append(tags, tags[r.Intn(len(tags))])
		r.Shuffle(len(tags), func(i, j int) { tags[i], tags[j] = tags[j], tags[i] })
	}
	return tags
}

func genEntry(r *hx.Rng, ty, name, src string, tags []string) []string {
	tk := gostatsd.FormatTagsKey(gostatsd.Source(src), append(gostatsd.Tags(nil), tags...))
	ts := gostatsd.Nanotime(100 + r.Intn(4))
	var gt gostatsd.Tags
	if len(tags) > 0 {
		gt = append(gostatsd.Tags(nil), tags...)
	}
	var e string
	switch ty {
	case "c":
		e = mmc.CounterEntry(name, tk, gostatsd.Counter{Value: int64(r.Intn(41) - 20), Timestamp: ts, Source: gostatsd.Source(src), Tags: gt})
	case "g":
		e = mmc.GaugeEntry(name, tk, gostatsd.Gauge{Value: float64(r.Intn(100)) / 4, Timestamp: ts, Source: gostatsd.Source(src), Tags: gt})
	case "t":
		nv := r.Intn(4)
		vals := make([]float64, nv)
		for z := range vals {
			vals[z] = float64(r.Intn(64)) / 2
		}
		e = mmc.TimerEntry(name, tk, gostatsd.Timer{Values: vals, SampledCount: float64(nv * (1 << r.Intn(3))), Timestamp: ts, Source: gostatsd.Source(src), Tags: gt})
	default:
		mem := map[string]struct{}{}
		for z := r.Intn(3); z > 0; z-- {
			mem[hx.Pick(r, memberPool)] = struct{}{}
		}
		e = mmc.SetEntry(name, tk, gostatsd.Set{Values: mem, Timestamp: ts, Source: gostatsd.Source(src), Tags: gt})
	}
	return hx.Tokens(e)
}

// fillOracle computes, with the real regexp package, the answer of every regex of the case on every candidate
// (names and tags of every series).
func fillOracle(cs *caseT, regexes map[string]bool) {
	cands := map[string]bool{}
	for _, e := range cs.entries {
		mm := inputMap([][]string{e})
		add := func(n string, tags gostatsd.Tags) {
			cands[n] = true
			for _, t := range tags {
				cands[t] = true
			}
		}
		mm.Counters.Each(func(n, _ string, c gostatsd.Counter) { add(n, c.Tags) })
		mm.Timers.Each(func(n, _ string, c gostatsd.Timer) { add(n, c.Tags) })
		mm.Sets.Each(func(n, _ string, c gostatsd.Set) { add(n, c.Tags) })
		mm.Gauges.Each(func(n, _ string, c gostatsd.Gauge) { add(n, c.Tags) })
	}
	rs := []string{}
	for re := range regexes {
		rs = append(rs, re)
	}
	sort.Strings(rs)
	cl := []string{}
	for c := range cands {
		cl = append(cl, c)
	}
	sort.Strings(cl)
	cs.oracle = nil
	for _, re := range rs {
		rx := regexp.MustCompile(re)
		for _, c := range cl {
			cs.oracle = append(cs.oracle, oracleT{re, c, rx.MatchString(c)})
		}
	}
}

func randomCase(r *hx.Rng, kinds map[string]int) *caseT {
	g := &genCtx{r: r, regexes: map[string]bool{}, kinds: kinds}
	cs := &caseT{}
	for i := r.Intn(4); i > 0; i-- {
		cs.static = append(cs.static, hx.Pick(r, staticPool))
	}
	nf := r.Intn(5)
	for i := 0; i < nf; i++ {
		cs.filters = append(cs.filters, g.filter())
	}
	// series: few names and tag sets so that series coincide once tags / hosts are removed
	nser := r.Intn(9)
	names := namePool[:2+r.Intn(len(namePool)-1)]
	used := map[string]bool{}
	var base []string
	for i := 0; i < nser; i++ {
		ty := hx.Pick(r, []string{"c", "g", "t", "s"})
		name := hx.Pick(r, names)
		src := hx.Pick(r, srcPool)
		var tags []string
		if base != nil && r.Chance(1, 2) {
			// a variation of an earlier series: same tags plus / minus a host tag
			tags = append([]string{}, base...)
			if r.Bool() {
				tags = append(tags, hx.Pick(r, tagPool[:3]))
			} else if len(cs.static) > 0 && r.Bool() {
				// ... or plus a static tag: the two coincide once the static tags are added
				tags = append(tags, hx.Pick(r, cs.static))
			}
			r.Shuffle(len(tags), func(i, j int) { tags[i], tags[j] = tags[j], tags[i] })
			if r.Chance(1, 3) && i > 0 {
				prev := cs.entries[len(cs.entries)-1]
				ty, name = prev[0], hx.MustUnS(prev[1])
			}
		} else {
			tags = genTags(r)
			base = tags
		}
		e := genEntry(r, ty, name, src, tags)
		id := e[0] + " " + e[1] + " " + e[2]
		if used[id] {
			continue
		}
		used[id] = true
		cs.entries = append(cs.entries, e)
	}
	for i := r.Intn(3); i > 0; i-- {
		cs.events = append(cs.events, eventT{src: hx.Pick(r, srcPool), tags: genTags(r)})
	}
	fillOracle(cs, g.regexes)
	return cs
}

// boundary enumerator: every pair of pattern kinds × every pair of drop actions, on a 3-tag metric (plus two
// series that coincide with it once host tags / the host are removed).
func boundaryCases() []*caseT {
	out := []*caseT{}
	tagPat := []string{"host:a", "host:*", "!env:p", "!env:*", "regex:^host:", "!regex:^host:"}
	namePat := []string{"req.count", "req.*", "!req.time", "!noisy.*", "regex:^req\\.", "!regex:count$"}
	regexOf := map[string]string{"regex:^host:": "^host:", "!regex:^host:": "^host:", "regex:^req\\.": "^req\\.", "!regex:count$": "count$"}
	for k1 := 0; k1 < nKinds; k1++ {
		for k2 := 0; k2 < nKinds; k2++ {
			for a1 := 0; a1 < 3; a1++ {
				for a2 := 0; a2 < 3; a2++ {
					cs := &caseT{static: []string{"dc:x", "host:a"}}
					regs := map[string]bool{}
					note := func(p string) string {
						if re, ok := regexOf[p]; ok {
							regs[re] = true
						}
						return p
					}
					f1 := filterT{mt: []string{note(tagPat[k1])}}
					f2 := filterT{mm: []string{note(namePat[k2])}}
					act := func(f *filterT, a int, dropPat string) {
						switch a {
						case 0:
							f.dt = []string{note(dropPat)}
						case 1:
							f.dm = true
						case 2:
							f.dh = true
						}
					}
					act(&f1, a1, tagPat[k2])
					act(&f2, a2, tagPat[k1])
					cs.filters = []filterT{f1, f2}
					r := hx.NewRng(uint64(k1*1000 + k2*100 + a1*10 + a2))
					cs.entries = append(cs.entries,
						genEntry(r, "c", "req.count", "10.0.0.1", []string{"host:a", "env:p", "z"}),
						genEntry(r, "c", "req.count", "h2", []string{"env:p", "z", "host:b"}),
						genEntry(r, "c", "req.count", "", []string{"env:p", "z"}),
						genEntry(r, "t", "req.time", "10.0.0.1", []string{"host:a", "env:p", "z"}),
						genEntry(r, "t", "req.time", "10.0.0.1", []string{"z", "env:p"}))
					cs.events = []eventT{{src: "h2", tags: []string{"host:a", "z", "host:a"}}}
					fillOracle(cs, regs)
					out = append(out, cs)
				}
			}
		}
	}
	return out
}

func classify(cs *caseT, st *hx.Stats) bool {
	out := safeRun(cs)
	parts := strings.Split(out, " | ")
	if len(parts) != 4 {
		st.Hit("impl-output:" + strings.Fields(out)[0])
		return false
	}
	nD, nK := 0, 0
	for _, o := range strings.Split(parts[1], " , ") {
		switch {
		case o == "D":
			nD++
		case strings.HasPrefix(o, "K "):
			nK++
		}
	}
	nOut := 0
	if parts[0] != "NONE" && parts[0] != "-" {
		nOut = len(strings.Split(parts[0], " , "))
	}
	hostCleared, removed := false, false
	// compare with a filter-less handler: anything the filters changed besides dropping
	plain := &caseT{static: cs.static, entries: cs.entries}
	po := strings.Split(safeRun(plain), " | ")
	if len(po) == 4 && po[1] != parts[1] {
		removed = true
		a, b := strings.Split(po[1], " , "), strings.Split(parts[1], " , ")
		for i := range b {
			fa, fb := strings.Fields(a[i]), strings.Fields(b[i])
			if len(fa) >= 5 && len(fb) >= 5 && fb[0] == "K" && fb[4] == "x" && fa[4] != "x" {
				hostCleared = true
			}
		}
	}
	if nD > 0 {
		st.Hit("some-series-dropped")
	}
	if nK > nOut {
		st.Hit("collision-after-filtering")
	}
	if removed {
		st.Hit("filters-changed-tags-or-host")
	}
	if hostCleared {
		st.Hit("host-cleared-by-drop-host")
	}
	if strings.Contains(parts[0], " * ") {
		st.Hit("gauge-tie-at-newest-timestamp")
	}
	st.Hit(fmt.Sprintf("filters=%d", len(cs.filters)))
	st.Hit(fmt.Sprintf("series=%d", min(len(cs.entries), 8)))
	return len(cs.filters) > 0 && len(cs.entries) > 0 && (nD > 0 || removed || nK > nOut)
}

func gen(args []string) {
	r := hx.NewRng(hx.Seed())
	n := hx.ArgInt(args, "--n", 1500)
	st := hx.NewStats("0..4 filters (each pattern list drawn from exact / prefix* / !exact / !prefix* / regex: / !regex: and odd texts, on names and on tags; drop-tags / drop-metric / drop-host / no action), 0..3 static tags overlapping the tag pool, 0..8 series of all four types over few names and tag sets (duplicate tags, variations that coincide after filtering, 4 timestamps, dyadic values), 0..2 events; preceded by the boundary enumeration (6×6 pattern kinds × 3×3 actions); non-trivial = at least one filter and one series and some series is dropped, changed by a filter, or merged; distinct by case text")
	kinds := map[string]int{}
	emit := func(cs *caseT) {
		line := cs.String()
		st.Case(line, classify(cs, st))
		fmt.Fprintln(hx.Out, line)
	}
	bc := boundaryCases()
	for i, cs := range bc {
		if i >= n {
			break
		}
		emit(cs)
		st.Hit("boundary-enumeration")
	}
	for i := len(bc); i < n; i++ {
		emit(randomCase(r, kinds))
	}
	for k, v := range kinds {
		st.Distribution["pattern:"+k] = v
	}
	hx.Out.Flush()
	st.Write(hx.Arg(args, "--stats", ""))
}

func main() {
	logrus.SetOutput(io.Discard)
	if len(os.Args) < 2 {
		os.Exit(2)
	}
	switch os.Args[1] {
	case "gen":
		gen(os.Args[2:])
	case "run":
		hx.Lines(func(line string) { fmt.Fprintln(hx.Out, runOne(line)) })
		hx.Out.Flush()
	case "corpus":
		for _, cs := range corpusCases() {
			fmt.Println(cs.String())
		}
	default:
		os.Exit(2)
	}
}
