package main

import (
	"github.com/atlassian/gostatsd"

	"verifharness/internal/hx"
	"verifharness/internal/mmc"
)

// hand-written boundary cases; `c10 corpus` prints them (with the regexp oracle filled in by the real
// library) and the output is kept in corpus/C10/boundary.case.

func cEntry(name, src string, tags []string, v int64, ts int64) []string {
	tk := gostatsd.FormatTagsKey(gostatsd.Source(src), append(gostatsd.Tags(nil), tags...))
	return hx.Tokens(mmc.CounterEntry(name, tk, gostatsd.Counter{Value: v, Timestamp: gostatsd.Nanotime(ts), Source: gostatsd.Source(src), Tags: append(gostatsd.Tags(nil), tags...)}))
}

func gEntry(name, src string, tags []string, v float64, ts int64) []string {
	tk := gostatsd.FormatTagsKey(gostatsd.Source(src), append(gostatsd.Tags(nil), tags...))
	return hx.Tokens(mmc.GaugeEntry(name, tk, gostatsd.Gauge{Value: v, Timestamp: gostatsd.Nanotime(ts), Source: gostatsd.Source(src), Tags: append(gostatsd.Tags(nil), tags...)}))
}

func tEntry(name, src string, tags []string, vals []float64, sampled float64, ts int64) []string {
	tk := gostatsd.FormatTagsKey(gostatsd.Source(src), append(gostatsd.Tags(nil), tags...))
	return hx.Tokens(mmc.TimerEntry(name, tk, gostatsd.Timer{Values: vals, SampledCount: sampled, Timestamp: gostatsd.Nanotime(ts), Source: gostatsd.Source(src), Tags: append(gostatsd.Tags(nil), tags...)}))
}

func sEntry(name, src string, tags []string, members []string, ts int64) []string {
	tk := gostatsd.FormatTagsKey(gostatsd.Source(src), append(gostatsd.Tags(nil), tags...))
	mem := map[string]struct{}{}
	for _, m := range members {
		mem[m] = struct{}{}
	}
	return hx.Tokens(mmc.SetEntry(name, tk, gostatsd.Set{Values: mem, Timestamp: gostatsd.Nanotime(ts), Source: gostatsd.Source(src), Tags: append(gostatsd.Tags(nil), tags...)}))
}

func withOracle(cs *caseT, regexes ...string) *caseT {
	rs := map[string]bool{}
	for _, r := range regexes {
		rs[r] = true
	}
	fillOracle(cs, rs)
	return cs
}

func corpusCases() []*caseT {
	S := func(xs ...string) []string { return xs }
	return []*caseT{
		// 1. no filters: duplicate static tags, duplicate input tags, event with duplicates
		withOracle(&caseT{static: S("a", "b", "a"),
			entries: [][]string{cEntry("m", "h", S("x", "a", "x"), 3, 100), cEntry("m", "h", S("x", "a"), 4, 101), cEntry("m", "h", nil, 1, 99)},
			events:  []eventT{{"h", S("x", "a", "x", "b", "c", "x")}, {"", nil}}}),
		// 2. a static tag equal to a removed tag is not re-added; a static tag matching the pattern but not on the metric stays
		withOracle(&caseT{static: S("host:a", "dc:x"), filters: []filterT{{dt: S("host:*")}},
			entries: [][]string{cEntry("m", "", S("host:a", "z"), 1, 100), cEntry("m", "", S("z"), 2, 101), cEntry("m", "", S("host:b", "z", "host:b"), 4, 99)}}),
		// 3. every satisfied filter acts (no short-circuit): two drop-tags filters and a drop-host filter
		withOracle(&caseT{filters: []filterT{{dt: S("a")}, {dt: S("b")}, {mm: S("m*"), dh: true}},
			entries: [][]string{cEntry("m", "h", S("a", "b", "c"), 1, 100), cEntry("n", "h", S("a", "b", "c"), 1, 100)}}),
		// 4. conditions look at the ORIGINAL tags: filter 2 still sees tag `a` although filter 1 removes it
		withOracle(&caseT{filters: []filterT{{dt: S("a")}, {mt: S("a"), dh: true, dt: S("c")}},
			entries: [][]string{cEntry("m", "h", S("a", "b", "c"), 1, 100), cEntry("m", "h", S("b", "c"), 2, 100)}}),
		// 5. inverted prefix on drop-tags and on match-tags
		withOracle(&caseT{static: S("dc:x"), filters: []filterT{{dt: S("!host:*")}, {mt: S("!host:*"), dh: true}},
			entries: [][]string{cEntry("m", "h", S("host:a", "env:p", "z"), 1, 100), cEntry("m", "h", S("host:a"), 2, 100), cEntry("m", "h", nil, 4, 100)}}),
		// 6. regex: and !regex: (offset 6 after the optional `!`), substring semantics, `*` belongs to the regex
		withOracle(&caseT{filters: []filterT{{mm: S("regex:^req\\."), dt: S("regex:^host:", "!regex:[a-z]")}, {mm: S("!regex:q"), dm: true}, {dt: S("regex:z*")}},
			entries: [][]string{cEntry("req.count", "", S("host:a", "123", "env:p"), 1, 100), cEntry("xreq.count", "", S("host:a", "123"), 2, 100), cEntry("other", "", S("host:a"), 4, 100)}},
			"^req\\.", "^host:", "[a-z]", "q", "z*"),
		// 7. all four types coincide once `host:*` and the host are removed; equal newest timestamps (gauge tie)
		withOracle(&caseT{static: S("dc:x"), filters: []filterT{{dt: S("host:*"), dh: true}},
			entries: [][]string{
				cEntry("c", "h1", S("host:a", "z"), 5, 100), cEntry("c", "h2", S("host:b", "z"), -2, 103), cEntry("c", "", S("z"), 7, 101),
				gEntry("g", "h1", S("host:a"), 1.5, 102), gEntry("g", "h2", S("host:b"), 2.5, 102), gEntry("g", "", nil, 9, 100),
				tEntry("t", "h1", S("host:a"), []float64{1, 2}, 4, 100), tEntry("t", "h2", S("host:b"), []float64{0.5}, 1, 101), tEntry("t", "h3", nil, nil, 0, 102),
				sEntry("s", "h1", S("host:a"), S("u1", "u2"), 100), sEntry("s", "h2", S("host:b"), S("u2", "u3"), 100)}}),
		// 8. drop-metric in a later filter wins although an earlier filter already cleared the host
		withOracle(&caseT{filters: []filterT{{dh: true, dt: S("a")}, {mt: S("a"), dm: true}},
			entries: [][]string{cEntry("m", "h", S("a", "b"), 1, 100), cEntry("m", "h", S("b"), 2, 100)}}),
		// 9. odd pattern texts
		withOracle(&caseT{filters: []filterT{{mm: S(""), dm: true}, {mt: S("!"), dt: S("!!z")}, {xm: S("!*"), dt: S("*b")}, {mm: S("!!m"), dt: S("*")}},
			entries: [][]string{cEntry("", "", S("a"), 1, 100), cEntry("m", "", S("z", "!z", "*b", "ab"), 2, 100), cEntry("!m", "", S("q"), 4, 100)}}),
		// 10. everything is dropped: nothing is handed on
		withOracle(&caseT{static: S("dc:x"), filters: []filterT{{dm: true}},
			entries: [][]string{cEntry("m", "h", S("a"), 1, 100), gEntry("g", "", nil, 1, 100)}, events: []eventT{{"h", S("a")}}}),
		// 11. match-tags with a tagless metric (not satisfied), exclude-metrics, empty match lists
		withOracle(&caseT{filters: []filterT{{mt: S("!a"), dm: true}, {mm: S("noisy.*"), xm: S("noisy.butok.*"), dm: true}},
			entries: [][]string{cEntry("m", "", nil, 1, 100), cEntry("m", "", S("a"), 2, 100), cEntry("m", "", S("a", "b"), 3, 100),
				cEntry("noisy.x", "", nil, 4, 100), cEntry("noisy.butok.x", "", nil, 5, 100)}}),
		// 12. swap-remove order of uniqueTagsWithSeen (visible on events; metrics are sorted by FormatTagsKey)
		withOracle(&caseT{static: S("s1", "c", "s2"), filters: []filterT{{dt: S("d")}},
			entries: [][]string{cEntry("m", "", S("d", "a", "b", "d", "c"), 1, 100)},
			events:  []eventT{{"h", S("d", "a", "d", "b", "a", "c", "d")}}}),
		// 13. no series at all, filters present
		withOracle(&caseT{static: S("x"), filters: []filterT{{dt: S("x")}}, events: []eventT{{"", S("x", "x")}}}),
	}
}
