// c16: correspondence harness for C16 (each backend flush request completes exactly once).
//
//	c16 gen  [--n N] [--tier quick|thorough] [--stats file]   cases on stdout (VERIF_SEED)
//	c16 run                                                   reads cases, prints what the real code did
//	c16 one                                                   runs the single case on stdin (child of `run`)
//
// Case kinds (see lean/Gsd/Driver/C16.lean): `snd` lock-step scripts for the real sender.Sender,
// `be` one flush of an HTTP backend against a scripted server, `sock` graphite / statsdaemon over
// real sockets, `fl` the real MetricFlusher with scripted callback order.
//
// Timing never decides an output: every wait is for an observable condition (a callback, the Run
// goroutine coming to rest at a blocking point, a process exit) with a 20 s deadline (`HANG`).
package main

import (
	"bytes"
	"context"
	"fmt"
	"io"
	"os"
	"os/exec"
	"strings"
	"sync"
	"time"

	"github.com/sirupsen/logrus"

	"verifharness/internal/hx"
)

const deadline = 20 * time.Second

func main() {
	logrus.SetOutput(io.Discard)
	if len(os.Args) < 2 {
		fmt.Fprintln(os.Stderr, "usage: c16 gen|run|one")
		os.Exit(2)
	}
	switch os.Args[1] {
	case "gen":
		gen(os.Args[2:])
	case "run":
		run()
	case "one":
		one()
	case "many":
		many()
	default:
		fmt.Fprintln(os.Stderr, "usage: c16 gen|run|one")
		os.Exit(2)
	}
}

func quietLogger() *logrus.Logger {
	l := logrus.New()
	l.SetOutput(io.Discard)
	return l
}

func items(line string) [][]string { return hx.SplitBy(hx.Tokens(line), ";") }

// runCase executes one case in this process.
func runCase(line string) (out string) {
	defer func() {
		if r := recover(); r != nil {
			out = "PANIC " + panicClass(fmt.Sprint(r))
		}
	}()
	its := items(line)
	if len(its) == 0 || len(its[0]) == 0 {
		return "BAD_CASE"
	}
	switch its[0][0] {
	case "snd":
		return runSnd(its[1:])
	case "be":
		return runBe(its)
	case "sock":
		return runSock(its)
	case "fl":
		return runFl(its)
	case "flx":
		return runFlx(its[0])
	}
	return "BAD_CASE"
}

func panicClass(msg string) string {
	if strings.Contains(msg, "nil pointer dereference") {
		return "nil-pointer"
	}
	if strings.Contains(msg, "negative WaitGroup counter") {
		return "negative-waitgroup"
	}
	if strings.Contains(msg, "closed channel") {
		return "closed-channel"
	}
	return "other"
}

func one() {
	var line string
	hx.Lines(func(l string) {
		if line == "" {
			line = l
		}
	})
	fmt.Println(runCase(line))
}

// many runs the cases on stdin concurrently in this process (a chunk of sender / flusher cases: few
// goroutines per process keep the stack snapshots cheap).
func many() {
	var cases []string
	hx.Lines(func(l string) { cases = append(cases, l) })
	outs := make([]string, len(cases))
	var wg sync.WaitGroup
	for i, c := range cases {
		i, c := i, c
		wg.Add(1)
		go func() { defer wg.Done(); outs[i] = runCase(c) }()
	}
	wg.Wait()
	for _, o := range outs {
		fmt.Println(o)
	}
}

// child runs `c16 <mode>` on the given cases in a child process and returns one line per case, or
// nil when the child died (a panic on a goroutine started by a backend cannot be recovered).
func child(mode string, cases []string) ([]string, string) {
	ctx, cancel := context.WithTimeout(context.Background(), 150*time.Second)
	defer cancel()
	cmd := exec.CommandContext(ctx, os.Args[0], mode)
	cmd.Stdin = strings.NewReader(strings.Join(cases, "\n") + "\n")
	var so, se bytes.Buffer
	cmd.Stdout = &so
	cmd.Stderr = &se
	err := cmd.Run()
	outs := strings.Split(strings.TrimRight(so.String(), "\n"), "\n")
	if err == nil && len(outs) == len(cases) {
		return outs, ""
	}
	if ctx.Err() != nil {
		return nil, "HANG child"
	}
	return nil, "PANIC " + panicClass(se.String())
}

func run() {
	var cases []string
	hx.Lines(func(l string) { cases = append(cases, l) })
	outs := make([]string, len(cases))
	type job struct{ idx []int }
	var jobs []job
	var chunk []int
	for i, c := range cases {
		if strings.HasPrefix(c, "be ") || strings.HasPrefix(c, "sock ") {
			jobs = append(jobs, job{[]int{i}})
			continue
		}
		chunk = append(chunk, i)
		if len(chunk) == 6 {
			jobs = append(jobs, job{chunk})
			chunk = nil
		}
	}
	if len(chunk) > 0 {
		jobs = append(jobs, job{chunk})
	}
	ch := make(chan job)
	var wg sync.WaitGroup
	for w := 0; w < 20; w++ {
		wg.Add(1)
		go func() {
			defer wg.Done()
			for j := range ch {
				sub := make([]string, len(j.idx))
				for k, i := range j.idx {
					sub[k] = cases[i]
				}
				mode := "many"
				if len(sub) == 1 {
					mode = "one"
				}
				res, fail := child(mode, sub)
				if res == nil && len(sub) > 1 {
					// the chunk died: one child per case, so that only the killer is lost
					res = make([]string, len(sub))
					for k := range sub {
						r1, f1 := child("one", sub[k:k+1])
						if r1 == nil {
							res[k] = f1
						} else {
							res[k] = r1[0]
						}
					}
				} else if res == nil {
					res = []string{fail}
				}
				for k, i := range j.idx {
					outs[i] = res[k]
				}
			}
		}()
	}
	for _, j := range jobs {
		ch <- j
	}
	close(ch)
	wg.Wait()
	for _, o := range outs {
		fmt.Fprintln(hx.Out, o)
	}
	hx.Out.Flush()
}
