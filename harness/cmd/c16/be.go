package main

import (
	v1export "go.opentelemetry.io/proto/otlp/collector/metrics/v1"
	"google.golang.org/protobuf/proto"

	"bytes"
	"compress/gzip"
	"context"
	"crypto/sha256"
	"fmt"
	"io"
	"net"
	"net/http"
	"net/http/httptest"
	"os"
	"strconv"
	"strings"
	"sync"
	"sync/atomic"
	"time"

	"github.com/spf13/viper"

	"github.com/atlassian/gostatsd"
	"github.com/atlassian/gostatsd/pkg/backends/cloudwatch"
	"github.com/atlassian/gostatsd/pkg/backends/datadog"
	"github.com/atlassian/gostatsd/pkg/backends/graphite"
	"github.com/atlassian/gostatsd/pkg/backends/influxdb"
	"github.com/atlassian/gostatsd/pkg/backends/newrelic"
	"github.com/atlassian/gostatsd/pkg/backends/null"
	"github.com/atlassian/gostatsd/pkg/backends/otlp"
	"github.com/atlassian/gostatsd/pkg/backends/statsdaemon"
	"github.com/atlassian/gostatsd/pkg/backends/stdout"
	"github.com/atlassian/gostatsd/pkg/transport"
)

// ---- scripted HTTP server ------------------------------------------------------------------------

// scriptServer answers each request according to the script of the *batch* it belongs to: batches
// are told apart by their body (a retry re-sends the same bytes), and are numbered in order of first
// arrival.  A batch script is a word over 2 4 5 9 H S; its last letter repeats.
type scriptServer struct {
	mu       sync.Mutex
	scripts  []string
	index    map[[32]byte]int
	attempts map[int]int
	requests int
	inflight int32
	cancelAt int // 1-based request number at which `cancel` is called, 0 = never
	cancel   func()
	xml      bool // cloudwatch (awsquery) bodies
	srv      *httptest.Server
	Attempts int // total, for stats
}

func newScriptServer(xml bool) *scriptServer {
	s := &scriptServer{xml: xml}
	s.srv = httptest.NewServer(http.HandlerFunc(s.handle))
	return s
}

func (s *scriptServer) reset(scripts []string, cancelAt int, cancel func()) {
	s.mu.Lock()
	defer s.mu.Unlock()
	s.scripts = scripts
	s.index = map[[32]byte]int{}
	s.attempts = map[int]int{}
	s.requests = 0
	s.cancelAt = cancelAt
	s.cancel = cancel
}

func (s *scriptServer) handle(w http.ResponseWriter, r *http.Request) {
	atomic.AddInt32(&s.inflight, 1)
	defer atomic.AddInt32(&s.inflight, -1)
	body, rerr := io.ReadAll(r.Body)
	if os.Getenv("C16_DEBUG") != "" {
		fmt.Fprintf(os.Stderr, "request %s len=%d cl=%d err=%v\n", r.URL.Path, len(body), r.ContentLength, rerr)
	}
	// newrelic (insights / metrics) gzips the payload again on every retry: tell batches apart by the
	// fully decompressed body
	depth := 0
	for len(body) > 2 && body[0] == 0x1f && body[1] == 0x8b && depth < 8 {
		zr, err := gzip.NewReader(bytes.NewReader(body))
		if err != nil {
			break
		}
		plain, err := io.ReadAll(zr)
		if err != nil {
			break
		}
		body = plain
		depth++
	}
	if depth > 1 && os.Getenv("C16_DEBUG") != "" {
		fmt.Fprintf(os.Stderr, "body compressed %d times\n", depth)
	}
	key := sha256.Sum256(body)
	s.mu.Lock()
	b, ok := s.index[key]
	if !ok {
		b = len(s.index)
		s.index[key] = b
	}
	att := s.attempts[b]
	s.attempts[b] = att + 1
	s.requests++
	s.Attempts++
	doCancel := s.cancelAt != 0 && s.requests == s.cancelAt
	cancel := s.cancel
	script := "2"
	if b < len(s.scripts) && s.scripts[b] != "" {
		script = s.scripts[b]
	}
	s.mu.Unlock()
	if doCancel && cancel != nil {
		cancel()
	}
	if att >= len(script) {
		att = len(script) - 1
	}
	switch script[att] {
	case 'S':
		time.Sleep(150 * time.Millisecond)
		s.ok(w)
	case '2':
		s.ok(w)
	case '4':
		s.fail(w, 400, "InvalidParameterValue")
	case '5':
		s.fail(w, 503, "ServiceUnavailable")
	case 'P':
		// OTLP partial success: 200, some data points rejected (other protocols: a plain success)
		if strings.HasSuffix(r.URL.Path, "/v1/metrics") {
			b, _ := proto.Marshal(&v1export.ExportMetricsServiceResponse{PartialSuccess: &v1export.ExportMetricsPartialSuccess{RejectedDataPoints: 1, ErrorMessage: "scripted rejection"}})
			w.Header().Set("Content-Type", "application/x-protobuf")
			w.WriteHeader(200)
			_, _ = w.Write(b)
			return
		}
		s.ok(w)
	case '9':
		w.Header().Set("Retry-After", "1")
		s.fail(w, 429, "Throttling")
	case 'T':
		// no answer: the request is held until the client gives up (its own time-out, 400 ms in such cases) and closes
		select {
		case <-r.Context().Done():
		case <-time.After(3 * time.Second):
		}
		if hj, ok := w.(http.Hijacker); ok {
			if conn, _, err := hj.Hijack(); err == nil {
				_ = conn.Close()
			}
		}
	case 'H':
		if hj, ok := w.(http.Hijacker); ok {
			if conn, _, err := hj.Hijack(); err == nil {
				_ = conn.Close()
				return
			}
		}
		s.fail(w, 500, "InternalFailure")
	default:
		s.ok(w)
	}
}

func (s *scriptServer) ok(w http.ResponseWriter) {
	if s.xml {
		w.Header().Set("Content-Type", "text/xml")
		w.WriteHeader(200)
		_, _ = io.WriteString(w, `<PutMetricDataResponse xmlns="http://monitoring.amazonaws.com/doc/2010-08-01/"><ResponseMetadata><RequestId>r</RequestId></ResponseMetadata></PutMetricDataResponse>`)
		return
	}
	w.WriteHeader(http.StatusNoContent)
}

func (s *scriptServer) fail(w http.ResponseWriter, code int, awsCode string) {
	if s.xml {
		w.Header().Set("Content-Type", "text/xml")
		w.WriteHeader(code)
		_, _ = fmt.Fprintf(w, `<ErrorResponse xmlns="http://monitoring.amazonaws.com/doc/2010-08-01/"><Error><Type>Sender</Type><Code>%s</Code><Message>scripted</Message></Error><RequestId>r</RequestId></ErrorResponse>`, awsCode)
		return
	}
	w.WriteHeader(code)
}

func (s *scriptServer) idle() {
	t0 := time.Now()
	for atomic.LoadInt32(&s.inflight) != 0 && time.Since(t0) < 2*time.Second {
		time.Sleep(time.Millisecond)
	}
}

// ---- backends ------------------------------------------------------------------------------------

func gaugeMap(n int) *gostatsd.MetricMap {
	mm := gostatsd.NewMetricMap(false)
	for i := 0; i < n; i++ {
		mm.Gauges[fmt.Sprintf("m%04d", i)] = map[string]gostatsd.Gauge{
			"": gostatsd.NewGauge(gostatsd.Nanotime(time.Now().UnixNano()), float64(i)+0.5, "h", nil),
		}
	}
	return mm
}

// bigGaugeMap renders to well over 1000 UDP datagrams of the statsd relay (more than the relay's channel of
// packet buffers holds): n gauges with 120-byte names
func bigGaugeMap(n int) *gostatsd.MetricMap {
	mm := gostatsd.NewMetricMap(false)
	pad := strings.Repeat("x", 110)
	for i := 0; i < n; i++ {
		mm.Gauges[fmt.Sprintf("m%06d.%s", i, pad)] = map[string]gostatsd.Gauge{
			"": gostatsd.NewGauge(gostatsd.Nanotime(time.Now().UnixNano()), float64(i)+0.5, "h", nil),
		}
	}
	return mm
}

// packetGaugeMap renders to exactly n UDP datagrams of the statsd relay: every line is longer than half a datagram
func packetGaugeMap(n int) *gostatsd.MetricMap {
	mm := gostatsd.NewMetricMap(false)
	pad := strings.Repeat("y", 730)
	for i := 0; i < n; i++ {
		mm.Gauges[fmt.Sprintf("p%06d.%s", i, pad)] = map[string]gostatsd.Gauge{
			"": gostatsd.NewGauge(gostatsd.Nanotime(time.Now().UnixNano()), 0.5, "h", nil),
		}
	}
	return mm
}

type beCase struct {
	backend, flavor, retry, cancel string
	reps                           int
	scripts                        []string
}

func parseBe(its [][]string) (*beCase, bool) {
	h := its[0]
	if len(h) != 6 {
		return nil, false
	}
	reps, err := strconv.Atoi(h[5])
	if err != nil || reps < 1 {
		return nil, false
	}
	c := &beCase{backend: h[1], flavor: h[2], retry: h[3], cancel: h[4], reps: reps}
	for _, it := range its[1:] {
		if len(it) == 1 {
			c.scripts = append(c.scripts, it[0])
		}
	}
	return c, true
}

func (c *beCase) elapsed() time.Duration {
	switch c.retry {
	case "no":
		return -1
	case "ex":
		return 300 * time.Millisecond
	}
	return 30 * time.Second
}

// build constructs the real backend from viper configuration, pointed at the scripted server.
func (c *beCase) build(url string) (gostatsd.Backend, int, error) {
	v := viper.New()
	lg := quietLogger()
	v.Set("transport.default.client-timeout", 5*time.Second)
	for _, w := range c.scripts {
		if strings.Contains(w, "T") {
			// an attempt that is never answered ends by the client's own time-out while the flush is still wanted
			v.Set("transport.default.client-timeout", 400*time.Millisecond)
		}
	}
	pool := transport.NewTransportPool(lg, v)
	k := len(c.scripts)
	switch c.backend {
	case "datadog":
		v.Set("datadog.api_endpoint", url)
		v.Set("datadog.api_key", "k")
		v.Set("datadog.metrics_per_batch", 1)
		v.Set("datadog.max_requests", 4)
		v.Set("datadog.max_request_elapsed_time", c.elapsed())
		v.Set("datadog.compress_payload", c.flavor == "z")
		b, err := datadog.NewClientFromViper(v, lg, pool)
		return b, k, err
	case "influxdb":
		v.Set("influxdb.api-endpoint", url)
		if c.flavor == "v1" {
			v.Set("influxdb.api-version", 1)
			v.Set("influxdb.database", "db")
		} else {
			v.Set("influxdb.api-version", 2)
			v.Set("influxdb.bucket", "b")
			v.Set("influxdb.org", "o")
		}
		v.Set("influxdb.metrics-per-batch", 1)
		v.Set("influxdb.max-requests", 4)
		v.Set("influxdb.max-request-elapsed-time", c.elapsed())
		v.Set("influxdb.compress-payload", false)
		b, err := influxdb.NewClientFromViper(v, lg, pool)
		return b, k, err
	case "newrelic":
		v.Set("newrelic.address", url+"/v1/data")
		v.Set("newrelic.address-metrics", url+"/metric/v1")
		v.Set("newrelic.flush-type", c.flavor)
		if c.flavor != "infra" {
			v.Set("newrelic.api-key", "k")
		}
		v.Set("newrelic.metrics-per-batch", 1)
		v.Set("newrelic.max-requests", 4)
		v.Set("newrelic.max-request-elapsed-time", c.elapsed())
		b, err := newrelic.NewClientFromViper(v, lg, pool)
		return b, k, err
	case "otlp":
		v.Set("otlp.metrics_endpoint", url+"/v1/metrics")
		v.Set("otlp.logs_endpoint", url+"/v1/logs")
		v.Set("otlp.metrics_per_batch", 1)
		v.Set("otlp.max_requests", 4)
		v.Set("otlp.compress_payload", false)
		if c.flavor == "hist" {
			v.Set("otlp.conversion", otlp.ConversionAsHistogram)
		}
		switch c.retry {
		case "no":
			v.Set("otlp.max_retries", 0)
		case "ex":
			v.Set("otlp.max_request_elapsed_time", 300*time.Millisecond)
		default:
			v.Set("otlp.max_request_elapsed_time", 30*time.Second)
		}
		b, err := otlp.NewClientFromViper(v, lg, pool)
		if k > 0 {
			k-- // n metrics make n+1 batches (a trailing empty group)
		}
		return b, k, err
	case "cloudwatch":
		// a fake API: static credentials, one SDK attempt, the scripted server as endpoint
		os.Unsetenv("AWS_CA_BUNDLE")
		for k, val := range map[string]string{"AWS_ACCESS_KEY_ID": "verif", "AWS_SECRET_ACCESS_KEY": "verif", "AWS_REGION": "us-east-1",
			"AWS_MAX_ATTEMPTS": "1", "AWS_EC2_METADATA_DISABLED": "true", "AWS_ENDPOINT_URL": url,
			"AWS_CONFIG_FILE": "/nonexistent", "AWS_SHARED_CREDENTIALS_FILE": "/nonexistent"} {
			os.Setenv(k, val)
		}
		b, err := cloudwatch.NewClientFromViper(v, lg, pool)
		return b, 20 * k, err
	case "stdout":
		b, err := stdout.NewClientFromViper(v, lg, pool)
		return b, k, err
	case "null":
		b, err := null.NewClientFromViper(v, lg, pool)
		return b, k, err
	}
	return nil, 0, fmt.Errorf("unknown backend %q", c.backend)
}

type cbRecorder struct {
	mu    sync.Mutex
	count int
	has   bool
	first chan struct{}
}

func newRecorder() *cbRecorder { return &cbRecorder{first: make(chan struct{})} }

func (r *cbRecorder) cb(errs []error) {
	r.mu.Lock()
	defer r.mu.Unlock()
	r.count++
	for _, e := range errs {
		if e != nil {
			r.has = true
			if os.Getenv("C16_DEBUG") != "" {
				fmt.Fprintf(os.Stderr, "cb error: %v\n", e)
			}
		}
	}
	if r.count == 1 {
		close(r.first)
	}
}

func (r *cbRecorder) result(star bool) string {
	r.mu.Lock()
	defer r.mu.Unlock()
	cls := "n"
	if r.has {
		cls = "e"
	}
	if star {
		cls = "*"
	}
	return fmt.Sprintf("cb=%d err=%s", r.count, cls)
}

func runBe(its [][]string) string {
	c, ok := parseBe(its)
	if !ok {
		return "BAD_CASE"
	}
	srv := newScriptServer(c.backend == "cloudwatch")
	defer srv.srv.Close()
	backend, series, err := c.build(srv.srv.URL)
	if err != nil {
		return "BAD_CASE " + err.Error()
	}
	runCtx, stopRun := context.WithCancel(context.Background())
	defer stopRun()
	if r, ok := backend.(gostatsd.Runner); ok {
		go r.Run(runCtx)
	}
	star := c.cancel == "pre" || strings.HasPrefix(c.cancel, "req")
	cancelAt := 0
	if strings.HasPrefix(c.cancel, "req") {
		cancelAt, _ = strconv.Atoi(c.cancel[3:])
		cancelAt++ // `req<k>`: cancelled when request number k+1 arrives (k results may be in)
	}
	first := ""
	for rep := 0; rep < c.reps; rep++ {
		ctx, cancel := context.WithCancel(context.Background())
		srv.reset(c.scripts, cancelAt, cancel)
		if c.cancel == "pre" {
			cancel()
		}
		rec := newRecorder()
		backend.SendMetricsAsync(ctx, gaugeMap(series), rec.cb)
		select {
		case <-rec.first:
		case <-time.After(deadline):
			cancel()
			return "HANG"
		}
		// a second invocation, if any, comes from goroutines still running: give them every chance
		cancel()
		srv.idle()
		time.Sleep(20 * time.Millisecond)
		res := rec.result(star)
		if first == "" {
			first = res
		} else if res != first {
			return fmt.Sprintf("MIXED %s | rep %d: %s", first, rep, res)
		}
	}
	if os.Getenv("C16_DEBUG") != "" {
		fmt.Fprintf(os.Stderr, "attempts=%d\n", srv.Attempts)
	}
	return first
}

// ---- graphite / statsdaemon over real sockets ----------------------------------------------------

func freePort(network string) string {
	if network == "udp" {
		pc, _ := net.ListenPacket("udp", "127.0.0.1:0")
		a := pc.LocalAddr().String()
		pc.Close()
		return a
	}
	l, _ := net.Listen("tcp", "127.0.0.1:0")
	a := l.Addr().String()
	l.Close()
	return a
}

func sinkTCP(addr string) (io.Closer, error) {
	l, err := net.Listen("tcp", addr)
	if err != nil {
		return nil, err
	}
	go func() {
		for {
			conn, err := l.Accept()
			if err != nil {
				return
			}
			go func() { _, _ = io.Copy(io.Discard, conn); conn.Close() }()
		}
	}()
	return l, nil
}

func runSock(its [][]string) string {
	h := its[0]
	if len(h) != 3 {
		return "BAD_CASE"
	}
	kind, scenario := h[1], h[2]
	network := "tcp"
	if kind == "statsd-udp" {
		network = "udp"
	}
	addr := freePort(network)
	if scenario == "edge-down-cancel" {
		// a UDP "connection" to a port nobody listens on succeeds and swallows every packet: the relay is only
		// unable to connect (and so leaves the packets of a flush in their channel) when the dial itself fails
		addr = "127.0.0.1:99999"
	}
	var closer io.Closer
	listen := func() {
		if network == "udp" {
			pc, err := net.ListenPacket("udp", addr)
			if err == nil {
				closer = pc
				go func() {
					buf := make([]byte, 65536)
					for {
						if _, _, err := pc.ReadFrom(buf); err != nil {
							return
						}
					}
				}()
			}
			return
		}
		for i := 0; i < 50; i++ {
			c, err := sinkTCP(addr)
			if err == nil {
				closer = c
				return
			}
			time.Sleep(10 * time.Millisecond)
		}
	}
	if scenario == "up" || scenario == "precancel" || scenario == "big" {
		listen()
	}
	defer func() {
		if closer != nil {
			closer.Close()
		}
	}()
	v := viper.New()
	lg := quietLogger()
	pool := transport.NewTransportPool(lg, v)
	var backend gostatsd.Backend
	var err error
	switch kind {
	case "graphite":
		v.Set("graphite.address", addr)
		backend, err = graphite.NewClientFromViper(v, lg, pool)
	case "statsd-tcp":
		v.Set("statsdaemon.address", addr)
		v.Set("statsdaemon.tcp_transport", true)
		backend, err = statsdaemon.NewClientFromViper(v, lg, pool)
	case "statsd-udp":
		v.Set("statsdaemon.address", addr)
		backend, err = statsdaemon.NewClientFromViper(v, lg, pool)
	default:
		return "BAD_CASE"
	}
	if err != nil {
		return "BAD_CASE " + err.Error()
	}
	runCtx, stopRun := context.WithCancel(context.Background())
	defer stopRun()
	runDone := make(chan struct{})
	go func() { defer close(runDone); backend.(gostatsd.Runner).Run(runCtx) }()
	ctx, cancel := context.WithCancel(context.Background())
	defer cancel()
	if scenario == "precancel" {
		cancel()
	}
	rec := newRecorder()
	var prodDone chan struct{} // closed when a SendMetricsAsync started on its own goroutine has returned
	if scenario == "big" {
		// one flush of "many" packets: 16000 gauges of ~135 bytes = about 1500 datagrams of 1472 bytes
		backend.SendMetricsAsync(ctx, bigGaugeMap(16000), rec.cb)
	} else if scenario == "edge-down-cancel" {
		// nothing listens; the flush renders to one packet more than the relay's channel of packet buffers holds
		// (1000), so the producer is parked handing over its very last packet when the flush is cancelled
		// the producer hands 1000 packets into the channel and parks on the last one (SendMetricsAsync is synchronous
		// in its rendering); cancellation comes once it is at rest there
		var pgid atomic.Int64
		prodDone = make(chan struct{})
		go func() {
			defer close(prodDone)
			pgid.Store(goid())
			backend.SendMetricsAsync(ctx, packetGaugeMap(1001), rec.cb)
		}()
		parked := 0
		for t0 := time.Now(); time.Since(t0) < 5*time.Second && parked < 3; time.Sleep(20 * time.Millisecond) {
			gid := pgid.Load()
			if gid == 0 {
				continue
			}
			st, _ := goroutineInfo(gid)
			if st == "" {
				break // the producer has returned: nothing to cancel in the middle of
			}
			if st == "chan send" || st == "select" {
				parked++
			} else {
				parked = 0
			}
		}
		cancel()
	} else {
		backend.SendMetricsAsync(ctx, gaugeMap(3), rec.cb)
	}
	switch scenario {
	case "downup":
		time.Sleep(300 * time.Millisecond)
		listen()
	case "down-cancel":
		time.Sleep(200 * time.Millisecond)
		cancel()
	case "down-shutdown":
		time.Sleep(200 * time.Millisecond)
		stopRun()
	}
	select {
	case <-rec.first:
	case <-time.After(deadline):
		return "HANG"
	}
	cancel()
	stopRun()
	select {
	case <-runDone:
	case <-time.After(deadline):
		return "HANG run"
	}
	if prodDone != nil {
		// the producer unwinds after the callback: a crash on that path must happen before this process reports
		select {
		case <-prodDone:
		case <-time.After(5 * time.Second):
		}
	}
	return rec.result(scenario == "precancel")
}
