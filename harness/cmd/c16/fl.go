package main

import (
	"context"
	"errors"
	"fmt"
	"strconv"
	"strings"
	"sync"
	"sync/atomic"
	"time"

	"github.com/tilinna/clock"

	"github.com/atlassian/gostatsd"
	"github.com/atlassian/gostatsd/pkg/statsd"
)

// ---- the real MetricFlusher with fake aggregators and backends -----------------------------------
//
// Two ticks are queued on the mock clock.  The first starts flush 1, whose callbacks the script
// invokes one by one; the flusher can only pick up the second tick (observable: flush 2 reaches the
// fake backends) after flushData has returned, i.e. after sendWg.Wait().

type flBackend struct {
	c  *flCase
	id int
}

func (b *flBackend) Name() string { return "fake" + strconv.Itoa(b.id) }
func (b *flBackend) SendEvent(ctx context.Context, e *gostatsd.Event) error {
	return nil
}
func (b *flBackend) SendMetricsAsync(ctx context.Context, mm *gostatsd.MetricMap, cb gostatsd.SendCallback) {
	agg := -1
	for name := range mm.Gauges {
		if strings.HasPrefix(name, "agg") {
			agg, _ = strconv.Atoi(name[3:])
		}
	}
	b.c.register(agg, b.id, cb)
}

type flAggr struct{ id int }

func (a flAggr) ReceiveMap(mm *gostatsd.MetricMap) {}
func (a flAggr) Flush(interval time.Duration)      {}
func (a flAggr) Reset()                            {}
func (a flAggr) Process(f statsd.ProcessFunc) {
	mm := gostatsd.NewMetricMap(false)
	mm.Gauges["agg"+strconv.Itoa(a.id)] = map[string]gostatsd.Gauge{"": gostatsd.NewGauge(0, 1, "", nil)}
	f(mm)
}

type flProc struct{ n int }

func (p flProc) Process(ctx context.Context, fn statsd.DispatcherProcessFunc) gostatsd.Wait {
	for i := 0; i < p.n; i++ {
		fn(i, flAggr{i})
	}
	return func() {}
}

type flCase struct {
	mu      sync.Mutex
	a, b    int
	seen    map[[2]int]int // registrations per pair
	cbs     map[[2]int]gostatsd.SendCallback
	flush2  atomic.Bool
	allReg  chan struct{}
	regOnce sync.Once
}

func (c *flCase) register(agg, be int, cb gostatsd.SendCallback) {
	c.mu.Lock()
	k := [2]int{agg, be}
	c.seen[k]++
	second := c.seen[k] > 1
	if !second {
		c.cbs[k] = cb
	}
	full := len(c.cbs) == c.a*c.b
	c.mu.Unlock()
	if second {
		// flush 2 has started: flushData of flush 1 returned.  Answer at once so it can finish too.
		c.flush2.Store(true)
		cb(nil)
		return
	}
	if full {
		c.regOnce.Do(func() { close(c.allReg) })
	}
}

func runFl(its [][]string) string {
	h := its[0]
	if len(h) != 3 {
		return "BAD_CASE"
	}
	a, e1 := strconv.Atoi(h[1])
	b, e2 := strconv.Atoi(h[2])
	if e1 != nil || e2 != nil || a < 1 || b < 1 {
		return "BAD_CASE"
	}
	var order [][2]int
	for _, it := range its[1:] {
		if len(it) == 0 {
			continue
		}
		p := strings.Split(it[0], ".")
		if len(it) != 1 || len(p) != 2 {
			return "BAD_CASE"
		}
		x, _ := strconv.Atoi(p[0])
		y, _ := strconv.Atoi(p[1])
		order = append(order, [2]int{x, y})
	}
	c := &flCase{a: a, b: b, seen: map[[2]int]int{}, cbs: map[[2]int]gostatsd.SendCallback{}, allReg: make(chan struct{})}
	backends := make([]gostatsd.Backend, b)
	for i := range backends {
		backends[i] = &flBackend{c, i}
	}
	mock := clock.NewMock(time.Unix(1700000000, 0))
	ctx, cancel := context.WithCancel(clock.Context(context.Background(), mock))
	defer cancel()
	fl := statsd.NewMetricFlusher(time.Second, 0, false, flProc{a}, backends)
	var gid atomic.Int64
	done := make(chan struct{})
	go func() {
		gid.Store(goid())
		defer close(done)
		fl.Run(ctx)
	}()
	// wait until the flusher sits in its select with the ticker created
	t0 := time.Now()
	for {
		st, stack := goroutineInfo(gid.Load())
		if gid.Load() != 0 && st == "select" && strings.Contains(stack, "(*MetricFlusher).Run") {
			break
		}
		if time.Since(t0) > deadline {
			return "HANG start"
		}
		time.Sleep(200 * time.Microsecond)
	}
	mock.Add(time.Second)
	select {
	case <-c.allReg:
	case <-time.After(deadline):
		return "HANG registration"
	}
	mock.Add(time.Second) // queued: can only be consumed after flushData returns
	early := false
	invoked := map[[2]int]bool{}
	for i, k := range order {
		if i == len(order)-1 && c.flush2.Load() {
			early = true
		}
		c.mu.Lock()
		cb := c.cbs[k]
		c.mu.Unlock()
		if cb == nil {
			return "BAD_CASE no such pair"
		}
		invoked[k] = true
		if i%2 == 1 {
			cb([]error{errors.New("scripted backend error"), nil}) // a failed flush must release the flusher too
		} else {
			cb(nil)
		}
	}
	// come to rest: either flush 2 has started, or the flusher is parked in sendWg.Wait()
	ret := false
	t0 = time.Now()
	for {
		if c.flush2.Load() {
			ret = true
			break
		}
		st, stack := goroutineInfo(gid.Load())
		if (st == "semacquire" || st == "sync.WaitGroup.Wait") && strings.Contains(stack, "sync.(*WaitGroup).Wait") && strings.Contains(stack, "flushData") {
			break
		}
		if time.Since(t0) > deadline {
			return "HANG"
		}
		time.Sleep(200 * time.Microsecond)
	}
	// release whatever the script left out, then stop
	c.mu.Lock()
	rest := []gostatsd.SendCallback{}
	for k, cb := range c.cbs {
		if !invoked[k] {
			rest = append(rest, cb)
		}
	}
	c.mu.Unlock()
	for _, cb := range rest {
		cb(nil)
	}
	cancel()
	select {
	case <-done:
	case <-time.After(2 * time.Second):
		// a flusher that is still parked in sendWg.Wait() after every callback was invoked never stops;
		// that is already what `ret=0` says, so do not wait for it
	}
	bi := func(x bool) int {
		if x {
			return 1
		}
		return 0
	}
	return fmt.Sprintf("early=%d ret=%d", bi(early), bi(ret))
}

// ---- cancellation in the middle of a flush ------------------------------------------------------------
//
// `flx A B i j`: the flusher's context is cancelled while backend j is being handed aggregator i's map.
// Every pair must still be handed the map (each answers exactly once, as soon as all are registered)
// and the flusher must then return.

type flxBackend struct {
	id     int
	ci, cj int
	cancel context.CancelFunc
	mu     *sync.Mutex
	cbs    *[]gostatsd.SendCallback
}

func (b *flxBackend) Name() string                                           { return "fakex" + strconv.Itoa(b.id) }
func (b *flxBackend) SendEvent(ctx context.Context, e *gostatsd.Event) error { return nil }
func (b *flxBackend) SendMetricsAsync(ctx context.Context, mm *gostatsd.MetricMap, cb gostatsd.SendCallback) {
	agg := -1
	for name := range mm.Gauges {
		if strings.HasPrefix(name, "agg") {
			agg, _ = strconv.Atoi(name[3:])
		}
	}
	if agg == b.ci && b.id == b.cj {
		b.cancel()
	}
	b.mu.Lock()
	*b.cbs = append(*b.cbs, cb)
	b.mu.Unlock()
}

func runFlx(h []string) string {
	if len(h) != 5 {
		return "BAD_CASE"
	}
	a, _ := strconv.Atoi(h[1])
	nb, _ := strconv.Atoi(h[2])
	ci, _ := strconv.Atoi(h[3])
	cj, _ := strconv.Atoi(h[4])
	if a < 1 || nb < 1 {
		return "BAD_CASE"
	}
	mock := clock.NewMock(time.Unix(1700000000, 0))
	ctx, cancel := context.WithCancel(clock.Context(context.Background(), mock))
	defer cancel()
	var mu sync.Mutex
	cbs := []gostatsd.SendCallback{}
	backends := make([]gostatsd.Backend, nb)
	for i := range backends {
		backends[i] = &flxBackend{id: i, ci: ci, cj: cj, cancel: cancel, mu: &mu, cbs: &cbs}
	}
	fl := statsd.NewMetricFlusher(time.Second, 0, false, flProc{a}, backends)
	var gid atomic.Int64
	done := make(chan struct{})
	go func() {
		gid.Store(goid())
		defer close(done)
		fl.Run(ctx)
	}()
	t0 := time.Now()
	for {
		st, stack := goroutineInfo(gid.Load())
		if gid.Load() != 0 && st == "select" && strings.Contains(stack, "(*MetricFlusher).Run") {
			break
		}
		if time.Since(t0) > deadline {
			return "HANG start"
		}
		time.Sleep(200 * time.Microsecond)
	}
	mock.Add(time.Second)
	// come to rest: all pairs registered, or the flusher parked in sendWg.Wait() with fewer
	t0 = time.Now()
	for {
		mu.Lock()
		n := len(cbs)
		mu.Unlock()
		if n >= a*nb {
			break
		}
		st, stack := goroutineInfo(gid.Load())
		if (st == "semacquire" || st == "sync.WaitGroup.Wait") && strings.Contains(stack, "sync.(*WaitGroup).Wait") && strings.Contains(stack, "flushData") {
			break
		}
		if time.Since(t0) > deadline {
			break
		}
		time.Sleep(200 * time.Microsecond)
	}
	mu.Lock()
	got := append([]gostatsd.SendCallback(nil), cbs...)
	mu.Unlock()
	for _, cb := range got {
		cb(nil)
	}
	returned := 0
	select {
	case <-done:
		returned = 1
	case <-time.After(3 * time.Second):
	}
	return fmt.Sprintf("reg=%d/%d returned=%d", len(got), a*nb, returned)
}
