package main

import (
	"fmt"
	"strconv"
	"strings"

	"verifharness/internal/hx"
)

// ---- a Go copy of the sender automaton, used ONLY to steer the generator -------------------------
// (which events are enabled, which scripts would make the goroutine meet a select with two ready
// arms).  The Lean model is the judge: a script the copy gets wrong shows up as skipped events or as
// `RACY` in the model's output, never as a verdict.

const simMax = 100 // maxStreamsPerConnection; only steers generation

type sim struct {
	pc        byte // d s b w x p
	count     int
	held      int // -1 none
	nerrs     int
	armed     bool
	scancel   int // -1 none
	ctxDone   bool
	next      int
	queue     []int
	closed    map[int]bool
	cancelled map[int]bool
	cbs       map[int]int
	lost      map[int]bool
	wfail     map[int]bool
	racy      bool
	// coverage
	hit map[string]bool
}

func newSim() *sim {
	return &sim{pc: 'd', held: -1, scancel: -1, closed: map[int]bool{}, cancelled: map[int]bool{}, cbs: map[int]int{},
		lost: map[int]bool{}, wfail: map[int]bool{}, hit: map[string]bool{}}
}

func (s *sim) clone() *sim {
	t := *s
	t.queue = append([]int(nil), s.queue...)
	cp := func(m map[int]bool) map[int]bool {
		n := make(map[int]bool, len(m))
		for k, v := range m {
			n[k] = v
		}
		return n
	}
	t.closed, t.cancelled, t.lost, t.wfail = cp(s.closed), cp(s.cancelled), cp(s.lost), cp(s.wfail)
	t.cbs = make(map[int]int, len(s.cbs))
	for k, v := range s.cbs {
		t.cbs[k] = v
	}
	t.hit = make(map[string]bool, len(s.hit))
	for k, v := range s.hit {
		t.hit[k] = v
	}
	return &t
}

func (s *sim) refresh() {
	if s.held < 0 {
		s.armed = true
	} else {
		s.scancel = s.held
	}
}

func (s *sim) goInner(c int) {
	if c < simMax {
		s.count = c
		if s.held < 0 {
			s.pc = 's'
		} else {
			s.pc = 'b'
		}
	} else {
		s.pc = 'd'
		s.hit["rollover"] = true
	}
}

func (s *sim) exit() {
	if s.held >= 0 {
		s.cbs[s.held]++
		s.held = -1
		s.hit["shutdown-with-held"] = true
	}
	for _, j := range s.queue {
		s.cbs[j]++
		s.hit["cleanup-drain"] = true
	}
	s.queue = nil
	s.pc = 'x'
}

// reaction tries one of the goroutine's own actions; names as in the Lean model.
func (s *sim) reaction(name string, apply bool) bool {
	switch name {
	case "seeCtx":
		if !s.ctxDone || (s.pc != 's' && s.pc != 'w') {
			return false
		}
		if apply {
			s.nerrs++
			s.exit()
		}
		return true
	case "seeStreamCancel":
		if s.pc != 'w' || s.scancel < 0 || !s.cancelled[s.scancel] {
			return false
		}
		if apply {
			if s.held < 0 {
				s.pc = 'p'
				s.hit["panic-stale-streamcancel"] = true
			} else {
				s.cbs[s.held]++
				s.hit["cancel-in-wait"] = true
				s.held, s.scancel, s.nerrs = -1, -1, 0
				s.refresh()
			}
		}
		return true
	case "seeClosed":
		if s.pc != 'b' || s.held < 0 || !s.closed[s.held] {
			return false
		}
		if apply {
			if s.wfail[s.held] {
				s.hit["write-error-carried"] = true
			}
			s.cbs[s.held]++
			s.held, s.nerrs = -1, 0
			s.goInner(s.count + 1)
		}
		return true
	case "take":
		if len(s.queue) == 0 {
			return false
		}
		if s.pc == 's' {
			if apply {
				s.held = s.queue[0]
				s.queue = s.queue[1:]
				s.pc = 'b'
			}
			return true
		}
		if s.pc == 'w' && s.armed {
			if apply {
				if s.held >= 0 {
					s.lost[s.held] = true
					s.hit["lost-stale-sink"] = true
				} else {
					s.hit["stream-received-in-wait"] = true
				}
				s.held = s.queue[0]
				s.queue = s.queue[1:]
				s.armed = false
				s.refresh()
			}
			return true
		}
	}
	return false
}

var simReactions = []string{"seeCtx", "seeStreamCancel", "seeClosed", "take"}

func (s *sim) settle() {
	for fuel := 0; fuel < 4*s.next+16; fuel++ {
		en := []string{}
		for _, r := range simReactions {
			if s.reaction(r, false) {
				en = append(en, r)
			}
		}
		if len(en) == 0 {
			return
		}
		if len(en) > 1 {
			s.racy = true
		}
		s.reaction(en[0], true)
	}
}

// inject mirrors Sender.inject: false = not enabled (skipped).
func (s *sim) inject(ev string) bool {
	if s.pc == 'x' || s.pc == 'p' {
		return false
	}
	switch {
	case ev == "K":
		if s.pc != 'd' {
			return false
		}
		if s.held >= 0 {
			s.hit["reconnect-with-held"] = true
		}
		s.goInner(0)
	case ev == "F":
		if s.pc != 'd' {
			return false
		}
		s.pc = 'w'
		s.refresh()
	case ev == "T":
		if s.pc != 'w' {
			return false
		}
		s.pc = 'd'
	case ev == "A":
		s.queue = append(s.queue, s.next)
		s.next++
	case ev == "W+" || ev == "W-":
		if s.pc != 'b' || s.held < 0 || s.closed[s.held] {
			return false
		}
		if ev == "W-" {
			s.nerrs++
			s.wfail[s.held] = true
			s.pc = 'd'
		}
	case strings.HasPrefix(ev, "C"):
		j, _ := strconv.Atoi(ev[1:])
		if j >= s.next || s.closed[j] {
			return false
		}
		s.closed[j] = true
	case strings.HasPrefix(ev, "X"):
		j, _ := strconv.Atoi(ev[1:])
		if j >= s.next || s.cancelled[j] {
			return false
		}
		s.cancelled[j] = true
	case ev == "Z":
		if s.ctxDone {
			return false
		}
		s.ctxDone = true
	default:
		return false
	}
	s.settle()
	return true
}

func (s *sim) outstanding() int {
	n := 0
	for j := 0; j < s.next; j++ {
		if s.cbs[j] == 0 {
			n++
		}
	}
	return n
}

// finalize mirrors Sender.finalize (the harness's fixed shutdown sequence).
func (s *sim) finalize() {
	for j, n := 0, s.next; j < n; j++ {
		s.inject("C" + strconv.Itoa(j))
	}
	for i, n := 0, s.next+2; i < n; i++ {
		if s.pc == 'd' && s.outstanding() > 0 {
			s.inject("K")
		} else {
			break
		}
	}
	s.inject("Z")
	if s.pc == 'd' {
		s.inject("K")
	}
}

// try applies ev to a copy and says whether it is enabled and keeps the script (and the shutdown
// sequence that follows it) free of two-way selects.
func (s *sim) try(ev string) (*sim, bool) {
	t := s.clone()
	if !t.inject(ev) || t.racy {
		return nil, false
	}
	f := t.clone()
	f.finalize()
	if f.racy {
		return nil, false
	}
	return t, true
}

// ---- sender scripts ------------------------------------------------------------------------------

type sndGen struct {
	r       *hx.Rng
	maxT    int
	evs     []string
	s       *sim
	timers  int
	closing bool
}

func (g *sndGen) push(ev string) bool {
	if ev == "T" && g.timers >= g.maxT {
		return false
	}
	t, ok := g.s.try(ev)
	if !ok {
		return false
	}
	if ev == "T" {
		g.timers++
	}
	g.s = t
	g.evs = append(g.evs, ev)
	return true
}

func (g *sndGen) openStreams() []int {
	o := []int{}
	for j := 0; j < g.s.next; j++ {
		if !g.s.closed[j] {
			o = append(o, j)
		}
	}
	return o
}

// candidate events in the present state, weighted by repetition
func (g *sndGen) candidates() []string {
	s := g.s
	c := []string{}
	switch s.pc {
	case 'd':
		c = append(c, "K", "K", "K", "F", "F")
	case 'w':
		c = append(c, "T", "T", "T")
	case 'b':
		c = append(c, "W+", "W+", "W-", "W-")
	}
	if len(s.queue) < 3 {
		c = append(c, "A", "A")
	}
	for _, j := range g.openStreams() {
		c = append(c, "C"+strconv.Itoa(j), "C"+strconv.Itoa(j))
	}
	for j := 0; j < s.next; j++ {
		if !s.cancelled[j] && g.r.Chance(1, 3) {
			c = append(c, "X"+strconv.Itoa(j))
		}
	}
	if g.r.Chance(1, 12) {
		c = append(c, "Z")
	}
	return c
}

func (g *sndGen) randomWalk(n int) {
	for i := 0; i < n; i++ {
		if g.s.pc == 'x' || g.s.pc == 'p' {
			return
		}
		c := g.candidates()
		ok := false
		for tries := 0; tries < 8 && !ok; tries++ {
			ok = g.push(hx.Pick(g.r, c))
		}
		if !ok {
			return
		}
	}
}

// stream lifecycle: offer, some writes, close
func (g *sndGen) lifecycle(writes int, failAt int) {
	g.push("A")
	id := g.s.next - 1
	for w := 0; w < writes; w++ {
		if w == failAt {
			g.push("W-")
			return
		}
		g.push("W+")
	}
	g.push("C" + strconv.Itoa(id))
}

// Every case that hits a known defect is shrunk by ./check (up to 40 s each, and a sender script with a
// reconnect wait costs a real second per evaluation), so the generator rations them per run.
type budgets struct{ d9, d11, d12 int }

func genSnd(r *hx.Rng, tier string, st *hx.Stats, b *budgets) string {
	for {
		line, s := genSnd1(r.Fork(), tier)
		if s.hit["lost-stale-sink"] {
			if b.d11 == 0 {
				continue
			}
			b.d11--
		}
		if s.hit["panic-stale-streamcancel"] {
			if b.d12 == 0 {
				continue
			}
			b.d12--
		}
		for k := range s.hit {
			st.Hit("snd:" + k)
		}
		n := strings.Count(line, " ; ")
		st.Hit(fmt.Sprintf("snd:timers=%d", strings.Count(line, " ; T")))
		st.Hit("snd:len<=" + bucket(n))
		st.Case(line, len(s.hit) > 0)
		return line
	}
}

func genSnd1(r *hx.Rng, tier string) (string, *sim) {
	maxT := 2
	if tier == "thorough" {
		maxT = 5
	}
	g := &sndGen{r: r, maxT: maxT, s: newSim()}
	kind := r.Intn(10)
	switch {
	case kind < 5: // free random walk
		g.randomWalk(r.Range(4, 40))
	case kind < 7: // outage scenarios around stream lifecycles
		for i := 0; i < r.Range(1, 4); i++ {
			if g.s.pc == 'd' {
				if r.Chance(1, 3) {
					g.push("F")
					if r.Bool() {
						g.push("A")
					}
					if r.Chance(1, 4) && g.s.next > 0 {
						g.push("X" + strconv.Itoa(r.Intn(g.s.next)))
					}
					g.push("T")
				}
				g.push("K")
			}
			g.lifecycle(r.Intn(4), r.Range(-1, 3))
			g.randomWalk(r.Intn(5))
		}
	case kind < 8: // connection recycling: at least maxStreamsPerConnection streams
		if r.Bool() {
			g.push("F")
			g.push("A")
			g.push("T")
		}
		g.push("K")
		if g.s.next > 0 {
			g.push("C0")
		}
		n := simMax + r.Range(-2, 3)
		for i := 0; i < n; i++ {
			if g.s.pc == 'd' {
				g.push("K")
			}
			g.push("A")
			g.push("C" + strconv.Itoa(g.s.next-1))
		}
		g.randomWalk(r.Intn(8))
	case kind < 9: // stale sink: a wait that ends by the timer, later a write error and a failed dial
		g.push("F")
		g.push("T")
		g.push("K")
		g.push("A")
		if r.Bool() {
			g.push("W+")
		}
		g.push("W-")
		if r.Bool() {
			g.push("A")
			g.push("F")
		} else {
			g.push("F")
			g.push("A")
		}
		g.randomWalk(r.Intn(8))
	default: // stale streamCancel: survive a wait, complete, recycle the connection, fail to dial
		g.push("F")
		g.push("A")
		g.push("T")
		g.push("K")
		g.push("C0")
		n := simMax - 1 + r.Range(-1, 1)
		for i := 0; i < n; i++ {
			g.push("A")
			g.push("C" + strconv.Itoa(g.s.next-1))
		}
		g.push("F")
		if r.Chance(3, 4) {
			g.push("X0")
		}
		g.randomWalk(r.Intn(4))
	}
	line := "snd"
	for _, e := range g.evs {
		line += " ; " + e
	}
	return line, g.s
}

func bucket(n int) string {
	for _, b := range []int{5, 10, 20, 40, 100, 250, 500} {
		if n <= b {
			return strconv.Itoa(b)
		}
	}
	return "inf"
}

// ---- HTTP backend cases --------------------------------------------------------------------------

var collectorBackends = []struct {
	name    string
	flavors []string
}{
	{"datadog", []string{"z", "p"}},
	{"influxdb", []string{"v1", "v2"}},
	{"newrelic", []string{"infra", "insights", "metrics"}},
}

func genBe(r *hx.Rng, tier string, st *hx.Stats, slow *int, b *budgets) string {
	var backend, flavor string
	k := r.Intn(20)
	switch {
	case k < 12:
		b := hx.Pick(r, collectorBackends[:])
		backend, flavor = b.name, hx.Pick(r, b.flavors)
	case k < 16:
		backend, flavor = "otlp", hx.Pick(r, []string{"gauge", "hist"})
	case k < 18:
		backend, flavor = "cloudwatch", "-"
	case k < 19:
		backend, flavor = "stdout", "-"
	default:
		backend, flavor = "null", "-"
	}
	nb := hx.Pick(r, []int{0, 0, 1, 1, 2, 3, 5, 8})
	retry := hx.Pick(r, []string{"no", "no", "no", "re", "ex"})
	cancel := hx.Pick(r, []string{"none", "none", "none", "none", "post", "pre", "req"})
	reps := 1
	if cancel == "req" {
		cancel = "req" + strconv.Itoa(r.Intn(nb+1))
	}
	if backend == "influxdb" && cancel == "pre" {
		// a cancelled context makes getBuffer return nil about every other time (the former D9, fixed by the
		// nil guard in releaseBuffer): 64 repetitions make the case deterministic
		reps = 64
	}
	if backend == "cloudwatch" {
		retry = "no" // one SDK attempt
	}
	if backend == "otlp" && retry == "re" {
		// otlp re-uses one *http.Request for every attempt; whether the consumed body is rewound is a race
		// inside net/http ("ContentLength=83 with Body length 0" about every third run), so scripts that
		// recover after a failure have no fixed outcome (handoff, observation O1)
		retry = "no"
	}
	fails := []string{"4", "5", "H", "9"}
	if backend == "otlp" {
		fails = append(fails, "P", "P") // 200 with a partial-success body that rejects data points: an error, never retried
	}
	if backend != "cloudwatch" && *slow < 10 && r.Chance(1, 3) {
		// an attempt that gets no answer until the client's own time-out (0.4 s each: rationed like the slow ones)
		fails = append(fails, "T", "T")
	}
	// "a failed flush does not prevent the following flushes": a quarter of the uncancelled cases flush two or three
	// times through the same backend instance (same scripts each time; every repetition must end the same way)
	if cancel == "none" && reps == 1 && r.Chance(1, 4) {
		reps = r.Range(2, 3)
	}
	allP := backend == "otlp" && reps > 1 && r.Chance(1, 2)
	if allP && nb < 4 {
		nb = r.Range(4, 6)
	}
	scripts := make([]string, nb)
	anyFail := false
	for i := range scripts {
		switch retry {
		case "no":
			if r.Chance(1, 3) {
				scripts[i] = hx.Pick(r, fails)
				if scripts[i] == "T" {
					*slow++
				}
				anyFail = true
			} else {
				scripts[i] = hx.Pick(r, []string{"2", "2", "2", "S"})
			}
		case "re": // recovers after at most two failed attempts
			n := r.Intn(3)
			if *slow >= 12 && tier == "quick" {
				n = 0
			}
			w := ""
			for j := 0; j < n; j++ {
				if backend != "cloudwatch" && r.Chance(1, 5) {
					w += "T"
				} else {
					w += hx.Pick(r, []string{"5", "H", "4"})
				}
			}
			if n > 0 {
				*slow++
			}
			scripts[i] = w + "2"
		case "ex": // never recovers, or never fails
			if r.Chance(1, 2) {
				scripts[i] = hx.Pick(r, []string{"5", "H", "4", "5H", "9"})
				anyFail = true
			} else {
				scripts[i] = "2"
			}
		}
	}
	if allP {
		for i := range scripts {
			scripts[i] = "P"
		}
		anyFail = true
	}
	if backend == "stdout" || backend == "null" {
		scripts, retry = nil, "no"
		if cancel != "none" && cancel != "post" {
			cancel = "none"
		}
	}
	line := fmt.Sprintf("be %s %s %s %s %d", backend, flavor, retry, cancel, reps)
	for _, s := range scripts {
		line += " ; " + s
	}
	st.Hit("be:" + backend)
	st.Hit("be:retry=" + retry)
	st.Hit("be:cancel=" + strings.TrimRight(cancel, "0123456789"))
	st.Hit(fmt.Sprintf("be:batches=%d", len(scripts)))
	if reps > 1 && reps < 64 {
		st.Hit("be:repeated-flushes")
	}
	if anyFail {
		st.Hit("be:some-batch-fails")
	}
	st.Case(line, len(scripts) > 0 || cancel != "none")
	return line
}

// ---- flusher cases -------------------------------------------------------------------------------

func genFl(r *hx.Rng, st *hx.Stats) string {
	a, b := r.Range(1, 4), r.Range(1, 4)
	if r.Chance(1, 3) {
		// cancellation in the middle of the flush, while backend j is handed aggregator i's map
		line := fmt.Sprintf("flx %d %d %d %d", a, b, r.Intn(a), r.Intn(b))
		st.Hit("fl:cancel-in-mid-flush")
		st.Case(line, a*b > 1)
		return line
	}
	pairs := []string{}
	for x := 0; x < a; x++ {
		for y := 0; y < b; y++ {
			pairs = append(pairs, fmt.Sprintf("%d.%d", x, y))
		}
	}
	r.Shuffle(len(pairs), func(i, j int) { pairs[i], pairs[j] = pairs[j], pairs[i] })
	if r.Chance(1, 4) {
		pairs = pairs[:r.Intn(len(pairs))]
		st.Hit("fl:incomplete")
	} else {
		st.Hit("fl:complete")
	}
	line := fmt.Sprintf("fl %d %d", a, b)
	for _, p := range pairs {
		line += " ; " + p
	}
	st.Case(line, a*b > 1)
	return line
}

func gen(args []string) {
	// NewRng(k+1) is NewRng(k) advanced by one step: spread the seeds first
	r := hx.NewRng(hx.NewRng(hx.Seed() ^ 0x5DEECE66D).U64())
	n := hx.ArgInt(args, "--n", 300)
	tier := hx.Arg(args, "--tier", "quick")
	st := hx.NewStats("sender: lock-step event scripts (random walks over the enabled events, outage scenarios around stream life cycles, connection recycling after maxStreamsPerConnection streams, the stale-sink and stale-streamCancel patterns), at most 2 (quick) / 5 (thorough) real reconnect-timer waits per script; HTTP backends: 0/1/many batches with per-batch attempt scripts (2xx, 4xx, 5xx, 429, hijack-and-close, slow) under no-retry / recovering / expiring retry windows and cancellation before, during (at request k) and after the flush; flusher: all callback orders of up to 4x4 (aggregator, backend) pairs, a quarter incomplete; socket backends over real listeners. non-trivial = a sender script that reaches at least one of the recorded branches, a flush with batches or cancellation, a flusher with more than one pair")
	slow := 0
	// the stale-sink / stale-streamCancel patterns (former D11, D12; repaired) are kept in the mix; the
	// second needs a connection recycled after 100 streams, so it stays rare in the quick tier
	b := &budgets{d9: 1000, d11: 40, d12: 2}
	if tier == "thorough" {
		b = &budgets{d9: 1000, d11: 400, d12: 20}
	}
	// fixed socket scenarios (few: they cost real seconds and depend on the OS)
	socks := []string{"sock graphite up", "sock statsd-tcp up", "sock statsd-udp up", "sock graphite downup", "sock statsd-tcp down-cancel",
		"sock graphite down-shutdown", "sock graphite precancel", "sock statsd-tcp precancel", "sock graphite down-cancel", "sock statsd-tcp downup", "sock statsd-tcp down-shutdown", "sock statsd-udp precancel",
		"sock statsd-udp big", "sock graphite big", "sock statsd-tcp big", "sock statsd-udp edge-down-cancel"}
	ns := 8
	if tier == "thorough" {
		ns = len(socks)
	}
	for i := 0; i < ns && i < n; i++ {
		fmt.Fprintln(hx.Out, socks[(i+int(hx.Seed()))%len(socks)])
		st.Hit("sock")
		st.Case(socks[(i+int(hx.Seed()))%len(socks)], true)
	}
	if tier == "thorough" && n > ns {
		// the D12 witness (corpus/C16/D12-witness.thorough) and the second D11 shape
		evs := []string{"F", "A", "T", "K", "C0"}
		for i := 1; i < simMax; i++ {
			evs = append(evs, "A", "C"+strconv.Itoa(i))
		}
		evs = append(evs, "F", "X0")
		for _, l := range []string{"snd ; " + strings.Join(evs, " ; "), "snd ; F ; T ; K ; A ; W- ; F ; A"} {
			fmt.Fprintln(hx.Out, l)
			st.Hit("snd:defect-witness")
			st.Case(l, true)
		}
		ns += 2
	}
	for i := ns; i < n; i++ {
		var line string
		switch k := r.Intn(10); {
		case k < 5:
			line = genSnd(r.Fork(), tier, st, b)
		case k < 9:
			line = genBe(r.Fork(), tier, st, &slow, b)
		default:
			line = genFl(r.Fork(), st)
		}
		fmt.Fprintln(hx.Out, line)
	}
	hx.Out.Flush()
	st.Write(hx.Arg(args, "--stats", ""))
}
