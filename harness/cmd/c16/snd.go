package main

import (
	"bytes"
	"context"
	"errors"
	"fmt"
	"net"
	"runtime"
	"strconv"
	"strings"
	"sync"
	"sync/atomic"
	"time"

	"github.com/atlassian/gostatsd/pkg/backends/sender"
)

// ---- lock-step driver for the real sender.Sender -------------------------------------------------
//
// The harness injects one environment event, then waits until the Run goroutine is blocked again
// (its state and innermost frames are read from runtime.Stack: `select` in Run = reconnect wait,
// `select` in innerRun = waiting for a stream, `chan receive` in innerRun = reading stream.Buf,
// `chan receive` in the scripted ConnFactory = dialling).  The control location after every event is
// part of the output, so the model is compared with the code at every step and not only at the end.

type sndStream struct {
	id        int
	buf       chan *bytes.Buffer
	closed    bool
	cancel    context.CancelFunc
	cancelled bool
	cbs       []bool // per invocation: did the list contain a non-nil error
}

type sndCase struct {
	mu       sync.Mutex
	streams  []*sndStream
	connCh   chan bool
	snd      *sender.Sender
	gid      atomic.Int64
	done     atomic.Bool
	panicked atomic.Bool
	writeOK  atomic.Bool
	// every other switch to failing writes makes them fail the way a write deadline does (the model does not
	// distinguish the two: a failed write is a failed write)
	timeoutErr atomic.Bool
	wFails     int
	dials      atomic.Int64 // times the ConnFactory has been entered
	cancel     context.CancelFunc
	ctxDone    bool
}

type fakeConn struct{ c *sndCase }

func (f *fakeConn) Read(b []byte) (int, error) { return 0, errors.New("not readable") }
func (f *fakeConn) Write(b []byte) (int, error) {
	if f.c.writeOK.Load() {
		return len(b), nil
	}
	if f.c.timeoutErr.Load() {
		return 0, timeoutError{}
	}
	return 0, errors.New("scripted write error")
}

// timeoutError is what a write past its deadline returns (a net.Error whose Timeout() is true).
type timeoutError struct{}

func (timeoutError) Error() string                     { return "scripted write: i/o timeout" }
func (timeoutError) Timeout() bool                     { return true }
func (timeoutError) Temporary() bool                   { return true }
func (f *fakeConn) Close() error                       { return nil }
func (f *fakeConn) LocalAddr() net.Addr                { return nil }
func (f *fakeConn) RemoteAddr() net.Addr               { return nil }
func (f *fakeConn) SetDeadline(t time.Time) error      { return nil }
func (f *fakeConn) SetReadDeadline(t time.Time) error  { return nil }
func (f *fakeConn) SetWriteDeadline(t time.Time) error { return nil }

// factory is the scripted ConnFactory: it blocks until the script says how the dial ends.
func (c *sndCase) factory() (net.Conn, error) {
	c.dials.Add(1)
	if <-c.connCh {
		return &fakeConn{c}, nil
	}
	return nil, errors.New("scripted connect failure")
}

var stackBufs = sync.Pool{New: func() interface{} { b := make([]byte, 1<<18); return &b }}

func goid() int64 {
	var buf [64]byte
	n := runtime.Stack(buf[:], false)
	f := strings.Fields(string(buf[:n]))
	id, _ := strconv.ParseInt(f[1], 10, 64)
	return id
}

// goroutineInfo returns the wait state and the stack text of goroutine gid ("" when it is gone).
func goroutineInfo(gid int64) (state, stack string) {
	bp := stackBufs.Get().(*[]byte)
	defer stackBufs.Put(bp)
	buf := *bp
	for {
		n := runtime.Stack(buf, true)
		if n < len(buf) {
			buf = buf[:n]
			break
		}
		*bp = make([]byte, 2*len(buf))
		buf = *bp
	}
	head := "goroutine " + strconv.FormatInt(gid, 10) + " ["
	s := "\n" + string(buf)
	i := strings.Index(s, "\n"+head)
	if i < 0 {
		return "", ""
	}
	i++
	rest := s[i+len(head):]
	k := strings.Index(rest, "]")
	state = rest[:k]
	if c := strings.Index(state, ","); c >= 0 {
		state = state[:c]
	}
	end := strings.Index(rest, "\n\n")
	if end < 0 {
		end = len(rest)
	}
	return state, rest[:end]
}

// location classifies where the Run goroutine is blocked; 0 = not at rest.
func (c *sndCase) location() byte {
	if c.done.Load() {
		if c.panicked.Load() {
			return 'p'
		}
		return 'x'
	}
	gid := c.gid.Load()
	if gid == 0 {
		return 0
	}
	state, stack := goroutineInfo(gid)
	inner := strings.Contains(stack, "(*Sender).innerRun")
	switch {
	case state == "chan receive" && strings.Contains(stack, "(*sndCase).factory"):
		return 'd'
	case state == "select" && inner:
		return 's'
	case state == "chan receive" && inner:
		return 'b'
	case state == "select" && strings.Contains(stack, "(*Sender).Run"):
		return 'w'
	}
	return 0
}

var errHang = errors.New("hang")
var errSlip = errors.New("timer slipped")

// rest waits until the goroutine is blocked (or gone) and says where.
func (c *sndCase) rest() (byte, error) {
	t0 := time.Now()
	for spins := 0; ; spins++ {
		if l := c.location(); l != 0 {
			return l, nil
		}
		if time.Since(t0) > deadline {
			return 0, errHang
		}
		if spins < 50 {
			runtime.Gosched()
		} else {
			time.Sleep(200 * time.Microsecond)
		}
	}
}

func (c *sndCase) outstanding() int {
	c.mu.Lock()
	defer c.mu.Unlock()
	n := 0
	for _, s := range c.streams {
		if len(s.cbs) == 0 {
			n++
		}
	}
	return n
}

func (c *sndCase) render() string {
	c.mu.Lock()
	defer c.mu.Unlock()
	if len(c.streams) == 0 {
		return "-"
	}
	parts := make([]string, len(c.streams))
	for i, s := range c.streams {
		var b strings.Builder
		fmt.Fprintf(&b, "%d:%d", i, len(s.cbs))
		for _, e := range s.cbs {
			if e {
				b.WriteByte('e')
			} else {
				b.WriteByte('n')
			}
		}
		parts[i] = b.String()
	}
	return strings.Join(parts, ",")
}

// inject performs one event; ok=false when it is not enabled in the present state.
func (c *sndCase) inject(ev string) (ok bool, err error) {
	if c.done.Load() {
		return false, nil
	}
	switch {
	case ev == "K" || ev == "F":
		select {
		case c.connCh <- ev == "K":
			return true, nil
		default:
			return false, nil
		}
	case ev == "T":
		d0 := c.dials.Load()
		if c.location() != 'w' {
			return false, nil
		}
		// the un-mockable time.NewTimer(1s): wait (without looking at stacks) until the factory is entered again
		t0 := time.Now()
		for c.dials.Load() == d0 && !c.done.Load() {
			if time.Since(t0) > deadline {
				return false, errHang
			}
			time.Sleep(time.Millisecond)
		}
		return true, nil
	case ev == "A":
		c.mu.Lock()
		id := len(c.streams)
		ctx, cancel := context.WithCancel(context.Background())
		st := &sndStream{id: id, buf: make(chan *bytes.Buffer), cancel: cancel}
		c.mu.Unlock()
		stream := sender.Stream{Ctx: ctx, Buf: st.buf, Cb: func(errs []error) {
			has := false
			for _, e := range errs {
				if e != nil {
					has = true
				}
			}
			c.mu.Lock()
			st.cbs = append(st.cbs, has)
			c.mu.Unlock()
		}}
		c.mu.Lock()
		c.streams = append(c.streams, st)
		c.mu.Unlock()
		select {
		case c.snd.Sink <- stream:
			return true, nil
		default:
			c.mu.Lock()
			c.streams = c.streams[:id]
			c.mu.Unlock()
			return false, nil
		}
	case ev == "W+" || ev == "W-":
		if ev == "W-" {
			c.wFails++
			c.timeoutErr.Store(c.wFails%2 == 1)
		}
		c.writeOK.Store(ev == "W+")
		c.mu.Lock()
		open := []*sndStream{}
		for _, s := range c.streams {
			if !s.closed {
				open = append(open, s)
			}
		}
		c.mu.Unlock()
		for _, s := range open {
			b := c.snd.GetBuffer()
			b.WriteString("x")
			select {
			case s.buf <- b:
				return true, nil
			default:
				c.snd.PutBuffer(b)
			}
		}
		return false, nil
	case strings.HasPrefix(ev, "C"):
		j, e := strconv.Atoi(ev[1:])
		c.mu.Lock()
		defer c.mu.Unlock()
		if e != nil || j < 0 || j >= len(c.streams) || c.streams[j].closed {
			return false, nil
		}
		c.streams[j].closed = true
		close(c.streams[j].buf)
		return true, nil
	case strings.HasPrefix(ev, "X"):
		j, e := strconv.Atoi(ev[1:])
		c.mu.Lock()
		defer c.mu.Unlock()
		if e != nil || j < 0 || j >= len(c.streams) || c.streams[j].cancelled {
			return false, nil
		}
		c.streams[j].cancelled = true
		c.streams[j].cancel()
		return true, nil
	case ev == "Z":
		if c.ctxDone {
			return false, nil
		}
		c.ctxDone = true
		c.cancel()
		return true, nil
	}
	return false, fmt.Errorf("bad event %q", ev)
}

// step = inject + come to rest; returns the trace letter.
func (c *sndCase) step(ev string, inWait *bool) (byte, error) {
	if *inWait && ev != "T" && c.location() == 'd' {
		return 0, errSlip // the 1 s timer fired before the script said so
	}
	ok, err := c.inject(ev)
	if err != nil {
		return 0, err
	}
	if !ok {
		return '-', nil
	}
	l, err := c.rest()
	if err != nil {
		return 0, err
	}
	if *inWait && ev != "T" && l == 'd' {
		return 0, errSlip
	}
	*inWait = l == 'w'
	return l, nil
}

func (c *sndCase) teardown() {
	c.cancel()
	c.mu.Lock()
	for _, s := range c.streams {
		if !s.closed {
			s.closed = true
			close(s.buf)
		}
	}
	c.mu.Unlock()
	t0 := time.Now()
	for !c.done.Load() && time.Since(t0) < 5*time.Second {
		select {
		case c.connCh <- true:
		default:
			time.Sleep(time.Millisecond)
		}
	}
}

func runSndOnce(evs []string) (string, error) {
	c := &sndCase{connCh: make(chan bool)}
	c.snd = &sender.Sender{
		Logger:      quietLogger(),
		ConnFactory: c.factory,
		Sink:        make(chan sender.Stream, 256),
		BufPool:     sync.Pool{New: func() interface{} { return new(bytes.Buffer) }},
	}
	ctx, cancel := context.WithCancel(context.Background())
	c.cancel = cancel
	go func() {
		c.gid.Store(goid())
		defer func() {
			if r := recover(); r != nil {
				c.panicked.Store(true)
			}
			c.done.Store(true)
		}()
		c.snd.Run(ctx)
	}()
	defer c.teardown()
	if _, err := c.rest(); err != nil {
		return "", err
	}
	inWait := false
	trace := make([]byte, 0, len(evs))
	for _, ev := range evs {
		l, err := c.step(ev, &inWait)
		if err != nil {
			return "", err
		}
		trace = append(trace, l)
	}
	pre := c.render()
	// the fixed shutdown sequence (Sender.finalize in the model)
	c.mu.Lock()
	n := len(c.streams)
	c.mu.Unlock()
	for j := 0; j < n; j++ {
		if _, err := c.step("C"+strconv.Itoa(j), &inWait); err != nil {
			return "", err
		}
	}
	for i := 0; i < n+2; i++ {
		if c.location() == 'd' && c.outstanding() > 0 {
			if _, err := c.step("K", &inWait); err != nil {
				return "", err
			}
		} else {
			break
		}
	}
	if _, err := c.step("Z", &inWait); err != nil {
		return "", err
	}
	if c.location() == 'd' {
		if _, err := c.step("K", &inWait); err != nil {
			return "", err
		}
	}
	end, err := c.rest()
	if err != nil {
		return "", err
	}
	tr := string(trace)
	if tr == "" {
		tr = "-"
	}
	return fmt.Sprintf("tr=%s pre=%s post=%s end=%c", tr, pre, c.render(), end), nil
}

func runSnd(its [][]string) string {
	evs := []string{}
	for _, it := range its {
		if len(it) == 1 {
			evs = append(evs, it[0])
		} else if len(it) != 0 {
			return "BAD_CASE"
		}
	}
	for attempt := 0; attempt < 6; attempt++ {
		out, err := runSndOnce(evs)
		if err == nil {
			return out
		}
		if err == errHang {
			return "HANG"
		}
		if err != errSlip {
			return "BAD_CASE " + err.Error()
		}
	}
	return "TIMING"
}
