// c06: correspondence harness for C06 (MetricMap.Split is a deterministic partition).
//
//	c06 gen  [--n N] [--stats file]   cases on stdout (VERIF_SEED)
//	c06 run                            reads cases, prints what the real Split produced
package main

import (
	"context"
	"encoding/json"
	"fmt"
	"os"
	"runtime"
	"sort"
	"strings"
	"sync"
	"sync/atomic"
	"time"

	"github.com/atlassian/gostatsd"
	"github.com/atlassian/gostatsd/pkg/statsd"

	"verifharness/internal/hx"
)

// val is the canonical, order-free rendering of a stored value; the model treats it as opaque.
type val struct {
	I    int64    `json:"i,omitempty"`
	F    string   `json:"f,omitempty"`
	Vals []string `json:"vals,omitempty"`
	SC   string   `json:"sc,omitempty"`
	Ts   int64    `json:"ts"`
	Src  string   `json:"src"`
	Tags []string `json:"tags"`
	Mem  []string `json:"mem,omitempty"`
}

func hexAll(xs []string) []string {
	out := make([]string, len(xs))
	for i, x := range xs {
		out[i] = hx.S(x)
	}
	return out
}

func unhexAll(xs []string) []string {
	out := make([]string, len(xs))
	for i, x := range xs {
		out[i] = hx.MustUnS(x)
	}
	return out
}

// enc renders a value; every string inside is hex so that arbitrary bytes survive JSON.
func enc(v val) string {
	v.Tags = hexAll(v.Tags)
	v.Mem = hexAll(v.Mem)
	v.Src = hx.S(v.Src)
	b, _ := json.Marshal(v)
	return hx.B(b)
}

func dec(tok string) val {
	var v val
	if err := json.Unmarshal([]byte(hx.MustUnS(tok)), &v); err != nil {
		panic(err)
	}
	v.Tags = unhexAll(v.Tags)
	v.Mem = unhexAll(v.Mem)
	v.Src = hx.MustUnS(v.Src)
	return v
}

func encCounter(c gostatsd.Counter) string {
	return enc(val{I: c.Value, Ts: int64(c.Timestamp), Src: string(c.Source), Tags: c.Tags})
}
func encGauge(g gostatsd.Gauge) string {
	return enc(val{F: hx.F(g.Value), Ts: int64(g.Timestamp), Src: string(g.Source), Tags: g.Tags})
}
func encTimer(t gostatsd.Timer) string {
	vs := make([]string, len(t.Values))
	for i, x := range t.Values {
		vs[i] = hx.F(x)
	}
	return enc(val{Vals: vs, SC: hx.F(t.SampledCount), Ts: int64(t.Timestamp), Src: string(t.Source), Tags: t.Tags})
}
func encSet(s gostatsd.Set) string {
	mem := make([]string, 0, len(s.Values))
	for k := range s.Values {
		mem = append(mem, k)
	}
	sort.Strings(mem)
	return enc(val{Mem: mem, Ts: int64(s.Timestamp), Src: string(s.Source), Tags: s.Tags})
}

var nameAlphabet = []string{"", "a", "b", "ab", "a.b", "web.requests", "x", "é", "a\x00b", "statsd.x", "A", "z-9"}
var tagAlphabet = []string{"", "t:1", "t:2", "env:prod", "host:h1", "a", "s:10.0.0.1", "k:v,w", "\xff"}
var srcAlphabet = []string{"", "10.0.0.1", "10.0.0.2", "i-0abc", "h"}

func genName(r *hx.Rng) string {
	if r.Chance(3, 5) {
		return hx.Pick(r, nameAlphabet)
	}
	n := r.Range(1, 12)
	if r.Chance(1, 2) {
		// production-like long names: the two 32-bit checksums Bucket adds then have high bits set and their sum wraps
		n = r.Range(30, 120)
	}
	b := make([]byte, n)
	for i := range b {
		b[i] = byte('a' + r.Intn(26))
	}
	return string(b)
}

func genTags(r *hx.Rng) gostatsd.Tags {
	n := r.Intn(4)
	t := gostatsd.Tags{}
	for i := 0; i < n; i++ {
		if r.Chance(1, 4) {
			b := make([]byte, r.Range(20, 60))
			for j := range b {
				b[j] = byte('a' + r.Intn(26))
			}
			t = append(t, "k:"+string(b))
			continue
		}
		t = append(t, hx.Pick(r, tagAlphabet))
	}
	return t
}

func gen(args []string) {
	r := hx.NewRng(hx.Seed())
	n := hx.ArgInt(args, "--n", 2000)
	st := hx.NewStats("random metric maps of 0..400 series over all four types built from small name/tag/source alphabets (incl. empty, NUL, invalid UTF-8) and shard counts 1..64 and 4096; non-trivial = at least 2 series and at least 2 shards; distinct by the case text")
	shardChoices := []int{1, 2, 3, 4, 5, 7, 8, 16, 31, 64, 4096}
	for i := 0; i < n; i++ {
		shards := hx.Pick(r, shardChoices)
		if r.Chance(1, 4) {
			shards = r.Range(1, 64)
		}
		size := r.Intn(8)
		if r.Chance(1, 10) {
			size = r.Range(20, 400)
		}
		if shards > 64 && size > 6 {
			size = 6 // the real Split allocates `shards` maps; keep huge counts to tiny batches
		}
		if shards > 64 && !r.Chance(1, 50) {
			shards = 64
		}
		seen := map[string]bool{}
		parts := []string{fmt.Sprint(shards)}
		for j := 0; j < size; j++ {
			ty := hx.Pick(r, []string{"c", "t", "g", "s"})
			name := genName(r)
			tags := genTags(r)
			src := gostatsd.Source(hx.Pick(r, srcAlphabet))
			tagsKey := gostatsd.FormatTagsKey(src, tags)
			if r.Chance(1, 10) {
				tagsKey = hx.Pick(r, tagAlphabet) // arbitrary tagsKey, not derived
			}
			id := ty + "\x00" + name + "\x00" + tagsKey
			if seen[id] {
				continue
			}
			seen[id] = true
			ts := int64(r.Intn(1000))
			var v string
			switch ty {
			case "c":
				v = encCounter(gostatsd.Counter{Value: int64(r.Intn(2000)) - 1000, Timestamp: gostatsd.Nanotime(ts), Source: src, Tags: tags})
			case "g":
				v = encGauge(gostatsd.Gauge{Value: float64(r.Intn(2000))/8 - 100, Timestamp: gostatsd.Nanotime(ts), Source: src, Tags: tags})
			case "t":
				k := r.Intn(4)
				vals := make([]float64, k)
				for q := range vals {
					vals[q] = float64(r.Intn(1000)) / 4
				}
				v = encTimer(gostatsd.Timer{Values: vals, SampledCount: float64(k) * 2, Timestamp: gostatsd.Nanotime(ts), Source: src, Tags: tags})
			case "s":
				mem := map[string]struct{}{}
				for q := r.Intn(3); q > 0; q-- {
					mem[hx.Pick(r, nameAlphabet)] = struct{}{}
				}
				v = encSet(gostatsd.Set{Values: mem, Timestamp: gostatsd.Nanotime(ts), Source: src, Tags: tags})
			}
			h := gostatsd.Bucket(name, tagsKey, shards)
			parts = append(parts, strings.Join([]string{ty, hx.S(name), hx.S(tagsKey), fmt.Sprint(h), v}, " "))
		}
		line := strings.Join(parts, " ; ")
		st.Case(line, len(parts) > 2 && shards > 1)
		st.Hit(fmt.Sprintf("shards<=%d", bucketOf(shards)))
		st.Hit(fmt.Sprintf("series<=%d", bucketOf(len(parts)-1)))
		fmt.Fprintln(hx.Out, line)
	}
	hx.Out.Flush()
	st.Write(hx.Arg(args, "--stats", ""))
}

func bucketOf(n int) int {
	for _, b := range []int{0, 1, 2, 4, 8, 64, 400} {
		if n <= b {
			return b
		}
	}
	return 1 << 31
}

// keyProbe: the series key is a function of tags and source alone, whichever of the repository's two ways computes it
// (the package function used by the tag and cloud stages, the cached method used by Receive): "" when they agree
func keyProbe(entries [][]string) string {
	for _, e := range entries {
		if len(e) != 5 {
			continue
		}
		v := dec(e[4])
		tags := gostatsd.Tags(v.Tags)
		fk := gostatsd.FormatTagsKey(gostatsd.Source(v.Src), tags.Copy())
		m := &gostatsd.Metric{Tags: tags.Copy(), Source: gostatsd.Source(v.Src)}
		if mk := m.FormatTagsKey(); mk != fk {
			return " || K " + hx.S(fk) + " " + hx.S(mk)
		}
	}
	return ""
}

func build(entries [][]string) (*gostatsd.MetricMap, [][3]string) {
	mm := gostatsd.NewMetricMap(false)
	keys := [][3]string{}
	for _, e := range entries {
		if len(e) != 5 {
			continue
		}
		ty, name, tagsKey := e[0], hx.MustUnS(e[1]), hx.MustUnS(e[2])
		v := dec(e[4])
		keys = append(keys, [3]string{name, tagsKey, e[3]})
		switch ty {
		case "c":
			if mm.Counters[name] == nil {
				mm.Counters[name] = map[string]gostatsd.Counter{}
			}
			mm.Counters[name][tagsKey] = gostatsd.Counter{Value: v.I, Timestamp: gostatsd.Nanotime(v.Ts), Source: gostatsd.Source(v.Src), Tags: v.Tags}
		case "g":
			if mm.Gauges[name] == nil {
				mm.Gauges[name] = map[string]gostatsd.Gauge{}
			}
			mm.Gauges[name][tagsKey] = gostatsd.Gauge{Value: hx.MustUnF(v.F), Timestamp: gostatsd.Nanotime(v.Ts), Source: gostatsd.Source(v.Src), Tags: v.Tags}
		case "t":
			if mm.Timers[name] == nil {
				mm.Timers[name] = map[string]gostatsd.Timer{}
			}
			vals := make([]float64, len(v.Vals))
			for i, s := range v.Vals {
				vals[i] = hx.MustUnF(s)
			}
			mm.Timers[name][tagsKey] = gostatsd.Timer{Values: vals, SampledCount: hx.MustUnF(v.SC), Timestamp: gostatsd.Nanotime(v.Ts), Source: gostatsd.Source(v.Src), Tags: v.Tags}
		case "s":
			if mm.Sets[name] == nil {
				mm.Sets[name] = map[string]gostatsd.Set{}
			}
			mem := map[string]struct{}{}
			for _, s := range v.Mem {
				mem[s] = struct{}{}
			}
			mm.Sets[name][tagsKey] = gostatsd.Set{Values: mem, Timestamp: gostatsd.Nanotime(v.Ts), Source: gostatsd.Source(v.Src), Tags: v.Tags}
		}
	}
	return mm, keys
}

func renderPiece(p *gostatsd.MetricMap) string {
	es := []string{}
	p.Counters.Each(func(n, t string, c gostatsd.Counter) { es = append(es, "c "+hx.S(n)+" "+hx.S(t)+" "+encCounter(c)) })
	p.Timers.Each(func(n, t string, c gostatsd.Timer) { es = append(es, "t "+hx.S(n)+" "+hx.S(t)+" "+encTimer(c)) })
	p.Gauges.Each(func(n, t string, c gostatsd.Gauge) { es = append(es, "g "+hx.S(n)+" "+hx.S(t)+" "+encGauge(c)) })
	p.Sets.Each(func(n, t string, c gostatsd.Set) { es = append(es, "s "+hx.S(n)+" "+hx.S(t)+" "+encSet(c)) })
	if len(es) == 0 {
		return "-"
	}
	sort.Strings(es)
	return strings.Join(es, " ; ")
}

// runOne runs a case under a watchdog: a dispatch that never returns is an output (`HANG`), not a reason to hang
func runOne(line string) string {
	done := make(chan string, 1)
	go func() { done <- runCase(line) }()
	select {
	case o := <-done:
		return o
	case <-time.After(30 * time.Second):
		return "HANG the dispatch did not return"
	}
}

func runCase(line string) (out string) {
	defer func() {
		if e := recover(); e != nil {
			out = fmt.Sprintf("PANIC %v", e)
		}
	}()
	parts := hx.SplitBy(hx.Tokens(line), ";")
	if len(parts) == 0 || len(parts[0]) != 1 {
		return "BAD_CASE"
	}
	var n int
	fmt.Sscan(parts[0][0], &n)
	mm, keys := build(parts[1:])
	// the routing oracle must be a function of (series identity, shard count): re-query it, also
	// after an unrelated Split of a differently composed batch
	other := gostatsd.NewMetricMap(false)
	other.Counters["unrelated"] = map[string]gostatsd.Counter{"": {Value: 1}}
	for _, k := range keys {
		other.Counters[k[0]+"'"] = map[string]gostatsd.Counter{k[1]: {Value: 2}}
	}
	if n <= 64 {
		other.Split(n)
	}
	for _, k := range keys {
		h1 := gostatsd.Bucket(k[0], k[1], n)
		h2 := gostatsd.Bucket(k[0], k[1], n)
		if fmt.Sprint(h1) != k[2] || h1 != h2 {
			return fmt.Sprintf("ORACLE_INCONSISTENT %s %s gen=%s now=%d,%d", hx.S(k[0]), hx.S(k[1]), k[2], h1, h2)
		}
	}
	pieces := mm.Split(n)
	outp := make([]string, len(pieces))
	for i, p := range pieces {
		outp[i] = renderPiece(p)
	}
	return strings.Join(outp, " | ") + " || " + dispatch(n, parts[1:]) + keyProbe(parts[1:])
}

// recorder is an Aggregator that remembers what its worker was handed.
type recorder struct {
	mu   sync.Mutex
	seen []string
}

func (r *recorder) ReceiveMap(mm *gostatsd.MetricMap) {
	r.mu.Lock()
	defer r.mu.Unlock()
	mm.Counters.Each(func(n, t string, c gostatsd.Counter) {
		r.seen = append(r.seen, "c "+hx.S(n)+" "+hx.S(t)+" "+encCounter(c))
	})
	mm.Timers.Each(func(n, t string, c gostatsd.Timer) { r.seen = append(r.seen, "t "+hx.S(n)+" "+hx.S(t)+" "+encTimer(c)) })
	mm.Gauges.Each(func(n, t string, c gostatsd.Gauge) { r.seen = append(r.seen, "g "+hx.S(n)+" "+hx.S(t)+" "+encGauge(c)) })
	mm.Sets.Each(func(n, t string, c gostatsd.Set) { r.seen = append(r.seen, "s "+hx.S(n)+" "+hx.S(t)+" "+encSet(c)) })
}
func (r *recorder) Flush(time.Duration)        {}
func (r *recorder) Process(statsd.ProcessFunc) {}
func (r *recorder) Reset()                     {}

// dispatch sends the batch, and then every series of it alone, through a real BackendHandler with n
// workers and reports what each worker was handed (worker i owns the i-th created aggregator).
// Only for n <= 16 and at most 30 series (both sides print "D -" otherwise).
func dispatch(n int, entries [][]string) string {
	nonEmpty := 0
	for _, e := range entries {
		if len(e) == 5 {
			nonEmpty++
		}
	}
	if n > 16 || nonEmpty > 30 {
		return "D -"
	}
	recs := []*recorder{}
	factory := statsd.AggregatorFactoryFunc(func() statsd.Aggregator {
		r := &recorder{}
		recs = append(recs, r)
		return r
	})
	bh := statsd.NewBackendHandler(nil, 1, n, 0, factory)
	ctx, cancel := context.WithCancel(context.Background())
	defer cancel()
	go bh.Run(ctx)
	mm, _ := build(entries)
	bh.DispatchMetricMap(ctx, mm)
	for _, e := range entries {
		if len(e) == 5 {
			one, _ := build([][]string{e})
			bh.DispatchMetricMap(ctx, one)
		}
	}
	bh.Process(ctx, func(int, statsd.Aggregator) {})() // every worker has finished its ReceiveMap calls
	out := make([]string, n)
	for i, r := range recs {
		r.mu.Lock()
		sort.Strings(r.seen)
		if len(r.seen) == 0 {
			out[i] = "-"
		} else {
			out[i] = strings.Join(r.seen, " ; ")
		}
		r.mu.Unlock()
	}
	return "D " + strings.Join(out, " | ") + " || " + dispatchCancelled(n, entries, nonEmpty%4)
}

// countCtx is a context that becomes cancelled at its (after+1)-th Done() call: DispatchMetricMap asks once per
// shard it sends, so the cancellation is observed in the middle of the dispatch, at a place the case chooses.
type countCtx struct {
	context.Context
	mu    sync.Mutex
	calls int
	after int
	ch    chan struct{}
	done  bool
}

func (c *countCtx) Done() <-chan struct{} {
	c.mu.Lock()
	defer c.mu.Unlock()
	c.calls++
	if c.calls > c.after && !c.done {
		c.done = true
		close(c.ch)
	}
	return c.ch
}

func (c *countCtx) Err() error {
	c.mu.Lock()
	defer c.mu.Unlock()
	if c.done {
		return context.Canceled
	}
	return nil
}

// dispatchCancelled sends the batch with a context that is cancelled while the shards are being handed out.  Which
// shards still get through is the runtime's choice; whatever a worker is handed must be routed to that worker.
func dispatchCancelled(n int, entries [][]string, after int) string {
	recs := []*recorder{}
	factory := statsd.AggregatorFactoryFunc(func() statsd.Aggregator {
		r := &recorder{}
		recs = append(recs, r)
		return r
	})
	bh := statsd.NewBackendHandler(nil, 1, n, 2, factory)
	live, stop := context.WithCancel(context.Background())
	defer stop()
	go bh.Run(live)
	mm, _ := build(entries)
	bh.DispatchMetricMap(&countCtx{Context: context.Background(), after: after, ch: make(chan struct{})}, mm)
	bh.Process(live, func(int, statsd.Aggregator) {})()
	out := make([]string, n)
	for i, r := range recs {
		r.mu.Lock()
		sort.Strings(r.seen)
		if len(r.seen) == 0 {
			out[i] = "-"
		} else {
			out[i] = strings.Join(r.seen, " ; ")
		}
		r.mu.Unlock()
	}
	return "X " + strings.Join(out, " | ") + " || " + dispatchAcrossFlush(n, entries)
}

// gated is a recorder whose ReceiveMap waits for `gate` (when it has one) and that counts the calls it has finished.
type gated struct {
	recorder
	gate     chan struct{}
	entered  atomic.Int64
	finished atomic.Int64
}

func (g *gated) ReceiveMap(mm *gostatsd.MetricMap) {
	g.entered.Add(1)
	if g.gate != nil {
		<-g.gate
	}
	g.recorder.ReceiveMap(mm)
	g.finished.Add(1)
}

// restingIn reports whether some goroutine is blocked (select / chan send) with `frame` on its stack.
func restingIn(frame string) bool {
	buf := make([]byte, 1<<20)
	n := runtime.Stack(buf, true)
	for _, g := range strings.Split(string(buf[:n]), "\n\n") {
		if strings.Contains(g, frame) && (strings.Contains(g[:strings.IndexByte(g+"\n", '\n')], "[select") || strings.Contains(g[:strings.IndexByte(g+"\n", '\n')], "[chan send")) {
			return true
		}
	}
	return false
}

// dispatchAcrossFlush: the routing is the same before and after a flush, whatever the workers were doing when the
// flush arrived.  Buffered queues; the worker of the lowest non-empty shard is held in its first ReceiveMap while the
// batch is dispatched three times (so its queue is two deep and every other queue drains); then a flush (Process)
// arrives, the held worker is released, the flush completes, and every series is dispatched alone.  Worker w must
// have been handed exactly the series routed to w: three times in the batches, once alone.
func dispatchAcrossFlush(n int, entries [][]string) string {
	mm0, keys := build(entries)
	if n < 2 || len(keys) == 0 {
		return "F -"
	}
	held := n
	has := make([]bool, n)
	for _, k := range keys {
		var b int
		fmt.Sscan(k[2], &b)
		if b >= 0 && b < n {
			has[b] = true
			if b < held {
				held = b
			}
		}
	}
	_ = mm0
	if held == n {
		return "F -"
	}
	recs := []*gated{}
	factory := statsd.AggregatorFactoryFunc(func() statsd.Aggregator {
		r := &gated{}
		if len(recs) == held {
			r.gate = make(chan struct{})
		}
		recs = append(recs, r)
		return r
	})
	bh := statsd.NewBackendHandler(nil, 1, n, 4, factory)
	ctx, cancel := context.WithCancel(context.Background())
	defer cancel()
	go bh.Run(ctx)
	for i := 0; i < 3; i++ {
		mm, _ := build(entries)
		bh.DispatchMetricMap(ctx, mm)
	}
	// every other worker has drained its queue, the held one is inside its first call
	// (or nothing has moved for 30 ms: on a tree that routes differently the expected counts are never reached; this
	// wait only prepares the situation and decides no output)
	until := time.Now().Add(10 * time.Second)
	lastSum, lastMove := int64(-1), time.Now()
	for time.Now().Before(until) {
		settled := recs[held].entered.Load() >= 1
		sum := int64(0)
		for w, r := range recs {
			if w != held && has[w] && r.finished.Load() < 3 {
				settled = false
			}
			sum += r.entered.Load() + r.finished.Load()
		}
		if sum != lastSum {
			lastSum, lastMove = sum, time.Now()
		}
		if settled || time.Since(lastMove) > 30*time.Millisecond {
			break
		}
		time.Sleep(200 * time.Microsecond)
	}
	flushed := make(chan struct{})
	go func() {
		bh.Process(ctx, func(int, statsd.Aggregator) {})()
		close(flushed)
	}()
	// the flush has reached the point where it waits for the held worker (no output depends on this wait)
	until = time.Now().Add(500 * time.Millisecond)
	for time.Now().Before(until) && !restingIn("statsd.(*BackendHandler).Process") {
		time.Sleep(200 * time.Microsecond)
	}
	close(recs[held].gate)
	<-flushed
	handed := int64(0) // maps handed to workers so far: three per non-empty shard, then one per series
	for _, h := range has {
		if h {
			handed += 3
		}
	}
	for _, e := range entries {
		if len(e) == 5 {
			one, _ := build([][]string{e})
			bh.DispatchMetricMap(ctx, one)
			handed++
		}
	}
	// with buffered queues a flush is no barrier (a worker may take the command before the maps still queued for it):
	// wait until as many maps have been received, by whichever workers, as were handed over
	until = time.Now().Add(5 * time.Second)
	for time.Now().Before(until) {
		got := int64(0)
		for _, r := range recs {
			got += r.finished.Load()
		}
		if got >= handed {
			break
		}
		time.Sleep(200 * time.Microsecond)
	}
	bh.Process(ctx, func(int, statsd.Aggregator) {})()
	out := make([]string, n)
	for i, r := range recs {
		r.mu.Lock()
		sort.Strings(r.seen)
		if len(r.seen) == 0 {
			out[i] = "-"
		} else {
			out[i] = strings.Join(r.seen, " ; ")
		}
		r.mu.Unlock()
	}
	return "F " + strings.Join(out, " | ")
}

func main() {
	if len(os.Args) < 2 {
		fmt.Fprintln(os.Stderr, "usage: c06 gen|run")
		os.Exit(2)
	}
	switch os.Args[1] {
	case "gen":
		gen(os.Args[2:])
	case "run":
		hx.Lines(func(line string) {
			fmt.Fprintln(hx.Out, runOne(line))
		})
		hx.Out.Flush()
	default:
		os.Exit(2)
	}
}
