// Package mmc is the Go side of lean/Gsd/Driver/MMCodec.lean: token codec for metric maps and
// datapoints.
package mmc

import (
	"fmt"
	"sort"
	"strconv"
	"strings"

	"github.com/atlassian/gostatsd"

	"verifharness/internal/hx"
)

func tagsToks(tags gostatsd.Tags) string {
	p := []string{strconv.Itoa(len(tags))}
	for _, t := range tags {
		p = append(p, hx.S(t))
	}
	return strings.Join(p, " ")
}

func CounterEntry(name, tk string, c gostatsd.Counter) string {
	return fmt.Sprintf("c %s %s %d %d %s %s", hx.S(name), hx.S(tk), c.Value, int64(c.Timestamp), hx.S(string(c.Source)), tagsToks(c.Tags))
}

func GaugeEntry(name, tk string, g gostatsd.Gauge) string {
	return fmt.Sprintf("g %s %s %s %d %s %s", hx.S(name), hx.S(tk), hx.F(g.Value), int64(g.Timestamp), hx.S(string(g.Source)), tagsToks(g.Tags))
}

// TimerEntry renders the received values in stored order.
func TimerEntry(name, tk string, t gostatsd.Timer) string {
	p := []string{"t", hx.S(name), hx.S(tk), strconv.Itoa(len(t.Values))}
	for _, v := range t.Values {
		p = append(p, hx.F(v))
	}
	p = append(p, hx.F(t.SampledCount), strconv.FormatInt(int64(t.Timestamp), 10), hx.S(string(t.Source)), tagsToks(t.Tags))
	return strings.Join(p, " ")
}

func SetEntry(name, tk string, s gostatsd.Set) string {
	mem := make([]string, 0, len(s.Values))
	for m := range s.Values {
		mem = append(mem, hx.S(m))
	}
	sort.Strings(mem)
	p := []string{"s", hx.S(name), hx.S(tk), strconv.Itoa(len(mem))}
	p = append(p, mem...)
	p = append(p, strconv.FormatInt(int64(s.Timestamp), 10), hx.S(string(s.Source)), tagsToks(s.Tags))
	return strings.Join(p, " ")
}

// Render is the canonical rendering of a map: entries sorted, " , "-separated, "-" when empty.
func Render(mm *gostatsd.MetricMap) string {
	es := Entries(mm)
	if len(es) == 0 {
		return "-"
	}
	return strings.Join(es, " , ")
}

func Entries(mm *gostatsd.MetricMap) []string {
	es := []string{}
	mm.Counters.Each(func(n, t string, c gostatsd.Counter) { es = append(es, CounterEntry(n, t, c)) })
	mm.Gauges.Each(func(n, t string, g gostatsd.Gauge) { es = append(es, GaugeEntry(n, t, g)) })
	mm.Timers.Each(func(n, t string, x gostatsd.Timer) { es = append(es, TimerEntry(n, t, x)) })
	mm.Sets.Each(func(n, t string, s gostatsd.Set) { es = append(es, SetEntry(n, t, s)) })
	sort.Strings(es)
	return es
}

type cur struct {
	t []string
	i int
}

func (c *cur) next() string {
	if c.i >= len(c.t) {
		panic("mmc: short token list")
	}
	s := c.t[c.i]
	c.i++
	return s
}
func (c *cur) str() string   { return hx.MustUnS(c.next()) }
func (c *cur) int() int64    { return hx.MustInt(c.next()) }
func (c *cur) f() float64    { return hx.MustUnF(c.next()) }
func (c *cur) tags() gostatsd.Tags {
	n := int(c.int())
	var t gostatsd.Tags
	if n > 0 {
		t = make(gostatsd.Tags, 0, n)
	}
	for i := 0; i < n; i++ {
		t = append(t, c.str())
	}
	return t
}

// AddEntry parses one entry (token group) into mm.
func AddEntry(mm *gostatsd.MetricMap, toks []string) {
	c := &cur{t: toks}
	ty := c.next()
	name, tk := c.str(), c.str()
	switch ty {
	case "c":
		v := c.int()
		ts := c.int()
		src := c.str()
		tags := c.tags()
		if mm.Counters[name] == nil {
			mm.Counters[name] = map[string]gostatsd.Counter{}
		}
		mm.Counters[name][tk] = gostatsd.Counter{Value: v, Timestamp: gostatsd.Nanotime(ts), Source: gostatsd.Source(src), Tags: tags}
	case "g":
		v := c.f()
		ts := c.int()
		src := c.str()
		tags := c.tags()
		if mm.Gauges[name] == nil {
			mm.Gauges[name] = map[string]gostatsd.Gauge{}
		}
		mm.Gauges[name][tk] = gostatsd.Gauge{Value: v, Timestamp: gostatsd.Nanotime(ts), Source: gostatsd.Source(src), Tags: tags}
	case "t":
		n := int(c.int())
		vals := make([]float64, 0, n)
		for i := 0; i < n; i++ {
			vals = append(vals, c.f())
		}
		sc := c.f()
		ts := c.int()
		src := c.str()
		tags := c.tags()
		if mm.Timers[name] == nil {
			mm.Timers[name] = map[string]gostatsd.Timer{}
		}
		mm.Timers[name][tk] = gostatsd.Timer{Values: vals, SampledCount: sc, Timestamp: gostatsd.Nanotime(ts), Source: gostatsd.Source(src), Tags: tags}
	case "s":
		n := int(c.int())
		mem := map[string]struct{}{}
		for i := 0; i < n; i++ {
			mem[c.str()] = struct{}{}
		}
		ts := c.int()
		src := c.str()
		tags := c.tags()
		if mm.Sets[name] == nil {
			mm.Sets[name] = map[string]gostatsd.Set{}
		}
		mm.Sets[name][tk] = gostatsd.Set{Values: mem, Timestamp: gostatsd.Nanotime(ts), Source: gostatsd.Source(src), Tags: tags}
	default:
		panic("mmc: bad entry type " + ty)
	}
}

// ParseMap builds a fresh map from ","-separated entry groups.
func ParseMap(toks []string) *gostatsd.MetricMap {
	mm := gostatsd.NewMetricMap(false)
	for _, g := range hx.SplitBy(toks, ",") {
		if len(g) > 0 {
			AddEntry(mm, g)
		}
	}
	return mm
}

// DpToks renders a datapoint.
func DpToks(m *gostatsd.Metric) string {
	ty := map[gostatsd.MetricType]string{gostatsd.COUNTER: "c", gostatsd.TIMER: "t", gostatsd.GAUGE: "g", gostatsd.SET: "s"}[m.Type]
	return fmt.Sprintf("%s %s %s %s %s %s %d %s %s", ty, hx.S(m.Name), hx.S(m.TagsKey), hx.F(m.Value), hx.F(m.Rate), hx.S(m.StringValue),
		int64(m.Timestamp), hx.S(string(m.Source)), tagsToks(m.Tags))
}

// ParseDp builds a fresh *Metric from one token group.
func ParseDp(toks []string) *gostatsd.Metric {
	c := &cur{t: toks}
	ty := map[string]gostatsd.MetricType{"c": gostatsd.COUNTER, "t": gostatsd.TIMER, "g": gostatsd.GAUGE, "s": gostatsd.SET}[c.next()]
	m := &gostatsd.Metric{Type: ty}
	m.Name = c.str()
	m.TagsKey = c.str()
	m.Value = c.f()
	m.Rate = c.f()
	m.StringValue = c.str()
	m.Timestamp = gostatsd.Nanotime(c.int())
	m.Source = gostatsd.Source(c.str())
	m.Tags = c.tags()
	return m
}

func ParseDps(toks []string) []*gostatsd.Metric {
	var out []*gostatsd.Metric
	for _, g := range hx.SplitBy(toks, ",") {
		if len(g) > 0 {
			out = append(out, ParseDp(g))
		}
	}
	return out
}
