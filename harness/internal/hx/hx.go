// Package hx holds what every per-property harness shares: the PRNG, the token encoding of the
// line protocol, and the stats/evidence side channel.
package hx

import (
	"bufio"
	"encoding/hex"
	"encoding/json"
	"fmt"
	"math"
	"os"
	"sort"
	"strconv"
	"strings"
)

// Rng is splitmix64; every random choice of a run derives from one state seeded by VERIF_SEED.
type Rng struct{ s uint64 }

func NewRng(seed uint64) *Rng {
	// the state advances by the golden-ratio increment, so the seed is hashed first: consecutive seeds
	// must not give the same stream shifted by one draw
	z := seed + 0x9E3779B97F4A7C15
	z = (z ^ (z >> 30)) * 0xBF58476D1CE4E5B9
	z = (z ^ (z >> 27)) * 0x94D049BB133111EB
	return &Rng{s: z ^ (z >> 31)}
}

func (r *Rng) U64() uint64 {
	r.s += 0x9E3779B97F4A7C15
	z := r.s
	z = (z ^ (z >> 30)) * 0xBF58476D1CE4E5B9
	z = (z ^ (z >> 27)) * 0x94D049BB133111EB
	return z ^ (z >> 31)
}

// Intn returns a value in [0,n).
func (r *Rng) Intn(n int) int {
	if n <= 0 {
		return 0
	}
	return int(r.U64() % uint64(n))
}

// Range returns a value in [lo,hi].
func (r *Rng) Range(lo, hi int) int { return lo + r.Intn(hi-lo+1) }

func (r *Rng) Bool() bool { return r.U64()&1 == 1 }

// Chance is true with probability num/den.
func (r *Rng) Chance(num, den int) bool { return r.Intn(den) < num }

func Pick[T any](r *Rng, xs []T) T { return xs[r.Intn(len(xs))] }

func (r *Rng) Shuffle(n int, swap func(i, j int)) {
	for i := n - 1; i > 0; i-- {
		j := r.Intn(i + 1)
		swap(i, j)
	}
}

// Fork derives an independent generator (so that sub-generators do not perturb each other).
func (r *Rng) Fork() *Rng { return &Rng{s: r.U64()} }

// S encodes a byte string as a protocol token.
func S(s string) string { return "x" + hex.EncodeToString([]byte(s)) }

// B encodes bytes as a protocol token.
func B(b []byte) string { return "x" + hex.EncodeToString(b) }

// UnS decodes a protocol string token.
func UnS(t string) (string, error) {
	if !strings.HasPrefix(t, "x") {
		return "", fmt.Errorf("bad string token %q", t)
	}
	b, err := hex.DecodeString(t[1:])
	return string(b), err
}

func MustUnS(t string) string {
	s, err := UnS(t)
	if err != nil {
		panic(err)
	}
	return s
}

// F encodes a float64 as its 16 hex digits.
func F(f float64) string { return fmt.Sprintf("%016x", math.Float64bits(f)) }

func UnF(t string) (float64, error) {
	u, err := strconv.ParseUint(t, 16, 64)
	if err != nil || len(t) != 16 {
		return 0, fmt.Errorf("bad float token %q", t)
	}
	return math.Float64frombits(u), nil
}

func MustUnF(t string) float64 {
	f, err := UnF(t)
	if err != nil {
		panic(err)
	}
	return f
}

func I(i int64) string { return strconv.FormatInt(i, 10) }

func MustInt(t string) int64 {
	i, err := strconv.ParseInt(t, 10, 64)
	if err != nil {
		panic(err)
	}
	return i
}

// Tokens splits a line on blanks.
func Tokens(line string) []string { return strings.Fields(line) }

// SplitBy splits a token list on a separator token.
func SplitBy(toks []string, sep string) [][]string {
	out := [][]string{}
	cur := []string{}
	for _, t := range toks {
		if t == sep {
			out = append(out, cur)
			cur = []string{}
		} else {
			cur = append(cur, t)
		}
	}
	return append(out, cur)
}

func SortedCopy(xs []string) []string {
	c := append([]string(nil), xs...)
	sort.Strings(c)
	return c
}

// Lines reads stdin line by line (lines up to 64 MiB).
func Lines(f func(line string)) {
	sc := bufio.NewScanner(os.Stdin)
	sc.Buffer(make([]byte, 1<<20), 1<<26)
	for sc.Scan() {
		f(sc.Text())
	}
}

// Out is a buffered stdout; call Flush at the end (and per line when a crash is possible).
var Out = bufio.NewWriterSize(os.Stdout, 1<<16)

// Stats is the side channel into the evidence file: counts measured by the harness on this run.
type Stats struct {
	Evaluations        int            `json:"evaluations"`
	DistinctNontrivial int            `json:"distinct_nontrivial"`
	Rule               string         `json:"rule"`
	Distribution       map[string]int `json:"distribution"`
	Samples            []string       `json:"samples"`
	Extra              map[string]any `json:"extra,omitempty"`
	seen               map[string]struct{}
}

func NewStats(rule string) *Stats {
	return &Stats{Rule: rule, Distribution: map[string]int{}, seen: map[string]struct{}{}, Extra: map[string]any{}}
}

// Case records one generated case; nontrivial says whether it reaches the property's
// non-trivial branch (by the rule given to NewStats). Distinctness is by the canonical text.
func (s *Stats) Case(canon string, nontrivial bool) {
	s.Evaluations++
	if nontrivial {
		if _, ok := s.seen[canon]; !ok {
			s.seen[canon] = struct{}{}
			s.DistinctNontrivial++
			if len(s.Samples) < 3 {
				c := canon
				if len(c) > 500 {
					c = c[:500] + "...(truncated)"
				}
				s.Samples = append(s.Samples, c)
			}
		}
	}
}

func (s *Stats) Hit(bucket string) { s.Distribution[bucket]++ }

func (s *Stats) Write(path string) {
	if path == "" {
		return
	}
	b, _ := json.MarshalIndent(s, "", " ")
	_ = os.WriteFile(path, b, 0o644)
}

// Env helpers.
func Seed() uint64 {
	if v := os.Getenv("VERIF_SEED"); v != "" {
		if u, err := strconv.ParseUint(v, 10, 64); err == nil {
			return u
		}
		if i, err := strconv.ParseInt(v, 10, 64); err == nil {
			return uint64(i)
		}
	}
	return 1
}

// Arg returns the value following flag name in args, or def.
func Arg(args []string, name, def string) string {
	for i := 0; i+1 < len(args); i++ {
		if args[i] == name {
			return args[i+1]
		}
	}
	return def
}

func ArgInt(args []string, name string, def int) int {
	v := Arg(args, name, "")
	if v == "" {
		return def
	}
	n, err := strconv.Atoi(v)
	if err != nil {
		return def
	}
	return n
}
