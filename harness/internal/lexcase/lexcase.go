//go:build verif

// Package lexcase is shared by the C02 / C03 / C05 harnesses: the lexer case format
// (`xNS CAP [xQUERY ANSWER]* xLINE`), the ParseFloat oracle table, running one line through the real
// lexer, and the canonical rendering of what it returned.
package lexcase

import (
	"bytes"
	"fmt"
	"strconv"
	"strings"
	"sync"

	"github.com/atlassian/gostatsd"
	"github.com/atlassian/gostatsd/pkg/verifhooks"

	"verifharness/internal/hx"
)

// Candidates lists every text the lexer can hand to strconv.ParseFloat for this line, computed
// naively (never by re-implementing the lexer): the text after the first ':' up to the next '|',
// and the remainder of every '|'-separated segment that starts with '@'.
func Candidates(line []byte) [][]byte {
	var out [][]byte
	if i := bytes.IndexByte(line, ':'); i >= 0 {
		t := line[i+1:]
		if j := bytes.IndexByte(t, '|'); j >= 0 {
			t = t[:j]
		}
		out = append(out, t)
	}
	for _, seg := range bytes.Split(line, []byte{'|'}) {
		if len(seg) > 0 && seg[0] == '@' {
			out = append(out, seg[1:])
		}
	}
	return out
}

// Answer is the real library's verdict on one text.
func Answer(q []byte) string {
	v, err := strconv.ParseFloat(string(q), 64)
	if err != nil {
		return "err"
	}
	return hx.F(v)
}

// OracleTokens renders the oracle table of the given lines (deduplicated, in first-seen order).
func OracleTokens(lines ...[]byte) []string {
	seen := map[string]bool{}
	var toks []string
	for _, line := range lines {
		for _, q := range Candidates(line) {
			if seen[string(q)] {
				continue
			}
			seen[string(q)] = true
			toks = append(toks, hx.B(q), Answer(q))
		}
	}
	return toks
}

// Case renders a lexer case. cap < 0 means capacity = length.
func Case(ns string, capacity int, line []byte) string {
	c := "="
	if capacity >= 0 {
		c = strconv.Itoa(capacity)
	}
	toks := []string{hx.S(ns), c}
	toks = append(toks, OracleTokens(line)...)
	toks = append(toks, hx.B(line))
	return strings.Join(toks, " ")
}

// Parse reads a lexer case back: namespace, capacity (-1: = length), line.
func Parse(c string) (ns string, capacity int, line []byte, err error) {
	toks := hx.Tokens(c)
	if len(toks) < 3 {
		return "", 0, nil, fmt.Errorf("short case")
	}
	ns, err = hx.UnS(toks[0])
	if err != nil {
		return
	}
	capacity = -1
	if toks[1] != "=" {
		capacity, err = strconv.Atoi(toks[1])
		if err != nil {
			return
		}
	}
	s, err := hx.UnS(toks[len(toks)-1])
	return ns, capacity, []byte(s), err
}

// ErrName maps the lexer's errors to the protocol enum.
func ErrName(err error) string {
	if _, ok := err.(*strconv.NumError); ok {
		return "ERR_NUM"
	}
	switch err.Error() {
	case "missing key separator":
		return "ERR_KEYSEP"
	case "key zero len":
		return "ERR_EMPTYKEY"
	case "missing value separator":
		return "ERR_VALUESEP"
	case "invalid type":
		return "ERR_TYPE"
	case "invalid format":
		return "ERR_FORMAT"
	case "invalid event attributes":
		return "ERR_ATTRS"
	case "overflow":
		return "ERR_OVERFLOW"
	case "not enough data":
		return "ERR_NOTENOUGH"
	case "invalid value NaN":
		return "ERR_NAN"
	}
	if strings.Contains(strings.ToLower(err.Error()), "sampl") {
		return "ERR_RATE" // the D2 repair's error
	}
	return "ERR_OTHER_" + hx.S(err.Error())
}

func typeName(t gostatsd.MetricType) string {
	switch t {
	case gostatsd.COUNTER:
		return "c"
	case gostatsd.TIMER:
		return "ms"
	case gostatsd.GAUGE:
		return "g"
	case gostatsd.SET:
		return "s"
	}
	return fmt.Sprintf("type%d", int(t))
}

// RenderMetric is the canonical form of a lexed metric (the fields the lexer sets).
func RenderMetric(m *gostatsd.Metric) string {
	toks := []string{"M", hx.S(m.Name), typeName(m.Type)}
	if m.Type == gostatsd.SET {
		toks = append(toks, "-")
	} else {
		toks = append(toks, hx.F(m.Value))
	}
	toks = append(toks, hx.S(m.StringValue), hx.F(m.Rate))
	for _, t := range m.Tags {
		toks = append(toks, hx.S(t))
	}
	return strings.Join(toks, " ")
}

func RenderEvent(e *gostatsd.Event) string {
	toks := []string{"E", hx.S(e.Title), hx.S(e.Text), strconv.FormatInt(e.DateHappened, 10), e.Priority.String(), e.AlertType.String(),
		hx.S(string(e.Source)), hx.S(e.AggregationKey), hx.S(e.SourceTypeName)}
	for _, t := range e.Tags {
		toks = append(toks, hx.S(t))
	}
	return strings.Join(toks, " ")
}

// Buffer makes a private copy of line with exactly the requested capacity (the lexer writes into it
// and Go's slice bounds checks depend on the capacity).
func Buffer(line []byte, capacity int) []byte {
	if capacity < len(line) {
		capacity = len(line)
	}
	b := make([]byte, len(line), capacity)
	copy(b, line)
	return b
}

// One long-lived lexer is reused for every line of a run (as DatagramParser reuses its lexer), so that
// state leaking from one line into the next is visible; the metrics it hands out go back to its pool.
var (
	sharedMu  sync.Mutex
	sharedLex = verifhooks.NewLineLexer()
)

func lexShared(buf []byte, ns string) (m *gostatsd.Metric, e *gostatsd.Event, err error) {
	sharedMu.Lock()
	defer sharedMu.Unlock()
	defer func() {
		if p := recover(); p != nil {
			sharedLex = verifhooks.NewLineLexer() // its state is undefined after a panic
			panic(p)
		}
	}()
	m, e, err = sharedLex.Lex(buf, ns)
	if m != nil {
		// hand a copy to the caller and return the pooled object, so that later lines get recycled metrics
		c := *m
		c.Tags = m.Tags.Copy()
		c.DoneFunc = nil
		m.Done()
		m = &c
	}
	return m, e, err
}

// Lex runs the real lexer on a private copy of line and renders the result; a panic is reported as
// "PANIC" (the message goes to msg).
func Lex(ns string, capacity int, line []byte) (out string, msg string) {
	defer func() {
		if e := recover(); e != nil {
			out, msg = "PANIC", fmt.Sprint(e)
		}
	}()
	buf := Buffer(line, capacity)
	m, e, err := lexShared(buf, ns)
	switch {
	case err != nil:
		return "R " + ErrName(err), ""
	case m != nil:
		return RenderMetric(m), ""
	case e != nil:
		return RenderEvent(e), ""
	}
	return "NEITHER", ""
}

// CheckOracle verifies the oracle column of a lexer case (tokens between CAP and the line): every
// answer must be what the library says now ("ORACLE_INCONSISTENT ..." otherwise) and every candidate
// text of the line must be present ("ORACLE_MISS" otherwise: the case was edited, e.g. by the
// shrinker, and carries no verdict).  Returns "" when the table is fine.
func CheckOracle(toks []string, line []byte) string {
	have := map[string]bool{}
	for i := 0; i+1 < len(toks); i += 2 {
		q, err := hx.UnS(toks[i])
		if err != nil {
			return "BAD_CASE"
		}
		if Answer([]byte(q)) != toks[i+1] {
			return "ORACLE_INCONSISTENT " + toks[i]
		}
		have[q] = true
	}
	for _, q := range Candidates(line) {
		if !have[string(q)] {
			return "ORACLE_MISS"
		}
	}
	return ""
}

// Raw is what the lexer returned for one line (Err is the protocol rendering "R ERR_…" or "").
type Raw struct {
	M   *gostatsd.Metric
	E   *gostatsd.Event
	Err string
}

// LexRaw runs the real lexer on buf (which it may rewrite) and returns the objects themselves.
func LexRaw(ns string, buf []byte) (Raw, error) {
	m, e, err := lexShared(buf, ns)
	if err != nil {
		return Raw{Err: "R " + ErrName(err)}, nil
	}
	return Raw{M: m, E: e}, nil
}
