// Package aggx is shared by the C08 and C04 harnesses: the case head (aggregator configuration, tags of
// the series, ParseFloat oracle), construction of the real MetricAggregator, and the canonical rendering
// of a flushed timer.
package aggx

import (
	"fmt"
	"math"
	"sort"
	"strconv"
	"strings"
	"time"

	"github.com/atlassian/gostatsd"
	"github.com/atlassian/gostatsd/pkg/statsd"

	"verifharness/internal/hx"
)

// Head is the first `;`-separated part of a case.
type Head struct {
	Pcts       []int
	Mask       uint32 // bit i = field i of gostatsd.TimerSubtypes in source order, 1 = disabled
	Limit      uint32
	IntervalNs int64
	Tags       []string
}

const HistPrefix = "gsd_histogram:"

// Subtypes expands the mask in the field order of gostatsd.TimerSubtypes.
func Subtypes(m uint32) gostatsd.TimerSubtypes {
	b := func(i uint) bool { return m>>i&1 == 1 }
	return gostatsd.TimerSubtypes{
		Lower: b(0), LowerPct: b(1), Upper: b(2), UpperPct: b(3), Count: b(4), CountPct: b(5),
		CountPerSecond: b(6), Mean: b(7), MeanPct: b(8), Median: b(9), StdDev: b(10), Sum: b(11),
		SumPct: b(12), SumSquares: b(13), SumSquaresPct: b(14),
	}
}

// Oracle answers of the real strconv.ParseFloat for every item the model could ask about: each tag,
// with the histogram prefix stripped when present, split on "_" (naive superset).
func Oracle(tags []string) string {
	seen := map[string]bool{}
	out := []string{}
	for _, t := range tags {
		rest := t
		if strings.HasPrefix(t, HistPrefix) {
			rest = t[len(HistPrefix):]
		}
		for _, it := range strings.Split(rest, "_") {
			if seen[it] {
				continue
			}
			seen[it] = true
			f, err := strconv.ParseFloat(it, 64)
			if err != nil {
				out = append(out, hx.S(it)+":-")
			} else {
				out = append(out, hx.S(it)+":"+hx.F(f))
			}
		}
	}
	if len(out) == 0 {
		return "-"
	}
	return strings.Join(out, ",")
}

func (h Head) String() string {
	ps := make([]string, len(h.Pcts))
	for i, p := range h.Pcts {
		ps[i] = strconv.Itoa(p)
	}
	ts := make([]string, len(h.Tags))
	for i, t := range h.Tags {
		ts[i] = hx.S(t)
	}
	j := func(xs []string) string {
		if len(xs) == 0 {
			return "-"
		}
		return strings.Join(xs, ",")
	}
	return fmt.Sprintf("P=%s M=%d L=%d I=%d T=%s O=%s", j(ps), h.Mask, h.Limit, h.IntervalNs, j(ts), Oracle(h.Tags))
}

func list(s string) []string {
	if s == "-" || s == "" {
		return nil
	}
	return strings.Split(s, ",")
}

// ParseHead reads the K=V tokens of a head (the oracle column is not needed on the Go side).
func ParseHead(toks []string) (Head, error) {
	var h Head
	for _, t := range toks {
		i := strings.IndexByte(t, '=')
		if i < 0 {
			return h, fmt.Errorf("bad head token %q", t)
		}
		k, v := t[:i], t[i+1:]
		switch k {
		case "P":
			for _, p := range list(v) {
				n, err := strconv.Atoi(p)
				if err != nil {
					return h, err
				}
				h.Pcts = append(h.Pcts, n)
			}
		case "M":
			n, err := strconv.ParseUint(v, 10, 32)
			if err != nil {
				return h, err
			}
			h.Mask = uint32(n)
		case "L":
			n, err := strconv.ParseUint(v, 10, 32)
			if err != nil {
				return h, err
			}
			h.Limit = uint32(n)
		case "I":
			n, err := strconv.ParseInt(v, 10, 64)
			if err != nil {
				return h, err
			}
			h.IntervalNs = n
		case "T":
			for _, x := range list(v) {
				s, err := hx.UnS(x)
				if err != nil {
					return h, err
				}
				h.Tags = append(h.Tags, s)
			}
		case "O":
		default:
			return h, fmt.Errorf("unknown head key %q", k)
		}
	}
	return h, nil
}

// NewAggregator builds the real aggregator for a head; nothing ever expires (interval 0).
func NewAggregator(h Head) *statsd.MetricAggregator {
	pcts := make([]float64, len(h.Pcts))
	for i, p := range h.Pcts {
		pcts[i] = float64(p)
	}
	return statsd.NewMetricAggregator(pcts, 0, 0, 0, 0, Subtypes(h.Mask), h.Limit)
}

func (h Head) Interval() time.Duration { return time.Duration(h.IntervalNs) }

// TimerMetric is one timer datapoint of series `name` with the head's tags (copied: NewTimer copies again).
func TimerMetric(name string, tags []string, v, rate float64) *gostatsd.Metric {
	return &gostatsd.Metric{Name: name, Type: gostatsd.TIMER, Value: v, Rate: rate, Tags: append(gostatsd.Tags(nil), tags...), Timestamp: 1}
}

// RenderTimer is the canonical rendering of the observed fields (same text as the Lean driver's renderTimer).
func RenderTimer(t gostatsd.Timer) string {
	ps := make([]string, len(t.Percentiles))
	for i, p := range t.Percentiles {
		ps[i] = p.Str + ":" + hx.F(p.Float)
	}
	sort.Strings(ps)
	hist := "nil"
	if t.Histogram != nil {
		hs := make([]string, 0, len(t.Histogram))
		for b, c := range t.Histogram {
			bits := hx.F(float64(b))
			if math.IsInf(float64(b), 1) {
				bits = "7ff0000000000000"
			}
			hs = append(hs, bits+":"+strconv.Itoa(c))
		}
		sort.Strings(hs)
		hist = "[" + strings.Join(hs, ",") + "]"
	}
	return fmt.Sprintf("count=%d sc=%s ps=%s mean=%s median=%s min=%s max=%s std=%s sum=%s sumsq=%s pct=[%s] hist=%s",
		t.Count, hx.F(t.SampledCount), hx.F(t.PerSecond), hx.F(t.Mean), hx.F(t.Median), hx.F(t.Min), hx.F(t.Max),
		hx.F(t.StdDev), hx.F(t.Sum), hx.F(t.SumSquares), strings.Join(ps, ","), hist)
}

// FMASelfTest asserts the assumption of the bit-exact comparison: the compiler does not fuse x*y+z.
func FMASelfTest() bool {
	x, y, z := 1.0+math.Ldexp(1, -30), 1.0+math.Ldexp(1, -30), -(1.0 + math.Ldexp(1, -29))
	p := x * y
	return p+z == x*y+z && x*y+z == 0 // exact product has an extra 2^-60, a fused operation would keep it
}

// GenHistTag builds a histogram tag value from the item alphabet of the generator.
var HistItems = []string{"1", "2", "5", "10", "100", "0.5", "2.5", "1e3", "-1", "0", "", "abc", "inf", "+Inf", "-inf", "Inf",
	"1.5.2", " 1", "0x10", "0x1p-2", "1e400", "3", "7", "20", "50"}

func GenTags(r *hx.Rng, wantHist bool) []string {
	other := []string{"env:prod", "a", "host:h1", "k:v", "gsd_histogram", "gsd_histogramx:1", "le:1"}
	tags := []string{}
	for i := r.Intn(3); i > 0; i-- {
		tags = append(tags, hx.Pick(r, other))
	}
	if wantHist {
		nh := 1
		if r.Chance(1, 10) {
			nh = 2
		}
		for ; nh > 0; nh-- {
			var items []string
			switch r.Intn(6) {
			case 0: // empty list
			case 1: // ascending integers
				x := r.Range(0, 5)
				for i := r.Range(1, 6); i > 0; i-- {
					items = append(items, strconv.Itoa(x))
					x += r.Range(0, 10) // 0 step: duplicate bound
				}
			case 2: // descending
				x := r.Range(50, 100)
				for i := r.Range(1, 6); i > 0; i-- {
					items = append(items, strconv.Itoa(x))
					x -= r.Range(0, 20)
				}
			default:
				for i := r.Range(1, 7); i > 0; i-- {
					items = append(items, hx.Pick(r, HistItems))
				}
			}
			tag := HistPrefix + strings.Join(items, "_")
			pos := r.Intn(len(tags) + 1)
			tags = append(tags[:pos], append([]string{tag}, tags[pos:]...)...)
		}
	}
	// MetricMap.Receive sorts the tags in place (Metric.FormatTagsKey -> Tags.SortedString) before NewTimer
	// copies them: the aggregator only ever sees sorted tag lists from this path.
	sort.Strings(tags)
	return tags
}

var Limits = []uint32{0, 1, 2, 5, 4294967295}

// GenPcts: 0–6 integer thresholds in −100..100, duplicates and 0 included, biased to the interesting ones.
func GenPcts(r *hx.Rng) []int {
	n := r.Intn(7)
	fav := []int{90, 99, 100, -100, -90, 50, 1, -1, 0, 95, -50, -99, 75, 25}
	out := []int{}
	for i := 0; i < n; i++ {
		switch {
		case len(out) > 0 && r.Chance(1, 6):
			out = append(out, out[r.Intn(len(out))])
		case r.Chance(1, 2):
			out = append(out, hx.Pick(r, fav))
		default:
			out = append(out, r.Range(-100, 100))
		}
	}
	return out
}

// BaseMask disables the nine non-percentile sub-metrics, AllMask all fifteen.
const (
	BaseMask uint32 = 1<<0 | 1<<2 | 1<<4 | 1<<6 | 1<<7 | 1<<9 | 1<<10 | 1<<11 | 1<<13
	AllMask  uint32 = 1<<15 - 1
)

func GenMask(r *hx.Rng) uint32 {
	if r.Chance(1, 12) {
		return hx.Pick(r, []uint32{BaseMask, AllMask, AllMask &^ BaseMask})
	}
	switch r.Intn(4) {
	case 0:
		return 0
	case 1:
		return 1 << uint(r.Intn(15))
	default:
		return uint32(r.Intn(1 << 15))
	}
}

func GenInterval(r *hx.Rng) int64 {
	fav := []int64{1e6, 1e9, 1e10, 6e10, 3.6e12, 15e8, 333333333}
	if r.Chance(1, 2) {
		return hx.Pick(r, fav)
	}
	return int64(r.Range(1, 3600000)) * 1e6
}
