//go:build verif

// Package dgrun drives the real statsd.DatagramParser in-process on one batch of datagrams: a capture
// PipelineHandler records the dispatched MetricMap and events, a capture Statser reads the parser's
// own counters (parser.metrics_received / events_received / bad_lines_seen) through its flush
// notification, and a panic of the parser goroutine (which would kill gostatsd: it has no recover)
// is caught by a deferred recover at the root of that goroutine.
package dgrun

import (
	"context"
	"fmt"
	"io"
	"sync"
	"sync/atomic"
	"time"

	"github.com/sirupsen/logrus"

	"github.com/atlassian/gostatsd"
	"github.com/atlassian/gostatsd/pkg/stats"
	"github.com/atlassian/gostatsd/pkg/statsd"
)

// Capture is a gostatsd.PipelineHandler that records what it is given.
type Capture struct {
	mu     sync.Mutex
	Maps   []*gostatsd.MetricMap
	Events []*gostatsd.Event
}

func (c *Capture) DispatchMetricMap(ctx context.Context, mm *gostatsd.MetricMap) {
	c.mu.Lock()
	c.Maps = append(c.Maps, mm)
	c.mu.Unlock()
}
func (c *Capture) DispatchEvent(ctx context.Context, e *gostatsd.Event) {
	c.mu.Lock()
	c.Events = append(c.Events, e)
	c.mu.Unlock()
}
func (c *Capture) EstimatedTags() int { return 0 }

// Reset forgets what was captured so far.
func (c *Capture) Reset() {
	c.mu.Lock()
	c.Maps, c.Events = nil, nil
	c.mu.Unlock()
}

// First returns the first captured map (nil if none) and all captured events.
func (c *Capture) First() (*gostatsd.MetricMap, []*gostatsd.Event) {
	c.mu.Lock()
	defer c.mu.Unlock()
	var mm *gostatsd.MetricMap
	if len(c.Maps) > 0 {
		mm = c.Maps[0]
	}
	return mm, append([]*gostatsd.Event(nil), c.Events...)
}
func (c *Capture) WaitForEvents() {}

type capStatser struct {
	stats.Statser
	tick     chan time.Duration
	mu       sync.Mutex
	vals     map[string]uint64
	reported chan struct{}
}

func (s *capStatser) RegisterFlush() (<-chan time.Duration, func()) { return s.tick, func() {} }
func (s *capStatser) Report(name string, value *uint64, tags gostatsd.Tags) {
	s.mu.Lock()
	s.vals[name] = atomic.LoadUint64(value)
	s.mu.Unlock()
	if name == "parser.events_received" {
		s.reported <- struct{}{}
	}
}
func (s *capStatser) Gauge(name string, value float64, tags gostatsd.Tags) {
	s.mu.Lock()
	s.vals[name] = uint64(value)
	s.mu.Unlock()
}
func (s *capStatser) WithTags(tags gostatsd.Tags) stats.Statser { return s }

// Result of one batch.
type Result struct {
	Map             *gostatsd.MetricMap // nil when nothing was dispatched
	Events          []*gostatsd.Event
	MetricsReceived uint64
	EventsReceived  uint64
	BadLines        uint64
	Panic           string // non-empty: the parser goroutine panicked
	Hang            bool
	// what the second batch (Run2 / Run3) dispatched
	SecondMap    *gostatsd.MetricMap
	SecondEvents []*gostatsd.Event
}

// Dg is one datagram of the batch.
type Dg struct {
	IP  string
	Ts  int64
	Msg []byte
}

func quietLogger() *logrus.Logger {
	l := logrus.New()
	l.Out = io.Discard
	return l
}

// Run parses one batch with a fresh parser. afterParse (may be nil) runs once the parser has released
// every datagram of the batch and dispatched its map (used by the aliasing check to scribble on buffers).
func Run(ns string, ignoreHost bool, batch []Dg, afterParse func(*gostatsd.MetricMap, []*gostatsd.Event)) (res Result) {
	return Run2(ns, ignoreHost, batch, afterParse, nil)
}

// Run2 is Run followed — after afterParse — by a second batch through the same parser (same metric
// pool), so that pooled objects of the first batch are reused before the caller looks at the first
// result again. Result.Map / Events are those of the first batch only; the counters cover both.
func Run2(ns string, ignoreHost bool, batch []Dg, afterParse func(*gostatsd.MetricMap, []*gostatsd.Event), second []Dg) (res Result) {
	return Run3(ns, ignoreHost, 0, batch, afterParse, second)
}

// EstimatedTags maps a small index to the parser's estimated-tags setting (a sizing hint for the metric
// pool's tag buffers: no value of it may change what is parsed).
func EstimatedTags(i int) int { return []int{0, 1, 2, 4}[((i%4)+4)%4] }

// Run3 is Run2 with the parser's estimated-tags setting given.
func Run3(ns string, ignoreHost bool, estimatedTags int, batch []Dg, afterParse func(*gostatsd.MetricMap, []*gostatsd.Event), second []Dg) (res Result) {
	ctx, cancel := context.WithCancel(context.Background())
	defer cancel()
	cs := &capStatser{Statser: stats.NewNullStatser(), tick: make(chan time.Duration), vals: map[string]uint64{}, reported: make(chan struct{}, 4)}
	ctx = stats.NewContext(ctx, cs)
	capt := &Capture{}
	in := make(chan []*statsd.Datagram)
	dp := statsd.NewDatagramParser(in, ns, ignoreHost, estimatedTags, capt, 0, false, quietLogger())

	panicCh := make(chan string, 1)
	go func() {
		defer func() {
			if e := recover(); e != nil {
				panicCh <- fmt.Sprint(e)
			}
		}()
		dp.Run(ctx)
	}()
	go dp.RunMetricsContext(ctx)

	dgs := make([]*statsd.Datagram, len(batch))
	for i, d := range batch {
		dgs[i] = &statsd.Datagram{IP: gostatsd.Source(d.IP), Msg: d.Msg, Timestamp: gostatsd.Nanotime(d.Ts), DoneFunc: func() {}}
	}
	done := make(chan struct{})
	sentinel := []*statsd.Datagram{{IP: "sentinel", Msg: nil, Timestamp: 0, DoneFunc: func() { close(done) }}}

	timeout := time.After(20 * time.Second)
	send := func(b []*statsd.Datagram) bool {
		select {
		case in <- b:
			return true
		case p := <-panicCh:
			res.Panic = p
			return false
		case <-timeout:
			res.Hang = true
			return false
		}
	}
	// Priming: the parser first handles an unrelated datagram whose metrics carry host: tags and other
	// tags, and hands them back to its metric pool, so that the case's lines are served recycled metrics
	// (whatever a recycled metric still remembers would show up in the case's result).
	const primeN = 8
	primeMsg := []byte("verif.prime:1|c|#host:leaked-host,z:leak\nverif.prime:2|g|#host:leaked-host\nverif.prime:3|ms|@0.5|#host:leaked-host,y:leak\nverif.prime:u|s|#host:leaked-host\n" +
		"verif.prime:1|c|#host:leaked-host,z:leak\nverif.prime:2|g|#host:leaked-host\nverif.prime:3|ms|@0.5|#host:leaked-host,y:leak\nverif.prime:u|s|#host:leaked-host")
	primed := make(chan struct{})
	if !send([]*statsd.Datagram{{IP: "192.0.2.99", Msg: primeMsg, Timestamp: 1, DoneFunc: func() {}}}) ||
		!send([]*statsd.Datagram{{IP: "sentinel", Msg: nil, Timestamp: 0, DoneFunc: func() { close(primed) }}}) {
		return res
	}
	select {
	case <-primed:
	case p := <-panicCh:
		res.Panic = p
		return res
	case <-timeout:
		res.Hang = true
		return res
	}
	capt.mu.Lock()
	capt.Maps, capt.Events = nil, nil
	capt.mu.Unlock()
	if !send(dgs) || !send(sentinel) {
		return res
	}
	select {
	case <-done:
	case p := <-panicCh:
		res.Panic = p
		return res
	case <-timeout:
		res.Hang = true
		return res
	}
	capt.mu.Lock()
	nMaps, nEvents := len(capt.Maps), len(capt.Events)
	var firstMap *gostatsd.MetricMap
	if nMaps > 0 {
		firstMap = capt.Maps[0]
	}
	firstEvents := capt.Events[:nEvents:nEvents]
	capt.mu.Unlock()
	if afterParse != nil {
		afterParse(firstMap, firstEvents)
	}
	if second != nil {
		dgs2 := make([]*statsd.Datagram, len(second))
		for i, d := range second {
			dgs2[i] = &statsd.Datagram{IP: gostatsd.Source(d.IP), Msg: d.Msg, Timestamp: gostatsd.Nanotime(d.Ts), DoneFunc: func() {}}
		}
		done2 := make(chan struct{})
		sentinel2 := []*statsd.Datagram{{IP: "sentinel", Msg: nil, Timestamp: 0, DoneFunc: func() { close(done2) }}}
		if !send(dgs2) || !send(sentinel2) {
			return res
		}
		select {
		case <-done2:
		case p := <-panicCh:
			res.Panic = p
			return res
		case <-timeout:
			res.Hang = true
			return res
		}
	}
	// two flush notifications: when the second round reports, the first round (including the
	// bad-lines gauge, which is sent last) is complete
	for i := 0; i < 2; i++ {
		select {
		case cs.tick <- time.Second:
		case <-timeout:
			res.Hang = true
			return res
		}
		select {
		case <-cs.reported:
		case <-timeout:
			res.Hang = true
			return res
		}
	}
	capt.mu.Lock()
	if nMaps > 0 {
		res.Map = capt.Maps[0]
	}
	res.Events = capt.Events[:nEvents:nEvents]
	if len(capt.Maps) > nMaps {
		res.SecondMap = capt.Maps[nMaps]
	}
	res.SecondEvents = capt.Events[nEvents:]
	capt.mu.Unlock()
	cs.mu.Lock()
	res.MetricsReceived = cs.vals["parser.metrics_received"] - primeN
	res.EventsReceived = cs.vals["parser.events_received"]
	res.BadLines = cs.vals["parser.bad_lines_seen"]
	cs.mu.Unlock()
	return res
}
