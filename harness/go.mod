module verifharness

go 1.23.6

require github.com/atlassian/gostatsd v0.0.0

require (
	github.com/fsnotify/fsnotify v1.6.0 // indirect
	github.com/hashicorp/hcl v1.0.0 // indirect
	github.com/magiconair/properties v1.8.7 // indirect
	github.com/mitchellh/mapstructure v1.5.0 // indirect
	github.com/pelletier/go-toml/v2 v2.1.0 // indirect
	github.com/sagikazarmark/slog-shim v0.1.0 // indirect
	github.com/sirupsen/logrus v1.9.0 // indirect
	github.com/spf13/afero v1.10.0 // indirect
	github.com/spf13/cast v1.5.1 // indirect
	github.com/spf13/pflag v1.0.5 // indirect
	github.com/spf13/viper v1.17.0 // indirect
	github.com/subosito/gotenv v1.6.0 // indirect
	github.com/tilinna/clock v1.1.0 // indirect
	golang.org/x/sys v0.30.0 // indirect
	golang.org/x/text v0.22.0 // indirect
	gopkg.in/ini.v1 v1.67.0 // indirect
	gopkg.in/yaml.v3 v3.0.1 // indirect
)

replace github.com/atlassian/gostatsd => /repo
