module verifharness

go 1.23.6

require (
	github.com/atlassian/gostatsd v0.0.0
	github.com/aws/aws-sdk-go-v2/service/cloudwatch v1.42.3
	github.com/sirupsen/logrus v1.9.0
	github.com/spf13/viper v1.17.0
	github.com/tilinna/clock v1.1.0
)

require (
	github.com/PuerkitoBio/purell v1.1.1 // indirect
	github.com/PuerkitoBio/urlesc v0.0.0-20170810143723-de5bf2ad4578 // indirect
	github.com/ash2k/stager v0.0.0-20170622123058-6e9c7b0eacd4 // indirect
	github.com/cenkalti/backoff v2.2.1+incompatible // indirect
	github.com/davecgh/go-spew v1.1.2-0.20180830191138-d8f796af33cc // indirect
	github.com/emicklei/go-restful/v3 v3.8.0 // indirect
	github.com/evanphx/json-patch v4.12.0+incompatible // indirect
	github.com/fsnotify/fsnotify v1.6.0 // indirect
	github.com/go-logr/logr v1.2.3 // indirect
	github.com/go-openapi/jsonpointer v0.19.5 // indirect
	github.com/go-openapi/jsonreference v0.19.5 // indirect
	github.com/go-openapi/swag v0.19.14 // indirect
	github.com/gogo/protobuf v1.3.2 // indirect
	github.com/golang/protobuf v1.5.4 // indirect
	github.com/google/gnostic v0.5.7-v3refs // indirect
	github.com/google/go-cmp v0.6.0 // indirect
	github.com/google/gofuzz v1.1.0 // indirect
	github.com/gorilla/mux v1.8.0 // indirect
	github.com/hashicorp/hcl v1.0.0 // indirect
	github.com/imdario/mergo v0.3.8 // indirect
	github.com/josharian/intern v1.0.0 // indirect
	github.com/json-iterator/go v1.1.12 // indirect
	github.com/libp2p/go-reuseport v0.2.0 // indirect
	github.com/magiconair/properties v1.8.7 // indirect
	github.com/mailru/easyjson v0.7.6 // indirect
	github.com/mitchellh/mapstructure v1.5.0 // indirect
	github.com/modern-go/concurrent v0.0.0-20180306012644-bacd9c7ef1dd // indirect
	github.com/modern-go/reflect2 v1.0.2 // indirect
	github.com/munnerz/goautoneg v0.0.0-20191010083416-a7dc8b61c822 // indirect
	github.com/pelletier/go-toml/v2 v2.1.0 // indirect
	github.com/pierrec/lz4/v4 v4.1.19
	github.com/pkg/errors v0.9.1 // indirect
	github.com/sagikazarmark/slog-shim v0.1.0 // indirect
	github.com/spf13/afero v1.10.0 // indirect
	github.com/spf13/cast v1.5.1 // indirect
	github.com/spf13/pflag v1.0.5 // indirect
	github.com/subosito/gotenv v1.6.0 // indirect
	golang.org/x/net v0.35.0 // indirect
	golang.org/x/oauth2 v0.28.0 // indirect
	golang.org/x/sys v0.30.0 // indirect
	golang.org/x/term v0.29.0 // indirect
	golang.org/x/text v0.22.0 // indirect
	golang.org/x/time v0.3.0
	google.golang.org/protobuf v1.34.1
	gopkg.in/inf.v0 v0.9.1 // indirect
	gopkg.in/ini.v1 v1.67.0 // indirect
	gopkg.in/yaml.v2 v2.4.0 // indirect
	gopkg.in/yaml.v3 v3.0.1 // indirect
	k8s.io/api v0.25.2 // indirect
	k8s.io/apimachinery v0.25.2 // indirect
	k8s.io/client-go v0.25.2 // indirect
	k8s.io/klog/v2 v2.70.1 // indirect
	k8s.io/kube-openapi v0.0.0-20220803162953-67bda5d908f1 // indirect
	k8s.io/utils v0.0.0-20220728103510-ee6ede2d64ed // indirect
	sigs.k8s.io/json v0.0.0-20220713155537-f223a00ba0e2 // indirect
	sigs.k8s.io/structured-merge-diff/v4 v4.2.3 // indirect
	sigs.k8s.io/yaml v1.2.0 // indirect
)

replace github.com/atlassian/gostatsd => /repo

require (
	github.com/aws/aws-sdk-go-v2 v1.32.3 // indirect
	github.com/aws/aws-sdk-go-v2/config v1.26.2 // indirect
	github.com/aws/aws-sdk-go-v2/credentials v1.16.13 // indirect
	github.com/aws/aws-sdk-go-v2/feature/ec2/imds v1.14.10 // indirect
	github.com/aws/aws-sdk-go-v2/internal/configsources v1.3.22 // indirect
	github.com/aws/aws-sdk-go-v2/internal/endpoints/v2 v2.6.22 // indirect
	github.com/aws/aws-sdk-go-v2/internal/ini v1.7.2 // indirect
	github.com/aws/aws-sdk-go-v2/service/internal/accept-encoding v1.12.0 // indirect
	github.com/aws/aws-sdk-go-v2/service/internal/presigned-url v1.12.3 // indirect
	github.com/aws/aws-sdk-go-v2/service/sso v1.18.5 // indirect
	github.com/aws/aws-sdk-go-v2/service/ssooidc v1.21.5 // indirect
	github.com/aws/aws-sdk-go-v2/service/sts v1.26.6 // indirect
	github.com/aws/smithy-go v1.22.0 // indirect
	github.com/grpc-ecosystem/grpc-gateway/v2 v2.16.0 // indirect
	github.com/jmespath/go-jmespath v0.4.0 // indirect
	go.opentelemetry.io/proto/otlp v1.0.0
	go.uber.org/multierr v1.11.0 // indirect
	golang.org/x/exp v0.0.0-20230905200255-921286631fa9 // indirect
	golang.org/x/sync v0.11.0 // indirect
	google.golang.org/genproto/googleapis/api v0.0.0-20240227224415-6ceb2ff114de // indirect
	google.golang.org/genproto/googleapis/rpc v0.0.0-20240227224415-6ceb2ff114de // indirect
	google.golang.org/grpc v1.63.2 // indirect
)

require (
	github.com/alicebob/gopher-json v0.0.0-20200520072559-a9ecdc9d1d3a // indirect
	github.com/alicebob/miniredis/v2 v2.23.0 // indirect
	github.com/aws/aws-sdk-go-v2/service/ec2 v1.187.0 // indirect
	github.com/cespare/xxhash/v2 v2.2.0 // indirect
	github.com/dgryski/go-rendezvous v0.0.0-20200823014737-9f7001d12a5f // indirect
	github.com/go-redis/redis/v8 v8.11.5 // indirect
	github.com/jessevdk/go-flags v1.5.0 // indirect
	github.com/pmezard/go-difflib v1.0.1-0.20181226105442-5d4384ee4fb2 // indirect
	github.com/rogpeppe/go-internal v1.10.0 // indirect
	github.com/sagikazarmark/locafero v0.3.0 // indirect
	github.com/sourcegraph/conc v0.3.0 // indirect
	github.com/stretchr/testify v1.9.0 // indirect
	github.com/yuin/gopher-lua v0.0.0-20210529063254-f4c35e4016d9 // indirect
	stathat.com/c/consistent v1.0.0 // indirect
)
