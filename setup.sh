#!/bin/sh
# MANIFEST.setup_cmd: build the framework offline from files on disk only.
set -e
cd "$(dirname "$0")"
export GOFLAGS=-mod=mod GOPROXY=off GOTOOLCHAIN=auto
unset GOSUMDB || true
cp /repo/go.sum harness/go.sum
mkdir -p harness/bin evidence replays .work
( cd harness && go build -o bin/factgen ./cmd/factgen && for d in cmd/c*; do go build -tags verif -o bin/$(basename $d) ./$d; done )
mkdir -p lean/Gsd/Generated
harness/bin/factgen /repo > lean/Gsd/Generated/Facts.lean
( cd lean && lake build Gsd gsdmodel )
echo setup done
