#!/bin/sh
# MANIFEST.setup_cmd: build the framework offline from files on disk only.
set -e
cd "$(dirname "$0")"
export GOFLAGS=-mod=mod GOPROXY=off GOTOOLCHAIN=auto
unset GOSUMDB || true
REPO="${VERIF_REPO:-/repo}"
cp "$REPO/go.sum" harness/go.sum
mkdir -p harness/bin evidence replays .work
MODFILE=""
if [ "$REPO" != "/repo" ]; then mkdir -p harness/.gomod; sed "s#=> /repo#=> $REPO#" harness/go.mod > harness/.gomod/setup.mod; cp "$REPO/go.sum" harness/.gomod/setup.sum; MODFILE="-modfile=$PWD/harness/.gomod/setup.mod"; fi
( cd harness && go build $MODFILE -o bin/factgen ./cmd/factgen && for d in cmd/c*; do go build $MODFILE -tags verif -o bin/$(basename $d) ./$d; done )
mkdir -p lean/Gsd/Generated
harness/bin/factgen "$REPO" > lean/Gsd/Generated/Facts.lean
( cd lean && lake build Gsd gsdmodel )
echo setup done
