#!/bin/sh
# lib/harmeval.sh <Cxx> <dir>: run the property's check on every harmless rewrite h*.diff in <dir>
P="$1"; D="$2"
for f in $D/h*.diff; do
  echo "== $P $(basename $f)"
  /verif/lib/seedtest.sh "$P" "$f" 2>&1 | tail -2 | cut -c1-220
done
