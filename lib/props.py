"""Per-property configuration of ./check (which harness binary, sizes, shrinking, trusted base)."""

PROPS = {
    "C06": {
        "harness": "c06",
        "n_quick": 4000,
        "n_thorough": 200000,
        "shrink": "items",
        "trusted_base": [
            "routing hash (adler32 in gostatsd.Bucket) is a parameter of the model: the theorems hold for every routing function; its run-time values are an oracle column re-queried for consistency",
        ],
        "assumptions": [
            "a Go map holds each key once (hypothesis MMap.WF / NodupKeys of the theorems)",
            "values are compared through a canonical rendering (sorted set members; tags, source, timestamp, values verbatim)",
        ],
    },
}
