"""Per-property configuration of ./check: one JSON file per property in lib/props.d/<id>.json
(harness binary, case counts, shrinking mode, trusted base, assumptions, manifest texts)."""
import json, os
_D = os.path.join(os.path.dirname(os.path.abspath(__file__)), "props.d")
PROPS = {}
for _f in sorted(os.listdir(_D)):
    if _f.endswith(".json"):
        PROPS[_f[:-5]] = json.load(open(os.path.join(_D, _f)))
