#!/usr/bin/env python3
"""Regenerates MANIFEST.json from lib/manifest_data.py (kept valid at all times)."""
import json, os, sys
ROOT = os.path.dirname(os.path.dirname(os.path.abspath(__file__)))
sys.path.insert(0, os.path.join(ROOT, "lib"))
from manifest_data import CHECKS, NOT_APPLICABLE, HOOK_COMMITS, NOTES
props = [json.loads(l) for l in open(os.path.join(ROOT, "properties.jsonl"))]
ids = [p["id"] for p in props]
checks = []
for pid in ids:
    if pid in CHECKS:
        c = CHECKS[pid]
        checks.append({
            "property_id": pid,
            "quick_cmd": f"./check {pid} --tier quick",
            "thorough_cmd": f"./check {pid} --tier thorough",
            "evidence_file": f"/verif/evidence/{pid}.json",
            "replay_cmd_template": f"./check {pid} --replay {{path}}",
            "engine": "lean4-model+go-correspondence",
            "level_claimed": {"category": "proof", "text": c["text"], "design_ref": c.get("design_ref", f"DESIGN.md section 5, {pid}")},
            "level_note": c["note"],
            "technique": c["technique"],
        })
na = [{"property_id": pid, "reason": NOT_APPLICABLE.get(pid, "machinery not finished yet in this round; nothing is claimed")} for pid in ids if pid not in CHECKS]
m = {
    "version": 1,
    "setup_cmd": "./setup.sh",
    "hooks": {
        "guard": "verif",
        "enable": "go build -tags verif (the harness module replaces github.com/atlassian/gostatsd by /repo)",
        "baseline_off_cmd": "cd /repo && GOFLAGS=-mod=mod GOPROXY=off go test -vet=off -count=1 -timeout 25m ./...",
        "source_commits": HOOK_COMMITS,
        "add_only": True,
    },
    "engines": [{
        "name": "lean4-model+go-correspondence",
        "path": "/verif/check",
        "serves_properties": [c["property_id"] for c in checks],
        "kind_free_text": "machine-checked Lean 4 theorems about a hand-written executable model (lean/Gsd), tied to /repo on every run by a Go correspondence harness (harness/, build tag verif) that drives the real code and the compiled model on the same cases and evaluates the executable specification on the implementation's output; constants and operator shapes regenerated from the source by factgen",
    }],
    "checks": checks,
    "notes": NOTES,
    "not_applicable": na,
}
json.dump(m, open(os.path.join(ROOT, "MANIFEST.json"), "w"), indent=1)
print("MANIFEST.json:", len(checks), "checks,", len(na), "not claimed")
