import json, os
from props import PROPS
_ROOT = os.path.dirname(os.path.dirname(os.path.abspath(__file__)))
HOOK_COMMITS = json.load(open(os.path.join(_ROOT, "lib", "hooks.json")))
NOTES = "See DESIGN.md. Every check = Lean theorems (audited with #print axioms on every run) + correspondence run against /repo's working tree."
NOT_APPLICABLE = json.load(open(os.path.join(_ROOT, "lib", "not_applicable.json")))
CHECKS = {pid: p["manifest"] for pid, p in PROPS.items() if "manifest" in p and not p.get("disabled")}
