HOOK_COMMITS = []
NOTES = "See DESIGN.md. Every check = Lean theorems (audited with #print axioms) + correspondence run against /repo's working tree."
NOT_APPLICABLE = {}
CHECKS = {
    "C06": {
        "text": "Lean theorems C06_partition / C06_exactly_one_shard / C06_route_deterministic / C06_dispatch prove, for every routing function, shard count and batch, that the model of MetricMap.Split is the partition induced by the routing function; the correspondence run compares the real Split piece by piece with the compiled model on generated batches and evaluates the partition specification on the real output.",
        "note": "Trusted: Lean kernel; the hand-written model's faithfulness is as strong as the correspondence run (generated maps, shard counts 1..64 and 4096); adler32 routing is an oracle (any function of (key, n) satisfies the property); DispatchMetricMap's worker indexing is modelled (C06_dispatch) and exercised through C01.",
        "technique": "Lean 4 proof over an association-list model + differential correspondence with the real Split",
    },
}
