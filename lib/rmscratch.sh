#!/bin/sh
# lib/rmscratch.sh <name>: remove a scratch made by mkscratch.sh
N="$1"; D=/tmp/ag/$N
git -C /repo worktree remove --force "$D/repo" 2>/dev/null || true
rm -rf "$D"; git -C /repo worktree prune
