#!/bin/sh
# lib/integrate.sh <agent> <Cxx> [<Cxx>...]: copy an agent's deliverables from /tmp/ag/<agent>/verif into /verif
set -e
AG="$1"; shift
A=/tmp/ag/$AG/verif
cd /verif
# shared/new model + lemma + internal files: only files that do not exist yet here
rsync -a --ignore-existing "$A/lean/Gsd/Model/" lean/Gsd/Model/
rsync -a --ignore-existing "$A/lean/Gsd/Proofs/Lemmas/" lean/Gsd/Proofs/Lemmas/
rsync -a --ignore-existing "$A/lean/Gsd/Driver/" lean/Gsd/Driver/
rsync -a --ignore-existing "$A/harness/internal/" harness/internal/
mkdir -p handoff
for P in "$@"; do
  p=$(echo "$P" | tr 'A-Z' 'a-z')
  cp "$A/lean/Gsd/Proofs/$P.lean" lean/Gsd/Proofs/
  cp "$A/lean/Gsd/Driver/$P.lean" lean/Gsd/Driver/
  rm -rf "harness/cmd/$p"; cp -r "$A/harness/cmd/$p" harness/cmd/
  cp "$A/lib/props.d/$P.json" lib/props.d/
  [ -d "$A/corpus/$P" ] && { mkdir -p corpus/$P; cp -r "$A/corpus/$P/." corpus/$P/; }
  cp "$A"/handoff/$P* handoff/ 2>/dev/null || true
done
python3 lib/genlean.py
python3 lib/mkmanifest.py
echo "integrated $AG: $*; files differing from agent copy among shared ones:"
for f in $(cd "$A/lean/Gsd" && find Model Proofs/Lemmas -name '*.lean'); do cmp -s "$A/lean/Gsd/$f" "lean/Gsd/$f" || echo "  DIFF lean/Gsd/$f"; done
