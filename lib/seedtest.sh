#!/bin/sh
# lib/seedtest.sh <Cxx> <patch> [tier]: apply a seeded change to /repo, run the property's check, undo it.
# Prints the check's last lines; exit status = the check's.
P="$1"; PATCH="$2"; TIER="${3:-quick}"
cd /repo || exit 2
if [ -n "$(git status --porcelain)" ]; then echo "/repo not clean" >&2; exit 2; fi
git apply "$PATCH" || { echo "patch does not apply" >&2; exit 2; }
cp /verif/evidence/$P.json /tmp/seedtest.ev 2>/dev/null
cd /verif && ./check "$P" --tier "$TIER" > /tmp/seedtest.out 2>&1; RC=$?
cp /tmp/seedtest.ev /verif/evidence/$P.json 2>/dev/null
git -C /repo checkout -- . ; git -C /repo clean -fdq
tail -4 /tmp/seedtest.out
exit $RC
