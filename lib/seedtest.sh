#!/bin/sh
# lib/seedtest.sh <Cxx> <patch> [tier]: apply a seeded change to /repo, run the property's check, undo it.
# Prints the check's last lines; exit status = the check's.
P="$1"; PATCH="$2"; TIER="${3:-quick}"
cd /repo || exit 2
if [ -n "$(git status --porcelain)" ]; then echo "/repo not clean" >&2; exit 2; fi
git apply "$PATCH" || { echo "patch does not apply" >&2; exit 2; }
cd /verif && ./check "$P" --tier "$TIER" > /tmp/seedtest.out 2>&1; RC=$?
git -C /repo checkout -- . ; git -C /repo clean -fdq
tail -4 /tmp/seedtest.out
exit $RC
