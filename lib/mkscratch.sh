#!/bin/sh
# lib/mkscratch.sh <name>: scratch copy of /verif (with build outputs) and a worktree of /repo under /tmp/ag/<name>
set -e
N="$1"; D=/tmp/ag/$N
rm -rf "$D/verif"; mkdir -p "$D"
if [ -d "$D/repo" ]; then git -C /repo worktree remove --force "$D/repo" || rm -rf "$D/repo"; fi
git -C /repo worktree prune
git -C /repo worktree add --detach "$D/repo" HEAD >/dev/null 2>&1
rsync -a --exclude .git --exclude .work --exclude replays --exclude .locks /verif/ "$D/verif/"
mkdir -p "$D/verif/handoff"
( cd "$D/verif/harness" && sed -i "s#=> /repo#=> $D/repo#" go.mod )
true
echo "$D"
