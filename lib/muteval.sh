#!/bin/sh
# lib/muteval.sh <Cxx> <mutdir>: confirm both changes of a mutation agent (scratch worktree) and run the property's quick
# check on each in a private scratch copy (parallel-safe).  Demo package dir = first comment line of the demo file.
P="$1"; M="$2"
for k in 1 2; do
  [ -f "$M/m$k.diff" ] || continue
  PKG=$(head -1 "$M/demo_${k}_test.go" | python3 -c "
import re,sys
l=sys.stdin.readline().strip().lstrip('/').strip()
c=[t.strip('\`\"\'(),:') for t in l.split()]
c=[t for t in c if t=='.' or re.fullmatch(r'(cmd|pkg|internal)/[A-Za-z0-9_./-]+',t.rstrip('/'))]
print((c[0].rstrip('/') if c else '.'))")
  echo "== $P $M m$k ($PKG)"
  /verif/lib/confirm_seed.sh "$M" "$k" "$PKG" 2>&1 | grep -e '--- pristine' -e '--- build' -e '--- existing' -e '--- patched' | cut -c1-140
done
/verif/lib/pareval.sh "$P" "$M" "m*.diff"
