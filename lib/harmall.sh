#!/bin/sh
# lib/harmall.sh [J]: every harmless rewrite under /verif/harmless against its property's quick check, J properties at a time
# (each in a private scratch copy: lib/pareval.sh).  Prints one line per rewrite; any "rc=1" is a false alarm.
J="${1:-5}"
ls -d /verif/harmless/C* | xargs -n1 basename | xargs -P "$J" -I{} sh -c '/verif/lib/pareval.sh {} /verif/harmless/{} "h*.diff" 2>&1' | sort
