#!/bin/sh
# lib/pareval.sh <Cxx> <dir> <glob> : run the property's quick check on each patch <dir>/<glob> in a private
# scratch copy of /verif and worktree of /repo (VERIF_REPO), so that several properties can be evaluated in parallel.
# Prints one summary line per patch: "<Cxx> <patch> rc=<rc> <last line>".
P="$1"; D="$2"; G="${3:-h*.diff}"
S=$(/verif/lib/mkscratch.sh "pe_${P}_$$" | tail -1)
export VERIF_REPO="$S/repo"
cd "$S/verif" || exit 2
for f in $D/$G; do
  git -C "$S/repo" apply "$f" || { echo "$P ${f#$D/} APPLY-FAILED"; continue; }
  ./check "$P" --tier quick > "$S/out.txt" 2>&1; RC=$?
  echo "$P ${f#$D/} rc=$RC $(grep -a 'VIOLATION\|theorems' "$S/out.txt" | tail -2 | tr '\n' ' ' | cut -c1-260)"
  git -C "$S/repo" checkout -- . ; git -C "$S/repo" clean -fdq
done
/verif/lib/rmscratch.sh "pe_${P}_$$" >/dev/null 2>&1
