#!/bin/sh
# lib/confirm_seed.sh <mutdir> <k> <pkgdir> [extra test pkgs...]: confirm a seeded change in a scratch worktree:
#  (1) pristine: demo passes; (2) patched: builds, existing tests of the touched packages pass, demo fails.
M="$1"; K="$2"; PKG="$3"; shift 3
export GOFLAGS=-mod=mod GOPROXY=off
W=/tmp/confirm_$$
git -C /repo worktree add --detach $W HEAD >/dev/null 2>&1 || exit 2
cd $W
cp "$M/demo_${K}_test.go" "$PKG/zz_demo_${K}_test.go"
R1=$(go test -vet=off -count=1 -run 'Demo|Seed|Mut|Verif|C[0-9]' "./$PKG/" 2>&1 | tail -3)
rm "$PKG/zz_demo_${K}_test.go"
git apply "$M/m${K}.diff" || { echo "APPLY FAILED"; cd /; git -C /repo worktree remove --force $W; exit 2; }
B=$(go build ./... 2>&1 | tail -3)
T=$(go test -vet=off -count=1 . ./$PKG/... "$@" 2>&1 | grep -v '^ok\|no test files' | tail -5)
cp "$M/demo_${K}_test.go" "$PKG/zz_demo_${K}_test.go"
R2=$(go test -vet=off -count=1 -run 'Demo|Seed|Mut|Verif|C[0-9]' "./$PKG/" 2>&1 | tail -3)
cd /; git -C /repo worktree remove --force $W; git -C /repo worktree prune
echo "--- pristine demo: $R1"; echo "--- build: ${B:-ok}"; echo "--- existing tests (failures only): ${T:-all ok}"; echo "--- patched demo: $R2"
