#!/usr/bin/env python3
"""Regenerates lean/Gsd.lean (imports every module present) and lean/Main.lean (dispatch to every
Gsd/Driver/Cxx.lean present).  Run after adding a property's files."""
import os, re
ROOT = os.path.dirname(os.path.dirname(os.path.abspath(__file__)))
LEAN = os.path.join(ROOT, "lean")
mods = []
for d, _, fs in os.walk(os.path.join(LEAN, "Gsd")):
    for f in sorted(fs):
        if f.endswith(".lean"):
            mods.append(os.path.relpath(os.path.join(d, f), LEAN)[:-5].replace("/", "."))
mods.sort()
open(os.path.join(LEAN, "Gsd.lean"), "w").write("".join(f"import {m}\n" for m in mods))
drivers = sorted(m.split(".")[-1] for m in mods if re.fullmatch(r"Gsd\.Driver\.C\d+", m))
with open(os.path.join(LEAN, "Main.lean"), "w") as f:
    for d in drivers:
        f.write(f"import Gsd.Driver.{d}\n")
    f.write("\ndef main (args : List String) : IO UInt32 := do\n  match args with\n")
    for d in drivers:
        f.write(f'  | "{d}" :: rest => Gsd.Driver.{d}.main rest\n')
    f.write('  | _ => IO.eprintln "usage: gsdmodel <Cxx> (model|spec)"; return 2\n')
print("Gsd.lean:", len(mods), "modules; Main.lean:", drivers)
