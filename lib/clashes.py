#!/usr/bin/env python3
"""lists declarations with the same fully qualified name in two different files of lean/Gsd"""
import re,os,collections
os.chdir('/verif/lean')
names=collections.defaultdict(list)
for d,_,fs in os.walk('Gsd'):
    for f in fs:
        if not f.endswith('.lean'): continue
        p=os.path.join(d,f); src=open(p).read()
        stack=[]
        for line in src.split('\n'):
            m=re.match(r'^\s*namespace\s+([\w.\']+)',line)
            if m: stack.append(('n',m.group(1))); continue
            m=re.match(r'^\s*section\b\s*([\w.\']*)',line)
            if m: stack.append(('s',m.group(1))); continue
            m=re.match(r'^\s*end\b\s*([\w.\']*)\s*$',line)
            if m and stack: stack.pop(); continue
            m=re.match(r'^\s*(?:@\[[^\]]*\]\s*)?(?:noncomputable\s+)?(?:protected\s+)?(def|theorem|structure|inductive|abbrev|class|lemma)\s+([\w.\']+)',line)
            if m and not line.strip().startswith('private'):
                full='.'.join([n for k,n in stack if k=='n']+[m.group(2)])
                names[full].append(p)
for k,v in names.items():
    if len(set(v))>1: print(k, sorted(set(v)))
