#!/bin/sh
# lib/mkmut.sh <name>: a scratch git worktree of /repo HEAD under /tmp/mut/<name>/repo for a mutation-writing agent
set -e
D=/tmp/mut/$1
mkdir -p "$D"
[ -d "$D/repo" ] && { git -C /repo worktree remove --force "$D/repo" || rm -rf "$D/repo"; }
git -C /repo worktree prune
git -C /repo worktree add --detach "$D/repo" HEAD >/dev/null 2>&1
echo "$D/repo"
