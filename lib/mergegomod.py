#!/usr/bin/env python3
"""lib/mergegomod.py <agent go.mod>: add the agent's require lines that /verif/harness/go.mod lacks"""
import re, sys
mine = open('/verif/harness/go.mod').read()
theirs = open(sys.argv[1]).read()
have = set(re.findall(r'^\s*([\w./\-]+)\s+v[^\s]+', mine, flags=re.M))
add = []
for mod, ver, rest in re.findall(r'^\s*([\w./\-]+)\s+(v[^\s]+)(.*)$', theirs, flags=re.M):
    if mod not in have and mod != 'github.com/atlassian/gostatsd':
        add.append(f"\t{mod} {ver} // indirect")
        have.add(mod)
if add:
    mine = mine.rstrip() + "\n\nrequire (\n" + "\n".join(add) + "\n)\n"
    open('/verif/harness/go.mod', 'w').write(mine)
print("added", len(add))
