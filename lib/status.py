#!/usr/bin/env python3
"""Prints the implementation-status tables for DESIGN.md section 8 from what is on disk."""
import json, os, re, glob
ROOT = os.path.dirname(os.path.dirname(os.path.abspath(__file__)))
props = [json.loads(l) for l in open(os.path.join(ROOT, "properties.jsonl"))]
man = json.load(open(os.path.join(ROOT, "MANIFEST.json")))
claimed = {c["property_id"] for c in man["checks"]}
print("| id | claimed | theorems (audited) | model modules | last evidence: cases / nontrivial / disagreements |")
print("|---|---|---|---|---|")
for p in props:
    pid = p["id"]
    ev = os.path.join(ROOT, "evidence", pid + ".json")
    thm = mods = cov = "-"
    pf = os.path.join(ROOT, "lean", "Gsd", "Proofs", pid + ".lean")
    if os.path.exists(pf):
        src = open(pf).read()
        mods = ", ".join(sorted(set(re.findall(r"^import Gsd\.(?:Model|Proofs\.Lemmas)\.(\w+)", src, flags=re.M))))
    if os.path.exists(ev):
        e = json.load(open(ev))
        c = e["coverage"]
        thm = f"{c.get('discharged')}/{c.get('obligations')}"
        cov = f"{c.get('evaluations')} / {c.get('distinct_nontrivial')} / {c.get('model_impl_disagreements')}"
    print(f"| {pid} | {'yes' if pid in claimed else 'no'} | {thm} | {mods} | {cov} |")
print()
print("| seeded change | property | needs | detected by |")
print("|---|---|---|---|")
for m in sorted(glob.glob(os.path.join(ROOT, "seeded", "*", "meta.json"))):
    j = json.load(open(m))
    print(f"| {j['id']} | {j['property']} | {j['needs_to_manifest']} | {j['detected_by']} |")
