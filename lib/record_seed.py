#!/usr/bin/env python3
"""lib/record_seed.py <seed-id> <mutdir> <k> <property> <demo-pkgdir> <needs> <detected-by>  — store a confirmed seeded change"""
import json, os, shutil, sys
sid, mutdir, k, prop, pkg, needs, detected = sys.argv[1:8]
d = os.path.join("/verif/seeded", sid)
os.makedirs(d, exist_ok=True)
shutil.copy(os.path.join(mutdir, f"m{k}.diff"), os.path.join(d, "patch.diff"))
for ext in ("_test.go", ".go"):
    src = os.path.join(mutdir, f"demo_{k}{ext}")
    if os.path.exists(src):
        shutil.copy(src, os.path.join(d, "demo" + ext))
notes = os.path.join(mutdir, f"notes_{k}.md")
if os.path.exists(notes):
    shutil.copy(notes, os.path.join(d, "notes.md"))
meta = {
    "id": sid, "property": prop, "demo_package_dir": pkg,
    "needs_to_manifest": needs,
    "confirmed": "lib/confirm_seed.sh: pristine worktree demo passes; with patch.diff applied `go build ./...` ok, existing tests of the touched packages pass, demo fails",
    "checks_run": f"lib/seedtest.sh {prop} seeded/{sid}/patch.diff (git -C /repo apply; ./check {prop}; git -C /repo checkout -- .)",
    "detected_by": detected,
}
json.dump(meta, open(os.path.join(d, "meta.json"), "w"), indent=1)
print("recorded", d)
