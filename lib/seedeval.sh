#!/bin/sh
# lib/seedeval.sh <Cxx> <mutdir> <k> <pkgdir>: confirm + run the property's check on a seeded change (summary lines)
P="$1"; M="$2"; K="$3"; PKG="$4"
echo "== $P $M m$K"
/verif/lib/confirm_seed.sh "$M" "$K" "$PKG" 2>&1 | grep -e '--- pristine' -e '--- build' -e '--- existing' -e '--- patched' | cut -c1-140
/verif/lib/seedtest.sh "$P" "$M/m$K.diff" 2>&1 | tail -2 | cut -c1-200
