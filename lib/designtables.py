#!/usr/bin/env python3
"""lib/designtables.py: rewrites the generated tables of DESIGN.md sections 8.5 (seeded breaking changes) and
8.6 (harmless rewrites) between the markers <!-- BEGIN:seeded --> … <!-- END:seeded --> and
<!-- BEGIN:harmless --> … <!-- END:harmless --> from seeded/*/meta.json and harmless/*/."""
import glob, json, os, re
ROOT = os.path.dirname(os.path.dirname(os.path.abspath(__file__)))

def seeded():
    rows = ["| change | what it needs to manifest | outcome with the property's check |", "|---|---|---|"]
    n = missed = 0
    for m in sorted(glob.glob(os.path.join(ROOT, "seeded", "*", "meta.json"))):
        j = json.load(open(m))
        n += 1
        if j["detected_by"].startswith(("missed", "first")):
            missed += 1
        rows.append(f"| {j['id']} | {j['needs_to_manifest']} | {j['detected_by']} |")
    head = (f"{n} confirmed changes; {n - missed} were reported by the property's check as it stood when the change arrived, "
            f"{missed} were missed or only half caught at first (entries beginning \"missed\" / \"first\") and led to the strengthening "
            f"named in the entry, after which all {n} are reported (`lib/seedtest.sh <Cxx> seeded/<id>/patch.diff`).\n")
    return head + "\n" + "\n".join(rows)

def first_para(path):
    txt = open(path).read().strip().split("\n")
    out = []
    for l in txt:
        if l.startswith("#"):
            if out: break
            out.append(l.lstrip("# ").strip()); continue
        if not l.strip() and len(out) > 1: break
        if l.strip(): out.append(l.strip())
        if sum(map(len, out)) > 260: break
    s = " ".join(out)
    return (s[:300] + "…") if len(s) > 300 else s

def harmless():
    notes = json.load(open(os.path.join(ROOT, "harmless", "results.json")))
    rows = ["| rewrite | what it rewrites | outcome |", "|---|---|---|"]
    n = 0
    for d in sorted(glob.glob(os.path.join(ROOT, "harmless", "C*"))):
        p = os.path.basename(d)
        for f in sorted(glob.glob(os.path.join(d, "h*.diff"))):
            k = re.search(r"h(\d+)\.diff", f).group(1)
            n += 1
            files = sorted(set(re.findall(r"^\+\+\+ b/(\S+)", open(f).read(), flags=re.M)))
            rows.append(f"| {p}h-{k} | {', '.join(files)} | {notes.get(f'{p}h-{k}', 'silent (exit 0, no VIOLATION line)')} |")
    return f"{n} rewrites.\n\n" + "\n".join(rows)

p = os.path.join(ROOT, "DESIGN.md")
s = open(p).read()
for name, fn in (("seeded", seeded), ("harmless", harmless)):
    s = re.sub(rf"(<!-- BEGIN:{name} -->\n).*?(<!-- END:{name} -->)", lambda m: m.group(1) + fn() + "\n" + m.group(2), s, flags=re.S)
open(p, "w").write(s)
print("DESIGN.md tables rewritten")
