#!/bin/sh
# lib/seedall.sh [J]: every seeded breaking change under /verif/seeded against its property's quick check, J properties
# at a time (private scratch copies: lib/pareval.sh).  One line per change; any "rc=0" is a miss.
J="${1:-5}"
ls -d /verif/seeded/C*-* | xargs -n1 basename | sed 's/-.*//' | sort -u | xargs -P "$J" -I{} sh -c '/verif/lib/pareval.sh {} /verif/seeded "{}-*/patch.diff" 2>&1' | sort
