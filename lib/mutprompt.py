#!/usr/bin/env python3
"""lib/mutprompt.py <Cxx> <name> [hint...] : create /tmp/mut/<name>/{repo,property.txt} and print the agent prompt"""
import json, subprocess, sys
pid, name = sys.argv[1], sys.argv[2]
hint = " ".join(sys.argv[3:])
subprocess.run(["/verif/lib/mkmut.sh", name], check=True, stdout=subprocess.DEVNULL)
p = [json.loads(l) for l in open("/verif/properties.jsonl") if json.loads(l)["id"] == pid][0]
open(f"/tmp/mut/{name}/property.txt", "w").write(
    f"{p['id']}: {p['title']}\n\nStatement: {p['statement']}\n\nQuantified over: {p['quantifier']['text']}\n\nAnchored in: {', '.join(p['anchors']['files'])}\n")
pk = " ".join(sorted({"./" + f.rsplit("/", 1)[0] + "/..." if "/" in f else "." for f in p["anchors"]["files"] if f.endswith(".go")}))
print(f"""You are helping to evaluate a verification tool by writing realistic *breaking changes* to a Go project. The project is atlassian/gostatsd (a statsd server). You have your own git worktree of it at /tmp/mut/{name}/repo — work ONLY there (never touch /repo or /verif, and do not read anything under /verif). The property you must break is in /tmp/mut/{name}/property.txt (read it first), then read the anchored source files.

Go environment (needed in every shell call; offline sandbox, nothing can be downloaded): `export GOFLAGS=-mod=mod GOPROXY=off` and do NOT set GOTOOLCHAIN or GOSUMDB. Build: `cd /tmp/mut/{name}/repo && go build ./...`. Tests: `go test -vet=off -count=1 {pk}` (and any other package you touch; `pkg/backends/cloudwatch` tests fail in this sandbox even on the pristine tree — ignore those).

Task: produce TWO different, independent source changes (each as a separate patch against the pristine worktree) that each make the property FALSE while the project still compiles and its existing test suite (at least all tests of the packages you touch plus the ones listed above) still passes. The changes must be *subtle*: they should need something specific to manifest — a particular interleaving, a fault at a particular point, a multi-step sequence of operations, an unusual input or configuration, or two cooperating sites that each look fine alone — NOT something ordinary use would expose at once. They should look like plausible refactoring / optimisation / cleanup mistakes a maintainer could make. {hint} Do not change test files, go.mod, or build tags (files with `//go:build verif` are test scaffolding: leave them alone and do not rely on them); do not add randomness or wall-clock dependence.

For each change k in {{1,2}} deliver in /tmp/mut/{name}/:
  - mk.diff — `git diff` of the change against the pristine worktree (must apply with `git apply`);
  - demo_k_test.go — a Go test file (first comment line: the package directory it must be copied into; test function name must start with TestDemo) that FAILS with the change applied and PASSES without it, demonstrating the property violation through the project's API, deterministically (no flaky timing);
  - notes_k.md — what the change breaks, exactly what is needed for it to manifest, and the commands you ran (build, tests with the change, demo with and without the change) with outcomes.
Verify all of that yourself: (1) pristine tree: demo passes; (2) with mk.diff applied: `go build ./...` ok, existing tests pass, demo fails. Leave the worktree pristine at the end (`git checkout -- . && git clean -fd`). Reply with a short summary of the two changes.""")
