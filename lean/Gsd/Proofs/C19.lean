import Gsd.Proofs.Lemmas.Events
/-!
# C19 — every event is delivered once to every backend with its fields intact

Property theorems only (helpers: `Proofs/Lemmas/Events.lean`, model: `Model/Events.lean`).

Part A: the composition of the per-stage event functions, for **every** event line of the grammar
(any list of fields, repeated fields included), every sender address, receive time, static tag list and
lookup outcome.

Part B: the fan-out of `BackendHandler.DispatchEvent` (and of the forwarder's `DispatchEvent`, the
instance `nb = 1`, unbounded semaphore) as a transition system; every statement is an invariant over
**all** action sequences (`run (init nb cap det) acts = some s`), i.e. all interleavings of any number
of senders, lookups, deliveries and a waiter, for every number of backends `nb ≥ 0` and every semaphore
capacity.  `det = true` says the delivery goroutines use a context detached from the caller's (true
for `BackendHandler`; false for the forwarder of the pinned tree — defect D10, witness below).
-/
set_option linter.unusedSimpArgs false
set_option linter.unusedVariables false
namespace Gsd
open Gsd.Events

/-! ## Part A — field fidelity -/

/-- **C19_fields.**  A network-borne event line comes out of parser → cloud stage → tag stage with
title and text as sent; the declared time, or the receive time when none (or 0) was declared; the last
declared aggregation key and source type; low priority iff a `p:low` field is present; the last
non-info alert type; as tags exactly (no repetition) the line's tags, the static tags and — after a
successful lookup — the instance's tags; as source the instance id after a successful lookup, else the
sender address (a `h:` field never survives). -/
theorem C19_fields (now : Int) (ip : Bytes) (static : List Bytes) (look : Option Instance) (l : EventLine) :
    let out := pipelineUDP now ip static look l
    out.title = l.title ∧ out.text = l.text ∧
    out.date = (match lastOf dateOf l.attrs with
                | some d => if d = 0 then now else d
                | none => now) ∧
    out.key = (lastOf keyOf l.attrs).getD [] ∧
    out.srcType = (lastOf srcTypeOf l.attrs).getD [] ∧
    out.prio = (if Attr.prio 1 ∈ l.attrs then 1 else 0) ∧
    out.alert = (lastOf alertOf l.attrs).getD 0 ∧
    out.tags.Nodup ∧
    (∀ t, t ∈ out.tags ↔ t ∈ lineTags l.attrs ∨ t ∈ lookTags look ∨ t ∈ static) ∧
    out.source = (match look with | some i => i.id | none => ip) := by
  have htitle : (lexedOf l).title = l.title := by
    unfold lexedOf; rw [foldl_keep (·.title)]; intro e a; cases a <;> simp [applyAttr] <;> split <;> rfl
  have htext : (lexedOf l).text = l.text := by
    unfold lexedOf; rw [foldl_keep (·.text)]; intro e a; cases a <;> simp [applyAttr] <;> split <;> rfl
  have hdate : (lexedOf l).date = (lastOf dateOf l.attrs).getD 0 := by
    unfold lexedOf; rw [foldl_last (·.date) dateOf]
    intro e a; cases a <;> simp [applyAttr, dateOf] <;> split <;> rfl
  have hkey : (lexedOf l).key = (lastOf keyOf l.attrs).getD [] := by
    unfold lexedOf; rw [foldl_last (·.key) keyOf]
    intro e a; cases a <;> simp [applyAttr, keyOf] <;> split <;> rfl
  have hsrc : (lexedOf l).srcType = (lastOf srcTypeOf l.attrs).getD [] := by
    unfold lexedOf; rw [foldl_last (·.srcType) srcTypeOf]
    intro e a; cases a <;> simp [applyAttr, srcTypeOf] <;> split <;> rfl
  have hprio : (lexedOf l).prio = if Attr.prio 1 ∈ l.attrs then 1 else 0 := by
    unfold lexedOf; rw [foldl_prio]
  have halert : (lexedOf l).alert = (lastOf alertOf l.attrs).getD 0 := by
    unfold lexedOf; rw [foldl_last (·.alert) alertOf]
    intro e a
    cases a with
    | alert x => by_cases hx : x = 0 <;> simp [applyAttr, alertOf, hx]
    | prio p => simp only [applyAttr, alertOf]; split <;> rfl
    | _ => simp [applyAttr, alertOf]
  have htags : (lexedOf l).tags = lineTags l.attrs := by
    unfold lexedOf; rw [foldl_tags]; rfl
  intro out
  cases look with
  | none =>
    refine ⟨htitle, htext, ?_, hkey, hsrc, hprio, halert, nodup_uniqueTags _ _ (nodup_static static), ?_, rfl⟩
    · show (if (lexedOf l).date = 0 then now else (lexedOf l).date) = _
      rw [hdate]; cases lastOf dateOf l.attrs <;> simp
    · intro t
      show t ∈ uniqueTags (lexedOf l).tags (uniqueTags static []) ↔ _
      rw [mem_uniqueTags, mem_static, htags]; simp [lookTags]
  | some i =>
    refine ⟨htitle, htext, ?_, hkey, hsrc, hprio, halert, nodup_uniqueTags _ _ (nodup_static static), ?_, rfl⟩
    · show (if (lexedOf l).date = 0 then now else (lexedOf l).date) = _
      rw [hdate]; cases lastOf dateOf l.attrs <;> simp
    · intro t
      show t ∈ uniqueTags ((lexedOf l).tags ++ i.tags) (uniqueTags static []) ↔ _
      rw [mem_uniqueTags, mem_static, htags]; simp [lookTags, or_assoc]

/-- non-vacuity / concrete reading of `C19_fields`: repeated fields, an empty tag, `p:normal` after
`p:low`, `d:0`, a duplicate of a static tag, a successful lookup. -/
example :
    pipelineUDP 1700000000 [49] [[97], [122], [97]] (some ⟨[105], [[99], [116]]⟩)
      { title := [84], text := [10],
        attrs := [.date 5, .host [104], .tags [[116], [], [97]], .prio 1, .prio 0, .alert 2, .alert 0, .date 0, .key [107], .other] }
    = { title := [84], text := [10], date := 1700000000, key := [107], srcType := [],
        tags := [[116], [97], [99], [122]], source := [105], prio := 1, alert := 2 } := by decide

/-- **C19_fields_http.**  The same for an event received on `/v2/event`: the message's fields are kept
(enum values outside the known range become normal / info; the time is kept as sent — no receive-time
default on this path), tags and source as above with the message's hostname as sender. -/
theorem C19_fields_http (static : List Bytes) (look : Option Instance) (m : PBEvent) :
    let out := pipelineHTTP static look m
    out.title = m.title ∧ out.text = m.text ∧ out.date = m.date ∧ out.key = m.key ∧ out.srcType = m.srcType ∧
    out.prio = (if m.prio = 1 then 1 else 0) ∧
    out.alert = (if m.typ = 1 then 1 else if m.typ = 2 then 2 else if m.typ = 3 then 3 else 0) ∧
    out.tags.Nodup ∧
    (∀ t, t ∈ out.tags ↔ t ∈ m.tags ∨ t ∈ lookTags look ∨ t ∈ static) ∧
    out.source = (match look with | some i => i.id | none => m.hostname) := by
  intro out
  cases look with
  | none =>
    refine ⟨rfl, rfl, rfl, rfl, rfl, rfl, rfl, nodup_uniqueTags _ _ (nodup_static static), ?_, rfl⟩
    intro t
    show t ∈ uniqueTags m.tags (uniqueTags static []) ↔ _
    rw [mem_uniqueTags, mem_static]; simp [lookTags]
  | some i =>
    refine ⟨rfl, rfl, rfl, rfl, rfl, rfl, rfl, nodup_uniqueTags _ _ (nodup_static static), ?_, rfl⟩
    intro t
    show t ∈ uniqueTags (m.tags ++ i.tags) (uniqueTags static []) ↔ _
    rw [mem_uniqueTags, mem_static]; simp [lookTags, or_assoc]

/-- **C19_forwarded.**  Forwarder mode: what the upstream server decodes from the forwarder's message is
the event itself, whenever priority and alert type are in range — which they are after either pipeline
(`C19_forwarded_http`, `C19_forwarded_udp`). -/
theorem C19_forwarded (e : Event) (hp : e.prio ≤ 1) (ha : e.alert ≤ 3) : forwarded e = e := by
  obtain ⟨t, x, d, k, s, tg, so, p, a⟩ := e
  simp only at hp ha
  have hp' : p = 0 ∨ p = 1 := by omega
  have ha' : a = 0 ∨ a = 1 ∨ a = 2 ∨ a = 3 := by omega
  rcases hp' with rfl | rfl <;> rcases ha' with rfl | rfl | rfl | rfl <;> rfl

theorem C19_forwarded_http (static : List Bytes) (look : Option Instance) (m : PBEvent) :
    forwarded (pipelineHTTP static look m) = pipelineHTTP static look m := by
  obtain ⟨_, _, _, _, _, hp, ha, _⟩ := C19_fields_http static look m
  apply C19_forwarded
  · rw [hp]; split <;> omega
  · rw [ha]
    split
    · omega
    · split
      · omega
      · split <;> omega

theorem C19_forwarded_udp (now : Int) (ip : Bytes) (static : List Bytes) (look : Option Instance) (l : EventLine)
    (hl : ∀ a, Attr.alert a ∈ l.attrs → a ≤ 3) :
    forwarded (pipelineUDP now ip static look l) = pipelineUDP now ip static look l := by
  obtain ⟨_, _, _, _, _, hp, ha, _⟩ := C19_fields now ip static look l
  apply C19_forwarded
  · rw [hp]; split <;> omega
  · rw [ha]
    have : ∀ (as : List Attr), (∀ a, Attr.alert a ∈ as → a ≤ 3) → (lastOf alertOf as).getD 0 ≤ 3 := by
      intro as
      induction as with
      | nil => intro _; simp [lastOf]
      | cons x t ih =>
        intro h
        have iht := ih (fun a ha => h a (List.mem_cons_of_mem _ ha))
        simp only [lastOf]
        cases hlt : lastOf alertOf t with
        | some v => simpa [hlt] using iht
        | none =>
          cases x with
          | alert a =>
            have := h a (by simp)
            by_cases ha0 : a = 0 <;> simp [alertOf, ha0]
            exact this
          | _ => simp [alertOf]
    exact this l.attrs hl

/-! ## Part B — fan-out, wait groups, semaphore -/

/-- **C19_wg_inv.**  In every reachable state `eventWg` is the number of (event, backend) pairs that the
code still counts — the backends not yet visited of every event inside `DispatchEvent` plus every
spawned goroutine that has not called `Done`; the cancel path removes exactly the unvisited ones —,
the cloud stage's `wg` is the number of parked events not yet handed on, and the semaphore holds one
token per goroutine between its creation and its deferred receive, never more than its capacity. -/
theorem C19_wg_inv {nb cap : Nat} {det : Bool} {s : St} (h : Reachable nb cap det s) :
    s.wg = total (pending nb) s.evs ∧ s.cwg = total parkedShare s.evs ∧
    s.sem = total held s.evs ∧ 0 ≤ s.sem ∧ s.sem ≤ cap := by
  obtain ⟨inv, hnb, hcap, _⟩ := reachable_inv h
  refine ⟨by rw [← hnb]; exact inv.wg, inv.cwg, inv.sem, by rw [inv.sem]; omega, by rw [← hcap]; exact inv.cap⟩

/-- **C19_fanout_once.**  In every reachable state of every schedule, `SendEvent(e, b)` has been called
at most once for every pair; never for a backend index that does not exist or an event that was not
accepted; and — with detached delivery contexts — exactly once, and finished, for every backend the
dispatch loop has passed (`b < cursor`) as soon as the event's share of the wait group is 0.  The loop
passes all `nb` backends unless it took the cancel path (`C19_fanout_complete`). -/
theorem C19_fanout_once {nb cap : Nat} {det : Bool} {s : St} (h : Reachable nb cap det s) (e b : Nat) :
    countPair (e, b) s.dl ≤ 1 ∧
    (nb ≤ b → countPair (e, b) s.dl = 0) ∧
    (s.evs[e]? = none → countPair (e, b) s.dl = 0) ∧
    (det = true → ∀ ev, s.evs[e]? = some ev → b < ev.cursor → pending nb ev = 0 →
        countPair (e, b) s.dl = 1 ∧ ev.bs[b]? = some .done) := by
  obtain ⟨inv, hnb, hcap, hdet⟩ := reachable_inv h
  have hdl := inv.dl e b
  refine ⟨?_, ?_, ?_, ?_⟩
  · rw [hdl]
    cases s.evs[e]? with
    | none => simp
    | some ev => simp only [dflag]; cases ev.bs[b]? <;> simp <;> split <;> omega
  · intro hb
    rw [hdl]
    cases hev : s.evs[e]? with
    | none => rfl
    | some ev =>
      have wf := inv.wf ev (List.mem_of_getElem? hev)
      simp only [dflag]
      rw [List.getElem?_eq_none_iff.mpr (by rw [wf.len, hnb]; exact hb)]
  · intro hnone
    rw [hdl, hnone]
  · intro hd ev hev hb hp
    have wf := inv.wf ev (List.mem_of_getElem? hev)
    obtain ⟨st, hst, hne⟩ := wf.busy b hb
    have hact : cnt BSt.active ev.bs = 0 := by
      rw [← hnb] at hp; unfold pending at hp; omega
    have hna := cnt_eq_zero _ _ hact b st hst
    have hnd := wf.nodrop (by rw [hdet]; exact hd) b
    have : st = .done := by
      cases st <;> simp_all [BSt.active]
    subst this
    refine ⟨?_, hst⟩
    rw [hdl, hev]
    simp [dflag, hst, BSt.delivered]

/-- **C19_fanout_complete.**  An event whose `DispatchEvent` returned normally (no cancellation) and whose
goroutines have all finished has been handed exactly once to each of the `nb` backends. -/
theorem C19_fanout_complete {nb cap : Nat} {s : St} (h : Reachable nb cap true s) (e : Nat) (ev : Ev)
    (hev : s.evs[e]? = some ev) (hret : ev.stage = .returned) (hp : pending nb ev = 0) :
    ∀ b, b < nb → countPair (e, b) s.dl = 1 := by
  intro b hb
  obtain ⟨inv, hnb, _, _⟩ := reachable_inv h
  have wf := inv.wf ev (List.mem_of_getElem? hev)
  have hc : ev.cursor = nb := by rw [← hnb]; exact wf.returned hret
  exact ((C19_fanout_once h e b).2.2.2 rfl ev hev (by omega) hp).1

/-- **C19_wait_sound.**  `WaitForEvents` (cloud stage's `wg.Wait()` followed by the backend handler's
`eventWg.Wait()`) can return only when every event accepted before the wait began — hit or parked,
whatever the interleaving with senders that are still active — has left the cloud stage and has been
handed, to completion and exactly once, to every backend its dispatch loop reached; the loop reached
all `nb` backends unless it took the cancel path. -/
theorem C19_wait_sound {nb cap : Nat} {s : St} (h : Reachable nb cap true s) (hw : s.waiter = .returned) :
    ∀ e, e < s.waitFrom → ∃ ev, s.evs[e]? = some ev ∧ ev.stage ≠ .parked ∧
      (ev.stage ≠ .cancelled → ev.cursor = nb) ∧
      ∀ b, b < ev.cursor → ev.bs[b]? = some .done ∧ countPair (e, b) s.dl = 1 := by
  intro e he
  obtain ⟨inv, hnb, _, _⟩ := reachable_inv h
  have hidle : s.waiter ≠ .idle := by rw [hw]; simp
  obtain ⟨_, hall⟩ := inv.w1 hidle
  obtain ⟨ev, hev, hnp⟩ := hall e he
  obtain ⟨ev', hev', hp⟩ := inv.w2 hw e he
  rw [hev] at hev'; cases hev'
  have wf := inv.wf ev (List.mem_of_getElem? hev)
  refine ⟨ev, hev, hnp, ?_, ?_⟩
  · intro hnc
    cases hs : ev.stage with
    | parked => exact absurd hs hnp
    | cancelled => exact absurd hs hnc
    | returned => rw [← hnb]; exact wf.returned hs
    | dispatching =>
      simp only [pending, hs] at hp
      have := wf.cur
      rw [hnb] at hp this
      omega
  · intro b hb
    have := (C19_fanout_once h e b).2.2.2 rfl ev hev hb (by rw [← hnb]; exact hp)
    exact ⟨this.2, this.1⟩

/-! ### the hypotheses are satisfiable / concrete schedules -/

/-- two backends, semaphore of capacity 1, one event: a full schedule ending with `WaitForEvents` returning;
both deliveries are in the log exactly once -/
example :
    (run (init 2 1) [.arriveHit, .ev 0 .acquire, .ev 0 (.start 0), .ev 0 (.finish 0), .ev 0 (.release 0),
        .ev 0 .acquire, .ev 0 .ret, .ev 0 (.done 0), .ev 0 (.start 1), .ev 0 (.finish 1), .ev 0 (.release 1),
        .ev 0 (.done 1), .waitCloud, .waitBackend]).map (fun s => (s.waiter, s.dl, s.wg, s.sem))
      = some (.returned, [(0, 0), (0, 1)], 0, 0) := by decide

/-- the semaphore really blocks: with capacity 1 the second goroutine cannot be created before the first
gave its token back -/
example : run (init 2 1) [.arriveHit, .ev 0 .acquire, .ev 0 .acquire] = none := by decide

/-- a parked event keeps `WaitForEvents` from returning; after the lookup it is dispatched and counted -/
example : run (init 1 1) [.arriveMiss, .waitCloud] = none := by decide
example :
    (run (init 1 1) [.arriveMiss, .ev 0 .lookup, .ev 0 .acquire, .ev 0 .ret, .ev 0 .cloudDone, .waitCloud,
        .ev 0 (.start 0), .ev 0 (.finish 0), .ev 0 (.release 0)]).bind (fun s => step s .waitBackend) = none := by decide

/-- the cancel path: the wait group is corrected by exactly the unvisited backends, the visited one is
still delivered once, the others never -/
example :
    (run (init 3 2) [.arriveHit, .ev 0 .acquire, .ev 0 .cancel, .ev 0 (.start 0), .ev 0 (.finish 0),
        .ev 0 (.release 0), .ev 0 (.done 0), .waitCloud, .waitBackend]).map (fun s => (s.waiter, s.dl, s.wg))
      = some (.returned, [(0, 0)], 0) := by decide

/-- **Defect D10 (negative witness).**  With a delivery context that is NOT detached from the caller's
(`det = false`; this is `Gsd.Events.forwarderDetached` for `HttpForwarderHandlerV2.DispatchEvent` on the
pinned tree: one upstream, no semaphore), there is a schedule in which the event is accepted,
`WaitForEvents` returns, and the upstream never received the event. -/
example :
    (run (init 1 1000000 false) [.arriveHit, .ev 0 .acquire, .ev 0 .ret, .ev 0 (.abort 0), .waitCloud, .waitBackend]).map
        (fun s => (s.waiter, s.dl, s.wg)) = some (.returned, [], 0) := by decide

/-- … and no such schedule exists once the context is detached (the `abort` step is disabled) -/
example : run (init 1 1000000 true) [.arriveHit, .ev 0 .acquire, .ev 0 .ret, .ev 0 (.abort 0)] = none := by decide

end Gsd
