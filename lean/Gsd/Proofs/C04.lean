import Gsd.Proofs.Lemmas.C04
import Gsd.Model.ExactQ
/-!
# C04 — flushing never crashes for any reachable aggregate, configuration or backend

Property theorems only.  The model (`Model/Aggregator.lean`, `Model/BackendPanics.lean`) gives every
index / slice / `make` expression of `Flush` and of the payload builders a checked semantics whose
failure is the outcome `Res.panic site`.  The theorems are about the **repaired** code (switches
`fx… = true`) and hold for every accepted configuration (`AggCfg.Valid`: every threshold has magnitude
≤ 100; any histogram limit; any mask), every history of merges and flushes (including flushes in which a
persisted series received nothing, and any expiry behaviour of the clock), every `ParseFloat`, every
number type that is an ordered field with floor.

On the pinned tree the statement is **false** at three places; the `example`s at the end are
kernel-checked (`decide`) witnesses on the faithful model (switch `false`):
D4 `Flush` (negative threshold whose rank is `n`), D5 influxdb (`timer-histogram-limit = 0`),
D6 otlp AsHistogram (idle persisted timer).
-/
set_option linter.unusedSimpArgs false
set_option linter.unusedSectionVars false
set_option linter.unusedVariables false
namespace Gsd
section
variable {α : Type} [Field α] [LinearOrder α] [IsStrictOrderedRing α] [FloorRing α] [HasSqrt α]

/-- **C04_flush_timer_no_panic.**  `Flush` on one timer — *any* values, tags, sampled count, previous
field contents — returns, for every accepted configuration. -/
theorem C04_flush_timer_no_panic (parse : Bytes → Option α) (cfg : AggCfg) (hc : cfg.Valid) (secs : α) (t : ATimer α) :
    (flushTimerWith true parse cfg secs t).isPanic = false := by
  obtain ⟨out, h⟩ := flushTimerWith_total parse cfg hc secs t
  simp [h, Res.isPanic]

/-- **C04_flush_no_panic.**  For every accepted configuration and every history of
(merge batch | flush + reset with any set of expired series) from the empty aggregator — in fact from any
aggregate — no `Flush` reaches a panic outcome: the run returns its final state and all flush views. -/
theorem C04_flush_no_panic (parse : Bytes → Option α) (cfg : AggCfg) (hc : cfg.Valid) (ops : List (Op α)) (s : AggSt α) :
    ∃ r, AggSt.runWith true parse cfg s ops = .ok r := by
  induction ops generalizing s with
  | nil => exact ⟨_, rfl⟩
  | cons op ops ih =>
    obtain ⟨r1, h1⟩ := step_total parse cfg hc s op
    obtain ⟨r2, h2⟩ := ih r1.1
    cases hr : r1.2 with
    | none => exact ⟨(r2.1, r2.2), by simp [AggSt.runWith, h1, h2, hr]⟩
    | some v => exact ⟨(r2.1, v :: r2.2), by simp [AggSt.runWith, h1, h2, hr]⟩

/-- **C04_reachable_view.**  What every backend may rely on: in every flush view of every history (of the
pinned *or* the repaired aggregator, whenever the run returns) every percentile name contains `_` and
every histogram is nil, empty (limit 0) or contains the `+Inf` bucket. -/
theorem C04_reachable_view (fx : Bool) (parse : Bytes → Option α) (cfg : AggCfg) (ops : List (Op α))
    (r : AggSt α × List (AggSt α)) (h : AggSt.runWith fx parse cfg [] ops = .ok r) :
    ∀ v ∈ r.2, ∀ e ∈ v, ViewOK e.2 :=
  (run_inv fx parse cfg ops [] (by simp) r h).2

/-- **C04_backend_no_panic.**  The payload builder of every bundled backend (every variant: newrelic flush
types, otlp conversions; any mask) returns on every reachable flush view. -/
theorem C04_backend_no_panic (b : Backend) (fx : Bool) (parse : Bytes → Option α) (cfg : AggCfg) (m : Mask)
    (ops : List (Op α)) (r : AggSt α × List (AggSt α)) (h : AggSt.runWith fx parse cfg [] ops = .ok r) :
    ∀ v ∈ r.2, backendFlushWith true true b m v = .ok () :=
  fun v hv => backendFlush_ok b m v (C04_reachable_view fx parse cfg ops r h v hv)

theorem C04_backend_no_panic_influxdb (fx : Bool) (parse : Bytes → Option α) (cfg : AggCfg) (m : Mask)
    (ops : List (Op α)) (r : AggSt α × List (AggSt α)) (h : AggSt.runWith fx parse cfg [] ops = .ok r) :
    ∀ v ∈ r.2, backendFlushWith true true .influxdb m v = .ok () :=
  C04_backend_no_panic .influxdb fx parse cfg m ops r h

theorem C04_backend_no_panic_otlp (asGauge : Bool) (fx : Bool) (parse : Bytes → Option α) (cfg : AggCfg) (m : Mask)
    (ops : List (Op α)) (r : AggSt α × List (AggSt α)) (h : AggSt.runWith fx parse cfg [] ops = .ok r) :
    ∀ v ∈ r.2, backendFlushWith true true (.otlp asGauge) m v = .ok () :=
  C04_backend_no_panic (.otlp asGauge) fx parse cfg m ops r h

theorem C04_backend_no_panic_newrelic (metricsApi : Bool) (fx : Bool) (parse : Bytes → Option α) (cfg : AggCfg) (m : Mask)
    (ops : List (Op α)) (r : AggSt α × List (AggSt α)) (h : AggSt.runWith fx parse cfg [] ops = .ok r) :
    ∀ v ∈ r.2, backendFlushWith true true (.newrelic metricsApi) m v = .ok () :=
  C04_backend_no_panic (.newrelic metricsApi) fx parse cfg m ops r h

theorem C04_backend_no_panic_graphite (fx : Bool) (parse : Bytes → Option α) (cfg : AggCfg) (m : Mask)
    (ops : List (Op α)) (r : AggSt α × List (AggSt α)) (h : AggSt.runWith fx parse cfg [] ops = .ok r) :
    ∀ v ∈ r.2, backendFlushWith true true .graphite m v = .ok () :=
  C04_backend_no_panic .graphite fx parse cfg m ops r h

theorem C04_backend_no_panic_datadog (fx : Bool) (parse : Bytes → Option α) (cfg : AggCfg) (m : Mask)
    (ops : List (Op α)) (r : AggSt α × List (AggSt α)) (h : AggSt.runWith fx parse cfg [] ops = .ok r) :
    ∀ v ∈ r.2, backendFlushWith true true .datadog m v = .ok () :=
  C04_backend_no_panic .datadog fx parse cfg m ops r h

theorem C04_backend_no_panic_statsdaemon (fx : Bool) (parse : Bytes → Option α) (cfg : AggCfg) (m : Mask)
    (ops : List (Op α)) (r : AggSt α × List (AggSt α)) (h : AggSt.runWith fx parse cfg [] ops = .ok r) :
    ∀ v ∈ r.2, backendFlushWith true true .statsdaemon m v = .ok () :=
  C04_backend_no_panic .statsdaemon fx parse cfg m ops r h

theorem C04_backend_no_panic_stdout (fx : Bool) (parse : Bytes → Option α) (cfg : AggCfg) (m : Mask)
    (ops : List (Op α)) (r : AggSt α × List (AggSt α)) (h : AggSt.runWith fx parse cfg [] ops = .ok r) :
    ∀ v ∈ r.2, backendFlushWith true true .stdout m v = .ok () :=
  C04_backend_no_panic .stdout fx parse cfg m ops r h

theorem C04_backend_no_panic_cloudwatch (fx : Bool) (parse : Bytes → Option α) (cfg : AggCfg) (m : Mask)
    (ops : List (Op α)) (r : AggSt α × List (AggSt α)) (h : AggSt.runWith fx parse cfg [] ops = .ok r) :
    ∀ v ∈ r.2, backendFlushWith true true .cloudwatch m v = .ok () :=
  C04_backend_no_panic .cloudwatch fx parse cfg m ops r h

/-- **C04_pipeline_no_panic.**  The whole statement in one: for every accepted configuration, every backend
and every history, the interleaving flush → payload building → reset never reaches a panic outcome
(all three repairs in place). -/
theorem C04_pipeline_no_panic (parse : Bytes → Option α) (cfg : AggCfg) (hc : cfg.Valid) (b : Backend)
    (ops : List (Op α)) (s : AggSt α) (hs : ∀ e ∈ s, StateOK e.2) :
    ∃ views, pipelineWith true true true parse cfg b s ops = .ok views := by
  induction ops generalizing s with
  | nil => exact ⟨[], rfl⟩
  | cons op ops ih =>
    obtain ⟨r1, h1⟩ := step_total parse cfg hc s op
    obtain ⟨hs1, hv1⟩ := step_inv true parse cfg s op hs r1 h1
    obtain ⟨rest, h2⟩ := ih r1.1 hs1
    cases hr : r1.2 with
    | none => exact ⟨rest, by simp [pipelineWith, h1, hr, h2]⟩
    | some v =>
      have hb := backendFlush_ok b cfg.mask v (hv1 v hr)
      exact ⟨v :: rest, by simp [pipelineWith, h1, hr, hb, h2]⟩

end

/-! ### satisfiable hypotheses, and the three defects of the pinned tree as kernel-checked witnesses

All evaluated by `decide` on the faithful model with exact fractions (`Q`).  Histories:
`h1` two values then a flush; `h2` a histogram-tagged value then a flush; `h3` a value, a flush, and an
idle flush of the persisted series. -/

section witnesses

def wTags : List Bytes := [asciiBytes "gsd_histogram:1_2"]
def wParse (b : Bytes) : Option Q :=
  if b = asciiBytes "1" then some 1 else if b = asciiBytes "2" then some 2 else none
def h1 : List (Op Q) := [.merge [("t", [], [1, 2], 2)], .flush 1 []]
def h2 : List (Op Q) := [.merge [("t", wTags, [1], 1)], .flush 1 []]
def h3 : List (Op Q) := [.merge [("t", [], [1], 1)], .flush 1 [], .flush 1 []]

/-- the accepted configurations used below -/
example : (AggCfg.Valid { pcts := [-100] }) ∧ (AggCfg.Valid { pcts := [-90] }) ∧ (AggCfg.Valid { pcts := [90], limit := 0 }) := by
  refine ⟨?_, ?_, ?_⟩ <;> (intro p hp; simp at hp; subst hp; decide)

/-- **D4** (pinned `Flush`): thresholds {−100} and {−90} with two values → `cumulativeValues[-1]` -/
example : (AggSt.runWith false wParse { pcts := [-100] } [] h1).isPanic = true := by decide
example : (AggSt.runWith false wParse { pcts := [-90] } [] h1).isPanic = true := by decide
/-- the repaired `Flush` returns on the same inputs (and `C04_flush_no_panic` says: on all) -/
example : (AggSt.runWith true wParse { pcts := [-100, -90] } [] h1).isOk = true := by decide

/-- **D5** (pinned influxdb `addHistogramTimer`): `timer-histogram-limit = 0` and a timer tagged
`gsd_histogram:1_2` → `buf[:len(buf)-1]` on the empty string -/
example : (pipelineWith true false true wParse { pcts := [90], limit := 0 } .influxdb [] h2).isPanic = true := by decide
example : (pipelineWith true true true wParse { pcts := [90], limit := 0 } .influxdb [] h2).isOk = true := by decide
/-- with a positive limit the pinned builder is fine -/
example : (pipelineWith true false true wParse { pcts := [90], limit := 5 } .influxdb [] h2).isOk = true := by decide

/-- **D6** (pinned otlp `WithHistogramDataPointStatistics`, conversion AsHistogram): a persisted timer that
received nothing for one interval → `values[0]` of an empty slice -/
example : (pipelineWith true true false wParse { pcts := [90] } (.otlp false) [] h3).isPanic = true := by decide
example : (pipelineWith true true true wParse { pcts := [90] } (.otlp false) [] h3).isOk = true := by decide
/-- conversion AsGauge is not affected -/
example : (pipelineWith true true false wParse { pcts := [90] } (.otlp true) [] h3).isOk = true := by decide

/-- hypothesis of `C04_backend_no_panic`: a run that returns, with a non-trivial view (histogram with two
finite buckets and `+Inf`; new relic's percentile names) -/
example : (AggSt.runWith false wParse { pcts := [90, -50], limit := 5 } [] (h2 ++ h1)).isOk = true := by decide

end witnesses
end Gsd
