import Gsd.Model.Split
import Gsd.Proofs.Lemmas.AList
/-!
# C06 — shard routing is a deterministic partition of series

Property theorems only.  `h` ranges over **all** routing functions, `n` over all shard counts ≥ 1,
`m` over all maps (a Go map has unique keys: hypothesis `NodupKeys` / `MMap.WF`).
-/
set_option linter.unusedSimpArgs false
set_option linter.unusedSectionVars false
namespace Gsd
open AList

section helpers
variable {κ ν : Type} [DecidableEq κ]

private theorem length_foldl_modify (h : κ → Nat) (n : Nat) (m : AList κ ν) (ps : List (AList κ ν)) :
    (m.foldl (fun ps e => ps.modify (h e.1 % n) (AList.upsert e.1 (fun _ => e.2))) ps).length = ps.length := by
  induction m generalizing ps with
  | nil => rfl
  | cons e t ih => simp [List.foldl_cons, ih]

private theorem getD_modify {α} (l : List α) (i j : Nat) (f : α → α) (d : α) (hj : j < l.length) :
    (l.modify i f)[j]?.getD d = if i = j then f (l[j]?.getD d) else l[j]?.getD d := by
  simp [List.getElem?_modify, hj]
  split <;> simp_all

/-- generalised statement for the fold with an arbitrary accumulator -/
private theorem lookup_foldl (h : κ → Nat) (n : Nat) (m : AList κ ν) (hm : NodupKeys m)
    (ps : List (AList κ ν)) (i : Nat) (hi : i < ps.length) (k : κ)
    (hdisj : ∀ x ∈ keys m, ∀ j, j < ps.length → lookup x (ps[j]?.getD []) = none) :
    lookup k ((m.foldl (fun ps e => ps.modify (h e.1 % n) (AList.upsert e.1 (fun _ => e.2))) ps)[i]?.getD []) =
      if h k % n = i then (match lookup k m with | some v => some v | none => lookup k (ps[i]?.getD [])) else lookup k (ps[i]?.getD []) := by
  induction m generalizing ps with
  | nil => simp
  | cons e t ih =>
    obtain ⟨k₀, v₀⟩ := e
    simp only [NodupKeys, keys, List.map_cons, List.nodup_cons] at hm
    have hlen : (ps.modify (h k₀ % n) (AList.upsert k₀ (fun _ => v₀))).length = ps.length := by simp
    have hdisj' : ∀ x ∈ keys t, ∀ j, j < (ps.modify (h k₀ % n) (AList.upsert k₀ (fun _ => v₀))).length →
        lookup x ((ps.modify (h k₀ % n) (AList.upsert k₀ (fun _ => v₀)))[j]?.getD []) = none := by
      intro x hx j hj
      have hj' : j < ps.length := by simpa using hj
      rw [getD_modify _ _ _ _ _ hj']
      have hx0 : ¬ k₀ = x := fun hh => hm.1 (hh ▸ hx)
      have hbase := hdisj x (by simp [keys]; exact Or.inr (by simpa [keys] using hx)) j hj'
      split
      · rw [lookup_upsert]; simp [hx0, hbase]
      · exact hbase
    have := ih hm.2 (ps.modify (h k₀ % n) (AList.upsert k₀ (fun _ => v₀))) (by simpa using hi) hdisj'
    simp only [List.foldl_cons]
    rw [this, getD_modify _ _ _ _ _ hi]
    by_cases hk : k₀ = k
    · subst hk
      have hnone : lookup k₀ t = none := lookup_eq_none_of_not_mem_keys hm.1
      by_cases hb : h k₀ % n = i
      · simp [hb, hnone, lookup_cons, lookup_upsert]
      · simp [hb, hnone, lookup_cons]
    · by_cases hb : h k % n = i
      · simp only [hb, if_true, lookup_cons, hk, if_false]
        cases hl : lookup k t with
        | some v => simp
        | none =>
          simp only
          split
          · rw [lookup_upsert]; simp [hk]
          · rfl
      · simp only [hb, if_false]
        split
        · rw [lookup_upsert]; simp [hk]
        · rfl

theorem length_splitInto (h : κ → Nat) (n : Nat) (m : AList κ ν) : (splitInto h n m).length = n := by
  simp [splitInto, length_foldl_modify]

/-- Characterisation of every piece of one typed sub-map. -/
theorem lookup_splitInto (h : κ → Nat) (n : Nat) (m : AList κ ν) (hm : NodupKeys m) (i : Nat) (hi : i < n) (k : κ) :
    lookup k ((splitInto h n m)[i]?.getD []) = if h k % n = i then lookup k m else none := by
  unfold splitInto
  rw [lookup_foldl h n m hm (List.replicate n []) i (by simpa using hi) k (by intro x _ j hj; simp at hj; simp [hj])]
  cases lookup k m <;> simp [hi]

private theorem nodup_foldl (h : κ → Nat) (n : Nat) (m : AList κ ν) (ps : List (AList κ ν))
    (hps : ∀ p ∈ ps, NodupKeys p) :
    ∀ p ∈ (m.foldl (fun ps e => ps.modify (h e.1 % n) (AList.upsert e.1 (fun _ => e.2))) ps), NodupKeys p := by
  induction m generalizing ps with
  | nil => simpa using hps
  | cons e t ih =>
    simp only [List.foldl_cons]
    apply ih
    intro p hp
    rw [List.mem_iff_getElem] at hp
    obtain ⟨j, hj, rfl⟩ := hp
    have hj' : j < ps.length := by simpa using hj
    rw [List.getElem_modify]
    split
    · exact nodupKeys_upsert _ _ (hps _ (List.getElem_mem hj'))
    · exact hps _ (List.getElem_mem hj')

theorem nodupKeys_splitInto (h : κ → Nat) (n : Nat) (m : AList κ ν) (i : Nat) :
    NodupKeys ((splitInto h n m)[i]?.getD []) := by
  by_cases hi : i < (splitInto h n m).length
  · rw [getD_getElem?_lt _ _ _ hi]
    exact nodup_foldl h n m (List.replicate n []) (by intro p hp; simp at hp; rw [hp.2]; exact List.nodup_nil) _ (List.getElem_mem hi)
  · rw [getD_getElem?_ge _ _ _ (by omega)]; exact List.nodup_nil

end helpers

section property
variable {κ C T G S : Type} [DecidableEq κ]

theorem C06_length (h : κ → Nat) (n : Nat) (m : MMap κ C T G S) : (m.split h n).length = n := by
  simp [MMap.split]

/-- **C06_partition.**  For every routing function `h`, every shard count `n` and every batch `m`:
piece `i` of `Split` holds, for every series identity `k` and each of the four types, exactly the
batch's entry for `k` when `h k % n = i`, and nothing otherwise.  Hence each series is in exactly one
piece (`h k % n`), unchanged, and the pieces together are the batch. -/
theorem C06_partition (h : κ → Nat) (n : Nat) (m : MMap κ C T G S) (hm : m.WF) (i : Nat) (hi : i < n) (k : κ) :
    lookup k ((m.split h n)[i]?.getD {}).counters = (if h k % n = i then lookup k m.counters else none) ∧
    lookup k ((m.split h n)[i]?.getD {}).timers   = (if h k % n = i then lookup k m.timers   else none) ∧
    lookup k ((m.split h n)[i]?.getD {}).gauges   = (if h k % n = i then lookup k m.gauges   else none) ∧
    lookup k ((m.split h n)[i]?.getD {}).sets     = (if h k % n = i then lookup k m.sets     else none) := by
  obtain ⟨h1, h2, h3, h4⟩ := hm
  have hl : i < (m.split h n).length := by rw [C06_length]; exact hi
  rw [getD_getElem?_lt _ _ _ hl]
  simp only [MMap.split, List.getElem_map, List.getElem_range]
  exact ⟨lookup_splitInto h n _ h1 i hi k, lookup_splitInto h n _ h2 i hi k,
         lookup_splitInto h n _ h3 i hi k, lookup_splitInto h n _ h4 i hi k⟩

/-- every piece is again a well-formed map (no series twice within a piece) -/
theorem C06_pieces_wf (h : κ → Nat) (n : Nat) (m : MMap κ C T G S) (i : Nat) (hi : i < n) :
    ((m.split h n)[i]?.getD {}).WF := by
  have hl : i < (m.split h n).length := by rw [C06_length]; exact hi
  rw [getD_getElem?_lt _ _ _ hl]
  simp only [MMap.split, List.getElem_map, List.getElem_range, MMap.WF]
  exact ⟨nodupKeys_splitInto .., nodupKeys_splitInto .., nodupKeys_splitInto .., nodupKeys_splitInto ..⟩

/-- **C06_exactly_one_shard.**  A counter series of the batch is found in piece `h k % n` and in no other piece
(the same statement for the other three types is `C06_partition`). -/
theorem C06_exactly_one_shard (h : κ → Nat) (n : Nat) (hn : 0 < n) (m : MMap κ C T G S) (hm : m.WF) (k : κ) (v : C)
    (hk : lookup k m.counters = some v) :
    lookup k ((m.split h n)[h k % n]?.getD {}).counters = some v ∧
    ∀ j, j < n → j ≠ h k % n → lookup k ((m.split h n)[j]?.getD {}).counters = none := by
  constructor
  · have := (C06_partition h n m hm (h k % n) (Nat.mod_lt _ hn) k).1
    simpa [hk] using this
  · intro j hj hne
    have := (C06_partition h n m hm j hj k).1
    have hne' : ¬ h k % n = j := fun e => hne e.symm
    simpa [hne'] using this

/-- **C06_route_deterministic.**  The shard a series is sent to depends only on its identity and the shard
count: two batches containing the same series put it into the same piece. -/
theorem C06_route_deterministic (h : κ → Nat) (n : Nat) (hn : 0 < n)
    (m₁ m₂ : MMap κ C T G S) (h₁ : m₁.WF) (h₂ : m₂.WF) (k : κ)
    (i j : Nat) (hi : i < n) (hj : j < n)
    (hki : (lookup k ((m₁.split h n)[i]?.getD {}).counters).isSome)
    (hkj : (lookup k ((m₂.split h n)[j]?.getD {}).counters).isSome) : i = j := by
  have a := (C06_partition h n m₁ h₁ i hi k).1
  have b := (C06_partition h n m₂ h₂ j hj k).1
  rw [a] at hki; rw [b] at hkj
  by_cases e1 : h k % n = i
  · by_cases e2 : h k % n = j
    · omega
    · simp [e2] at hkj
  · simp [e1] at hki

/-- **C06_dispatch.**  `DispatchMetricMap` hands piece `i` to worker `i` and skips exactly the empty pieces. -/
theorem C06_dispatch (h : κ → Nat) (n : Nat) (m : MMap κ C T G S) (w : Nat) (p : MMap κ C T G S) :
    (w, p) ∈ m.dispatch h n ↔ (w < n ∧ (m.split h n)[w]? = some p ∧ p.isEmpty = false) := by
  unfold MMap.dispatch
  simp only [List.mem_filter, Bool.not_eq_eq_eq_not, Bool.not_true]
  constructor
  · rintro ⟨hmem, hne⟩
    rw [List.mem_iff_getElem] at hmem
    obtain ⟨idx, hidx, heq⟩ := hmem
    simp only [List.getElem_zip, List.getElem_range, Prod.mk.injEq] at heq
    have hlen : idx < n := by simp [List.length_zip, C06_length] at hidx; exact hidx
    obtain ⟨rfl, rfl⟩ := heq
    exact ⟨hlen, by simp, hne⟩
  · rintro ⟨hw, hp, hne⟩
    refine ⟨?_, hne⟩
    have hl : w < (m.split h n).length := by rw [C06_length]; exact hw
    rw [List.mem_iff_getElem]
    refine ⟨w, by simp [List.length_zip, C06_length]; exact hw, ?_⟩
    rw [List.getElem?_eq_getElem hl] at hp
    simp only [Option.some.injEq] at hp
    simp [List.getElem_zip, hp]

/-- non-vacuity: a concrete two-type batch over three shards -/
example :
    let m : MMap (String × String) Int Int Int Int :=
      { counters := [(("a",""), 1), (("b","t:1"), 2)], gauges := [(("a",""), 7)] }
    m.WF ∧ (m.split (fun k => k.1.length + k.2.length) 3).map (fun p => (p.counters, p.gauges)) =
      [([], []), ([(("a",""), 1), (("b","t:1"), 2)], [(("a",""), 7)]), ([], [])] := by
  refine ⟨⟨by decide, by decide, by decide, by decide⟩, by decide⟩

end property
end Gsd
