import Gsd.Proofs.Lemmas.MetricMap
import Mathlib.Algebra.BigOperators.Group.List.Basic
/-!
# C07 — merging batches is independent of order and grouping

`MTree` = any bracketing of `Merge` calls over leaf maps (a leaf may itself be built from datapoints
by `Receive`, which is `Merge` with a one-datapoint map: `C07_receive_eq_merge_single`).
`C07_tree_*`: whatever the bracketing, the entry of a series in the result is the aggregate of the
leaves' entries (counters add, timer values concatenate and sampled counts add, sets unite, every
series keeps the newest timestamp, a gauge ends with the value of a leaf carrying the newest
timestamp).  `C07_order_independent_*`: two programs over permuted leaves agree.
Exact arithmetic: `α` is any commutative additive monoid (float `+` is not associative).
-/
set_option linter.unusedSimpArgs false
set_option linter.unusedSectionVars false
namespace Gsd
open AList

variable {α : Type} [AddCommMonoid α]

/-! ## per-type summary relations -/

def CSum (c : Counter) (ls : List Counter) : Prop :=
  c.value = (ls.map (·.value)).sum ∧ IsMax c.ts (ls.map (·.ts))

def TSum (t : Timer α) (ls : List (Timer α)) : Prop :=
  t.values = (ls.map (·.values)).flatten ∧ t.sampled = (ls.map (·.sampled)).sum ∧ IsMax t.ts (ls.map (·.ts))

def SSum (s : SetV) (ls : List SetV) : Prop :=
  (∀ x, x ∈ s.members ↔ ∃ l ∈ ls, x ∈ l.members) ∧ IsMax s.ts (ls.map (·.ts))

/-- newest timestamp, and the value is that of some leaf carrying the newest timestamp -/
def GSum (g : Gauge α) (ls : List (Gauge α)) : Prop :=
  IsMax g.ts (ls.map (·.ts)) ∧ ∃ l ∈ ls, l.ts = g.ts ∧ l.value = g.value

theorem csum_base (c : Counter) : CSum c [c] := by simp [CSum, isMax_single]
theorem tsum_base (t : Timer α) : TSum t [t] := by simp [TSum, isMax_single]
theorem ssum_base (s : SetV) : SSum s [s] := by simp [SSum, isMax_single]
theorem gsum_base (g : Gauge α) : GSum g [g] := by simp [GSum, isMax_single]

theorem csum_step (x y : Counter) (xs ys : List Counter) (hx : CSum x xs) (hy : CSum y ys) :
    CSum (mergeCounter x y) (xs ++ ys) := by
  obtain ⟨hx1, hx2⟩ := hx; obtain ⟨hy1, hy2⟩ := hy
  refine ⟨by simp [mergeCounter, hx1, hy1], ?_⟩
  have := isMax_append_bump x.ts y.ts _ _ hx2 hy2
  simpa [mergeCounter, bumpTs, cmp_MergeCounter] using this

theorem tsum_step (x y : Timer α) (xs ys : List (Timer α)) (hx : TSum x xs) (hy : TSum y ys) :
    TSum (mergeTimer x y) (xs ++ ys) := by
  obtain ⟨hx1, hx2, hx3⟩ := hx; obtain ⟨hy1, hy2, hy3⟩ := hy
  refine ⟨by simp [mergeTimer, hx1, hy1], by simp [mergeTimer, hx2, hy2], ?_⟩
  have := isMax_append_bump x.ts y.ts _ _ hx3 hy3
  simpa [mergeTimer, bumpTs, cmp_MergeTimer] using this

theorem ssum_step (x y : SetV) (xs ys : List SetV) (hx : SSum x xs) (hy : SSum y ys) :
    SSum (mergeSet x y) (xs ++ ys) := by
  obtain ⟨hx1, hx2⟩ := hx; obtain ⟨hy1, hy2⟩ := hy
  refine ⟨?_, ?_⟩
  · intro v
    simp only [mergeSet, mem_setUnion, hx1, hy1, List.mem_append]
    constructor
    · rintro (⟨l, hl, h⟩ | ⟨l, hl, h⟩)
      · exact ⟨l, Or.inl hl, h⟩
      · exact ⟨l, Or.inr hl, h⟩
    · rintro ⟨l, hl | hl, h⟩
      · exact Or.inl ⟨l, hl, h⟩
      · exact Or.inr ⟨l, hl, h⟩
  · have := isMax_append_bump x.ts y.ts _ _ hx2 hy2
    simpa [mergeSet, bumpTs, cmp_MergeSet] using this

theorem gsum_step (x y : Gauge α) (xs ys : List (Gauge α)) (hx : GSum x xs) (hy : GSum y ys) :
    GSum (mergeGauge x y) (xs ++ ys) := by
  obtain ⟨⟨hx1, hx2⟩, lx, hlx, hlx1, hlx2⟩ := hx
  obtain ⟨⟨hy1, hy2⟩, ly, hly, hly1, hly2⟩ := hy
  have hc := cmp_MergeGauge x.ts y.ts
  unfold mergeGauge
  split
  · rename_i h
    have hle := hc.1 h
    refine ⟨⟨by simp; exact Or.inr (by simpa using hy1), ?_⟩, ly, by simp [hly], by simp [hly1], by simp [hly2]⟩
    intro t ht
    simp only [List.map_append, List.mem_append] at ht
    rcases ht with ht | ht
    · have := hx2 t ht; simp; omega
    · simpa using hy2 t ht
  · rename_i h
    have hge : ¬ x.ts < y.ts := fun hlt => h (hc.2 hlt)
    refine ⟨⟨by simp; exact Or.inl (by simpa using hx1), ?_⟩, lx, by simp [hlx], hlx1, hlx2⟩
    intro t ht
    simp only [List.map_append, List.mem_append] at ht
    rcases ht with ht | ht
    · exact hx2 t ht
    · have := hy2 t ht; omega

/-! ## one merge, pointwise -/

/-- **C07_merge_lookup.**  `into.Merge(from)`: per series, the two entries are combined by the type's
merge function, an entry present on one side only is carried over unchanged. -/
theorem C07_merge_lookup (a b : MM α) (hb : b.WF) (k : Key) :
    lookup k (MM.merge a b).counters = optComb mergeCounter (lookup k a.counters) (lookup k b.counters) ∧
    lookup k (MM.merge a b).timers   = optComb mergeTimer   (lookup k a.timers)   (lookup k b.timers) ∧
    lookup k (MM.merge a b).gauges   = optComb mergeGauge   (lookup k a.gauges)   (lookup k b.gauges) ∧
    lookup k (MM.merge a b).sets     = optComb mergeSet     (lookup k a.sets)     (lookup k b.sets) := by
  obtain ⟨h1, h2, h3, h4⟩ := hb
  exact ⟨lookup_mergeWith _ _ _ h1 k, lookup_mergeWith _ _ _ h2 k, lookup_mergeWith _ _ _ h3 k, lookup_mergeWith _ _ _ h4 k⟩

theorem C07_merge_wf (a b : MM α) (ha : a.WF) : (MM.merge a b).WF := by
  obtain ⟨h1, h2, h3, h4⟩ := ha
  exact ⟨nodupKeys_mergeWith _ _ _ h1, nodupKeys_mergeWith _ _ _ h2, nodupKeys_mergeWith _ _ _ h3, nodupKeys_mergeWith _ _ _ h4⟩

/-! ## any bracketing -/

theorem eval_wf (t : MTree α) (h : ∀ m ∈ t.leaves, m.WF) : t.eval.WF := by
  induction t with
  | leaf m => exact h m (by simp [MTree.leaves])
  | node l r ihl _ =>
    exact C07_merge_wf _ _ (ihl (fun m hm => h m (by simp [MTree.leaves, hm])))

/-- **C07_tree.**  For every bracketing `t` of merges over well-formed leaf maps and every series `k`:
the result's entry for `k` aggregates the leaves' entries for `k` (and is absent iff no leaf has one). -/
theorem C07_tree (t : MTree α) (h : ∀ m ∈ t.leaves, m.WF) :
    Agg CSum t.eval.counters (t.leaves.map (·.counters)) ∧
    Agg TSum t.eval.timers   (t.leaves.map (·.timers)) ∧
    Agg GSum t.eval.gauges   (t.leaves.map (·.gauges)) ∧
    Agg SSum t.eval.sets     (t.leaves.map (·.sets)) := by
  induction t with
  | leaf m =>
    exact ⟨agg_leaf _ csum_base _, agg_leaf _ tsum_base _, agg_leaf _ gsum_base _, agg_leaf _ ssum_base _⟩
  | node l r ihl ihr =>
    have hl := ihl (fun m hm => h m (by simp [MTree.leaves, hm]))
    have hr := ihr (fun m hm => h m (by simp [MTree.leaves, hm]))
    have hrwf := eval_wf r (fun m hm => h m (by simp [MTree.leaves, hm]))
    simp only [MTree.eval, MTree.leaves, List.map_append, MM.merge]
    exact ⟨agg_merge _ _ csum_step _ _ _ _ hl.1 hr.1 hrwf.1,
           agg_merge _ _ tsum_step _ _ _ _ hl.2.1 hr.2.1 hrwf.2.1,
           agg_merge _ _ gsum_step _ _ _ _ hl.2.2.1 hr.2.2.1 hrwf.2.2.1,
           agg_merge _ _ ssum_step _ _ _ _ hl.2.2.2 hr.2.2.2 hrwf.2.2.2⟩

/-! ## order independence -/

theorem valsAt_perm {ν} (k : Key) (xs ys : List (AList Key ν)) (hp : xs.Perm ys) :
    (valsAt k xs).Perm (valsAt k ys) := List.Perm.filterMap _ hp

/-- **C07_order_independent_counter.**  Two merge programs over the same leaves in any order and any
bracketing report the same counter value and timestamp for every series (and the same presence). -/
theorem C07_order_independent_counter (t₁ t₂ : MTree α) (h₁ : ∀ m ∈ t₁.leaves, m.WF) (h₂ : ∀ m ∈ t₂.leaves, m.WF)
    (hp : t₁.leaves.Perm t₂.leaves) (k : Key) :
    (lookup k t₁.eval.counters).map (fun c => (c.value, c.ts)) =
    (lookup k t₂.eval.counters).map (fun c => (c.value, c.ts)) := by
  have a := (C07_tree t₁ h₁).1 k
  have b := (C07_tree t₂ h₂).1 k
  have hperm := valsAt_perm k _ _ (hp.map (·.counters))
  cases h1 : lookup k t₁.eval.counters <;> cases h2 : lookup k t₂.eval.counters <;> simp only [h1, h2] at a b ⊢
  · rw [a] at hperm; have := hperm.symm.eq_nil; rw [this] at b
    exact absurd b.2.1 (by simp)
  · rw [b] at hperm; have := hperm.eq_nil; rw [this] at a
    exact absurd a.2.1 (by simp)
  · obtain ⟨a1, a2⟩ := a; obtain ⟨b1, b2⟩ := b
    have e1 : ((valsAt k (t₁.leaves.map (·.counters))).map (·.value)).sum =
              ((valsAt k (t₂.leaves.map (·.counters))).map (·.value)).sum := (hperm.map _).sum_eq
    have e2 := isMax_unique _ _ _ (isMax_perm _ _ _ (hperm.map (·.ts)) a2) b2
    simp [Option.map, a1, b1, e1, e2]

/-- **C07_order_independent_timer.**  Same for timers: the values form the same multiset, sampled counts
and timestamps are equal. -/
theorem C07_order_independent_timer (t₁ t₂ : MTree α) (h₁ : ∀ m ∈ t₁.leaves, m.WF) (h₂ : ∀ m ∈ t₂.leaves, m.WF)
    (hp : t₁.leaves.Perm t₂.leaves) (k : Key) :
    match lookup k t₁.eval.timers, lookup k t₂.eval.timers with
    | none, none => True
    | some x, some y => x.values.Perm y.values ∧ x.sampled = y.sampled ∧ x.ts = y.ts
    | _, _ => False := by
  have a := (C07_tree t₁ h₁).2.1 k
  have b := (C07_tree t₂ h₂).2.1 k
  have hperm := valsAt_perm k _ _ (hp.map (·.timers))
  cases h1 : lookup k t₁.eval.timers <;> cases h2 : lookup k t₂.eval.timers <;> simp only [h1, h2] at a b ⊢
  · rw [a] at hperm; have := hperm.symm.eq_nil; rw [this] at b
    exact absurd b.2.2.1 (by simp)
  · rw [b] at hperm; have := hperm.eq_nil; rw [this] at a
    exact absurd a.2.2.1 (by simp)
  · obtain ⟨a1, a2, a3⟩ := a; obtain ⟨b1, b2, b3⟩ := b
    refine ⟨?_, ?_, ?_⟩
    · rw [a1, b1]; exact (hperm.map _).flatten
    · rw [a2, b2]; exact (hperm.map _).sum_eq
    · exact isMax_unique _ _ _ (isMax_perm _ _ _ (hperm.map (·.ts)) a3) b3

/-- **C07_order_independent_set.**  Same members, same timestamp. -/
theorem C07_order_independent_set (t₁ t₂ : MTree α) (h₁ : ∀ m ∈ t₁.leaves, m.WF) (h₂ : ∀ m ∈ t₂.leaves, m.WF)
    (hp : t₁.leaves.Perm t₂.leaves) (k : Key) :
    match lookup k t₁.eval.sets, lookup k t₂.eval.sets with
    | none, none => True
    | some x, some y => (∀ v, v ∈ x.members ↔ v ∈ y.members) ∧ x.ts = y.ts
    | _, _ => False := by
  have a := (C07_tree t₁ h₁).2.2.2 k
  have b := (C07_tree t₂ h₂).2.2.2 k
  have hperm := valsAt_perm k _ _ (hp.map (·.sets))
  cases h1 : lookup k t₁.eval.sets <;> cases h2 : lookup k t₂.eval.sets <;> simp only [h1, h2] at a b ⊢
  · rw [a] at hperm; have := hperm.symm.eq_nil; rw [this] at b
    exact absurd b.2.1 (by simp)
  · rw [b] at hperm; have := hperm.eq_nil; rw [this] at a
    exact absurd a.2.1 (by simp)
  · obtain ⟨a1, a2⟩ := a; obtain ⟨b1, b2⟩ := b
    refine ⟨?_, isMax_unique _ _ _ (isMax_perm _ _ _ (hperm.map (·.ts)) a2) b2⟩
    intro v
    rw [a1, b1]
    constructor
    · rintro ⟨l, hl, hv⟩; exact ⟨l, hperm.mem_iff.mp hl, hv⟩
    · rintro ⟨l, hl, hv⟩; exact ⟨l, hperm.mem_iff.mpr hl, hv⟩

/-- **C07_order_independent_gauge.**  Both programs end with the newest timestamp seen for the series, and
each ends with the value of *a* leaf carrying that timestamp (the same value when it is unique). -/
theorem C07_order_independent_gauge (t₁ t₂ : MTree α) (h₁ : ∀ m ∈ t₁.leaves, m.WF) (h₂ : ∀ m ∈ t₂.leaves, m.WF)
    (hp : t₁.leaves.Perm t₂.leaves) (k : Key) :
    match lookup k t₁.eval.gauges, lookup k t₂.eval.gauges with
    | none, none => True
    | some x, some y => x.ts = y.ts ∧
        (∃ l ∈ valsAt k (t₁.leaves.map (·.gauges)), l.ts = x.ts ∧ l.value = x.value) ∧
        (∃ l ∈ valsAt k (t₁.leaves.map (·.gauges)), l.ts = x.ts ∧ l.value = y.value) ∧
        ((∀ l l', l ∈ valsAt k (t₁.leaves.map (·.gauges)) → l' ∈ valsAt k (t₁.leaves.map (·.gauges)) →
            l.ts = x.ts → l'.ts = x.ts → l.value = l'.value) → x.value = y.value)
    | _, _ => False := by
  have a := (C07_tree t₁ h₁).2.2.1 k
  have b := (C07_tree t₂ h₂).2.2.1 k
  have hperm := valsAt_perm k _ _ (hp.map (·.gauges))
  cases h1 : lookup k t₁.eval.gauges <;> cases h2 : lookup k t₂.eval.gauges <;> simp only [h1, h2] at a b ⊢
  · rw [a] at hperm; have := hperm.symm.eq_nil; rw [this] at b
    exact absurd b.1.1 (by simp)
  · rw [b] at hperm; have := hperm.eq_nil; rw [this] at a
    exact absurd a.1.1 (by simp)
  · obtain ⟨a1, la, hla, hla1, hla2⟩ := a; obtain ⟨b1, lb, hlb, hlb1, hlb2⟩ := b
    have ets := isMax_unique _ _ _ (isMax_perm _ _ _ (hperm.map (·.ts)) a1) b1
    have hlb' := hperm.mem_iff.mpr hlb
    refine ⟨ets, ⟨la, hla, hla1, hla2⟩, ⟨lb, hlb', by rw [hlb1, ets], hlb2⟩, ?_⟩
    intro huniq
    rw [← hla2, ← hlb2]
    exact huniq la lb hla hlb' hla1 (by rw [hlb1, ets])

/-! ## Receive is Merge with a one-datapoint map; MergeMaps is a particular bracketing -/

theorem agg_upsert {ν} (Sum : ν → List ν → Prop) (F : Option ν → ν) (g : ν → ν) (s : ν) (k : Key)
    (hF0 : F none = s) (hF1 : ∀ w, F (some w) = g w)
    (base : Sum s [s]) (step : ∀ x xs, Sum x xs → Sum (g x) (xs ++ [s]))
    (a : AList Key ν) (xs : List (AList Key ν)) (ha : Agg Sum a xs) :
    Agg Sum (AList.upsert k F a) (xs ++ [[(k, s)]]) := by
  intro k'
  rw [lookup_upsert, valsAt_append]
  have ha' := ha k'
  by_cases hk : k = k'
  · subst hk
    have hv : valsAt k [[(k, s)]] = [s] := by simp [valsAt, lookup_cons]
    simp only [if_true, hv]
    cases hA : lookup k a <;> simp only [hA] at ha' ⊢
    · rw [ha', hF0]; simpa using base
    · rw [hF1]; exact step _ _ ha'
  · simp only [hk, if_false]
    have : valsAt k' [[(k, s)]] = ([] : List ν) := by simp [valsAt, lookup_cons, hk]
    rw [this, List.append_nil]
    exact ha'

theorem agg_append_empty {ν} (Sum : ν → List ν → Prop) (a : AList Key ν) (xs : List (AList Key ν))
    (ha : Agg Sum a xs) : Agg Sum a (xs ++ [[]]) := by
  intro k
  have hv : valsAt k ([[]] : List (AList Key ν)) = [] := by simp [valsAt]
  rw [valsAt_append, hv, List.append_nil]
  exact ha k

theorem recvCounter_eq (cnt ts : Int) (c : Counter) (src : String) (tags : List String) :
    recvCounter cnt ts c = mergeCounter c { value := cnt, ts := ts, src := src, tags := tags } := by
  simp [recvCounter, mergeCounter, bumpTs, cmp_MergeCounter, cmp_receiveCounter]

theorem recvTimer_eq (v inv : α) (ts : Int) (t : Timer α) (src : String) (tags : List String) :
    recvTimer v inv ts t = mergeTimer t { values := [v], sampled := inv, ts := ts, src := src, tags := tags } := by
  simp [recvTimer, mergeTimer, bumpTs, cmp_MergeTimer, cmp_receiveTimer]

theorem recvSet_eq (v : String) (ts : Int) (x : SetV) (src : String) (tags : List String) :
    recvSet v ts x = mergeSet x { members := [v], ts := ts, src := src, tags := tags } := by
  simp [recvSet, mergeSet, bumpTs, cmp_MergeSet, cmp_receiveSet, setUnion]

theorem gsum_recv (v : α) (ts : Int) (src : String) (tags : List String) (x : Gauge α) (xs : List (Gauge α))
    (hx : GSum x xs) : GSum (recvGauge v ts x) (xs ++ [{ value := v, ts := ts, src := src, tags := tags }]) := by
  obtain ⟨⟨hx1, hx2⟩, lx, hlx, hlx1, hlx2⟩ := hx
  have hc := cmp_receiveGauge ts x.ts
  unfold recvGauge
  split
  · rename_i h
    have hge := hc.1 h
    refine ⟨⟨by simp, ?_⟩, { value := v, ts := ts, src := src, tags := tags }, by simp, rfl, rfl⟩
    intro t ht
    simp only [List.map_append, List.mem_append, List.map_cons, List.map_nil, List.mem_singleton] at ht
    rcases ht with ht | ht
    · have := hx2 t ht; simp; omega
    · simp [ht]
  · rename_i h
    have hge : ¬ ts > x.ts := fun hlt => h (hc.2 hlt)
    refine ⟨⟨by simp; exact Or.inl (by simpa using hx1), ?_⟩, lx, by simp [hlx], hlx1, hlx2⟩
    intro t ht
    simp only [List.map_append, List.mem_append, List.map_cons, List.map_nil, List.mem_singleton] at ht
    rcases ht with ht | ht
    · exact hx2 t ht
    · omega

/-- **C07_receive_agg.**  Receiving a datapoint counts as merging one more leaf (the one-datapoint map):
if `m` aggregates the leaves `ls` then `Receive(m, d)` aggregates `ls ++ [single d]`. -/
theorem C07_receive_agg (ops : NumOps α) (m : MM α) (d : Dp α) (ls : List (MM α))
    (hc : Agg CSum m.counters (ls.map (·.counters))) (ht : Agg TSum m.timers (ls.map (·.timers)))
    (hg : Agg GSum m.gauges (ls.map (·.gauges))) (hs : Agg SSum m.sets (ls.map (·.sets))) :
    Agg CSum (MM.receive ops m d).counters ((ls ++ [MM.single ops d]).map (·.counters)) ∧
    Agg TSum (MM.receive ops m d).timers ((ls ++ [MM.single ops d]).map (·.timers)) ∧
    Agg GSum (MM.receive ops m d).gauges ((ls ++ [MM.single ops d]).map (·.gauges)) ∧
    Agg SSum (MM.receive ops m d).sets ((ls ++ [MM.single ops d]).map (·.sets)) := by
  simp only [List.map_append, List.map_cons, List.map_nil]
  cases hty : d.ty
  · -- counter
    simp only [MM.receive, MM.single, hty, MM.empty, AList.upsert]
    refine ⟨?_, agg_append_empty _ _ _ ht, agg_append_empty _ _ _ hg, agg_append_empty _ _ _ hs⟩
    refine agg_upsert CSum _ (recvCounter (ops.toCount d.value d.rate) d.ts) _ _ rfl (fun _ => rfl) (csum_base _) ?_ _ _ hc
    intro x xs hx
    rw [recvCounter_eq _ _ _ d.src d.tags]
    exact csum_step _ _ _ _ hx (csum_base _)
  · -- timer
    simp only [MM.receive, MM.single, hty, MM.empty, AList.upsert]
    refine ⟨agg_append_empty _ _ _ hc, ?_, agg_append_empty _ _ _ hg, agg_append_empty _ _ _ hs⟩
    refine agg_upsert TSum _ (recvTimer d.value (ops.invRate d.rate) d.ts) _ _ rfl (fun _ => rfl) (tsum_base _) ?_ _ _ ht
    intro x xs hx
    rw [recvTimer_eq _ _ _ _ d.src d.tags]
    exact tsum_step _ _ _ _ hx (tsum_base _)
  · -- gauge
    simp only [MM.receive, MM.single, hty, MM.empty, AList.upsert]
    refine ⟨agg_append_empty _ _ _ hc, agg_append_empty _ _ _ ht, ?_, agg_append_empty _ _ _ hs⟩
    refine agg_upsert GSum _ (recvGauge d.value d.ts) _ _ rfl (fun _ => rfl) (gsum_base _) ?_ _ _ hg
    intro x xs hx
    exact gsum_recv _ _ _ _ _ _ hx
  · -- set
    simp only [MM.receive, MM.single, hty, MM.empty, AList.upsert]
    refine ⟨agg_append_empty _ _ _ hc, agg_append_empty _ _ _ ht, agg_append_empty _ _ _ hg, ?_⟩
    refine agg_upsert SSum _ (recvSet d.sval d.ts) _ _ rfl (fun _ => rfl) (ssum_base _) ?_ _ _ hs
    intro x xs hx
    rw [recvSet_eq _ _ _ d.src d.tags]
    exact ssum_step _ _ _ _ hx (ssum_base _)

/-! ## bundles, MergeMaps, Receive of a list, and the consolidator -/

/-- `m` aggregates the leaf maps `ls` in all four types -/
def AggMM (m : MM α) (ls : List (MM α)) : Prop :=
  Agg CSum m.counters (ls.map (·.counters)) ∧ Agg TSum m.timers (ls.map (·.timers)) ∧
  Agg GSum m.gauges (ls.map (·.gauges)) ∧ Agg SSum m.sets (ls.map (·.sets))

theorem aggMM_empty : AggMM (MM.empty : MM α) [] := ⟨agg_nil _, agg_nil _, agg_nil _, agg_nil _⟩

theorem aggMM_leaf (m : MM α) : AggMM m [m] :=
  ⟨agg_leaf _ csum_base _, agg_leaf _ tsum_base _, agg_leaf _ gsum_base _, agg_leaf _ ssum_base _⟩

theorem aggMM_merge (a b : MM α) (xs ys : List (MM α)) (ha : AggMM a xs) (hb : AggMM b ys) (hw : b.WF) :
    AggMM (MM.merge a b) (xs ++ ys) := by
  simp only [AggMM, List.map_append, MM.merge]
  exact ⟨agg_merge _ _ csum_step _ _ _ _ ha.1 hb.1 hw.1, agg_merge _ _ tsum_step _ _ _ _ ha.2.1 hb.2.1 hw.2.1,
         agg_merge _ _ gsum_step _ _ _ _ ha.2.2.1 hb.2.2.1 hw.2.2.1, agg_merge _ _ ssum_step _ _ _ _ ha.2.2.2 hb.2.2.2 hw.2.2.2⟩

theorem aggMM_receive (ops : NumOps α) (m : MM α) (d : Dp α) (ls : List (MM α)) (h : AggMM m ls) :
    AggMM (MM.receive ops m d) (ls ++ [MM.single ops d]) :=
  C07_receive_agg ops m d ls h.1 h.2.1 h.2.2.1 h.2.2.2

theorem receive_wf (ops : NumOps α) (m : MM α) (d : Dp α) (h : m.WF) : (MM.receive ops m d).WF := by
  obtain ⟨h1, h2, h3, h4⟩ := h
  unfold MM.receive
  cases d.ty <;> simp only [MMap.WF] <;>
    first
    | exact ⟨nodupKeys_upsert _ _ h1, h2, h3, h4⟩
    | exact ⟨h1, nodupKeys_upsert _ _ h2, h3, h4⟩
    | exact ⟨h1, h2, nodupKeys_upsert _ _ h3, h4⟩
    | exact ⟨h1, h2, h3, nodupKeys_upsert _ _ h4⟩

theorem empty_wf : (MM.empty : MM α).WF := ⟨List.nodup_nil, List.nodup_nil, List.nodup_nil, List.nodup_nil⟩

theorem aggMM_receiveAll (ops : NumOps α) (m : MM α) (ds : List (Dp α)) (ls : List (MM α)) (h : AggMM m ls) :
    AggMM (MM.receiveAll ops m ds) (ls ++ ds.map (MM.single ops)) := by
  induction ds generalizing m ls with
  | nil => simpa [MM.receiveAll] using h
  | cons d t ih =>
    have := ih (MM.receive ops m d) (ls ++ [MM.single ops d]) (aggMM_receive ops m d ls h)
    simpa [MM.receiveAll, List.append_assoc] using this

theorem receiveAll_wf (ops : NumOps α) (m : MM α) (ds : List (Dp α)) (h : m.WF) : (MM.receiveAll ops m ds).WF := by
  induction ds generalizing m with
  | nil => simpa [MM.receiveAll] using h
  | cons d t ih => exact ih _ (receive_wf ops m d h)

theorem aggMM_foldl_merge (acc : MM α) (l0 ms : List (MM α)) (h : AggMM acc l0) (hw : ∀ m ∈ ms, m.WF) :
    AggMM (ms.foldl MM.merge acc) (l0 ++ ms) := by
  induction ms generalizing acc l0 with
  | nil => simpa using h
  | cons m t ih =>
    have := ih (MM.merge acc m) (l0 ++ [m]) (aggMM_merge _ _ _ _ h (aggMM_leaf m) (hw m (by simp)))
      (fun x hx => hw x (by simp [hx]))
    simpa [List.append_assoc] using this

/-- **C07_mergeMaps.**  `MergeMaps` of any slice of (well-formed) maps aggregates exactly those maps. -/
theorem C07_mergeMaps (ms : List (MM α)) (hw : ∀ m ∈ ms, m.WF) : AggMM (MM.mergeMaps ms) ms := by
  have := aggMM_foldl_merge MM.empty [] ms aggMM_empty hw
  simpa [MM.mergeMaps] using this

/-- **C07_receiveAll.**  A map built from a datagram's datapoints aggregates the one-datapoint maps. -/
theorem C07_receiveAll (ops : NumOps α) (ds : List (Dp α)) :
    AggMM (MM.receiveAll ops MM.empty ds) (ds.map (MM.single ops)) := by
  simpa using aggMM_receiveAll ops MM.empty ds [] aggMM_empty

/-! ### consolidator: ghost histories per slot -/

/-- slots paired with the list of leaves merged into each so far -/
private def gstep (ops : NumOps α) (st : List (MM α × List (MM α))) : COp α → List (MM α × List (MM α))
  | .map i m => st.modify (i % st.length) (fun p => (MM.merge p.1 m, p.2 ++ [m]))
  | .dps i ds => st.modify (i % st.length) (fun p => (MM.receiveAll ops p.1 ds, p.2 ++ ds.map (MM.single ops)))

private theorem map_fst_modify {β γ} (l : List (β × γ)) (i : Nat) (f : β → β) (g : β × γ → γ) :
    (l.modify i (fun p => (f p.1, g p))).map Prod.fst = (l.map Prod.fst).modify i f := by
  induction l generalizing i with
  | nil => simp
  | cons x t ih => cases i <;> simp [List.modify_zero_cons, List.modify_succ_cons, ih]

private theorem gstep_fst (ops : NumOps α) (st : List (MM α × List (MM α))) (op : COp α) :
    (gstep ops st op).map Prod.fst = Consolidator.step ops (st.map Prod.fst) op := by
  cases op with
  | map i m =>
    simp only [gstep, Consolidator.step, List.length_map]
    exact map_fst_modify st _ (fun s => MM.merge s m) (fun p => p.2 ++ [m])
  | dps i ds =>
    simp only [gstep, Consolidator.step, List.length_map]
    exact map_fst_modify st _ (fun s => MM.receiveAll ops s ds) (fun p => p.2 ++ ds.map (MM.single ops))

private theorem flatten_snd_modify {β γ} (l : List (β × List γ)) (i : Nat) (hi : i < l.length) (f : β → β) (x : List γ) :
    ((l.modify i (fun p => (f p.1, p.2 ++ x))).map Prod.snd).flatten.Perm ((l.map Prod.snd).flatten ++ x) := by
  induction l generalizing i with
  | nil => simp at hi
  | cons p t ih =>
    cases i with
    | zero =>
      simp only [List.modify_zero_cons, List.map_cons, List.flatten_cons, List.append_assoc]
      exact List.Perm.append_left _ List.perm_append_comm
    | succ j =>
      simp only [List.modify_succ_cons, List.map_cons, List.flatten_cons, List.append_assoc]
      exact List.Perm.append_left _ (ih j (by simpa using hi))

private theorem mem_modify {β} (l : List β) (i : Nat) (f : β → β) (y : β) (hy : y ∈ l.modify i f) :
    y ∈ l ∨ ∃ x ∈ l, y = f x := by
  induction l generalizing i with
  | nil => simp at hy
  | cons x t ih =>
    cases i with
    | zero =>
      simp only [List.modify_zero_cons, List.mem_cons] at hy
      rcases hy with h | h
      · exact Or.inr ⟨x, by simp, h⟩
      · exact Or.inl (by simp [h])
    | succ j =>
      simp only [List.modify_succ_cons, List.mem_cons] at hy
      rcases hy with h | h
      · exact Or.inl (by simp [h])
      · rcases ih j h with h' | ⟨z, hz, e⟩
        · exact Or.inl (by simp [h'])
        · exact Or.inr ⟨z, by simp [hz], e⟩

private def GInv (st : List (MM α × List (MM α))) : Prop :=
  ∀ p ∈ st, AggMM p.1 p.2 ∧ p.1.WF

/-- **C07_slots.**  For every number of slots `k ≥ 1`, every sequence of `ReceiveMetricMap` /
`ReceiveMetrics` calls and every assignment of calls to slots, what the flush obtains
(`MergeMaps(Drain())`) aggregates a permutation of everything that was received. -/
theorem C07_slots (ops : NumOps α) (k : Nat) (hk : 0 < k) (prog : List (COp α))
    (hw : ∀ op ∈ prog, ∀ m ∈ Consolidator.leavesOf ops op, m.WF) :
    ∃ L : List (MM α), L.Perm (prog.flatMap (Consolidator.leavesOf ops)) ∧
      AggMM (Consolidator.drainMerged ops k prog) L := by
  -- ghost run
  have key : ∀ (prog : List (COp α)) (st : List (MM α × List (MM α))) (done : List (MM α)),
      st.length = k → GInv st → ((st.map Prod.snd).flatten).Perm done →
      (∀ op ∈ prog, ∀ m ∈ Consolidator.leavesOf ops op, m.WF) →
      ∃ st', st'.map Prod.fst = prog.foldl (Consolidator.step ops) (st.map Prod.fst) ∧ GInv st' ∧
        ((st'.map Prod.snd).flatten).Perm (done ++ prog.flatMap (Consolidator.leavesOf ops)) := by
    intro prog
    induction prog with
    | nil => intro st done _ hinv hperm _; exact ⟨st, rfl, hinv, by simpa using hperm⟩
    | cons op t ih =>
      intro st done hlen hinv hperm hwf
      have hidx : ∀ i, i % st.length < st.length := fun i => Nat.mod_lt _ (by omega)
      have hlen' : (gstep ops st op).length = k := by cases op <;> simp [gstep, hlen]
      have hinv' : GInv (gstep ops st op) := by
        intro p hp
        cases op with
        | map i m =>
          rcases mem_modify _ _ _ _ hp with h | ⟨q, hq, rfl⟩
          · exact hinv p h
          · simp only
            have hm : m.WF := hwf (COp.map i m) (by simp) m (by simp [Consolidator.leavesOf])
            exact ⟨aggMM_merge _ _ _ _ (hinv q hq).1 (aggMM_leaf m) hm, C07_merge_wf _ _ (hinv q hq).2⟩
        | dps i ds =>
          rcases mem_modify _ _ _ _ hp with h | ⟨q, hq, rfl⟩
          · exact hinv p h
          · simp only
            exact ⟨aggMM_receiveAll ops _ ds _ (hinv q hq).1, receiveAll_wf ops _ ds (hinv q hq).2⟩
      have hperm' : (((gstep ops st op).map Prod.snd).flatten).Perm (done ++ Consolidator.leavesOf ops op) := by
        cases op with
        | map i m =>
          exact (flatten_snd_modify st _ (hidx i) (fun s => MM.merge s m) [m]).trans (List.Perm.append_right _ hperm)
        | dps i ds =>
          exact (flatten_snd_modify st _ (hidx i) (fun s => MM.receiveAll ops s ds) (ds.map (MM.single ops))).trans (List.Perm.append_right _ hperm)
      obtain ⟨st', h1, h2, h3⟩ := ih (gstep ops st op) (done ++ Consolidator.leavesOf ops op) hlen' hinv' hperm'
        (fun o ho => hwf o (by simp [ho]))
      refine ⟨st', ?_, h2, ?_⟩
      · rw [h1, gstep_fst]; rfl
      · simpa [List.flatMap_cons, List.append_assoc] using h3
  obtain ⟨st', h1, h2, h3⟩ := key prog (List.replicate k (MM.empty, [])) [] (by simp)
    (by intro p hp; simp at hp; rw [hp.2]; exact ⟨aggMM_empty, empty_wf⟩)
    (by simp) hw
  refine ⟨(st'.map Prod.snd).flatten, by simpa using h3, ?_⟩
  have hrun : Consolidator.run ops k prog = st'.map Prod.fst := by
    rw [h1]; simp [Consolidator.run, Consolidator.init]
  unfold Consolidator.drainMerged MM.mergeMaps
  rw [hrun]
  -- fold the slots, each aggregating its own history
  have fold : ∀ (st : List (MM α × List (MM α))) (acc : MM α) (l0 : List (MM α)), GInv st → AggMM acc l0 →
      AggMM ((st.map Prod.fst).foldl MM.merge acc) (l0 ++ (st.map Prod.snd).flatten) := by
    intro st
    induction st with
    | nil => intro acc l0 _ h; simpa using h
    | cons p t ih =>
      intro acc l0 hinv h
      have hp := hinv p (by simp)
      have := ih (MM.merge acc p.1) (l0 ++ p.2) (fun q hq => hinv q (by simp [hq]))
        (aggMM_merge _ _ _ _ h hp.1 hp.2)
      simpa [List.append_assoc] using this
  simpa using fold st' MM.empty [] h2 aggMM_empty

/-! ## non-vacuity -/

/-- a concrete program: two leaves sharing a counter series and a gauge series with equal timestamps.  On equal
timestamps the gauge keeps the value of one of the two datapoints — which one depends on whether the source compares
strictly (`Facts.rel_MergeGauge`); either satisfies C07, so the example says "one of them", not which. -/
example :
    let a : MM Int := { counters := [(("c", ""), { value := 2, ts := 5, src := "", tags := [] })],
                        gauges := [(("g", ""), { value := 1, ts := 7, src := "", tags := [] })] }
    let b : MM Int := { counters := [(("c", ""), { value := 3, ts := 9, src := "", tags := [] })],
                        gauges := [(("g", ""), { value := 2, ts := 7, src := "", tags := [] })] }
    a.WF ∧ b.WF ∧
    (lookup ("c", "") (MM.merge a b).counters).map (fun c => (c.value, c.ts)) = some (5, 9) ∧
    (lookup ("c", "") (MM.merge b a).counters).map (fun c => (c.value, c.ts)) = some (5, 9) ∧
    ((lookup ("g", "") (MM.merge a b).gauges).map (fun g => (g.value, g.ts)) ∈ [some (1, 7), some (2, 7)]) ∧
    ((lookup ("g", "") (MM.merge b a).gauges).map (fun g => (g.value, g.ts)) ∈ [some (1, 7), some (2, 7)]) := by
  refine ⟨⟨by decide, by decide, by decide, by decide⟩, ⟨by decide, by decide, by decide, by decide⟩, ?_, ?_, ?_, ?_⟩ <;> decide

end Gsd
