import Gsd.Proofs.Lemmas.Forward
/-!
# C14 — what a forwarder encodes is what the ingesting server decodes

Property theorems only.  `α` (the float type) is arbitrary: no arithmetic happens on the way, values
are copied.  `MMap.WF` = a Go map holds every series key once ("well-formed keys").  The wire codec
and the compressors are parameters (`Lib`); `C14_end_to_end` names the only hypotheses about them.
-/
set_option linter.unusedSimpArgs false
set_option linter.unusedSectionVars false
namespace Gsd
open AList

variable {α : Type}

/-- **C14_roundtrip.**  For every map with well-formed keys, every series identity `k` and every
receiver clock value `now`: the decoded map holds, under the *same* key (the tagsKey is carried, not
recomputed), the same series with the same tags (incl. the empty list), the same source (incl. the
empty one), the same counter / gauge value, the timer's values in the same order and its sampled
count, the set's members — only the timestamp is the receiver's.  Nothing else is in the decoded map
(a key absent from the input is absent from the output). -/
theorem C14_roundtrip (now : Int) (m : MM α) (hm : m.WF) (k : Key) :
    lookup k (fromPB now (toPB m)).counters = (lookup k m.counters).map (Counter.restamp now) ∧
    lookup k (fromPB now (toPB m)).gauges   = (lookup k m.gauges).map (Gauge.restamp now) ∧
    lookup k (fromPB now (toPB m)).timers   = (lookup k m.timers).map (Timer.restamp now) ∧
    lookup k (fromPB now (toPB m)).sets     = (lookup k m.sets).map (SetV.restamp now) := by
  obtain ⟨h1, h2, h3, h4⟩ := hm
  simp only [fromPB, toPB]
  refine ⟨?_, ?_, ?_, ?_⟩
  · rw [lookup_unnest_nest _ _ _ h1]; rfl
  · rw [lookup_unnest_nest _ _ _ h3]; rfl
  · rw [lookup_unnest_nest _ _ _ h2]; rfl
  · rw [lookup_unnest_nest _ _ _ h4]; rfl

/-- the decoded map is again a well-formed map (no series twice), whatever the input -/
theorem C14_roundtrip_wf (now : Int) (m : MM α) : (fromPB now (toPB m)).WF :=
  ⟨nodupKeys_unnest _ _ (wf_nest _ _), nodupKeys_unnest _ _ (wf_nest _ _),
   nodupKeys_unnest _ _ (wf_nest _ _), nodupKeys_unnest _ _ (wf_nest _ _)⟩

/-- **C14_fields.**  What "modulo timestamps" means, field by field: `restamp` changes nothing but the
timestamp; for sets the members are the same *set*, and the same list when the input had no duplicates
(a Go `map[string]struct{}` never has). -/
theorem C14_fields (now : Int) (c : Counter) (g : Gauge α) (t : Timer α) (s : SetV) :
    ((c.restamp now).value = c.value ∧ (c.restamp now).src = c.src ∧ (c.restamp now).tags = c.tags ∧ (c.restamp now).ts = now) ∧
    ((g.restamp now).value = g.value ∧ (g.restamp now).src = g.src ∧ (g.restamp now).tags = g.tags ∧ (g.restamp now).ts = now) ∧
    ((t.restamp now).values = t.values ∧ (t.restamp now).sampled = t.sampled ∧ (t.restamp now).src = t.src ∧
      (t.restamp now).tags = t.tags ∧ (t.restamp now).ts = now) ∧
    ((∀ x, x ∈ (s.restamp now).members ↔ x ∈ s.members) ∧ (s.members.Nodup → (s.restamp now).members = s.members) ∧
      (s.restamp now).members.Nodup ∧ (s.restamp now).src = s.src ∧ (s.restamp now).tags = s.tags ∧ (s.restamp now).ts = now) := by
  refine ⟨⟨rfl, rfl, rfl, rfl⟩, ⟨rfl, rfl, rfl, rfl⟩, ⟨rfl, rfl, rfl, rfl, rfl⟩, ?_, ?_, ?_, rfl, rfl, rfl⟩
  · intro x; simp [SetV.restamp, mem_setUnion]
  · intro h; simp [SetV.restamp, setUnion_nil_of_nodup _ h]
  · exact nodup_setUnion _ _ List.nodup_nil

/-- **C14_keys.**  Same series keys: a key is in the decoded map iff it was in the input (per type). -/
theorem C14_keys (now : Int) (m : MM α) (hm : m.WF) (k : Key) :
    ((lookup k (fromPB now (toPB m)).counters).isSome = (lookup k m.counters).isSome) ∧
    ((lookup k (fromPB now (toPB m)).gauges).isSome = (lookup k m.gauges).isSome) ∧
    ((lookup k (fromPB now (toPB m)).timers).isSome = (lookup k m.timers).isSome) ∧
    ((lookup k (fromPB now (toPB m)).sets).isSome = (lookup k m.sets).isSome) := by
  obtain ⟨a, b, c, d⟩ := C14_roundtrip now m hm k
  rw [a, b, c, d]
  simp

/-- **C14_event_roundtrip.**  All nine fields of an event survive; the two enums are normalised to
their defaults when (and only when) they were outside their range — for in-range values the event
is returned unchanged. -/
theorem C14_event_roundtrip (e : Event) :
    eventFromPB (eventToPB e) =
      { e with priority := if e.priority = 1 then 1 else 0,
               alert := if e.alert = 1 ∨ e.alert = 2 ∨ e.alert = 3 then e.alert else 0 } ∧
    (e.priority ≤ 1 → e.alert ≤ 3 → eventFromPB (eventToPB e) = e) := by
  have hp : priFromPB (priToPB e.priority) = if e.priority = 1 then 1 else 0 := by
    unfold priFromPB priToPB; split <;> simp
  have ha : alertFromPB (alertToPB e.alert) = if e.alert = 1 ∨ e.alert = 2 ∨ e.alert = 3 then e.alert else 0 := by
    unfold alertFromPB alertToPB
    by_cases h1 : e.alert = 1
    · simp [h1]
    · by_cases h2 : e.alert = 2
      · simp [h2]
      · by_cases h3 : e.alert = 3
        · simp [h3]
        · simp [h1, h2, h3]
  refine ⟨?_, ?_⟩
  · simp only [eventFromPB, eventToPB, hp, ha]
  · intro h1 h2
    obtain ⟨title, text, date, aggKey, srcType, tags, source, priority, alert⟩ := e
    simp only [eventFromPB, eventToPB, hp, ha, Event.mk.injEq, true_and]
    simp only at h1 h2
    refine ⟨?_, ?_⟩
    · split <;> omega
    · split <;> omega

/-- **C14_event_enums_total.**  Whatever enum numbers arrive on the wire (proto3 enums are open), the
decoded event carries values of the two Go enums; known numbers map to themselves. -/
theorem C14_event_enums_total (p : PBEvent) :
    (eventFromPB p).priority ≤ 1 ∧ (eventFromPB p).alert ≤ 3 ∧
    (p.priority = 0 ∨ p.priority = 1 → ((eventFromPB p).priority : Int) = p.priority) ∧
    (0 ≤ p.type ∧ p.type ≤ 3 → ((eventFromPB p).alert : Int) = p.type) := by
  refine ⟨?_, ?_, ?_, ?_⟩
  · simp only [eventFromPB, priFromPB]; split <;> omega
  · simp only [eventFromPB, alertFromPB]; split <;> (try split) <;> (try split) <;> omega
  · intro h; simp only [eventFromPB, priFromPB]; split <;> omega
  · intro h; simp only [eventFromPB, alertFromPB]; split <;> (try split) <;> (try split) <;> omega

/-- **C14_bad_body.**  The ingestion handler, for every request and every behaviour of the three
library calls: if the body cannot be read, the `Content-Encoding` is unknown, decompression fails or
the message does not unmarshal, the answer is a 4xx/5xx status and **nothing** is dispatched;
otherwise the decoded message is dispatched exactly once and the answer is 2xx. -/
theorem C14_bad_body {Msg Out : Type} (lib : Lib Msg) (tr : Msg → Out) (rq : Request) :
    match decodes lib rq with
    | none => 400 ≤ (ingest lib tr rq).1 ∧ (ingest lib tr rq).1 < 600 ∧ (ingest lib tr rq).2 = []
    | some msg => 200 ≤ (ingest lib tr rq).1 ∧ (ingest lib tr rq).1 < 300 ∧ (ingest lib tr rq).2 = [tr msg] := by
  unfold decodes ingest
  cases hr : readBody lib rq with
  | error c =>
    have : c = 500 ∨ c = 400 := by
      unfold readBody at hr
      split at hr
      · injection hr with h; exact Or.inl h.symm
      · split at hr
        · split at hr <;> first | (injection hr with h; exact Or.inr h.symm) | cases hr
        · split at hr
          · split at hr <;> first | (injection hr with h; exact Or.inr h.symm) | cases hr
          · split at hr
            · cases hr
            · injection hr with h; exact Or.inr h.symm
    rcases this with h | h <;> simp [h]
  | ok b =>
    cases hu : lib.unmarshal b <;> simp [hu]

/-- which failures there are: the request decodes iff the body was read, the encoding is one of
`deflate` / `lz4` / `identity` / absent, the selected decompressor succeeds and unmarshal succeeds -/
theorem C14_decodes_iff {Msg : Type} (lib : Lib Msg) (rq : Request) (msg : Msg) :
    decodes lib rq = some msg ↔
      ∃ b, rq.body = some b ∧
        ((rq.encoding = zlibEncoding ∧ ∃ x, lib.inflate b = some x ∧ lib.unmarshal x = some msg) ∨
         (rq.encoding = lz4Encoding ∧ ∃ x, lib.lz4d b = some x ∧ lib.unmarshal x = some msg) ∨
         ((rq.encoding = "identity" ∨ rq.encoding = "") ∧ lib.unmarshal b = some msg)) := by
  unfold decodes readBody
  cases hb : rq.body with
  | none => simp
  | some b =>
    simp only [Option.some.injEq, exists_eq_left']
    by_cases h1 : rq.encoding = zlibEncoding
    · have hz : ¬ rq.encoding = lz4Encoding := by rw [h1]; decide
      have hi : ¬ (rq.encoding = "identity" ∨ rq.encoding = "") := by rw [h1]; decide
      simp only [h1, if_true]
      cases lib.inflate b <;> simp_all
    · by_cases h2 : rq.encoding = lz4Encoding
      · have hi : ¬ (rq.encoding = "identity" ∨ rq.encoding = "") := by rw [h2]; decide
        simp only [h1, h2, if_true, if_false]
        cases lib.lz4d b <;> simp_all
      · by_cases h3 : rq.encoding = "identity" ∨ rq.encoding = ""
        · simp [h1, h2, h3]
        · simp [h1, h2, h3]

/-- **C14_end_to_end_partial.**  The two halves composed, for every compression setting and level.
*Partial*: the wire codec and the compressors are not modelled; the theorem names what is assumed of
them — on this message `unmarshal ∘ marshal` is the identity, and each decompressor inverts its
compressor at the configured level (these are what the correspondence run exercises with the real
libraries).  Then a non-empty map handed to the forwarder produces one request that the ingesting
server answers with 202 and whose single dispatched map is `fromPB now (toPB m)` (C14_roundtrip),
with the `Content-Encoding` the configuration prescribes. -/
theorem C14_end_to_end_partial (lib : Lib (PBMap α)) (cfg : FwdCfg) (now : Int) (m : MM α)
    (hne : m.isEmpty = false) (raw : Bytes)
    (hmar : lib.marshal (toPB m) = some raw) (hun : lib.unmarshal raw = some (toPB m))
    (hz : ∀ z, lib.deflate cfg.level raw = some z → lib.inflate z = some raw)
    (hl : ∀ z, lib.lz4c cfg.level raw = some z → lib.lz4d z = some raw)
    (hzc : ∃ z, lib.deflate cfg.level raw = some z) (hlc : ∃ z, lib.lz4c cfg.level raw = some z) :
    ∃ body, forwardMap lib cfg m = some (contentEncoding cfg, body) ∧
      ingest lib (fromPB now) { body := some body, encoding := contentEncoding cfg } = (202, [fromPB now (toPB m)]) := by
  unfold forwardMap constructPost contentEncoding
  simp only [hne, hmar]
  by_cases hc : (cfg.compress && cfg.ctype != CType.none) = true
  · simp only [hc, if_true]
    by_cases hl4 : cfg.ctype = CType.lz4
    · obtain ⟨z, hz'⟩ := hlc
      refine ⟨z, by simp [hl4, hz'], ?_⟩
      have : ¬ lz4Encoding = zlibEncoding := by decide
      simp [ingest, readBody, hl4, this, hl z hz', hun]
    · obtain ⟨z, hz'⟩ := hzc
      refine ⟨z, by simp [hl4, hz'], ?_⟩
      simp [ingest, readBody, hl4, hz z hz', hun]
  · simp only [hc]
    refine ⟨raw, by simp, ?_⟩
    have h1 : ¬ "identity" = zlibEncoding := by decide
    have h2 : ¬ "identity" = lz4Encoding := by decide
    simp [ingest, readBody, h1, h2, hun]

/-! ## non-vacuity -/

/-- a concrete map with all four types, an empty tag list, an empty source, a timer whose sampled count
differs from its number of values, and a tagsKey that is *not* the one derived from the tags -/
example :
    let m : MM Int :=
      { counters := [(("c", "t:1,s:h"), { value := 9223372036854775807, ts := 5, src := "h", tags := ["t:1"] }),
                     (("c", ""), { value := -3, ts := 6, src := "", tags := [] })],
        gauges := [(("g", "odd-key"), { value := -7, ts := 7, src := "", tags := ["a", "b"] })],
        timers := [(("t", ""), { values := [3, 1, 2], sampled := 30, ts := 8, src := "", tags := [] })],
        sets := [(("s", ""), { members := ["x", ""], ts := 9, src := "", tags := [] })] }
    m.WF ∧
    (lookup ("c", "t:1,s:h") (fromPB 100 (toPB m)).counters) = some { value := 9223372036854775807, ts := 100, src := "h", tags := ["t:1"] } ∧
    (lookup ("g", "odd-key") (fromPB 100 (toPB m)).gauges).map (fun g => (g.value, g.tags)) = some (-7, ["a", "b"]) ∧
    (lookup ("t", "") (fromPB 100 (toPB m)).timers).map (fun t => (t.values, t.sampled)) = some ([3, 1, 2], 30) ∧
    (lookup ("s", "") (fromPB 100 (toPB m)).sets).map (·.members) = some ["x", ""] := by
  refine ⟨⟨by decide, by decide, by decide, by decide⟩, by decide, by decide, by decide, by decide⟩

/-- events: an out-of-range priority / alert type comes back as the default, in-range ones unchanged -/
example :
    let e : Event := { title := "t", text := "x\ny", date := 12, aggKey := "k", srcType := "s", tags := ["a"], source := "h",
                       priority := 1, alert := 3 }
    eventFromPB (eventToPB e) = e ∧
    (eventFromPB (eventToPB { e with priority := 7, alert := 200 })) = { e with priority := 0, alert := 0 } ∧
    (eventFromPB { eventToPB e with priority := -1, type := 99 }).priority = 0 := by
  refine ⟨by decide, by decide, by decide⟩

/-- the decision table on concrete library behaviours -/
example :
    let lib : Lib Nat := { marshal := fun _ => none, unmarshal := fun b => if b = [1] then some 7 else none,
                           deflate := fun _ _ => none, inflate := fun b => if b = [9] then some [1] else none,
                           lz4c := fun _ _ => none, lz4d := fun _ => none }
    ingest lib id { body := some [9], encoding := "deflate" } = (202, [7]) ∧
    ingest lib id { body := some [9], encoding := "lz4" } = (400, []) ∧
    ingest lib id { body := some [9], encoding := "" } = (400, []) ∧
    ingest lib id { body := some [1], encoding := "identity" } = (202, [7]) ∧
    ingest lib id { body := some [1], encoding := "gzip" } = (400, []) ∧
    ingest lib id { body := none, encoding := "identity" } = (500, []) := by
  refine ⟨by decide, by decide, by decide, by decide, by decide, by decide⟩

end Gsd
