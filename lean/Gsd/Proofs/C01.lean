import Gsd.Proofs.Lemmas.PipelineKeys
import Mathlib.Algebra.Order.Group.Multiset
/-!
# C01 — every datapoint lands in exactly one flush

`Pipeline.step` is the transition system of parser → split/dispatch → worker queues → aggregates →
flush views.  The theorems hold for **every** action list (every interleaving of arrivals, queue
sends, queue receives and per-shard flushes), every shard count `n ≥ 1`, every routing function and
every expiry decision at every flush.  Arithmetic is exact (`α` an additive commutative monoid).
-/
set_option linter.unusedSimpArgs false
set_option linter.unusedSectionVars false
namespace Gsd
open AList
variable {α : Type} [AddCommMonoid α]

namespace Pipeline

/-- one step preserves "flushed + aggregates + queues + pending = arrived" for every additive measure -/
theorem ledger_step {M} (ms : Measure α M) (ops : NumOps α) (h : Key → Nat) (n : Nat) (hn : 0 < n)
    (s s' : State α) (a : Action α) (hinv : Inv n s) (hs : step ops h n s a = some s')
    (hl : total ms s = ms.C.fold (s.arrived.map ms.μ)) :
    total ms s' = ms.C.fold (s'.arrived.map ms.μ) := by
  obtain ⟨h1, h2, h3, h4, h5⟩ := hinv
  have C := ms.C
  cases a with
  | arrive ds =>
    simp only [step, Option.some.injEq] at hs; subst hs
    have hwf : (MM.receiveAll ops MM.empty ds).WF := receiveAll_wf ops _ ds empty_wf
    simp only [total, List.map_append, CMon.fold_append, ms.split h n _ hn hwf, List.map_cons, List.map_nil,
      CMon.fold_singleton] at hl ⊢
    rw [← hl]
    simp only [ms.C.assoc]
  | enqueue j =>
    simp only [step] at hs
    cases hj : s.pending[j]? with
    | none => simp [hj] at hs
    | some ip =>
      obtain ⟨i, p⟩ := ip
      simp only [hj] at hs
      split at hs
      · rename_i hi
        simp only [Option.some.injEq] at hs; subst hs
        have e1 := ms.C.fold_eraseIdx (s.pending.map (fun p => ms.μ p.2)) j (ms.μ p) (by simp [hj])
        have e2 := ms.C.fold_modify (fun q => ms.C.fold (q.map ms.μ)) s.queues i (· ++ [p]) (ms.μ p) hi
          (by intro q; simp [CMon.fold_append, ms.C.id_right])
        simp only [total] at hl ⊢
        rw [← hl, e1, e2, List.eraseIdx_map]
        generalize ms.C.fold (List.map (fun p => ms.μ p.2) s.flushed) = F
        generalize ms.C.fold (List.map ms.μ s.aggs) = A
        generalize ms.C.fold (List.map (fun q => ms.C.fold (List.map ms.μ q)) s.queues) = Q
        generalize ms.C.fold (List.map (fun p => ms.μ p.2) (s.pending.eraseIdx j)) = P
        generalize ms.μ p = x
        rw [ms.C.assoc Q x P]
      · simp at hs
  | deliver i =>
    simp only [step] at hs
    cases hq : s.queues[i]? with
    | none => simp [hq] at hs
    | some q =>
      cases q with
      | nil => simp [hq] at hs
      | cons p rest =>
        simp only [hq] at hs
        split at hs
        · rename_i hi
          simp only [Option.some.injEq] at hs; subst hs
          have hqmem : (p :: rest) ∈ s.queues := List.mem_of_getElem? hq
          have hp : p.WF := h2 _ hqmem p (by simp)
          have e1 := ms.C.fold_set (fun q => ms.C.fold (q.map ms.μ)) s.queues i rest (ms.μ p) (p :: rest) hq
            (by simp; rw [ms.C.comm])
          have e2 := ms.C.fold_modify ms.μ s.aggs i (fun a => MM.merge a p) (ms.μ p) hi
            (by intro a; exact ms.merge a p hp)
          simp only [total] at hl ⊢
          rw [← hl, e1, e2]
          generalize ms.C.fold (List.map (fun p => ms.μ p.2) s.flushed) = F
          generalize ms.C.fold (List.map ms.μ s.aggs) = A
          generalize ms.C.fold (List.map (fun q => ms.C.fold (List.map ms.μ q)) (s.queues.set i rest)) = Q
          generalize ms.C.fold (List.map (fun p => ms.μ p.2) s.pending) = P
          generalize ms.μ p = x
          rw [← ms.C.assoc F A x, ms.C.assoc (ms.C.op F A) x, ms.C.assoc Q x P, ← ms.C.assoc x Q P, ms.C.comm x Q]
          rw [ms.C.assoc Q x P]
        · simp at hs
  | flushShard i ex =>
    simp only [step] at hs
    cases ha : s.aggs[i]? with
    | none => simp [ha] at hs
    | some a =>
      simp only [ha, Option.some.injEq] at hs; subst hs
      have hamem : a ∈ s.aggs := List.mem_of_getElem? ha
      have e1 := ms.C.fold_set ms.μ s.aggs i (reset ex a) (ms.μ a) a ha
        (by rw [ms.reset ex a (h3 a hamem), ms.C.id_left])
      simp only [total, List.map_append, CMon.fold_append, List.map_cons, List.map_nil, CMon.fold_singleton] at hl ⊢
      rw [← hl, e1]
      generalize ms.C.fold (List.map (fun p => ms.μ p.2) s.flushed) = F
      generalize ms.C.fold (List.map ms.μ (s.aggs.set i (reset ex a))) = A
      generalize ms.μ a = x
      rw [ms.C.assoc F x A, ms.C.comm x A]

end Pipeline

open Pipeline

/-- reachable states satisfy the structural invariant and the ledger -/
theorem ledger_run {M} (ms : Measure α M) (ops : NumOps α) (h : Key → Nat) (n : Nat) (hn : 0 < n)
    (as : List (Action α)) (s : State α) (hinv : Inv n s) (hl : total ms s = ms.C.fold (s.arrived.map ms.μ)) :
    Inv n (run ops h n s as) ∧ total ms (run ops h n s as) = ms.C.fold ((run ops h n s as).arrived.map ms.μ) := by
  induction as generalizing s with
  | nil => exact ⟨hinv, hl⟩
  | cons a t ih =>
    simp only [run, List.foldl_cons]
    cases hs : step ops h n s a with
    | none => simp only [hs, Option.getD_none]; exact ih s hinv hl
    | some s' =>
      simp only [hs, Option.getD_some]
      exact ih s' (inv_step ops h n s s' a hinv hs) (ledger_step ms ops h n hn s s' a hinv hs hl)

/-- **C01_ledger.**  For every additive measure (counter total of a series, multiset of a timer's values,
a timer's sampled count, membership of a value in a set), every shard count `n ≥ 1`, routing function,
expiry decisions and every interleaving `as`: what has been flushed plus what sits in aggregates,
queues and half-dispatched batches equals what arrived.  Nothing is lost, nothing is duplicated. -/
theorem C01_ledger {M} (ms : Measure α M) (ops : NumOps α) (h : Key → Nat) (n : Nat) (hn : 0 < n) (as : List (Action α)) :
    total ms (run ops h n (init n) as) = ms.C.fold ((run ops h n (init n) as).arrived.map ms.μ) := by
  have h0 : total ms (init n : State α) = ms.C.fold ((init n : State α).arrived.map ms.μ) := by
    have hr : ∀ k, ms.C.fold (List.replicate k ms.C.e) = ms.C.e := by
      intro k; induction k with
      | zero => rfl
      | succ k ih => simp [List.replicate_succ, ih, ms.C.id_left]
    simp [total, init, ms.empty, hr, ms.C.id_left]
  exact (ledger_run ms ops h n hn as (init n) (inv_init n) h0).2

/-- **C01_quiescent.**  When nothing is in flight (no half-dispatched batch, empty queues) and every shard
has been flushed since its last merge (so the aggregates measure nothing), the flushes together
measure exactly what arrived. -/
theorem C01_quiescent {M} (ms : Measure α M) (ops : NumOps α) (h : Key → Nat) (n : Nat) (hn : 0 < n) (as : List (Action α))
    (hp : (run ops h n (init n) as).pending = [])
    (hq : ∀ q ∈ (run ops h n (init n) as).queues, q = [])
    (ha : ∀ a ∈ (run ops h n (init n) as).aggs, ms.μ a = ms.C.e) :
    ms.C.fold ((run ops h n (init n) as).flushed.map (fun p => ms.μ p.2)) =
    ms.C.fold ((run ops h n (init n) as).arrived.map ms.μ) := by
  have hl := C01_ledger ms ops h n hn as
  generalize run ops h n (init n) as = s at *
  have e1 : ms.C.fold (s.aggs.map ms.μ) = ms.C.e := by
    generalize s.aggs = l at ha
    induction l with
    | nil => rfl
    | cons a t ih => simp [ha a (by simp), ih (fun x hx => ha x (by simp [hx])), ms.C.id_left]
  have e2 : ms.C.fold (s.queues.map (fun q => ms.C.fold (q.map ms.μ))) = ms.C.e := by
    generalize s.queues = l at hq
    induction l with
    | nil => rfl
    | cons a t ih => simp [hq a (by simp), ih (fun x hx => hq x (by simp [hx])), ms.C.id_left]
  simp only [total, hp, e1, e2, List.map_nil, CMon.fold_nil] at hl
  rw [← hl, ms.C.id_right, ms.C.id_left, ms.C.id_right]

/-! ## the four concrete observations of the property -/

def intAdd : CMon Int := ⟨(· + ·), 0, Int.add_assoc, Int.add_comm, Int.zero_add⟩
def monAdd (β : Type) [AddCommMonoid β] : CMon β := ⟨(· + ·), 0, add_assoc, add_comm, zero_add⟩
def boolOr : CMon Bool := ⟨(· || ·), false, Bool.or_assoc, Bool.or_comm, Bool.false_or⟩

theorem isEmpty_lookup_none {ν} (l : AList Key ν) (k : Key) (h : l.isEmpty = true) : lookup k l = none := by
  cases l with
  | nil => rfl
  | cons a t => simp at h

theorem reset_lookup_counters (ex : Key → Bool) (a : MM α) (hw : a.WF) (k : Key) :
    lookup k (Pipeline.reset ex a).counters =
      (lookup k a.counters).bind (fun c => if ex k then none else some { c with value := 0 }) :=
  lookup_filterMapVals_nodup _ k hw.1
theorem reset_lookup_timers (ex : Key → Bool) (a : MM α) (hw : a.WF) (k : Key) :
    lookup k (Pipeline.reset ex a).timers =
      (lookup k a.timers).bind (fun t => if ex k then none else some { t with values := [], sampled := 0 }) :=
  lookup_filterMapVals_nodup _ k hw.2.1
theorem reset_lookup_sets (ex : Key → Bool) (a : MM α) (hw : a.WF) (k : Key) :
    lookup k (Pipeline.reset ex a).sets =
      (lookup k a.sets).bind (fun s => if ex k then none else some { s with members := [] }) :=
  lookup_filterMapVals_nodup _ k hw.2.2.2

/-- the reported count of counter series `k` -/
def counterAt (k : Key) : Measure α Int where
  C := intAdd
  μ m := ((lookup k m.counters).map (·.value)).getD 0
  empty := rfl
  merge a b hb := by
    rw [(C07_merge_lookup a b hb k).1]
    cases lookup k a.counters <;> cases lookup k b.counters <;> simp [optComb, intAdd, mergeCounter]
  reset ex a hw := by
    rw [reset_lookup_counters ex a hw k]
    cases lookup k a.counters <;> simp [intAdd]
    split <;> simp
  split h n m hn hm := by
    exact split_measure intAdd (·.counters) (fun o => (o.map (·.value)).getD 0) k rfl
      (fun p hp => isEmpty_lookup_none _ k (by simp only [MMap.isEmpty, Bool.and_eq_true] at hp; exact hp.1.1.1)) h n hn m
      (fun i hi => (C06_partition h n m hm i hi k).1)

/-- the multiset of values of timer series `k` -/
def timerValuesAt (k : Key) : Measure α (Multiset α) where
  C := monAdd _
  μ m := ((lookup k m.timers).map (fun t => (t.values : Multiset α))).getD 0
  empty := rfl
  merge a b hb := by
    rw [(C07_merge_lookup a b hb k).2.1]
    cases lookup k a.timers <;> cases lookup k b.timers <;> simp [optComb, monAdd, mergeTimer]
  reset ex a hw := by
    rw [reset_lookup_timers ex a hw k]
    cases lookup k a.timers <;> simp [monAdd]
    split <;> simp
  split h n m hn hm := by
    exact split_measure (monAdd _) (·.timers) (fun o => (o.map (fun t => (t.values : Multiset α))).getD 0) k rfl
      (fun p hp => isEmpty_lookup_none _ k (by simp only [MMap.isEmpty, Bool.and_eq_true] at hp; exact hp.1.1.2)) h n hn m
      (fun i hi => (C06_partition h n m hm i hi k).2.1)

/-- the sampled count (Σ 1/rate) of timer series `k` -/
def timerSampledAt (k : Key) : Measure α α where
  C := monAdd _
  μ m := ((lookup k m.timers).map (·.sampled)).getD 0
  empty := rfl
  merge a b hb := by
    rw [(C07_merge_lookup a b hb k).2.1]
    cases lookup k a.timers <;> cases lookup k b.timers <;> simp [optComb, monAdd, mergeTimer]
  reset ex a hw := by
    rw [reset_lookup_timers ex a hw k]
    cases lookup k a.timers <;> simp [monAdd]
    split <;> simp
  split h n m hn hm := by
    exact split_measure (monAdd _) (·.timers) (fun o => (o.map (·.sampled)).getD 0) k rfl
      (fun p hp => isEmpty_lookup_none _ k (by simp only [MMap.isEmpty, Bool.and_eq_true] at hp; exact hp.1.1.2)) h n hn m
      (fun i hi => (C06_partition h n m hm i hi k).2.1)

/-- whether `x` is a member of set series `k` -/
def setMemberAt (k : Key) (x : String) : Measure α Bool where
  C := boolOr
  μ m := ((lookup k m.sets).map (fun s => decide (x ∈ s.members))).getD false
  empty := rfl
  merge a b hb := by
    rw [(C07_merge_lookup a b hb k).2.2.2]
    cases lookup k a.sets <;> cases lookup k b.sets <;> simp [optComb, boolOr, mergeSet, mem_setUnion]
  reset ex a hw := by
    rw [reset_lookup_sets ex a hw k]
    cases lookup k a.sets <;> simp [boolOr]
    split <;> simp
  split h n m hn hm := by
    exact split_measure boolOr (·.sets) (fun o => (o.map (fun s => decide (x ∈ s.members))).getD false) k rfl
      (fun p hp => isEmpty_lookup_none _ k (by simp only [MMap.isEmpty, Bool.and_eq_true] at hp; exact hp.2)) h n hn m
      (fun i hi => (C06_partition h n m hm i hi k).2.2.2)

/-- **C01_counter_total.**  At quiescence the counts reported for counter series `k` over all flushes of all
shards add up to the counts of `k` in the parsed batches (each being Σ trunc(value/rate), C07). -/
theorem C01_counter_total (k : Key) (ops : NumOps α) (h : Key → Nat) (n : Nat) (hn : 0 < n) (as : List (Action α))
    (hp : (run ops h n (init n) as).pending = []) (hq : ∀ q ∈ (run ops h n (init n) as).queues, q = [])
    (ha : ∀ a ∈ (run ops h n (init n) as).aggs, ((lookup k a.counters).map (·.value)).getD 0 = 0) :
    (((run ops h n (init n) as).flushed.map (fun p => ((lookup k p.2.counters).map (·.value)).getD 0)).foldr (· + ·) 0 : Int) =
    ((run ops h n (init n) as).arrived.map (fun m => ((lookup k m.counters).map (·.value)).getD 0)).foldr (· + ·) 0 :=
  C01_quiescent (counterAt (α := α) k) ops h n hn as hp hq ha

/-- **C01_timer_values.**  Likewise the values reported for timer `k` form exactly the multiset received. -/
theorem C01_timer_values (k : Key) (ops : NumOps α) (h : Key → Nat) (n : Nat) (hn : 0 < n) (as : List (Action α))
    (hp : (run ops h n (init n) as).pending = []) (hq : ∀ q ∈ (run ops h n (init n) as).queues, q = [])
    (ha : ∀ a ∈ (run ops h n (init n) as).aggs, ((lookup k a.timers).map (fun t => (t.values : Multiset α))).getD 0 = 0) :
    ((run ops h n (init n) as).flushed.map (fun p => ((lookup k p.2.timers).map (fun t => (t.values : Multiset α))).getD 0)).foldr (· + ·) 0 =
    ((run ops h n (init n) as).arrived.map (fun m => ((lookup k m.timers).map (fun t => (t.values : Multiset α))).getD 0)).foldr (· + ·) 0 :=
  C01_quiescent (timerValuesAt (α := α) k) ops h n hn as hp hq ha

/-- **C01_timer_sampled.**  …and the sampled counts add up to the Σ 1/rate received. -/
theorem C01_timer_sampled (k : Key) (ops : NumOps α) (h : Key → Nat) (n : Nat) (hn : 0 < n) (as : List (Action α))
    (hp : (run ops h n (init n) as).pending = []) (hq : ∀ q ∈ (run ops h n (init n) as).queues, q = [])
    (ha : ∀ a ∈ (run ops h n (init n) as).aggs, ((lookup k a.timers).map (·.sampled)).getD 0 = 0) :
    ((run ops h n (init n) as).flushed.map (fun p => ((lookup k p.2.timers).map (·.sampled)).getD 0)).foldr (· + ·) 0 =
    ((run ops h n (init n) as).arrived.map (fun m => ((lookup k m.timers).map (·.sampled)).getD 0)).foldr (· + ·) 0 :=
  C01_quiescent (timerSampledAt (α := α) k) ops h n hn as hp hq ha

/-- **C01_set_members.**  A value is reported as a member of set `k` in some flush iff it was received. -/
theorem C01_set_members (k : Key) (x : String) (ops : NumOps α) (h : Key → Nat) (n : Nat) (hn : 0 < n) (as : List (Action α))
    (hp : (run ops h n (init n) as).pending = []) (hq : ∀ q ∈ (run ops h n (init n) as).queues, q = [])
    (ha : ∀ a ∈ (run ops h n (init n) as).aggs, ((lookup k a.sets).map (fun s => decide (x ∈ s.members))).getD false = false) :
    ((run ops h n (init n) as).flushed.map (fun p => ((lookup k p.2.sets).map (fun s => decide (x ∈ s.members))).getD false)).foldr (· || ·) false =
    ((run ops h n (init n) as).arrived.map (fun m => ((lookup k m.sets).map (fun s => decide (x ∈ s.members))).getD false)).foldr (· || ·) false :=
  C01_quiescent (setMemberAt (α := α) k x) ops h n hn as hp hq ha

/-- **C01_no_phantom.**  Whatever the interleaving, a series that appears in any flush view was contained in
some parsed batch (persisted series included): nothing is reported for a series that was never sent. -/
theorem C01_no_phantom (ops : NumOps α) (h : Key → Nat) (n : Nat) (as : List (Action α))
    (p : Nat × MM α) (hp : p ∈ (run ops h n (init n) as).flushed) (t : MType) (k : Key) (hk : present p.2 t k) :
    ∃ m ∈ (run ops h n (init n) as).arrived, present m t k :=
  ((kinv_run ops h n as (init n) (inv_init n) (kinv_init h n)).2.2.2.2 p hp t k hk).2

/-- **C01_shard_local.**  A series is only ever reported by the shard its identity routes to (`h k % n`), and a
view holds each series at most once (it is a map) — so no series is reported twice within one flush of
all shards. -/
theorem C01_shard_local (ops : NumOps α) (h : Key → Nat) (n : Nat) (as : List (Action α))
    (p : Nat × MM α) (hp : p ∈ (run ops h n (init n) as).flushed) (t : MType) (k : Key) (hk : present p.2 t k) :
    h k % n = p.1 :=
  ((kinv_run ops h n as (init n) (inv_init n) (kinv_init h n)).2.2.2.2 p hp t k hk).1

/-- every view handed to the backends is a map: no series occurs twice in it -/
theorem C01_view_wf (ops : NumOps α) (h : Key → Nat) (n : Nat) (as : List (Action α)) :
    ∀ p ∈ (run ops h n (init n) as).flushed, p.2.WF := by
  -- views are aggregates at the time of the flush; aggregates are always well formed
  have key : ∀ (as : List (Action α)) (s : State α), Inv n s → (∀ p ∈ s.flushed, p.2.WF) →
      ∀ p ∈ (run ops h n s as).flushed, p.2.WF := by
    intro as
    induction as with
    | nil => intro s _ hf; exact hf
    | cons a t ih =>
      intro s hinv hf
      simp only [run, List.foldl_cons]
      cases hs : step ops h n s a with
      | none => simp only [hs, Option.getD_none]; exact ih s hinv hf
      | some s' =>
        simp only [hs, Option.getD_some]
        apply ih s' (inv_step ops h n s s' a hinv hs)
        cases a with
        | arrive ds => simp only [step, Option.some.injEq] at hs; subst hs; exact hf
        | enqueue j =>
          simp only [step] at hs
          cases hj : s.pending[j]? with
          | none => simp [hj] at hs
          | some ip =>
            simp only [hj] at hs
            split at hs
            · simp only [Option.some.injEq] at hs; subst hs; exact hf
            · simp at hs
        | deliver i =>
          simp only [step] at hs
          cases hq : s.queues[i]? with
          | none => simp [hq] at hs
          | some q =>
            cases q with
            | nil => simp [hq] at hs
            | cons p rest =>
              simp only [hq] at hs
              split at hs
              · simp only [Option.some.injEq] at hs; subst hs; exact hf
              · simp at hs
        | flushShard i ex =>
          simp only [step] at hs
          cases ha : s.aggs[i]? with
          | none => simp [ha] at hs
          | some a =>
            simp only [ha, Option.some.injEq] at hs; subst hs
            intro p hp
            rcases List.mem_append.mp hp with hp | hp
            · exact hf p hp
            · simp at hp; subst hp
              exact hinv.2.2.1 a (List.mem_of_getElem? ha)
  exact key as (init n) (inv_init n) (by simp [init])

/-- non-vacuity: a concrete two-shard schedule in which a flush falls between the two pieces of one batch -/
example :
    let ops : NumOps Int := { toCount := fun v _ => v, invRate := fun _ => 1 }
    let d1 : Dp Int := { name := "a", tagsKey := "", ty := .counter, value := 3, rate := 1, sval := "", ts := 1, src := "", tags := [] }
    let d2 : Dp Int := { name := "bb", tagsKey := "", ty := .counter, value := 4, rate := 1, sval := "", ts := 1, src := "", tags := [] }
    let s := run ops (fun k => k.1.length) 2 (init 2)
      [.arrive [d1, d2], .enqueue 0, .deliver 0, .flushShard 0 (fun _ => false), .flushShard 1 (fun _ => false),
       .enqueue 0, .deliver 1, .flushShard 0 (fun _ => false), .flushShard 1 (fun _ => false)]
    s.pending = [] ∧ s.flushed.map (fun p => (p.1, p.2.counters.map (fun e => (e.1.1, e.2.value)))) =
      [(0, [("bb", 4)]), (1, []), (0, [("bb", 0)]), (1, [("a", 3)])] := by
  decide

end Gsd
