import Gsd.Proofs.Lemmas.Tags
/-!
# C10 — static tags, tag de-duplication and filters follow the documented rules

Vocabulary (FILTERING.md):
* `Satisfied f name tags` — the filter's three conditions hold: `match-metrics` empty or some pattern
  matches the name; no `exclude-metrics` pattern matches the name; `match-tags` empty or some tag of the
  metric matches some pattern.
* `DropsMetric`, `ClearsHost` — some satisfied filter has `drop-metric` / `drop-host`.
* `Removed t` — `t` is one of the metric's own tags and some `drop-tags` pattern of a satisfied filter
  matches it.  (Static tags are not looked at by `match-tags` / `drop-tags`; a static tag equal to a removed
  tag is not re-added.)

All theorems quantify over the regexp oracle `re`, every filter list, every static tag list and every
metric (name, source, tag list with repetitions allowed).
-/
set_option linter.unusedSimpArgs false
set_option linter.unusedSectionVars false
set_option linter.unusedVariables false
namespace Gsd.Tags
open Gsd AList

variable (re : String → String → Bool)

/-! ## vocabulary -/

def Satisfied (f : Filter) (name : String) (tags : List String) : Prop :=
  (f.matchMetrics = [] ∨ ∃ p ∈ f.matchMetrics, p.matches re name = true) ∧
  (¬ ∃ p ∈ f.excludeMetrics, p.matches re name = true) ∧
  (f.matchTags = [] ∨ ∃ t ∈ tags, ∃ p ∈ f.matchTags, p.matches re t = true)

def DropsMetric (fs : List Filter) (name : String) (tags : List String) : Prop :=
  ∃ f ∈ fs, Satisfied re f name tags ∧ f.dropMetric = true

def ClearsHost (fs : List Filter) (name : String) (tags : List String) : Prop :=
  ∃ f ∈ fs, Satisfied re f name tags ∧ f.dropHost = true

def Removed (fs : List Filter) (name : String) (tags : List String) (t : String) : Prop :=
  t ∈ tags ∧ ∃ f ∈ fs, Satisfied re f name tags ∧ ∃ p ∈ f.dropTags, p.matches re t = true

/-- the documented outcome `(src', tags')` of a metric `(name, src, tags)` that is not dropped -/
def Outcome (static : List String) (fs : List Filter) (name src : String) (tags : List String)
    (src' : String) (tags' : List String) : Prop :=
  ¬ DropsMetric re fs name tags ∧
  tags'.Nodup ∧
  (∀ t, t ∈ tags' ↔ (t ∈ tags ∨ t ∈ static) ∧ ¬ Removed re fs name tags t) ∧
  (ClearsHost re fs name tags → src' = "") ∧ (¬ ClearsHost re fs name tags → src' = src)

end Gsd.Tags

namespace Gsd
open AList Tags

variable (re : String → String → Bool)

/-! ## patterns -/

/-- **C10_pattern_semantics.**  Every pattern text is an optional `!` (`neg`) followed by a body, and the
body is `regex:`+r, or ends in `*`, or neither.  In the three cases the matcher built by `NewStringMatch`
answers: the regexp oracle on exactly `r`; "the candidate starts with the body minus the `*`"; "the
candidate equals the body" — each negated when the `!` is present.  (`hb`: without `!` the body does not
itself start with `!`, otherwise that `!` is the negation mark.) -/
theorem C10_pattern_semantics (neg : Bool) (b : List Char) (s : String)
    (hb : neg = false → b.head? ≠ some '!') :
    ((newStringMatch (String.ofList ((if neg then ['!'] else []) ++ (regexLit ++ b)))).matches re s
        = (re (String.ofList b) s != neg)) ∧
    (¬ regexLit <+: (b ++ ['*']) →
      (newStringMatch (String.ofList ((if neg then ['!'] else []) ++ (b ++ ['*'])))).matches re s
        = (decide (b <+: s.toList) != neg)) ∧
    (¬ regexLit <+: b → ¬ ['*'] <:+ b →
      (newStringMatch (String.ofList ((if neg then ['!'] else []) ++ b))).matches re s
        = (decide (s.toList = b) != neg)) := by
  have hp : hasPrefix s.toList b = decide (b <+: s.toList) := by
    rw [Bool.eq_iff_iff, hasPrefix_iff]; simp
  cases neg with
  | true =>
    simp only [if_true, List.singleton_append, newStringMatch_neg]
    refine ⟨?_, fun h => ?_, fun h h' => ?_⟩
    · rw [parseBody_regex]; rfl
    · rw [parseBody_prefix _ _ h]; simp [StringMatch.matches, hp]
    · rw [parseBody_exact _ _ h h']; simp only [StringMatch.matches, Bool.false_eq_true, if_false]
      congr 1; rw [Bool.eq_iff_iff]; simp
  | false =>
    have hb' := hb rfl
    simp only [Bool.false_eq_true, if_false, List.nil_append]
    refine ⟨?_, fun h => ?_, fun h h' => ?_⟩
    · rw [newStringMatch_pos _ (by simp [regexLit]), parseBody_regex]; rfl
    · have hh : (b ++ ['*']).head? ≠ some '!' := by
        cases b with
        | nil => simp
        | cons a t => simpa using hb'
      rw [newStringMatch_pos _ hh, parseBody_prefix _ _ h]; simp [StringMatch.matches, hp]
    · rw [newStringMatch_pos _ hb', parseBody_exact _ _ h h']; simp only [StringMatch.matches, Bool.false_eq_true, if_false]
      congr 1; rw [Bool.eq_iff_iff]; simp

/-- the documented examples of FILTERING.md, for an oracle that answers like the regexps named there -/
example :
    let re : String → String → Bool := fun r s => r = ".*abc.*" && (s = "xyz.abc.123")
    (newStringMatch "abc").matches re "abc" = true ∧ (newStringMatch "abc").matches re "abcd" = false ∧
    (newStringMatch "abc*").matches re "abcd" = true ∧ (newStringMatch "!abc").matches re "abcd" = true ∧
    (newStringMatch "!abc").matches re "abc" = false ∧ (newStringMatch "!abc*").matches re "abcd" = false ∧
    (newStringMatch "!abc*").matches re "xyz" = true ∧
    (newStringMatch "regex:.*abc.*").matches re "xyz.abc.123" = true ∧
    (newStringMatch "!regex:.*abc.*").matches re "xyz.abc.123" = false ∧
    (newStringMatch "!regex:.*abc.*").matches re "xyz.123" = true := by
  refine ⟨?_, ?_, ?_, ?_, ?_, ?_, ?_, ?_, ?_, ?_⟩ <;> decide

/-! ## one metric -/

/-- **C10_satisfied_iff.**  The three `continue` tests of the filter loop are the documented conditions. -/
theorem C10_satisfied_iff (f : Filter) (name : String) (tags : List String) :
    filterApplies re f name tags = true ↔ Satisfied re f name tags := by
  have hlen : ∀ (l : List StringMatch), decide (l.length > 0) = true ↔ l ≠ [] := by
    intro l; cases l <;> simp
  have hany : ∀ (l : List StringMatch) (x : String), matchAny re l x = true ↔ ∃ p ∈ l, p.matches re x = true := by
    intro l x; simp [matchAny]
  have hmul : ∀ (l : List StringMatch) (ts : List String),
      matchAnyMultiple re l ts = true ↔ ∃ t ∈ ts, ∃ p ∈ l, p.matches re t = true := by
    intro l ts; simp [matchAnyMultiple, matchAny]
  unfold filterApplies Satisfied
  by_cases h1 : f.matchMetrics = [] <;> by_cases h2 : (∃ p ∈ f.excludeMetrics, p.matches re name = true) <;>
    by_cases h3 : f.matchTags = [] <;>
    by_cases h4 : (∃ p ∈ f.matchMetrics, p.matches re name = true) <;>
    by_cases h5 : (∃ t ∈ tags, ∃ p ∈ f.matchTags, p.matches re t = true) <;>
    simp only [Bool.and_eq_true, Bool.not_eq_true', hlen, hany, hmul, ← Bool.not_eq_true, h1, h2, h3, h4, h5,
      ne_eq, not_true_eq_false, not_false_eq_true, false_and, true_and, and_false, and_true, if_true, if_false,
      or_true, true_or, or_false, false_or, Bool.false_eq_true, and_self]

/-- everything `uniqueFilterAndAddTags` does to one metric, for a handler whose static tags are duplicate-free -/
private theorem apply_spec (th : TagHandler) (hth : th.tags.Nodup) (name src : String) (tags : List String) :
    match th.apply re name src tags with
    | none => DropsMetric re th.filters name tags
    | some (s, t) => Outcome re th.tags th.filters name src tags s t := by
  have hsat : ∀ f, filterApplies re f name tags = true ↔ Satisfied re f name tags := fun f => C10_satisfied_iff re f name tags
  unfold TagHandler.apply
  by_cases h0 : th.filters.length = 0
  · have hnil : th.filters = [] := List.eq_nil_of_length_eq_zero h0
    simp only [h0, if_true]
    refine ⟨by simp [DropsMetric, hnil], nodup_uniqueTags _ _ hth, ?_, by simp [ClearsHost, hnil], fun _ => rfl⟩
    intro t
    simp [mem_uniqueTags, Removed, hnil]
  · simp only [h0, if_false]
    have := runFilters_spec re name tags th.filters [] src
    cases hr : runFilters re name tags th.filters [] src with
    | none =>
      simp only [hr] at this
      obtain ⟨f, hf, h1, h2⟩ := this
      exact ⟨f, hf, (hsat f).mp h1, h2⟩
    | some r =>
      obtain ⟨d, s⟩ := r
      simp only [hr] at this
      obtain ⟨h1, h2, h3⟩ := this
      refine ⟨?_, nodup_uniqueTagsWithSeen _ _ _ hth, ?_, ?_, ?_⟩
      · rintro ⟨f, hf, hs, hd⟩
        exact h1 ⟨f, hf, (hsat f).mpr hs, hd⟩
      · intro t
        rw [mem_uniqueTagsWithSeen, h2 t]
        simp only [List.not_mem_nil, false_or, Removed]
        constructor
        · rintro ⟨h, hn⟩
          refine ⟨h, ?_⟩
          rintro ⟨ht, f, hf, hs, hp⟩
          exact hn ⟨ht, f, hf, (hsat f).mpr hs, hp⟩
        · rintro ⟨h, hn⟩
          refine ⟨h, ?_⟩
          rintro ⟨ht, f, hf, hs, hp⟩
          exact hn ⟨ht, f, hf, (hsat f).mp hs, hp⟩
      · rintro ⟨f, hf, hs, hd⟩
        rw [h3, if_pos ⟨f, hf, (hsat f).mpr hs, hd⟩]
      · intro hn
        rw [h3, if_neg]
        rintro ⟨f, hf, hs, hd⟩
        exact hn ⟨f, hf, (hsat f).mp hs, hd⟩

/-- **C10_drop_iff.**  A metric is dropped iff some filter whose conditions it satisfies has `drop-metric`. -/
theorem C10_drop_iff (est : Nat) (static : List String) (fs : List Filter) (name src : String) (tags : List String) :
    (newTagHandler est static fs).apply re name src tags = none ↔ DropsMetric re fs name tags := by
  have hth := (newTagHandler_tags est static fs).1
  have := apply_spec re (newTagHandler est static fs) hth name src tags
  cases h : (newTagHandler est static fs).apply re name src tags with
  | none => simp only [h] at this; simp only [true_iff]; exact this
  | some r =>
    obtain ⟨s, t⟩ := r
    simp only [h] at this
    simp only [reduceCtorEq, false_iff]
    exact this.1

/-- **C10_outcome.**  A metric that is not dropped leaves with exactly the documented source and tags:
no duplicates; tag set = (own tags ∪ static tags) minus the removed ones; source cleared iff a satisfied
filter has `drop-host`.  (The four theorems below are its readable projections.) -/
theorem C10_outcome (est : Nat) (static : List String) (fs : List Filter) (name src : String) (tags : List String)
    (s : String) (t : List String) (h : (newTagHandler est static fs).apply re name src tags = some (s, t)) :
    Outcome re static fs name src tags s t := by
  obtain ⟨hth, hmem⟩ := newTagHandler_tags est static fs
  have := apply_spec re (newTagHandler est static fs) hth name src tags
  simp only [h] at this
  obtain ⟨h1, h2, h3, h4, h5⟩ := this
  refine ⟨h1, h2, ?_, h4, h5⟩
  intro x
  rw [h3 x, hmem x]
  rfl

/-- **C10_nodup.**  No output of the tag stage carries a tag twice: metrics (whatever duplicates the input
or the static tag list had) and events. -/
theorem C10_nodup (est : Nat) (static : List String) (fs : List Filter) (name src : String) (tags : List String) :
    (∀ s t, (newTagHandler est static fs).apply re name src tags = some (s, t) → t.Nodup) ∧
    ((newTagHandler est static fs).event src tags).2.Nodup := by
  refine ⟨fun s t h => (C10_outcome re est static fs name src tags s t h).2.1, ?_⟩
  exact nodup_uniqueTags _ _ (newTagHandler_tags est static fs).1

/-- **C10_tags_exact.**  Output tag set = (tags ∪ static) minus removed. -/
theorem C10_tags_exact (est : Nat) (static : List String) (fs : List Filter) (name src : String) (tags : List String)
    (s : String) (t : List String) (h : (newTagHandler est static fs).apply re name src tags = some (s, t)) (x : String) :
    x ∈ t ↔ (x ∈ tags ∨ x ∈ static) ∧ ¬ Removed re fs name tags x :=
  (C10_outcome re est static fs name src tags s t h).2.2.1 x

/-- **C10_static.**  Every configured static tag that is not itself being removed from the metric is present. -/
theorem C10_static (est : Nat) (static : List String) (fs : List Filter) (name src : String) (tags : List String)
    (s : String) (t : List String) (h : (newTagHandler est static fs).apply re name src tags = some (s, t))
    (x : String) (hx : x ∈ static) (hr : ¬ Removed re fs name tags x) : x ∈ t :=
  (C10_tags_exact re est static fs name src tags s t h x).mpr ⟨Or.inr hx, hr⟩

/-- **C10_host_iff.**  The source is cleared exactly when a satisfied filter has `drop-host`, else unchanged. -/
theorem C10_host_iff (est : Nat) (static : List String) (fs : List Filter) (name src : String) (tags : List String)
    (s : String) (t : List String) (h : (newTagHandler est static fs).apply re name src tags = some (s, t)) :
    (ClearsHost re fs name tags → s = "") ∧ (¬ ClearsHost re fs name tags → s = src) ∧
    (src ≠ "" → (s = "" ↔ ClearsHost re fs name tags)) := by
  obtain ⟨_, _, _, h4, h5⟩ := C10_outcome re est static fs name src tags s t h
  refine ⟨h4, h5, fun hne => ⟨fun hs => ?_, h4⟩⟩
  by_contra hc
  exact hne ((h5 hc) ▸ hs)

/-- **C10_event.**  Events get the static tags and are de-duplicated; no filter applies, the source stays. -/
theorem C10_event (est : Nat) (static : List String) (fs : List Filter) (src : String) (tags : List String) :
    ((newTagHandler est static fs).event src tags).1 = src ∧
    ((newTagHandler est static fs).event src tags).2.Nodup ∧
    ∀ x, x ∈ ((newTagHandler est static fs).event src tags).2 ↔ x ∈ tags ∨ x ∈ static := by
  obtain ⟨hth, hmem⟩ := newTagHandler_tags est static fs
  refine ⟨rfl, nodup_uniqueTags _ _ hth, fun x => ?_⟩
  simp only [TagHandler.event, mem_uniqueTags, hmem]

/-- **C10_order_kept.**  When the tags of an event (or of a metric with no filters configured) and the static
tags are all different, nothing is reordered: the output is the input followed by the static tags.  (With
repetitions `uniqueTagsWithSeen` moves the last tag into the freed slot; metrics are re-sorted by
`FormatTagsKey` anyway.) -/
theorem C10_order_kept (est : Nat) (static : List String) (fs : List Filter) (src : String) (tags : List String)
    (h : (tags ++ static).Nodup) :
    (newTagHandler est static fs).event src tags = (src, tags ++ static) := by
  have hs : static.Nodup := (List.nodup_append.mp h).2.1
  have e : (newTagHandler est static fs).tags = static := by
    simp only [newTagHandler]
    have := uniqueTags_of_nodup static [] (by simpa using hs)
    simpa using this
  simp only [TagHandler.event, e, uniqueTags_of_nodup tags static h]

/-- the swap-remove order on a repetition: the last tag takes the place of the removed one -/
example : (newTagHandler 0 ["s1", "c", "s2"] []).event "h" ["d", "a", "d", "b", "a", "c"]
    = ("h", ["d", "a", "c", "b", "s1", "s2"]) := by decide

/-- **C10_no_filters.**  Without filters nothing is dropped or cleared and the order of the metric's first
occurrences is irrelevant to the set: tags = own ∪ static. -/
theorem C10_no_filters (est : Nat) (static : List String) (name src : String) (tags : List String) :
    ∃ t, (newTagHandler est static []).apply re name src tags = some (src, t) ∧ t.Nodup ∧
      ∀ x, x ∈ t ↔ x ∈ tags ∨ x ∈ static := by
  obtain ⟨hth, hmem⟩ := newTagHandler_tags est static []
  refine ⟨uniqueTags tags (newTagHandler est static []).tags, by simp [TagHandler.apply, newTagHandler],
    nodup_uniqueTags _ _ hth, fun x => ?_⟩
  simp only [mem_uniqueTags, hmem]

/-- non-vacuity: two filters, the second one is satisfied through an inverted prefix pattern on a tag, a
static tag equals a removed tag, the input has a duplicate -/
example :
    let re : String → String → Bool := fun _ _ => false
    let fs := [newFilter { matchMetrics := ["other*"], dropMetric := true },
               newFilter { matchTags := ["!env:*"], dropTags := ["host:*"], dropHost := true }]
    (newTagHandler 0 ["host:a", "dc:x", "dc:x"] fs).apply re "req" "10.0.0.1" ["host:a", "env:p", "z", "z"]
      = some ("", ["z", "env:p", "dc:x"]) := by decide

/-! ## the map -/

variable {α : Type} [AddCommMonoid α]

private theorem retag_spec (th : TagHandler) (name src : String) (tags : List String) (k s : String) (t : List String)
    (h : th.retag re name src tags = some (k, s, t)) :
    ∃ t0, th.apply re name src tags = some (s, t0) ∧ t = sortTags t0 ∧ k = formatTagsKey s t := by
  unfold TagHandler.retag at h
  cases ha : th.apply re name src tags with
  | none => simp [ha] at h
  | some r =>
    obtain ⟨s0, t0⟩ := r
    simp only [ha, Option.some.injEq, Prod.mk.injEq] at h
    obtain ⟨h1, h2, h3⟩ := h
    subst h2 h3
    exact ⟨t0, rfl, rfl, h1.symm⟩

private theorem outcome_sorted (static : List String) (fs : List Filter) (name src : String) (tags : List String)
    (s : String) (t0 : List String) (h : Outcome re static fs name src tags s t0) :
    Outcome re static fs name src tags s (sortTags t0) := by
  obtain ⟨h1, h2, h3, h4⟩ := h
  exact ⟨h1, (nodup_sortTags _).mpr h2, fun x => by rw [mem_sortTags, h3 x], h4⟩

/-- **C10_map_entries.**  Every series of the map handed on — of each of the four types — is filed under the
key formatted from its own (new) source and tags, and these are the documented outcome of a non-dropped
input series of the same name: no duplicate tags, tag set exact, static tags present, host rule. -/
theorem C10_map_entries (est : Nat) (static : List String) (fs : List Filter) (m : MM α) (k : Key) :
    let out := (newTagHandler est static fs).rekeyMap re m
    (∀ v, lookup k out.counters = some v → k.2 = formatTagsKey v.src v.tags ∧
        ∃ e ∈ m.counters, e.1.1 = k.1 ∧ Outcome re static fs e.1.1 e.2.src e.2.tags v.src v.tags) ∧
    (∀ v, lookup k out.gauges = some v → k.2 = formatTagsKey v.src v.tags ∧
        ∃ e ∈ m.gauges, e.1.1 = k.1 ∧ Outcome re static fs e.1.1 e.2.src e.2.tags v.src v.tags) ∧
    (∀ v, lookup k out.timers = some v → k.2 = formatTagsKey v.src v.tags ∧
        ∃ e ∈ m.timers, e.1.1 = k.1 ∧ Outcome re static fs e.1.1 e.2.src e.2.tags v.src v.tags) ∧
    (∀ v, lookup k out.sets = some v → k.2 = formatTagsKey v.src v.tags ∧
        ∃ e ∈ m.sets, e.1.1 = k.1 ∧ Outcome re static fs e.1.1 e.2.src e.2.tags v.src v.tags) := by
  intro out
  -- one argument for the four types
  have key : ∀ (name src : String) (tags : List String) (k' s : String) (t : List String),
      (newTagHandler est static fs).retag re name src tags = some (k', s, t) →
      k' = formatTagsKey s t ∧ Outcome re static fs name src tags s t := by
    intro name src tags k' s t h
    obtain ⟨t0, ha, ht, hk⟩ := retag_spec re _ name src tags k' s t h
    exact ⟨hk, ht ▸ outcome_sorted re static fs name src tags s t0 (C10_outcome re est static fs name src tags s t0 ha)⟩
  refine ⟨?_, ?_, ?_, ?_⟩
  · intro v hv
    have := mergeWith_origin joinCounter (fun c : Counter => (c.src, c.tags)) (fun _ _ => rfl) [] _ k v hv
    rcases this with ⟨w, hw, _⟩ | ⟨e', he', hk, hπ⟩
    · simp at hw
    · obtain ⟨e, he, hre⟩ := List.mem_filterMap.mp he'
      unfold rekeyCounter at hre
      cases hrt : (newTagHandler est static fs).retag re e.1.1 e.2.src e.2.tags with
      | none => simp [hrt] at hre
      | some r =>
        obtain ⟨k', s, t⟩ := r
        simp only [hrt, Option.some.injEq] at hre
        subst hre
        simp only [Prod.mk.injEq] at hπ
        obtain ⟨h1, h2⟩ := key _ _ _ _ _ _ hrt
        rw [hπ.1, hπ.2, ← hk]
        exact ⟨h1, e, he, rfl, h2⟩
  · intro v hv
    have := mergeWith_origin joinGauge (fun c : Gauge α => (c.src, c.tags))
      (fun w x => by unfold joinGauge; split <;> rfl) [] _ k v hv
    rcases this with ⟨w, hw, _⟩ | ⟨e', he', hk, hπ⟩
    · simp at hw
    · obtain ⟨e, he, hre⟩ := List.mem_filterMap.mp he'
      unfold rekeyGauge at hre
      cases hrt : (newTagHandler est static fs).retag re e.1.1 e.2.src e.2.tags with
      | none => simp [hrt] at hre
      | some r =>
        obtain ⟨k', s, t⟩ := r
        simp only [hrt, Option.some.injEq] at hre
        subst hre
        simp only [Prod.mk.injEq] at hπ
        obtain ⟨h1, h2⟩ := key _ _ _ _ _ _ hrt
        rw [hπ.1, hπ.2, ← hk]
        exact ⟨h1, e, he, rfl, h2⟩
  · intro v hv
    have := mergeWith_origin joinTimer (fun c : Timer α => (c.src, c.tags)) (fun _ _ => rfl) [] _ k v hv
    rcases this with ⟨w, hw, _⟩ | ⟨e', he', hk, hπ⟩
    · simp at hw
    · obtain ⟨e, he, hre⟩ := List.mem_filterMap.mp he'
      unfold rekeyTimer at hre
      cases hrt : (newTagHandler est static fs).retag re e.1.1 e.2.src e.2.tags with
      | none => simp [hrt] at hre
      | some r =>
        obtain ⟨k', s, t⟩ := r
        simp only [hrt, Option.some.injEq] at hre
        subst hre
        simp only [Prod.mk.injEq] at hπ
        obtain ⟨h1, h2⟩ := key _ _ _ _ _ _ hrt
        rw [hπ.1, hπ.2, ← hk]
        exact ⟨h1, e, he, rfl, h2⟩
  · intro v hv
    have := mergeWith_origin joinSet (fun c : SetV => (c.src, c.tags)) (fun _ _ => rfl) [] _ k v hv
    rcases this with ⟨w, hw, _⟩ | ⟨e', he', hk, hπ⟩
    · simp at hw
    · obtain ⟨e, he, hre⟩ := List.mem_filterMap.mp he'
      unfold rekeySet at hre
      cases hrt : (newTagHandler est static fs).retag re e.1.1 e.2.src e.2.tags with
      | none => simp [hrt] at hre
      | some r =>
        obtain ⟨k', s, t⟩ := r
        simp only [hrt, Option.some.injEq] at hre
        subst hre
        simp only [Prod.mk.injEq] at hπ
        obtain ⟨h1, h2⟩ := key _ _ _ _ _ _ hrt
        rw [hπ.1, hπ.2, ← hk]
        exact ⟨h1, e, he, rfl, h2⟩

/-- the surviving series of the input, each re-keyed and as a one-entry map, in the order the code visits them -/
def Tags.survivors (th : TagHandler) (m : MM α) : List (MM α) :=
  (m.counters.filterMap (rekeyCounter re th)).map (fun e => ({ counters := [e] } : MM α)) ++
  (m.gauges.filterMap (rekeyGauge re th)).map (fun e => ({ gauges := [e] } : MM α)) ++
  (m.timers.filterMap (rekeyTimer re th)).map (fun e => ({ timers := [e] } : MM α)) ++
  (m.sets.filterMap (rekeySet re th)).map (fun e => ({ sets := [e] } : MM α))

/-- **C10_collision_content.**  When tag removal (or host clearing) makes series coincide their data are
combined without loss: per new key the map handed on holds the aggregate of *all* surviving input series
re-keyed to it — counters add, timer values concatenate and sampled counts add, sets unite, the newest
timestamp is kept, a gauge carries the value of a series with the newest timestamp — and a key is present
iff some surviving series is re-keyed to it (dropped series contribute nothing).
`AggMM` is C07's aggregation relation. -/
theorem C10_collision_content (th : TagHandler) (m : MM α) :
    AggMM (th.rekeyMap re m) (survivors re th m) := by
  have hc := agg_mergeWith_dups CSum joinCounter csum_base csum_join [] [] (m.counters.filterMap (rekeyCounter re th)) (agg_nil _)
  have hg := agg_mergeWith_dups (GSum (α := α)) joinGauge gsum_base gsum_join [] [] (m.gauges.filterMap (rekeyGauge re th)) (agg_nil _)
  have ht := agg_mergeWith_dups (TSum (α := α)) joinTimer tsum_base tsum_join [] [] (m.timers.filterMap (rekeyTimer re th)) (agg_nil _)
  have hs := agg_mergeWith_dups SSum joinSet ssum_base ssum_join [] [] (m.sets.filterMap (rekeySet re th)) (agg_nil _)
  simp only [List.nil_append] at hc hg ht hs
  refine ⟨agg_congr _ _ _ _ ?_ hc, agg_congr _ _ _ _ ?_ ht, agg_congr _ _ _ _ ?_ hg, agg_congr _ _ _ _ ?_ hs⟩ <;>
  · intro k
    simp [survivors, valsAt, List.filterMap_append, List.filterMap_map, Function.comp_def, lookup_cons, valsAt_empties]

/-- **C10_dispatch_iff.**  Nothing is handed on iff every series of the map was dropped. -/
theorem C10_dispatch_iff (th : TagHandler) (m : MM α) :
    th.dispatchMetricMap re m = none ↔ survivors re th m = [] := by
  have hne : ∀ {ν} (f : ν → ν → ν) (es : List (Key × ν)), (mergeWith f [] es).isEmpty = es.isEmpty := by
    intro ν f es
    cases es with
    | nil => rfl
    | cons e t =>
      have h : ∀ (acc : AList Key ν) (l : List (Key × ν)), acc ≠ [] → mergeWith f acc l ≠ [] := by
        intro acc l
        induction l generalizing acc with
        | nil => intro h; simpa [mergeWith] using h
        | cons x l ih =>
          intro h
          apply ih
          cases acc with
          | nil => exact absurd rfl h
          | cons a acc => simp only [AList.upsert]; split <;> simp
      have := h (AList.upsert e.1 (fun o => match o with | none => e.2 | some w => f w e.2) []) t (by simp [AList.upsert])
      cases hm : mergeWith f [] (e :: t) with
      | nil => exact absurd hm this
      | cons _ _ => rfl
  unfold TagHandler.dispatchMetricMap
  simp only [TagHandler.rekeyMap, MMap.isEmpty, hne]
  cases h1 : m.counters.filterMap (rekeyCounter re th) <;> cases h2 : m.gauges.filterMap (rekeyGauge re th) <;>
    cases h3 : m.timers.filterMap (rekeyTimer re th) <;> cases h4 : m.sets.filterMap (rekeySet re th) <;>
    simp [survivors, h1, h2, h3, h4]

/-- non-vacuity of the collision theorem: dropping `host:*` makes two counters and two gauges coincide, a
third counter is dropped by name -/
example :
    let re : String → String → Bool := fun _ _ => false
    let th := newTagHandler 0 ["dc:x"] [newFilter { dropTags := ["host:*"] }, newFilter { matchMetrics := ["junk"], dropMetric := true }]
    let m : MM Int := {
      counters := [(("req", "host:a"), { value := 2, ts := 5, src := "", tags := ["host:a"] }),
                   (("req", "host:b"), { value := 3, ts := 9, src := "", tags := ["host:b"] }),
                   (("junk", ""), { value := 7, ts := 1, src := "", tags := [] })],
      gauges := [(("g", "host:a"), { value := 1, ts := 7, src := "", tags := ["host:a"] }),
                 (("g", "host:b"), { value := 2, ts := 6, src := "", tags := ["host:b"] })] }
    (th.rekeyMap re m).counters = [(("req", "dc:x"), { value := 5, ts := 9, src := "", tags := ["dc:x"] })] ∧
    (th.rekeyMap re m).gauges.map (fun e => (e.1, e.2.value, e.2.ts, e.2.tags)) = [(("g", "dc:x"), 1, 7, ["dc:x"])] ∧
    (survivors re th m).length = 4 := by
  refine ⟨by decide, by decide, by decide⟩

end Gsd
