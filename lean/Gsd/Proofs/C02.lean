import Gsd.Proofs.Lemmas.LexerRun
/-!
# C02 — the line lexer accepts exactly the documented grammar

Property theorems only (helpers: `Proofs/Lemmas/Lexer.lean`).  Everything is quantified over every
`ParseFloat` (`pf`), every namespace, every capacity `cap ≥` the line length, both settings of the
repair switches (`cfg`), and every abstract float type `F` with `isNaN` / `rateOk` / `one`.

The slice handed to `Lexer.Run` is shorter than 2³² bytes (`uint32(len(input))` in `Run`; datagrams are
≤ 65535 bytes): hypotheses `hlt`, `hcap`.
-/
set_option linter.unusedSimpArgs false
set_option linter.unusedVariables false
namespace Gsd
open Lexer

section
variable {F : Type} [FloatLike F]

/-! ## acceptance of the grammar -/

/-- **C02_accepts_grammar.**  Every well-formed line `name:value|type|fields…` of the documented grammar
is accepted, with exactly the fields the grammar specifies: normalised, namespace-prefixed name;
`ParseFloat` of the value (string value for sets); type; the last `@` rate (1 when absent); all
non-empty tags in order; unknown fields ignored — the fields in any order and number. -/
theorem C02_accepts_grammar (cfg : Cfg) (pf : Bytes → Option F) (ns : Bytes) (cap : Nat) (ml : MetricLine)
    (hwf : ml.WF cfg pf) (hlt : ml.render.length < 4294967296) (hcap : ml.render.length ≤ cap) :
    run cfg pf ns cap ml.render = .metric (ml.spec pf ns) := by
  obtain ⟨h0, h58, hh, hn, hv0, hvb, hval, hfs⟩ := hwf
  have hl : ml.render.length ≤ (UInt32.ofNat ml.render.length).toNat := by rw [ofNat_len hlt]; exact Nat.le_refl _
  have hc : (UInt32.ofNat ml.render.length).toNat ≤ cap := by rw [ofNat_len hlt]; exact hcap
  obtain ⟨len', l1, l2, e⟩ := metricLine_fwd cfg pf ns cap (UInt32.ofNat ml.render.length) ml.name ml.value
    (ml.ty.bytes ++ renderFields ml.fields) h0 h58 hv0 hvb hl hc
  have hne : ml.name ≠ [] := fun e => hn (by simp [e, norm])
  obtain ⟨b, t, hbt⟩ := List.exists_cons_of_ne_nil hne
  have hb1 : b ≠ 95 := fun e => hh (by simp [hbt, e])
  have hb2 : b ≠ 0 := fun e => h0 (by simp [hbt, e])
  have hr : ml.render = b :: (t ++ 58 :: (ml.value ++ 124 :: (ml.ty.bytes ++ renderFields ml.fields))) := by
    simp [MetricLine.render, hbt]
  have hrun : run cfg pf ns cap ml.render = ofMetricRes pf (metricLine cfg pf ns cap (UInt32.ofNat ml.render.length) ml.render) := by
    rw [hr]; exact run_metric_path cfg pf ns cap b _ hb1 hb2
  rw [hrun]
  have e' : metricLine cfg pf ns cap (UInt32.ofNat ml.render.length) ml.render =
      metricTail cfg pf ns ⟨len', cap⟩ ml.name ml.value (ml.ty.bytes ++ renderFields ml.fields) := by
    rw [if_neg hn] at e; exact e
  rw [e']
  unfold metricTail
  rw [lexType_bytes]
  simp only [Res.bind_ok]
  have hf := mattrs_fields_run cfg pf ⟨len', cap⟩ l2 ml.fields hfs [] (Or.inl rfl) FloatLike.one []
    (by simp only [List.append_nil]; simp only [List.length_append] at l1; omega)
  simp only [List.append_nil] at hf
  rw [hf]
  simp only [mattrs, Res.bind_ok, List.reverse_reverse, ofMetricRes, finishMetric, MetricLine.spec]
  by_cases hs : ml.ty = .s
  · simp [hs, TypeSp.type]
  · obtain ⟨v, hv, hnan⟩ := hval hs
    have : ml.ty.type ≠ .set := by cases h : ml.ty <;> simp_all [TypeSp.type]
    simp [hs, this, hv, hnan]

/-- non-vacuity of `C02_accepts_grammar`: `a/b c:1|ms|#x,,y:z|@0.5|T0|#w` in namespace `ns` -/
example :
    let pf : Bytes → Option UInt64 := fun b => if b = [49] then some 0x3ff0000000000000 else if b = [48, 46, 53] then some 0x3fe0000000000000 else none
    let ml : MetricLine := { name := [97, 47, 98, 32, 99], value := [49], ty := .ms, fields := [.tags [[120], [], [121, 58, 122]], .rate [48, 46, 53], .other [84, 48], .tags [[119]]] }
    ml.WF Cfg.repaired pf ∧ ml.spec pf [110, 115] =
      { name := [110, 115, 46, 97, 45, 98, 95, 99], type := .timer, value := some 0x3ff0000000000000, svalue := [],
        rate := 0x3fe0000000000000, tags := [[120], [121, 58, 122], [119]] } := by
  refine ⟨⟨by decide, by decide, by decide, by decide, by decide, by decide, fun _ => ⟨0x3ff0000000000000, by decide, by decide⟩, ?_⟩, by decide⟩
  intro f hf
  simp only [List.mem_cons, List.not_mem_nil, or_false] at hf
  rcases hf with rfl | rfl | rfl | rfl
  · intro t ht; simp only [List.mem_cons, List.not_mem_nil, or_false] at ht; rcases ht with rfl | rfl | rfl <;> decide
  · exact ⟨by decide, 0x3fe0000000000000, by decide, fun _ => by decide⟩
  · exact ⟨by decide, 84, [48], rfl, by decide, by decide⟩
  · intro t ht; simp only [List.mem_cons, List.not_mem_nil, or_false] at ht; subst ht; decide

/-- **C02_normalise.**  Whenever a metric is accepted (any bytes, NUL included) the line splits at its
first `:` and the metric's name is the namespace, a dot, and the text before that `:` with `/`→`-`,
blank/tab→`_`, `[A-Za-z0-9._-]` kept and every other byte deleted (`norm`); no namespace, no prefix. -/
theorem C02_normalise (cfg : Cfg) (pf : Bytes → Option F) (ns : Bytes) (cap : Nat) (input : Bytes) (m : Metric F)
    (hlt : input.length < 4294967296) (hcap : input.length ≤ cap) (h : run cfg pf ns cap input = .metric m) :
    ∃ raw rest, input = raw ++ 58 :: rest ∧ (58 : UInt8) ∉ raw ∧
      m.name = (if ns = [] then norm raw else ns ++ 46 :: norm raw) ∧
      norm raw = raw.filterMap normByte := by
  obtain ⟨_, raw, v, sp, r3, len', rate, tagsRev, e, _, h58, _, _, _, _, hfin⟩ := accepted_metric_anatomy hlt hcap h
  exact ⟨raw, _, e, h58, by rw [(finishMetric_inv hfin).1]; rfl, rfl⟩

/-- what `norm` does to one byte -/
example : normByte 47 = some 45 ∧ normByte 32 = some 95 ∧ normByte 9 = some 95 ∧ normByte 65 = some 65 ∧
    normByte 122 = some 122 ∧ normByte 48 = some 48 ∧ normByte 46 = some 46 ∧ normByte 45 = some 45 ∧
    normByte 95 = some 95 ∧ normByte 36 = none ∧ normByte 124 = none ∧ normByte 200 = none := by decide

/-! ## rejection -/

/-- **C02_rej_empty_name.**  A line whose text before the first `:` keeps no character after
normalisation (empty, or only characters outside `[A-Za-z0-9._/ \t-]`) is rejected with `errEmptyKey`. -/
theorem C02_rej_empty_name (cfg : Cfg) (pf : Bytes → Option F) (ns : Bytes) (cap : Nat) (raw rest : Bytes)
    (h0 : (0 : UInt8) ∉ raw) (h58 : (58 : UInt8) ∉ raw) (hn : norm raw = [])
    (hlt : (raw ++ 58 :: rest).length < 4294967296) (hcap : (raw ++ 58 :: rest).length ≤ cap) :
    run cfg pf ns cap (raw ++ 58 :: rest) = .reject .emptyKey := by
  have hml := metricLine_emptyKey cfg pf ns cap (UInt32.ofNat (raw ++ 58 :: rest).length) raw rest h0 h58 hn
    (by rw [ofNat_len hlt]; exact Nat.le_refl _) (by rw [ofNat_len hlt]; exact hcap)
  cases raw with
  | nil => simp only [List.nil_append] at hml ⊢; rw [run_metric_path _ _ _ _ _ _ (by decide) (by decide), hml]; rfl
  | cons b t =>
    have hb1 : b ≠ 95 := by
      intro e; subst e; simp [norm_cons] at hn
      have : normByte 95 = some 95 := by decide
      simp [this] at hn
    have hb2 : b ≠ 0 := fun e => h0 (by simp [e])
    simp only [List.cons_append] at hml ⊢
    rw [run_metric_path _ _ _ _ _ _ hb1 hb2, hml]; rfl

/-- **C02_rej_bad_type.**  `name:value|` followed by anything that is not one of the five type
spellings `c g ms h s` is rejected (with `errInvalidType`, or `errEmptyKey` when the name is empty too). -/
theorem C02_rej_bad_type (cfg : Cfg) (pf : Bytes → Option F) (ns : Bytes) (cap : Nat) (raw v r2 : Bytes)
    (hh : raw.head? ≠ some 95) (h0 : (0 : UInt8) ∉ raw) (h58 : (58 : UInt8) ∉ raw) (hv0 : (0 : UInt8) ∉ v) (hvb : (124 : UInt8) ∉ v)
    (hty : ∀ (sp : TypeSp) (r3 : Bytes), r2 ≠ sp.bytes ++ r3)
    (hlt : (raw ++ 58 :: (v ++ 124 :: r2)).length < 4294967296) (hcap : (raw ++ 58 :: (v ++ 124 :: r2)).length ≤ cap) :
    run cfg pf ns cap (raw ++ 58 :: (v ++ 124 :: r2)) = .reject .type ∨
    run cfg pf ns cap (raw ++ 58 :: (v ++ 124 :: r2)) = .reject .emptyKey := by
  obtain ⟨len', _, _, e⟩ := metricLine_fwd cfg pf ns cap (UInt32.ofNat (raw ++ 58 :: (v ++ 124 :: r2)).length) raw v r2 h0 h58 hv0 hvb
    (by rw [ofNat_len hlt]; exact Nat.le_refl _) (by rw [ofNat_len hlt]; exact hcap)
  have hterr : lexType r2 = .err .type := by
    rcases lexType_cases r2 with ⟨ty, r, h⟩ | h
    · obtain ⟨sp, e1, _⟩ := lexType_inv h; exact absurd e1 (hty sp r)
    · exact h
  have hrun : run cfg pf ns cap (raw ++ 58 :: (v ++ 124 :: r2)) =
      ofMetricRes pf (metricLine cfg pf ns cap (UInt32.ofNat (raw ++ 58 :: (v ++ 124 :: r2)).length) (raw ++ 58 :: (v ++ 124 :: r2))) := by
    cases raw with
    | nil => exact run_metric_path _ _ _ _ _ _ (by decide) (by decide)
    | cons b t => exact run_metric_path _ _ _ _ _ _ (fun e => hh (by simp [e])) (fun e => h0 (by simp [e]))
  rw [hrun, e]
  split
  · right; rfl
  · left; simp [metricTail, hterr, ofMetricRes]

/-- **C02_rej_bad_type_suffix.**  A type spelling must be followed by `|` or the end of the line:
`name:value|c` + any other byte is rejected (`cx`, `msx`, `gg`, …). -/
theorem C02_rej_bad_type_suffix (cfg : Cfg) (pf : Bytes → Option F) (ns : Bytes) (cap : Nat) (raw v : Bytes) (sp : TypeSp)
    (c : UInt8) (r4 : Bytes) (hc1 : c ≠ 124) (hc2 : c ≠ 0)
    (hh : raw.head? ≠ some 95) (h0 : (0 : UInt8) ∉ raw) (h58 : (58 : UInt8) ∉ raw) (hv0 : (0 : UInt8) ∉ v) (hvb : (124 : UInt8) ∉ v)
    (hlt : (raw ++ 58 :: (v ++ 124 :: (sp.bytes ++ c :: r4))).length < 4294967296)
    (hcap : (raw ++ 58 :: (v ++ 124 :: (sp.bytes ++ c :: r4))).length ≤ cap) :
    run cfg pf ns cap (raw ++ 58 :: (v ++ 124 :: (sp.bytes ++ c :: r4))) = .reject .type ∨
    run cfg pf ns cap (raw ++ 58 :: (v ++ 124 :: (sp.bytes ++ c :: r4))) = .reject .emptyKey := by
  obtain ⟨len', _, _, e⟩ := metricLine_fwd cfg pf ns cap (UInt32.ofNat (raw ++ 58 :: (v ++ 124 :: (sp.bytes ++ c :: r4))).length)
    raw v (sp.bytes ++ c :: r4) h0 h58 hv0 hvb
    (by rw [ofNat_len hlt]; exact Nat.le_refl _) (by rw [ofNat_len hlt]; exact hcap)
  have hrun : run cfg pf ns cap (raw ++ 58 :: (v ++ 124 :: (sp.bytes ++ c :: r4))) =
      ofMetricRes pf (metricLine cfg pf ns cap (UInt32.ofNat (raw ++ 58 :: (v ++ 124 :: (sp.bytes ++ c :: r4))).length)
        (raw ++ 58 :: (v ++ 124 :: (sp.bytes ++ c :: r4)))) := by
    cases raw with
    | nil => exact run_metric_path _ _ _ _ _ _ (by decide) (by decide)
    | cons b t => exact run_metric_path _ _ _ _ _ _ (fun e => hh (by simp [e])) (fun e => h0 (by simp [e]))
  rw [hrun, e]
  split
  · right; rfl
  · left; simp [metricTail, lexType_bytes, mattrs, hc1, hc2, ofMetricRes]

/-- **C02_rej_bad_number.**  On a line that does not begin with `_`: when the type is not `s` and
`ParseFloat` rejects the value text (or returns NaN), the line is rejected — whatever follows the type. -/
theorem C02_rej_bad_number (cfg : Cfg) (pf : Bytes → Option F) (ns : Bytes) (cap : Nat) (raw v r2 : Bytes)
    (hh : raw.head? ≠ some 95) (h58 : (58 : UInt8) ∉ raw) (hvb : (124 : UInt8) ∉ v)
    (hnotset : r2.head? ≠ some 115)
    (hbad : pf v = none ∨ ∃ x, pf v = some x ∧ FloatLike.isNaN x = true)
    (hlt : (raw ++ 58 :: (v ++ 124 :: r2)).length < 4294967296) (hcap : (raw ++ 58 :: (v ++ 124 :: r2)).length ≤ cap) :
    ∃ e, run cfg pf ns cap (raw ++ 58 :: (v ++ 124 :: r2)) = .reject e := by
  have hhead : (raw ++ 58 :: (v ++ 124 :: r2)).head? ≠ some 95 := by
    cases raw with
    | nil => simp
    | cons b t => simpa using hh
  rcases run_plain cfg pf ns cap _ hlt hcap hhead with ⟨e, h, _⟩ | ⟨m, a, h, _⟩ | ⟨e, a, h, _⟩
  · exact ⟨e, h⟩
  · exfalso
    obtain ⟨_, raw', v', sp, r3, len', rate, tagsRev, e, _, h58', _, _, hvb', _, hfin⟩ := accepted_metric_anatomy hlt hcap h
    obtain ⟨rfl, e2⟩ := append_cons_unique e h58 h58'
    obtain ⟨rfl, e3⟩ := append_cons_unique e2 hvb hvb'
    have hsp : sp.type ≠ .set := by
      intro hs
      have : sp = .s := by cases sp <;> simp_all [TypeSp.type]
      subst this; subst e3; simp [TypeSp.bytes] at hnotset
    obtain ⟨x, hx, hnan, _⟩ := (finishMetric_inv hfin).2.2.2.2.2 hsp
    rcases hbad with hb | ⟨y, hy, hyn⟩
    · rw [hb] at hx; simp at hx
    · rw [hy] at hx; simp only [Option.some.injEq] at hx; subst hx; rw [hyn] at hnan; simp at hnan
  · exact ⟨e, h⟩

/-- **C02_rej_bad_rate.**  After any well-formed fields, an `@` field whose text `ParseFloat` rejects
makes the whole line rejected — and with the D2 repair (`cfg.checkRate`) so does a rate that is NaN,
infinite, zero or negative. -/
theorem C02_rej_bad_rate (cfg : Cfg) (pf : Bytes → Option F) (ns : Bytes) (cap : Nat) (raw v : Bytes) (sp : TypeSp)
    (fs : List Field) (txt tail : Bytes)
    (hh : raw.head? ≠ some 95) (h0 : (0 : UInt8) ∉ raw) (h58 : (58 : UInt8) ∉ raw) (hv0 : (0 : UInt8) ∉ v) (hvb : (124 : UInt8) ∉ v)
    (hfs : ∀ f ∈ fs, f.WF cfg pf) (htxt : (124 : UInt8) ∉ txt) (htail : tail = [] ∨ ∃ m, tail = 124 :: m)
    (hbad : pf txt = none ∨ (cfg.checkRate = true ∧ ∃ x, pf txt = some x ∧ FloatLike.rateOk x = false))
    (hlt : (raw ++ 58 :: (v ++ 124 :: (sp.bytes ++ (renderFields fs ++ 124 :: 64 :: (txt ++ tail))))).length < 4294967296)
    (hcap : (raw ++ 58 :: (v ++ 124 :: (sp.bytes ++ (renderFields fs ++ 124 :: 64 :: (txt ++ tail))))).length ≤ cap) :
    ∃ e, (e = .num ∨ e = .rate ∨ e = .emptyKey) ∧
      run cfg pf ns cap (raw ++ 58 :: (v ++ 124 :: (sp.bytes ++ (renderFields fs ++ 124 :: 64 :: (txt ++ tail))))) = .reject e := by
  obtain ⟨len', l1, l2, e⟩ := metricLine_fwd cfg pf ns cap _ raw v (sp.bytes ++ (renderFields fs ++ 124 :: 64 :: (txt ++ tail))) h0 h58 hv0 hvb
    (by rw [ofNat_len hlt]; exact Nat.le_refl _) (by rw [ofNat_len hlt]; exact hcap)
  have hrun : ∀ X : Bytes, run cfg pf ns cap (raw ++ 58 :: X) =
      ofMetricRes pf (metricLine cfg pf ns cap (UInt32.ofNat (raw ++ 58 :: X).length) (raw ++ 58 :: X)) := by
    intro X
    cases raw with
    | nil => exact run_metric_path _ _ _ _ _ _ (by decide) (by decide)
    | cons b t => exact run_metric_path _ _ _ _ _ _ (fun e => hh (by simp [e])) (fun e => h0 (by simp [e]))
  rw [hrun, e]
  split
  · exact ⟨.emptyKey, Or.inr (Or.inr rfl), rfl⟩
  · unfold metricTail
    rw [lexType_bytes]
    simp only [Res.bind_ok]
    simp only [List.length_append, List.length_cons] at l1
    rw [mattrs_fields_run cfg pf ⟨len', cap⟩ l2 fs hfs _ (Or.inr ⟨_, rfl⟩) _ _ (by simp only [List.length_append, List.length_cons]; omega)]
    simp only [mattrs, if_true]
    rw [guard_true _ (by ghost_omega len')]
    rw [mattrs_rate_run cfg pf ⟨len', cap⟩ l2 txt tail htxt htail _ _ _ _ (Nat.le_refl _) (by simp only [List.length_append]; omega)]
    rcases hbad with hb | ⟨hc, x, hx, hr⟩
    · exact ⟨.num, Or.inl rfl, by simp [applyRate, hb, ofMetricRes]⟩
    · exact ⟨.rate, Or.inr (Or.inl rfl), by simp [applyRate, hx, hc, hr, ofMetricRes]⟩

/-! ## well-formedness of whatever is accepted -/

/-- **C02_wf_of_accepted** (all byte strings, NUL included).  An accepted metric has a non-empty name, a
value that is a non-NaN number (a string value for sets), tags that are non-empty and contain neither
`,` nor `|`; its sample rate is finite and strictly positive **provided the D2 repair is in**
(`cfg.checkRate`): on the pinned tree that part is false, see `C02_rate_defect`. -/
theorem C02_wf_of_accepted (cfg : Cfg) (pf : Bytes → Option F) (ns : Bytes) (cap : Nat) (input : Bytes) (m : Metric F)
    (hlt : input.length < 4294967296) (hcap : input.length ≤ cap) (h : run cfg pf ns cap input = .metric m) :
    m.name ≠ [] ∧
    (m.type ≠ .set → ∃ v, m.value = some v ∧ FloatLike.isNaN v = false) ∧
    (m.type = .set → m.value = none) ∧
    (∀ t ∈ m.tags, t ≠ [] ∧ (44 : UInt8) ∉ t ∧ (124 : UInt8) ∉ t) ∧
    (cfg.checkRate = true → FloatLike.rateOk m.rate = true) := by
  obtain ⟨_, raw, v, sp, r3, len', rate, tagsRev, e, _, _, hn, _, _, hma, hfin⟩ := accepted_metric_anatomy hlt hcap h
  obtain ⟨f1, f2, f3, f4, f5, f6⟩ := finishMetric_inv hfin
  obtain ⟨w1, w2⟩ := mattrs_wf cfg pf ⟨len', cap⟩ r3 .sep FloatLike.one [] rate tagsRev hma trivial (by simp)
    (fun _ => FloatLike.rateOk_one)
  refine ⟨?_, ?_, ?_, ?_, ?_⟩
  · rw [f1]; unfold withNs; split
    · exact hn
    · simp
  · intro hs; rw [f2] at hs
    obtain ⟨x, _, hx, hv, _⟩ := f6 hs
    exact ⟨x, hv, hx⟩
  · intro hs; rw [f2] at hs; exact (f5 hs).1
  · intro t ht; rw [f4] at ht; exact w1 t (by simpa using ht)
  · rw [f3]; exact w2

/-! ## events -/

/-- **C02_accepts_event_grammar.**  Every event line `_e{n,m}:title|text|fields…` whose declared lengths
are the lengths of its title and text (any bytes in them, `|` included; leading zeros allowed in the
numbers) is accepted with exactly the specified fields: title, text with `\\n` → newline, `d:` date,
`h:` host, `k:` aggregation key, `p:` priority, `s:` source type, `t:` alert type, `#` tags (empty ones
dropped), unknown fields ignored — in any order and number. -/
theorem C02_accepts_event_grammar (cfg : Cfg) (pf : Bytes → Option F) (ns : Bytes) (cap : Nat) (el : EventLine)
    (hwf : el.WF) (hlt : el.render.length < 4294967296) (hcap : el.render.length ≤ cap) :
    run cfg pf ns cap el.render = .event el.spec := by
  obtain ⟨hd1, hd2, hv1, hv2, hfs⟩ := hwf
  let hdr : Bytes := [95, 101, 123] ++ (el.titleDigits ++ 44 :: (el.textDigits ++ [125, 58]))
  have hr : el.render = hdr ++ (el.title ++ 124 :: (el.text ++ renderEFields el.fields)) := by
    simp [EventLine.render, hdr]
  have hr2 : el.render = 95 :: 101 :: 123 :: (el.titleDigits ++ 44 :: (el.textDigits ++ 125 :: 58 ::
      (el.title ++ 124 :: (el.text ++ renderEFields el.fields)))) := by
    simp [EventLine.render]
  have hlen : el.title.length + el.text.length < el.render.length := by
    rw [hr]; simp only [List.length_append, List.length_cons]; omega
  have hrun : run cfg pf ns cap el.render =
      ofEventRes (datadog cfg ⟨UInt32.ofNat el.render.length, cap⟩ el.render
        (101 :: 123 :: (el.titleDigits ++ 44 :: (el.textDigits ++ 125 :: 58 :: (el.title ++ 124 :: (el.text ++ renderEFields el.fields)))))) := by
    conv => lhs; rw [hr2]
    simp only [run, if_true]
    rw [← hr2]
  rw [hrun]
  unfold datadog
  rw [eventHeader_render _ _ _ hd1 hd2 (by omega) (by omega)]
  simp only [Res.bind_ok, hv1, hv2]
  have hg : (⟨UInt32.ofNat el.render.length, cap⟩ : Ghost).len.toNat = el.render.length := ofNat_len hlt
  have hb := eventBody_exact cfg ⟨UInt32.ofNat el.render.length, cap⟩ hdr el.title el.text (renderEFields el.fields)
    (by rw [hg, hr]) (by rw [hg]; exact hcap)
  rw [← hr] at hb
  rw [hb]
  simp only [Res.bind_ok]
  have hf := eattrs_fields_run ⟨UInt32.ofNat el.render.length, cap⟩ (by rw [hg]; exact hcap) el.fields hfs [] (Or.inl rfl)
    { title := el.title, text := unescape el.text }
    (by rw [hg, hr]; simp only [List.append_nil, List.length_append, List.length_cons]; omega)
  simp only [List.append_nil] at hf
  rw [hf]
  simp [eattrs, ofEventRes, EventLine.spec]

/-- non-vacuity of `C02_accepts_event_grammar`: `_e{02,4}:ab|x\ny|p:low|#t,,u|zz|d:12` -/
example :
    let el : EventLine := { titleDigits := [48, 50], textDigits := [52], title := [97, 98], text := [120, 92, 110, 121], fields := [.prio .low, .tags [[116], [], [117]], .other [122, 122], .date [49, 50]] }
    el.WF ∧ el.spec = { title := [97, 98], text := [120, 10, 121], date := 12, prio := .low, tags := [[116], [117]] } := by
  refine ⟨⟨by decide, by decide, by decide, by decide, ?_⟩, by decide⟩
  intro f hf
  simp only [List.mem_cons, List.not_mem_nil, or_false] at hf
  rcases hf with rfl | rfl | rfl | rfl
  · trivial
  · intro t ht; simp only [List.mem_cons, List.not_mem_nil, or_false] at ht; rcases ht with rfl | rfl | rfl <;> decide
  · exact ⟨by decide, 122, [122], rfl, by decide, by decide, by decide, by decide, by decide, by decide, by decide⟩
  · exact ⟨by decide, by decide⟩

/-- **C02_wf_of_accepted_event.**  The tags of an accepted event are non-empty and contain neither `,`
nor `|`; an event line starts with `_e` and contains `:` and `|`. -/
theorem C02_wf_of_accepted_event (cfg : Cfg) (pf : Bytes → Option F) (ns : Bytes) (cap : Nat) (input : Bytes) (e : Event)
    (h : run cfg pf ns cap input = .event e) :
    (∀ t ∈ e.tags, t ≠ [] ∧ (44 : UInt8) ∉ t ∧ (124 : UInt8) ∉ t) ∧
    (∃ t, input = 95 :: 101 :: t) ∧ (58 : UInt8) ∈ input ∧ (124 : UInt8) ∈ input := by
  obtain ⟨t, rfl, hd⟩ := run_event_inv h
  obtain ⟨h1, h2, h3, h4⟩ := datadog_ok_inv hd
  refine ⟨h4, ?_, List.mem_cons_of_mem _ h1, h2⟩
  cases t with
  | nil => simp at h3
  | cons b t' => simp only [List.head?_cons, Option.some.injEq] at h3; exact ⟨t', by rw [h3]⟩

/-! ## rejection on all strings -/

/-- **C02_rej_no_keysep** (all byte strings).  A line without `:` is rejected — with
`errMissingKeySep` unless it is empty or begins with `_` or NUL. -/
theorem C02_rej_no_keysep (cfg : Cfg) (pf : Bytes → Option F) (ns : Bytes) (cap : Nat) (input : Bytes)
    (hlt : input.length < 4294967296) (hcap : input.length ≤ cap) (h58 : (58 : UInt8) ∉ input) :
    (∃ e, run cfg pf ns cap input = .reject e) ∧
    (input ≠ [] → input.head? ≠ some 95 → input.head? ≠ some 0 → run cfg pf ns cap input = .reject .keysep) := by
  have hml : metricLine cfg pf ns cap (UInt32.ofNat input.length) input = .err .keysep := by
    rcases metricLine_cases cfg pf ns cap (UInt32.ofNat input.length) input (by rw [ofNat_len hlt]; exact Nat.le_refl _)
      (by rw [ofNat_len hlt]; exact hcap) with e | ⟨raw, r1, e1, _⟩
    · exact e
    · exact absurd (by rw [e1]; simp) h58
  cases input with
  | nil => exact ⟨⟨.type, by simp [run]⟩, fun h => absurd rfl h⟩
  | cons b t =>
    by_cases h1 : b = 95
    · subst h1
      obtain ⟨e, he⟩ := datadog_no_colon cfg ⟨UInt32.ofNat (95 :: t).length, cap⟩ (95 :: t) t (fun m => h58 (List.mem_cons_of_mem _ m))
      refine ⟨⟨e, ?_⟩, fun _ h => absurd rfl h⟩
      have : run cfg pf ns cap (95 :: t) = ofEventRes (datadog cfg ⟨UInt32.ofNat (95 :: t).length, cap⟩ (95 :: t) t) := by
        simp only [run, if_true]
      rw [this, he]; rfl
    by_cases h2 : b = 0
    · subst h2; exact ⟨⟨.type, by simp [run]⟩, fun _ _ h => absurd rfl h⟩
    · rw [run_metric_path cfg pf ns cap b t h1 h2, hml]
      exact ⟨⟨.keysep, rfl⟩, fun _ _ _ => rfl⟩

/-- **C02_rej_no_valuesep** (all byte strings).  A line without `|` is never accepted: it is rejected —
or, on the pinned tree only, an event header with wrapping lengths makes `lexEventBody` panic
(defect D1, see C03; with the repair `cfg.wideLenCheck` the outcome is always a rejection). -/
theorem C02_rej_no_valuesep (cfg : Cfg) (pf : Bytes → Option F) (ns : Bytes) (cap : Nat) (input : Bytes)
    (hlt : input.length < 4294967296) (hcap : input.length ≤ cap) (h124 : (124 : UInt8) ∉ input) :
    (∃ e, run cfg pf ns cap input = .reject e) ∨ (cfg.wideLenCheck = false ∧ run cfg pf ns cap input = .panic) := by
  cases hrun : run cfg pf ns cap input with
  | reject e => left; exact ⟨e, rfl⟩
  | metric m =>
    exfalso
    obtain ⟨_, raw, v, sp, r3, _, _, _, e, _⟩ := accepted_metric_anatomy hlt hcap hrun
    exact h124 (by rw [e]; simp)
  | event e => exact absurd (C02_wf_of_accepted_event cfg pf ns cap input e hrun).2.2.2 h124
  | panic =>
    right
    refine ⟨?_, rfl⟩
    cases hw : cfg.wideLenCheck with
    | false => rfl
    | true =>
      exfalso
      cases input with
      | nil => simp [run] at hrun
      | cons b t =>
        by_cases h1 : b = 95
        · subst h1
          have : run cfg pf ns cap (95 :: t) = ofEventRes (datadog cfg ⟨UInt32.ofNat (95 :: t).length, cap⟩ (95 :: t) t) := by
            simp only [run, if_true]
          rw [this] at hrun
          have hnp := datadog_wide_ne_panic cfg hw ⟨UInt32.ofNat (95 :: t).length, cap⟩ (95 :: t) t (by simp)
            (by rw [show (⟨UInt32.ofNat (95 :: t).length, cap⟩ : Ghost).len.toNat = (95 :: t).length from ofNat_len hlt]; exact Nat.le_refl _)
            (by rw [show (⟨UInt32.ofNat (95 :: t).length, cap⟩ : Ghost).len.toNat = (95 :: t).length from ofNat_len hlt]; exact hcap)
          cases hd : datadog cfg ⟨UInt32.ofNat (95 :: t).length, cap⟩ (95 :: t) t with
          | panic => exact hnp hd
          | ok _ => rw [hd] at hrun; simp [ofEventRes] at hrun
          | err _ => rw [hd] at hrun; simp [ofEventRes] at hrun
        · rcases run_plain cfg pf ns cap (b :: t) hlt hcap (by simp [h1]) with ⟨e, h, _⟩ | ⟨m, a, h, _⟩ | ⟨e, a, h, _⟩ <;>
            rw [h] at hrun <;> simp at hrun

/-! ## D2: the sample rate of the pinned tree -/

/-- `ParseFloat` restricted to the two texts of the witness: `"1"` ↦ 1.0, `"0"` ↦ 0.0 -/
def d2pf (b : Bytes) : Option UInt64 := if b = [49] then some 0x3ff0000000000000 else if b = [48] then some 0 else none

/-- `a:1|c|@0` -/
def d2line : Bytes := [97, 58, 49, 124, 99, 124, 64, 48]

/-- **C02_rate_defect** (negative witness, D2).  On the pinned tree (`Cfg.current` has `checkRate = false`)
the line `a:1|c|@0` is accepted with sample rate 0 — the last conjunct of the property ("a finite strictly
positive sample rate") is false there.  The same holds for `@-1`, `@nan`, `@inf`. -/
theorem C02_rate_defect :
    run { checkRate := false, wideLenCheck := false } d2pf [] 8 d2line =
      .metric { name := [97], type := .counter, value := some 0x3ff0000000000000, svalue := [], rate := 0, tags := [] } ∧
    FloatLike.rateOk (0 : UInt64) = false := by
  decide

/-- with the repair the same line is rejected -/
theorem C02_rate_repaired : run { checkRate := true, wideLenCheck := false } d2pf [] 8 d2line = .reject .rate := by
  decide

/-! ## accepted ⇒ grammar (partial) -/

/-
Full statement (NOT provable, and false on the code as it is — see the counterexample below):

  theorem C02_accept_only_grammar : (0 ∉ input) → run cfg pf ns cap input = .metric m →
      ∃ ml : MetricLine, ml.WF cfg pf ∧ ml.render = input

What is proved: the *head* of every accepted line is grammatical — name, `:`, value, `|`, one of the
five type spellings, then the end of the line or a `|`.  What is missing: that the rest is a sequence
of well-formed fields.  It is not: an empty field makes `lexMetricAttribute` consume the following `|`
and skip the next field whatever it contains (`a:1|c||@x` is accepted, `@x` never reaches `ParseFloat`),
and a trailing `|` is accepted.
-/
/-- **C02_accept_only_grammar_partial.** -/
theorem C02_accept_only_grammar_partial (cfg : Cfg) (pf : Bytes → Option F) (ns : Bytes) (cap : Nat) (input : Bytes) (m : Metric F)
    (hlt : input.length < 4294967296) (hcap : input.length ≤ cap) (h0 : (0 : UInt8) ∉ input)
    (h : run cfg pf ns cap input = .metric m) :
    ∃ (name value : Bytes) (sp : TypeSp) (r3 : Bytes),
      input = name ++ 58 :: (value ++ 124 :: (sp.bytes ++ r3)) ∧
      ({ name := name, value := value, ty := sp, fields := [] } : MetricLine).WF cfg pf ∧
      (r3 = [] ∨ ∃ r4, r3 = 124 :: r4) := by
  obtain ⟨hh, raw, v, sp, r3, len', rate, tagsRev, e, h0r, h58, hn, hv0, hvb, hma, hfin⟩ := accepted_metric_anatomy hlt hcap h
  refine ⟨raw, v, sp, r3, e, ⟨h0r, h58, ?_, hn, hv0, hvb, ?_, by simp⟩, ?_⟩
  · intro hr; apply hh; rw [e]
    cases raw with
    | nil => simp at hr
    | cons b t => simpa using hr
  · intro hs
    have : sp.type ≠ .set := by cases sp <;> simp_all [TypeSp.type]
    obtain ⟨x, hx, hnan, _⟩ := (finishMetric_inv hfin).2.2.2.2.2 this
    exact ⟨x, hx, hnan⟩
  · cases r3 with
    | nil => left; rfl
    | cons b t =>
      right
      simp only [mattrs] at hma
      split at hma
      · next hb => exact ⟨t, by rw [hb]⟩
      · split at hma
        · next hb => exact absurd (by rw [e, hb]; simp) h0
        · simp at hma

/-- `a:1|c||@x` -/
def swallowLine : Bytes := [97, 58, 49, 124, 99, 124, 124, 64, 120]

/-- the counterexample to the full converse: the line is accepted (rate 1: the `@x` is never parsed),
yet `||@x` is not the rendering of any list of well-formed fields -/
theorem C02_accept_only_grammar_counterexample :
    run { checkRate := true, wideLenCheck := true } d2pf [] 9 swallowLine =
      .metric { name := [97], type := .counter, value := some 0x3ff0000000000000, svalue := [], rate := 0x3ff0000000000000, tags := [] } ∧
    ¬ ∃ fs : List Field, (∀ f ∈ fs, f.WF { checkRate := true, wideLenCheck := true } d2pf) ∧ renderFields fs = [124, 124, 64, 120] := by
  refine ⟨by decide, ?_⟩
  rintro ⟨fs, hwf, hr⟩
  cases fs with
  | nil => simp [renderFields] at hr
  | cons f fs =>
    have hf := hwf f (by simp)
    simp only [renderFields, List.flatMap_cons, List.cons_append, List.cons.injEq, true_and] at hr
    cases f with
    | rate t => simp [Field.render] at hr
    | tags ts => simp [Field.render] at hr
    | other t =>
      obtain ⟨h124, b, r, rfl, _, _⟩ := hf
      simp only [Field.render, List.cons_append, List.cons.injEq] at hr
      exact h124 (by simp [hr.1])

end
end Gsd
