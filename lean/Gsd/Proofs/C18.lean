import Gsd.Model.Ticker
import Gsd.Proofs.Lemmas.Ticker
/-!
# C18 — aligned flushing happens exactly on interval boundaries

Property theorems only.  Times are `Int` nanoseconds since Go's zero time, `I > 0` is the flush interval,
`off` **any** integer offset (also `≥ I`, also negative), `now` any start instant.  `acts` ranges over
**all** interleavings of "the underlying timer delivered time τ and `sendTick τ` ran" and "the consumer
received from the channel" (`runActs`), i.e. over every advancement pattern and every slow consumer.
The only hypothesis is about the delivered times themselves (`SlotsIncreasing`: every delivered time
falls into a later interval slot than the previous one); `C18_slots_of_gaps`, `C18_slots_of_lateness`
and `C18_mock_semantics` discharge it for an ideal ticker, a late real ticker and the mock clock.
Outside the theorems: a real ticker that is late by a whole interval or more (two delivered times in one
slot give two equal values, hence a zero `flushDelta`).
-/
set_option linter.unusedSimpArgs false
set_option linter.unusedVariables false
namespace Gsd
open Gsd.Ticker

/-- **C18_trunc.**  `trunc` (the model of `time.Time.Truncate`) is the floor to a multiple of `I`. -/
theorem C18_trunc {I : Int} (hI : 0 < I) (t : Int) :
    trunc t I ≤ t ∧ t < trunc t I + I ∧ trunc t I % I = 0 :=
  ⟨(trunc_le hI t).1, (trunc_le hI t).2, trunc_emod hI t⟩

example : trunc (-7) 5 = -10 ∧ trunc 7 5 = 5 ∧ trunc 10 5 = 10 := by decide

/-- **C18_aligned.**  Whatever time the underlying timer delivers, the value put on the channel minus
the offset is an exact multiple of the interval; hence so is every value a consumer ever receives, the
first one and every later one, for all offsets. -/
theorem C18_aligned {I : Int} (hI : 0 < I) (off : Int) :
    (∀ τ, (tickValue τ off I - off) % I = 0) ∧
    ∀ acts : List Act, ∀ v ∈ (runActs off I acts).recvd, (v - off) % I = 0 := by
  refine ⟨fun τ => tickValue_aligned hI τ off, ?_⟩
  intro acts v hv
  have := (recvd_sublist' off I acts).subset hv
  obtain ⟨τ, _, rfl⟩ := List.mem_map.1 this
  exact tickValue_aligned hI τ off

example : (tickValue 1234 25 10 - 25) % 10 = 0 ∧ tickValue 1234 25 10 = 1225 ∧ tickValue (-4) 7 5 = -8 := by decide

/-- **C18_first_bound.**  The first tick `F = now + initialWait` comes strictly after start-up and at
most one interval later, lies on a boundary, and is the value sent when the timer fires less than one
interval late. -/
theorem C18_first_bound {I : Int} (hI : 0 < I) (now off : Int) :
    let F := now + initialWait now off I
    0 < F - now ∧ F - now ≤ I ∧ (F - off) % I = 0 ∧
    ∀ late, 0 ≤ late → late < I → tickValue (F + late) off I = F := by
  have hb := initialWait_bounds hI now off
  have he := first_deadline_eq hI now off
  refine ⟨by omega, by omega, ?_, ?_⟩
  · rw [he]
    have : I * ((now - off) / I + 1) + off - off = I * ((now - off) / I + 1) := by omega
    rw [this]; exact Int.mul_emod_right _ _
  · intro late h0 h1
    rw [he]; exact tickValue_of_boundary hI off _ late h0 h1

example : initialWait 1003 25 10 = 2 ∧ initialWait 1005 25 10 = 10 ∧ initialWait 1005 5 10 = 10 ∧
    initialWait 3 0 1 = 1 ∧ initialWait (-12) 1 5 = 3 := by decide

/-- **C18_dropped_only_removes.**  The values received, followed by the one still in the channel, are a
sub-sequence of the values computed for the delivered times: a full channel drops ticks, it never
reorders, duplicates or invents them. -/
theorem C18_dropped_only_removes (off I : Int) (acts : List Act) :
    ((runActs off I acts).recvd ++ (runActs off I acts).chan.toList).Sublist
      ((ticksOf acts).map (fun τ => tickValue τ off I)) :=
  recvd_sublist off I acts

/-- **C18_monotone.**  If every delivered time falls into a later slot than the previous one, the
received flush times strictly increase — for every interleaving with a slow consumer. -/
theorem C18_monotone {I : Int} (hI : 0 < I) (off : Int) (acts : List Act)
    (h : SlotsIncreasing off I (ticksOf acts)) :
    List.Pairwise (· < ·) (runActs off I acts).recvd := by
  have hp := (pairwise_tickValues_of_slots hI off _ h).sublist (recvd_sublist' off I acts)
  exact hp.imp (fun hab => posMultiple_lt hI hab)

/-- **C18_delta_multiple.**  Under the same hypothesis every `flushDelta` after the first (the
difference of consecutive received values) is a positive multiple of the interval. -/
theorem C18_delta_multiple {I : Int} (hI : 0 < I) (off : Int) (acts : List Act)
    (h : SlotsIncreasing off I (ticksOf acts)) :
    ∀ d ∈ deltas (runActs off I acts).recvd, ∃ n : Int, 0 < n ∧ d = n * I :=
  deltas_posMultiple _ ((pairwise_tickValues_of_slots hI off _ h).sublist (recvd_sublist' off I acts))

example :
    let acts := [Act.tick 1005, .tick 1015, .recv, .tick 1047, .tick 1055, .recv, .recv, .tick 1065, .recv]
    SlotsIncreasing 25 10 (ticksOf acts) ∧ (runActs 25 10 acts).recvd = [1005, 1045, 1065] ∧
    deltas (runActs 25 10 acts).recvd = [40, 20] := by decide

/-- **C18_slots_of_gaps.**  Delivered times at least one interval apart fall into increasing slots. -/
theorem C18_slots_of_gaps {I : Int} (hI : 0 < I) (off : Int) (τs : List Int) (h : GapsOk I τs) :
    SlotsIncreasing off I τs :=
  h.imp (fun hab => slot_lt_of_gap hI off _ _ hab)

/-- **C18_slots_of_lateness.**  A real ticker: the `k`-th delivered time is `B + mₖ·I + lagₖ` with `B` a
boundary, `mₖ` strictly increasing and start-up lag plus lateness `0 ≤ lagₖ < I`.  Then the slots
increase (and the value sent is exactly `B + mₖ·I`). -/
theorem C18_slots_of_lateness {I : Int} (hI : 0 < I) (off q : Int) (ps : List (Int × Int))
    (hlag : ∀ p ∈ ps, 0 ≤ p.2 ∧ p.2 < I) (hm : List.Pairwise (fun a b => a.1 < b.1) ps) :
    SlotsIncreasing off I (ps.map (fun p => I * q + off + p.1 * I + p.2)) ∧
    ∀ p ∈ ps, tickValue (I * q + off + p.1 * I + p.2) off I = I * q + off + p.1 * I := by
  have key : ∀ p ∈ ps, I * q + off + p.1 * I + p.2 = I * (q + p.1) + off + p.2 := by
    intro p _; ring
  constructor
  · unfold SlotsIncreasing
    rw [List.pairwise_map]
    have : ∀ a ∈ ps, ∀ b ∈ ps, a.1 < b.1 →
        slot (I * q + off + a.1 * I + a.2) off I < slot (I * q + off + b.1 * I + b.2) off I := by
      intro a ha b hb hab
      rw [key a ha, key b hb, slot_of_boundary hI off _ _ (hlag a ha).1 (hlag a ha).2,
        slot_of_boundary hI off _ _ (hlag b hb).1 (hlag b hb).2]
      omega
    exact List.Pairwise.imp_of_mem (fun ha hb hab => this _ ha _ hb hab) hm
  · intro p hp
    rw [key p hp, tickValue_of_boundary hI off _ _ (hlag p hp).1 (hlag p hp).2]; ring

example : (∀ p ∈ [((0 : Int), (3 : Int)), (1, 9), (4, 0)], 0 ≤ p.2 ∧ p.2 < 10) ∧
    List.Pairwise (fun a b => a.1 < b.1) [((0 : Int), (3 : Int)), (1, 9), (4, 0)] ∧
    SlotsIncreasing 25 10 ([((0 : Int), (3 : Int)), (1, 9), (4, 0)].map (fun p => 10 * 100 + 25 + p.1 * 10 + p.2)) := by
  decide

/-- **C18_mock_semantics.**  The mock clock's rule (`Mock.set`: a timer fires at its deadline; a ticker
fires at most once per call, at its deadline, and is re-armed to the first multiple of its period after
the new time) together with `start` discharges the hypothesis: for every script that only moves the
clock forward, in ticker and in flusher mode, the delivered times start at `now + initialWait`, are at
least one interval apart, the channel state is the one of `runActs` on the logged actions, and no
received value lies in the future of the clock reading at its receipt. -/
theorem C18_mock_semantics {I : Int} (hI : 0 < I) (now off : Int) (flusher : Bool) (script : List SOp)
    (hs : ScriptOk script) :
    let s := Sim.run now off I flusher script
    s.ch = runActs off I s.log ∧ GapsOk I (ticksOf s.log) ∧
    ((ticksOf s.log).head? = none ∨ (ticksOf s.log).head? = some (now + initialWait now off I)) ∧
    List.Forall₂ (fun v c => v ≤ c) s.ch.recvd s.clocks := by
  have h := simInv_run hI now off flusher script hs
  refine ⟨h.ch_eq, ?_, ?_, h.recvd_le⟩
  · rcases h.phase with ⟨_, _, h3⟩ | ⟨_, Dk, _, _, hpw, _⟩
    · unfold GapsOk; rw [h3]; exact List.Pairwise.nil
    · exact hpw
  · rcases h.phase with ⟨_, _, h3⟩ | ⟨_, Dk, _, hh, _, _⟩
    · left; rw [h3]; rfl
    · right; exact hh

/-- **C18_script.**  What the driver prints for a script therefore satisfies the whole property: every
received flush time is aligned, they strictly increase, the first one is `now + initialWait`
(`0 < F − now ≤ I`), every later `flushDelta` is a positive multiple of the interval, and each value is
at or before the clock reading at its receipt. -/
theorem C18_script {I : Int} (hI : 0 < I) (now off : Int) (flusher : Bool) (script : List SOp)
    (hs : ScriptOk script) :
    let s := Sim.run now off I flusher script
    (∀ v ∈ s.ch.recvd, (v - off) % I = 0) ∧
    List.Pairwise (· < ·) s.ch.recvd ∧
    (∀ F, s.ch.recvd.head? = some F → F = now + initialWait now off I ∧ 0 < F - now ∧ F - now ≤ I) ∧
    (∀ d ∈ deltas s.ch.recvd, ∃ n : Int, 0 < n ∧ d = n * I) ∧
    List.Forall₂ (fun v c => v ≤ c) s.ch.recvd s.clocks := by
  obtain ⟨h1, h2, h3, h4⟩ := C18_mock_semantics hI now off flusher script hs
  have hslots := C18_slots_of_gaps hI off _ h2
  intro s
  have e : s.ch = runActs off I s.log := h1
  refine ⟨?_, ?_, ?_, ?_, h4⟩
  · rw [e]; exact (C18_aligned hI off).2 _
  · rw [e]; exact C18_monotone hI off _ hslots
  · intro F hF
    have hb := initialWait_bounds hI now off
    rcases h3 with h3 | h3
    · have h0 := runActs_no_ticks off I _ (List.head?_eq_none_iff.1 h3)
      rw [e, h0] at hF; cases hF
    · have hh := recvd_head off I _ _ h3
      rw [← e] at hh
      have : (s.ch.recvd ++ s.ch.chan.toList).head? = some F := by
        cases hr : s.ch.recvd with
        | nil => rw [hr] at hF; cases hF
        | cons x r => rw [hr] at hF; simpa using hF
      rw [this] at hh
      have hF' : F = tickValue (now + initialWait now off I) off I := Option.some.inj hh
      have := (C18_first_bound hI now off).2.2.2 0 (by omega) hI
      simp only [Int.add_zero] at this
      rw [this] at hF'
      subst hF'
      exact ⟨rfl, by omega, by omega⟩
  · rw [e]; exact C18_delta_multiple hI off _ hslots

example :
    let script := [SOp.next, .recv, .add 35, .add 1, .recv, .recv, .add 100, .next, .recv]
    ScriptOk script ∧ (Sim.run 1003 25 10 false script).ch.recvd = [1005, 1015, 1045] ∧
    (Sim.run 1003 25 10 false script).clocks = [1005, 1041, 1145] ∧
    ((Sim.run 1003 25 10 true script).evs =
      [.flush 1005 1005, .adv 2, .flush 1040 1015, .flush 1141 1045, .adv 4, .flush 1145 1145]) := by
  decide

end Gsd
