import Gsd.Proofs.Lemmas.LexerRun
import Gsd.Proofs.Lemmas.Datagram
import Gsd.Model.Ingest
/-!
# C03 — no network input can crash ingestion

Property theorems only.  The lexer model evaluates every slice / index expression of lexer.go through
checked primitives on the ghost cursor (`sliceOk`, `indexOk`: `panic` exactly when Go would), so
"`run … ≠ .panic`" is a real statement about bounds.

* On the pinned tree the statement is **false** (defect D1): `C03_lexer_panics_on_pinned_tree`.
* With the repair (`cfg.wideLenCheck = true`, `handoff/C03-fix-1.patch`) it holds for **all** byte strings,
  NUL included, any length < 2³², every `ParseFloat`, namespace and capacity: `C03_lexer_no_panic`.
* Without the repair it still holds for every line that is not an event header: `C03_metric_lines_no_panic`.
-/
set_option linter.unusedSimpArgs false
set_option linter.unusedVariables false
namespace Gsd
open Lexer Datagram

section
variable {F : Type} [FloatLike F]

/-- **C03_metric_lines_no_panic** (pinned tree included).  A line that does not begin with `_` never
reaches an out-of-bounds slice or index: all of `lexKeySep`'s in-place writes and deletions, the name and
value slices, `seekUntil` and `seekDelimited` stay inside the line — for all bytes, NUL included. -/
theorem C03_metric_lines_no_panic (cfg : Cfg) (pf : Bytes → Option F) (ns : Bytes) (cap : Nat) (input : Bytes)
    (hlt : input.length < 4294967296) (hcap : input.length ≤ cap) (hh : input.head? ≠ some 95) :
    run cfg pf ns cap input ≠ .panic := by
  cases input with
  | nil => simp [run]
  | cons b t =>
    have h1 : b ≠ 95 := fun e => hh (by simp [e])
    by_cases h2 : b = 0
    · subst h2; simp [run]
    · have : run cfg pf ns cap (b :: t) = ofMetricRes pf (metricLine cfg pf ns cap (UInt32.ofNat (b :: t).length) (b :: t)) := by
        simp [run, h1, h2]
      rw [this]
      have hnp := metricLine_ne_panic cfg pf ns cap (UInt32.ofNat (b :: t).length) (b :: t)
        (by rw [ofNat_len hlt]; exact Nat.le_refl _) (by rw [ofNat_len hlt]; exact hcap)
      cases hm : metricLine cfg pf ns cap (UInt32.ofNat (b :: t).length) (b :: t) with
      | panic => exact absurd hm hnp
      | err e => simp [ofMetricRes]
      | ok a =>
        obtain ⟨name, ty, value, rate, tags⟩ := a
        simp only [ofMetricRes, finishMetric]
        repeat' split
        all_goals simp

/-- **C03_lexer_no_panic** (repaired code).  With the length test of `lexEventBody` done in 64 bits, no byte
string whatsoever — NUL bytes, event headers declaring lengths near 2³¹, 2³² or 2⁶⁴, lines up to 2³²−1
bytes — makes the lexer index or slice out of bounds. -/
theorem C03_lexer_no_panic (cfg : Cfg) (hfix : cfg.wideLenCheck = true) (pf : Bytes → Option F) (ns : Bytes) (cap : Nat)
    (input : Bytes) (hlt : input.length < 4294967296) (hcap : input.length ≤ cap) :
    run cfg pf ns cap input ≠ .panic := by
  by_cases hh : input.head? = some 95
  · cases input with
    | nil => simp at hh
    | cons b t =>
      simp only [List.head?_cons, Option.some.injEq] at hh
      subst hh
      have : run cfg pf ns cap (95 :: t) = ofEventRes (datadog cfg ⟨UInt32.ofNat (95 :: t).length, cap⟩ (95 :: t) t) := by
        simp only [run, if_true]
      rw [this]
      have hnp := datadog_wide_ne_panic cfg hfix ⟨UInt32.ofNat (95 :: t).length, cap⟩ (95 :: t) t (by simp)
        (by rw [show (⟨UInt32.ofNat (95 :: t).length, cap⟩ : Ghost).len.toNat = (95 :: t).length from ofNat_len hlt]; exact Nat.le_refl _)
        (by rw [show (⟨UInt32.ofNat (95 :: t).length, cap⟩ : Ghost).len.toNat = (95 :: t).length from ofNat_len hlt]; exact hcap)
      cases hd : datadog cfg ⟨UInt32.ofNat (95 :: t).length, cap⟩ (95 :: t) t with
      | panic => exact absurd hd hnp
      | ok _ => simp [ofEventRes]
      | err _ => simp [ofEventRes]
  · exact C03_metric_lines_no_panic cfg pf ns cap input hlt hcap hh

/-- `_e{5,4294967290}:abcde|xyz` -/
def d1line : Bytes := [95, 101, 123, 53, 44, 52, 50, 57, 52, 57, 54, 55, 50, 57, 48, 125, 58, 97, 98, 99, 100, 101, 124, 120, 121, 122]
/-- `_e{100,4294967195}:ab` -/
def d1line2 : Bytes := [95, 101, 123, 49, 48, 48, 44, 52, 50, 57, 52, 57, 54, 55, 49, 57, 53, 125, 58, 97, 98]

/-- **C03_lexer_panics_on_pinned_tree** (negative witness, D1).  With the 32-bit length test the declared
lengths 5 + 1 + 4294967290 wrap to 0, the test passes, and `l.input[l.pos : l.pos+l.eventTextLen]` is
`[23:17]` — Go panics "slice bounds out of range"; the second line indexes `l.input[119]` of 21 bytes.
The repaired test rejects both with `errNotEnoughData`. -/
theorem C03_lexer_panics_on_pinned_tree :
    (run { checkRate := false, wideLenCheck := false } (fun _ => (none : Option UInt64)) [] 26 d1line = .panic) ∧
    (run { checkRate := false, wideLenCheck := false } (fun _ => (none : Option UInt64)) [] 21 d1line2 = .panic) ∧
    (run { checkRate := false, wideLenCheck := true } (fun _ => (none : Option UInt64)) [] 26 d1line = .reject .notEnough) ∧
    (run { checkRate := false, wideLenCheck := true } (fun _ => (none : Option UInt64)) [] 21 d1line2 = .reject .notEnough) := by
  refine ⟨by decide, by decide, by decide, by decide⟩

/-- **C03_line_total.**  Every line yields exactly one of: a metric, an event, a counted error (and, on the
pinned tree only, a panic): the three cases are exhaustive once `≠ .panic` and mutually exclusive. -/
theorem C03_line_total (cfg : Cfg) (hfix : cfg.wideLenCheck = true) (pf : Bytes → Option F) (ns : Bytes) (cap : Nat)
    (input : Bytes) (hlt : input.length < 4294967296) (hcap : input.length ≤ cap) :
    let o := run cfg pf ns cap input
    ((∃ m, o = .metric m) ∧ (¬ ∃ e, o = .event e) ∧ (¬ ∃ e, o = .reject e)) ∨
    ((¬ ∃ m, o = .metric m) ∧ (∃ e, o = .event e) ∧ (¬ ∃ e, o = .reject e)) ∨
    ((¬ ∃ m, o = .metric m) ∧ (¬ ∃ e, o = .event e) ∧ (∃ e, o = .reject e)) := by
  intro o
  have hnp : o ≠ .panic := C03_lexer_no_panic cfg hfix pf ns cap input hlt hcap
  cases ho : o with
  | metric m => left; exact ⟨⟨m, rfl⟩, by simp, by simp⟩
  | event e => right; left; exact ⟨by simp, ⟨e, rfl⟩, by simp⟩
  | reject e => right; right; exact ⟨by simp, by simp, ⟨e, rfl⟩⟩
  | panic => exact absurd ho hnp

/-- **C03_datagram_no_panic** and **C03_bad_lines_counted** (repaired code).  For every datagram (any bytes)
in a buffer of any capacity ≥ its length: no line panics, and every line of the datagram is accounted for
exactly once — #metrics + #events + #bad lines = #lines. -/
theorem C03_bad_lines_counted (cfg : Cfg) (hfix : cfg.wideLenCheck = true) (pf : Bytes → Option F) (c : Config)
    (bufCap : Nat) (msg : Bytes) (hlt : msg.length < 4294967296) (hcap : msg.length ≤ bufCap) :
    let items := handle cfg pf c bufCap msg
    panicked items = false ∧
    (metricsOf items).length + (eventsOf items).length + badCount items = (splitLines msg).length := by
  intro items
  have hno : ∀ i ∈ items, i ≠ Item.panic := by
    intro i hi
    simp only [items, handle, List.mem_map] at hi
    obtain ⟨⟨l, cp⟩, hmem, rfl⟩ := hi
    have hl : l ∈ splitLines msg := by
      have := withCaps_fst bufCap (splitLines msg) 0
      rw [← this]; exact List.mem_map_of_mem (f := Prod.fst) hmem
    have hlen := splitLines_length_le msg l hl
    have hcp : l.length ≤ cp := by
      have htot := splitLinesAux_total msg []
      exact withCaps_cap_ge bufCap (splitLines msg) 0 (by simp only [splitLines, List.length_nil] at htot ⊢; omega) (l, cp) hmem
    have := C03_lexer_no_panic cfg hfix pf c.ns cp l (by omega) hcp
    simp only [lexAlone]
    cases hr : run cfg pf c.ns cp l with
    | panic => exact absurd hr this
    | metric m => simp [itemOf]
    | event e => simp [itemOf]
    | reject e => simp [itemOf]
  have hlen : items.length = (splitLines msg).length := by
    simp only [items, handle, List.length_map]
    have := congrArg List.length (withCaps_fst bufCap (splitLines msg) 0)
    simpa using this
  rw [← hlen]
  exact count_items items hno

end

/-! ## HTTP ingestion: the decision logic -/

open Ingest in
/-- **C03_http_total.**  Whatever `ReadAll`, zlib, lz4 and `proto.Unmarshal` answer and whatever the
`Content-Encoding` header says, the handler writes exactly one status, which is 202, 400 or 500; it
dispatches to the pipeline iff the status is 202; 500 iff the body could not be read; an unknown encoding
is always 400; and the outcome is a function of those library answers only. -/
theorem C03_http_total {Body Msg : Type} (l : Libs Body Msg) (e : Enc) :
    let r := handler l e
    (r.1 = 202 ∨ r.1 = 400 ∨ r.1 = 500) ∧
    (r.2.isSome ↔ r.1 = 202) ∧
    (r.1 = 500 ↔ l.readAll = none) ∧
    (e = .other → l.readAll ≠ none → r.1 = 400) := by
  intro r
  simp only [r, handler, readBody]
  cases hr : l.readAll with
  | none => simp
  | some b =>
    cases e with
    | deflate => cases hz : l.zlib b with
      | none => simp [hz]
      | some b' => cases hu : l.unmarshal b' <;> simp [hz, hu]
    | lz4 => cases hz : l.lz4 b with
      | none => simp [hz]
      | some b' => cases hu : l.unmarshal b' <;> simp [hz, hu]
    | identity => cases hu : l.unmarshal b <;> simp [hu]
    | other => simp

open Ingest in
/-- non-vacuity: a deflate body that decompresses and unmarshals is dispatched with 202; the same body
under an unknown encoding is refused with 400 -/
example :
    let l : Libs Nat Nat := { readAll := some 7, zlib := fun b => some (b + 1), lz4 := fun _ => none, unmarshal := fun b => if b = 8 then some 99 else none }
    handler l .deflate = (202, some 99) ∧ handler l .other = (400, none) ∧ handler l .lz4 = (400, none) ∧ handler l .identity = (400, none) := by
  decide

end Gsd
