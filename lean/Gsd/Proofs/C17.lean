import Gsd.Proofs.Lemmas.Backends
import Gsd.Proofs.Lemmas.Relay
import Gsd.Proofs.Lemmas.Event
/-!
# C17 — backend payloads contain every series exactly once and are well formed

Property theorems only (helpers: `Proofs/Lemmas/Backends.lean`, `Proofs/Lemmas/Relay.lean`).

* `C17_expand_exact`        each enabled sub-metric of each series exactly once, nothing else — for **every**
                            configuration: datadog, influxdb, graphite, cloudwatch, stdout, otlp (timers as
                            gauges or as histograms), newrelic (flush types infra, insights, metrics) and the
                            statsdaemon relay; "enabled" is `enabled` (`enabledStd` / `enabledNr` /
                            `enabledOtlp` / `enabledRelay` of `Model/Backends.lean`);
* `C17_expand_nodup`, `C17_expand_mem`  the same as "no identity twice" / "emitted iff enabled";
* `C17_disabled_not_emitted*`  the `TimerSubtypes` mask is honoured (statsd naming family; newrelic with the
                            documented exception: the four statistics inside the Metric API `summary` metric
                            are sent whether or not they are masked — `C17_newrelic_summary_not_gated`);
* `C17_batches_partition*`  every batching loop, for **all** inputs, open batches and sizes: the
                            concatenation of the batches is the input, in order;
* `C17_limits*`             influxdb / otlp batches ≤ batch size, cloudwatch ≤ 20, a relay datagram is
                            ≤ the packet size unless it is a single line;
* `C17_relay_roundtrip*`    gostatsd's lexer (model of the relay's sub-grammar) reads back what the
                            relay wrote: name, value text, type, tags and the source as `s:` tag;
* `C17_relay_event_roundtrip` the lexer's event grammar reads back `constructEventMessage e` as `e`.
-/
set_option linter.unusedSimpArgs false
set_option linter.unusedSectionVars false
set_option linter.unusedVariables false
namespace Gsd
open Backends

/-! ## expand -/

/-- **C17_expand_exact.**  For **every** configuration — each of the eight bundled backends (datadog, influxdb
fields, graphite in all three modes, cloudwatch, stdout, otlp with timers as gauges or as histograms, newrelic
with flush type infra, insights or metrics, the statsd relay) —, every sub-metric mask and every view whose
series have distinct Go map keys: the (series, sub-metric) identity `(k, x)` occurs in `expand` exactly once
when the view holds a series `k` for which `x` is enabled, and not at all otherwise. -/
theorem C17_expand_exact (c : Cfg)
    (view : List Series) (hview : (view.map Series.key).Nodup) (k : Key) (x : Sub) :
    (ids (expand c view)).count (k, x) =
      if view.any (fun s => decide (s.key = k) && enabled c s x) then 1 else 0 := by
  rw [count_expand]
  have : (fun s => (ids (emit c s)).count (k, x)) = (fun s => if s.key = k ∧ enabled c s x = true then 1 else 0) := by
    funext s; exact count_ids_emit c s k x
  rw [this]
  exact sum_indicator view hview k (fun s => enabled c s x)

/-- no identity is emitted twice (every configuration) -/
theorem C17_expand_nodup (c : Cfg)
    (view : List Series) (hview : (view.map Series.key).Nodup) : (ids (expand c view)).Nodup := by
  rw [List.nodup_iff_count]
  intro a
  obtain ⟨k, x⟩ := a
  rw [C17_expand_exact c view hview]
  split <;> omega

/-- an identity is emitted iff it is an enabled sub-metric of a series of the view (nothing lost, nothing else;
every configuration) -/
theorem C17_expand_mem (c : Cfg)
    (view : List Series) (hview : (view.map Series.key).Nodup) (k : Key) (x : Sub) :
    (k, x) ∈ ids (expand c view) ↔ ∃ s ∈ view, s.key = k ∧ enabled c s x = true := by
  rw [← List.count_pos_iff, C17_expand_exact c view hview]
  constructor
  · intro h
    split at h
    · rename_i hany
      rw [List.any_eq_true] at hany
      obtain ⟨s, hs, hp⟩ := hany
      simp only [Bool.and_eq_true, decide_eq_true_eq] at hp
      exact ⟨s, hs, hp.1, hp.2⟩
    · omega
  · rintro ⟨s, hs, hk, he⟩
    have : view.any (fun s => decide (s.key = k) && enabled c s x) = true := by
      rw [List.any_eq_true]; exact ⟨s, hs, by simp [hk, he]⟩
    simp [this]

/-- a disabled aggregation of a timer is not emitted (the mask is honoured) — statsd naming family -/
theorem C17_disabled_not_emitted (c : Cfg) (hc : StdBackend c) (view : List Series)
    (hview : (view.map Series.key).Nodup) (k : Key) (x : Sub) (hx : c.mask.dis x = true) :
    (k, x) ∉ ids (expand c view) := by
  rw [C17_expand_mem c view hview]
  rintro ⟨s, _, _, he⟩
  rw [enabled_std c hc] at he
  simp only [enabledStd] at he
  cases hk : s.kind <;> simp only [hk] at he
  · cases x <;> simp_all [Mask.dis]
  · cases hh : s.hist <;> simp only [hh] at he
    · cases x <;> simp_all [Mask.dis]
    · cases x <;> simp_all [Mask.dis]
  · cases x <;> simp_all [Mask.dis]
  · cases x <;> simp_all [Mask.dis]

/-- New Relic honours the mask too, **except** for the four statistics that live inside the Metric API
`summary` metric: a masked aggregation is not emitted unless the flush type is `metrics` and it is one of
lower / upper / count / sum (`nrInSummary`). -/
theorem C17_disabled_not_emitted_newrelic (c : Cfg) (hc : c.backend = .newrelic) (view : List Series)
    (hview : (view.map Series.key).Nodup) (k : Key) (x : Sub) (hx : c.mask.dis x = true)
    (hns : c.nrMode = .metrics → nrInSummary x = false) :
    (k, x) ∉ ids (expand c view) := by
  rw [C17_expand_mem c view hview]
  rintro ⟨s, _, _, he⟩
  rw [enabled_newrelic c hc] at he
  simp only [enabledNr] at he
  cases hk : s.kind <;> simp only [hk] at he
  · cases x <;> simp_all [Mask.dis]
  · cases hh : s.hist <;> simp only [hh] at he
    · cases hm : c.nrMode <;> simp only [hm] at he hns
      · cases x <;> simp_all [Mask.dis]
      · cases x <;> simp_all [Mask.dis]
      · have := hns trivial
        cases x <;> simp_all [Mask.dis]
    · cases x <;> simp_all [Mask.dis]
  · cases x <;> simp_all [Mask.dis]
  · cases x <;> simp_all [Mask.dis]

/-- … and those four are emitted **regardless of the mask** (no hypothesis on `c.mask`): with flush type
`metrics`, lower / upper / count / sum of `k` are in the payload exactly when `k` is a plain (non-histogram)
timer of the view.  (The mask removes only the other five aggregations: previous theorem.) -/
theorem C17_newrelic_summary_not_gated (c : Cfg) (hc : c.backend = .newrelic) (hm : c.nrMode = .metrics)
    (view : List Series) (hview : (view.map Series.key).Nodup) (k : Key) (x : Sub) (hx : nrInSummary x = true) :
    (k, x) ∈ ids (expand c view) ↔ ∃ s ∈ view, s.key = k ∧ s.kind = .timer ∧ s.hist = none := by
  rw [C17_expand_mem c view hview]
  have hen : ∀ s : Series, enabled c s x = true ↔ (s.kind = .timer ∧ s.hist = none) := by
    intro s
    rw [enabled_newrelic c hc]
    simp only [enabledNr, hm]
    cases hk : s.kind <;> simp only [hk]
    · cases x <;> simp_all [nrInSummary]
    · cases hh : s.hist <;> simp only [hh]
      · cases x <;> simp_all [nrInSummary, timerSubs]
      · cases x <;> simp_all [nrInSummary]
    · cases x <;> simp_all [nrInSummary]
    · cases x <;> simp_all [nrInSummary]
  constructor
  · rintro ⟨s, hs, hk, he⟩
    exact ⟨s, hs, hk, (hen s).1 he⟩
  · rintro ⟨s, hs, hk, ht⟩
    exact ⟨s, hs, hk, (hen s).2 ht⟩

/-- non-vacuity: a datadog view with a counter and a timer (upper disabled, one percentile) -/
example :
    let c : Cfg := { backend := .datadog, mask := { upper := true } }
    let view : List Series := [{ kind := .counter, name := "a" }, { kind := .timer, name := "t", pcts := [{ name := "count_90", v := {} }] }]
    StdBackend c ∧ (view.map Series.key).Nodup ∧
    (ids (expand c view)).map (·.2) = [.rate, .count, .lower, .tcount, .countPs, .mean, .median, .std, .sum, .sumSquares, .pct 0] := by
  refine ⟨Or.inl rfl, by decide, by decide⟩

/-- newrelic, flush type `metrics`, a plain timer with `upper` and `mean` masked and one percentile: `mean` is
gone, `upper` (inside the `summary` metric) is still sent -/
example :
    let c : Cfg := { backend := .newrelic, nrMode := .metrics, mask := { upper := true, mean := true } }
    let view : List Series := [{ kind := .timer, name := "t", pcts := [{ name := "count_90", v := {} }] }]
    (view.map Series.key).Nodup ∧
    (ids (expand c view)).map (·.2) = [.lower, .upper, .tcount, .countPs, .median, .std, .sum, .sumSquares, .pct 0] ∧
    (ids (expand c view)).map (·.2) = (([.lower, .upper, .tcount, .countPs, .mean, .median, .std, .sum, .sumSquares, .pct 0,
      .summary, .value, .bucket 0] : List Sub).filter (enabled c { kind := .timer, name := "t", pcts := [{ name := "count_90", v := {} }] })) := by
  refine ⟨by decide, by decide, by decide⟩

/-- newrelic, flush type `infra`, a histogram timer with two buckets: count and per-second companion per bucket
(and none of the plain aggregations, whatever the mask) -/
example :
    let c : Cfg := { backend := .newrelic, nrMode := .infra }
    let view : List Series := [{ kind := .timer, name := "t", hist := some [{ le := "20", inf := false, count := {} }, { le := "", inf := true, count := {} }] },
                               { kind := .gauge, name := "g" }]
    (view.map Series.key).Nodup ∧
    ids (expand c view) = [((.gauge, "g", ""), .value), ((.timer, "t", ""), .bucket 0), ((.timer, "t", ""), .bucketPs 0),
                           ((.timer, "t", ""), .bucket 1), ((.timer, "t", ""), .bucketPs 1)] := by
  refine ⟨by decide, by decide⟩

/-- newrelic, flush type `insights`, a plain timer: the event's own value (`.summary`) precedes the aggregations -/
example :
    (ids (expand { backend := .newrelic, nrMode := .insights, mask := { sum := true } } [{ kind := .timer, name := "t" }])).map (·.2) =
      [.summary, .lower, .upper, .tcount, .countPs, .mean, .median, .std, .sumSquares] := by decide

/-- otlp with `otlpHist = true`: a timer is one histogram data point (`.summary`), with or without
`Timer.Histogram`, whatever the mask -/
example :
    let c : Cfg := { backend := .otlp, otlpHist := true, mask := { lower := true } }
    let view : List Series := [{ kind := .timer, name := "t", pcts := [{ name := "count_90", v := {} }] },
                               { kind := .timer, name := "h", hist := some [{ le := "", inf := true, count := {} }] },
                               { kind := .counter, name := "a" }]
    (view.map Series.key).Nodup ∧
    ids (expand c view) = [((.counter, "a", ""), .rate), ((.counter, "a", ""), .count),
                           ((.timer, "t", ""), .summary), ((.timer, "h", ""), .summary)] := by
  refine ⟨by decide, by decide⟩

/-- **negative witness (finding newrelic-metrics-set-without-value).**  With flush type `metrics` the
newrelic payload of a set carries no value.  The exactness theorems speak about identities (which sub-metric
of which series is present, each once) and hold for newrelic too; this finding is about the type and value the
present record carries, which the executable specification checks on the real payload.  The model reproduces
what the code does. -/
example :
    nrSetHasValue = true ∨   -- (after `handoff/C17-fix-1.patch` and the model switch the witness is gone)
    (expand { backend := .newrelic, nrMode := .metrics } [{ kind := .set, name := "users", value := { e := "4008000000000000" } }]).map
      (fun r => (r.name, r.kind, r.value)) = [("users", "/set", noValue)] := by decide
-- Note (after the generalisation to every configuration): the exactness theorems now do cover newrelic.  They
-- speak about *identities*: the set's `.value` record is emitted exactly once with or without the fix; the
-- finding above concerns that record's type and value, which the identity theorems do not constrain.

/-! ## batching: partition -/

section partition
variable {α : Type}

/-- influxdb (`flush.go` `maybeFlush`/`finish`), for every list of lines and every batch size -/
theorem C17_batches_partition_influxdb (n : Nat) (lines : List α) :
    (countBatches n lines []).flatten = lines := by
  simpa using flatten_countBatches n lines []

/-- datadog and newrelic (`maybeFlush` after each series, slack 20), for every list of per-series
groups and every batch size -/
theorem C17_batches_partition_datadog (n : Nat) (gs : List (List α)) :
    (slackBatches flushSlack n gs []).flatten = gs.flatten := by
  simpa using flatten_slackBatches flushSlack n gs []

/-- … and no series is split over two requests: every request is a concatenation of whole groups -/
theorem C17_batches_whole_series_datadog (n : Nat) (gs : List (List α)) :
    ∃ parts : List (List (List α)), parts.flatten = gs ∧
      ∀ b ∈ slackBatches flushSlack n gs [], ∃ p ∈ parts, p.flatten = b := by
  simpa using slackBatches_groups flushSlack n gs [] [] rfl

/-- otlp (`groups.insert`), for every list of metrics and every batch size -/
theorem C17_batches_partition_otlp (n : Nat) (ms : List α) : (otlpBatches n ms []).flatten = ms := by
  simpa using flatten_otlpBatches n ms []

/-- cloudwatch (chunks of 20), for every list of data -/
theorem C17_batches_partition_cloudwatch (ds : List α) : (cwChunks ds).flatten = ds :=
  flatten_cwGo cwLimit (by decide) ds.length ds (Nat.le_refl _)

/-- statsdaemon relay (`writeLine`), for every list of non-empty lines and every packet size -/
theorem C17_batches_partition_relay (len : α → Nat) (P : Nat) (lines : List α) (hpos : ∀ x ∈ lines, 0 < len x) :
    (packBatches len P lines []).flatten = lines := by
  simpa using flatten_packBatches len P lines [] (by simpa using hpos)

/-- … and, with no hypothesis at all, the bytes of the datagrams are the bytes of the lines -/
theorem C17_batches_bytes_relay (len : α → Nat) (P : Nat) (lines : List α) :
    ((packBatches len P lines []).map (totalLen len)).sum = totalLen len lines := by
  simpa [totalLen] using totalLen_packBatches len P lines []

end partition

/-- **C17_batches_partition.**  In the model of every batching backend, for every configuration (any
batch size, also 0) and every view, the payloads of one flush concatenate to exactly the records /
lines of the view, in order: nothing is lost or repeated at a batch boundary. -/
theorem C17_batches_partition (c : Cfg) (view : List Series) :
    (slackBatches flushSlack c.batch (groups c view) []).flatten = expand c view ∧          -- datadog
    (slackBatches nrFlushSlack c.batch (groups c view) []).flatten = expand c view ∧        -- newrelic
    (countBatches c.batch ((groups c view).filter (fun g => !g.isEmpty)) []).flatten.flatten = expand c view ∧  -- influxdb (lines)
    (otlpBatches c.batch (expand c view) []).flatten = expand c view ∧                       -- otlp
    (cwChunks (expand c view)).flatten = expand c view ∧                                      -- cloudwatch
    (relayDatagrams c view).flatten = relayAll c view := by                                   -- statsdaemon
  refine ⟨?_, ?_, ?_, ?_, ?_, ?_⟩
  · rw [C17_batches_partition_datadog]; rfl
  · rw [flatten_slackBatches]; rfl
  · rw [C17_batches_partition_influxdb]
    unfold expand
    generalize groups c view = gs
    induction gs with
    | nil => rfl
    | cons g t ih =>
      cases g with
      | nil => simpa [List.filter_cons] using ih
      | cons a r => simp [List.filter_cons, ih]
  · exact C17_batches_partition_otlp _ _
  · exact C17_batches_partition_cloudwatch _
  · exact C17_batches_partition_relay _ _ _ (relayLine_pos c view)

/-- non-vacuity / boundary behaviour: batch size 3 over 7 items; datadog with slack over groups of 2;
an over-long line between short ones -/
example : countBatches 3 [1, 2, 3, 4, 5, 6, 7] [] = [[1, 2, 3], [4, 5, 6], [7]] := by decide
example : countBatches 3 [1, 2, 3, 4, 5, 6] [] = [[1, 2, 3], [4, 5, 6]] := by decide
example : slackBatches 20 23 [[1, 2], [3, 4], [5, 6]] [] = [[1, 2, 3, 4], [5, 6]] := by decide
example : slackBatches 20 5 [[1, 2], [], [5]] [] = [[1, 2], [], [5]] := by decide
example : otlpBatches 2 [1, 2, 3, 4] [] = [[1, 2], [3, 4], []] := by decide
example : cwChunks (List.range 41) = [List.range 20, (List.range 20).map (· + 20), [40]] := by decide
example : packBatches id 10 [4, 4, 4, 12, 3, 3] [] = [[4, 4], [4], [12], [3, 3]] := by decide
example : packBatches id 10 [12, 3] [] = [[], [12], [3]] := by decide

/-! ## batching: limits -/

/-- **C17_limits.**  For all inputs and all batch sizes ≥ 1: an influxdb request has between 1 and
`batch` lines and all requests but the last are full; an otlp request has at most `batch` metrics;
a cloudwatch call has between 1 and 20 data; a relay datagram is within the packet size unless it
consists of a single line, and a line longer than the packet size always travels alone. -/
theorem C17_limits {α : Type} (n : Nat) (hn : 1 ≤ n) (l : List α) (len : α → Nat) (P : Nat) :
    (∀ b ∈ countBatches n l [], b.length ≤ n ∧ 0 < b.length) ∧
    (∀ b ∈ (countBatches n l []).dropLast, b.length = n) ∧
    (∀ b ∈ otlpBatches n l [], b.length ≤ n) ∧
    (∀ b ∈ cwChunks l, b.length ≤ cwLimit ∧ 0 < b.length) ∧
    (∀ d ∈ packBatches len P l [], totalLen len d ≤ P ∨ d.length ≤ 1) ∧
    (∀ d ∈ packBatches len P l [], ∀ x ∈ d, P < len x → d = [x]) := by
  refine ⟨length_countBatches n l [] (by simp; omega), full_countBatches n l [] (by simp; omega),
    length_otlpBatches n l [] (by simp; omega), ?_, limit_packBatches len P l [] (Or.inr (by simp)),
    packBatches_overlong_alone len P l [] (by simp)⟩
  intro b hb
  rcases length_cwGo cwLimit l.length l b hb with h | h
  · exact h
  · exact absurd h (by decide)

/-- the limits, for the model's payloads of a view -/
theorem C17_limits_view (c : Cfg) (hb : 1 ≤ c.batch) (view : List Series) :
    (∀ b ∈ countBatches c.batch ((groups c view).filter (fun g => !g.isEmpty)) [], b.length ≤ c.batch) ∧
    (∀ b ∈ otlpBatches c.batch (expand c view) [], b.length ≤ c.batch) ∧
    (∀ b ∈ cwChunks (expand c view), b.length ≤ 20) ∧
    (∀ d ∈ relayDatagrams c view, totalLen List.length d ≤ c.packet ∨ d.length ≤ 1) := by
  refine ⟨fun b hb' => ((C17_limits c.batch hb _ (fun _ => 0) 0).1 b hb').1,
          (C17_limits c.batch hb _ (fun _ => 0) 0).2.2.1,
          fun b hb' => ((C17_limits c.batch hb (expand c view) (fun _ => 0) 0).2.2.2.1 b hb').1,
          (C17_limits c.batch hb (relayAll c view) List.length c.packet).2.2.2.2.1⟩

/-! ## relay round trip -/

/-- what the receiving gostatsd is expected to read from the lines of one series -/
def expectedParsed (c : Cfg) (s : Series) : List Parsed :=
  let tags : List Line := if s.tagsKey.toList = [] || c.noTags then [] else (lexTags [] s.tagsKey.toList).1
  let P (v : String) (ty : MType) : Parsed := { name := s.name.toList, value := v.toList, ty, tags }
  match s.kind with
  | .counter => if hasPrefix "statsd." s.name then [] else [P s.value.ft .c]
  | .timer => s.values.map (fun v => P v.ft .ms)
  | .gauge => [P s.value.ft .g]
  | .set => s.members.map (fun m => P m .s)

/-- the alphabets of the property: names over `[A-Za-z0-9_.-]`, non-empty; printed values (`%d`, `%f`,
set members) and the tags key free of `|` (a fortiori for tags and members over letters, digits and `_ . : / -`, and for decimal numbers) -/
structure RelayOK (s : Series) : Prop where
  name_ne : s.name.toList ≠ []
  name_ok : ∀ ch ∈ s.name.toList, isNameChar ch = true
  tags_ok : ∀ ch ∈ s.tagsKey.toList, ch ≠ '|'
  value_ok : ∀ ch ∈ s.value.ft.toList, ch ≠ '|'
  values_ok : ∀ v ∈ s.values, ∀ ch ∈ v.ft.toList, ch ≠ '|'
  members_ok : ∀ m ∈ s.members, ∀ ch ∈ m.toList, ch ≠ '|'

/-- **C17_relay_roundtrip.**  For every series over the property's alphabets, the lexer reads from
the relay's lines (newline stripped, as the datagram parser does) exactly: the series name, one
datapoint per counter (its total, as printed by `%d`), per gauge (`%f`), per timer value (`%f`, type
`ms`) and per set member, each with the tag list of `|#tagsKey`; counters named `statsd.*` are
(deliberately) absent.  The numeric conversion is the formatter hypothesis `parseFloat (fmt v) = some v`
applied to `value`. -/
theorem C17_relay_roundtrip (c : Cfg) (s : Series) (h : RelayOK s) :
    (relayLines c s).map (fun l => parseLine l.dropLast) = (expectedParsed c s).map some := by
  unfold relayLines expectedParsed
  have one : ∀ (v : String) (t : MType), (∀ ch ∈ v.toList, ch ≠ '|') →
      parseLine (relayLine c.noTags s.name.toList v.toList (tyText t) s.tagsKey.toList).dropLast =
        some { name := s.name.toList, value := v.toList, ty := t,
               tags := if s.tagsKey.toList = [] || c.noTags then [] else (lexTags [] s.tagsKey.toList).1 } := by
    intro v t hv
    rw [dropLast_relayLine]
    exact parseLine_relayBody c.noTags _ _ _ t h.name_ne h.name_ok hv h.tags_ok
  cases hk : s.kind <;> simp only
  · split
    · rfl
    · simpa [tyText] using one s.value.ft .c h.value_ok
  · simp only [List.map_map]
    apply List.map_congr_left
    intro v hv
    exact one v.ft .ms (h.values_ok v hv)
  · simpa [tyText] using one s.value.ft .g h.value_ok
  · simp only [List.map_map]
    apply List.map_congr_left
    intro m hm
    exact one m .s (h.members_ok m hm)

/-- … and the tag list is the series' non-empty tags followed by the source as an extra `s:` tag, when the
tags key is what `FormatTagsKey` builds from tags free of `,` and `|` -/
theorem C17_relay_tags_roundtrip (tags : List Line) (source : Line)
    (htags : ∀ a ∈ tags, NoSep a) (hsrc : NoSep source) :
    (lexTags [] (tagsKeyOf tags source)).1 =
      tags.filter (fun a => a ≠ []) ++ (if source = [] then [] else ['s' :: ':' :: source]) := by
  rw [lexTags_tagsKeyOf tags source htags hsrc]

/-- the formatter hypothesis closes the loop on numbers: if parsing undoes formatting, the datapoint's
number is the view's number -/
theorem C17_relay_value_roundtrip {ν : Type} (parseFloat : Line → Option ν) (fmt : ν → Line)
    (hfmt : ∀ v, parseFloat (fmt v) = some v) (hbar : ∀ v, ∀ ch ∈ fmt v, ch ≠ '|')
    (noTags : Bool) (name tagsKey : Line) (t : MType) (v : ν)
    (hne : name ≠ []) (hname : ∀ ch ∈ name, isNameChar ch = true) (htags : ∀ ch ∈ tagsKey, ch ≠ '|') :
    (parseLine (relayBody noTags name (fmt v) (tyText t) tagsKey)).bind (fun p => parseFloat p.value) = some v := by
  rw [parseLine_relayBody noTags name (fmt v) tagsKey t hne hname (hbar v) htags]
  simp [hfmt]

/-- non-vacuity: a counter with tags and a source, and a timer with two values -/
example :
    parseLine "web.requests:42|c|#env:prod,k:v,s:10.0.0.1".toList =
      some { name := "web.requests".toList, value := "42".toList, ty := .c,
             tags := ["env:prod".toList, "k:v".toList, "s:10.0.0.1".toList] } := by decide

example : tagsKeyOf [] "h".toList = ",s:h".toList ∧ (lexTags [] ",s:h".toList).1 = ["s:h".toList] := by decide

/-- the lexer does not read back a name that starts with `_` … this is why the property's names are
the lexer's own (C02): `_` selects the event grammar -/
example : (relayBody false "_x".toList "1".toList "c".toList []) = "_x:1|c".toList := by decide

/-! ## relay events -/

/-- **C17_relay_event_roundtrip.**  What `constructEventMessage` writes for an event, gostatsd's lexer
(model of `lexDatadogSpecial` / `lexEventBody` / `lexEventAttribute`) reads back as the same event:
title and text (any bytes, also `|`, `,`, newlines; the text without a literal backslash-n pair),
timestamp, host, aggregation key, source type (free of `|`), priority, alert type and the tag list
(non-empty tags free of `,` and `|`).  `dec` is `strconv.Itoa`; the formatter hypothesis `DecAt` (decimal
digits that `lexUint` reads back) is needed for the two lengths and the timestamp only. -/
theorem C17_relay_event_roundtrip (dec : Nat → Line) (e : Event)
    (hd1 : DecAt dec e.title.length) (hd2 : DecAt dec (escNL e.text).length) (hd3 : DecAt dec e.date) (h : EventOK e) :
    parseEvent (eventMessage dec e) = some e := by
  have hfold := evFields_eventFields dec e hd3 h
  have hbar := eventFields_noBar dec e hd3 h
  unfold eventMessage parseEvent
  simp only
  rw [lexNat_dec dec _ hd1 _ (by intro ch hch; simp at hch; subst hch; decide)]
  simp only
  rw [lexNat_dec dec _ hd2 _ (by intro ch hch; simp at hch; subst hch; decide)]
  simp only
  have hlen : ¬ (e.title ++ '|' :: (escNL e.text ++ (eventFields dec e).flatMap (fun f => '|' :: f))).length <
      e.title.length + 1 + (escNL e.text).length := by simp; omega
  rw [if_neg hlen]
  have hhead : ¬ ((e.title ++ '|' :: (escNL e.text ++ (eventFields dec e).flatMap (fun f => '|' :: f))).drop e.title.length).head? ≠ some '|' := by
    simp
  rw [if_neg hhead]
  have htake : (e.title ++ '|' :: (escNL e.text ++ (eventFields dec e).flatMap (fun f => '|' :: f))).take e.title.length = e.title := by simp
  have hdrop1 := drop_len_cons e.title '|' (escNL e.text ++ (eventFields dec e).flatMap (fun f => '|' :: f))
  have hdrop2 : (e.title ++ '|' :: (escNL e.text ++ (eventFields dec e).flatMap (fun f => '|' :: f))).drop (e.title.length + 1 + (escNL e.text).length) =
      (eventFields dec e).flatMap (fun f => '|' :: f) := by
    rw [← List.drop_drop, hdrop1]; simp
  rw [htake, hdrop1, hdrop2]
  have htext : unescNL ((escNL e.text ++ (eventFields dec e).flatMap (fun f => '|' :: f)).take (escNL e.text).length) = e.text := by
    simp [unescNL_escNL e.text h.text]
  rw [htext]
  cases hf : eventFields dec e with
  | nil =>
    rw [hf] at hfold
    simp only [evFields, Option.some.injEq, Prod.mk.injEq, and_true] at hfold
    simp [hfold]
  | cons f fs =>
    rw [hf] at hfold hbar
    simp only [List.flatMap_cons, List.cons_append]
    rw [splitBar_fields f fs (hbar f (by simp)) (fun g hg => hbar g (by simp [hg])), hfold]
    rfl

/-- the same under the global formatter hypothesis -/
theorem C17_relay_event_roundtrip' (dec : Nat → Line) (hd : DecOK dec) (e : Event) (h : EventOK e) :
    parseEvent (eventMessage dec e) = some e :=
  C17_relay_event_roundtrip dec e (hd _) (hd _) (hd _) h

/-- non-vacuity: an event with every optional section, separators in the title and a newline in the text;
Lean's own `Nat.repr` satisfies the formatter hypothesis at the three numbers involved -/
example :
    let dec : Nat → Line := fun n => (toString n).toList
    let e : Event := { title := "ti|tle,#".toList, text := "line1\nline2|x".toList, date := 1700000000, host := "h1".toList,
                       aggKey := "agg".toList, srcType := "src".toList, pri := 1, alert := 2, tags := ["k:v".toList, "plain".toList] }
    eventMessage dec e = "_e{8,14}:ti|tle,#|line1\\nline2|x|d:1700000000|h:h1|k:agg|s:src|p:low|t:error|#k:v,plain".toList ∧
    parseEvent (eventMessage dec e) = some e := by
  refine ⟨by decide, by decide⟩

/-- … and the hypotheses of the theorem hold for such an event -/
example :
    let dec : Nat → Line := fun n => (toString n).toList
    let e : Event := { title := "t|1".toList, text := "a\nb".toList, date := 17, host := "h1".toList, pri := 1, alert := 3,
                       tags := ["k:v".toList] }
    DecAt dec e.title.length ∧ DecAt dec (escNL e.text).length ∧ DecAt dec e.date ∧ EventOK e := by
  refine ⟨⟨by decide, by decide, by decide⟩, ⟨by decide, by decide, by decide⟩, ⟨by decide, by decide, by decide⟩,
    ⟨by simp [NoBSN], by decide, by decide, by decide, by decide, by decide, ?_, by decide⟩⟩
  intro a ha
  simp at ha
  subst ha
  intro ch hch
  simp at hch
  rcases hch with rfl | rfl | rfl <;> decide

/-- the text `a\` + newline is escaped to `a\\n`… and read back: only a literal backslash-n pair is lost -/
example : unescNL (escNL "a\\\n".toList) = "a\\\n".toList ∧ unescNL (escNL "a\\n".toList) ≠ "a\\n".toList := by decide


/-- **C17_source_constants.**  The batching constants the model reads from the source on every run are the ones
the property and BACKENDS.md speak about: CloudWatch chunks hold at most 20 data and at least one.  (The
Datadog / New Relic slack may take any value: `C17_batches_partition_datadog` holds for every slack.) -/
theorem C17_source_constants :
    cwLimit ≤ 20 ∧ 0 < cwLimit := by decide

end Gsd
