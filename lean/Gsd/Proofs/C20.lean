import Gsd.Proofs.Lemmas.Lambda
/-!
# C20 — the Lambda extension asks for the next invocation only after flushing

Property theorems only (model: `Model/Lambda.lean`, invariant and its preservation:
`Proofs/Lemmas/Lambda.lean`).  Every statement is about **all** interleavings of the heartbeat, the
telemetry server, the forwarder's flush goroutines, the runtime and the function's datapoints:
`run (init cap) acts = some s` for an arbitrary action list `acts`, any channel capacity `cap`, any
number of invocations, datapoints, upstream latencies and outcomes (`postEnd` covers success and
give-up alike), and any amount of other telemetry records.

Environment hypothesis (built into `run`, `Gsd.Lambda.envOK`): the runtime emits at most one
`platform.runtimeDone` record per invocation and only for an invocation it has already handed to the
extension's `/next` (`doneEmitted ≤ nextResp` after every step).  `runFree` drops it; the last example
shows the property is false without it.
-/
set_option linter.unusedSimpArgs false
set_option linter.unusedVariables false
namespace Gsd
open Gsd.Lambda

/-- **C20_next_after_flush.**  In every reachable state:
(1) `#next ≤ #waits ≤ #notifies ≤ #completed delivery attempts + #empty flushes`;
(2) for every `j` smaller than the number of `/next` requests made so far, flush `j` exists and its delivery
attempt is over (posted with any outcome, or empty) — flush 0 is the heartbeat's initial flush and flush
`k ≥ 1` is the one triggered by the `k`-th runtimeDone record, i.e. by invocation `k`; so the
`(k+1)`-th `/next` is preceded by the completion of invocation `k`'s flush, for every `k`;
(3) when `/next` is being requested no stale notification is left in the channel. -/
theorem C20_next_after_flush {cap : Int} {acts : List Act} {s : St} (h : run (init cap) acts = some s) :
    (s.nextReq ≤ s.waits ∧ s.waits ≤ s.notifies ∧ s.notifies ≤ s.attempts + s.empties) ∧
    (∀ j, j < s.nextReq → ∃ f, s.flushes[j]? = some f ∧ f.st.over = true ∧
        f.origin = (if j = 0 then none else some j)) ∧
    (s.pc = .inNext → s.tokens = 0) := by
  have inv := inv_run (inv_init cap) h
  obtain ⟨c, l⟩ := inv
  refine ⟨⟨?_, ?_, ?_⟩, ?_, ?_⟩
  · by_cases hw : s.pc = .woken
    · have := c.pcW1 hw; omega
    · have := c.pcW2 hw; omega
  · have := c.tok; have := c.tokNonneg; omega
  · rw [l.notif, l.over]
    unfold notifiedCount overCount
    apply List.countP_mono_left
    intro f _ hf
    simp only [decide_eq_true_eq] at hf
    rw [hf]; rfl
  · intro j hj
    obtain ⟨f, h1, h2⟩ := l.ord j hj
    exact ⟨f, h1, h2, l.orig j f h1⟩
  · intro hpc
    have hw := c.pcW2 (by rw [hpc]; simp)
    have hr := c.pcR1 hpc
    have hlate := c.late (by rw [hpc]; rfl)
    have hlen := l.len
    rw [hlate] at hlen
    simp only [if_true] at hlen
    have := notified_le_length s.flushes
    have := l.notif
    have := c.tok
    have := c.tokNonneg
    have := c.done
    have := c.env
    omega

/-- **C20_initial_flush.**  The first `/next` is preceded by the heartbeat's initial flush: as soon as one
`/next` request exists, flush 0 exists, was started by the heartbeat (not by telemetry) and is over. -/
theorem C20_initial_flush {cap : Int} {acts : List Act} {s : St} (h : run (init cap) acts = some s)
    (hn : 1 ≤ s.nextReq) :
    s.initFlushed = true ∧ ∃ f, s.flushes[0]? = some f ∧ f.origin = none ∧ f.st.over = true := by
  obtain ⟨_, hord, _⟩ := C20_next_after_flush h
  obtain ⟨f, h1, h2, h3⟩ := hord 0 (by omega)
  have inv := inv_run (inv_init cap) h
  refine ⟨?_, f, h1, by simpa using h3, h2⟩
  cases he : s.pc.early with
  | false => exact inv.ctl.late he
  | true => have := (inv.ctl.early he).1; omega

/-- **C20_startup_data.**  "An initial flush precedes the first request", with the data it is there for: a
datapoint accepted during start-up — before the heartbeat's initial flush, at any point of any schedule
`pre` — is, as soon as one `/next` request exists, in the body of flush 0, which was started by the heartbeat
and whose delivery attempt is over.  (Replacing the initial `Flush()` by a bare notification keeps every count
of `C20_next_after_flush` intact and breaks exactly this.) -/
theorem C20_startup_data {cap : Int} {pre post : List Act} {s0 s1 s : St} (dp : Nat)
    (h0 : run (init cap) pre = some s0) (hearly : s0.initFlushed = false)
    (hacc : step s0 (.accept dp) = some s1) (h1 : run s1 post = some s) (hn : 1 ≤ s.nextReq) :
    ∃ f, s.flushes[0]? = some f ∧ f.origin = none ∧ f.st.over = true ∧ dp ∈ f.body := by
  have inv0 := inv_run (inv_init cap) h0
  -- `accept` leaves the environment hypothesis alone
  have henv1 : envOK s1 = true := by
    have he := inv0.ctl.env
    simp only [step] at hacc
    split at hacc
    · cases hacc
    · simp only [Option.some.injEq] at hacc; subst hacc
      simpa [envOK] using he
  have inv1 := inv_step inv0 hacc henv1
  have hE1 : EarlyIn s1 dp := by
    simp only [step] at hacc
    split at hacc
    · cases hacc
    · simp only [Option.some.injEq] at hacc; subst hacc
      exact Or.inl ⟨hearly, by simp⟩
  have hE := earlyIn_run dp inv1 h1 hE1
  -- the whole history is a run from the initial state
  have hrun : run (init cap) (pre ++ Act.accept dp :: post) = some s := by
    rw [run_append, h0]
    simp only [Option.bind_some, run, hacc, henv1, if_true]
    exact h1
  obtain ⟨hflushed, f, hf, horig, hover⟩ := C20_initial_flush hrun hn
  rcases hE with ⟨hnot, _⟩ | ⟨f', hf', hb⟩
  · rw [hflushed] at hnot; cases hnot
  · rw [hf] at hf'; cases hf'
    exact ⟨f, hf, horig, hover, hb⟩

/-- non-vacuity: a datapoint accepted inside the start-up window is posted by the initial flush before the
first `/next` -/
example :
    (run (init codeCap) [.register, .subscribe, .accept 5, .windowElapsed, .hbInitFlush, .postBegin 0, .postEnd 0,
        .notify 0, .hbWait, .hbNext]).map (fun s => (s.nextReq, s.flushes.map (fun f => (f.origin, f.body, f.st.over))))
      = some (1, [(none, [5], true)]) := by decide

/-- **C20_data_before_freeze.**  Every datapoint accepted before invocation `k`'s runtimeDone record was
emitted (`e < k`) is, by the time the `(k+1)`-th `/next` has been requested, in the body of a flush whose
delivery attempt is over. -/
theorem C20_data_before_freeze {cap : Int} {acts : List Act} {s : St} (h : run (init cap) acts = some s)
    (dp e k : Nat) (hacc : (dp, e) ∈ s.accepted) (hek : e < k) (hk : k < s.nextReq) :
    ∃ (j : Nat) (f : Flush), s.flushes[j]? = some f ∧ dp ∈ f.body ∧ f.st.over = true := by
  have inv := inv_run (inv_init cap) h
  obtain ⟨c, l⟩ := inv
  -- flush k exists, so at least k runtimeDone records have been processed
  obtain ⟨fk, hfk, _⟩ := l.ord k hk
  have hlenk : k < s.flushes.length := by
    rcases Nat.lt_or_ge k s.flushes.length with h' | h'
    · exact h'
    · rw [List.getElem?_eq_none_iff.mpr h'] at hfk; cases hfk
  have hlen := l.len
  have hP : k ≤ s.doneProcessed := by
    split at hlen <;> omega
  rcases l.d1 (dp, e) hacc with hb | ⟨j, f, h1, h2⟩
  · have := l.d2 (dp, e) hacc hb
    simp only at this
    omega
  · have hj := l.d3 (dp, e) hacc j f h1 h2
    simp only at hj
    obtain ⟨f', h1', h2'⟩ := l.ord j (by omega)
    rw [h1] at h1'; cases h1'
    exact ⟨j, f, h1, h2, h2'⟩

/-- **C20_init_error.**  A server that exits inside the start-up window is reported to the runtime's
init-error endpoint and the extension never asks for an invocation: once `failed`, no `/next` request
exists, the only thing the manager can do is `POST /init/error`, it does so at most once, and an
init-error request is made only after such a failure. -/
theorem C20_init_error {cap : Int} {acts : List Act} {s : St} (h : run (init cap) acts = some s) :
    (s.failed = true → s.nextReq = 0 ∧ (s.pc = .initFailed ∨ s.pc = .initErrSent)) ∧
    (s.pc = .initFailed → ∃ s', step s .initError = some s' ∧ s'.initErrors = 1 ∧ s'.pc = .initErrSent) ∧
    (s.failed = true → ∀ a, a = .hbInitFlush ∨ a = .hbWait ∨ a = .hbNext ∨ a = .windowElapsed → step s a = none) ∧
    s.initErrors ≤ 1 ∧ (s.initErrors = 1 → s.failed = true) := by
  have inv := inv_run (inv_init cap) h
  obtain ⟨c, l⟩ := inv
  refine ⟨?_, ?_, ?_, ?_, ?_⟩
  · intro hf
    have hp := c.fail.mp hf
    refine ⟨?_, hp⟩
    rcases hp with hp | hp <;> exact (c.early (by rw [hp]; rfl)).1
  · intro hp
    refine ⟨{ s with pc := .initErrSent, initErrors := s.initErrors + 1 }, by simp [step, hp], ?_, rfl⟩
    have := c.ierr
    rw [hp] at this
    simp at this
    simp [this]
  · intro hf a ha
    have hp := c.fail.mp hf
    rcases ha with rfl | rfl | rfl | rfl <;> rcases hp with hp | hp <;> simp [step, hp]
  · have := c.ierr; split at this <;> omega
  · intro h1
    have := c.ierr
    split at this
    · rename_i hp; exact c.fail.mpr (Or.inr hp)
    · omega

/-- **C20_notify_never_blocks.**  The capacity the code gives `flushChan` (regenerated from the source:
`Gsd.Facts.flushChanCap`) is enough: in every reachable state a flush whose delivery attempt is over can
notify at once — the forwarder is never left blocked in `NotifyFlush` holding a request slot — because at
most one notification is ever outstanding. -/
theorem C20_notify_never_blocks {acts : List Act} {s : St} (h : run (init codeCap) acts = some s) :
    s.tokens ≤ 1 ∧
    ∀ j f, s.flushes[j]? = some f → f.st = .completed → ∃ s', step s (.notify j) = some s' := by
  have inv := inv_run (inv_init codeCap) h
  obtain ⟨c, l⟩ := inv
  have hcap : s.cap = codeCap := run_cap h
  have hcap1 : (1 : Int) ≤ codeCap := by decide
  have hlen := l.len
  have hn := l.notif
  have htok := c.tok
  have hdone := c.done
  have henv := c.env
  have hle := notified_le_length s.flushes
  -- notified ≤ number of flushes ≤ 1 + processed ≤ 1 + handed-out ≤ 1 + waits
  have hRW : s.nextResp ≤ s.waits := by
    by_cases hin : s.pc = .inNext
    · have := c.pcR1 hin; have := c.pcW2 (by rw [hin]; simp); omega
    · have := c.pcR2 hin
      by_cases hw : s.pc = .woken
      · have := c.pcW1 hw; omega
      · have := c.pcW2 hw; omega
  have hlen' : s.flushes.length ≤ 1 + s.doneProcessed := by split at hlen <;> omega
  refine ⟨by omega, ?_⟩
  intro j f hf hst
  -- a completed, un-notified flush exists: strictly fewer notified than flushes
  have hlt : notifiedCount s.flushes < s.flushes.length := by
    rcases Nat.lt_or_ge (notifiedCount s.flushes) s.flushes.length with h' | h'
    · exact h'
    · have hall := all_notified s.flushes (by omega) f (List.mem_of_getElem? hf)
      rw [hall] at hst; cases hst
  have : s.tokens < s.cap := by rw [hcap]; omega
  exact ⟨{ setFlush s j f .notified with tokens := s.tokens + 1, notifies := s.notifies + 1 }, by simp [step, hf, hst, this]⟩

/-! ### concrete schedules -/

/-- two invocations; the second flush carries a datapoint and its post is slow: `hbWait`/`hbNext` cannot
overtake it -/
example :
    (run (init codeCap) [.register, .subscribe, .windowElapsed, .hbInitFlush, .skip 0, .notify 0, .hbWait, .hbNext,
        .rtInvoke, .accept 7, .otherRecord, .rtDone, .teleFlush, .postBegin 1]).bind (fun s => step s .hbWait) = none := by
  decide

example :
    (run (init codeCap) [.register, .subscribe, .windowElapsed, .hbInitFlush, .skip 0, .notify 0, .hbWait, .hbNext,
        .rtInvoke, .accept 7, .otherRecord, .rtDone, .teleFlush, .postBegin 1, .postEnd 1, .notify 1, .hbWait, .hbNext,
        .rtShutdown]).map (fun s => (s.pc, [s.nextReq, s.waits, s.notifies, s.attempts, s.empties], s.tokens))
      = some (Pc.stopped, [2, 2, 2, 1, 1], 0) := by decide

/-- start-up failure: init error, never a `/next` -/
example :
    (run (init codeCap) [.register, .subscribe, .serverFail, .initError]).map (fun s => (s.pc, s.initErrors, s.nextReq))
      = some ((Pc.initErrSent, 1, 0) : Pc × Nat × Nat) := by decide
example : (run (init codeCap) [.register, .subscribe, .serverFail]).bind (fun s => step s .windowElapsed) = none := by decide

/-- **the environment hypothesis is needed**: with two runtimeDone records for one invocation the second
notification is left in the channel, and the `/next` after the following invocation is requested while that
invocation's flush (number 3, carrying datapoint 9) has not even started its post. -/
example :
    (runFree (init codeCap) [.register, .subscribe, .windowElapsed, .hbInitFlush, .skip 0, .notify 0, .hbWait, .hbNext,
        .rtInvoke, .rtDone, .rtDone, .teleFlush, .teleFlush, .skip 1, .notify 1, .hbWait, .hbNext, .rtInvoke,
        .skip 2, .notify 2, .accept 9, .rtDone, .teleFlush, .hbWait, .hbNext]).map
          (fun s => (s.nextReq, s.flushes.map (·.st))) = some (3, [.notified, .notified, .notified, .created]) := by decide

end Gsd
