import Gsd.Proofs.Lemmas.Cloud
/-!
# C11 — cloud enrichment forwards every item exactly once, correctly tagged

Model: `Gsd/Model/Cloud.lean` (the owner loop of `CloudHandler.Run` plus the caller-side halves of
`DispatchMetricMap` / `DispatchEvent`).  `run fix as` is the state after the action sequence `as`
from the initial state; `fix = false` is the bookkeeping of the pinned tree, `fix = true` the repaired
one (`Cloud.d7Fixed` selects which one the driver runs).  Every theorem below except `C11_gauges`
holds for both.

* `C11_exactly_once`     for EVERY action sequence (arbitrary cache view at every arrival, arbitrary
                          interleaving of arrivals, sink writes, completions, emissions): arrived events =
                          delivered ⊎ parked and arrived map entries = delivered ⊎ parked, where each
                          delivered map aggregates (C07's `AggMM`) exactly the entries it accounts for and
                          each delivered item is enriched with the instance its cache hit / its lookup
                          completion carried;
* `C11_rekey_conserves`, `C11_tagged`   what enrichment does to content, tags and source;
* `C11_immediate`        hits (and the empty source) leave in the same action and touch no parked state;
* `C11_release`          after `info s _` nothing of `s` is parked and what was parked has been handed over;
* `C11_blocked_downstream`  a blocked downstream handler never stalls the stage: what is released meanwhile is
                          held and reaches downstream, in order, at `unblock`; nothing is held otherwise;
* `C11_parked_has_lookup`   parked(s) ≠ ∅ ⇒ s is waiting for the sink or in flight;
* `C11_one_outstanding`  if completions only answer requests, every source has exactly one outstanding
                          lookup while something is parked for it and none otherwise;
* `C11_gauges`           (repaired bookkeeping) the three gauges equal the true counts in every reachable
                          state — FALSE for the pinned tree: `C11_D7_witness_*` (defect D7).
-/
set_option linter.unusedSimpArgs false
set_option linter.unusedSectionVars false
set_option linter.unusedVariables false
namespace Gsd
open AList Cloud

/-! ## exactly once -/
section content
variable {α : Type} [AddCommMonoid α]

/-- **C11_rekey_conserves.**  Enriching and re-keying a list of entries into a fresh map (`updateAndDispatchMetrics`,
the hit branch of `DispatchMetricMap`) yields a map that aggregates exactly the enriched entries, one leaf
per entry: nothing is lost or counted twice when re-keyed series collide. -/
theorem C11_rekey_conserves (f : String → Option Inst) (es : List (Ent α)) :
    AggMM (rekeyEntries f es) (es.map (fun e => (e.rekey (f e.src)).single)) := by
  have := aggMM_ofEntries (es.map (fun e => e.rekey (f e.src)))
  simpa [rekeyEntries, List.map_map, Function.comp_def] using this

/-- **C11_tagged.**  An entry / event enriched with an instance carries the instance id as source and its own
tags plus the instance's tags; enriched with no instance (failed lookup, negative cache, empty source) it keeps
its source and tags (map entries: up to the order of the tags, which `FormatTagsKey` sorts in place).  The name
is never touched. -/
theorem C11_tagged (e : Ent α) (ev : Event) (i : Inst) :
    (e.rekey (some i)).src = i.id ∧ (e.rekey (some i)).tags.Perm (e.tags ++ i.tags) ∧
    (e.rekey none).src = e.src ∧ (e.rekey none).tags.Perm e.tags ∧
    (∀ o, (e.rekey o).key.1 = e.key.1 ∧ (e.rekey o).key.2 = joinKey (e.rekey o).src (e.rekey o).tags) ∧
    enrichEvent (some i) ev = { ev with tags := ev.tags ++ i.tags, src := i.id } ∧ enrichEvent none ev = ev := by
  refine ⟨?_, ?_, ?_, ?_, ?_, rfl, rfl⟩
  · cases e <;> rfl
  · cases e <;> exact sortTags_perm _
  · cases e <;> rfl
  · cases e <;> exact sortTags_perm _
  · intro o; cases e <;> exact ⟨rfl, rfl⟩

/-- **C11_exactly_once.**  For every action sequence `as` (any cache view at any arrival, any interleaving) there
is a ledger — `origE`: (original event, instance applied) for every delivered event in delivery order; `recs`: one
record per delivered metric map in delivery order; `pend`: the arrived entries parked per source — such that

* the delivered events are the originals enriched with the recorded instance, the originals together with the
  parked events are a permutation of the arrived events (each event is delivered once or still parked, never
  both, never lost), and each recorded instance is the one the cache answered at arrival (`some i`, with `i = none`
  for the negative cache and the empty source) or the one its source's lookup completed with;
* the delivered maps are the records' outputs, the records' entries together with the parked entries are a
  permutation of the arrived entries, every record is justified the same way, a released parked map aggregates
  exactly its entries (`Sound`), and every delivered map aggregates exactly the enriched entries
  (`C11_rekey_conserves`);
* every parked map aggregates exactly the entries parked for its source. -/
theorem C11_exactly_once (fix : Bool) (as : List (Action α)) :
    ∃ (origE : List (Event × Option Inst)) (pend : AList String (List (Ent α))) (recs : List (MRec α)),
      deliveredEvents (run fix as) = origE.map (fun p => enrichEvent p.2 p.1) ∧
      (origE.map Prod.fst ++ parkedEvents (run fix as)).Perm (arrivedEvents as) ∧
      (∀ p ∈ origE, JustE as p) ∧
      deliveredMaps (run fix as) = recs.map MRec.out ∧
      (recs.flatMap (·.ents) ++ pend.flatMap (·.2)).Perm (arrivedEntries as) ∧
      (∀ r ∈ recs, r.Sound ∧ JustM as r ∧
        AggMM r.out (((match r.mid with | none => r.ents | some m => entries m)).map (fun (e : Ent α) => (e.rekey (r.f e.src)).single))) ∧
      (∀ s, Link (lookup s (run fix as).awaitingMetrics) (lookup s pend) s) := by
  obtain ⟨g, _, ⟨e1, e2, e3⟩, ⟨m1, m2, m3, m4⟩⟩ := ghost_run fix as
  refine ⟨g.origE, g.pend, g.recs, e1, e2, e3, m2, m4, ?_, m1.2⟩
  intro r hr
  refine ⟨(m3 r hr).1, (m3 r hr).2, ?_⟩
  unfold MRec.out
  cases r.mid <;> exact C11_rekey_conserves _ _

end content

section machine
variable {α : Type} [Add α]

/-! ## immediate forwarding -/

/-- **C11_immediate.**  `outbound` = what the stage has handed to downstream (`delivered`, plus `held` while
downstream is blocked; `hh` holds in every reachable state, `C11_blocked_downstream`).  (a) The entries of a batch
whose source is a cache hit (or empty) leave in the same action, as one map, enriched with what the cache answered;
(b) if the whole batch hits, nothing is parked and no lookup is requested; (c) an event whose source hits leaves in
the same action, enriched, and nothing else changes. -/
theorem C11_immediate (fix : Bool) (st : St α) (b : MM α) (e : Event) (pk : Peek) (hh : st.blocked = false → st.held = []) :
    outbound (step fix st (.arriveMetrics b pk)) = outbound st ++
      (if ((entries b).filter (fun x => isHit pk x.src)).isEmpty then []
       else [.metrics (rekeyEntries (instOf pk) ((entries b).filter (fun x => isHit pk x.src)))]) ∧
    ((∀ x ∈ entries b, isHit pk x.src = true) →
      (step fix st (.arriveMetrics b pk)).awaitingMetrics = st.awaitingMetrics ∧
      (step fix st (.arriveMetrics b pk)).awaitingEvents = st.awaitingEvents ∧
      (step fix st (.arriveMetrics b pk)).toLookup = st.toLookup) ∧
    (∀ i, cacheView pk e.src = some i →
      outbound (step fix st (.arriveEvent e pk)) = outbound st ++ [.event (enrichEvent i e)] ∧
      (step fix st (.arriveEvent e pk)).awaitingMetrics = st.awaitingMetrics ∧
      (step fix st (.arriveEvent e pk)).awaitingEvents = st.awaitingEvents ∧
      (step fix st (.arriveEvent e pk)).toLookup = st.toLookup) := by
  refine ⟨?_, ?_, ?_⟩
  · rw [step_arriveMetrics]
    have := (afterHits_delivered st b pk hh).1
    unfold outbound at this ⊢
    rw [(foldl_parkEnt_frame fix _ _).1, (foldl_parkEnt_frame fix _ _).2.2.2.2.2.1, this]
  · intro hall
    have : (entries b).filter (fun x => !isHit pk x.src) = [] := by
      simp only [List.filter_eq_nil_iff]
      intro x hx; simp [hall x hx]
    rw [step_arriveMetrics, this]
    obtain ⟨e1, e2, e3, _⟩ := afterHits_frame st b pk
    exact ⟨e1, e2, e3⟩
  · intro i hi
    refine ⟨?_, ?_, ?_, ?_⟩
    · simp only [step, hi]
      exact outbound_deliver ({ st with cacheHit := st.cacheHit + (countQueries pk [e.src]).1, cacheMiss := st.cacheMiss + (countQueries pk [e.src]).2 } : St α) _ hh
    all_goals simp [step, hi]

/-! ## release -/

/-- **C11_release.**  In every reachable state, the completion of the lookup of `s` (whatever its result) hands
to downstream the parked map of `s` (enriched with the result, re-keyed) and then its parked events in order
(enriched), and afterwards nothing of `s` is parked. -/
theorem C11_release (fix : Bool) (as : List (Action α)) (s : String) (r : Option Inst) :
    let st := run fix as
    let st' := step fix st (.info s r)
    parked st' s = false ∧
    outbound st' = outbound st ++
      (match lookup s st.awaitingMetrics with
       | some m => [.metrics (rekeyEntries (fun _ => r) (entries m))]
       | none => []) ++
      ((lookup s st.awaitingEvents).getD []).map (fun e => .event (enrichEvent r e)) := by
  intro st st'
  have hw : WFst st := wf_run fix as
  refine ⟨?_, ?_⟩
  · have := parked_release st s r hw s
    exact (by simpa using this : parked (releaseEvents (releaseMetrics st s r) s r) s = false)
  · show outbound (releaseEvents (releaseMetrics st s r) s r) = _
    have hw1 := wf_releaseMetrics st s r hw
    have hfr : (releaseMetrics st s r).awaitingEvents = st.awaitingEvents := by
      unfold releaseMetrics; split <;> simp
    have h1 : outbound (releaseMetrics st s r) = outbound st ++
        (match lookup s st.awaitingMetrics with
         | some m => [.metrics (rekeyEntries (fun _ => r) (entries m))]
         | none => []) := by
      cases hm : lookup s st.awaitingMetrics with
      | some m =>
        simp only [releaseMetrics, hm]
        exact outbound_deliver ({ st with awaitingMetrics := AList.erase s st.awaitingMetrics, metricHosts := st.metricHosts - 1 } : St α) _ hw.heldOK
      | none => simp [releaseMetrics, hm]
    have h2 : outbound (releaseEvents (releaseMetrics st s r) s r) = outbound (releaseMetrics st s r) ++
        ((lookup s (releaseMetrics st s r).awaitingEvents).getD []).map (fun e => .event (enrichEvent r e)) := by
      generalize releaseMetrics st s r = st1 at hw1 ⊢
      cases hl : lookup s st1.awaitingEvents with
      | none => simp [releaseEvents, hl]
      | some l =>
        cases l with
        | nil => exact absurd rfl (hw1.neE s [] hl)
        | cons x t =>
          simp only [releaseEvents, hl, Option.getD_some]
          exact outbound_deliver ({ st1 with awaitingEvents := AList.erase s st1.awaitingEvents, eventItems := st1.eventItems - ((x :: t).length : Int), eventHosts := st1.eventHosts - 1 } : St α) _ hw1.heldOK
    rw [h2, h1, hfr]

/-! ## a blocked downstream -/

/-- **C11_blocked_downstream.**  In every reachable state: (a) nothing is held back unless downstream is blocked
(so `outbound = delivered` whenever downstream is taking deliveries); (b) `unblock` hands downstream exactly what
was held, in the order it was produced, and holds nothing afterwards; (c) while downstream is blocked no action
other than `unblock` changes what downstream has taken — the owner loop goes on (all other theorems hold for
sequences containing `block` / `unblock`: arrivals are parked, lookups requested, completions release into
`held`). -/
theorem C11_blocked_downstream (fix : Bool) (as : List (Action α)) :
    let st := run fix as
    (st.blocked = false → st.held = []) ∧
    ((step fix st .unblock).delivered = st.delivered ++ st.held ∧ (step fix st .unblock).held = [] ∧
      (step fix st .unblock).blocked = false ∧ outbound (step fix st .unblock) = outbound st) ∧
    (st.blocked = true → ∀ a, a ≠ Action.unblock → (step fix st a).delivered = st.delivered) := by
  intro st
  have hw : WFst st := wf_run fix as
  refine ⟨hw.heldOK, ⟨rfl, rfl, rfl, by simp [outbound, step]⟩, ?_⟩
  intro hb a ha
  have hdel : ∀ (x : St α) (ds : List (Delivery α)), x.blocked = true → (deliver x ds).delivered = x.delivered := by
    intro x ds hx; unfold deliver; simp [hx]
  cases a with
  | arriveMetrics b pk =>
    rw [step_arriveMetrics, (foldl_parkEnt_frame fix _ _).1]
    unfold afterHits
    simp only
    split
    · rfl
    · exact hdel _ _ hb
  | arriveEvent e pk =>
    simp only [step]
    split
    · exact hdel _ _ hb
    · rfl
  | sendLookup => simp only [step]; split <;> rfl
  | info s r =>
    show (releaseEvents (releaseMetrics st s r) s r).delivered = st.delivered
    have h1 : (releaseMetrics st s r).delivered = st.delivered ∧ (releaseMetrics st s r).blocked = true := by
      unfold releaseMetrics
      split
      · exact ⟨hdel _ _ hb, by simpa using hb⟩
      · exact ⟨rfl, hb⟩
    have h2 : ∀ (x : St α), x.blocked = true → (releaseEvents x s r).delivered = x.delivered := by
      intro x hx
      unfold releaseEvents
      split
      · exact hdel _ _ hx
      · rfl
    rw [h2 _ h1.2, h1.1]
  | emit => rfl
  | block => rfl
  | unblock => exact absurd rfl ha

/-! ## lookups -/

/-- **C11_parked_has_lookup.**  In every reachable state a source with parked metrics or events is waiting to be
written to the lookup sink or has been written and not answered — so the completion of that lookup releases it. -/
theorem C11_parked_has_lookup (fix : Bool) (as : List (Action α)) (s : String)
    (h : parked (run fix as) s = true) : s ∈ (run fix as).toLookup ++ (run fix as).inFlight := by
  have key : ∀ (as : List (Action α)) (st : St α), LookupInv st → LookupInv (as.foldl (step fix) st) := by
    intro as
    induction as with
    | nil => intro st h; exact h
    | cons a t ih => intro st h; exact ih _ (lookupInv_step fix st a h)
  have h0 : LookupInv (init : St α) := ⟨wf_init, by intro s hs; simp [parked, init] at hs⟩
  exact (key as _ h0).2 s h

/-- **C11_one_outstanding.**  If the cache only answers what it was asked (`RunOK`: every `info s _` happens while
`s` is in flight), then in every reachable state each source has exactly one outstanding lookup (pending or in
flight) while something is parked for it, and none otherwise — in particular never two. -/
theorem C11_one_outstanding (fix : Bool) (as : List (Action α)) (henv : RunOK fix init as) (s : String) :
    ((run fix as).toLookup ++ (run fix as).inFlight).count s = (if parked (run fix as) s then 1 else 0) ∧
    ((run fix as).toLookup ++ (run fix as).inFlight).count s ≤ 1 := by
  have key : ∀ (as : List (Action α)) (st : St α), CountInv st → RunOK fix st as → CountInv (as.foldl (step fix) st) := by
    intro as
    induction as with
    | nil => intro st h _; exact h
    | cons a t ih => intro st h hr; exact ih _ (countInv_step fix st a hr.1 h) hr.2
  have h0 : CountInv (init : St α) := ⟨wf_init, by intro s; simp [parked, init, outstanding]⟩
  have := (key as _ h0 henv).2 s
  simp only [outstanding] at this
  unfold run
  refine ⟨this, ?_⟩
  rw [this]; split <;> omega

/-! ## gauges -/

/-- **C11_gauges.**  With the repaired bookkeeping (`fix = true`), in every reachable state:
`hosts_queued{type:metric}` = number of sources with parked metrics, `hosts_queued{type:event}` = number of
sources with parked events, `items_queued{type:event}` = number of parked events (the parking tables have one
entry per source, and no empty entry). -/
theorem C11_gauges (as : List (Action α)) :
    let st := run true as
    st.metricHosts = (st.awaitingMetrics.length : Int) ∧ NodupKeys st.awaitingMetrics ∧
    st.eventHosts = (st.awaitingEvents.length : Int) ∧ NodupKeys st.awaitingEvents ∧
    (∀ s l, lookup s st.awaitingEvents = some l → l ≠ []) ∧
    st.eventItems = ((parkedEvents st).length : Int) := by
  have key : ∀ (as : List (Action α)) (st : St α), GaugeInv st → GaugeInv (as.foldl (step true) st) := by
    intro as
    induction as with
    | nil => intro st h; exact h
    | cons a t ih => intro st h; exact ih _ (gaugeInv_step st a h)
  have h0 : GaugeInv (init : St α) := ⟨wf_init, rfl, rfl, rfl⟩
  obtain ⟨hw, h1, h2, h3⟩ := key as _ h0
  exact ⟨h1, hw.ndM, h2, hw.ndE, hw.neE, h3⟩

end machine

/-! ## defect D7 and non-vacuity -/
namespace C11ex

def miss : Peek := fun _ => none
def i1 : Inst := { id := "i-1", tags := ["region:r1", "az:b"] }
def hit1 : Peek := fun s => if s = "h1" then some (some i1) else none
def cnt (src : String) (v : Int) : MM Int :=
  { counters := [(("c", joinKey src []), { value := v, ts := 1, src := src, tags := [] })] }
def ev (n src : String) : Event := { body := [n], tags := ["t:1"], src := src }

/-- metrics from `h1`, then an event from `h1`, then the lookup result for `h1`, then an emission -/
def d7MetricsFirst : List (Action Int) :=
  [.arriveMetrics (cnt "h1" 1) miss, .arriveEvent (ev "e1" "h1") miss, .sendLookup, .info "h1" none, .emit]
/-- the symmetric history: the event first -/
def d7EventFirst : List (Action Int) :=
  [.arriveEvent (ev "e1" "h1") miss, .arriveMetrics (cnt "h1" 1) miss, .sendLookup, .info "h1" none, .emit]

/-- a richer history: two sources, a batch with hit and miss, repeated batch while pending, an instance result -/
def rich : List (Action Int) :=
  [.arriveMetrics (MM.merge (cnt "h1" 1) (cnt "h2" 2)) hit1, .arriveEvent (ev "e1" "h2") miss,
   .arriveMetrics (cnt "h2" 5) miss, .sendLookup, .emit, .info "h2" (some i1), .emit]

/-- downstream blocks while h2's two parked events are being released; h2 keeps sending; downstream resumes -/
def stuck : List (Action Int) :=
  [.arriveEvent (ev "e1" "h2") miss, .arriveEvent (ev "e2" "h2") miss, .sendLookup, .block, .info "h2" (some i1),
   .arriveEvent (ev "e3" "h2") miss, .arriveEvent (ev "e4" "h2") miss, .sendLookup, .unblock, .info "h2" none]

end C11ex
open C11ex

/-- **D7, metrics first.**  On the pinned tree's bookkeeping nothing is parked at the end, yet the event-hosts
counter is −1 (the `uint64` in the code: 2⁶⁴−1): `C11_gauges` is false for `fix = false`. -/
theorem C11_D7_witness_metrics_first :
    (run false d7MetricsFirst).eventHosts = -1 ∧ (run false d7MetricsFirst).awaitingEvents.length = 0 ∧
    (run false d7MetricsFirst).emitted = [(0, 2, 0, -1, 0)] := by decide

/-- **D7, event first.**  Symmetrically the metric-hosts counter underflows. -/
theorem C11_D7_witness_event_first :
    (run false d7EventFirst).metricHosts = -1 ∧ (run false d7EventFirst).awaitingMetrics.length = 0 ∧
    (run false d7EventFirst).emitted = [(0, 2, -1, 0, 0)] := by decide

/-- the repaired bookkeeping on the same histories -/
example : (run true d7MetricsFirst).emitted = [(0, 2, 0, 0, 0)] ∧ (run true d7EventFirst).emitted = [(0, 2, 0, 0, 0)] := by decide

/-- `C11_one_outstanding`'s hypothesis is satisfiable on a history with parking, a repeated batch and a release -/
example : RunOK false init rich ∧ RunOK true init rich := by
  refine ⟨?_, ?_⟩ <;> unfold rich <;> simp only [RunOK, EnvOK, and_true, true_and] <;> decide

/-- on `rich`: h2 is parked (metrics twice, one event) with one lookup, both gauges 1 before the completion and 0
after; the hit part of the first batch left at once -/
example :
    (run true rich).emitted = [(1, 3, 1, 1, 1), (1, 3, 0, 0, 0)] ∧ (run true rich).sent = ["h2"] ∧
    (run true rich).delivered.length = 3 ∧ parked (run true (rich.take 4)) "h2" = true ∧
    parked (run true rich) "h2" = false := by decide

/-- the delivered maps of `rich`: the hit entry of the first batch immediately (tags sorted, source replaced), the
two parked counters of h2 merged (2 + 5) and enriched on completion -/
example :
    (deliveredMaps (run true rich)).map (·.counters) =
      [ [(("c", "az:b,region:r1,s:i-1"), { value := 1, ts := 1, src := "i-1", tags := ["az:b", "region:r1"] })],
        [(("c", "az:b,region:r1,s:i-1"), { value := 7, ts := 1, src := "i-1", tags := ["az:b", "region:r1"] })] ] ∧
    deliveredEvents (run true rich) = [{ body := ["e1"], tags := ["t:1", "region:r1", "az:b"], src := "i-1" }] := by
  decide

/-- `C11_blocked_downstream` on a concrete history: while downstream is blocked the completion releases into `held`
(nothing reaches `delivered`), the stage goes on parking the newcomers and requests a second lookup; `unblock`
delivers e1, e2 in order, the second completion e3, e4 — each once, the first two tagged -/
example :
    (run true (stuck.take 8)).delivered.length = 0 ∧ (run true (stuck.take 8)).held.length = 2 ∧
    (run true (stuck.take 8)).sent = ["h2", "h2"] ∧ parked (run true (stuck.take 8)) "h2" = true ∧
    (deliveredEvents (run true stuck)).map (fun e => (e.body, e.src)) =
      [(["e1"], "i-1"), (["e2"], "i-1"), (["e3"], "h2"), (["e4"], "h2")] ∧
    (run true stuck).held.length = 0 ∧ RunOK true init stuck := by
  refine ⟨by decide, by decide, by decide, by decide, by decide, by decide, ?_⟩
  unfold stuck; simp only [RunOK, EnvOK, and_true, true_and]; decide

end Gsd
