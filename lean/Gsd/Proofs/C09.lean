import Gsd.Model.Expiry
import Gsd.Proofs.Lemmas.Expiry
/-!
# C09 — series persist until their type's expiry interval elapses, then disappear

Property theorems only.  `cfg` ranges over **all** four-tuples of `Int` intervals (negative, zero,
positive, independently per type), `h` over **all** histories of `dp` / `flush` operations whose
times never go backwards (`Nondecreasing`), `ty`, `k` over all series.  `viewAt cfg h` is the map a
flush issued right after `h` hands to the backends (taken before `Reset`), `reported cfg h ty k` says
that series `(ty, k)` is in it.  The model's expiry test uses the comparison operators read from the
source (`Facts.ops_isExpired`); every theorem below depends on `Expiry.isExpired_iff`.
-/
set_option linter.unusedSimpArgs false
set_option linter.unusedVariables false
namespace Gsd
open Gsd.AList Gsd.Expiry

/-- **C09_reported_eq_spec.**  Membership in the view equals the executable specification
`specReported`, which the driver evaluates on the *implementation's* views. -/
theorem C09_reported_eq_spec (cfg : Config) (h : List Op) (hm : Nondecreasing h) (ty : MType) (k : Key) :
    reported cfg h ty k = specReported (cfg ty) ty k h := by
  unfold reported
  rw [lookup_viewAt, Option.isSome_map]
  exact srun_isSome_eq_spec _ _ _ _ hm

/-- **C09_reported_iff.**  For every history: series `(ty, k)` is reported by a flush issued after `h`
iff `h` contains a datapoint of the series (at `T`, the newest one: no datapoint of the series after
it) and no flush `g` after that datapoint had `i ≠ 0 ∧ g − T > i`, `i` the interval of *its* type. -/
theorem C09_reported_iff (cfg : Config) (h : List Op) (hm : Nondecreasing h) (ty : MType) (k : Key) :
    reported cfg h ty k = true ↔
      ∃ a T d b, h = a ++ Op.dp ty k T d :: b ∧ NoDp ty k b ∧
        ∀ g, Op.flush g ∈ b → ¬ (cfg ty ≠ 0 ∧ g - T > cfg ty) := by
  rw [C09_reported_eq_spec cfg h hm]
  unfold specReported
  cases hl : lastDp ty k h with
  | none =>
    simp only [Bool.false_eq_true, false_iff]
    rintro ⟨a, T, d, b, hh, hb, _⟩
    have := (lastDp_some_iff ty k h T d b).2 ⟨a, hh, hb⟩
    rw [hl] at this; cases this
  | some r =>
    obtain ⟨T, d, b⟩ := r
    obtain ⟨a, hh, hb⟩ := (lastDp_some_iff ty k h T d b).1 hl
    simp only [List.all_eq_true]
    constructor
    · intro hall
      refine ⟨a, T, d, b, hh, hb, ?_⟩
      intro g hg hex
      have := hall g ((mem_flushTimes g b).2 hg)
      simp [hex.1, hex.2] at this
    · rintro ⟨a', T', d', b', hh', hb', hf⟩
      have := (lastDp_some_iff ty k h T' d' b').2 ⟨a', hh', hb'⟩
      rw [hl] at this
      simp only [Option.some.injEq, Prod.mk.injEq] at this
      obtain ⟨rfl, rfl, rfl⟩ := this
      intro g hg
      have := hf g ((mem_flushTimes g b).1 hg)
      cases hd : (decide (cfg ty ≠ 0) && decide (g - T > cfg ty)) with
      | false => rfl
      | true =>
        simp only [Bool.and_eq_true, decide_eq_true_eq] at hd
        exact absurd hd this

example :
    let cfg : Config := fun ty => match ty with | .counter => 5 | .timer => -1 | .gauge => 0 | .set => 5
    let h := [Op.dp .counter "a" 10 ⟨3, []⟩, Op.dp .timer "a" 10 ⟨2, []⟩, Op.flush 12, Op.flush 15, Op.flush 16]
    Nondecreasing h ∧ reported cfg (h.take 2) .counter "a" = true ∧ reported cfg (h.take 4) .counter "a" = true ∧
      reported cfg h .counter "a" = false ∧ reported cfg (h.take 2) .timer "a" = true ∧
      reported cfg (h.take 3) .timer "a" = false := by decide

/-- **C09_views_snoc.**  The list of views the driver prints for a history is made of `viewAt`:
a flush appends the view of the history before it, a datapoint appends nothing. -/
theorem C09_views_snoc (cfg : Config) (h : List Op) (op : Op) :
    views cfg (h ++ [op]) = match op with
      | .flush _ => views cfg h ++ [viewAt cfg h]
      | .dp .. => views cfg h := by
  unfold views
  rw [viewsFrom_append]
  cases op <;> simp [viewsFrom, step, viewAt, run]

/-- **C09_boundary.**  A series whose newest datapoint is at `T`, with no flush beyond the interval so
far (`hbf`): the first flush `t` with `i ≠ 0 ∧ t − T > i` still reports it, and no later flush does
until new data for the series arrives. -/
theorem C09_boundary (cfg : Config) (ty : MType) (k : Key) (a : List Op) (T : Int) (d : Dp) (b : List Op)
    (t : Int) (c : List Op)
    (hm : Nondecreasing (a ++ Op.dp ty k T d :: b ++ Op.flush t :: c))
    (hb : NoDp ty k b) (hc : NoDp ty k c)
    (hbf : ∀ g, Op.flush g ∈ b → ¬ (cfg ty ≠ 0 ∧ g - T > cfg ty))
    (ht : cfg ty ≠ 0 ∧ t - T > cfg ty) :
    reported cfg (a ++ Op.dp ty k T d :: b) ty k = true ∧
    reported cfg (a ++ Op.dp ty k T d :: b ++ Op.flush t :: c) ty k = false := by
  have hm1 : Nondecreasing (a ++ Op.dp ty k T d :: b) := by
    have : a ++ Op.dp ty k T d :: b ++ Op.flush t :: c = (a ++ Op.dp ty k T d :: b) ++ (Op.flush t :: c) := by simp
    rw [this] at hm
    exact nondecreasing_prefix _ _ hm
  constructor
  · exact (C09_reported_iff cfg _ hm1 ty k).2 ⟨a, T, d, b, rfl, hb, hbf⟩
  · cases hr : reported cfg (a ++ Op.dp ty k T d :: b ++ Op.flush t :: c) ty k with
    | false => rfl
    | true =>
      obtain ⟨a', T', d', b', hh, hb', hf⟩ := (C09_reported_iff cfg _ hm ty k).1 hr
      have hbc : NoDp ty k (b ++ Op.flush t :: c) := by
        intro op hop
        rcases List.mem_append.1 hop with h1 | h1
        · exact hb op h1
        · rcases List.mem_cons.1 h1 with rfl | h2
          · rfl
          · exact hc op h2
      have e1 := (lastDp_some_iff ty k _ T' d' b').2 ⟨a', hh, hb'⟩
      have e2 := (lastDp_some_iff ty k (a ++ Op.dp ty k T d :: b ++ Op.flush t :: c) T d (b ++ Op.flush t :: c)).2
        ⟨a, by simp, hbc⟩
      rw [e1] at e2
      simp only [Option.some.injEq, Prod.mk.injEq] at e2
      obtain ⟨rfl, rfl, rfl⟩ := e2
      exact absurd ht (hf t (by simp))

example :
    let cfg : Config := fun _ => 5
    Nondecreasing ([] ++ Op.dp .set "s" 10 ⟨0, [1, 2]⟩ :: [Op.flush 15] ++ Op.flush 16 :: [Op.flush 17]) ∧
    NoDp .set "s" [Op.flush 15] ∧ (∀ g, Op.flush g ∈ [Op.flush 15] → ¬ (cfg .set ≠ 0 ∧ g - 10 > cfg .set)) ∧
    (cfg .set ≠ 0 ∧ (16 : Int) - 10 > cfg .set) := by
  refine ⟨by decide, by decide, ?_, by decide⟩
  intro g hg
  simp at hg
  subst hg
  decide

/-- **C09_zero_forever.**  With interval 0 a series that ever received a datapoint is reported by every
later flush. -/
theorem C09_zero_forever (cfg : Config) (ty : MType) (k : Key) (hz : cfg ty = 0)
    (a : List Op) (T : Int) (d : Dp) (b : List Op) (hm : Nondecreasing (a ++ Op.dp ty k T d :: b)) :
    reported cfg (a ++ Op.dp ty k T d :: b) ty k = true := by
  rw [C09_reported_eq_spec cfg _ hm]
  unfold specReported
  cases hl : lastDp ty k (a ++ Op.dp ty k T d :: b) with
  | none =>
    have := (lastDp_none_iff ty k _).1 hl (Op.dp ty k T d) (by simp)
    simp [Op.isDpFor] at this
  | some r => simp [hz]

example : (fun _ => 0 : Config) .gauge = 0 ∧
    reported (fun _ => 0) ([] ++ Op.dp .gauge "g" 1 ⟨7, []⟩ :: [Op.flush 5, Op.flush 1000000]) .gauge "g" = true := by
  decide

/-- **C09_negative_once.**  With a negative interval a series is reported exactly by the flush that
carries its data: it is in the view iff a datapoint of the series arrived since the last flush. -/
theorem C09_negative_once (cfg : Config) (ty : MType) (k : Key) (hneg : cfg ty < 0)
    (h : List Op) (hm : Nondecreasing h) :
    reported cfg h ty k = true ↔
      ∃ a T d b, h = a ++ Op.dp ty k T d :: b ∧ NoDp ty k b ∧ ∀ g, Op.flush g ∉ b := by
  rw [C09_reported_iff cfg h hm]
  constructor
  · rintro ⟨a, T, d, b, hh, hb, hf⟩
    refine ⟨a, T, d, b, hh, hb, ?_⟩
    intro g hg
    apply hf g hg
    have hle : T ≤ g := by
      subst hh
      have := (List.pairwise_append.1 hm).2.1
      have := (List.pairwise_cons.1 this).1 (Op.flush g) hg
      simpa [Op.time] using this
    exact ⟨by omega, by omega⟩
  · rintro ⟨a, T, d, b, hh, hb, hf⟩
    exact ⟨a, T, d, b, hh, hb, fun g hg => absurd hg (hf g)⟩

example :
    let cfg : Config := fun _ => -1
    cfg .counter < 0 ∧ reported cfg [Op.dp .counter "c" 3 ⟨1, []⟩] .counter "c" = true ∧
    reported cfg [Op.dp .counter "c" 3 ⟨1, []⟩, Op.flush 3] .counter "c" = false := by decide

/-- **C09_values.**  A series reported without new data since a flush shows its idle value:
counter 0 (hence rate 0), set empty, timer count 0 and no percentiles; a gauge shows exactly what the
earlier flush showed (its last value). -/
theorem C09_values (cfg : Config) (ty : MType) (k : Key) (pre : List Op) (t : Int) (mid : List Op)
    (hn : NoDp ty k mid) (vv : ViewVal)
    (hv : lookup k (viewAt cfg (pre ++ Op.flush t :: mid) ty) = some vv) :
    (ty = .counter → vv.num = 0) ∧ (ty = .set → vv.mem = []) ∧
    (ty = .timer → vv.num = 0 ∧ vv.pct = false) ∧
    (ty = .gauge → lookup k (viewAt cfg pre ty) = some vv) := by
  rw [lookup_viewAt] at hv
  cases hs : srun (cfg ty) ty k (pre ++ Op.flush t :: mid) with
  | none => rw [hs] at hv; cases hv
  | some e' =>
    rw [hs] at hv
    obtain ⟨e, he, hz⟩ := persist_zeroed _ _ _ _ _ _ hn e' hs
    have hvv : vv = viewVal ty (zeroE ty e) := by rw [← hz]; exact (Option.some.inj hv).symm
    refine ⟨?_, ?_, ?_, ?_⟩ <;> intro hty <;> subst hty
    · rw [hvv]; rfl
    · rw [hvv]; rfl
    · rw [hvv]; exact ⟨rfl, by simp [viewVal, zeroE]⟩
    · rw [lookup_viewAt, he, hvv]; rfl

example :
    let cfg : Config := fun _ => 100
    let h := [Op.dp .timer "t" 1 ⟨3, []⟩, Op.dp .gauge "t" 1 ⟨9, []⟩]
    lookup "t" (viewAt cfg h .timer) = some ⟨3, [], true⟩ ∧
    lookup "t" (viewAt cfg (h ++ Op.flush 2 :: [Op.flush 3]) .timer) = some ⟨0, [], false⟩ ∧
    lookup "t" (viewAt cfg (h ++ Op.flush 2 :: [Op.flush 3]) .gauge) = some ⟨9, [], false⟩ := by decide

/-- **C09_gauge_last.**  "Last value": a gauge whose newest datapoint is strictly newer than its earlier
ones shows that datapoint's value for as long as it is reported. -/
theorem C09_gauge_last (cfg : Config) (k : Key) (a : List Op) (T : Int) (d : Dp) (b : List Op)
    (hm : Nondecreasing (a ++ Op.dp .gauge k T d :: b)) (hb : NoDp .gauge k b)
    (hstrict : ∀ op ∈ a, op.isDpFor .gauge k = true → op.time < T) (vv : ViewVal)
    (hv : lookup k (viewAt cfg (a ++ Op.dp .gauge k T d :: b) .gauge) = some vv) : vv.num = d.num := by
  rw [lookup_viewAt] at hv
  have hsplit : a ++ Op.dp .gauge k T d :: b = (a ++ [Op.dp .gauge k T d]) ++ b := by simp
  cases hs : srun (cfg .gauge) .gauge k (a ++ Op.dp .gauge k T d :: b) with
  | none => rw [hs] at hv; cases hv
  | some e' =>
    rw [hs] at hv
    rw [hsplit] at hs
    obtain ⟨e, he, hor⟩ := persist_weak _ _ _ _ _ hb e' hs
    have he' : e' = e := by rcases hor with h | h <;> simpa [zeroE] using h
    rw [srun_snoc] at he
    simp only [sstep, and_self, if_true, Option.some.injEq] at he
    have hvv : vv = viewVal .gauge e := by rw [← he']; exact (Option.some.inj hv).symm
    have hma : Nondecreasing a := nondecreasing_prefix _ _ hm
    have hnum : e.num = d.num := by
      rw [← he]
      cases hsa : srun (cfg .gauge) .gauge k a with
      | none => rfl
      | some e₀ =>
        obtain ⟨i1, i2⟩ := inv_all (cfg .gauge) .gauge k a hma
        cases hl : lastDp .gauge k a with
        | none => rw [i1 hl] at hsa; cases hsa
        | some r =>
          obtain ⟨T₀, d₀, b₀⟩ := r
          have hts := ((i2 T₀ d₀ b₀ hl).2 e₀ hsa).1
          obtain ⟨a₀, ha₀, _⟩ := (lastDp_some_iff ..).1 hl
          have := hstrict (Op.dp .gauge k T₀ d₀) (by rw [ha₀]; simp) (by simp [Op.isDpFor])
          simp only [Op.time] at this
          have hlt : e₀.ts < T := by omega
          simp [mergeE, hlt]
    rw [hvv]; exact hnum

example :
    lookup "g" (viewAt (fun _ => 0) ([Op.dp .gauge "g" 1 ⟨4, []⟩] ++ Op.dp .gauge "g" 2 ⟨5, []⟩ :: [Op.flush 3, Op.flush 9]) .gauge)
      = some ⟨5, [], false⟩ := by decide

/-- **C09_per_type.**  Each type obeys its own interval: changing the intervals of the other types
changes nothing in this type's aggregate, hence in its views. -/
theorem C09_per_type (cfg cfg' : Config) (ty : MType) (hc : cfg ty = cfg' ty) (h : List Op) :
    viewAt cfg h ty = viewAt cfg' h ty := by
  simp only [viewAt, viewOf]
  rw [run_congr cfg cfg' ty hc h]

example :
    let h := [Op.dp .counter "a" 1 ⟨1, []⟩, Op.dp .set "a" 1 ⟨0, [4]⟩, Op.flush 10, Op.flush 20]
    let cfg : Config := fun ty => match ty with | .counter => 5 | _ => 0
    let cfg' : Config := fun ty => match ty with | .counter => 5 | _ => -1
    viewAt cfg h .counter = viewAt cfg' h .counter ∧ viewAt cfg h .set ≠ viewAt cfg' h .set := by decide

/-- **C09_config_precedence.**  The interval a type obeys is its own setting when given, else the main
`expiry-interval` when given, else the default — whatever the other types' settings are. -/
theorem C09_config_precedence (d : Int) (main perType : Option Int) :
    Expiry.resolveInterval d main perType =
      match perType, main with
      | some p, _ => p
      | none, some m => m
      | none, none => d := by
  cases perType <;> cases main <;> rfl

end Gsd
