import Gsd.Model.Pipeline
import Gsd.Proofs.C06
import Gsd.Proofs.C07
/-! Generic ledger lemmas for the pipeline transition system (C01). -/
set_option linter.unusedSimpArgs false
set_option linter.unusedSectionVars false
namespace Gsd

/-- a commutative monoid given explicitly (so that `Bool` with `||` fits as well as `+`) -/
structure CMon (M : Type) where
  op : M → M → M
  e : M
  assoc : ∀ a b c, op (op a b) c = op a (op b c)
  comm : ∀ a b, op a b = op b a
  id_left : ∀ a, op e a = a

namespace CMon
variable {M : Type} (C : CMon M)

theorem id_right (a : M) : C.op a C.e = a := by rw [C.comm, C.id_left]

def fold (l : List M) : M := l.foldr C.op C.e

@[simp] theorem fold_nil : C.fold [] = C.e := rfl
@[simp] theorem fold_cons (a : M) (l : List M) : C.fold (a :: l) = C.op a (C.fold l) := rfl

theorem fold_append (l₁ l₂ : List M) : C.fold (l₁ ++ l₂) = C.op (C.fold l₁) (C.fold l₂) := by
  induction l₁ with
  | nil => simp [C.id_left]
  | cons a t ih => simp [ih, C.assoc]

theorem fold_singleton (a : M) : C.fold [a] = a := by simp [C.id_right]

/-- removing the element at index `j` -/
theorem fold_eraseIdx (l : List M) (j : Nat) (x : M) (h : l[j]? = some x) :
    C.fold l = C.op x (C.fold (l.eraseIdx j)) := by
  induction l generalizing j with
  | nil => simp at h
  | cons a t ih =>
    cases j with
    | zero => simp at h; subst h; simp
    | succ j =>
      simp at h
      simp only [List.eraseIdx_cons_succ, fold_cons, ih j h]
      rw [← C.assoc, C.comm a x, C.assoc]

/-- replacing the element at index `i` by one whose measure is `op old d` -/
theorem fold_modify {β} (μ : β → M) (l : List β) (i : Nat) (f : β → β) (d : M) (hi : i < l.length)
    (hf : ∀ x, μ (f x) = C.op (μ x) d) :
    C.fold ((l.modify i f).map μ) = C.op (C.fold (l.map μ)) d := by
  induction l generalizing i with
  | nil => simp at hi
  | cons a t ih =>
    cases i with
    | zero => simp [List.modify_zero_cons, hf]; rw [C.assoc, C.comm d, ← C.assoc]
    | succ i =>
      simp only [List.modify_succ_cons, List.map_cons, fold_cons]
      rw [ih i (by simpa using hi), C.assoc]

/-- replacing the element at index `i` (with measure `op new d`) by `new` -/
theorem fold_set {β} (μ : β → M) (l : List β) (i : Nat) (y : β) (d : M) (x : β) (hx : l[i]? = some x)
    (hf : μ x = C.op (μ y) d) :
    C.fold (l.map μ) = C.op (C.fold ((l.set i y).map μ)) d := by
  induction l generalizing i with
  | nil => simp at hx
  | cons a t ih =>
    cases i with
    | zero => simp at hx; subst hx; simp [hf]; rw [C.assoc, C.comm d, ← C.assoc]
    | succ i =>
      simp at hx
      simp only [List.set_cons_succ, List.map_cons, fold_cons]
      rw [ih i hx, C.assoc]

/-- elements with neutral measure can be filtered out -/
theorem fold_filter {β} (μ : β → M) (l : List β) (p : β → Bool) (hp : ∀ x ∈ l, p x = false → μ x = C.e) :
    C.fold ((l.filter p).map μ) = C.fold (l.map μ) := by
  induction l with
  | nil => rfl
  | cons a t ih =>
    have iht := ih (fun x hx => hp x (by simp [hx]))
    by_cases h : p a = true
    · simp [List.filter_cons, h, iht]
    · have : p a = false := by simpa using h
      simp [List.filter_cons, this, iht, hp a (by simp) this, C.id_left]

/-- a list that is neutral everywhere except at index `c` -/
theorem fold_range_single (n c : Nat) (hc : c < n) (x : M) :
    C.fold ((List.range n).map (fun i => if c = i then x else C.e)) = x := by
  induction n with
  | zero => omega
  | succ n ih =>
    rw [List.range_succ, List.map_append, fold_append]
    by_cases h : c = n
    · subst h
      have : (List.range c).map (fun i => if c = i then x else C.e) = (List.range c).map (fun _ => C.e) := by
        apply List.map_congr_left; intro i hi; simp at hi; simp; omega
      rw [this]
      have hz : ∀ k, C.fold ((List.range k).map (fun _ => C.e)) = C.e := by
        intro k; induction k with
        | zero => rfl
        | succ k ihk => rw [List.range_succ, List.map_append, fold_append, ihk]; simp [C.id_left]
      rw [hz]; simp [C.id_left, C.id_right]
    · rw [ih (by omega)]; simp [h, C.id_right]

end CMon
end Gsd

namespace Gsd
open AList
variable {α : Type} [AddCommMonoid α]

/-- An additive observation of a metric map: a monoid-valued function that `Merge` adds up, `Reset`
clears, and `Split`/`DispatchMetricMap` distributes over the pieces. -/
structure Measure (α : Type) [AddCommMonoid α] (M : Type) where
  C : CMon M
  μ : MM α → M
  empty : μ MM.empty = C.e
  merge : ∀ a b : MM α, b.WF → μ (MM.merge a b) = C.op (μ a) (μ b)
  reset : ∀ (ex : Key → Bool) (a : MM α), a.WF → μ (Pipeline.reset ex a) = C.e
  split : ∀ (h : Key → Nat) (n : Nat) (m : MM α), 0 < n → m.WF →
    C.fold ((MMap.dispatch h n m).map (fun p => μ p.2)) = μ m

namespace Pipeline

theorem reset_wf (ex : Key → Bool) (a : MM α) (h : a.WF) : (reset ex a).WF := by
  obtain ⟨h1, h2, h3, h4⟩ := h
  exact ⟨nodupKeys_filterMapVals _ h1, nodupKeys_filterMapVals _ h2, nodupKeys_filterMapVals _ h3, nodupKeys_filterMapVals _ h4⟩

theorem dispatch_wf (h : Key → Nat) (n : Nat) (m : MM α) (p : Nat × MM α) (hp : p ∈ MMap.dispatch h n m) :
    p.2.WF ∧ p.1 < n := by
  obtain ⟨w, q⟩ := p
  have := (C06_dispatch h n m w q).mp hp
  obtain ⟨hw, hq, _⟩ := this
  have hwf := C06_pieces_wf h n m w hw
  rw [hq] at hwf
  exact ⟨by simpa using hwf, hw⟩

/-- structural invariant: every map in the system is a map (unique keys), shapes are right -/
def Inv (n : Nat) (s : State α) : Prop :=
  (∀ p ∈ s.pending, p.2.WF ∧ p.1 < n) ∧ (∀ q ∈ s.queues, ∀ m ∈ q, m.WF) ∧ (∀ a ∈ s.aggs, a.WF) ∧
  s.aggs.length = n ∧ s.queues.length = n

theorem inv_init (n : Nat) : Inv n (init n : State α) := by
  refine ⟨by simp [init], ?_, ?_, by simp [init], by simp [init]⟩
  · intro q hq m hm; simp [init] at hq; rw [hq.2] at hm; simp at hm
  · intro a ha; simp [init] at ha; rw [ha.2]; exact empty_wf

theorem mem_set {β} (l : List β) (i : Nat) (y x : β) (h : x ∈ l.set i y) : x = y ∨ x ∈ l := by
  induction l generalizing i with
  | nil => simp at h
  | cons a t ih =>
    cases i with
    | zero => simp at h; rcases h with h | h; exact Or.inl h; exact Or.inr (by simp [h])
    | succ i =>
      simp at h
      rcases h with h | h
      · exact Or.inr (by simp [h])
      · rcases ih i h with h' | h'
        · exact Or.inl h'
        · exact Or.inr (by simp [h'])

theorem mem_modify' {β} (l : List β) (i : Nat) (f : β → β) (y : β) (hy : y ∈ l.modify i f) :
    y ∈ l ∨ ∃ x ∈ l, y = f x := by
  induction l generalizing i with
  | nil => simp at hy
  | cons x t ih =>
    cases i with
    | zero =>
      simp only [List.modify_zero_cons, List.mem_cons] at hy
      rcases hy with h | h
      · exact Or.inr ⟨x, by simp, h⟩
      · exact Or.inl (by simp [h])
    | succ j =>
      simp only [List.modify_succ_cons, List.mem_cons] at hy
      rcases hy with h | h
      · exact Or.inl (by simp [h])
      · rcases ih j h with h' | ⟨z, hz, e⟩
        · exact Or.inl (by simp [h'])
        · exact Or.inr ⟨z, by simp [hz], e⟩

theorem inv_step (ops : NumOps α) (h : Key → Nat) (n : Nat) (s s' : State α) (a : Action α)
    (hinv : Inv n s) (hs : step ops h n s a = some s') : Inv n s' := by
  obtain ⟨h1, h2, h3, h4, h5⟩ := hinv
  cases a with
  | arrive ds =>
    simp only [step, Option.some.injEq] at hs; subst hs
    refine ⟨?_, h2, h3, h4, h5⟩
    intro p hp
    rcases List.mem_append.mp hp with hp | hp
    · exact h1 p hp
    · exact dispatch_wf h n _ p hp
  | enqueue j =>
    simp only [step] at hs
    cases hj : s.pending[j]? with
    | none => simp [hj] at hs
    | some ip =>
      obtain ⟨i, p⟩ := ip
      simp only [hj] at hs
      split at hs
      · simp only [Option.some.injEq] at hs; subst hs
        have hmem : (i, p) ∈ s.pending := List.mem_of_getElem? hj
        refine ⟨?_, ?_, h3, h4, by simpa using h5⟩
        · intro q hq; exact h1 q (List.mem_of_mem_eraseIdx hq)
        · intro q hq m hm
          rcases mem_modify' _ _ _ _ hq with hq' | ⟨q0, hq0, rfl⟩
          · exact h2 q hq' m hm
          · rcases List.mem_append.mp hm with hm | hm
            · exact h2 q0 hq0 m hm
            · simp at hm; subst hm; exact (h1 _ hmem).1
      · simp at hs
  | deliver i =>
    simp only [step] at hs
    cases hq : s.queues[i]? with
    | none => simp [hq] at hs
    | some q =>
      cases q with
      | nil => simp [hq] at hs
      | cons p rest =>
        simp only [hq] at hs
        split at hs
        · simp only [Option.some.injEq] at hs; subst hs
          have hqmem : (p :: rest) ∈ s.queues := List.mem_of_getElem? hq
          refine ⟨h1, ?_, ?_, by simpa using h4, by simpa using h5⟩
          · intro q' hq' m hm
            rcases mem_set _ _ _ _ hq' with e | hq''
            · subst e; exact h2 _ hqmem m (by simp [hm])
            · exact h2 q' hq'' m hm
          · intro a ha
            rcases mem_modify' _ _ _ _ ha with ha' | ⟨a0, ha0, rfl⟩
            · exact h3 a ha'
            · exact C07_merge_wf _ _ (h3 a0 ha0)
        · simp at hs
  | flushShard i ex =>
    simp only [step] at hs
    cases ha : s.aggs[i]? with
    | none => simp [ha] at hs
    | some a =>
      simp only [ha, Option.some.injEq] at hs; subst hs
      have hamem : a ∈ s.aggs := List.mem_of_getElem? ha
      refine ⟨h1, h2, ?_, by simpa using h4, h5⟩
      intro b hb
      rcases mem_set _ _ _ _ hb with e | hb'
      · subst e; exact reset_wf ex a (h3 a hamem)
      · exact h3 b hb'

/-- the measure of everything that is somewhere in the system or was flushed -/
def total {M} (ms : Measure α M) (s : State α) : M :=
  ms.C.op (ms.C.op (ms.C.fold (s.flushed.map (fun p => ms.μ p.2))) (ms.C.fold (s.aggs.map ms.μ)))
    (ms.C.op (ms.C.fold (s.queues.map (fun q => ms.C.fold (q.map ms.μ)))) (ms.C.fold (s.pending.map (fun p => ms.μ p.2))))

end Pipeline
end Gsd

namespace Gsd
open AList
variable {α : Type} [AddCommMonoid α]

theorem zip_range_map {γ δ} (L : List γ) (n : Nat) (hL : L.length = n) (G : γ → δ) (d : γ) :
    ((List.range n).zip L).map (fun p => G p.2) = (List.range n).map (fun i => G (L[i]?.getD d)) := by
  apply List.ext_getElem
  · simp [hL]
  · intro i h1 h2
    have hi : i < L.length := by simp at h1; omega
    simp [List.getElem?_eq_getElem hi]

/-- `Split` distributes a per-series observation `g (lookup k (proj ·))` over the dispatched pieces -/
theorem split_measure {M ν} (C : CMon M) (proj : MM α → AList Key ν) (g : Option ν → M) (k : Key)
    (hg : g none = C.e)
    (hempty : ∀ p : MM α, p.isEmpty = true → lookup k (proj p) = none)
    (h : Key → Nat) (n : Nat) (hn : 0 < n) (m : MM α)
    (hlk : ∀ i, i < n → lookup k (proj ((m.split h n)[i]?.getD {})) = if h k % n = i then lookup k (proj m) else none) :
    C.fold ((MMap.dispatch h n m).map (fun p => g (lookup k (proj p.2)))) = g (lookup k (proj m)) := by
  unfold MMap.dispatch
  rw [C.fold_filter (fun p : Nat × MM α => g (lookup k (proj p.2)))]
  · rw [zip_range_map (m.split h n) n (C06_length h n m) (fun q => g (lookup k (proj q))) {}]
    have : (List.range n).map (fun i => g (lookup k (proj ((m.split h n)[i]?.getD {})))) =
           (List.range n).map (fun i => if h k % n = i then g (lookup k (proj m)) else C.e) := by
      apply List.map_congr_left
      intro i hi
      simp at hi
      rw [hlk i hi]
      split <;> simp [hg]
    rw [this]
    exact C.fold_range_single n (h k % n) (Nat.mod_lt _ hn) _
  · intro p _ hp
    have : p.2.isEmpty = true := by simpa using hp
    rw [hempty p.2 this, hg]

end Gsd
