import Gsd.Model.AList
/-! Helper lemmas about association lists (core-only). -/
set_option linter.unusedSimpArgs false
set_option linter.unusedSectionVars false
namespace Gsd

theorem getD_getElem?_lt {α} (l : List α) (i : Nat) (d : α) (h : i < l.length) : l[i]?.getD d = l[i] := by
  simp [h]
theorem getD_getElem?_ge {α} (l : List α) (i : Nat) (d : α) (h : l.length ≤ i) : l[i]?.getD d = d := by
  simp [h]

namespace AList
variable {κ ν : Type} [DecidableEq κ]

@[simp] theorem lookup_nil (k : κ) : lookup k ([] : AList κ ν) = none := rfl

theorem lookup_cons (k k' : κ) (v : ν) (t : AList κ ν) :
    lookup k ((k', v) :: t) = if k' = k then some v else lookup k t := rfl

theorem lookup_eq_none_of_not_mem_keys {k : κ} {m : AList κ ν} (h : k ∉ keys m) : lookup k m = none := by
  induction m with
  | nil => rfl
  | cons e t ih =>
    obtain ⟨k', v⟩ := e
    simp only [keys, List.map_cons, List.mem_cons, not_or] at h
    have : ¬ k' = k := fun hh => h.1 hh.symm
    simp only [lookup_cons, this, if_false]
    exact ih h.2

theorem mem_keys_of_lookup_some {k : κ} {v : ν} {m : AList κ ν} (h : lookup k m = some v) : k ∈ keys m := by
  induction m with
  | nil => simp at h
  | cons e t ih =>
    obtain ⟨k', v'⟩ := e
    simp only [lookup_cons] at h
    simp only [keys, List.map_cons, List.mem_cons]
    by_cases hk : k' = k
    · exact Or.inl hk.symm
    · simp only [hk, if_false] at h; exact Or.inr (ih h)

theorem lookup_isSome_iff_mem_keys {k : κ} {m : AList κ ν} : (lookup k m).isSome ↔ k ∈ keys m := by
  constructor
  · intro h
    obtain ⟨v, hv⟩ := Option.isSome_iff_exists.mp h
    exact mem_keys_of_lookup_some hv
  · intro h
    induction m with
    | nil => simp [keys] at h
    | cons e t ih =>
      obtain ⟨k', v'⟩ := e
      simp only [keys, List.map_cons, List.mem_cons] at h
      simp only [lookup_cons]
      by_cases hk : k' = k
      · simp [hk]
      · simp only [hk, if_false]
        rcases h with h | h
        · exact absurd h.symm hk
        · exact ih h

theorem mem_of_lookup_some {k : κ} {v : ν} {m : AList κ ν} (h : lookup k m = some v) : (k, v) ∈ m := by
  induction m with
  | nil => simp at h
  | cons e t ih =>
    obtain ⟨k', v'⟩ := e
    simp only [lookup_cons] at h
    by_cases hk : k' = k
    · simp only [hk, if_true, Option.some.injEq] at h; subst hk; subst h; exact List.mem_cons_self
    · simp only [hk, if_false] at h; exact List.mem_cons_of_mem _ (ih h)

theorem lookup_of_mem_nodup {k : κ} {v : ν} {m : AList κ ν} (hn : NodupKeys m) (h : (k, v) ∈ m) :
    lookup k m = some v := by
  induction m with
  | nil => simp at h
  | cons e t ih =>
    obtain ⟨k', v'⟩ := e
    simp only [NodupKeys, keys, List.map_cons, List.nodup_cons] at hn
    simp only [List.mem_cons, Prod.mk.injEq] at h
    simp only [lookup_cons]
    rcases h with ⟨h1, h2⟩ | h
    · simp [h1, h2]
    · have : k ∈ keys t := List.mem_map.mpr ⟨(k, v), h, rfl⟩
      have hne : ¬ k' = k := fun hh => hn.1 (hh ▸ this)
      simp only [hne, if_false]
      exact ih hn.2 h

/-! ### upsert -/

theorem lookup_upsert (k k' : κ) (f : Option ν → ν) (m : AList κ ν) :
    lookup k' (upsert k f m) = if k = k' then some (f (lookup k m)) else lookup k' m := by
  induction m with
  | nil => simp [upsert, lookup]
  | cons e t ih =>
    obtain ⟨k₀, v₀⟩ := e
    simp only [upsert, lookup]
    split <;> split <;> simp_all [lookup] <;> grind

theorem keys_upsert_mem (k : κ) (f : Option ν → ν) (m : AList κ ν) (x : κ) :
    x ∈ keys (upsert k f m) ↔ x = k ∨ x ∈ keys m := by
  induction m with
  | nil => simp [upsert, keys]
  | cons e t ih =>
    obtain ⟨k₀, v₀⟩ := e
    by_cases h0 : k₀ = k
    · subst h0; simp [upsert, keys]
    · simp only [upsert, h0, if_false, keys, List.map_cons, List.mem_cons]
      simp only [keys] at ih
      rw [ih]
      constructor
      · rintro (h | h | h) <;> simp [h]
      · rintro (h | h | h) <;> simp [h]

theorem nodupKeys_upsert (k : κ) (f : Option ν → ν) {m : AList κ ν} (h : NodupKeys m) :
    NodupKeys (upsert k f m) := by
  induction m with
  | nil => simp [upsert, NodupKeys, keys]
  | cons e t ih =>
    obtain ⟨k₀, v₀⟩ := e
    simp only [NodupKeys, keys, List.map_cons, List.nodup_cons] at h
    by_cases h0 : k₀ = k
    · subst h0; simpa [upsert, NodupKeys, keys] using h
    · simp only [upsert, h0, if_false, NodupKeys, keys, List.map_cons, List.nodup_cons]
      refine ⟨?_, ih h.2⟩
      intro hm
      have := (keys_upsert_mem k f t k₀).mp hm
      rcases this with h' | h'
      · exact h0 h'
      · exact h.1 h'

/-! ### erase -/

theorem lookup_erase (k k' : κ) (m : AList κ ν) :
    lookup k' (erase k m) = if k = k' then none else lookup k' m := by
  induction m with
  | nil => simp [erase, lookup]
  | cons e t ih =>
    obtain ⟨k₀, v₀⟩ := e
    simp only [erase, lookup]
    split <;> split <;> simp_all [lookup] <;> grind

theorem keys_erase_sublist (k : κ) (m : AList κ ν) : (keys (erase k m)).Sublist (keys m) := by
  induction m with
  | nil => simp [erase, keys]
  | cons e t ih =>
    obtain ⟨k₀, v₀⟩ := e
    by_cases h0 : k₀ = k
    · simp only [erase, h0, if_true, keys, List.map_cons]
      exact List.Sublist.cons _ ih
    · simp only [erase, h0, if_false, keys, List.map_cons]
      exact List.Sublist.cons_cons _ ih

theorem nodupKeys_erase (k : κ) {m : AList κ ν} (h : NodupKeys m) : NodupKeys (erase k m) :=
  List.Nodup.sublist (keys_erase_sublist k m) h

/-! ### filterKeys -/

theorem lookup_filterKeys (p : κ → Bool) (k : κ) (m : AList κ ν) :
    lookup k (filterKeys p m) = if p k then lookup k m else none := by
  induction m with
  | nil => simp [filterKeys]
  | cons e t ih =>
    obtain ⟨k₀, v₀⟩ := e
    simp only [filterKeys] at ih
    by_cases hp : p k₀ = true
    · by_cases hk : k₀ = k
      · subst hk; simp [filterKeys, List.filter_cons, hp, lookup_cons]
      · simp [filterKeys, List.filter_cons, hp, lookup_cons, hk, ih]
    · by_cases hk : k₀ = k
      · subst hk; simp [filterKeys, List.filter_cons, hp, lookup_cons, ih]
      · simp [filterKeys, List.filter_cons, hp, lookup_cons, hk, ih]

theorem nodupKeys_filterKeys (p : κ → Bool) {m : AList κ ν} (h : NodupKeys m) :
    NodupKeys (filterKeys p m) := by
  unfold NodupKeys keys filterKeys at *
  exact List.Nodup.sublist (List.Sublist.map _ List.filter_sublist) h

/-! ### mapVals -/

theorem lookup_mapVals {μ : Type} (f : κ → ν → μ) (k : κ) (m : AList κ ν) :
    lookup k (mapVals f m) = (lookup k m).map (f k) := by
  induction m with
  | nil => simp [mapVals]
  | cons e t ih =>
    obtain ⟨k₀, v₀⟩ := e
    simp only [mapVals] at ih
    by_cases hk : k₀ = k
    · subst hk; simp [mapVals, lookup_cons]
    · simp [mapVals, lookup_cons, hk, ih]

theorem keys_mapVals {μ : Type} (f : κ → ν → μ) (m : AList κ ν) : keys (mapVals f m) = keys m := by
  simp [keys, mapVals, List.map_map, Function.comp_def]

theorem nodupKeys_mapVals {μ : Type} (f : κ → ν → μ) {m : AList κ ν} (h : NodupKeys m) :
    NodupKeys (mapVals f m) := by
  unfold NodupKeys; rw [keys_mapVals]; exact h

/-! ### filterMapVals -/

theorem keys_filterMapVals_sublist {μ : Type} (f : κ → ν → Option μ) (m : AList κ ν) :
    (keys (filterMapVals f m)).Sublist (keys m) := by
  induction m with
  | nil => simp [filterMapVals, keys]
  | cons e t ih =>
    obtain ⟨k₀, v₀⟩ := e
    simp only [filterMapVals]
    cases hf : f k₀ v₀ with
    | none => simp only [keys, List.map_cons]; exact List.Sublist.cons _ ih
    | some w => simp only [keys, List.map_cons]; exact List.Sublist.cons_cons _ ih

theorem nodupKeys_filterMapVals {μ : Type} (f : κ → ν → Option μ) {m : AList κ ν} (h : NodupKeys m) :
    NodupKeys (filterMapVals f m) :=
  List.Nodup.sublist (keys_filterMapVals_sublist f m) h

theorem lookup_filterMapVals_nodup {μ : Type} (f : κ → ν → Option μ) (k : κ) {m : AList κ ν}
    (h : NodupKeys m) : lookup k (filterMapVals f m) = (lookup k m).bind (f k) := by
  induction m with
  | nil => simp [filterMapVals]
  | cons e t ih =>
    obtain ⟨k₀, v₀⟩ := e
    simp only [NodupKeys, keys, List.map_cons, List.nodup_cons] at h
    have iht := ih h.2
    by_cases hk : k₀ = k
    · subst hk
      have hnone : lookup k₀ t = none := lookup_eq_none_of_not_mem_keys h.1
      simp only [filterMapVals, lookup_cons, if_true, Option.bind_some]
      cases hf : f k₀ v₀ with
      | none => simp [iht, hnone]
      | some w => simp [lookup_cons]
    · simp only [filterMapVals, lookup_cons, hk, if_false]
      cases hf : f k₀ v₀ with
      | none => simpa using iht
      | some w => simp [lookup_cons, hk, iht]

end AList
end Gsd
