import Gsd.Model.Events
/-!
Helper lemmas for C19 (event pipeline).  Core Lean only.
-/
set_option linter.unusedSimpArgs false
set_option linter.unusedVariables false
namespace Gsd.Events

/-! ## Part A: stage functions -/

theorem foldl_last {α : Type} (g : Event → α) (f : Attr → Option α)
    (hg : ∀ e a, g (applyAttr e a) = (f a).getD (g e)) (as : List Attr) (e : Event) :
    g (as.foldl applyAttr e) = (lastOf f as).getD (g e) := by
  induction as generalizing e with
  | nil => rfl
  | cons a t ih =>
    simp only [List.foldl_cons, lastOf]
    rw [ih]
    cases h : lastOf f t with
    | some v => simp
    | none => simp [hg]

theorem foldl_keep {α : Type} (g : Event → α) (hg : ∀ e a, g (applyAttr e a) = g e) (as : List Attr) (e : Event) :
    g (as.foldl applyAttr e) = g e := by
  induction as generalizing e with
  | nil => rfl
  | cons a t ih => simp only [List.foldl_cons]; rw [ih, hg]

theorem foldl_tags (as : List Attr) (e : Event) : (as.foldl applyAttr e).tags = e.tags ++ lineTags as := by
  induction as generalizing e with
  | nil => simp [lineTags]
  | cons a t ih =>
    simp only [List.foldl_cons]
    rw [ih]
    cases a <;> simp [applyAttr, lineTags, tagsOf] <;> split <;> simp

theorem foldl_prio (as : List Attr) (e : Event) :
    (as.foldl applyAttr e).prio = if Attr.prio 1 ∈ as then 1 else e.prio := by
  induction as generalizing e with
  | nil => simp
  | cons a t ih =>
    simp only [List.foldl_cons]
    rw [ih]
    by_cases ht : Attr.prio 1 ∈ t
    · simp [ht]
    · cases a with
      | prio p =>
        by_cases hp : p = 1
        · subst hp; simp [applyAttr, ht]
        · have hp' : ¬ (1 = p) := fun h => hp h.symm
          simp [applyAttr, ht, hp, hp']
      | alert a => by_cases ha : a = 0 <;> simp [applyAttr, ht, ha]
      | _ => simp [applyAttr, ht]

theorem mem_dedup (l : List Bytes) (t : Bytes) : t ∈ dedup l ↔ t ∈ l := by
  induction l with
  | nil => simp [dedup]
  | cons x xs ih =>
    simp only [dedup, List.mem_cons, List.mem_filter, ih]
    by_cases h : t = x <;> simp [h]

theorem nodup_dedup (l : List Bytes) : (dedup l).Nodup := by
  induction l with
  | nil => simp [dedup]
  | cons x xs ih =>
    simp only [dedup, List.nodup_cons, List.mem_filter]
    exact ⟨by simp, ih.filter _⟩

theorem mem_uniqueTags (a b : List Bytes) (t : Bytes) : t ∈ uniqueTags a b ↔ t ∈ a ∨ t ∈ b := by
  simp only [uniqueTags, List.mem_append, List.mem_filter, mem_dedup, Bool.not_eq_true', List.contains_eq_mem,
    decide_eq_false_iff_not]
  by_cases h : t ∈ a <;> simp [h]

theorem nodup_uniqueTags (a b : List Bytes) (hb : b.Nodup) : (uniqueTags a b).Nodup := by
  simp only [uniqueTags]
  rw [List.nodup_append]
  refine ⟨nodup_dedup a, hb.filter _, ?_⟩
  intro x hx y hy
  simp only [List.mem_filter, Bool.not_eq_true', List.contains_eq_mem, decide_eq_false_iff_not] at hy
  intro hxy
  subst hxy
  exact hy.2 hx

theorem nodup_static (static : List Bytes) : (uniqueTags static []).Nodup :=
  nodup_uniqueTags static [] List.nodup_nil

theorem mem_static (static : List Bytes) (t : Bytes) : t ∈ uniqueTags static [] ↔ t ∈ static := by
  simp [mem_uniqueTags]

/-! ## Part B: counters of the fan-out -/

theorem sum_set (l : List Nat) (i : Nat) (old new : Nat) (h : l[i]? = some old) :
    ((l.set i new).sum : Int) = (l.sum : Int) - old + new := by
  induction l generalizing i with
  | nil => simp at h
  | cons x xs ih =>
    cases i with
    | zero =>
      simp only [List.getElem?_cons_zero, Option.some.injEq] at h
      subst h
      simp only [List.set_cons_zero, List.sum_cons]
      omega
    | succ j =>
      simp only [List.getElem?_cons_succ] at h
      simp only [List.set_cons_succ, List.sum_cons]
      have := ih j h
      omega

theorem cnt_set (p : BSt → Bool) (bs : List BSt) (b : Nat) (old new : BSt) (h : bs[b]? = some old) :
    ((cnt p (bs.set b new) : Nat) : Int) = (cnt p bs : Int) - (if p old then 1 else 0) + (if p new then 1 else 0) := by
  unfold cnt
  rw [List.map_set]
  have h' : (bs.map (fun s => if p s then 1 else 0))[b]? = some (if p old then 1 else 0) := by
    simp [List.getElem?_map, h]
  have := sum_set _ b _ (if p new then 1 else 0) h'
  rw [this]
  split <;> split <;> simp

theorem total_set (f : Ev → Nat) (evs : List Ev) (e : Nat) (old new : Ev) (h : evs[e]? = some old) :
    ((total f (evs.set e new) : Nat) : Int) = (total f evs : Int) - f old + f new := by
  unfold total
  rw [List.map_set]
  exact sum_set _ e _ _ (by simp [List.getElem?_map, h])

theorem total_append (f : Ev → Nat) (evs : List Ev) (ev : Ev) : total f (evs ++ [ev]) = total f evs + f ev := by
  simp [total]

theorem sum_eq_zero (l : List Nat) (h : l.sum = 0) : ∀ x ∈ l, x = 0 := by
  induction l with
  | nil => simp
  | cons x xs ih =>
    simp only [List.sum_cons] at h
    intro y hy
    simp only [List.mem_cons] at hy
    rcases hy with rfl | hy
    · omega
    · exact ih (by omega) y hy

theorem total_eq_zero (f : Ev → Nat) (evs : List Ev) (h : total f evs = 0) : ∀ ev ∈ evs, f ev = 0 := by
  intro ev hev
  exact sum_eq_zero _ h _ (List.mem_map.mpr ⟨ev, hev, rfl⟩)

theorem cnt_replicate_idle (p : BSt → Bool) (hp : p .idle = false) (n : Nat) : cnt p (List.replicate n .idle) = 0 := by
  induction n with
  | zero => rfl
  | succ k ih => simp [cnt, List.replicate_succ, hp] at ih ⊢

theorem cnt_eq_zero (p : BSt → Bool) (bs : List BSt) (h : cnt p bs = 0) (b : Nat) (st : BSt) (hb : bs[b]? = some st) :
    p st = false := by
  have := sum_eq_zero _ h (if p st then 1 else 0) (List.mem_map.mpr ⟨st, List.mem_of_getElem? hb, rfl⟩)
  by_cases hp : p st <;> simp_all

/-- well-formedness of one event record -/
structure WFev (nb : Nat) (det : Bool) (ev : Ev) : Prop where
  len : ev.bs.length = nb
  cur : ev.cursor ≤ nb
  idle : ∀ b, ev.cursor ≤ b → b < nb → ev.bs[b]? = some .idle
  busy : ∀ b, b < ev.cursor → ∃ st, ev.bs[b]? = some st ∧ st ≠ .idle
  parked : ev.stage = .parked → ev.cursor = 0 ∧ ev.viaCloud = true ∧ ev.counted = false
  returned : ev.stage = .returned → ev.cursor = nb
  nodrop : det = true → ∀ b : Nat, ev.bs[b]? ≠ some BSt.dropped

theorem replicate_idle_ne_dropped (nb b : Nat) : (List.replicate nb BSt.idle)[b]? ≠ some .dropped := by
  by_cases hb : b < nb
  · simp [hb]
  · simp [hb]

theorem wf_freshHit (nb : Nat) (det : Bool) : WFev nb det (freshHit nb) :=
  ⟨by simp [freshHit], by simp [freshHit], by intro b _ hb; simp [freshHit, hb], by intro b hb; simp [freshHit] at hb,
   by simp [freshHit], by simp [freshHit], by intro _ b; exact replicate_idle_ne_dropped nb b⟩

theorem wf_freshMiss (nb : Nat) (det : Bool) : WFev nb det (freshMiss nb) :=
  ⟨by simp [freshMiss], by simp [freshMiss], by intro b _ hb; simp [freshMiss, hb], by intro b hb; simp [freshMiss] at hb,
   by simp [freshMiss], by simp [freshMiss], by intro _ b; exact replicate_idle_ne_dropped nb b⟩

theorem getElem?_setB (ev : Ev) (b b' : Nat) (s : BSt) :
    (setB ev b s).bs[b']? = if b = b' then (if b < ev.bs.length then some s else none) else ev.bs[b']? := by
  simp only [setB, List.getElem?_set]

/-- replacing the state of a spawned goroutine by another non-idle state -/
theorem setB_local (nb : Nat) (det : Bool) (ev : Ev) (b : Nat) (old new : BSt) (hb : ev.bs[b]? = some old)
    (hold : old ≠ .idle) (hnew : new ≠ .idle) (hnd : det = true → new ≠ .dropped) (wf : WFev nb det ev) :
    WFev nb det (setB ev b new) ∧
    ((pending nb (setB ev b new) : Nat) : Int) = pending nb ev - (if old.active then 1 else 0) + (if new.active then 1 else 0) ∧
    ((held (setB ev b new) : Nat) : Int) = held ev - (if old.holds then 1 else 0) + (if new.holds then 1 else 0) ∧
    parkedShare (setB ev b new) = parkedShare ev ∧
    (∀ b', dflag (setB ev b new) b' = if b = b' then (if new.delivered then 1 else 0) else dflag ev b') := by
  have hlt : b < ev.bs.length := by
    rcases Nat.lt_or_ge b ev.bs.length with h | h
    · exact h
    · rw [List.getElem?_eq_none_iff.mpr h] at hb; cases hb
  have hbc : b < ev.cursor := by
    rcases Nat.lt_or_ge b ev.cursor with h | h
    · exact h
    · have := wf.idle b h (by rw [← wf.len]; exact hlt)
      rw [this] at hb
      cases hb
      exact absurd rfl hold
  refine ⟨⟨?_, ?_, ?_, ?_, ?_, ?_, ?_⟩, ?_, ?_, ?_, ?_⟩
  · simp [setB, wf.len]
  · exact wf.cur
  · intro b' h1 h2
    rw [getElem?_setB]
    have : b ≠ b' := by simp only [setB] at h1; omega
    simp only [this, if_false]
    exact wf.idle b' h1 h2
  · intro b' h1
    rw [getElem?_setB]
    by_cases hbb : b = b'
    · simp only [hbb, if_true]
      subst hbb
      simp only [hlt, if_true]
      exact ⟨new, rfl, hnew⟩
    · simp only [hbb, if_false]
      exact wf.busy b' h1
  · exact wf.parked
  · exact wf.returned
  · intro hd b'
    rw [getElem?_setB]
    by_cases hbb : b = b'
    · simp only [hbb, if_true]
      split
      · intro h; cases h; exact hnd hd rfl
      · simp
    · simp only [hbb, if_false]
      exact wf.nodrop hd b'
  · unfold pending
    have := cnt_set BSt.active ev.bs b old new hb
    simp only [setB]
    omega
  · unfold held
    have := cnt_set BSt.holds ev.bs b old new hb
    simp only [setB]
    omega
  · rfl
  · intro b'
    unfold dflag
    rw [getElem?_setB]
    by_cases hbb : b = b'
    · simp [hbb]
      subst hbb
      simp [hlt]
    · simp [hbb]

theorem evStep_local (nb : Nat) (det : Bool) (ev ev' : Ev) (a : EvAct) (d : Delta) (h : evStep nb det ev a = some (ev', d))
    (wf : WFev nb det ev) :
    WFev nb det ev' ∧
    ((pending nb ev' : Nat) : Int) = pending nb ev + d.dwg ∧
    ((held ev' : Nat) : Int) = held ev + d.dsem ∧
    ((parkedShare ev' : Nat) : Int) = parkedShare ev + d.dcwg ∧
    (∀ b', dflag ev' b' = dflag ev b' + (if d.deliver = some b' then 1 else 0)) ∧
    (ev.stage ≠ .parked → ev'.stage ≠ .parked) := by
  cases a with
  | lookup =>
    simp only [evStep] at h
    split at h
    · rename_i hs
      simp only [Option.some.injEq, Prod.mk.injEq] at h
      obtain ⟨rfl, rfl⟩ := h
      obtain ⟨hc, hv, hcnt⟩ := wf.parked hs
      refine ⟨⟨wf.len, by simp, ?_, by intro b hb; simp at hb, by simp, by simp, wf.nodrop⟩, ?_, rfl, ?_, by intro b'; simp [dflag], by simp⟩
      · intro b h1 h2
        exact wf.idle b (by omega) h2
      · simp [pending, hs]; omega
      · simp [parkedShare, hv, hcnt]
    · cases h
  | abandon =>
    simp only [evStep] at h
    split at h
    · rename_i hs
      simp only [Option.some.injEq, Prod.mk.injEq] at h
      obtain ⟨rfl, rfl⟩ := h
      obtain ⟨hc, hv, hcnt⟩ := wf.parked hs
      refine ⟨⟨wf.len, by simp, ?_, by intro b hb; simp at hb, by simp, by simp, wf.nodrop⟩, ?_, rfl, ?_, by intro b'; simp [dflag], by simp⟩
      · intro b h1 h2
        exact wf.idle b (by omega) h2
      · simp [pending, hs]
      · simp [parkedShare, hv, hcnt]
    · cases h
  | acquire =>
    simp only [evStep] at h
    split at h
    · rename_i hg
      obtain ⟨hs, hc⟩ := hg
      simp only [Option.some.injEq, Prod.mk.injEq] at h
      obtain ⟨rfl, rfl⟩ := h
      have hidle := wf.idle ev.cursor (Nat.le_refl _) hc
      have hlt : ev.cursor < ev.bs.length := by rw [wf.len]; exact hc
      refine ⟨⟨by simp [setB, wf.len], by simp; omega, ?_, ?_, by simp [setB, hs], by simp [setB, hs], ?_⟩, ?_, ?_, ?_, ?_, by simp [setB, hs]⟩
      · intro b h1 h2
        simp only at h1
        show (setB ev ev.cursor .acquired).bs[b]? = _
        rw [getElem?_setB]
        have : ev.cursor ≠ b := by omega
        simp only [this, if_false]
        exact wf.idle b (by omega) h2
      · intro b h1
        simp only at h1
        show ∃ st, (setB ev ev.cursor .acquired).bs[b]? = some st ∧ _
        rw [getElem?_setB]
        by_cases hbb : ev.cursor = b
        · simp only [hbb, if_true]
          rw [← hbb]
          simp only [hlt, if_true]
          exact ⟨.acquired, rfl, by simp⟩
        · simp only [hbb, if_false]
          exact wf.busy b (by omega)
      · intro hd b'
        show (setB ev ev.cursor .acquired).bs[b']? ≠ _
        rw [getElem?_setB]
        by_cases hbb : ev.cursor = b'
        · simp only [hbb, if_true]
          split <;> simp
        · simp only [hbb, if_false]
          exact wf.nodrop hd b'
      · have c1 : ((cnt BSt.active (ev.bs.set ev.cursor .acquired) : Nat) : Int) = cnt BSt.active ev.bs + 1 := by
          have := cnt_set BSt.active ev.bs ev.cursor .idle .acquired hidle
          simpa [BSt.active] using this
        have e1 : pending nb { setB ev ev.cursor .acquired with cursor := ev.cursor + 1 } =
            (nb - (ev.cursor + 1)) + cnt BSt.active (ev.bs.set ev.cursor .acquired) := by
          simp [pending, setB, hs]
        have e2 : pending nb ev = (nb - ev.cursor) + cnt BSt.active ev.bs := by simp [pending, hs]
        rw [e1, e2]
        show _ = _ + (0 : Int)
        omega
      · have c1 : ((cnt BSt.holds (ev.bs.set ev.cursor .acquired) : Nat) : Int) = cnt BSt.holds ev.bs + 1 := by
          have := cnt_set BSt.holds ev.bs ev.cursor .idle .acquired hidle
          simpa [BSt.holds] using this
        show ((cnt BSt.holds (ev.bs.set ev.cursor .acquired) : Nat) : Int) = cnt BSt.holds ev.bs + (1 : Int)
        omega
      · show ((parkedShare ev : Nat) : Int) = parkedShare ev + (0 : Int)
        omega
      · intro b'
        simp only [Option.ite_none_right_eq_some, reduceCtorEq, if_false, Nat.add_zero]
        show dflag (setB ev ev.cursor .acquired) b' = _
        unfold dflag
        rw [getElem?_setB]
        by_cases hbb : ev.cursor = b'
        · subst hbb
          rw [hidle]
          simp [hlt, BSt.delivered]
        · simp [hbb]
    · cases h
  | cancel =>
    simp only [evStep] at h
    split at h
    · rename_i hg
      obtain ⟨hs, hc⟩ := hg
      simp only [Option.some.injEq, Prod.mk.injEq] at h
      obtain ⟨rfl, rfl⟩ := h
      refine ⟨⟨wf.len, wf.cur, wf.idle, wf.busy, by simp, by simp, wf.nodrop⟩, ?_, rfl, rfl, by intro b'; simp [dflag], by simp⟩
      simp only [pending, hs]
      omega
    · cases h
  | ret =>
    simp only [evStep] at h
    split at h
    · rename_i hg
      obtain ⟨hs, hc⟩ := hg
      simp only [Option.some.injEq, Prod.mk.injEq] at h
      obtain ⟨rfl, rfl⟩ := h
      refine ⟨⟨wf.len, wf.cur, wf.idle, wf.busy, by simp, by simp [hc], wf.nodrop⟩, ?_, rfl, rfl, by intro b'; simp [dflag], by simp⟩
      simp only [pending, hs]
      omega
    · cases h
  | cloudDone =>
    simp only [evStep] at h
    split at h
    · rename_i hg
      obtain ⟨hv, hcn, hs⟩ := hg
      simp only [Option.some.injEq, Prod.mk.injEq] at h
      obtain ⟨rfl, rfl⟩ := h
      refine ⟨⟨wf.len, wf.cur, wf.idle, wf.busy, ?_, wf.returned, wf.nodrop⟩, ?_, rfl, ?_, by intro b'; simp [dflag], by simp⟩
      · intro hp
        simp only at hp
        rcases hs with hs | hs <;> rw [hs] at hp <;> cases hp
      · simp [pending]
      · simp [parkedShare, hv, hcn]
    · cases h
  | start b =>
    simp only [evStep] at h
    split at h
    · rename_i hb
      simp only [Option.some.injEq, Prod.mk.injEq] at h
      obtain ⟨rfl, rfl⟩ := h
      obtain ⟨w, p, hh, c, dfl⟩ := setB_local nb det ev b .acquired .sending hb (by simp) (by simp) (by simp) wf
      refine ⟨w, ?_, ?_, ?_, ?_, by simp [setB]⟩
      · simp [BSt.active] at p; show _ = _ + (0 : Int); omega
      · simp [BSt.holds] at hh; show _ = _ + (0 : Int); omega
      · rw [c]; show _ = _ + (0 : Int); omega
      · intro b'
        rw [dfl b']
        by_cases hbb : b = b'
        · subst hbb
          simp [dflag, hb, BSt.delivered]
        · simp [hbb]
    · cases h
  | finish b =>
    simp only [evStep] at h
    split at h
    · rename_i hb
      simp only [Option.some.injEq, Prod.mk.injEq] at h
      obtain ⟨rfl, rfl⟩ := h
      obtain ⟨w, p, hh, c, dfl⟩ := setB_local nb det ev b .sending .sent hb (by simp) (by simp) (by simp) wf
      refine ⟨w, ?_, ?_, ?_, ?_, by simp [setB]⟩
      · simp [BSt.active] at p; show _ = _ + (0 : Int); omega
      · simp [BSt.holds] at hh; show _ = _ + (0 : Int); omega
      · rw [c]; show _ = _ + (0 : Int); omega
      · intro b'
        rw [dfl b']
        by_cases hbb : b = b'
        · subst hbb
          simp [dflag, hb, BSt.delivered]
        · simp [hbb]
    · cases h
  | release b =>
    simp only [evStep] at h
    split at h
    · rename_i hb
      simp only [Option.some.injEq, Prod.mk.injEq] at h
      obtain ⟨rfl, rfl⟩ := h
      obtain ⟨w, p, hh, c, dfl⟩ := setB_local nb det ev b .sent .released hb (by simp) (by simp) (by simp) wf
      refine ⟨w, ?_, ?_, ?_, ?_, by simp [setB]⟩
      · simp [BSt.active] at p; show _ = _ + (0 : Int); omega
      · simp [BSt.holds] at hh; show _ = _ + (-1 : Int); omega
      · rw [c]; show _ = _ + (0 : Int); omega
      · intro b'
        rw [dfl b']
        by_cases hbb : b = b'
        · subst hbb
          simp [dflag, hb, BSt.delivered]
        · simp [hbb]
    · cases h
  | done b =>
    simp only [evStep] at h
    split at h
    · rename_i hb
      simp only [Option.some.injEq, Prod.mk.injEq] at h
      obtain ⟨rfl, rfl⟩ := h
      obtain ⟨w, p, hh, c, dfl⟩ := setB_local nb det ev b .released .done hb (by simp) (by simp) (by simp) wf
      refine ⟨w, ?_, ?_, ?_, ?_, by simp [setB]⟩
      · simp [BSt.active] at p; show _ = _ + (-1 : Int); omega
      · simp [BSt.holds] at hh; show _ = _ + (0 : Int); omega
      · rw [c]; show _ = _ + (0 : Int); omega
      · intro b'
        rw [dfl b']
        by_cases hbb : b = b'
        · subst hbb
          simp [dflag, hb, BSt.delivered]
        · simp [hbb]
    · cases h
  | abort b =>
    simp only [evStep] at h
    split at h
    · rename_i hg
      obtain ⟨hdet, hb⟩ := hg
      simp only [Option.some.injEq, Prod.mk.injEq] at h
      obtain ⟨rfl, rfl⟩ := h
      obtain ⟨w, p, hh, c, dfl⟩ := setB_local nb det ev b .acquired .dropped hb (by simp) (by simp) (by intro h; rw [h] at hdet; cases hdet) wf
      refine ⟨w, ?_, ?_, ?_, ?_, by simp [setB]⟩
      · simp [BSt.active] at p; show _ = _ + (-1 : Int); omega
      · simp [BSt.holds] at hh; show _ = _ + (-1 : Int); omega
      · rw [c]; show _ = _ + (0 : Int); omega
      · intro b'
        rw [dfl b']
        by_cases hbb : b = b'
        · subst hbb
          simp [dflag, hb, BSt.delivered]
        · simp [hbb]
    · cases h

theorem evStep_dwg_nonpos (nb : Nat) (det : Bool) (ev ev' : Ev) (a : EvAct) (d : Delta) (h : evStep nb det ev a = some (ev', d))
    (hs : ev.stage ≠ .parked) : d.dwg ≤ 0 := by
  cases a with
  | lookup =>
    simp only [evStep] at h
    split at h
    · rename_i h1; exact absurd h1 hs
    · cases h
  | abandon =>
    simp only [evStep] at h
    split at h
    · rename_i h1; exact absurd h1 hs
    · cases h
  | cancel =>
    simp only [evStep] at h
    split at h
    · rename_i hg
      simp only [Option.some.injEq, Prod.mk.injEq] at h
      obtain ⟨_, rfl⟩ := h
      dsimp only
      omega
    · cases h
  | acquire | ret | cloudDone | start b | finish b | release b | done b | abort b =>
    simp only [evStep] at h
    split at h
    · simp only [Option.some.injEq, Prod.mk.injEq] at h
      obtain ⟨_, rfl⟩ := h
      dsimp only
      omega
    · cases h

/-- the global invariant -/
structure Inv (s : St) : Prop where
  wf : ∀ ev ∈ s.evs, WFev s.nb s.det ev
  wg : s.wg = total (pending s.nb) s.evs
  sem : s.sem = total held s.evs
  cap : s.sem ≤ s.cap
  cwg : s.cwg = total parkedShare s.evs
  dl : ∀ e b, countPair (e, b) s.dl = match s.evs[e]? with | some ev => dflag ev b | none => 0
  w1 : s.waiter ≠ .idle → s.waitFrom ≤ s.evs.length ∧
        ∀ e, e < s.waitFrom → ∃ ev, s.evs[e]? = some ev ∧ ev.stage ≠ .parked
  w2 : s.waiter = .returned → ∀ e, e < s.waitFrom → ∃ ev, s.evs[e]? = some ev ∧ pending s.nb ev = 0

theorem inv_init (nb cap : Nat) (det : Bool) : Inv (init nb cap det) :=
  ⟨by simp [init], by simp [init, total], by simp [init, total], by simp [init], by simp [init, total],
   by intro e b; simp [init, countPair], by simp [init], by simp [init]⟩

theorem step_params {s s' : St} {a : Act} (h : step s a = some s') : s'.nb = s.nb ∧ s'.cap = s.cap ∧ s'.det = s.det := by
  cases a with
  | arriveHit => simp only [step, Option.some.injEq] at h; subst h; exact ⟨rfl, rfl, rfl⟩
  | arriveMiss => simp only [step, Option.some.injEq] at h; subst h; exact ⟨rfl, rfl, rfl⟩
  | waitCloud =>
    simp only [step] at h
    split at h
    · simp only [Option.some.injEq] at h; subst h; exact ⟨rfl, rfl, rfl⟩
    · cases h
  | waitBackend =>
    simp only [step] at h
    split at h
    · simp only [Option.some.injEq] at h; subst h; exact ⟨rfl, rfl, rfl⟩
    · cases h
  | ev e a =>
    simp only [step] at h
    cases hev : s.evs[e]? with
    | none => simp [hev] at h
    | some ev =>
      simp only [hev] at h
      cases hst : evStep s.nb s.det ev a with
      | none => simp [hst] at h
      | some r =>
        obtain ⟨ev', d⟩ := r
        simp only [hst] at h
        split at h
        · simp only [Option.some.injEq] at h; subst h; exact ⟨rfl, rfl, rfl⟩
        · cases h

theorem getElem?_append_one (evs : List Ev) (x : Ev) (e : Nat) :
    (evs ++ [x])[e]? = if e < evs.length then evs[e]? else if e = evs.length then some x else none := by
  by_cases h : e < evs.length
  · simp [h, List.getElem?_append_left h]
  · simp only [h, if_false]
    rw [List.getElem?_append_right (by omega)]
    by_cases h2 : e = evs.length
    · simp [h2]
    · have : e - evs.length ≠ 0 := by omega
      simp [h2]
      omega

theorem dflag_fresh (nb b : Nat) (ev : Ev) (h : ev.bs = List.replicate nb .idle) : dflag ev b = 0 := by
  unfold dflag
  rw [h]
  by_cases hb : b < nb
  · simp [hb, BSt.delivered]
  · simp [hb]

theorem inv_arrive (s : St) (x : Ev) (hx : WFev s.nb s.det x) (hbs : x.bs = List.replicate s.nb .idle)
    (dwg dcwg : Nat) (hp : pending s.nb x = dwg) (hq : parkedShare x = dcwg)
    (hnp : s.waiter = .idle ∨ True) (inv : Inv s) :
    Inv { s with evs := s.evs ++ [x], wg := s.wg + dwg, cwg := s.cwg + dcwg } := by
  have hheld : held x = 0 := by simp [held, hbs, cnt_replicate_idle BSt.holds rfl]
  refine ⟨?_, ?_, ?_, inv.cap, ?_, ?_, ?_, ?_⟩
  · intro ev hev
    simp only [List.mem_append, List.mem_singleton] at hev
    rcases hev with hev | rfl
    · exact inv.wf ev hev
    · exact hx
  · show s.wg + (dwg : Int) = _
    rw [total_append, inv.wg, hp]; simp
  · show s.sem = _
    rw [total_append, inv.sem, hheld]; simp
  · show s.cwg + (dcwg : Int) = _
    rw [total_append, inv.cwg, hq]; simp
  · intro e b
    show countPair (e, b) s.dl = match (s.evs ++ [x])[e]? with | some ev => dflag ev b | none => 0
    rw [inv.dl e b, getElem?_append_one]
    by_cases h1 : e < s.evs.length
    · simp [h1]
    · simp only [h1, if_false]
      rw [List.getElem?_eq_none_iff.mpr (by omega)]
      by_cases h2 : e = s.evs.length
      · simp [h2, dflag_fresh s.nb b x hbs]
      · simp [h2]
  · intro hw
    obtain ⟨hle, hall⟩ := inv.w1 hw
    refine ⟨by simp only [List.length_append, List.length_singleton]; omega, ?_⟩
    intro e he
    have he : e < s.waitFrom := he
    obtain ⟨ev, h1, h2⟩ := hall e he
    exact ⟨ev, by show (s.evs ++ [x])[e]? = _; rw [List.getElem?_append_left (by omega)]; exact h1, h2⟩
  · intro hw e he
    have he : e < s.waitFrom := he
    have hw : s.waiter = .returned := hw
    have hidle : s.waiter ≠ .idle := by intro h; rw [h] at hw; cases hw
    obtain ⟨hle, _⟩ := inv.w1 hidle
    obtain ⟨ev, h1, h2⟩ := inv.w2 hw e he
    exact ⟨ev, by show (s.evs ++ [x])[e]? = _; rw [List.getElem?_append_left (by omega)]; exact h1, h2⟩

theorem pending_freshHit (nb : Nat) : pending nb (freshHit nb) = nb := by
  simp [pending, freshHit, cnt_replicate_idle BSt.active rfl]

theorem pending_freshMiss (nb : Nat) : pending nb (freshMiss nb) = 0 := by
  simp [pending, freshMiss, cnt_replicate_idle BSt.active rfl]

theorem inv_step {s s' : St} {a : Act} (inv : Inv s) (h : step s a = some s') : Inv s' := by
  cases a with
  | arriveHit =>
    simp only [step, Option.some.injEq] at h; subst h
    have := inv_arrive s (freshHit s.nb) (wf_freshHit _ _) rfl s.nb 0 (pending_freshHit _) (by simp [parkedShare, freshHit]) (Or.inr trivial) inv
    simpa using this
  | arriveMiss =>
    simp only [step, Option.some.injEq] at h; subst h
    have := inv_arrive s (freshMiss s.nb) (wf_freshMiss _ _) rfl 0 1 (pending_freshMiss _) (by simp [parkedShare, freshMiss]) (Or.inr trivial) inv
    simpa using this
  | waitCloud =>
    simp only [step] at h
    split at h
    case isFalse => cases h
    rename_i hg
    simp only [Option.some.injEq] at h; subst h
    refine ⟨inv.wf, inv.wg, inv.sem, inv.cap, inv.cwg, inv.dl, ?_, ?_⟩
    · intro _
      refine ⟨Nat.le_refl _, ?_⟩
      intro e he
      simp only at he
      have hlt : e < s.evs.length := he
      refine ⟨s.evs[e], List.getElem?_eq_getElem hlt, ?_⟩
      intro hp
      have hmem : s.evs[e] ∈ s.evs := List.getElem_mem hlt
      obtain ⟨_, hv, hc⟩ := (inv.wf _ hmem).parked hp
      have h0 : total parkedShare s.evs = 0 := by have := inv.cwg; rw [hg.2] at this; omega
      have := total_eq_zero _ _ h0 _ hmem
      simp [parkedShare, hv, hc] at this
    · intro hw; simp at hw
  | waitBackend =>
    simp only [step] at h
    split at h
    case isFalse => cases h
    rename_i hg
    simp only [Option.some.injEq] at h; subst h
    have hidle : s.waiter ≠ .idle := by rw [hg.1]; simp
    refine ⟨inv.wf, inv.wg, inv.sem, inv.cap, inv.cwg, inv.dl, ?_, ?_⟩
    · intro _; exact inv.w1 hidle
    · intro _ e he
      obtain ⟨hle, hall⟩ := inv.w1 hidle
      obtain ⟨ev, h1, _⟩ := hall e he
      have h0 : total (pending s.nb) s.evs = 0 := by have := inv.wg; rw [hg.2] at this; omega
      exact ⟨ev, h1, total_eq_zero _ _ h0 _ (List.mem_of_getElem? h1)⟩
  | ev e a =>
    simp only [step] at h
    cases hev : s.evs[e]? with
    | none => simp [hev] at h
    | some ev =>
      simp only [hev] at h
      cases hst : evStep s.nb s.det ev a with
      | none => simp [hst] at h
      | some r =>
        obtain ⟨ev', d⟩ := r
        simp only [hst] at h
        split at h
        case isFalse => cases h
        rename_i hg
        simp only [Option.some.injEq] at h; subst h
        have hmem : ev ∈ s.evs := List.mem_of_getElem? hev
        have helt : e < s.evs.length := by
          rcases Nat.lt_or_ge e s.evs.length with h | h
          · exact h
          · rw [List.getElem?_eq_none_iff.mpr h] at hev; cases hev
        obtain ⟨wf', hp, hh, hc, hd, hnp⟩ := evStep_local s.nb s.det ev ev' a d hst (inv.wf ev hmem)
        have hget : ∀ e₁, (s.evs.set e ev')[e₁]? = if e = e₁ then some ev' else s.evs[e₁]? := by
          intro e₁
          rw [List.getElem?_set]
          by_cases hee : e = e₁
          · subst hee; simp [helt]
          · simp [hee]
        refine ⟨?_, ?_, ?_, hg, ?_, ?_, ?_, ?_⟩
        · intro x hx
          rcases List.mem_or_eq_of_mem_set hx with hx | rfl
          · exact inv.wf x hx
          · exact wf'
        · show s.wg + d.dwg = _
          have := total_set (pending s.nb) s.evs e ev ev' hev
          rw [this, inv.wg]; omega
        · show s.sem + d.dsem = _
          have := total_set held s.evs e ev ev' hev
          rw [this, inv.sem]; omega
        · show s.cwg + d.dcwg = _
          have := total_set parkedShare s.evs e ev ev' hev
          rw [this, inv.cwg]; omega
        · intro e₁ b₁
          show countPair (e₁, b₁) (match d.deliver with | some b => s.dl ++ [(e, b)] | none => s.dl) =
            match (s.evs.set e ev')[e₁]? with | some ev => dflag ev b₁ | none => 0
          rw [hget e₁]
          have hold := inv.dl e₁ b₁
          by_cases hee : e = e₁
          · subst hee
            simp only [if_true]
            rw [hev] at hold
            simp only at hold
            rw [hd b₁]
            cases hdel : d.deliver with
            | none => simp [hold]
            | some b =>
              simp only [countPair, List.count_append, List.count_singleton] at hold ⊢
              by_cases hbb : b = b₁
              · simp [hbb, hold]
              · have : ¬ (b₁ = b) := fun h => hbb h.symm
                simp [hbb, this, hold]
          · simp only [hee, if_false]
            cases hdel : d.deliver with
            | none => exact hold
            | some b =>
              simp only [countPair, List.count_append, List.count_singleton] at hold ⊢
              have : ¬ ((e₁, b₁) = (e, b)) := by
                intro h; injection h with h1 h2; exact hee h1.symm
              simp [hold]
              intro h1; exact absurd h1 hee
        · intro hw
          obtain ⟨hle, hall⟩ := inv.w1 hw
          refine ⟨by show s.waitFrom ≤ (s.evs.set e ev').length; simpa using hle, ?_⟩
          intro e₁ he₁
          obtain ⟨x, h1, h2⟩ := hall e₁ he₁
          show ∃ ev, (s.evs.set e ev')[e₁]? = some ev ∧ _
          rw [hget e₁]
          by_cases hee : e = e₁
          · subst hee
            rw [hev] at h1; cases h1
            exact ⟨ev', by simp, hnp h2⟩
          · exact ⟨x, by simp [hee, h1], h2⟩
        · intro hw e₁ he₁
          have hidle : s.waiter ≠ .idle := by intro h; rw [h] at hw; cases hw
          obtain ⟨hle, hall⟩ := inv.w1 hidle
          obtain ⟨x, h1, h2⟩ := inv.w2 hw e₁ he₁
          show ∃ ev, (s.evs.set e ev')[e₁]? = some ev ∧ _
          rw [hget e₁]
          by_cases hee : e = e₁
          · subst hee
            rw [hev] at h1; cases h1
            obtain ⟨y, hy1, hy2⟩ := hall e he₁
            rw [hev] at hy1; cases hy1
            have hneg := evStep_dwg_nonpos s.nb s.det ev ev' a d hst hy2
            refine ⟨ev', by simp, ?_⟩
            show pending s.nb ev' = 0
            omega
          · exact ⟨x, by simp [hee, h1], h2⟩

theorem run_params {s s' : St} {acts : List Act} (h : run s acts = some s') : s'.nb = s.nb ∧ s'.cap = s.cap ∧ s'.det = s.det := by
  induction acts generalizing s with
  | nil => simp only [run, Option.some.injEq] at h; subst h; exact ⟨rfl, rfl, rfl⟩
  | cons a t ih =>
    simp only [run] at h
    cases hs : step s a with
    | none => simp [hs] at h
    | some s₁ =>
      simp only [hs] at h
      obtain ⟨h1, h2, h5⟩ := ih h
      obtain ⟨h3, h4, h6⟩ := step_params hs
      exact ⟨h1.trans h3, h2.trans h4, h5.trans h6⟩

theorem inv_run {s s' : St} {acts : List Act} (inv : Inv s) (h : run s acts = some s') : Inv s' := by
  induction acts generalizing s with
  | nil => simp only [run, Option.some.injEq] at h; subst h; exact inv
  | cons a t ih =>
    simp only [run] at h
    cases hs : step s a with
    | none => simp [hs] at h
    | some s₁ =>
      simp only [hs] at h
      exact ih (inv_step inv hs) h

/-- `s` is reachable by some interleaving of senders, lookups, deliveries and the waiter -/
def Reachable (nb cap : Nat) (det : Bool) (s : St) : Prop := ∃ acts, run (init nb cap det) acts = some s

theorem reachable_inv {nb cap : Nat} {det : Bool} {s : St} (h : Reachable nb cap det s) :
    Inv s ∧ s.nb = nb ∧ s.cap = cap ∧ s.det = det := by
  obtain ⟨acts, h⟩ := h
  exact ⟨inv_run (inv_init nb cap det) h, run_params h⟩

end Gsd.Events
