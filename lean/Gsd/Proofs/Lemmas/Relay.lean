import Gsd.Proofs.Lemmas.Backends
/-! Lemmas for the relay round trip: the lexer model applied to what `relayBody` writes. -/
set_option linter.unusedSimpArgs false
set_option linter.unusedVariables false
namespace Gsd.Backends

theorem isNameChar_ne {ch : Char} (h : isNameChar ch = true) : ch ≠ ':' ∧ ch ≠ '/' ∧ ch ≠ ' ' ∧ ch ≠ '\t' := by
  refine ⟨?_, ?_, ?_, ?_⟩ <;> (intro e; subst e; revert h; decide)

/-- `lexKeySep` on a name over `[A-Za-z0-9_.-]` followed by `:` -/
theorem lexName_name (name rest : Line) (h : ∀ ch ∈ name, isNameChar ch = true) :
    lexName (name ++ ':' :: rest) = some (name, rest) := by
  induction name with
  | nil => simp [lexName]
  | cons ch t ih =>
    have hch := h ch (by simp)
    obtain ⟨h1, h2, h3, h4⟩ := isNameChar_ne hch
    have iht := ih (fun c hc => h c (by simp [hc]))
    simp only [List.cons_append, lexName, h1, if_false, iht, h2, h3, h4, hch, if_true, Bool.or_self, decide_false,
      Bool.false_eq_true]

theorem untilCh_stop (stop : Char) (v rest : Line) (h : ∀ ch ∈ v, ch ≠ stop) :
    untilCh stop (v ++ stop :: rest) = (v, some rest) := by
  induction v with
  | nil => simp [untilCh]
  | cons ch t ih =>
    have := h ch (by simp)
    simp [untilCh, this, ih (fun c hc => h c (by simp [hc]))]

theorem untilCh_end (stop : Char) (v : Line) (h : ∀ ch ∈ v, ch ≠ stop) : untilCh stop v = (v, none) := by
  induction v with
  | nil => simp [untilCh]
  | cons ch t ih =>
    have := h ch (by simp)
    simp [untilCh, this, ih (fun c hc => h c (by simp [hc]))]

/-- reading one tag: characters other than `,` and `|` are accumulated -/
theorem lexTags_tag (a cur rest : Line) (h : ∀ ch ∈ a, ch ≠ ',' ∧ ch ≠ '|') :
    lexTags cur (a ++ rest) = lexTags (a.reverse ++ cur) rest := by
  induction a generalizing cur with
  | nil => simp
  | cons ch t ih =>
    obtain ⟨h1, h2⟩ := h ch (by simp)
    simp only [List.cons_append, lexTags, h1, h2, if_false]
    rw [ih (ch :: cur) (fun c hc => h c (by simp [hc]))]
    simp

def NoSep (a : Line) : Prop := ∀ ch ∈ a, ch ≠ ',' ∧ ch ≠ '|'

theorem lexTags_nil_comma (cur rest : Line) :
    lexTags cur (',' :: rest) = ((if cur = [] then (lexTags [] rest).1 else cur.reverse :: (lexTags [] rest).1), (lexTags [] rest).2) := by
  simp [lexTags]

/-- the lexer's tag loop on `tag₁,tag₂,…,tagₙ,rest` -/
theorem lexTags_join_comma (tags : List Line) (rest : Line) (h : ∀ a ∈ tags, NoSep a) :
    lexTags [] (joinCommaL tags ++ ',' :: rest) =
      (tags.filter (fun a => a ≠ []) ++ (lexTags [] rest).1, (lexTags [] rest).2) := by
  induction tags with
  | nil => simp [joinCommaL, lexTags]
  | cons a t ih =>
    have ha := h a (by simp)
    cases t with
    | nil =>
      simp only [joinCommaL]
      rw [lexTags_tag a [] _ ha, lexTags_nil_comma]
      by_cases e : a = [] <;> simp [e]
    | cons b t' =>
      have iht := ih (fun x hx => h x (by simp [hx]))
      simp only [joinCommaL, List.append_assoc, List.cons_append]
      rw [lexTags_tag a [] _ ha, lexTags_nil_comma, iht]
      by_cases e : a = [] <;> simp [e]

theorem lexTags_join_end (tags : List Line) (h : ∀ a ∈ tags, NoSep a) :
    lexTags [] (joinCommaL tags) = (tags.filter (fun a => a ≠ []), none) := by
  induction tags with
  | nil => simp [joinCommaL, lexTags]
  | cons a t ih =>
    have ha := h a (by simp)
    cases t with
    | nil =>
      simp only [joinCommaL]
      have := lexTags_tag a [] [] ha
      simp only [List.append_nil] at this
      rw [this]
      by_cases e : a = [] <;> simp [e, lexTags]
    | cons b t' =>
      have iht := ih (fun x hx => h x (by simp [hx]))
      simp only [joinCommaL]
      rw [lexTags_tag a [] _ ha, lexTags_nil_comma, iht]
      by_cases e : a = [] <;> simp [e]

/-- what gostatsd's lexer reads from `|#<FormatTagsKey(source, tags)>`: the non-empty tags and the source as `s:` tag -/
theorem lexTags_tagsKeyOf (tags : List Line) (source : Line) (h : ∀ a ∈ tags, NoSep a) (hs : NoSep source) :
    lexTags [] (tagsKeyOf tags source) =
      (tags.filter (fun a => a ≠ []) ++ (if source = [] then [] else ['s' :: ':' :: source]), none) := by
  unfold tagsKeyOf
  by_cases e : source = []
  · simp [e, lexTags_join_end tags h]
  · simp only [e, if_false]
    rw [lexTags_join_comma tags _ h]
    have hs' : NoSep ('s' :: ':' :: source) := by
      intro ch hch
      simp only [List.mem_cons] at hch
      rcases hch with rfl | rfl | hch
      · decide
      · decide
      · exact hs ch hch
    have := lexTags_tag ('s' :: ':' :: source) [] [] hs'
    simp only [List.append_nil] at this
    rw [this]
    simp [lexTags]

def tyText : MType → Line
  | .c => ['c'] | .g => ['g'] | .ms => ['m', 's'] | .s => ['s']

theorem lexTypeAttrs_plain (name value : Line) (t : MType) :
    lexTypeAttrs name value (tyText t) = some { name, value, ty := t, tags := [] } := by
  cases t <;> rfl

theorem lexTypeAttrs_tags (name value tagsKey : Line) (t : MType) (h : ∀ ch ∈ tagsKey, ch ≠ '|') :
    lexTypeAttrs name value (tyText t ++ '|' :: '#' :: tagsKey) =
      some { name, value, ty := t, tags := (lexTags [] tagsKey).1 } := by
  have hnone : ∀ (cur l : Line), (∀ ch ∈ l, ch ≠ '|') → (lexTags cur l).2 = none := by
    intro cur l
    induction l generalizing cur with
    | nil => intro _; simp [lexTags]
    | cons ch r ih =>
      intro hl
      have h1 := hl ch (by simp)
      have ihr := fun cur => ih cur (fun c hc => hl c (by simp [hc]))
      by_cases e : ch = ','
      · simp [lexTags, e, ihr]
      · simp [lexTags, e, h1, ihr]
  have h2 := hnone [] tagsKey h
  cases t <;> simp [tyText, lexTypeAttrs, lexTypeAttrs.after, lexAttrs, h2]

/-- **one relay line round-trips**: gostatsd's lexer reads back the name, the value text, the type and the
tag list of what `writeLine` wrote. -/
theorem parseLine_relayBody (noTags : Bool) (name value tagsKey : Line) (t : MType)
    (hne : name ≠ []) (hname : ∀ ch ∈ name, isNameChar ch = true)
    (hvalue : ∀ ch ∈ value, ch ≠ '|') (htags : ∀ ch ∈ tagsKey, ch ≠ '|') :
    parseLine (relayBody noTags name value (tyText t) tagsKey) =
      some { name, value, ty := t, tags := if tagsKey = [] || noTags then [] else (lexTags [] tagsKey).1 } := by
  unfold parseLine relayBody
  rw [lexName_name name _ hname]
  simp only [hne, if_false]
  rw [untilCh_stop '|' value _ hvalue]
  simp only
  by_cases e : (tagsKey = [] || noTags) = true
  · simp only [e, if_true, List.append_nil]
    exact lexTypeAttrs_plain name value t
  · simp only [e, if_false]
    exact lexTypeAttrs_tags name value tagsKey t htags

/-- every relay line is non-empty (it ends in a newline) -/
theorem relayLine_pos (c : Cfg) (view : List Series) : ∀ l ∈ relayAll c view, 0 < l.length := by
  intro l hl
  unfold relayAll at hl
  simp only [List.mem_flatMap, List.mem_filter] at hl
  obtain ⟨k, _, s, _, hl⟩ := hl
  unfold relayLines at hl
  have key : ∀ a b d e f, 0 < (relayLine a b d e f).length := by intros; simp [relayLine]
  split at hl
  · split at hl
    · simp at hl
    · simp at hl; subst hl; exact key ..
  · simp only [List.mem_map] at hl; obtain ⟨v, _, rfl⟩ := hl; exact key ..
  · simp at hl; subst hl; exact key ..
  · simp only [List.mem_map] at hl; obtain ⟨v, _, rfl⟩ := hl; exact key ..


theorem dropLast_relayLine (a : Bool) (n v t k : Line) : (relayLine a n v t k).dropLast = relayBody a n v t k := by
  simp [relayLine]


end Gsd.Backends
