import Gsd.Model.Forward
import Gsd.Proofs.Lemmas.AList
/-! Helper lemmas for C15 (core-only): the consolidator transition system, grouping by a key function. -/
set_option linter.unusedSimpArgs false
set_option linter.unusedSectionVars false
namespace Gsd

/-! ### removeNth -/

theorem removeNth_sum {β : Type} (f : β → Nat) (l : List β) (i : Nat) (x : β) (r : List β)
    (h : removeNth l i = some (x, r)) : (l.map f).sum = f x + (r.map f).sum := by
  induction l generalizing i x r with
  | nil => simp [removeNth] at h
  | cons y t ih =>
    cases i with
    | zero => simp [removeNth] at h; obtain ⟨rfl, rfl⟩ := h; simp
    | succ i =>
      simp only [removeNth] at h
      cases hq : removeNth t i with
      | none => simp [hq] at h
      | some p =>
        obtain ⟨z, r'⟩ := p
        simp only [hq, Option.some.injEq, Prod.mk.injEq] at h
        obtain ⟨rfl, rfl⟩ := h
        have := ih i z r' hq
        simp only [List.map_cons, List.sum_cons, this]; omega

theorem removeNth_mem {β : Type} (l : List β) (i : Nat) (x : β) (r : List β)
    (h : removeNth l i = some (x, r)) (y : β) : y ∈ l ↔ y = x ∨ y ∈ r := by
  induction l generalizing i x r with
  | nil => simp [removeNth] at h
  | cons z t ih =>
    cases i with
    | zero => simp [removeNth] at h; obtain ⟨rfl, rfl⟩ := h; simp
    | succ i =>
      simp only [removeNth] at h
      cases hq : removeNth t i with
      | none => simp [hq] at h
      | some p =>
        obtain ⟨w, r'⟩ := p
        simp only [hq, Option.some.injEq, Prod.mk.injEq] at h
        obtain ⟨rfl, rfl⟩ := h
        have := ih i w r' hq
        simp only [List.mem_cons, this]
        constructor
        · rintro (h | h | h) <;> simp [h]
        · rintro (h | h | h) <;> simp [h]

theorem removeNth_length {β : Type} (l : List β) (i : Nat) (x : β) (r : List β)
    (h : removeNth l i = some (x, r)) : l.length = r.length + 1 := by
  induction l generalizing i x r with
  | nil => simp [removeNth] at h
  | cons y t ih =>
    cases i with
    | zero => simp [removeNth] at h; obtain ⟨rfl, rfl⟩ := h; simp
    | succ i =>
      simp only [removeNth] at h
      cases hq : removeNth t i with
      | none => simp [hq] at h
      | some p =>
        obtain ⟨z, r'⟩ := p
        simp only [hq, Option.some.injEq, Prod.mk.injEq] at h
        obtain ⟨rfl, rfl⟩ := h
        have := ih i z r' hq
        simp [this]

theorem removeNth_nil {β : Type} (i : Nat) : removeNth ([] : List β) i = none := rfl

/-! ### occurrences -/

theorem occLL_eq_sum (d : Nat) (l : List (List Nat)) : occLL d l = (l.map (List.count d)).sum := by
  induction l with
  | nil => rfl
  | cons x t ih => simp [occLL, ih]

theorem occLL_append (d : Nat) (a b : List (List Nat)) : occLL d (a ++ b) = occLL d a + occLL d b := by
  simp [occLL_eq_sum, List.map_append, List.sum_append]

theorem occLL_replicate_nil (d k : Nat) : occLL d (List.replicate k []) = 0 := by
  induction k with
  | zero => rfl
  | succ n ih => simp [List.replicate_succ, occLL, ih]

theorem occLL_flatten (d : Nat) (l : List (List Nat)) : l.flatten.count d = occLL d l := by
  induction l with
  | nil => rfl
  | cons x t ih => simp [occLL, List.count_append, ih]

theorem occLL_removeNth (d : Nat) (l : List (List Nat)) (i : Nat) (x : List Nat) (r : List (List Nat))
    (h : removeNth l i = some (x, r)) : occLL d l = x.count d + occLL d r := by
  rw [occLL_eq_sum, occLL_eq_sum]; exact removeNth_sum _ l i x r h

theorem mem_flatten_iff_occ (d : Nat) (l : List (List Nat)) : d ∈ l.flatten ↔ 0 < occLL d l := by
  rw [← occLL_flatten]; exact List.count_pos_iff.symm

theorem count_fst_eq_sum (d : Nat) (h : List (Nat × List Nat)) :
    (h.map Prod.fst).count d = (h.map (fun p => if p.1 = d then 1 else 0)).sum := by
  induction h with
  | nil => rfl
  | cons p t ih =>
    simp only [List.map_cons, List.count_cons, ih, List.sum_cons]
    by_cases hp : p.1 = d <;> simp [hp] <;> omega

theorem occLL_snd_eq_sum (d : Nat) (h : List (Nat × List Nat)) :
    occLL d (h.map Prod.snd) = (h.map (fun p => p.2.count d)).sum := by
  simp [occLL_eq_sum, List.map_map, Function.comp_def]

theorem flatten_replicate_nil {β : Type} (k : Nat) : (List.replicate k ([] : List β)).flatten = [] := by
  induction k with
  | zero => rfl
  | succ n ih => simp [List.replicate_succ, ih]

/-! ### invariants of the consolidator system -/

structure CInv (s : CS) : Prop where
  cnt_fill : s.needFill = true → s.chan = [] ∧ s.held = [] ∧ s.got = []
  cnt : s.needFill = false → s.chan.length + s.held.length + s.got.length = s.k
  once : ∀ d, s.occ d = if d < s.next then 1 else 0
  loglen : s.log.length = s.next
  logDone : ∀ (j d : Nat), d ∈ s.flushes[j]?.getD [] → s.log[d]? = some j
  logPend : ∀ (d : Nat), s.pending d → s.log[d]? = some s.flushes.length

theorem cinv_init (k : Nat) : CInv (cinit k) where
  cnt_fill := by simp [cinit]
  cnt := by simp [cinit]
  once := by intro d; simp [cinit, CS.occ, occLL_replicate_nil, occLL]
  loglen := rfl
  logDone := by intro j d h; simp [cinit] at h
  logPend := by
    intro d h
    simp [cinit, CS.pending, flatten_replicate_nil] at h


theorem getElem?_append_some {β : Type} (l x : List β) (d : Nat) (v : β) (h : l[d]? = some v) : (l ++ x)[d]? = some v := by
  have hlt : d < l.length := by
    by_cases hd : d < l.length
    · exact hd
    · rw [List.getElem?_eq_none (by omega)] at h; cases h
  rw [List.getElem?_append_left hlt]; exact h

theorem mem_snd_flatten_removeNth (held rest : List (Nat × List Nat)) (j d0 : Nat) (slot : List Nat)
    (h : removeNth held j = some ((d0, slot), rest)) (d : Nat) :
    d ∈ (held.map Prod.snd).flatten ↔ d ∈ slot ∨ d ∈ (rest.map Prod.snd).flatten := by
  simp only [List.mem_flatten, List.mem_map]
  constructor
  · rintro ⟨l, ⟨p, hp, rfl⟩, hd⟩
    rcases (removeNth_mem held j _ rest h p).mp hp with rfl | hp'
    · exact Or.inl hd
    · exact Or.inr ⟨p.2, ⟨p, hp', rfl⟩, hd⟩
  · rintro (hd | ⟨l, ⟨p, hp, rfl⟩, hd⟩)
    · exact ⟨slot, ⟨(d0, slot), (removeNth_mem held j _ rest h _).mpr (Or.inl rfl), rfl⟩, hd⟩
    · exact ⟨p.2, ⟨p, (removeNth_mem held j _ rest h _).mpr (Or.inr hp), rfl⟩, hd⟩

theorem mem_fst_removeNth (held rest : List (Nat × List Nat)) (j d0 : Nat) (slot : List Nat)
    (h : removeNth held j = some ((d0, slot), rest)) (d : Nat) :
    d ∈ held.map Prod.fst ↔ d = d0 ∨ d ∈ rest.map Prod.fst := by
  simp only [List.mem_map]
  constructor
  · rintro ⟨p, hp, rfl⟩
    rcases (removeNth_mem held j _ rest h p).mp hp with rfl | hp'
    · exact Or.inl rfl
    · exact Or.inr ⟨p, hp', rfl⟩
  · rintro (rfl | ⟨p, hp, rfl⟩)
    · exact ⟨(d, slot), (removeNth_mem held j _ rest h _).mpr (Or.inl rfl), rfl⟩
    · exact ⟨p, (removeNth_mem held j _ rest h _).mpr (Or.inr hp), rfl⟩

theorem mem_flatten_removeNth (chan rest : List (List Nat)) (i : Nat) (slot : List Nat)
    (h : removeNth chan i = some (slot, rest)) (d : Nat) :
    d ∈ chan.flatten ↔ d ∈ slot ∨ d ∈ rest.flatten := by
  simp only [List.mem_flatten]
  constructor
  · rintro ⟨l, hl, hd⟩
    rcases (removeNth_mem chan i _ rest h l).mp hl with rfl | hl'
    · exact Or.inl hd
    · exact Or.inr ⟨l, hl', hd⟩
  · rintro (hd | ⟨l, hl, hd⟩)
    · exact ⟨slot, (removeNth_mem chan i _ rest h _).mpr (Or.inl rfl), hd⟩
    · exact ⟨l, (removeNth_mem chan i _ rest h _).mpr (Or.inr hl), hd⟩

theorem cinv_take (s : CS) (hs : CInv s) (i : Nat) (slot : List Nat) (rest : List (List Nat))
    (h : removeNth s.chan i = some (slot, rest)) :
    CInv { s with chan := rest, held := s.held ++ [(s.next, slot)], next := s.next + 1, log := s.log ++ [s.flushes.length] } where
  cnt_fill := by
    intro hf
    have := (hs.cnt_fill hf).1
    rw [this] at h; simp [removeNth] at h
  cnt := by
    intro hf
    have := hs.cnt hf
    have hl := removeNth_length _ _ _ _ h
    simp only [List.length_append, List.length_cons, List.length_nil]
    simp only at hf this
    omega
  once := by
    intro d
    have ho := hs.once d
    have hc := occLL_removeNth d _ _ _ _ h
    simp only [CS.occ, List.map_append, List.map_cons, List.map_nil, occLL_append, occLL, List.count_append,
      List.count_cons, List.count_nil] at ho ⊢
    by_cases hd : s.next = d
    · subst hd
      rw [if_neg (Nat.lt_irrefl _)] at ho
      rw [if_pos (Nat.lt_succ_self _)]
      simp only [beq_self_eq_true, if_true]
      omega
    · have hb : (s.next == d) = false := by simp [hd]
      simp only [hb, Bool.false_eq_true, if_false]
      by_cases hlt : d < s.next
      · rw [if_pos hlt] at ho; rw [if_pos (by omega)]; omega
      · rw [if_neg hlt] at ho; rw [if_neg (by omega)]; omega
  loglen := by simp [hs.loglen]
  logDone := by
    intro j d hd
    exact getElem?_append_some _ _ _ _ (hs.logDone j d hd)
  logPend := by
    intro d hp
    simp only [CS.pending, List.map_append, List.map_cons, List.map_nil, List.flatten_append, List.mem_append,
      List.flatten_cons, List.flatten_nil, List.append_nil, List.mem_cons, List.not_mem_nil, or_false] at hp
    have old : s.pending d → (s.log ++ [s.flushes.length])[d]? = some s.flushes.length :=
      fun hp' => getElem?_append_some _ _ _ _ (hs.logPend d hp')
    rcases hp with hp | hp | (hp | hp) | (hp | hp)
    · exact old (Or.inl hp)
    · exact old (Or.inr (Or.inl ((mem_flatten_removeNth _ _ _ _ h d).mpr (Or.inr hp))))
    · exact old (Or.inr (Or.inr (Or.inl hp)))
    · exact old (Or.inr (Or.inl ((mem_flatten_removeNth _ _ _ _ h d).mpr (Or.inl hp))))
    · exact old (Or.inr (Or.inr (Or.inr hp)))
    · subst hp
      rw [List.getElem?_append_right (by rw [hs.loglen]; exact Nat.le_refl _)]
      simp [hs.loglen]

theorem cinv_put (s : CS) (hs : CInv s) (j d0 : Nat) (slot : List Nat) (rest : List (Nat × List Nat))
    (h : removeNth s.held j = some ((d0, slot), rest)) :
    CInv { s with held := rest, chan := s.chan ++ [slot ++ [d0]] } where
  cnt_fill := by
    intro hf
    have := (hs.cnt_fill hf).2.1
    rw [this] at h; simp [removeNth] at h
  cnt := by
    intro hf
    have := hs.cnt hf
    have hl := removeNth_length _ _ _ _ h
    simp only [List.length_append, List.length_cons, List.length_nil]
    simp only at hf this
    omega
  once := by
    intro d
    have ho := hs.once d
    have h1 := removeNth_sum (fun p => p.2.count d) _ _ _ _ h
    have h2 := removeNth_sum (fun p => if p.1 = d then 1 else 0) _ _ _ _ h
    simp only [CS.occ, occLL_append, occLL, List.count_append, List.count_cons, List.count_nil,
      occLL_snd_eq_sum, count_fst_eq_sum] at ho ⊢
    simp only at h1 h2
    rw [h1, h2] at ho
    by_cases hd : d0 = d
    · subst hd
      simp only [beq_self_eq_true, if_true] at ho ⊢
      omega
    · have hb : (d0 == d) = false := by simp [hd]
      simp only [hb, hd, Bool.false_eq_true, if_false] at ho ⊢
      omega
  loglen := hs.loglen
  logDone := hs.logDone
  logPend := by
    intro d hp
    apply hs.logPend d
    simp only [CS.pending, List.flatten_append, List.mem_append, List.flatten_cons, List.flatten_nil, List.append_nil,
      List.mem_cons, List.not_mem_nil, or_false] at hp
    rcases hp with hp | (hp | hp | hp) | hp | hp
    · exact Or.inl hp
    · exact Or.inr (Or.inl hp)
    · exact Or.inr (Or.inr (Or.inl ((mem_snd_flatten_removeNth _ _ _ _ _ h d).mpr (Or.inl hp))))
    · exact Or.inr (Or.inr (Or.inr ((mem_fst_removeNth _ _ _ _ _ h d).mpr (Or.inl hp))))
    · exact Or.inr (Or.inr (Or.inl ((mem_snd_flatten_removeNth _ _ _ _ _ h d).mpr (Or.inr hp))))
    · exact Or.inr (Or.inr (Or.inr ((mem_fst_removeNth _ _ _ _ _ h d).mpr (Or.inr hp))))

theorem cinv_drainOne (s : CS) (hs : CInv s) (hf : s.needFill = false) (i : Nat) (slot : List Nat) (rest : List (List Nat))
    (h : removeNth s.chan i = some (slot, rest)) :
    CInv { s with chan := rest, got := s.got ++ [slot] } where
  cnt_fill := by intro hf'; simp only at hf'; rw [hf] at hf'; cases hf'
  cnt := by
    intro _
    have := hs.cnt hf
    have hl := removeNth_length _ _ _ _ h
    simp only [List.length_append, List.length_cons, List.length_nil]
    omega
  once := by
    intro d
    have ho := hs.once d
    have hc := occLL_removeNth d _ _ _ _ h
    simp only [CS.occ, occLL_append, occLL] at ho ⊢
    omega
  loglen := hs.loglen
  logDone := hs.logDone
  logPend := by
    intro d hp
    apply hs.logPend d
    simp only [CS.pending, List.flatten_append, List.mem_append, List.flatten_cons, List.flatten_nil, List.append_nil] at hp
    rcases hp with (hp | hp) | hp | hp | hp
    · exact Or.inl hp
    · exact Or.inr (Or.inl ((mem_flatten_removeNth _ _ _ _ h d).mpr (Or.inl hp)))
    · exact Or.inr (Or.inl ((mem_flatten_removeNth _ _ _ _ h d).mpr (Or.inr hp)))
    · exact Or.inr (Or.inr (Or.inl hp))
    · exact Or.inr (Or.inr (Or.inr hp))

theorem cinv_send (s : CS) (hs : CInv s) (hf : s.needFill = false) (hk : s.got.length = s.k) :
    CInv { s with flushes := s.flushes ++ [s.got.flatten], got := [], needFill := true } where
  cnt_fill := by
    intro _
    have := hs.cnt hf
    have h1 : s.chan.length = 0 := by omega
    have h2 : s.held.length = 0 := by omega
    exact ⟨List.eq_nil_of_length_eq_zero h1, List.eq_nil_of_length_eq_zero h2, rfl⟩
  cnt := by intro h; cases h
  once := by
    intro d
    have ho := hs.once d
    simp only [CS.occ, occLL_append, occLL, occLL_flatten] at ho ⊢
    omega
  loglen := hs.loglen
  logDone := by
    intro j d hd
    simp only at hd
    by_cases hj : j < s.flushes.length
    · rw [List.getElem?_append_left hj] at hd
      exact hs.logDone j d hd
    · by_cases hj' : j = s.flushes.length
      · subst hj'
        rw [List.getElem?_append_right (Nat.le_refl _)] at hd
        simp at hd
        exact hs.logPend d (Or.inl (by simpa using hd))
      · rw [List.getElem?_eq_none (by simp; omega)] at hd
        simp at hd
  logPend := by
    intro d hp
    have := hs.cnt hf
    have h1 : s.chan = [] := List.eq_nil_of_length_eq_zero (by omega)
    have h2 : s.held = [] := List.eq_nil_of_length_eq_zero (by omega)
    simp [CS.pending, h1, h2] at hp

theorem cinv_fill (s : CS) (hs : CInv s) (hf : s.needFill = true) :
    CInv { s with chan := s.chan ++ List.replicate s.k [], needFill := false } where
  cnt_fill := by intro h; cases h
  cnt := by
    intro _
    obtain ⟨h1, h2, h3⟩ := hs.cnt_fill hf
    simp [h1, h2, h3]
  once := by
    intro d
    have ho := hs.once d
    simp only [CS.occ, occLL_append, occLL_replicate_nil] at ho ⊢
    omega
  loglen := hs.loglen
  logDone := hs.logDone
  logPend := by
    intro d hp
    apply hs.logPend d
    simpa [CS.pending, flatten_replicate_nil] using hp

theorem cinv_step (s s' : CS) (a : CA) (hs : CInv s) (h : cstep s a = some s') : CInv s' := by
  cases a with
  | take i =>
    simp only [cstep] at h
    cases hq : removeNth s.chan i with
    | none => simp [hq] at h
    | some p =>
      obtain ⟨slot, rest⟩ := p
      simp only [hq, Option.some.injEq] at h
      subst h
      exact cinv_take s hs i slot rest hq
  | put j =>
    simp only [cstep] at h
    cases hq : removeNth s.held j with
    | none => simp [hq] at h
    | some p =>
      obtain ⟨⟨d0, slot⟩, rest⟩ := p
      simp only [hq, Option.some.injEq] at h
      subst h
      exact cinv_put s hs j d0 slot rest hq
  | drainOne i =>
    simp only [cstep] at h
    split at h
    · cases h
    · rename_i hg
      have hf : s.needFill = false := by
        cases hnf : s.needFill <;> simp [hnf] at hg ⊢
      cases hq : removeNth s.chan i with
      | none => simp [hq] at h
      | some p =>
        obtain ⟨slot, rest⟩ := p
        simp only [hq, Option.some.injEq] at h
        subst h
        exact cinv_drainOne s hs hf i slot rest hq
  | send =>
    simp only [cstep] at h
    split at h
    · rename_i hg
      simp only [Bool.and_eq_true, Bool.not_eq_true', beq_iff_eq] at hg
      simp only [Option.some.injEq] at h
      subst h
      exact cinv_send s hs hg.1 hg.2
    · cases h
  | fill =>
    simp only [cstep] at h
    split at h
    · rename_i hg
      simp only [Option.some.injEq] at h
      subst h
      exact cinv_fill s hs hg
    · cases h

theorem cinv_run (s s' : CS) (acts : List CA) (hs : CInv s) (h : crun s acts = some s') : CInv s' := by
  induction acts generalizing s with
  | nil => simp [crun] at h; subst h; exact hs
  | cons a t ih =>
    simp only [crun] at h
    cases hq : cstep s a with
    | none => simp [hq] at h
    | some s1 =>
      simp only [hq] at h
      exact ih s1 (cinv_step s s1 a hs hq) h


/-! ### grouping one typed sub-map by a key function -/
open AList

section split
variable {ν : Type}

def splitStep (kf : Key → String) (acc : AList String (AList Key ν)) (e : Key × ν) : AList String (AList Key ν) :=
  AList.upsert (kf e.1) (fun o => AList.upsert e.1 (fun _ => e.2) (o.getD [])) acc

theorem splitByKey_eq_foldl (kf : Key → String) (m : AList Key ν) : splitByKey kf m = m.foldl (splitStep kf) [] := rfl

def lookupIn (acc : AList String (AList Key ν)) (K : String) (k : Key) : Option ν := lookup k ((lookup K acc).getD [])

theorem lookupIn_step (kf : Key → String) (acc : AList String (AList Key ν)) (e : Key × ν) (K : String) (k : Key) :
    lookupIn (splitStep kf acc e) K k = if kf e.1 = K ∧ e.1 = k then some e.2 else lookupIn acc K k := by
  simp only [lookupIn, splitStep, lookup_upsert]
  by_cases h1 : kf e.1 = K
  · subst h1
    simp only [if_true, Option.getD_some, lookup_upsert, true_and]
  · simp [h1]

theorem lookupIn_foldl (kf : Key → String) (m : AList Key ν) (hm : NodupKeys m) (acc : AList String (AList Key ν))
    (K : String) (k : Key) :
    lookupIn (m.foldl (splitStep kf) acc) K k =
      match lookup k m with
      | some v => if kf k = K then some v else lookupIn acc K k
      | none => lookupIn acc K k := by
  induction m generalizing acc with
  | nil => simp
  | cons e t ih =>
    obtain ⟨k0, v0⟩ := e
    simp only [NodupKeys, keys, List.map_cons, List.nodup_cons] at hm
    simp only [List.foldl_cons, ih hm.2, lookupIn_step, lookup_cons]
    by_cases h : k0 = k
    · subst h
      have hnone : lookup k0 t = none := lookup_eq_none_of_not_mem_keys hm.1
      simp only [hnone, if_true, and_true]
    · simp only [h, if_false, and_false]

theorem lookup_splitByKey (kf : Key → String) (m : AList Key ν) (hm : NodupKeys m) (K : String) (k : Key) :
    lookup k ((lookup K (splitByKey kf m)).getD []) = if kf k = K then lookup k m else none := by
  have := lookupIn_foldl kf m hm [] K k
  simp only [lookupIn] at this
  rw [splitByKey_eq_foldl, this]
  cases lookup k m <;> simp

theorem keys_foldl_split (kf : Key → String) (m : AList Key ν) (acc : AList String (AList Key ν)) (K : String) :
    K ∈ keys (m.foldl (splitStep kf) acc) ↔ K ∈ keys acc ∨ ∃ e ∈ m, kf e.1 = K := by
  induction m generalizing acc with
  | nil => simp
  | cons e t ih =>
    simp only [List.foldl_cons, ih, splitStep, keys_upsert_mem, List.mem_cons, exists_eq_or_imp]
    constructor
    · rintro ((h | h) | h)
      · exact Or.inr (Or.inl h.symm)
      · exact Or.inl h
      · exact Or.inr (Or.inr h)
    · rintro (h | h | h)
      · exact Or.inl (Or.inr h)
      · exact Or.inl (Or.inl h.symm)
      · exact Or.inr h

theorem keys_splitByKey (kf : Key → String) (m : AList Key ν) (K : String) :
    K ∈ keys (splitByKey kf m) ↔ ∃ k ∈ keys m, kf k = K := by
  rw [splitByKey_eq_foldl, keys_foldl_split]
  simp only [keys, List.map_nil, List.not_mem_nil, false_or, List.mem_map]
  constructor
  · rintro ⟨e, he, h⟩; exact ⟨e.1, ⟨e, he, rfl⟩, h⟩
  · rintro ⟨k, ⟨e, he, rfl⟩, h⟩; exact ⟨e, he, h⟩

theorem nodupKeys_splitByKey (kf : Key → String) (m : AList Key ν) : NodupKeys (splitByKey kf m) := by
  rw [splitByKey_eq_foldl]
  have : ∀ acc : AList String (AList Key ν), NodupKeys acc → NodupKeys (m.foldl (splitStep kf) acc) := by
    induction m with
    | nil => intro acc h; simpa using h
    | cons e t ih => intro acc h; exact ih _ (nodupKeys_upsert _ _ h)
  exact this [] (by simp [NodupKeys, keys])

end split

theorem mem_dedupStr (l : List String) (x : String) : x ∈ dedupStr l ↔ x ∈ l := by
  have gen : ∀ (l acc : List String), x ∈ l.foldl (fun acc x => if x ∈ acc then acc else acc ++ [x]) acc ↔ x ∈ acc ∨ x ∈ l := by
    intro l
    induction l with
    | nil => simp
    | cons y t ih =>
      intro acc
      simp only [List.foldl_cons, ih, List.mem_cons]
      by_cases hy : y ∈ acc
      · simp only [hy, if_true]
        constructor
        · rintro (h | h); exact Or.inl h; exact Or.inr (Or.inr h)
        · rintro (h | h | h); exact Or.inl h; exact Or.inl (h ▸ hy); exact Or.inr h
      · simp only [hy, if_false, List.mem_append, List.mem_cons, List.not_mem_nil, or_false]
        constructor
        · rintro ((h | h) | h); exact Or.inl h; exact Or.inr (Or.inl h); exact Or.inr (Or.inr h)
        · rintro (h | h | h); exact Or.inl (Or.inl h); exact Or.inl (Or.inr h); exact Or.inr h
  simpa [dedupStr] using gen l []

theorem nodup_dedupStr (l : List String) : (dedupStr l).Nodup := by
  have gen : ∀ (l acc : List String), acc.Nodup → (l.foldl (fun acc x => if x ∈ acc then acc else acc ++ [x]) acc).Nodup := by
    intro l
    induction l with
    | nil => intro acc h; simpa using h
    | cons y t ih =>
      intro acc h
      simp only [List.foldl_cons]
      apply ih
      by_cases hy : y ∈ acc
      · simpa [hy] using h
      · simp only [hy, if_false]
        exact List.nodup_append.mpr ⟨h, by simp, by intro a ha b hb; simp at hb; subst hb; exact fun e => hy (e ▸ ha)⟩
  exact gen l [] List.nodup_nil

theorem lookup_map_mk {β : Type} (f : String → β) (l : List String) (K : String) :
    lookup K (l.map (fun K => (K, f K))) = if K ∈ l then some (f K) else none := by
  induction l with
  | nil => simp
  | cons x t ih =>
    simp only [List.map_cons, lookup_cons, ih, List.mem_cons]
    by_cases h : x = K
    · subst h; simp
    · have : ¬ K = x := fun e => h e.symm
      simp [h, this]


/-! ### the retry loop -/

/-- the shape of every run of `retryLoop` from a `waiting` state: `m` failed attempts each followed by
a `next`, then exactly one of: a success; a failure with `Stop` (or an exhausted oracle); a failure
whose wait is cancelled; or the script ran out -/
theorem retryLoop_shape (script : List Outcome) (bo : List Backoff) (st : RetrySt) (hw : st.fin = .waiting) :
    let r := retryLoop script bo st
    r.c.created = st.c.created ∧ r.c.invalid = st.c.invalid ∧
    ((r.fin = .success ∧ ∃ m rest bo', script = List.replicate m .fail ++ .ok :: rest ∧ bo = List.replicate m .next ++ bo' ∧
        r.attempts = st.attempts ++ List.replicate m .fail ++ [.ok] ∧
        r.c.sent = st.c.sent + 1 ∧ r.c.dropped = st.c.dropped ∧ r.c.retried = st.c.retried + m) ∨
     (r.fin = .stopped ∧ ∃ m rest bo', script = List.replicate m .fail ++ .fail :: rest ∧ bo = List.replicate m .next ++ bo' ∧
        (bo' = [] ∨ ∃ t, bo' = .stop :: t) ∧
        r.attempts = st.attempts ++ List.replicate (m + 1) .fail ∧
        r.c.sent = st.c.sent ∧ r.c.dropped = st.c.dropped + 1 ∧ r.c.retried = st.c.retried + m) ∨
     (r.fin = .cancelled ∧ ∃ m rest t, script = List.replicate m .fail ++ .fail :: rest ∧ bo = List.replicate m .next ++ .cancel :: t ∧
        r.attempts = st.attempts ++ List.replicate (m + 1) .fail ∧
        r.c.sent = st.c.sent ∧ r.c.dropped = st.c.dropped ∧ r.c.retried = st.c.retried + m + 1) ∨
     (r.fin = .waiting ∧ ∃ m bo', script = List.replicate m .fail ∧ bo = List.replicate m .next ++ bo' ∧
        r.attempts = st.attempts ++ script ∧
        r.c.sent = st.c.sent ∧ r.c.dropped = st.c.dropped ∧ r.c.retried = st.c.retried + m)) := by
  induction script generalizing bo st with
  | nil =>
    simp only [retryLoop]
    refine ⟨(by first | trivial | rfl | simp), (by first | trivial | rfl | simp), Or.inr (Or.inr (Or.inr ⟨hw, 0, bo, (by first | trivial | simp), (by first | trivial | simp), (by first | trivial | simp), (by first | trivial | rfl | simp), (by first | trivial | rfl | simp), (by first | trivial | rfl | simp)⟩))⟩
  | cons o rest ih =>
    cases o with
    | ok =>
      simp only [retryLoop]
      refine ⟨(by first | trivial | rfl | simp), (by first | trivial | rfl | simp), Or.inl ⟨(by first | trivial | rfl | simp), 0, rest, bo, (by first | trivial | simp), (by first | trivial | simp), (by first | trivial | simp), (by first | trivial | rfl | simp), (by first | trivial | rfl | simp), (by first | trivial | rfl | simp)⟩⟩
    | fail =>
      cases bo with
      | nil =>
        simp only [retryLoop]
        refine ⟨(by first | trivial | rfl | simp), (by first | trivial | rfl | simp), Or.inr (Or.inl ⟨(by first | trivial | rfl | simp), 0, rest, [], (by first | trivial | simp), (by first | trivial | simp), Or.inl (by first | trivial | rfl | simp), (by first | trivial | simp), (by first | trivial | rfl | simp), (by first | trivial | rfl | simp), (by first | trivial | rfl | simp)⟩)⟩
      | cons b bo' =>
        cases b with
        | stop =>
          simp only [retryLoop]
          refine ⟨(by first | trivial | rfl | simp), (by first | trivial | rfl | simp), Or.inr (Or.inl ⟨(by first | trivial | rfl | simp), 0, rest, .stop :: bo', (by first | trivial | simp), (by first | trivial | simp), Or.inr ⟨bo', (by first | trivial | rfl | simp)⟩, (by first | trivial | simp), (by first | trivial | rfl | simp), (by first | trivial | rfl | simp), (by first | trivial | rfl | simp)⟩)⟩
        | cancel =>
          simp only [retryLoop]
          refine ⟨(by first | trivial | rfl | simp), (by first | trivial | rfl | simp), Or.inr (Or.inr (Or.inl ⟨(by first | trivial | rfl | simp), 0, rest, bo', (by first | trivial | simp), (by first | trivial | simp), (by first | trivial | simp), (by first | trivial | rfl | simp), (by first | trivial | rfl | simp), (by first | trivial | rfl | simp)⟩))⟩
        | next =>
          simp only [retryLoop]
          have := ih bo' { attempts := st.attempts ++ [Outcome.fail], c := { st.c with retried := st.c.retried + 1 }, fin := st.fin } hw
          simp only at this
          obtain ⟨hc, hi, hcase⟩ := this
          refine ⟨hc, hi, ?_⟩
          rcases hcase with ⟨hf, m, r', b', h1, h2, h3, h4, h5, h6⟩ | ⟨hf, m, r', b', h1, h2, hb, h3, h4, h5, h6⟩ |
              ⟨hf, m, r', t, h1, h2, h3, h4, h5, h6⟩ | ⟨hf, m, b', h1, h2, h3, h4, h5, h6⟩
          · refine Or.inl ⟨hf, m + 1, r', b', by simp [h1, List.replicate_succ], by simp [h2, List.replicate_succ], ?_, h4, h5, by omega⟩
            simp [h3, List.replicate_succ, List.append_assoc]
          · refine Or.inr (Or.inl ⟨hf, m + 1, r', b', by simp [h1, List.replicate_succ], by simp [h2, List.replicate_succ], hb, ?_, h4, h5, by omega⟩)
            simp [h3, List.replicate_succ, List.append_assoc]
          · refine Or.inr (Or.inr (Or.inl ⟨hf, m + 1, r', t, by simp [h1, List.replicate_succ], by simp [h2, List.replicate_succ], ?_, h4, h5, by omega⟩))
            simp [h3, List.replicate_succ, List.append_assoc]
          · refine Or.inr (Or.inr (Or.inr ⟨hf, m + 1, b', by simp [h1, List.replicate_succ], by simp [h2, List.replicate_succ], ?_, h4, h5, by omega⟩))
            simp [h3, List.append_assoc]

end Gsd
