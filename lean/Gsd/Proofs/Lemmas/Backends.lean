import Gsd.Model.Backends
/-! Helper lemmas for C17: the batching loops (for **all** lists, open batches and sizes), counting of
sub-metric identities in `emit`, and the pieces of the relay round trip. -/
set_option linter.unusedSimpArgs false
set_option linter.unusedSectionVars false
set_option linter.unusedVariables false
namespace Gsd.Backends

/-! ## batching -/
section batching
variable {α : Type}

theorem eq_nil_of_not_length_pos {l : List α} (h : ¬ l.length > 0) : l = [] := by
  cases l with
  | nil => rfl
  | cons a t => simp at h

theorem flatten_countBatches (n : Nat) (l cur : List α) : (countBatches n l cur).flatten = cur ++ l := by
  induction l generalizing cur with
  | nil =>
    unfold countBatches
    split
    · simp
    · rename_i h; simp [eq_nil_of_not_length_pos h]
  | cons x xs ih =>
    unfold countBatches
    split
    · simp [ih]
    · simp [ih]

/-- every emitted batch has at most `n` entries, provided the open batch is below the limit -/
theorem length_countBatches (n : Nat) (l cur : List α) (hcur : cur.length < n) :
    ∀ b ∈ countBatches n l cur, b.length ≤ n ∧ 0 < b.length := by
  induction l generalizing cur with
  | nil =>
    unfold countBatches
    split
    · intro b hb; simp at hb; subst hb; omega
    · intro b hb; simp at hb
  | cons x xs ih =>
    unfold countBatches
    split
    · intro b hb
      simp only [List.mem_cons] at hb
      rcases hb with rfl | hb
      · simp; omega
      · exact ih [] (by simp; omega) b hb
    · rename_i h
      exact ih (cur ++ [x]) (by omega)

/-- all batches but the last are full -/
theorem full_countBatches (n : Nat) (l cur : List α) (hcur : cur.length < n) :
    ∀ b ∈ (countBatches n l cur).dropLast, b.length = n := by
  induction l generalizing cur with
  | nil =>
    unfold countBatches
    split <;> simp
  | cons x xs ih =>
    unfold countBatches
    split
    · rename_i h
      intro b hb
      have hlen : (cur ++ [x]).length = n := by simp at h ⊢; omega
      cases hrest : countBatches n xs [] with
      | nil => simp [hrest] at hb
      | cons r rs =>
        rw [hrest, List.dropLast_cons_cons] at hb
        simp only [List.mem_cons] at hb
        rcases hb with rfl | hb
        · exact hlen
        · exact ih [] (by simp; omega) b (by rw [hrest]; exact hb)
    · rename_i h
      exact ih (cur ++ [x]) (by omega)

theorem flatten_slackBatches (slack n : Nat) (gs : List (List α)) (cur : List α) :
    (slackBatches slack n gs cur).flatten = cur ++ gs.flatten := by
  induction gs generalizing cur with
  | nil =>
    unfold slackBatches
    split
    · simp
    · rename_i h; simp [eq_nil_of_not_length_pos h]
  | cons g gs ih =>
    unfold slackBatches
    split
    · simp [ih]
    · simp [ih]

/-- datadog / newrelic never split the records of one series over two requests: the batches are
concatenations of whole groups -/
theorem slackBatches_groups (slack n : Nat) (gs : List (List α)) (cur : List α) (pre : List (List α))
    (hpre : pre.flatten = cur) :
    ∃ parts : List (List (List α)), parts.flatten = pre ++ gs ∧
      ∀ b ∈ slackBatches slack n gs cur, ∃ p ∈ parts, p.flatten = b := by
  induction gs generalizing cur pre with
  | nil =>
    unfold slackBatches
    refine ⟨[pre], by simp, ?_⟩
    split
    · intro b hb; simp at hb; subst hb; exact ⟨pre, by simp, hpre⟩
    · intro b hb; simp at hb
  | cons g gs ih =>
    unfold slackBatches
    split
    · obtain ⟨parts, hp, hb⟩ := ih [] [] rfl
      refine ⟨(pre ++ [g]) :: parts, by simp [hp], ?_⟩
      intro b hmem
      simp only [List.mem_cons] at hmem
      rcases hmem with rfl | hmem
      · exact ⟨pre ++ [g], by simp, by simp [hpre]⟩
      · obtain ⟨p, hp1, hp2⟩ := hb b hmem
        exact ⟨p, by simp [hp1], hp2⟩
    · obtain ⟨parts, hp, hb⟩ := ih (cur ++ g) (pre ++ [g]) (by simp [hpre])
      exact ⟨parts, by simpa using hp, hb⟩

theorem flatten_otlpBatches (n : Nat) (l cur : List α) : (otlpBatches n l cur).flatten = cur ++ l := by
  induction l generalizing cur with
  | nil => simp [otlpBatches]
  | cons x xs ih =>
    unfold otlpBatches
    split <;> simp [ih]

theorem length_otlpBatches (n : Nat) (l cur : List α) (hcur : cur.length < n) :
    ∀ b ∈ otlpBatches n l cur, b.length ≤ n := by
  induction l generalizing cur with
  | nil => intro b hb; simp [otlpBatches] at hb; subst hb; omega
  | cons x xs ih =>
    unfold otlpBatches
    split
    · intro b hb
      simp only [List.mem_cons] at hb
      rcases hb with rfl | hb
      · simp; omega
      · exact ih [] (by simp; omega) b hb
    · rename_i h
      exact ih (cur ++ [x]) (by omega)

theorem flatten_cwGo (k : Nat) (hk : 1 ≤ k) (fuel : Nat) (l : List α) (h : l.length ≤ fuel) :
    (cwGo k fuel l).flatten = l := by
  induction fuel generalizing l with
  | zero => simp at h; subst h; simp [cwGo]
  | succ f ih =>
    unfold cwGo
    split
    · rename_i h0
      have : l = [] := by cases l <;> simp_all
      simp [this]
    · have hd : (l.drop k).length ≤ f := by simp; omega
      simp [ih _ hd]

theorem length_cwGo (k fuel : Nat) (l : List α) : ∀ b ∈ cwGo k fuel l, b.length ≤ k ∧ 0 < b.length ∨ k = 0 := by
  induction fuel generalizing l with
  | zero => intro b hb; simp [cwGo] at hb
  | succ f ih =>
    unfold cwGo
    split
    · intro b hb; simp at hb
    · rename_i h0
      intro b hb
      simp only [List.mem_cons] at hb
      rcases hb with rfl | hb
      · by_cases hk : k = 0
        · exact Or.inr hk
        · left; simp [List.length_take]; omega
      · exact ih _ b hb

theorem totalLen_append (len : α → Nat) (a b : List α) : totalLen len (a ++ b) = totalLen len a + totalLen len b := by
  simp [totalLen]

theorem totalLen_pos_of_mem (len : α → Nat) (l : List α) (hpos : ∀ x ∈ l, 0 < len x) (hne : l ≠ []) :
    0 < totalLen len l := by
  cases l with
  | nil => exact absurd rfl hne
  | cons a t =>
    have := hpos a (by simp)
    simp [totalLen]; omega

theorem flatten_packBatches (len : α → Nat) (P : Nat) (l cur : List α) (hpos : ∀ x ∈ cur ++ l, 0 < len x) :
    (packBatches len P l cur).flatten = cur ++ l := by
  induction l generalizing cur with
  | nil =>
    unfold packBatches
    split
    · simp
    · rename_i h
      by_cases hc : cur = []
      · simp [hc]
      · exact absurd (totalLen_pos_of_mem len cur (by intro x hx; exact hpos x (by simp [hx])) hc) h
  | cons x xs ih =>
    unfold packBatches
    split
    · rw [List.flatten_cons, ih [x] (by intro y hy; exact hpos y (by simp at hy ⊢; grind))]
      simp
    · rw [ih (cur ++ [x]) (by intro y hy; exact hpos y (by simp at hy ⊢; grind))]
      simp

/-- the bytes of the datagrams are the bytes of the lines, with no hypothesis on the lines -/
theorem totalLen_packBatches (len : α → Nat) (P : Nat) (l cur : List α) :
    ((packBatches len P l cur).map (totalLen len)).sum = totalLen len cur + totalLen len l := by
  induction l generalizing cur with
  | nil =>
    unfold packBatches
    split
    · simp [totalLen]
    · rename_i h; simp [totalLen] at h ⊢; try omega
  | cons x xs ih =>
    unfold packBatches
    split
    · simp [ih, totalLen] <;> omega
    · simp [ih, totalLen] <;> omega

/-- a datagram is within the packet size unless it consists of a single line -/
theorem limit_packBatches (len : α → Nat) (P : Nat) (l cur : List α)
    (hcur : totalLen len cur ≤ P ∨ cur.length ≤ 1) :
    ∀ d ∈ packBatches len P l cur, totalLen len d ≤ P ∨ d.length ≤ 1 := by
  induction l generalizing cur with
  | nil =>
    unfold packBatches
    split
    · intro d hd; simp at hd; subst hd; exact hcur
    · intro d hd; simp at hd
  | cons x xs ih =>
    unfold packBatches
    split
    · intro d hd
      simp only [List.mem_cons] at hd
      rcases hd with rfl | hd
      · exact hcur
      · exact ih [x] (Or.inr (by simp)) d hd
    · rename_i h
      exact ih (cur ++ [x]) (Or.inl (by rw [totalLen_append]; simp [totalLen] at h ⊢; omega))

/-- a datagram never starts empty-handed: an over-long line is sent alone, nothing is merged into it -/
theorem packBatches_overlong_alone (len : α → Nat) (P : Nat) (l cur : List α)
    (hcur : ∀ x ∈ cur, P < len x → cur = [x]) :
    ∀ d ∈ packBatches len P l cur, ∀ x ∈ d, P < len x → d = [x] := by
  induction l generalizing cur with
  | nil =>
    unfold packBatches
    split
    · intro d hd; simp at hd; subst hd; exact hcur
    · intro d hd; simp at hd
  | cons y ys ih =>
    unfold packBatches
    split
    · intro d hd
      simp only [List.mem_cons] at hd
      rcases hd with rfl | hd
      · exact hcur
      · exact ih [y] (by intro x hx _; simp at hx; subst hx; rfl) d hd
    · rename_i h
      apply ih (cur ++ [y])
      intro x hx hlong
      simp only [List.mem_append, List.mem_singleton] at hx
      have htot : totalLen len cur + len y ≤ P := by omega
      rcases hx with hx | rfl
      · have hc := hcur x hx hlong
        rw [hc] at htot; simp [totalLen] at htot; omega
      · by_cases hc : cur = []
        · simp [hc]
        · omega

end batching

/-! ## counting sub-metric identities -/
section counting

theorem count_imap_sub {α : Type} (f : Nat → α → Record) (mk : Nat → Sub) (hmk : ∀ j a, (f j a).sub = mk j)
    (hinj : ∀ i j, mk i = mk j → i = j) (n : Nat) (l : List α) (j0 : Nat) :
    ((imap f n l).map (·.sub)).count (mk j0) = if n ≤ j0 ∧ j0 < n + l.length then 1 else 0 := by
  induction l generalizing n with
  | nil => simp [imap]
  | cons a t ih =>
    simp only [imap, List.map_cons, List.count_cons, hmk, ih (n + 1), List.length_cons]
    by_cases h : mk n = mk j0
    · have := hinj _ _ h; subst this
      simp <;> omega
    · have hne : n ≠ j0 := fun e => h (by rw [e])
      simp only [beq_iff_eq, h, if_false]
      by_cases h2 : n + 1 ≤ j0 ∧ j0 < n + 1 + t.length
      · rw [if_pos h2, if_pos (by omega)]
      · rw [if_neg h2, if_neg (by omega)]

theorem count_imap_sub_other {α : Type} (f : Nat → α → Record) (mk : Nat → Sub) (hmk : ∀ j a, (f j a).sub = mk j)
    (x : Sub) (hx : ∀ j, mk j ≠ x) (n : Nat) (l : List α) :
    ((imap f n l).map (·.sub)).count x = 0 := by
  induction l generalizing n with
  | nil => simp [imap]
  | cons a t ih =>
    simp only [imap, List.map_cons, List.count_cons, hmk, ih (n + 1)]
    simp [hx n]

theorem key_imap {α : Type} (f : Nat → α → Record) (k : Key) (hk : ∀ j a, (f j a).key = k) (n : Nat) (l : List α) :
    ∀ r ∈ imap f n l, r.key = k := by
  induction l generalizing n with
  | nil => intro r hr; simp [imap] at hr
  | cons a t ih =>
    intro r hr
    simp only [imap, List.mem_cons] at hr
    rcases hr with rfl | hr
    · exact hk _ _
    · exact ih _ r hr

/-- two records per entry (New Relic histogram buckets: count and per-second companion): the identities of
the flattened pairs are those of the two single-record walks -/
theorem count_imap_pair_sub {α : Type} (r1 r2 : Nat → α → Record) (x : Sub) (n : Nat) (l : List α) :
    (((imap (fun j a => [r1 j a, r2 j a]) n l).flatten).map (·.sub)).count x =
      ((imap r1 n l).map (·.sub)).count x + ((imap r2 n l).map (·.sub)).count x := by
  induction l generalizing n with
  | nil => simp [imap]
  | cons a t ih =>
    simp only [imap, List.flatten_cons, List.map_append, List.map_cons, List.map_nil, List.count_append,
      List.count_cons, List.count_nil, ih (n + 1)]
    omega

/-- … with subs `mk1 j` / `mk2 j` (injective, disjoint ranges): each of the `2 * length` identities exactly once -/
theorem count_imap_pair_fst {α : Type} (r1 r2 : Nat → α → Record) (mk1 mk2 : Nat → Sub)
    (h1 : ∀ j a, (r1 j a).sub = mk1 j) (h2 : ∀ j a, (r2 j a).sub = mk2 j)
    (hinj1 : ∀ i j, mk1 i = mk1 j → i = j) (hdisj : ∀ i j, mk1 i ≠ mk2 j) (n : Nat) (l : List α) (j0 : Nat) :
    (((imap (fun j a => [r1 j a, r2 j a]) n l).flatten).map (·.sub)).count (mk1 j0) =
      if n ≤ j0 ∧ j0 < n + l.length then 1 else 0 := by
  rw [count_imap_pair_sub, count_imap_sub r1 mk1 h1 hinj1,
    count_imap_sub_other r2 mk2 h2 _ (fun j e => hdisj j0 j e.symm)]
  simp

theorem count_imap_pair_snd {α : Type} (r1 r2 : Nat → α → Record) (mk1 mk2 : Nat → Sub)
    (h1 : ∀ j a, (r1 j a).sub = mk1 j) (h2 : ∀ j a, (r2 j a).sub = mk2 j)
    (hinj2 : ∀ i j, mk2 i = mk2 j → i = j) (hdisj : ∀ i j, mk1 i ≠ mk2 j) (n : Nat) (l : List α) (j0 : Nat) :
    (((imap (fun j a => [r1 j a, r2 j a]) n l).flatten).map (·.sub)).count (mk2 j0) =
      if n ≤ j0 ∧ j0 < n + l.length then 1 else 0 := by
  rw [count_imap_pair_sub, count_imap_sub r2 mk2 h2 hinj2,
    count_imap_sub_other r1 mk1 h1 _ (fun j e => hdisj j j0 e)]
  simp

theorem count_imap_pair_other {α : Type} (r1 r2 : Nat → α → Record) (mk1 mk2 : Nat → Sub)
    (h1 : ∀ j a, (r1 j a).sub = mk1 j) (h2 : ∀ j a, (r2 j a).sub = mk2 j)
    (x : Sub) (hx1 : ∀ j, mk1 j ≠ x) (hx2 : ∀ j, mk2 j ≠ x) (n : Nat) (l : List α) :
    (((imap (fun j a => [r1 j a, r2 j a]) n l).flatten).map (·.sub)).count x = 0 := by
  rw [count_imap_pair_sub, count_imap_sub_other r1 mk1 h1 _ hx1, count_imap_sub_other r2 mk2 h2 _ hx2]

theorem key_imap_pair {α : Type} (r1 r2 : Nat → α → Record) (k : Key) (hk1 : ∀ j a, (r1 j a).key = k)
    (hk2 : ∀ j a, (r2 j a).key = k) (n : Nat) (l : List α) :
    ∀ r ∈ (imap (fun j a => [r1 j a, r2 j a]) n l).flatten, r.key = k := by
  induction l generalizing n with
  | nil => intro r hr; simp [imap] at hr
  | cons a t ih =>
    intro r hr
    simp only [imap, List.flatten_cons, List.mem_append, List.mem_cons, List.not_mem_nil, or_false] at hr
    rcases hr with (rfl | rfl) | hr
    · exact hk1 _ _
    · exact hk2 _ _
    · exact ih _ r hr

theorem timerSubs_nodup : timerSubs.Nodup := by decide

theorem count_nodup {α : Type} [DecidableEq α] (l : List α) (h : l.Nodup) (x : α) :
    l.count x = if x ∈ l then 1 else 0 := by
  induction l with
  | nil => simp
  | cons a t ih =>
    rw [List.nodup_cons] at h
    rw [List.count_cons, ih h.2]
    by_cases e : a = x
    · subst e; simp [h.1]
    · have : ¬ x = a := fun e' => e e'.symm
      simp [e, this]

theorem count_timerSubs_filter (dis : Sub → Bool) (x : Sub) :
    ((timerSubs.filter (fun y => !dis y)).count x) = if timerSubs.contains x && !dis x then 1 else 0 := by
  have hnd : (timerSubs.filter (fun y => !dis y)).Nodup := timerSubs_nodup.filter _
  rw [count_nodup _ hnd]
  simp only [List.mem_filter, List.contains_iff_mem, Bool.and_eq_true, Bool.not_eq_eq_eq_not, Bool.not_true,
    decide_eq_true_eq]

/-- identities of a plain (non-histogram) timer -/
theorem count_plainTimer (s : Series) (dis : Sub → Bool) (mk : Sub → Record) (mkP : Nat → Pct → Record)
    (hmk : ∀ x, (mk x).sub = x) (hmkP : ∀ j p, (mkP j p).sub = .pct j) (x : Sub) :
    ((plainTimer s dis mk mkP).map (·.sub)).count x =
      if (timerSubs.contains x && !dis x) || (match x with | .pct j => decide (j < s.pcts.length) | _ => false) then 1 else 0 := by
  unfold plainTimer
  rw [List.map_append, List.count_append, List.map_map]
  have h1 : (List.map ((fun r => r.sub) ∘ mk) (timerSubs.filter fun y => !dis y)) = timerSubs.filter (fun y => !dis y) := by
    conv => rhs; rw [← List.map_id (timerSubs.filter fun y => !dis y)]
    apply List.map_congr_left
    intro a _; simp [hmk]
  rw [h1, count_timerSubs_filter]
  cases x with
  | pct j =>
    have := count_imap_sub mkP Sub.pct hmkP (by intro i j h; injection h) 0 s.pcts j
    rw [this]
    have hc : timerSubs.contains (Sub.pct j) = false := by simp [timerSubs]
    have hc' : ¬ (Sub.pct j ∈ timerSubs) := by simp [timerSubs]
    simp [hc, hc']
  | _ =>
    rw [count_imap_sub_other mkP Sub.pct hmkP _ (by intro j; simp) 0 s.pcts]
    simp

end counting

end Gsd.Backends

namespace Gsd.Backends
set_option linter.unusedSimpArgs false
set_option linter.unusedVariables false

/-! ## per-backend: the identities of `emit c s` are exactly the enabled sub-metrics, each once -/
section perBackend

macro "count_std_tac" x:ident : tactic => `(tactic| (
  first
  | (cases $x:ident <;> simp [rec0, List.count_cons])
  ))

theorem count_ddEmit (c : Cfg) (s : Series) (x : Sub) :
    ((ddEmit c s).map (·.sub)).count x = if enabledStd c.mask s x then 1 else 0 := by
  unfold ddEmit enabledStd
  cases hk : s.kind <;> dsimp only
  · cases x <;> simp [rec0, List.count_cons]
  · cases hh : s.hist with
    | some bs =>
      dsimp only
      cases x with
      | bucket j => rw [count_imap_sub _ Sub.bucket (by intros; rfl) (by intro i j h; injection h)]; simp
      | _ => rw [count_imap_sub_other _ Sub.bucket (by intros; rfl) _ (by intro j; simp)]; simp
    | none => dsimp only; rw [count_plainTimer _ _ _ _ (by intro; rfl) (by intros; rfl)]; cases x <;> rfl
  · cases x <;> simp [rec0, List.count_cons]
  · cases x <;> simp [rec0, List.count_cons]

theorem count_cwEmit (c : Cfg) (s : Series) (x : Sub) :
    ((cwEmit c s).map (·.sub)).count x = if enabledStd c.mask s x then 1 else 0 := by
  unfold cwEmit enabledStd
  cases hk : s.kind <;> dsimp only
  · cases x <;> simp [rec0, List.count_cons]
  · cases hh : s.hist with
    | some bs =>
      dsimp only
      cases x with
      | bucket j => rw [count_imap_sub _ Sub.bucket (by intros; rfl) (by intro i j h; injection h)]; simp
      | _ => rw [count_imap_sub_other _ Sub.bucket (by intros; rfl) _ (by intro j; simp)]; simp
    | none => dsimp only; rw [count_plainTimer _ _ _ _ (by intro; rfl) (by intros; rfl)]; cases x <;> rfl
  · cases x <;> simp [rec0, List.count_cons]
  · cases x <;> simp [rec0, List.count_cons]

theorem count_influxEmit (c : Cfg) (s : Series) (x : Sub) :
    ((influxEmit c s).map (·.sub)).count x = if enabledStd c.mask s x then 1 else 0 := by
  unfold influxEmit enabledStd
  cases hk : s.kind <;> dsimp only
  · cases x <;> simp [List.count_cons]
  · cases hh : s.hist with
    | some bs =>
      dsimp only
      cases x with
      | bucket j => rw [count_imap_sub _ Sub.bucket (by intros; rfl) (by intro i j h; injection h)]; simp
      | _ => rw [count_imap_sub_other _ Sub.bucket (by intros; rfl) _ (by intro j; simp)]; simp
    | none => dsimp only; rw [count_plainTimer _ _ _ _ (by intro; rfl) (by intros; rfl)]; cases x <;> rfl
  · cases x <;> simp [List.count_cons]
  · cases x <;> simp [List.count_cons]

theorem count_graphiteEmit (c : Cfg) (s : Series) (x : Sub) :
    ((graphiteEmit c s).map (·.sub)).count x = if enabledStd c.mask s x then 1 else 0 := by
  unfold graphiteEmit enabledStd
  cases hk : s.kind <;> dsimp only
  · split <;> (cases x <;> simp [List.count_cons])
  · cases hh : s.hist with
    | some bs =>
      dsimp only
      cases x with
      | bucket j => rw [count_imap_sub _ Sub.bucket (by intros; rfl) (by intro i j h; injection h)]; simp
      | _ => rw [count_imap_sub_other _ Sub.bucket (by intros; rfl) _ (by intro j; simp)]; simp
    | none => dsimp only; rw [count_plainTimer _ _ _ _ (by intro; rfl) (by intros; rfl)]; cases x <;> rfl
  · cases x <;> simp [List.count_cons]
  · cases x <;> simp [List.count_cons]

theorem count_stdoutEmit (c : Cfg) (s : Series) (x : Sub) :
    ((stdoutEmit c s).map (·.sub)).count x = if enabledStd c.mask s x then 1 else 0 := by
  unfold stdoutEmit enabledStd
  cases hk : s.kind <;> dsimp only
  · cases x <;> simp [List.count_cons]
  · cases hh : s.hist with
    | some bs =>
      dsimp only
      cases x with
      | bucket j => rw [count_imap_sub _ Sub.bucket (by intros; rfl) (by intro i j h; injection h)]; simp
      | _ => rw [count_imap_sub_other _ Sub.bucket (by intros; rfl) _ (by intro j; simp)]; simp
    | none => dsimp only; rw [count_plainTimer _ _ _ _ (by intro; rfl) (by intros; rfl)]; cases x <;> rfl
  · cases x <;> simp [List.count_cons]
  · cases x <;> simp [List.count_cons]

/-- otlp with timers as gauges -/
theorem count_otlpEmit_gauges (c : Cfg) (hg : c.otlpHist = false) (s : Series) (x : Sub) :
    ((otlpEmit c s).map (·.sub)).count x = if enabledStd c.mask s x then 1 else 0 := by
  unfold otlpEmit enabledStd
  cases hk : s.kind <;> dsimp only
  · cases x <;> simp [List.count_cons]
  · rw [if_neg (by simp [hg])]
    cases hh : s.hist with
    | some bs =>
      dsimp only
      cases x with
      | bucket j => rw [count_imap_sub _ Sub.bucket (by intros; rfl) (by intro i j h; injection h)]; simp
      | _ => rw [count_imap_sub_other _ Sub.bucket (by intros; rfl) _ (by intro j; simp)]; simp
    | none => dsimp only; rw [count_plainTimer _ _ _ _ (by intro; rfl) (by intros; rfl)]; cases x <;> rfl
  · cases x <;> simp [List.count_cons]
  · cases x <;> simp [List.count_cons]

/-- otlp with timers as one OTLP histogram each -/
theorem count_otlpEmit_hist (c : Cfg) (hg : c.otlpHist = true) (s : Series) (x : Sub) :
    ((otlpEmit c s).map (·.sub)).count x = if enabledOtlpHist s x then 1 else 0 := by
  unfold otlpEmit enabledOtlpHist
  cases hk : s.kind <;> dsimp only
  · cases x <;> simp [List.count_cons]
  · rw [if_pos hg]
    cases x <;> simp [List.count_cons]
  · cases x <;> simp [List.count_cons]
  · cases x <;> simp [List.count_cons]

/-- otlp, both values of `otlpHist` -/
theorem count_otlpEmit (c : Cfg) (s : Series) (x : Sub) :
    ((otlpEmit c s).map (·.sub)).count x = if enabledOtlp c s x then 1 else 0 := by
  unfold enabledOtlp
  cases hg : c.otlpHist
  · simpa using count_otlpEmit_gauges c hg s x
  · simpa using count_otlpEmit_hist c hg s x

/-- New Relic, all three flush types -/
theorem count_nrEmit (c : Cfg) (s : Series) (x : Sub) :
    ((nrEmit c s).map (·.sub)).count x = if enabledNr c s x then 1 else 0 := by
  have hb : ∀ i j, Sub.bucket i = Sub.bucket j → i = j := by intro i j h; injection h
  have hp : ∀ i j, Sub.bucketPs i = Sub.bucketPs j → i = j := by intro i j h; injection h
  unfold nrEmit enabledNr
  cases hm : c.nrMode <;> cases hk : s.kind <;> dsimp only
  -- infra
  · cases x <;> simp [List.count_cons]
  · cases hh : s.hist with
    | some bs =>
      dsimp only
      cases x with
      | bucket j =>
        rw [count_imap_pair_fst _ _ Sub.bucket Sub.bucketPs (by intros; rfl) (by intros; rfl) hb (by intro i j h; cases h)]
        simp
      | bucketPs j =>
        rw [count_imap_pair_snd _ _ Sub.bucket Sub.bucketPs (by intros; rfl) (by intros; rfl) hp (by intro i j h; cases h)]
        simp
      | _ =>
        rw [count_imap_pair_other _ _ Sub.bucket Sub.bucketPs (by intros; rfl) (by intros; rfl) _
          (by intro j; simp) (by intro j; simp)]
        simp
    | none =>
      dsimp only
      rw [List.map_cons, List.count_cons, count_plainTimer _ _ _ _ (by intro; rfl) (by intros; rfl)]
      cases x <;> simp [timerSubs]
  · cases x <;> simp [List.count_cons]
  · cases x <;> simp [List.count_cons]
  -- insights
  · cases x <;> simp [List.count_cons]
  · cases hh : s.hist with
    | some bs =>
      dsimp only
      cases x with
      | bucket j =>
        rw [count_imap_pair_fst _ _ Sub.bucket Sub.bucketPs (by intros; rfl) (by intros; rfl) hb (by intro i j h; cases h)]
        simp
      | bucketPs j =>
        rw [count_imap_pair_snd _ _ Sub.bucket Sub.bucketPs (by intros; rfl) (by intros; rfl) hp (by intro i j h; cases h)]
        simp
      | _ =>
        rw [count_imap_pair_other _ _ Sub.bucket Sub.bucketPs (by intros; rfl) (by intros; rfl) _
          (by intro j; simp) (by intro j; simp)]
        simp
    | none =>
      dsimp only
      rw [List.map_cons, List.count_cons, count_plainTimer _ _ _ _ (by intro; rfl) (by intros; rfl)]
      cases x <;> simp [timerSubs]
  · cases x <;> simp [List.count_cons]
  · cases x <;> simp [List.count_cons]
  -- metrics
  · cases x <;> simp [List.count_cons]
  · cases hh : s.hist with
    | some bs =>
      dsimp only
      cases x with
      | bucketPs j =>
        rw [count_imap_pair_fst _ _ Sub.bucketPs Sub.bucket (by intros; rfl) (by intros; rfl) hp (by intro i j h; cases h)]
        simp
      | bucket j =>
        rw [count_imap_pair_snd _ _ Sub.bucketPs Sub.bucket (by intros; rfl) (by intros; rfl) hb (by intro i j h; cases h)]
        simp
      | _ =>
        rw [count_imap_pair_other _ _ Sub.bucketPs Sub.bucket (by intros; rfl) (by intros; rfl) _
          (by intro j; simp) (by intro j; simp)]
        simp
    | none =>
      dsimp only
      rw [count_plainTimer _ _ _ _ (by intro y; split <;> rfl) (by intros; rfl)]
      cases x <;> simp [nrInSummary, timerSubs]
  · cases x <;> simp [List.count_cons]
  · split <;> (cases x <;> simp [List.count_cons])

theorem count_relayEmit (c : Cfg) (s : Series) (x : Sub) :
    ((relayEmit c s).map (·.sub)).count x = if enabledRelay s x then 1 else 0 := by
  unfold relayEmit enabledRelay
  cases hk : s.kind <;> dsimp only
  · split <;> (cases x <;> simp_all [List.count_cons])
  · cases x with
    | tval j => rw [count_imap_sub _ Sub.tval (by intros; rfl) (by intro i j h; injection h)]; simp
    | _ => rw [count_imap_sub_other _ Sub.tval (by intros; rfl) _ (by intro j; simp)]; simp
  · cases x <;> simp [List.count_cons]
  · cases x with
    | member j => rw [count_imap_sub _ Sub.member (by intros; rfl) (by intro i j h; injection h)]; simp
    | _ => rw [count_imap_sub_other _ Sub.member (by intros; rfl) _ (by intro j; simp)]; simp

end perBackend
end Gsd.Backends

namespace Gsd.Backends
set_option linter.unusedSimpArgs false
set_option linter.unusedVariables false

/-! ## from one series to the whole view -/
section wholeView

/-- the (series, sub-metric) identities of a list of records -/
def ids (rs : List Record) : List (Key × Sub) := rs.map (fun r => (r.key, r.sub))

/-- the backends that share the statsd naming scheme (otlp when timers are converted to gauges) -/
def StdBackend (c : Cfg) : Prop :=
  c.backend = .datadog ∨ c.backend = .influxdb ∨ c.backend = .graphite ∨ c.backend = .cloudwatch ∨
  c.backend = .stdout ∨ (c.backend = .otlp ∧ c.otlpHist = false)

/-- which sub-metrics the property calls enabled, for every backend: the relay, New Relic (three flush
types), otlp (timers as gauges or as histograms) and the statsd naming family -/
def enabled (c : Cfg) (s : Series) (x : Sub) : Bool :=
  match c.backend with
  | .statsdaemon => enabledRelay s x
  | .newrelic => enabledNr c s x
  | .otlp => enabledOtlp c s x
  | _ => enabledStd c.mask s x

theorem enabled_std (c : Cfg) (hc : StdBackend c) (s : Series) (x : Sub) : enabled c s x = enabledStd c.mask s x := by
  unfold enabled
  rcases hc with h | h | h | h | h | ⟨h, hg⟩ <;> rw [h] <;> dsimp only
  simp [enabledOtlp, hg]

theorem enabled_newrelic (c : Cfg) (hc : c.backend = .newrelic) (s : Series) (x : Sub) : enabled c s x = enabledNr c s x := by
  unfold enabled; rw [hc]

theorem enabled_otlp (c : Cfg) (hc : c.backend = .otlp) (s : Series) (x : Sub) : enabled c s x = enabledOtlp c s x := by
  unfold enabled; rw [hc]

theorem enabled_relay (c : Cfg) (hc : c.backend = .statsdaemon) (s : Series) (x : Sub) : enabled c s x = enabledRelay s x := by
  unfold enabled; rw [hc]

theorem key_plainTimer (s : Series) (dis : Sub → Bool) (mk : Sub → Record) (mkP : Nat → Pct → Record)
    (hmk : ∀ x, (mk x).key = s.key) (hmkP : ∀ j p, (mkP j p).key = s.key) :
    ∀ r ∈ plainTimer s dis mk mkP, r.key = s.key := by
  intro r hr
  unfold plainTimer at hr
  rw [List.mem_append] at hr
  rcases hr with hr | hr
  · rw [List.mem_map] at hr
    obtain ⟨x, _, rfl⟩ := hr
    exact hmk x
  · exact key_imap mkP s.key hmkP 0 s.pcts r hr

theorem key_ddEmit (c : Cfg) (s : Series) : ∀ r ∈ ddEmit c s, r.key = s.key := by
  intro r hr
  unfold ddEmit at hr
  split at hr
  · simp [rec0] at hr; rcases hr with rfl | rfl <;> rfl
  · split at hr
    · exact key_imap _ s.key (by intros; rfl) 0 _ r hr
    · exact key_plainTimer s _ _ _ (by intro; rfl) (by intros; rfl) r hr
  · simp [rec0] at hr; subst hr; rfl
  · simp [rec0] at hr; subst hr; rfl

theorem key_influxEmit (c : Cfg) (s : Series) : ∀ r ∈ influxEmit c s, r.key = s.key := by
  intro r hr
  unfold influxEmit at hr
  split at hr
  · simp at hr; rcases hr with rfl | rfl <;> rfl
  · split at hr
    · exact key_imap _ s.key (by intros; rfl) 0 _ r hr
    · exact key_plainTimer s _ _ _ (by intro; rfl) (by intros; rfl) r hr
  · simp at hr; subst hr; rfl
  · simp at hr; subst hr; rfl

theorem key_graphiteEmit (c : Cfg) (s : Series) : ∀ r ∈ graphiteEmit c s, r.key = s.key := by
  intro r hr
  unfold graphiteEmit at hr
  split at hr
  · split at hr <;> (simp at hr; rcases hr with rfl | rfl <;> rfl)
  · split at hr
    · exact key_imap _ s.key (by intros; rfl) 0 _ r hr
    · exact key_plainTimer s _ _ _ (by intro; rfl) (by intros; rfl) r hr
  · simp at hr; subst hr; rfl
  · simp at hr; subst hr; rfl

theorem key_cwEmit (c : Cfg) (s : Series) : ∀ r ∈ cwEmit c s, r.key = s.key := by
  intro r hr
  unfold cwEmit at hr
  split at hr
  · simp [rec0] at hr; rcases hr with rfl | rfl <;> rfl
  · split at hr
    · exact key_imap _ s.key (by intros; rfl) 0 _ r hr
    · exact key_plainTimer s _ _ _ (by intro; rfl) (by intros; rfl) r hr
  · simp [rec0] at hr; subst hr; rfl
  · simp [rec0] at hr; subst hr; rfl

theorem key_stdoutEmit (c : Cfg) (s : Series) : ∀ r ∈ stdoutEmit c s, r.key = s.key := by
  intro r hr
  unfold stdoutEmit at hr
  split at hr
  · simp at hr; rcases hr with rfl | rfl <;> rfl
  · split at hr
    · exact key_imap _ s.key (by intros; rfl) 0 _ r hr
    · exact key_plainTimer s _ _ _ (by intro; rfl) (by intros; rfl) r hr
  · simp at hr; subst hr; rfl
  · simp at hr; subst hr; rfl

/-- otlp, both values of `otlpHist` -/
theorem key_otlpEmit (c : Cfg) (s : Series) : ∀ r ∈ otlpEmit c s, r.key = s.key := by
  intro r hr
  unfold otlpEmit at hr
  split at hr
  · simp at hr; rcases hr with rfl | rfl <;> rfl
  · simp at hr; subst hr; rfl
  · simp at hr; subst hr; rfl
  · split at hr
    · simp at hr; subst hr; rfl
    · split at hr
      · exact key_imap _ s.key (by intros; rfl) 0 _ r hr
      · exact key_plainTimer s _ _ _ (by intro; rfl) (by intros; rfl) r hr

theorem key_relayEmit (c : Cfg) (s : Series) : ∀ r ∈ relayEmit c s, r.key = s.key := by
  intro r hr
  unfold relayEmit at hr
  split at hr
  · split at hr
    · simp at hr
    · simp at hr; subst hr; rfl
  · exact key_imap _ s.key (by intros; rfl) 0 _ r hr
  · simp at hr; subst hr; rfl
  · exact key_imap _ s.key (by intros; rfl) 0 _ r hr

/-- New Relic, all three flush types -/
theorem key_nrEmit (c : Cfg) (s : Series) : ∀ r ∈ nrEmit c s, r.key = s.key := by
  intro r hr
  unfold nrEmit at hr
  cases hm : c.nrMode <;> cases hk : s.kind <;> simp only [hm, hk] at hr
  case infra.timer | insights.timer =>
    cases hh : s.hist <;> simp only [hh] at hr
    · rw [List.mem_cons] at hr
      rcases hr with rfl | hr
      · rfl
      · exact key_plainTimer s _ _ _ (by intro; rfl) (by intros; rfl) r hr
    · exact key_imap_pair _ _ s.key (by intros; rfl) (by intros; rfl) 0 _ r hr
  case metrics.timer =>
    cases hh : s.hist <;> simp only [hh] at hr
    · exact key_plainTimer s _ _ _ (by intro y; split <;> rfl) (by intros; rfl) r hr
    · exact key_imap_pair _ _ s.key (by intros; rfl) (by intros; rfl) 0 _ r hr
  case metrics.set =>
    rw [List.mem_singleton] at hr
    subst hr
    split <;> rfl
  all_goals
    simp only [List.mem_cons, List.not_mem_nil, or_false] at hr
    first
    | (subst hr; rfl)
    | (rcases hr with rfl | rfl <;> rfl)

/-- every record of a series carries the series' Go map key — for every configuration -/
theorem key_emit (c : Cfg) (s : Series) : ∀ r ∈ emit c s, r.key = s.key := by
  unfold emit
  cases c.backend <;> dsimp only
  · exact key_ddEmit c s
  · exact key_influxEmit c s
  · exact key_graphiteEmit c s
  · exact key_nrEmit c s
  · exact key_otlpEmit c s
  · exact key_cwEmit c s
  · exact key_relayEmit c s
  · exact key_stdoutEmit c s

/-- the identities of one series, for every configuration: each enabled sub-metric once, nothing else -/
theorem count_sub_emit (c : Cfg) (s : Series) (x : Sub) :
    ((emit c s).map (·.sub)).count x = if enabled c s x then 1 else 0 := by
  unfold emit enabled
  cases c.backend <;> dsimp only
  · exact count_ddEmit c s x
  · exact count_influxEmit c s x
  · exact count_graphiteEmit c s x
  · exact count_nrEmit c s x
  · exact count_otlpEmit c s x
  · exact count_cwEmit c s x
  · exact count_relayEmit c s x
  · exact count_stdoutEmit c s x

theorem count_map_pair {rs : List Record} {k0 : Key} (h : ∀ r ∈ rs, r.key = k0) (k : Key) (x : Sub) :
    (ids rs).count (k, x) = if k0 = k then (rs.map (·.sub)).count x else 0 := by
  induction rs with
  | nil => simp [ids]
  | cons r t ih =>
    have hr := h r (by simp)
    have ht := ih (fun r' hr' => h r' (by simp [hr']))
    simp only [ids, List.map_cons, List.count_cons] at ht ⊢
    rw [ht, hr]
    by_cases e : k0 = k
    · subst e; simp
    · simp [e]

theorem count_ids_emit (c : Cfg) (s : Series) (k : Key) (x : Sub) :
    (ids (emit c s)).count (k, x) = if s.key = k ∧ enabled c s x then 1 else 0 := by
  rw [count_map_pair (key_emit c s), count_sub_emit c]
  by_cases e : s.key = k <;> simp [e]

theorem ids_append (a b : List Record) : ids (a ++ b) = ids a ++ ids b := by simp [ids]

theorem count_flatten_map (c : Cfg) (l : List Series) (a : Key × Sub) :
    (ids ((l.map (emit c)).flatten)).count a = (l.map (fun s => (ids (emit c s)).count a)).sum := by
  induction l with
  | nil => simp [ids]
  | cons s t ih => simp [ids_append, List.count_append, ih]

theorem sum_filter_kind (g : Series → Nat) (l : List Series) (k : Kind) :
    ((l.filter (fun s => s.kind = k)).map g).sum = (l.map (fun s => if s.kind = k then g s else 0)).sum := by
  induction l with
  | nil => simp
  | cons s t ih =>
    by_cases e : s.kind = k <;> simp [List.filter_cons, e, ih]

theorem sum_four_kinds (g : Series → Nat) (l : List Series) :
    (l.map (fun s => if s.kind = .counter then g s else 0)).sum + (l.map (fun s => if s.kind = .timer then g s else 0)).sum +
    (l.map (fun s => if s.kind = .gauge then g s else 0)).sum + (l.map (fun s => if s.kind = .set then g s else 0)).sum =
    (l.map g).sum := by
  induction l with
  | nil => simp
  | cons s t ih =>
    simp only [List.map_cons, List.sum_cons]
    cases hk : s.kind <;> simp <;> omega

/-- the records of the view are those of its series, whatever the backend's order over the four types -/
theorem count_expand (c : Cfg) (view : List Series) (a : Key × Sub) :
    (ids (expand c view)).count a = (view.map (fun s => (ids (emit c s)).count a)).sum := by
  have key : ∀ k, (ids (((view.filter (fun s => s.kind = k)).map (emit c)).flatten)).count a =
      (view.map (fun s => if s.kind = k then (ids (emit c s)).count a else 0)).sum := by
    intro k
    rw [count_flatten_map, sum_filter_kind]
  rw [← sum_four_kinds (fun s => (ids (emit c s)).count a) view]
  unfold expand groups order
  cases c.backend <;>
    simp only [List.flatMap_cons, List.flatMap_nil, List.append_nil, List.flatten_append, ids_append, List.count_append, key] <;>
    omega

theorem sum_indicator (view : List Series) (hnd : (view.map Series.key).Nodup) (k : Key) (p : Series → Bool) :
    (view.map (fun s => if s.key = k ∧ p s then 1 else 0)).sum =
      if view.any (fun s => decide (s.key = k) && p s) then 1 else 0 := by
  induction view with
  | nil => simp
  | cons s t ih =>
    simp only [List.map_cons, List.nodup_cons] at hnd
    have iht := ih hnd.2
    by_cases e : s.key = k
    · have hnone : t.any (fun s' => decide (s'.key = k) && p s') = false := by
        rw [List.any_eq_false]
        intro s' hs'
        have : s'.key ≠ k := by
          intro e'
          exact hnd.1 (by rw [List.mem_map]; exact ⟨s', hs', by rw [e', e]⟩)
        simp [this]
      have hsum : (t.map (fun s => if s.key = k ∧ p s then 1 else 0)).sum = 0 := by rw [iht, hnone]; simp
      by_cases hp : p s = true
      · simp [e, hp, hsum]
      · simp [e, hp, hsum, hnone]
    · simp [e, iht]

end wholeView
end Gsd.Backends
